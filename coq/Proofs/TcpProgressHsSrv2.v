(* C02 (liveness half), THE HANDSHAKE AFTER LOSSES, SERVER SIDE - network level.
   The client A is ESTABLISHED, the server B still in SYN-RECEIVED, and everything A has transmitted
   since its SYN is lost (the ACK of the SYN|ACK; A has transmitted no data yet): [fresh].
   On every fair schedule:
     - B's retransmission timer (plain, bounded by RTTE_MAX_RTO: [bplain], NI) fires and the SYN|ACK goes
       out again;
     - A answers a duplicate SYN|ACK with a challenge ACK unless its rate limiter (one per second) has
       not expired: C = max (now, challenge_ack_timer) is the instant from which it answers;
     - whatever A transmits first is numbered ISS(A)+1 and establishes B (Proofs/TcpProgressHsLive2.v).
   server_established_after_ack_loss: both ESTABLISHED (the regime invariant holds) before A's clock
   passes C + RTTE_MAX_RTO + 2 Dt. *)
From SV Require Import Lib.Base Gen.Consts.
From SV Require Import Model.Seq32 Model.Assembler Model.TcpBuf Model.TcpTypes Model.Tcp Model.TcpNet.
From SV Require Import Proofs.TcpSendBase Proofs.TcpLiveBase Proofs.TcpLiveProofs Proofs.TcpLiveMore
  Proofs.TcpLiveProgress.
From SV Require Import Proofs.TcpNetBase.
From SV Require Proofs.TcpNetInv Proofs.TcpRecvBase.
From SV Require Import Proofs.TcpProgressBase Proofs.TcpProgressFrame Proofs.TcpProgressCtl Proofs.TcpProgressRecv
  Proofs.TcpProgressSend Proofs.TcpProgressNet Proofs.TcpProgressData Proofs.TcpProgressAck
  Proofs.TcpProgressAll Proofs.TcpProgressSafe Proofs.TcpProgressHs Proofs.TcpProgressHsD Proofs.TcpProgressHs2
  Proofs.TcpProgressHsNet Proofs.TcpProgressHsInit Proofs.TcpProgressHsLive Proofs.TcpProgressHsLive2
  Proofs.TcpProgressHsRtx Proofs.TcpProgressHsSrv1.

Section Srv.
Variables isn Dack Dt Da : Z.

Notation sa st := (net_sock st SA).
Notation sb st := (net_sock st SB).
Notation X := (seq_add isn 1).

(* ---------------------------------------------------------------------------------------- *)
(* B's timer stays plain while B is in LISTEN / SYN-RECEIVED                                  *)
(* ---------------------------------------------------------------------------------------- *)
Definition bplain (st : net) : Prop := hs3 (s_state (sb st)) -> plain (s_timer (sb st)).

Lemma bplain_step st ev st' :
  HSR isn Dack st -> HSR isn Dack st' -> inv_at SA st -> inv_at SA st' ->
  script_ev SA ev -> net_step st ev = Ok st' -> bplain st -> bplain st'.
Proof.
  intros HR HR' HI HI' Hsc H Hpl HB'.
  pose proof HR as (Hinv & HV & HN & Ho). pose proof HR' as (Hinv' & HV' & HN' & Ho').
  assert (HB : hs3 (s_state (sb st))).
  { destruct Hinv as [HP | HG].
    - destruct (ph_phase _ _ _ HP) as [(_ & [B | B]) | (_ & B)]; rewrite B;
        [left | right; right | right; right]; reflexivity.
    - exfalso. pose proof (reg_step SA Dack st ev st' HN Ho HG HI HI' Hsc H) as HG'.
      rewrite (rg_est _ _ _ HG' SB) in HB'. destruct HB' as [X0 | [X0 | X0]]; discriminate. }
  pose proof (Hpl HB) as PB.
  destruct (step_cases st ev st' SB H) as [(ev0 & e' & Hse & He & ->) | E]; [|rewrite E; exact PB].
  apply (pc_plain _ (NI_live _ SB HN')); [exact HB'|].
  unfold net_sock. rewrite net_get_set_same.
  exact (sock_step_plain st ev SB ev0 e' HN Hsc Hse He HB PB).
Qed.

(* with a plain timer the SYN|ACK goes out again within RTTE_MAX_RTO *)
Lemma bplain_will_tx st T :
  NI st -> s_state (sb st) = SynReceived -> bplain st -> net_now st SB + max_rto_us <= T -> will_tx st SB T.
Proof.
  intros HN Hsb Hpl HT. pose proof max_rto_us_pos as Hmr. split; [lia|].
  pose proof (NI_live st SB HN) as Il.
  destruct (Hpl ltac:(rewrite Hsb; right; right; reflexivity)) as [Hidle | (e & He)].
  - left. assert (L : st_live (s_state (net_sock st SB)) = true) by (rewrite Hsb; reflexivity).
    destruct (li_K _ Il L) as [Ha | (Hfl & _)]; [|exact Hfl].
    destruct (s_timer (net_sock st SB)); discriminate.
  - right. exists e. split; [exact He|].
    destruct (HN SB) as (_ & _ & (_ & Hb) & _). unfold net_sock in He. rewrite He in Hb. unfold timer_bounded in Hb.
    unfold net_now in HT. lia.
Qed.

Lemma will_tx_mono st z T T' : T <= T' -> will_tx st z T -> will_tx st z T'.
Proof.
  intros HT (A & [B | (e & B1 & B2)]); (split; [lia|]); [left; exact B | right; exists e; split; [exact B1 | lia]].
Qed.

(* ---------------------------------------------------------------------------------------- *)
(* the fresh client                                                                          *)
(* ---------------------------------------------------------------------------------------- *)
Definition cA (st : net) : Z := s_challenge_ack_timer (sa st).

Lemma fresh_same st st' :
  net_sock st' SA = net_sock st SA -> (forall z, chan_to st' z = chan_to st z) -> fresh isn st -> fresh isn st'.
Proof. intros Es Ec F. unfold fresh in *. rewrite Es, !Ec. exact F. Qed.

(* A (fresh) receives a duplicate SYN|ACK: a challenge ACK numbered ISS+1, or - only while the rate
   limiter has not expired - nothing at all *)
Lemma A_f_segment st q e' :
  NI st -> opts_ok st -> hs_view isn st -> pre_hs isn Dack st ->
  s_state (sa st) = Established -> fresh isn st ->
  In q (chan_to st SA) ->
  ep_step (n_a st) (EvSegment (fst q) (wire_parse (snd q))) = Ok e' ->
  s_state (ep_sock e') = Established /\
  ((exists q0, ep_out e' = ep_out (n_a st) ++ [q0] /\ goodp isn q0) \/
   (net_now st SA < cA st /\ ep_out e' = ep_out (n_a st) /\ ep_sock e' = ep_sock (n_a st))).
Proof.
  intros HN Ho HV HP Hst (F1 & F2 & F3 & F4 & F5) Hin He.
  destruct (ep_step_spec _ _ _ He) as (s' & out & tags & Hs & Hk & _ & Hout & _).
  destruct (ph_tup _ _ _ HP) as (tA & T1 & T2 & T3 & T4 & T5 & T6 & T7 & T8).
  pose proof (NI_live st SA HN) as Il. pose proof (hv_tx _ _ HV SA) as Htx.
  pose proof (F5 q Hin) as Hc.
  destruct (ph_toA _ _ _ HP q Hin) as (_ & _ & Hpl & [(_ & Ha & Hsq) | (X0 & _)]); [|rewrite Hc in X0; discriminate].
  destruct (ph_ws _ _ _ HP Hst) as (Hws0 & _).
  unfold cA, net_now, net_sock in *. cbn [net_get] in *.
  cbn [tcp_step] in Hs. apply obind_ok in Hs. destruct Hs as (((s1 & rep) & tg) & Hi & Hs).
  assert (E1 : s1 = s' /\ out = OReply rep) by (inversion Hs; auto). destruct E1 as (-> & ->). clear Hs.
  destruct (accepts_of_sent_to _ tA (fst q) (wire_parse (snd q)) Hst T1 T4 (sent_to_parse _ _ (T8 q Hin))) as (A1 & A2 & A3).
  unfold iface_tcp_ingress in Hi. rewrite A1, A2, A3 in Hi.
  assert (Hc' : r_control (wire_parse (snd q)) = CSyn) by (unfold wire_parse; cbn [r_control]; exact Hc).
  assert (Hp' : r_payload (wire_parse (snd q)) = []) by (unfold wire_parse; cbn [r_payload]; exact Hpl).
  assert (Ha' : r_ack_number (wire_parse (snd q)) = Some (s_local_seq_no (ep_sock (n_a st)))).
  { unfold wire_parse. cbn [r_ack_number]. rewrite Ha, F1, X_norm. reflexivity. }
  assert (Nf : r_control (wire_parse (snd q)) <> CFin) by (rewrite Hc'; discriminate).
  assert (Nr : r_control (wire_parse (snd q)) <> CRst) by (rewrite Hc'; discriminate).
  assert (Htl : rb_len (s_tx_buffer (ep_sock (n_a st))) < 2 ^ 31)
    by (change (2 ^ 30) with 1073741824 in Htx; change (2 ^ 31) with 2147483648; lia).
  destruct (process_est_ackeq _ _ _ _ _ _ _ Il Hst Nf Nr Hp' Ha' Htl Hi) as (P1 & P2 & P3 & P4 & P5 & P6).
  destruct (process_est_keeps _ _ _ _ _ _ _ Hst Nf Nr Hi) as (S1 & _).
  assert (Hu : u32 (r_seq_number (wire_parse (snd q)))).
  { unfold wire_parse. cbn [r_seq_number]. unfold u32. change (2 ^ 32) with 4294967296. apply TcpRecvBase.seq_norm_range. }
  assert (Hsq' : r_seq_number (wire_parse (snd q)) = seq_subn (tcp_window_start (ep_sock (n_a st))) 1).
  { unfold wire_parse. cbn [r_seq_number]. rewrite Hws0, Hsq, TcpRecvBase.seq_add_as_norm, TcpRecvBase.seq_subn_norm.
    f_equal. lia. }
  destruct (process_est_dupsyn _ _ _ _ _ _ _ Il Hst Hc' Hp' Ha' Htl Hu Hsq' Hi) as (D1 & D2).
  split; [rewrite Hk, S1; exact Hst|].
  destruct rep as [q0|].
  - left. exists q0. cbn [wire_out opt_list] in Hout. split; [exact Hout|].
    destruct P6 as (_ & (C1 & _ & C3 & _)). split; [left; exact C1|].
    rewrite C3. rewrite <- F3. apply send_next_fn; [exact P3 | rewrite (P2 (eq_trans F2 (eq_sym F1))), F2, F1; reflexivity].
  - right. cbn [wire_out opt_list] in Hout. rewrite app_nil_r in Hout.
    split.
    { destruct (Z_lt_le_dec (cx_now (ep_cx (n_a st))) (s_challenge_ack_timer (ep_sock (n_a st)))) as [L | L]; [exact L|].
      exfalso. exact (D2 L eq_refl). }
    split; [exact Hout|]. rewrite Hk. exact (D1 eq_refl).
Qed.

(* A (fresh) is polled: what it transmits is numbered ISS+1; if it transmits nothing it stays fresh *)
Lemma A_f_dispatch st e' :
  NI st -> opts_ok st -> hs_view isn st -> pre_hs isn Dack st ->
  s_state (sa st) = Established -> fresh isn st ->
  ep_step (n_a st) (EvDispatch true) = Ok e' ->
  s_state (ep_sock e') = Established /\
  ((exists p, ep_out e' = ep_out (n_a st) ++ [p] /\ goodp isn p) \/
   (ep_out e' = ep_out (n_a st) /\ fresh isn (net_set st SA e') /\ cA (net_set st SA e') = cA st)).
Proof.
  intros HN Ho HV HP Hst (F1 & F2 & F3 & F4 & F5) He.
  destruct (ep_step_spec _ _ _ He) as (s' & out & tags & Hs & Hk & _ & Hout & _).
  destruct (ph_tup _ _ _ HP) as (tA & T1 & T2 & T3 & T4 & _).
  pose proof (NI_live st SA HN) as Il. destruct (Ho SA) as (Hto & Hka).
  unfold cA, net_sock in *. cbn [net_get] in *.
  cbn [tcp_step] in Hs. apply obind_ok in Hs. destruct Hs as (((s1 & res) & tg) & Hd & Hs).
  assert (E1 : s1 = s' /\ out = ODispatch res) by (inversion Hs; auto). destruct E1 as (-> & ->). clear Hs.
  destruct (dispatch_una_tx _ _ _ _ _ _ _ Il Hst Hto T1 T2 Hd) as (_ & _ & Hst' & _).
  split; [rewrite Hk; exact Hst'|].
  destruct res as [|p|p].
  - right. cbn [wire_out opt_list] in Hout. rewrite app_nil_r in Hout. split; [exact Hout|].
    destruct (dispatch_est_nothing _ _ _ _ _ _ Il Hst Hto T1 T2 (eq_trans F2 (eq_sym F1)) (eq_trans F3 (eq_sym F1)) Hd)
      as (N1 & N2 & N3).
    pose proof (dispatch_nothing_chf _ _ _ _ _ _ T1 T2 Hd) as N4.
    split.
    + unfold fresh, net_sock, chan_to. cbn [net_set net_get side_other n_a n_b]. rewrite Hk, Hout.
      split; [rewrite N1; exact F1|]. split; [rewrite N2; exact F1|]. split; [rewrite N3; exact F1|].
      split; assumption.
    + cbn [net_set net_get n_a]. rewrite Hk. exact N4.
  - left. exists p. cbn [wire_out opt_list] in Hout. split; [exact Hout|].
    destruct (dispatch_est_shape _ _ _ _ _ _ _ Hst Hst' T1 T2 Hka (ph_noka _ _ _ HP SA) Hd) as (_ & Hsh).
    destruct (Hsh p eq_refl) as (_ & _ & _ & _ & D5 & _).
    pose proof (dispatch_est_seq _ _ _ _ _ _ _ Il Hst Hto T1 T2 Hka (ph_noka _ _ _ HP SA)
                  (eq_trans F2 (eq_sym F1)) (eq_trans F3 (eq_sym F1)) Hd p eq_refl) as Hsq.
    split; [exact D5 | rewrite Hsq; exact F1].
  - exfalso. exact (dispatch_true_not_failed _ _ _ _ _ Hd p eq_refl).
Qed.

(* send / recv at the fresh A *)
Lemma A_f_quiet st ev0 e' :
  hs_view isn st ->
  s_state (sa st) = Established -> fresh isn st ->
  ((exists d, ev0 = EvSend d) \/ (exists n, ev0 = EvRecv n)) ->
  ep_step (n_a st) ev0 = Ok e' ->
  s_state (ep_sock e') = Established /\ ep_out e' = ep_out (n_a st) /\
  fresh isn (net_set st SA e') /\ cA (net_set st SA e') = cA st.
Proof.
  intros HV Hst (F1 & F2 & F3 & F4 & F5) Hev He.
  destruct (quiet_eff st SA ev0 e' Hev He) as ((Q1 & _ & _ & Q4 & Q5 & Q6 & _ & Q8 & Q9) & Qo).
  destruct (ep_step_spec _ _ _ He) as (s' & out & tags & Hs & Hk & _).
  pose proof (quiet_chf _ _ _ _ _ _ Hev Hs) as Hch.
  unfold cA, fresh, net_sock, chan_to in *. cbn [net_set net_get side_other n_a n_b] in *.
  split; [rewrite Q1; exact Hst|]. split; [exact Qo|].
  split.
  - rewrite Qo. split; [rewrite Q4; exact F1|]. split; [rewrite Q8; exact F2|].
    split; [|split; assumption].
    rewrite <- F3. apply send_next_fn; [rewrite Q6; reflexivity | exact Q8].
  - rewrite Hk. exact Hch.
Qed.

(* ---------------------------------------------------------------------------------------- *)
(* the phases                                                                                *)
(* ---------------------------------------------------------------------------------------- *)
(* C: the instant from which A answers a duplicate SYN|ACK.
   (a) the rate limiter expires by C and B will retransmit its SYN|ACK before its clock passes
       C + dk + RTTE_MAX_RTO;
   (b) the rate limiter has expired and a SYN|ACK is in flight towards A.
   Goal: a segment numbered ISS(A)+1 is in flight towards B (the last phase of
   Proofs/TcpProgressHsLive2.v). *)
Definition Js (C dk : Z) (fa : fair_aux) (st : net) : Prop :=
  dl_sync Da fa st /\ net_now st SB - net_now st SA = dk /\
  s_state (sa st) = Established /\ s_state (sb st) = SynReceived /\ fresh isn st /\
  ( (cA st <= C /\ will_tx st SB (C + dk + max_rto_us)) \/
    (cA st <= net_now st SA /\ tracked fa st SA (C + max_rto_us + Dt)) ).

Definition Qs (C dk : Z) (fa : fair_aux) (st : net) : Prop :=
  Jg isn Dt Da (C + max_rto_us + Dt) dk fa st \/ reg SA Dack st.

(* run hypothesis: the safety facts, the window B advertises in SYN-RECEIVED is open, B's timer is plain *)
Definition R3 (st : net) : Prop := R2 isn Dack st /\ bplain st.

Lemma Js_clock C dk fa st : 0 <= Dt -> Js C dk fa st -> net_now st SA <= C + max_rto_us + Dt.
Proof.
  intros HDt (_ & Hdk & _ & _ & _ & [(_ & H & _) | (_ & i & p & t & _ & _ & H1 & H2)]); lia.
Qed.

Lemma app_one_ne {A} (l : list A) p : l ++ [p] = l -> False.
Proof. intros E. apply (f_equal (@length A)) in E. rewrite app_length in E. cbn [length] in E. lia. Qed.

Lemma Js_step C dk fa st ev st' :
  0 <= Dt -> R3 st -> R3 st' -> Js C dk fa st -> fair_ev fa st ev -> net_step st ev = Ok st' ->
  Qs C dk (fa_after Dt Da fa ev st') st' \/ Js C dk (fa_after Dt Da fa ev st') st'.
Proof.
  intros HDt ((HR & Hwin) & Hbp) ((HR' & _) & Hbp') HJ Hfe H.
  pose proof (Js_clock C dk fa st HDt HJ) as HclkA.
  destruct HJ as (Hsy & Hdk & Hsa & Hsb & Hfr & HPh).
  pose proof HR as ([HP | HG] & HV & HN & Ho).
  2:{ exfalso. rewrite (rg_est _ _ _ HG SB) in Hsb. discriminate. }
  destruct HR' as ([HP' | HG'] & HV' & HN' & Ho'); [|left; right; exact HG'].
  pose proof (fa_after_sync Dt Da _ _ _ _ Hsy Hfe H) as Hsy'.
  pose proof (net_step_skew _ _ _ H) as Hdk'. rewrite Hdk in Hdk'.
  destruct (ph_tup _ _ _ HP) as (tA & T1 & T2 & T3' & T4 & T5 & T6 & T7 & T8).
  pose proof (T6 Hsb) as Htb.
  assert (Hla : tu_local_addr (mirror tA) = cx_addr (ep_cx (net_get st SB))) by (unfold mirror; cbn; exact T3').
  (* once A is known to be still ESTABLISHED, B is still in SYN-RECEIVED *)
  assert (Hfin : s_state (sa st') = Established -> s_state (sb st') = SynReceived).
  { intros E. destruct (ph_phase _ _ _ HP') as [(X0 & _) | (_ & X0)]; [rewrite E in X0; discriminate | exact X0]. }
  destruct (net_step_kind _ _ _ H) as [w ev0 e' Hse He -> | to i -> Hnone -> | d -> -> | w isn0 ts -> -> | to i Hd].
  - (* a socket event *)
    assert (Hnow : forall z, net_now (net_set st w e') z = net_now st z).
    { intros z. rewrite (net_step_now _ _ _ z H). destruct ev; try lia. destruct Hse. }
    destruct w.
    + (* at A *)
      (* A transmits: the goal *)
      assert (HmkQ : forall p, s_state (ep_sock e') = Established -> ep_out e' = ep_out (n_a st) ++ [p] -> goodp isn p ->
                     Qs C dk (fa_after Dt Da fa ev (net_set st SA e')) (net_set st SA e')).
      { intros p E Ko Kg. left. split; [exact Hsy'|]. split; [exact Hdk'|].
        assert (E' : s_state (sa (net_set st SA e')) = Established) by exact E.
        split; [exact E'|]. split; [exact (Hfin E')|]. right.
        apply (trk_new isn Dt Da fa st _ _ p); [exact Hsy | unfold chan_to; cbn [side_other net_set net_get n_a]; exact Ko | | exact HDt | exact Kg].
        rewrite Hnow. lia. }
      (* A transmits nothing and stays fresh *)
      assert (HkeepA : s_state (ep_sock e') = Established -> fresh isn (net_set st SA e') ->
                       cA (net_set st SA e') = cA st ->
                       match ev with NDeliver to j => to = SA -> nth_error (chan_to st SA) j = None | _ => True end ->
                       Js C dk (fa_after Dt Da fa ev (net_set st SA e')) (net_set st SA e')).
      { intros E Kf Kc Hne. split; [exact Hsy'|]. split; [exact Hdk'|].
        assert (E' : s_state (sa (net_set st SA e')) = Established) by exact E.
        split; [exact E'|]. split; [exact (Hfin E')|]. split; [exact Kf|].
        destruct HPh as [(Hc & Hw) | (Hc & Htr)].
        - left. split; [rewrite Kc; exact Hc|].
          apply (will_tx_same st); [reflexivity | apply Hnow | exact Hw].
        - right. split; [rewrite Kc, Hnow; exact Hc|].
          exact (tracked_keep Dt Da fa st ev _ SA _ Hfe H Hne Htr). }
      destruct ev as [to i | to i | to i | d | z i1 t1 | z ok | z data | z n | z]; cbn [sock_event] in Hse; try contradiction.
      * (* a segment arrives at A *)
        destruct Hse as (-> & q & Hn & ->). pose proof (nth_error_In _ _ Hn) as Hin.
        destruct (A_f_segment st q e' HN Ho HV HP Hsa Hfr Hin He) as (E & [(q0 & Ko & Kg) | (Hlt & Ko & Ks)]).
        -- left. exact (HmkQ q0 E Ko Kg).
        -- right. destruct HPh as [(Hc & Hw) | (Hc & Htr)]; [|lia].
           assert (Es : net_sock (net_set st SA e') SA = net_sock st SA) by (unfold net_sock; cbn [net_set net_get n_a]; exact Ks).
           assert (Ec : forall z, chan_to (net_set st SA e') z = chan_to st z).
           { intros z. destruct z; unfold chan_to; cbn [side_other net_set net_get n_a n_b]; [reflexivity | exact Ko]. }
           split; [exact Hsy'|]. split; [exact Hdk'|].
           assert (E' : s_state (sa (net_set st SA e')) = Established) by exact E.
           split; [exact E'|]. split; [exact (Hfin E')|].
           split; [exact (fresh_same st _ Es Ec Hfr)|].
           left. split; [unfold cA; rewrite Es; exact Hc|].
           apply (will_tx_same st); [reflexivity | apply Hnow | exact Hw].
      * (* poll *)
        destruct Hse as (-> & ->). pose proof Hfe as Hok. cbn [fair_ev] in Hok. subst ok.
        destruct (A_f_dispatch st e' HN Ho HV HP Hsa Hfr He) as (E & [(p & Ko & Kg) | (Ko & Kf & Kc)]).
        -- left. exact (HmkQ p E Ko Kg).
        -- right. exact (HkeepA E Kf Kc I).
      * (* send *)
        destruct Hse as (-> & ->).
        destruct (A_f_quiet st (EvSend data) e' HV Hsa Hfr ltac:(left; eexists; reflexivity) He) as (E & Ko & Kf & Kc).
        right. exact (HkeepA E Kf Kc I).
      * (* recv *)
        destruct Hse as (-> & ->).
        destruct (A_f_quiet st (EvRecv (Z.max 0 n)) e' HV Hsa Hfr ltac:(right; eexists; reflexivity) He) as (E & Ko & Kf & Kc).
        right. exact (HkeepA E Kf Kc I).
      * (* close: not an event of such a run *)
        destruct Hse as (-> & ->). exfalso.
        destruct (ep_step_spec _ _ _ He) as (s' & out & tags & Hs & Hk & _).
        cbn [tcp_step] in Hs. assert (E : s' = tcp_close (ep_sock (n_a st))) by (inversion Hs; reflexivity).
        destruct (ph_phase _ _ _ HP') as [(X0 & _) | (X0 & _)]; unfold net_sock in X0; cbn [net_set net_get n_a] in X0;
          rewrite Hk, E in X0; unfold tcp_close in X0; unfold net_sock in Hsa; cbn [net_get] in Hsa; rewrite Hsa in X0;
          unfold tcp_set_state in X0; revert X0; sproj; discriminate.
    + (* at B *)
      right.
      assert (Hsa' : s_state (sa (net_set st SB e')) = Established) by exact Hsa.
      pose proof (Hfin Hsa') as Hsb'.
      assert (HcA : cA (net_set st SB e') = cA st) by reflexivity.
      assert (HfrB : ep_out e' = ep_out (n_b st) \/
                     (exists q1, ep_out e' = ep_out (n_b st) ++ [q1] /\ r_control (snd q1) = CSyn) ->
                     fresh isn (net_set st SB e')).
      { intros Hout. destruct Hfr as (F1 & F2 & F3 & F4 & F5).
        split; [exact F1|]. split; [exact F2|]. split; [exact F3|]. split; [exact F4|].
        intros q Hq. unfold chan_to in Hq. cbn [side_other net_set net_get n_b] in Hq.
        destruct Hout as [Ko | (q1 & Ko & Kc)]; rewrite Ko in Hq.
        - exact (F5 q Hq).
        - apply in_app_or in Hq. destruct Hq as [Hq | [<- | []]]; [exact (F5 q Hq) | exact Kc]. }
      (* B keeps what it will do, nothing new towards A matters *)
      assert (HkeepB : fresh isn (net_set st SB e') ->
                       (forall T, will_tx st SB T -> will_tx (net_set st SB e') SB T) ->
                       match ev with NDeliver to j => to = SA -> nth_error (chan_to st SA) j = None | _ => True end ->
                       Js C dk (fa_after Dt Da fa ev (net_set st SB e')) (net_set st SB e')).
      { intros Kf Kw Hne. split; [exact Hsy'|]. split; [exact Hdk'|]. split; [exact Hsa'|]. split; [exact Hsb'|].
        split; [exact Kf|].
        destruct HPh as [(Hc & Hw) | (Hc & Htr)].
        - left. split; [rewrite HcA; exact Hc | exact (Kw _ Hw)].
        - right. split; [rewrite HcA, Hnow; exact Hc|].
          exact (tracked_keep Dt Da fa st ev _ SA _ Hfe H Hne Htr). }
      destruct ev as [to i | to i | to i | d | z i1 t1 | z ok | z data | z n | z]; cbn [sock_event] in Hse; try contradiction.
      * (* a segment arrives at B: only SYNs are in flight, dropped *)
        destruct Hse as (-> & p & Hn & ->). pose proof (nth_error_In _ _ Hn) as Hin.
        pose proof Hfr as (_ & _ & _ & F4 & _). pose proof (F4 p Hin) as Hc.
        assert (Hdrop : ep_out e' = ep_out (n_b st) /\ ep_sock e' = ep_sock (n_b st)).
        { destruct (ep_step_spec _ _ _ He) as (s' & out & tags & Hs & Hk & _ & Hout & _).
          destruct (ph_toB _ _ _ HP p Hin) as [(_ & Ha) | ([X0 | X0] & _)]; try (rewrite Hc in X0; discriminate).
          destruct (accepts_of_sent_to_gen _ (mirror tA) (fst p) (wire_parse (snd p)) ltac:(rewrite Hsb; discriminate)
                      ltac:(rewrite Hsb; discriminate) Htb (mirror_nz _ T4) (sent_to_parse _ _ (T7 p Hin))) as (A1 & A2 & A3).
          unfold net_sock in *. cbn [net_get] in *.
          cbn [tcp_step] in Hs. apply obind_ok in Hs. destruct Hs as (((s1 & rep) & tg) & Hi & Hs).
          assert (E1 : s1 = s' /\ out = OReply rep) by (inversion Hs; auto). destruct E1 as (-> & ->).
          unfold iface_tcp_ingress in Hi. rewrite A1, A2, A3 in Hi.
          assert (N1 : s_state (ep_sock (n_b st)) <> Listen) by (rewrite Hsb; discriminate).
          assert (N2 : s_state (ep_sock (n_b st)) <> SynSent) by (rewrite Hsb; discriminate).
          assert (Hc' : r_control (wire_parse (snd p)) = CSyn) by (unfold wire_parse; cbn [r_control]; exact Hc).
          assert (Ha' : r_ack_number (wire_parse (snd p)) = None) by (unfold wire_parse; cbn [r_ack_number]; rewrite Ha; reflexivity).
          destruct (process_syn_dropped _ _ (fst p) (wire_parse (snd p)) _ _ _ N1 N2 Hc' Ha' Hi) as (-> & ->).
          cbn [wire_out opt_list] in Hout. rewrite app_nil_r in Hout. split; [exact Hout | exact Hk]. }
        destruct Hdrop as (Ko & Ks).
        apply HkeepB; [apply HfrB; left; exact Ko | | intros; discriminate].
        intros T Hw. apply (will_tx_same st); [unfold net_sock; rewrite net_get_set_same; exact Ks | apply Hnow | exact Hw].
      * (* poll *)
        destruct Hse as (-> & ->). pose proof Hfe as Hok. cbn [fair_ev] in Hok. subst ok.
        assert (Hshape : ep_out e' = ep_out (n_b st) \/
                         (exists q1, ep_out e' = ep_out (n_b st) ++ [q1] /\ r_control (snd q1) = CSyn)).
        { destruct (ep_step_spec _ _ _ He) as (s' & out & tags & Hs & Hk & _ & Hout & _).
          destruct (Ho SB) as (Hto & _). pose proof (NI_live st SB HN) as Il.
          unfold net_sock in *. cbn [net_get] in *.
          cbn [tcp_step] in Hs. apply obind_ok in Hs. destruct Hs as (((s1 & res) & tg) & Hd & Hs).
          assert (E1 : out = ODispatch res) by (inversion Hs; reflexivity). subst out.
          destruct (dispatch_syn _ _ _ _ _ _ _ Il (or_intror Hsb) Hto Htb Hla Hd) as (_ & _ & Hsh).
          cbn [wire_out] in Hout. destruct res as [| q1 | q1]; cbn [opt_list] in Hout.
          - left. rewrite app_nil_r in Hout. exact Hout.
          - right. exists q1. split; [exact Hout|]. destruct (Hsh q1 eq_refl) as (_ & _ & _ & _ & X0 & _). exact X0.
          - left. rewrite app_nil_r in Hout. exact Hout. }
        pose proof (HfrB Hshape) as Kf.
        destruct HPh as [(Hc & Hw) | (Hc & Htr)].
        -- destruct Hshape as [Ko | (q1 & Ko & Kc)].
           ++ destruct (will_tx_poll isn st SB e' (mirror tA) _ HN Ho HV (or_intror Hsb) Htb Hla He Hw) as [(p & Kp) | (_ & Hw')].
              { exfalso. rewrite Ko in Kp. symmetry in Kp. exact (app_one_ne _ _ Kp). }
              split; [exact Hsy'|]. split; [exact Hdk'|]. split; [exact Hsa'|]. split; [exact Hsb'|]. split; [exact Kf|].
              left. split; [rewrite HcA; exact Hc | exact Hw'].
           ++ split; [exact Hsy'|]. split; [exact Hdk'|]. split; [exact Hsa'|]. split; [exact Hsb'|]. split; [exact Kf|].
              destruct Hw as (Hwn & _).
              destruct (Z_le_gt_dec C (net_now st SA)) as [Hge | Hlt].
              ** right. split; [rewrite HcA, Hnow; lia|].
                 apply (tracked_new Dt Da fa st _ _ SA q1); [exact Hsy | unfold chan_to; cbn [side_other net_set net_get n_b]; exact Ko | | exact HDt].
                 rewrite Hnow. lia.
              ** left. split; [rewrite HcA; exact Hc|].
                 apply bplain_will_tx; [exact HN' | exact Hsb' | exact Hbp' | rewrite Hnow; lia].
        -- split; [exact Hsy'|]. split; [exact Hdk'|]. split; [exact Hsa'|]. split; [exact Hsb'|]. split; [exact Kf|].
           right. split; [rewrite HcA, Hnow; exact Hc|].
           exact (tracked_keep Dt Da fa st _ _ SA _ Hfe H I Htr).
      * (* send at B *)
        destruct Hse as (-> & ->).
        destruct (quiet_eff st SB (EvSend data) e' ltac:(left; eexists; reflexivity) He) as (_ & Qo).
        apply HkeepB; [apply HfrB; left; exact Qo | | exact I].
        intros T Hw. exact (will_tx_quiet st SB (EvSend data) e' T (or_intror Hsb) ltac:(left; eexists; reflexivity) He Hw).
      * (* recv at B *)
        destruct Hse as (-> & ->).
        destruct (quiet_eff st SB (EvRecv (Z.max 0 n)) e' ltac:(right; eexists; reflexivity) He) as (_ & Qo).
        apply HkeepB; [apply HfrB; left; exact Qo | | exact I].
        intros T Hw. exact (will_tx_quiet st SB (EvRecv (Z.max 0 n)) e' T (or_intror Hsb) ltac:(right; eexists; reflexivity) He Hw).
      * (* close at B: not an event of such a run *)
        destruct Hse as (-> & ->). exfalso.
        destruct (ep_step_spec _ _ _ He) as (s' & out & tags & Hs & Hk & _).
        cbn [tcp_step] in Hs. assert (E : s' = tcp_close (ep_sock (n_b st))) by (inversion Hs; reflexivity).
        unfold net_sock in Hsb', Hsb. cbn [net_set net_get n_b] in Hsb', Hsb. rewrite Hk, E in Hsb'.
        unfold tcp_close in Hsb'. rewrite Hsb in Hsb'. unfold tcp_set_state in Hsb'. revert Hsb'. sproj. discriminate.
  - (* a delivery of nothing *)
    right. split; [exact Hsy'|]. split; [exact Hdk'|]. split; [exact Hsa|]. split; [exact Hsb|]. split; [exact Hfr|].
    destruct HPh as [B4 | (Hc & Htr)]; [left; exact B4 | right]. split; [exact Hc|].
    apply (tracked_keep Dt Da fa st _ _ SA _ Hfe H); [|exact Htr]. intros ->. exact Hnone.
  - (* the clock *)
    right. split; [exact Hsy'|]. split; [exact Hdk'|].
    assert (Es : forall z, net_sock (tick_net st d) z = net_sock st z) by (intros z; destruct z; reflexivity).
    assert (Ec : forall z, chan_to (tick_net st d) z = chan_to st z) by (intros z; destruct z; reflexivity).
    assert (Hn : forall z, net_now (tick_net st d) z = net_now st z + Z.max 0 d) by (intros z; destruct z; reflexivity).
    rewrite !Es. split; [exact Hsa|]. split; [exact Hsb|].
    split; [exact (fresh_same st _ (Es SA) Ec Hfr)|].
    destruct HPh as [(Hc & Hw) | (Hc & Htr)].
    + left. split; [unfold cA; rewrite Es; exact Hc|].
      pose proof (will_tx_tick isn fa st d SB (mirror tA) _ HN HV Hfe Htb (or_intror Hsb) Hw) as Hle.
      destruct Hw as (_ & Hw). split; [rewrite Hn; exact Hle|]. rewrite Es. exact Hw.
    + right. split; [unfold cA; rewrite Es, Hn; unfold cA in Hc; lia|].
      exact (tracked_keep Dt Da fa st _ _ SA _ Hfe H I Htr).
  - (* the random number generator *)
    right. split; [exact Hsy'|]. split; [exact Hdk'|].
    assert (Es : forall z, net_sock (net_set st w (ep_set_cx (net_get st w) (cx_rand (ep_cx (net_get st w)) isn0 ts))) z = net_sock st z).
    { intros z. unfold net_sock. destruct (side_cases w z) as [-> | ->]; [rewrite net_get_set_same | rewrite net_get_set_other]; reflexivity. }
    assert (Ec : forall z, chan_to (net_set st w (ep_set_cx (net_get st w) (cx_rand (ep_cx (net_get st w)) isn0 ts))) z = chan_to st z).
    { intros z. unfold chan_to. destruct (side_cases w (side_other z)) as [E | E]; rewrite E;
        [rewrite net_get_set_same | rewrite net_get_set_other]; reflexivity. }
    assert (Hn : forall z, net_now (net_set st w (ep_set_cx (net_get st w) (cx_rand (ep_cx (net_get st w)) isn0 ts))) z = net_now st z).
    { intros z. rewrite (net_step_now _ _ _ z H). lia. }
    rewrite !Es. split; [exact Hsa|]. split; [exact Hsb|].
    split; [exact (fresh_same st _ (Es SA) Ec Hfr)|].
    destruct HPh as [(Hc & Hw) | (Hc & Htr)].
    + left. split; [unfold cA; rewrite Es; exact Hc|].
      apply (will_tx_same st); [apply Es | apply Hn | exact Hw].
    + right. split; [unfold cA; rewrite Es, Hn; exact Hc|].
      exact (tracked_keep Dt Da fa st _ _ SA _ Hfe H I Htr).
  - destruct Hd as [-> | ->]; destruct Hfe.
Qed.

End Srv.

(* ---------------------------------------------------------------------------------------- *)
(* runs from net_init                                                                        *)
(* ---------------------------------------------------------------------------------------- *)
Module NVS := TcpNetInv.

Section Run.
Variables Dt Da Dack : Z.
Variables ca cb : ep_config.
Variable st0 : net.
Hypothesis Hstart : start_ok Dack ca cb st0.

Let isn := cx_isn (ep_cx (n_a st0)).

(* B's timer is plain in every state of a run of the one-way workload from net_init *)
Lemma bplain_run_all : forall evs pre st1 st,
  net_run st0 pre = Ok st1 -> hs_inv isn Dack st1 -> opts_ok st1 -> bplain st1 ->
  Forall (script_ev SA) evs -> net_run st1 evs = Ok st -> NVS.small st ->
  run_all bplain st1 evs /\ bplain st.
Proof.
  induction evs as [|ev rest IH]; intros pre st1 st Hpre Hinv Ho Hpl Hsc Hrun Hsm.
  - cbn [net_run] in Hrun. inversion Hrun; subst st. cbn [run_all]. auto.
  - cbn [net_run] in Hrun. apply obind_ok in Hrun. destruct Hrun as (st2 & Hs & Hrun).
    inversion Hsc as [|? ? Hsc1 Hsc2]; subst.
    pose proof (net_run_mono _ _ _ Hrun) as Hm2. pose proof (net_step_mono _ _ _ Hs) as Hm1.
    assert (Hsm2 : NVS.small st2) by exact (NVS.small_mono _ _ Hm2 Hsm).
    assert (Hsm1 : NVS.small st1) by exact (NVS.small_mono _ _ Hm1 Hsm2).
    assert (Hpre2 : net_run st0 (pre ++ [ev]) = Ok st2).
    { apply (net_run_app pre [ev] st0 st1 st2 Hpre). cbn [net_run]. rewrite Hs. reflexivity. }
    destruct (hs_run Dack ca cb st0 Hstart [ev] pre st1 st2 Hpre Hinv Ho ltac:(constructor; [exact Hsc1 | constructor])
                ltac:(cbn [net_run]; rewrite Hs; reflexivity) Hsm2) as (Hinv2 & Ho2).
    destruct (hsr_here Dack ca cb st0 Hstart pre st1 Hpre Hinv Ho Hsm1) as (HR1 & HI1).
    destruct (hsr_here Dack ca cb st0 Hstart (pre ++ [ev]) st2 Hpre2 Hinv2 Ho2 Hsm2) as (HR2 & HI2).
    pose proof (bplain_step isn Dack st1 ev st2 HR1 HR2 HI1 HI2 Hsc1 Hs Hpl) as Hpl2.
    destruct (IH (pre ++ [ev]) st2 st Hpre2 Hinv2 Ho2 Hpl2 Hsc2 Hrun Hsm) as (IH1 & IH2).
    split; [|exact IH2]. cbn [run_all]. rewrite Hs. split; [exact Hpl | exact IH1].
Qed.

(* THE SERVER IS ESTABLISHED AFTER THE LOSS OF THE CLIENT'S ACK.  From net_init, after ANY prefix of the
   one-way workload that ends with A ESTABLISHED, B in SYN-RECEIVED and everything A has transmitted since
   its SYN lost (fresh: A has transmitted no data yet; only SYNs / SYN|ACKs are in flight): on every fair
   schedule along which the window B advertises in SYN-RECEIVED is open, both sockets are ESTABLISHED -
   and the regime invariant holds - before A's clock passes C + RTTE_MAX_RTO + 2 Dt, where
   C = max (now, challenge_ack_timer of A) is the instant from which A answers a duplicate SYN|ACK. *)
Theorem server_established_after_ack_loss : forall pre st evs st',
  net_run st0 pre = Ok st -> Forall (script_ev SA) pre ->
  s_state (net_sock st SA) = Established -> s_state (net_sock st SB) = SynReceived -> fresh isn st ->
  fair_schedule Dt Da st evs -> Forall (app_ev SA) evs -> net_run st evs = Ok st' -> NVS.small st' ->
  run_all syn_win_open st evs ->
  Z.max (net_now st SA) (cA st) + max_rto_us + 2 * Dt < net_now st' SA ->
  exists p1 p2 fa1 st1,
    evs = p1 ++ p2 /\ net_run st p1 = Ok st1 /\ net_run st1 p2 = Ok st' /\
    reg SA Dack st1 /\ reach st1 /\ opts_ok st1 /\
    dl_sync Da fa1 st1 /\ fair_run Dt Da fa1 st1 p2 /\
    net_now st1 SA <= Z.max (net_now st SA) (cA st) + max_rto_us + 2 * Dt.
Proof.
  intros pre st evs st' Hpre Hscp Hsa Hsb Hfr (HDt & HDa & Ho & Hfair) Happ Hrun Hsm Hwin Hlate.
  pose proof Hstart as (Hi & Hst0 & Ga & Gb & Pa & Pb & Haddr & Hdel).
  destruct (hs_init ca cb st0 isn Dack Hi Hst0 Pa Pb Haddr Hdel) as (HP0 & Ho0).
  pose proof (net_run_mono _ _ _ Hrun) as Hm.
  assert (Hsm0 : NVS.small st) by exact (NVS.small_mono _ _ Hm Hsm).
  destruct (hs_run Dack ca cb st0 Hstart pre [] st0 st eq_refl (or_introl HP0) Ho0 Hscp Hpre Hsm0) as (Hinv & _).
  pose proof (script_of_fair SA Dt Da evs _ st st' Hfair Hrun Happ) as Hsce.
  pose proof (hsr_run_all Dack ca cb st0 Hstart evs pre st st' Hpre Hinv Ho Hsce Hrun Hsm) as HRall.
  assert (Hpl0 : bplain st0).
  { intros _. destruct Pa as (_ & Ka). destruct Pb as (_ & Kb). exact (proj2 (init_plain ca cb st0 Hi Ka Kb)). }
  destruct (bplain_run_all pre [] st0 st eq_refl (or_introl HP0) Ho0 Hpl0 Hscp Hpre Hsm0) as (_ & Hpl).
  destruct (bplain_run_all evs pre st st' Hpre Hinv Ho Hpl Hsce Hrun Hsm) as (Hplall & _).
  pose proof (run_all_and _ _ evs st (run_all_and _ _ evs st HRall Hwin) Hplall) as HR3.
  change (run_all (R3 isn Dack) st evs) in HR3.
  pose proof (run_all_here _ _ _ HRall) as HR.
  pose proof HR as (_ & HV & HN & _).
  set (dk := net_now st SB - net_now st SA).
  set (C := Z.max (net_now st SA) (cA st)) in *.
  pose proof max_rto_us_pos as Hmr.
  assert (HJ0 : Js isn Dt Da C dk (fa_init Dt Da st) st).
  { split; [apply fa_init_sync|]. split; [reflexivity|]. split; [exact Hsa|]. split; [exact Hsb|]. split; [exact Hfr|].
    left. split; [unfold C; lia|].
    apply bplain_will_tx; [exact HN | exact Hsb | exact Hpl | unfold C, dk; lia]. }
  destruct (fair_leads_under_last Dt Da (R3 isn Dack) (Js isn Dt Da C dk) (Qs isn Dack Dt Da C dk) SA (C + max_rto_us + Dt)
              (fun fa s HJ => Js_clock isn Dt Da _ _ fa s HDt HJ)
              (fun fa s ev s1 HR0 HR1 HJ Hfe Hs => Js_step isn Dack Dt Da _ _ fa s ev s1 HDt HR0 HR1 HJ Hfe Hs)
              evs _ st st' HJ0 HR3 Hfair Hrun ltac:(lia))
    as (pre1 & post1 & fa1 & st1 & E1 & Hp1 & Hp2 & HR3' & Hf1 & HQ1 & (fa0 & stp & ev0 & HJp & HRp & Hfep & Hsp & Efa)).
  assert (Hrun1 : net_run st0 (pre ++ pre1) = Ok st1) by (eapply net_run_app; eassumption).
  destruct HQ1 as [HJg | HG1].
  2:{ (* both ESTABLISHED already *)
    exists pre1, post1, fa1, st1.
    split; [exact E1|]. split; [exact Hp1|]. split; [exact Hp2|]. split; [exact HG1|].
    split; [exists ca, cb, st0, (pre ++ pre1); auto|].
    pose proof (run_all_here _ _ _ HR3') as (((_ & _ & _ & Ho1) & _) & _).
    split; [exact Ho1|].
    split.
    { subst fa1. destruct HJp as (Hsyp & _). exact (fa_after_sync Dt Da _ _ _ _ Hsyp Hfep Hsp). }
    split; [exact Hf1|].
    pose proof (Js_clock isn Dt Da _ _ fa0 stp HDt HJp) as Hcp.
    rewrite (net_step_now _ _ _ SA Hsp). destruct ev0; try lia.
    exfalso. pose proof (net_step_tick _ _ _ Hsp) as E. subst st1.
    destruct HJp as (_ & _ & _ & X0 & _). pose proof (rg_est _ _ _ HG1 SB) as X1.
    assert (Es : net_sock (tick_net stp d) SB = net_sock stp SB) by reflexivity. rewrite Es, X0 in X1. discriminate. }
  destruct (fair_leads_under_last Dt Da (R3 isn Dack) (Jg isn Dt Da (C + max_rto_us + Dt) dk) (Qg Dack) SA (C + max_rto_us + Dt + Dt)
              (fun fa s HJ => Jg_clock isn Dt Da _ _ fa s HDt HJ)
              (fun fa s ev s2 HR0 HR1 HJ Hfe Hs => Jg_step isn Dack Dt Da _ _ fa s ev s2 HDt (proj1 HR0) (proj1 HR1) HJ Hfe Hs)
              post1 _ st1 st' HJg HR3' Hf1 Hp2 ltac:(lia))
    as (pre2 & post2 & fa2 & st2 & E2 & Hq1 & Hq2 & HR3'' & Hf2 & HQ2 & (fb0 & stq & ev1 & HJq & HRq & Hfeq & Hsq & Efb)).
  exists (pre1 ++ pre2), post2, fa2, st2.
  split; [rewrite E1, E2, app_assoc; reflexivity|].
  split; [eapply net_run_app; eassumption|]. split; [exact Hq2|]. split; [exact HQ2|].
  split.
  { exists ca, cb, st0, (pre ++ pre1 ++ pre2). split; [exact Ga|]. split; [exact Gb|]. split; [exact Hi|].
    eapply net_run_app; [exact Hpre|]. eapply net_run_app; eassumption. }
  pose proof (run_all_here _ _ _ HR3'') as (((_ & _ & _ & Ho2) & _) & _).
  split; [exact Ho2|].
  split.
  { subst fa2. destruct HJq as (Hsyq & _). exact (fa_after_sync Dt Da _ _ _ _ Hsyq Hfeq Hsq). }
  split; [exact Hf2|].
  pose proof (Jg_clock isn Dt Da _ _ fb0 stq HDt HJq) as Hcq.
  rewrite (net_step_now _ _ _ SA Hsq). destruct ev1; try lia.
  exfalso. pose proof (net_step_tick _ _ _ Hsq) as E. subst st2.
  destruct HJq as (_ & _ & _ & X0 & _). pose proof (rg_est _ _ _ HQ2 SB) as X1.
  assert (Es : net_sock (tick_net stq d) SB = net_sock stq SB) by reflexivity. rewrite Es, X0 in X1. discriminate.
Qed.

End Run.
