(* Proofs about the datagram-socket models (property C09).
   Part A: the packet queue (Model/DgramQueue.v): invariant [pq_wf], every operation
           preserves it, never panics, and acts on [pq_packets] as on a FIFO.
   Part B: one socket: step specifications in terms of (tx_pending, rx_pending).
   Part C: histories: the ghost lists of a whole run.
   Part D: interface: first matching udp socket only; what an emit does to the wire. *)
From SV Require Import Lib.Base Gen.Consts Model.DgramQueue Model.Dgram.

Local Open Scope Z_scope.

(* ------------------------------------------------------------------ *)
(* Part A: queue                                                       *)
(* ------------------------------------------------------------------ *)

Lemma wrap_small : forall pcap x, 0 <= x < pcap -> pq_wrap pcap x = x.
Proof.
  intros. unfold pq_wrap. destruct (Z.gtb_spec pcap 0); [|lia].
  apply Z.mod_small. lia.
Qed.

Lemma wrap_full : forall pcap, pq_wrap pcap pcap = 0.
Proof.
  intros. unfold pq_wrap. destruct (Z.gtb_spec pcap 0); [|reflexivity].
  apply Z_mod_same_full.
Qed.

Lemma wrap_nocap : forall pcap x, pcap <= 0 -> pq_wrap pcap x = 0.
Proof. intros. unfold pq_wrap. destruct (Z.gtb_spec pcap 0); [lia|reflexivity]. Qed.

Lemma wrap_range : forall pcap x, 0 < pcap -> 0 <= pq_wrap pcap x < pcap.
Proof.
  intros. unfold pq_wrap. destruct (Z.gtb_spec pcap 0); [|lia].
  apply Z.mod_pos_bound. lia.
Qed.

Lemma wrap_over : forall pcap x, 0 < pcap -> pcap <= x < 2 * pcap -> pq_wrap pcap x = x - pcap.
Proof.
  intros. unfold pq_wrap. destruct (Z.gtb_spec pcap 0); [|lia].
  symmetry. apply Z.mod_unique_pos with (q := 1); lia.
Qed.

Lemma wrap_wrap_add : forall pcap x y, pq_wrap pcap (pq_wrap pcap x + y) = pq_wrap pcap (x + y).
Proof.
  intros. unfold pq_wrap. destruct (Z.gtb_spec pcap 0); [|reflexivity].
  apply Z.add_mod_idemp_l. lia.
Qed.

Fixpoint sizes (l : list qitem) : Z :=
  match l with [] => 0 | it :: rest => it_size it + sizes rest end.

Lemma sizes_app : forall a b, sizes (a ++ b) = sizes a + sizes b.
Proof. induction a; intros; cbn [sizes app] in *; [lia|]. rewrite IHa. lia. Qed.

(* the records are laid out one after the other from [pos]; none wraps; a padding record is
   always followed by a packet *)
Fixpoint layout (pcap pos : Z) (l : list qitem) : Prop :=
  match l with
  | [] => True
  | it :: rest =>
      0 <= it_size it /\ pos + it_size it <= pcap /\
      match it_hdr it with
      | Some _ => Z.of_nat (length (it_data it)) = it_size it
      | None => match rest with r :: _ => it_hdr r <> None | [] => False end
      end /\
      layout pcap (pq_wrap pcap (pos + it_size it)) rest
  end.

Record pq_wf (q : pq) : Prop := mkWf {
  wf_mcap : 0 <= q_mcap q;
  wf_pcap : 0 <= q_pcap q;
  wf_read : 0 <= q_read q /\ (q_read q < q_pcap q \/ q_read q = 0);
  wf_len : q_len q = sizes (q_items q);
  wf_len_le : q_len q <= q_pcap q;
  wf_meta : Z.of_nat (length (q_items q)) <= q_mcap q;
  wf_layout : layout (q_pcap q) (q_read q) (q_items q)
}.

Lemma pq_new_wf : forall m p, 0 <= m -> 0 <= p -> pq_wf (pq_new m p).
Proof. intros. constructor; cbn; try lia; try exact I. Qed.

Lemma pq_reset_wf : forall q, pq_wf q -> pq_wf (pq_reset q).
Proof. intros q W. destruct W. constructor; cbn; try lia; try exact I. Qed.

Lemma sizes_nonneg : forall pcap pos l, layout pcap pos l -> 0 <= sizes l.
Proof.
  intros pcap pos l; revert pos; induction l; intros; cbn [sizes] in *; [lia|].
  destruct H as (? & ? & ? & L). apply IHl in L. lia.
Qed.

(* when nothing is stored every record is empty and the layout does not depend on the start *)
Lemma layout_all_zero : forall pcap pos pos' l,
  layout pcap pos l -> sizes l = 0 -> 0 <= pos' -> pos' <= pcap -> 0 <= pos -> pos <= pcap ->
  layout pcap pos' l.
Proof.
  intros pcap pos pos' l; revert pos pos'; induction l; intros pos pos' L S P1 P2 P3 P4; [exact I|].
  cbn [sizes] in S.
  destruct L as (Hs & Hp & Hh & L).
  pose proof (sizes_nonneg _ _ _ L).
  assert (it_size a = 0) by lia. assert (sizes l = 0) by lia.
  cbn [layout]. rewrite H0 in *. repeat split; try lia; [exact Hh|].
  rewrite Z.add_0_r in *.
  destruct (Z.leb_spec pcap 0).
  - rewrite wrap_nocap in * by lia. exact L.
  - eapply IHl; eauto.
    + apply wrap_range; lia.
    + pose proof (wrap_range pcap pos' ltac:(lia)); lia.
    + apply wrap_range; lia.
    + pose proof (wrap_range pcap pos ltac:(lia)); lia.
Qed.

Definition endpos (pcap pos : Z) (l : list qitem) : Z := pq_wrap pcap (pos + sizes l).

(* version with an explicit in-range start *)
Lemma layout_app : forall pcap l pos l2,
  0 <= pos -> (pos < pcap \/ (pos = 0 /\ pcap = 0)) ->
  layout pcap pos l -> layout pcap (endpos pcap pos l) l2 ->
  layout pcap pos (l ++ l2).
Proof.
  intros pcap l; induction l; intros pos l2 P1 P2 L L2.
  - cbn [app]. unfold endpos in L2. cbn [sizes] in L2. rewrite Z.add_0_r in L2.
    destruct P2 as [P2|[P2 P3]].
    + rewrite wrap_small in L2 by lia. exact L2.
    + subst. rewrite wrap_nocap in L2 by lia. exact L2.
  - cbn [app layout] in *. destruct L as (Hs & Hp & Hh & L).
    repeat split; try lia.
    + destruct (it_hdr a); [exact Hh|]. destruct l; [contradiction|exact Hh].
    + apply IHl.
      * destruct (Z.leb_spec pcap 0); [rewrite wrap_nocap by lia; lia|apply wrap_range; lia].
      * destruct (Z.leb_spec pcap 0).
        -- right. rewrite wrap_nocap by lia. lia.
        -- left. apply wrap_range; lia.
      * exact L.
      * unfold endpos in *. cbn [sizes] in L2.
        rewrite wrap_wrap_add. replace (pos + it_size a + sizes l) with (pos + (it_size a + sizes l)) by lia.
        exact L2.
Qed.

Lemma packets_app : forall a b, items_packets (a ++ b) = items_packets a ++ items_packets b.
Proof.
  induction a; intros; cbn [items_packets app]; [reflexivity|].
  destruct (it_hdr a); rewrite IHa; reflexivity.
Qed.

(* position arithmetic of the write pointer *)
Lemma write_pos : forall q, pq_wf q ->
  let w := pq_get_idx q (q_len q) in
  (q_pcap q = 0 -> w = 0) /\
  (0 < q_pcap q -> q_read q + q_len q < q_pcap q -> w = q_read q + q_len q) /\
  (0 < q_pcap q -> q_pcap q <= q_read q + q_len q -> w = q_read q + q_len q - q_pcap q).
Proof.
  intros q W w. destruct W. unfold w, pq_get_idx.
  pose proof (sizes_nonneg _ _ _ wf_layout0).
  repeat split; intros.
  - apply wrap_nocap; lia.
  - apply wrap_small; lia.
  - apply wrap_over; lia.
Qed.

Lemma wpos : forall pcap read len,
  0 <= pcap -> 0 <= read -> (read < pcap \/ read = 0) -> 0 <= len <= pcap ->
  let w := pq_wrap pcap (read + len) in
  0 <= w /\ (pcap = 0 -> w = 0) /\
  (0 < pcap -> read + len < pcap -> w = read + len) /\
  (0 < pcap -> pcap <= read + len -> w = read + len - pcap).
Proof.
  intros. unfold w. repeat split; intros.
  - destruct (Z.leb_spec pcap 0); [rewrite wrap_nocap by lia; lia|apply wrap_range; lia].
  - apply wrap_nocap; lia.
  - apply wrap_small; lia.
  - apply wrap_over; lia.
Qed.

Ltac bools :=
  repeat match goal with
  | H : (_ || _) = true |- _ => apply orb_true_iff in H
  | H : (_ || _) = false |- _ => apply orb_false_iff in H; destruct H
  | H : (_ && _) = true |- _ => apply andb_true_iff in H; destruct H
  | H : (_ && _) = false |- _ => apply andb_false_iff in H
  | H : negb _ = true |- _ => apply negb_true_iff in H
  | H : negb _ = false |- _ => apply negb_false_iff in H
  | H : (_ <? _) = true |- _ => apply Z.ltb_lt in H
  | H : (_ <? _) = false |- _ => apply Z.ltb_ge in H
  | H : (_ <=? _) = true |- _ => apply Z.leb_le in H
  | H : (_ <=? _) = false |- _ => apply Z.leb_gt in H
  | H : (_ =? _) = true |- _ => apply Z.eqb_eq in H
  | H : (_ =? _) = false |- _ => apply Z.eqb_neq in H
  | H : (_ >? _) = true |- _ => rewrite Z.gtb_ltb in H
  | H : (_ >? _) = false |- _ => rewrite Z.gtb_ltb in H
  end.

(* the state of a queue after a successful enqueue of a packet [it] (possibly behind a padding) *)
Definition enq_result (q : pq) (size : Z) (h : dmeta) (data : list Z) (q' : pq) : Prop :=
  pq_wf q' /\ pq_packets q' = pq_packets q ++ [(h, data)] /\
  q_mcap q' = q_mcap q /\ q_pcap q' = q_pcap q.

Definition same_packets (q q' : pq) : Prop :=
  pq_wf q' /\ pq_packets q' = pq_packets q /\ q_mcap q' = q_mcap q /\ q_pcap q' = q_pcap q.

Lemma clear_when_empty_wf : forall q, pq_wf q ->
  let q0 := if q_len q =? 0 then pq_ring_clear q else q in
  same_packets q q0 /\ (q_len q0 = 0 -> q_read q0 = 0) /\ q_items q0 = q_items q.
Proof.
  intros q W q0. unfold q0. destruct (q_len q =? 0) eqn:E; bools.
  - destruct W. destruct q as [mcap pcap rd ln items]. cbn in *. subst ln.
    repeat split; cbn; try lia; try reflexivity.
    eapply layout_all_zero; eauto; try lia.
  - unfold same_packets. intuition lia.
Qed.

(* appending a packet (optionally behind a padding that fills the ring up to its end) *)
Lemma push_packet_wf : forall mcap pcap rd ln items size h data,
  pq_wf (mkQ mcap pcap rd ln items) -> 0 <= size -> Z.of_nat (length data) = size ->
  Z.of_nat (length items) + 1 <= mcap ->
  ln + size <= pcap -> pq_wrap pcap (rd + ln) + size <= pcap ->
  pq_wf (mkQ mcap pcap rd (ln + size) (items ++ [it_packet size h data])).
Proof.
  intros until data. intros W Hs Hd Hm Hl Hw. destruct W; cbn in *.
  constructor; cbn; try lia.
  - rewrite sizes_app. cbn. lia.
  - rewrite app_length. cbn. lia.
  - apply layout_app; try lia; [assumption|].
    unfold endpos. rewrite <- wf_len0. cbn. repeat split; try lia.
Qed.

Lemma push_padding_packet_wf : forall mcap pcap rd ln items c size h data,
  pq_wf (mkQ mcap pcap rd ln items) -> 0 <= size -> Z.of_nat (length data) = size ->
  Z.of_nat (length items) + 2 <= mcap -> 0 <= c ->
  pq_wrap pcap (rd + ln) + c = pcap -> ln + c + size <= pcap ->
  pq_wf (mkQ mcap pcap rd (ln + c + size) ((items ++ [it_padding c]) ++ [it_packet size h data])).
Proof.
  intros until data. intros W Hs Hd Hm Hc Hw Hl. destruct W; cbn in *.
  constructor; cbn; try lia.
  - rewrite !sizes_app. cbn. lia.
  - rewrite !app_length. cbn. lia.
  - rewrite <- app_assoc. apply layout_app; try lia; [assumption|].
    unfold endpos. rewrite <- wf_len0. cbn. repeat split; try lia; try discriminate.
    pose proof (sizes_nonneg _ _ _ wf_layout0). rewrite Hw, wrap_full. lia.
Qed.

Lemma make_room_spec : forall mcap pcap rd ln items size,
  let q := mkQ mcap pcap rd ln items in
  pq_wf q -> (ln = 0 -> rd = 0) -> 0 <= size ->
  match pq_make_room q size with
  | None => True
  | Some q1 =>
      let w := pq_wrap pcap (rd + ln) in
      (q1 = q /\ ln + size <= pcap /\ w + size <= pcap) \/
      (exists c, q1 = mkQ mcap pcap rd (ln + c) (items ++ [it_padding c]) /\ 0 <= c /\
                 w + c = pcap /\ ln + c + size <= pcap /\
                 Z.of_nat (length items) + 2 <= mcap /\ 0 < ln)
  end.
Proof.
  intros mcap pcap rd ln items size q W Hz Hs. destruct W; cbn in *.
  pose proof (sizes_nonneg _ _ _ wf_layout0) as Hn.
  pose proof (wpos pcap rd ln wf_pcap0 (proj1 wf_read0) (proj2 wf_read0) ltac:(lia)) as (W0 & W1 & W2 & W3).
  cbv beta iota zeta delta [pq_make_room pq_window pq_contig pq_get_idx pq_is_full pq_meta_len q q_pcap q_len q_read q_mcap q_items].
  set (w := pq_wrap pcap (rd + ln)) in *.
  destruct (pcap - ln <? size) eqn:E1; [exact I|].
  destruct (Z.min (pcap - ln) (pcap - w) <? size) eqn:E2.
  - destruct (pcap - ln - Z.min (pcap - ln) (pcap - w) <? size) eqn:E3; [exact I|].
    destruct (mcap - Z.of_nat (length items) <? 2) eqn:E4; [exact I|].
    destruct (mcap - Z.of_nat (length items) =? 0) eqn:E5; [exact I|].
    bools. right.
    (* the contiguous window is smaller than the window: the write position has not wrapped *)
    assert (Hlt : pcap - w < pcap - ln) by lia.
    assert (0 < pcap) by lia.
    assert (0 < ln) by (destruct (Z.eq_dec ln 0); [rewrite (Hz e) in *; subst ln; rewrite W2 in Hlt by lia; lia|lia]).
    assert (Hw : w = rd + ln).
    { destruct (Z.ltb_spec (rd + ln) pcap); [apply W2; lia|]. rewrite W3 in Hlt by lia. lia. }
    exists (pcap - w). unfold pq_ring_enqueue_many, pq_push, pq_set_items, pq_set_ring, pq_contig, pq_window, pq_get_idx. cbn.
    destruct (ln =? 0) eqn:E6; bools; [lia|]. cbn. fold w.
    rewrite !Z.min_r by lia.
    repeat split; try lia.
  - bools. left. repeat split; try lia.
Qed.

Lemma same_packets_refl : forall q, pq_wf q -> same_packets q q.
Proof. intros. unfold same_packets. auto. Qed.

Lemma same_packets_trans : forall a b c, same_packets a b -> same_packets b c -> same_packets a c.
Proof. unfold same_packets. intros a b c (?&?&?&?) (?&?&?&?). split; [assumption|]. split; [congruence|]. split; congruence. Qed.

Lemma pq_enqueue_spec : forall q size h data,
  pq_wf q -> 0 <= size -> Z.of_nat (length data) = size ->
  exists q' b, pq_enqueue q size h data = Ok (q', b) /\
    (if b then enq_result q size h data q' else same_packets q q').
Proof.
  intros q size h data W Hs Hd. unfold pq_enqueue.
  destruct ((q_pcap q <? size) || pq_is_full q) eqn:E0.
  { exists q, false. split; [reflexivity|apply same_packets_refl; auto]. }
  bools.
  pose proof (clear_when_empty_wf q W) as (SP & Hz & Hitems).
  set (q0 := if q_len q =? 0 then pq_ring_clear q else q) in *.
  assert (Hfull0 : pq_is_full q0 = false).
  { unfold pq_is_full, pq_meta_len in *. rewrite Hitems. destruct SP as (_ & _ & -> & _). assumption. }
  destruct SP as (W0 & P0 & M0 & C0).
  clearbody q0. destruct q0 as [mcap pcap rd ln items].
  pose proof (make_room_spec mcap pcap rd ln items size W0 Hz Hs) as MR.
  destruct (pq_make_room _ size) as [q1|] eqn:EMR.
  2:{ exists (mkQ mcap pcap rd ln items), false. split; [reflexivity|]. unfold same_packets; auto. }
  cbn zeta in MR. pose proof W0 as W0'. destruct W0'; cbn in *.
  pose proof (sizes_nonneg _ _ _ wf_layout0) as Hn.
  destruct MR as [(-> & L1 & L2) | (c & -> & Hc & Hw & Hl & Hm & Hln)].
  - (* no padding *)
    rewrite Hfull0.
    unfold pq_ring_enqueue_many, pq_contig, pq_window, pq_get_idx, pq_set_ring. cbn.
    assert (Hrd : (if ln =? 0 then 0 else rd) = rd) by (destruct (ln =? 0) eqn:E; bools; [symmetry; auto|reflexivity]).
    assert (Hcontig : size <= Z.min (pcap - ln) (pcap - pq_wrap pcap (rd + ln))) by lia.
    destruct (ln =? 0) eqn:E; cbn; bools.
    + rewrite (Hz E) in *. subst ln. cbn in *. rewrite Z.min_l by lia. rewrite Z.eqb_refl. cbn.
      rewrite Hd, Z.eqb_refl. cbn.
      eexists _, true. split; [reflexivity|].
      unfold enq_result, pq_push, pq_set_items. cbn.
      unfold pq_is_full, pq_meta_len in Hfull0. cbn in Hfull0. bools.
      split; [|split; [|split]]; try congruence.
      * replace size with (0 + size) at 1 by lia. apply push_packet_wf; auto; lia.
      * unfold pq_packets in *. cbn in *. rewrite packets_app. cbn. congruence.
    + rewrite Z.min_l by lia. rewrite Z.eqb_refl. cbn. rewrite Hd, Z.eqb_refl. cbn.
      eexists _, true. split; [reflexivity|].
      unfold enq_result, pq_push, pq_set_items. cbn.
      unfold pq_is_full, pq_meta_len in Hfull0. cbn in Hfull0. bools.
      split; [|split; [|split]]; try congruence.
      * apply push_packet_wf; auto; lia.
      * unfold pq_packets in *. cbn in *. rewrite packets_app. cbn. congruence.
  - (* padding *)
    unfold pq_is_full, pq_meta_len. cbn. rewrite app_length. cbn.
    destruct (mcap - Z.of_nat (length items + 1) =? 0) eqn:E; bools; [lia|].
    unfold pq_ring_enqueue_many, pq_contig, pq_window, pq_get_idx, pq_set_ring. cbn.
    destruct (ln + c =? 0) eqn:E2; bools; [lia|]. cbn.
    assert (Hwr : pq_wrap pcap (rd + (ln + c)) = 0).
    { pose proof (wpos pcap rd ln wf_pcap0 (proj1 wf_read0) (proj2 wf_read0) ltac:(lia)) as (W0a & W1 & W2 & W3).
      cbv zeta in *.
      destruct (Z.eq_dec pcap 0); [apply wrap_nocap; lia|].
      destruct (Z.ltb_spec (rd + ln) pcap).
      - rewrite W2 in Hw by lia. replace (rd + (ln + c)) with pcap by lia. apply wrap_full.
      - rewrite W3 in Hw by lia. lia. }
    rewrite Hwr. rewrite Z.min_l by lia. rewrite Z.eqb_refl. cbn. rewrite Hd, Z.eqb_refl. cbn.
    eexists _, true. split; [reflexivity|].
    unfold enq_result, pq_push, pq_set_items. cbn.
    split; [|split; [|split]]; try congruence.
    * apply push_padding_packet_wf; auto; lia.
    * unfold pq_packets in *. cbn in *. rewrite !packets_app. cbn. rewrite app_nil_r. congruence.
Qed.

Lemma pq_enqueue_with_spec : forall q max_size h data,
  pq_wf q -> 0 <= max_size -> Z.of_nat (length data) <= max_size ->
  exists q' b, pq_enqueue_with q max_size h data = Ok (q', b) /\
    (if b then enq_result q (Z.of_nat (length data)) h data q' else same_packets q q').
Proof.
  intros q size h data W Hs Hd. unfold pq_enqueue_with.
  destruct ((q_pcap q <? size) || pq_is_full q) eqn:E0.
  { exists q, false. split; [reflexivity|apply same_packets_refl; auto]. }
  bools.
  pose proof (clear_when_empty_wf q W) as (SP & Hz & Hitems).
  set (q0 := if q_len q =? 0 then pq_ring_clear q else q) in *.
  assert (Hfull0 : pq_is_full q0 = false).
  { unfold pq_is_full, pq_meta_len in *. rewrite Hitems. destruct SP as (_ & _ & -> & _). assumption. }
  destruct SP as (W0 & P0 & M0 & C0).
  clearbody q0. destruct q0 as [mcap pcap rd ln items].
  pose proof (make_room_spec mcap pcap rd ln items size W0 Hz Hs) as MR.
  destruct (pq_make_room _ size) as [q1|] eqn:EMR.
  2:{ exists (mkQ mcap pcap rd ln items), false. split; [reflexivity|]. unfold same_packets; auto. }
  cbn zeta in MR. pose proof W0 as W0'. destruct W0'; cbn in *.
  pose proof (sizes_nonneg _ _ _ wf_layout0) as Hn.
  set (dl := Z.of_nat (length data)) in *.
  assert (0 <= dl) by (unfold dl; lia).
  destruct MR as [(-> & L1 & L2) | (c & -> & Hc & Hw & Hl & Hm & Hln)].
  - rewrite Hfull0.
    unfold pq_contig, pq_window, pq_get_idx, pq_set_ring. cbn.
    assert (Hcontig : size <= Z.min (pcap - ln) (pcap - pq_wrap pcap (rd + ln))) by lia.
    destruct (ln =? 0) eqn:E; cbn; bools.
    + pose proof (Hz E) as Hrd0. subst rd.
      match goal with |- context [?a <? size] => destruct (a <? size) eqn:E1 end; bools; [lia|].
      match goal with |- context [?a <? dl] => destruct (a <? dl) eqn:E2 end; bools; [lia|].
      eexists _, true. split; [reflexivity|].
      unfold enq_result, pq_push, pq_set_items. cbn.
      unfold pq_is_full, pq_meta_len in Hfull0. cbn in Hfull0. bools.
      split; [|split; [|split]]; try congruence.
      * apply push_packet_wf; auto; try lia.
      * unfold pq_packets in *. cbn in *. rewrite packets_app. cbn. congruence.
    + destruct (Z.min (pcap - ln) (pcap - pq_wrap pcap (rd + ln)) <? size) eqn:E1; bools; [lia|].
      destruct (Z.min (pcap - ln) (pcap - pq_wrap pcap (rd + ln)) <? dl) eqn:E2; bools; [lia|].
      eexists _, true. split; [reflexivity|].
      unfold enq_result, pq_push, pq_set_items. cbn.
      unfold pq_is_full, pq_meta_len in Hfull0. cbn in Hfull0. bools.
      split; [|split; [|split]]; try congruence.
      * apply push_packet_wf; auto; lia.
      * unfold pq_packets in *. cbn in *. rewrite packets_app. cbn. congruence.
  - unfold pq_is_full, pq_meta_len. cbn. rewrite app_length. cbn.
    destruct (mcap - Z.of_nat (length items + 1) =? 0) eqn:E; bools; [lia|].
    unfold pq_contig, pq_window, pq_get_idx, pq_set_ring. cbn.
    destruct (ln + c =? 0) eqn:E2; bools; [lia|]. cbn.
    assert (Hwr : pq_wrap pcap (rd + (ln + c)) = 0).
    { pose proof (wpos pcap rd ln wf_pcap0 (proj1 wf_read0) (proj2 wf_read0) ltac:(lia)) as (W0a & W1 & W2 & W3).
      cbv zeta in *.
      destruct (Z.eq_dec pcap 0); [apply wrap_nocap; lia|].
      destruct (Z.ltb_spec (rd + ln) pcap).
      - rewrite W2 in Hw by lia. replace (rd + (ln + c)) with pcap by lia. apply wrap_full.
      - rewrite W3 in Hw by lia. lia. }
    rewrite Hwr.
    destruct (Z.min (pcap - (ln + c)) (pcap - 0) <? size) eqn:E1; bools; [lia|].
    destruct (Z.min (pcap - (ln + c)) (pcap - 0) <? dl) eqn:E3; bools; [lia|].
    eexists _, true. split; [reflexivity|].
    unfold enq_result, pq_push, pq_set_items. cbn.
    split; [|split; [|split]]; try congruence.
    * apply push_padding_packet_wf; auto; lia.
    * unfold pq_packets in *. cbn in *. rewrite !packets_app. cbn. rewrite app_nil_r. congruence.
Qed.

(* removing the front record (packet or padding) *)
Lemma pop_front_wf : forall q it rest,
  pq_wf q -> q_items q = it :: rest ->
  it_size it <= pq_ring_front_len q /\
  snd (pq_ring_dequeue_many q (it_size it)) = it_size it /\
  pq_wf (pq_set_items (fst (pq_ring_dequeue_many q (it_size it))) rest).
Proof.
  intros q it rest W E. destruct q as [mcap pcap rd ln items]. cbn in E. subst items.
  destruct W; cbn in *. destruct wf_layout0 as (Hs & Hp & Hh & L).
  pose proof (sizes_nonneg _ _ _ L) as Hn.
  unfold pq_ring_front_len, pq_ring_dequeue_many, pq_ring_front_len, pq_set_ring, pq_set_items. cbn.
  assert (Hfl : it_size it <= Z.min ln (pcap - rd)) by lia.
  split; [exact Hfl|]. rewrite Z.min_l by lia. split; [reflexivity|].
  constructor; cbn; try lia.
  - destruct (Z.leb_spec pcap 0); [rewrite wrap_nocap by lia; lia|].
    pose proof (wrap_range pcap (rd + it_size it) ltac:(lia)). lia.
  - exact L.
Qed.

Lemma dequeue_padding_spec : forall q, pq_wf q ->
  let q1 := pq_dequeue_padding q in
  same_packets q q1 /\
  match q_items q1 with [] => True | it :: _ => it_hdr it <> None end.
Proof.
  intros q W q1. unfold q1, pq_dequeue_padding.
  destruct (q_items q) as [|it rest] eqn:E.
  - split; [apply same_packets_refl; auto|]. rewrite E. exact I.
  - destruct (it_hdr it) eqn:Eh.
    + split; [apply same_packets_refl; auto|]. rewrite E. congruence.
    + pose proof (pop_front_wf q it rest W E) as (_ & _ & W1).
      split.
      * unfold same_packets. split; [exact W1|]. unfold pq_packets. rewrite E. cbn. rewrite Eh.
        repeat split; reflexivity.
      * cbn. destruct W. rewrite E in wf_layout0. cbn in wf_layout0. rewrite Eh in wf_layout0.
        destruct wf_layout0 as (_ & _ & Hh & _). destruct rest; [contradiction|exact Hh].
Qed.

Lemma packets_cons_packet : forall it rest h,
  it_hdr it = Some h -> items_packets (it :: rest) = (h, it_data it) :: items_packets rest.
Proof. intros. cbn. rewrite H. reflexivity. Qed.

(* dequeue: FIFO, whole, never panics *)
Lemma pq_dequeue_spec : forall q, pq_wf q ->
  exists q' r, pq_dequeue q = Ok (q', r) /\ pq_wf q' /\
    q_mcap q' = q_mcap q /\ q_pcap q' = q_pcap q /\
    match r with
    | None => pq_packets q = [] /\ pq_packets q' = []
    | Some x => pq_packets q = x :: pq_packets q'
    end.
Proof.
  intros q W. unfold pq_dequeue.
  pose proof (dequeue_padding_spec q W) as ((W1 & P1 & M1 & C1) & F).
  set (q1 := pq_dequeue_padding q) in *. clearbody q1.
  destruct (q_items q1) as [|it rest] eqn:E.
  - exists q1, None. split; [reflexivity|]. split; [exact W1|]. split; [exact M1|]. split; [exact C1|].
    split; [rewrite <- P1|]; unfold pq_packets; rewrite E; reflexivity.
  - pose proof (pop_front_wf q1 it rest W1 E) as (_ & Hn & W2).
    destruct (pq_ring_dequeue_many q1 (it_size it)) as [q2 n] eqn:ER. cbn in Hn, W2. subst n.
    rewrite Z.eqb_refl. cbn.
    destruct (it_hdr it) as [h|] eqn:Eh; [|contradiction].
    exists (pq_set_items q2 rest), (Some (h, it_data it)). split; [reflexivity|].
    split; [exact W2|].
    assert (q_mcap q2 = q_mcap q1 /\ q_pcap q2 = q_pcap q1) as (? & ?).
    { unfold pq_ring_dequeue_many in ER. inversion ER. cbn. auto. }
    split; [cbn; congruence|]. split; [cbn; congruence|].
    rewrite <- P1. unfold pq_packets. rewrite E. cbn. rewrite Eh. reflexivity.
Qed.

Lemma pq_peek_spec : forall q, pq_wf q ->
  exists q' r, pq_peek q = Ok (q', r) /\ same_packets q q' /\
    match r with
    | None => pq_packets q = []
    | Some x => exists rest, pq_packets q = x :: rest
    end.
Proof.
  intros q W. unfold pq_peek.
  pose proof (dequeue_padding_spec q W) as (SP & F).
  set (q1 := pq_dequeue_padding q) in *. clearbody q1. destruct SP as (W1 & P1 & M1 & C1).
  destruct (q_items q1) as [|it rest] eqn:E.
  - exists q1, None. split; [reflexivity|]. split; [unfold same_packets; auto|].
    rewrite <- P1. unfold pq_packets. rewrite E. reflexivity.
  - destruct (it_hdr it) as [h|] eqn:Eh; [|contradiction].
    pose proof (pop_front_wf q1 it rest W1 E) as (Hfl & _ & _).
    rewrite Z.min_l by lia.
    assert (Hlen : Z.of_nat (length (it_data it)) = it_size it).
    { destruct W1. rewrite E in wf_layout0. cbn in wf_layout0. rewrite Eh in wf_layout0. tauto. }
    rewrite <- Hlen, Nat2Z.id, firstn_all.
    exists q1, (Some (h, it_data it)). split; [reflexivity|]. split; [unfold same_packets; auto|].
    exists (items_packets rest). rewrite <- P1. unfold pq_packets. rewrite E. cbn. rewrite Eh. reflexivity.
Qed.

(* dequeue_with: the callback sees exactly the head packet; it is removed iff the callback
   answers 0 *)
Lemma pq_dequeue_with_spec : forall (E : Type) q (f : dmeta -> list Z -> E -> outcome (E * Z)) e,
  pq_wf q ->
  match pq_packets q with
  | [] => exists q', pq_dequeue_with q f e = Ok (q', e, None) /\ same_packets q q'
  | (h, d) :: rest =>
      match f h d e with
      | Ok (e', r) =>
          exists q', pq_dequeue_with q f e = Ok (q', e', Some r) /\ pq_wf q' /\
            q_mcap q' = q_mcap q /\ q_pcap q' = q_pcap q /\
            pq_packets q' = if r =? 0 then rest else (h, d) :: rest
      | Err x => pq_dequeue_with q f e = Err x
      | Panic => pq_dequeue_with q f e = Panic
      end
  end.
Proof.
  intros E q f e W. unfold pq_dequeue_with.
  pose proof (dequeue_padding_spec q W) as (SP & F).
  set (q1 := pq_dequeue_padding q) in *. clearbody q1. destruct SP as (W1 & P1 & M1 & C1).
  rewrite <- P1. unfold pq_packets at 1.
  destruct (q_items q1) as [|it rest] eqn:Ei.
  - cbn. exists q1. split; [reflexivity|unfold same_packets; auto].
  - destruct (it_hdr it) as [h|] eqn:Eh; [|contradiction].
    cbn [items_packets]. rewrite Eh.
    pose proof (pop_front_wf q1 it rest W1 Ei) as (Hfl & Hn & W2).
    destruct (pq_ring_front_len q1 <? it_size it) eqn:E1; bools; [lia|].
    destruct (f h (it_data it) e) as [[e' r]| |]; cbn; try reflexivity.
    destruct (r =? 0) eqn:Er.
    + apply Z.eqb_eq in Er. subst r.
      eexists. split; [reflexivity|]. split; [exact W2|].
      unfold pq_ring_dequeue_many, pq_set_items, pq_set_ring. cbn.
      split; [congruence|]. split; [congruence|]. reflexivity.
    + eexists. split; [reflexivity|]. split; [exact W1|].
      split; [congruence|]. split; [congruence|].
      unfold pq_packets. rewrite Ei. cbn. rewrite Eh. reflexivity.
Qed.
