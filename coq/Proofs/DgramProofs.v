(* Proofs about the datagram-socket models (property C09).
   Part A: the packet queue (Model/DgramQueue.v): invariant [pq_wf], every operation
           preserves it, never panics, and acts on [pq_packets] as on a FIFO.
   Part B: one socket: step specifications in terms of (tx_pending, rx_pending).
   Part C: histories: the ghost lists of a whole run.
   Part D: interface: first matching udp socket only; what an emit does to the wire. *)
From SV Require Import Lib.Base Gen.Consts Model.DgramQueue Model.Dgram.

Local Open Scope Z_scope.

(* ------------------------------------------------------------------ *)
(* Part A: queue                                                       *)
(* ------------------------------------------------------------------ *)

Lemma wrap_small : forall pcap x, 0 <= x < pcap -> pq_wrap pcap x = x.
Proof.
  intros. unfold pq_wrap. destruct (Z.gtb_spec pcap 0); [|lia].
  apply Z.mod_small. lia.
Qed.

Lemma wrap_full : forall pcap, pq_wrap pcap pcap = 0.
Proof.
  intros. unfold pq_wrap. destruct (Z.gtb_spec pcap 0); [|reflexivity].
  apply Z_mod_same_full.
Qed.

Lemma wrap_nocap : forall pcap x, pcap <= 0 -> pq_wrap pcap x = 0.
Proof. intros. unfold pq_wrap. destruct (Z.gtb_spec pcap 0); [lia|reflexivity]. Qed.

Lemma wrap_range : forall pcap x, 0 < pcap -> 0 <= pq_wrap pcap x < pcap.
Proof.
  intros. unfold pq_wrap. destruct (Z.gtb_spec pcap 0); [|lia].
  apply Z.mod_pos_bound. lia.
Qed.

Lemma wrap_over : forall pcap x, 0 < pcap -> pcap <= x < 2 * pcap -> pq_wrap pcap x = x - pcap.
Proof.
  intros. unfold pq_wrap. destruct (Z.gtb_spec pcap 0); [|lia].
  symmetry. apply Z.mod_unique_pos with (q := 1); lia.
Qed.

Lemma wrap_wrap_add : forall pcap x y, pq_wrap pcap (pq_wrap pcap x + y) = pq_wrap pcap (x + y).
Proof.
  intros. unfold pq_wrap. destruct (Z.gtb_spec pcap 0); [|reflexivity].
  apply Z.add_mod_idemp_l. lia.
Qed.

Fixpoint sizes (l : list qitem) : Z :=
  match l with [] => 0 | it :: rest => it_size it + sizes rest end.

Lemma sizes_app : forall a b, sizes (a ++ b) = sizes a + sizes b.
Proof. induction a; intros; cbn [sizes app] in *; [lia|]. rewrite IHa. lia. Qed.

(* the records are laid out one after the other from [pos]; none wraps; a padding record is
   always followed by a packet *)
Fixpoint layout (pcap pos : Z) (l : list qitem) : Prop :=
  match l with
  | [] => True
  | it :: rest =>
      0 <= it_size it /\ pos + it_size it <= pcap /\
      match it_hdr it with
      | Some _ => Z.of_nat (length (it_data it)) = it_size it
      | None => match rest with r :: _ => it_hdr r <> None | [] => False end
      end /\
      layout pcap (pq_wrap pcap (pos + it_size it)) rest
  end.

Record pq_wf (q : pq) : Prop := mkWf {
  wf_mcap : 0 <= q_mcap q;
  wf_pcap : 0 <= q_pcap q;
  wf_read : 0 <= q_read q /\ (q_read q < q_pcap q \/ q_read q = 0);
  wf_len : q_len q = sizes (q_items q);
  wf_len_le : q_len q <= q_pcap q;
  wf_meta : Z.of_nat (length (q_items q)) <= q_mcap q;
  wf_layout : layout (q_pcap q) (q_read q) (q_items q)
}.

Lemma pq_new_wf : forall m p, 0 <= m -> 0 <= p -> pq_wf (pq_new m p).
Proof. intros. constructor; cbn; try lia; try exact I. Qed.

Lemma pq_reset_wf : forall q, pq_wf q -> pq_wf (pq_reset q).
Proof. intros q W. destruct W. constructor; cbn; try lia; try exact I. Qed.

Lemma sizes_nonneg : forall pcap pos l, layout pcap pos l -> 0 <= sizes l.
Proof.
  intros pcap pos l; revert pos; induction l; intros; cbn [sizes] in *; [lia|].
  destruct H as (? & ? & ? & L). apply IHl in L. lia.
Qed.

(* when nothing is stored every record is empty and the layout does not depend on the start *)
Lemma layout_all_zero : forall pcap pos pos' l,
  layout pcap pos l -> sizes l = 0 -> 0 <= pos' -> pos' <= pcap -> 0 <= pos -> pos <= pcap ->
  layout pcap pos' l.
Proof.
  intros pcap pos pos' l; revert pos pos'; induction l; intros pos pos' L S P1 P2 P3 P4; [exact I|].
  cbn [sizes] in S.
  destruct L as (Hs & Hp & Hh & L).
  pose proof (sizes_nonneg _ _ _ L).
  assert (it_size a = 0) by lia. assert (sizes l = 0) by lia.
  cbn [layout]. rewrite H0 in *. repeat split; try lia; [exact Hh|].
  rewrite Z.add_0_r in *.
  destruct (Z.leb_spec pcap 0).
  - rewrite wrap_nocap in * by lia. exact L.
  - eapply IHl; eauto.
    + apply wrap_range; lia.
    + pose proof (wrap_range pcap pos' ltac:(lia)); lia.
    + apply wrap_range; lia.
    + pose proof (wrap_range pcap pos ltac:(lia)); lia.
Qed.

Definition endpos (pcap pos : Z) (l : list qitem) : Z := pq_wrap pcap (pos + sizes l).

(* version with an explicit in-range start *)
Lemma layout_app : forall pcap l pos l2,
  0 <= pos -> (pos < pcap \/ (pos = 0 /\ pcap = 0)) ->
  layout pcap pos l -> layout pcap (endpos pcap pos l) l2 ->
  layout pcap pos (l ++ l2).
Proof.
  intros pcap l; induction l; intros pos l2 P1 P2 L L2.
  - cbn [app]. unfold endpos in L2. cbn [sizes] in L2. rewrite Z.add_0_r in L2.
    destruct P2 as [P2|[P2 P3]].
    + rewrite wrap_small in L2 by lia. exact L2.
    + subst. rewrite wrap_nocap in L2 by lia. exact L2.
  - cbn [app layout] in *. destruct L as (Hs & Hp & Hh & L).
    repeat split; try lia.
    + destruct (it_hdr a); [exact Hh|]. destruct l; [contradiction|exact Hh].
    + apply IHl.
      * destruct (Z.leb_spec pcap 0); [rewrite wrap_nocap by lia; lia|apply wrap_range; lia].
      * destruct (Z.leb_spec pcap 0).
        -- right. rewrite wrap_nocap by lia. lia.
        -- left. apply wrap_range; lia.
      * exact L.
      * unfold endpos in *. cbn [sizes] in L2.
        rewrite wrap_wrap_add. replace (pos + it_size a + sizes l) with (pos + (it_size a + sizes l)) by lia.
        exact L2.
Qed.

Lemma packets_app : forall a b, items_packets (a ++ b) = items_packets a ++ items_packets b.
Proof.
  induction a; intros; cbn [items_packets app]; [reflexivity|].
  destruct (it_hdr a); rewrite IHa; reflexivity.
Qed.

(* position arithmetic of the write pointer *)
Lemma write_pos : forall q, pq_wf q ->
  let w := pq_get_idx q (q_len q) in
  (q_pcap q = 0 -> w = 0) /\
  (0 < q_pcap q -> q_read q + q_len q < q_pcap q -> w = q_read q + q_len q) /\
  (0 < q_pcap q -> q_pcap q <= q_read q + q_len q -> w = q_read q + q_len q - q_pcap q).
Proof.
  intros q W w. destruct W. unfold w, pq_get_idx.
  pose proof (sizes_nonneg _ _ _ wf_layout0).
  repeat split; intros.
  - apply wrap_nocap; lia.
  - apply wrap_small; lia.
  - apply wrap_over; lia.
Qed.

Lemma wpos : forall pcap read len,
  0 <= pcap -> 0 <= read -> (read < pcap \/ read = 0) -> 0 <= len <= pcap ->
  let w := pq_wrap pcap (read + len) in
  0 <= w /\ (pcap = 0 -> w = 0) /\
  (0 < pcap -> read + len < pcap -> w = read + len) /\
  (0 < pcap -> pcap <= read + len -> w = read + len - pcap).
Proof.
  intros. unfold w. repeat split; intros.
  - destruct (Z.leb_spec pcap 0); [rewrite wrap_nocap by lia; lia|apply wrap_range; lia].
  - apply wrap_nocap; lia.
  - apply wrap_small; lia.
  - apply wrap_over; lia.
Qed.

Ltac splits := repeat match goal with |- _ /\ _ => split end.

Ltac bools :=
  repeat match goal with
  | H : (_ || _) = true |- _ => apply orb_true_iff in H
  | H : (_ || _) = false |- _ => apply orb_false_iff in H; destruct H
  | H : (_ && _) = true |- _ => apply andb_true_iff in H; destruct H
  | H : (_ && _) = false |- _ => apply andb_false_iff in H
  | H : negb _ = true |- _ => apply negb_true_iff in H
  | H : negb _ = false |- _ => apply negb_false_iff in H
  | H : (_ <? _) = true |- _ => apply Z.ltb_lt in H
  | H : (_ <? _) = false |- _ => apply Z.ltb_ge in H
  | H : (_ <=? _) = true |- _ => apply Z.leb_le in H
  | H : (_ <=? _) = false |- _ => apply Z.leb_gt in H
  | H : (_ =? _) = true |- _ => apply Z.eqb_eq in H
  | H : (_ =? _) = false |- _ => apply Z.eqb_neq in H
  | H : (_ >? _) = true |- _ => rewrite Z.gtb_ltb in H
  | H : (_ >? _) = false |- _ => rewrite Z.gtb_ltb in H
  end.

(* the state of a queue after a successful enqueue of a packet [it] (possibly behind a padding) *)
Definition enq_result (q : pq) (size : Z) (h : dmeta) (data : list Z) (q' : pq) : Prop :=
  pq_wf q' /\ pq_packets q' = pq_packets q ++ [(h, data)] /\
  q_mcap q' = q_mcap q /\ q_pcap q' = q_pcap q.

Definition same_packets (q q' : pq) : Prop :=
  pq_wf q' /\ pq_packets q' = pq_packets q /\ q_mcap q' = q_mcap q /\ q_pcap q' = q_pcap q.

Lemma clear_when_empty_wf : forall q, pq_wf q ->
  let q0 := if q_len q =? 0 then pq_ring_clear q else q in
  same_packets q q0 /\ (q_len q0 = 0 -> q_read q0 = 0) /\ q_items q0 = q_items q.
Proof.
  intros q W q0. unfold q0. destruct (q_len q =? 0) eqn:E; bools.
  - destruct W. destruct q as [mcap pcap rd ln items]. cbn in *. subst ln.
    repeat split; cbn; try lia; try reflexivity.
    eapply layout_all_zero; eauto; try lia.
  - unfold same_packets. intuition lia.
Qed.

(* appending a packet (optionally behind a padding that fills the ring up to its end) *)
Lemma push_packet_wf : forall mcap pcap rd ln items size h data,
  pq_wf (mkQ mcap pcap rd ln items) -> 0 <= size -> Z.of_nat (length data) = size ->
  Z.of_nat (length items) + 1 <= mcap ->
  ln + size <= pcap -> pq_wrap pcap (rd + ln) + size <= pcap ->
  pq_wf (mkQ mcap pcap rd (ln + size) (items ++ [it_packet size h data])).
Proof.
  intros until data. intros W Hs Hd Hm Hl Hw. destruct W; cbn in *.
  constructor; cbn; try lia.
  - rewrite sizes_app. cbn. lia.
  - rewrite app_length. cbn. lia.
  - apply layout_app; try lia; [assumption|].
    unfold endpos. rewrite <- wf_len0. cbn. repeat split; try lia.
Qed.

Lemma push_padding_packet_wf : forall mcap pcap rd ln items c size h data,
  pq_wf (mkQ mcap pcap rd ln items) -> 0 <= size -> Z.of_nat (length data) = size ->
  Z.of_nat (length items) + 2 <= mcap -> 0 <= c ->
  pq_wrap pcap (rd + ln) + c = pcap -> ln + c + size <= pcap ->
  pq_wf (mkQ mcap pcap rd (ln + c + size) ((items ++ [it_padding c]) ++ [it_packet size h data])).
Proof.
  intros until data. intros W Hs Hd Hm Hc Hw Hl. destruct W; cbn in *.
  constructor; cbn; try lia.
  - rewrite !sizes_app. cbn. lia.
  - rewrite !app_length. cbn. lia.
  - rewrite <- app_assoc. apply layout_app; try lia; [assumption|].
    unfold endpos. rewrite <- wf_len0. cbn. repeat split; try lia; try discriminate.
    pose proof (sizes_nonneg _ _ _ wf_layout0). rewrite Hw, wrap_full. lia.
Qed.

Lemma make_room_spec : forall mcap pcap rd ln items size,
  let q := mkQ mcap pcap rd ln items in
  pq_wf q -> (ln = 0 -> rd = 0) -> 0 <= size ->
  match pq_make_room q size with
  | None => True
  | Some q1 =>
      let w := pq_wrap pcap (rd + ln) in
      (q1 = q /\ ln + size <= pcap /\ w + size <= pcap) \/
      (exists c, q1 = mkQ mcap pcap rd (ln + c) (items ++ [it_padding c]) /\ 0 <= c /\
                 w + c = pcap /\ ln + c + size <= pcap /\
                 Z.of_nat (length items) + 2 <= mcap /\ 0 < ln)
  end.
Proof.
  intros mcap pcap rd ln items size q W Hz Hs. destruct W; cbn in *.
  pose proof (sizes_nonneg _ _ _ wf_layout0) as Hn.
  pose proof (wpos pcap rd ln wf_pcap0 (proj1 wf_read0) (proj2 wf_read0) ltac:(lia)) as (W0 & W1 & W2 & W3).
  cbv beta iota zeta delta [pq_make_room pq_window pq_contig pq_get_idx pq_is_full pq_meta_len q q_pcap q_len q_read q_mcap q_items].
  set (w := pq_wrap pcap (rd + ln)) in *.
  destruct (pcap - ln <? size) eqn:E1; [exact I|].
  destruct (Z.min (pcap - ln) (pcap - w) <? size) eqn:E2.
  - destruct (pcap - ln - Z.min (pcap - ln) (pcap - w) <? size) eqn:E3; [exact I|].
    destruct (mcap - Z.of_nat (length items) <? 2) eqn:E4; [exact I|].
    destruct (mcap - Z.of_nat (length items) =? 0) eqn:E5; [exact I|].
    bools. right.
    (* the contiguous window is smaller than the window: the write position has not wrapped *)
    assert (Hlt : pcap - w < pcap - ln) by lia.
    assert (0 < pcap) by lia.
    assert (0 < ln) by (destruct (Z.eq_dec ln 0); [rewrite (Hz e) in *; subst ln; rewrite W2 in Hlt by lia; lia|lia]).
    assert (Hw : w = rd + ln).
    { destruct (Z.ltb_spec (rd + ln) pcap); [apply W2; lia|]. rewrite W3 in Hlt by lia. lia. }
    exists (pcap - w). unfold pq_ring_enqueue_many, pq_push, pq_set_items, pq_set_ring, pq_contig, pq_window, pq_get_idx. cbn.
    destruct (ln =? 0) eqn:E6; bools; [lia|]. cbn. fold w.
    rewrite !Z.min_r by lia.
    repeat split; try lia.
  - bools. left. repeat split; try lia.
Qed.

Lemma same_packets_refl : forall q, pq_wf q -> same_packets q q.
Proof. intros. unfold same_packets. auto. Qed.

Lemma same_packets_trans : forall a b c, same_packets a b -> same_packets b c -> same_packets a c.
Proof. unfold same_packets. intros a b c (?&?&?&?) (?&?&?&?). split; [assumption|]. split; [congruence|]. split; congruence. Qed.

Lemma pq_enqueue_spec : forall q size h data,
  pq_wf q -> 0 <= size -> Z.of_nat (length data) = size ->
  exists q' b, pq_enqueue q size h data = Ok (q', b) /\
    (if b then enq_result q size h data q' else same_packets q q').
Proof.
  intros q size h data W Hs Hd. unfold pq_enqueue.
  destruct ((q_pcap q <? size) || pq_is_full q) eqn:E0.
  { exists q, false. split; [reflexivity|apply same_packets_refl; auto]. }
  bools.
  pose proof (clear_when_empty_wf q W) as (SP & Hz & Hitems).
  set (q0 := if q_len q =? 0 then pq_ring_clear q else q) in *.
  assert (Hfull0 : pq_is_full q0 = false).
  { unfold pq_is_full, pq_meta_len in *. rewrite Hitems. destruct SP as (_ & _ & -> & _). assumption. }
  destruct SP as (W0 & P0 & M0 & C0).
  clearbody q0. destruct q0 as [mcap pcap rd ln items].
  pose proof (make_room_spec mcap pcap rd ln items size W0 Hz Hs) as MR.
  destruct (pq_make_room _ size) as [q1|] eqn:EMR.
  2:{ exists (mkQ mcap pcap rd ln items), false. split; [reflexivity|]. unfold same_packets; auto. }
  cbn zeta in MR. pose proof W0 as W0'. destruct W0'; cbn in *.
  pose proof (sizes_nonneg _ _ _ wf_layout0) as Hn.
  destruct MR as [(-> & L1 & L2) | (c & -> & Hc & Hw & Hl & Hm & Hln)].
  - (* no padding *)
    rewrite Hfull0.
    unfold pq_ring_enqueue_many, pq_contig, pq_window, pq_get_idx, pq_set_ring. cbn.
    assert (Hrd : (if ln =? 0 then 0 else rd) = rd) by (destruct (ln =? 0) eqn:E; bools; [symmetry; auto|reflexivity]).
    assert (Hcontig : size <= Z.min (pcap - ln) (pcap - pq_wrap pcap (rd + ln))) by lia.
    destruct (ln =? 0) eqn:E; cbn; bools.
    + rewrite (Hz E) in *. subst ln. cbn in *. rewrite Z.min_l by lia. rewrite Z.eqb_refl. cbn.
      rewrite Hd, Z.eqb_refl. cbn.
      eexists _, true. split; [reflexivity|].
      unfold enq_result, pq_push, pq_set_items. cbn.
      unfold pq_is_full, pq_meta_len in Hfull0. cbn in Hfull0. bools.
      split; [|split; [|split]]; try congruence.
      * replace size with (0 + size) at 1 by lia. apply push_packet_wf; auto; lia.
      * unfold pq_packets in *. cbn in *. rewrite packets_app. cbn. congruence.
    + rewrite Z.min_l by lia. rewrite Z.eqb_refl. cbn. rewrite Hd, Z.eqb_refl. cbn.
      eexists _, true. split; [reflexivity|].
      unfold enq_result, pq_push, pq_set_items. cbn.
      unfold pq_is_full, pq_meta_len in Hfull0. cbn in Hfull0. bools.
      split; [|split; [|split]]; try congruence.
      * apply push_packet_wf; auto; lia.
      * unfold pq_packets in *. cbn in *. rewrite packets_app. cbn. congruence.
  - (* padding *)
    unfold pq_is_full, pq_meta_len. cbn. rewrite app_length. cbn.
    destruct (mcap - Z.of_nat (length items + 1) =? 0) eqn:E; bools; [lia|].
    unfold pq_ring_enqueue_many, pq_contig, pq_window, pq_get_idx, pq_set_ring. cbn.
    destruct (ln + c =? 0) eqn:E2; bools; [lia|]. cbn.
    assert (Hwr : pq_wrap pcap (rd + (ln + c)) = 0).
    { pose proof (wpos pcap rd ln wf_pcap0 (proj1 wf_read0) (proj2 wf_read0) ltac:(lia)) as (W0a & W1 & W2 & W3).
      cbv zeta in *.
      destruct (Z.eq_dec pcap 0); [apply wrap_nocap; lia|].
      destruct (Z.ltb_spec (rd + ln) pcap).
      - rewrite W2 in Hw by lia. replace (rd + (ln + c)) with pcap by lia. apply wrap_full.
      - rewrite W3 in Hw by lia. lia. }
    rewrite Hwr. rewrite Z.min_l by lia. rewrite Z.eqb_refl. cbn. rewrite Hd, Z.eqb_refl. cbn.
    eexists _, true. split; [reflexivity|].
    unfold enq_result, pq_push, pq_set_items. cbn.
    split; [|split; [|split]]; try congruence.
    * apply push_padding_packet_wf; auto; lia.
    * unfold pq_packets in *. cbn in *. rewrite !packets_app. cbn. rewrite app_nil_r. congruence.
Qed.

Lemma pq_enqueue_with_spec : forall q max_size h data,
  pq_wf q -> 0 <= max_size -> Z.of_nat (length data) <= max_size ->
  exists q' b, pq_enqueue_with q max_size h data = Ok (q', b) /\
    (if b then enq_result q (Z.of_nat (length data)) h data q' else same_packets q q').
Proof.
  intros q size h data W Hs Hd. unfold pq_enqueue_with.
  destruct ((q_pcap q <? size) || pq_is_full q) eqn:E0.
  { exists q, false. split; [reflexivity|apply same_packets_refl; auto]. }
  bools.
  pose proof (clear_when_empty_wf q W) as (SP & Hz & Hitems).
  set (q0 := if q_len q =? 0 then pq_ring_clear q else q) in *.
  assert (Hfull0 : pq_is_full q0 = false).
  { unfold pq_is_full, pq_meta_len in *. rewrite Hitems. destruct SP as (_ & _ & -> & _). assumption. }
  destruct SP as (W0 & P0 & M0 & C0).
  clearbody q0. destruct q0 as [mcap pcap rd ln items].
  pose proof (make_room_spec mcap pcap rd ln items size W0 Hz Hs) as MR.
  destruct (pq_make_room _ size) as [q1|] eqn:EMR.
  2:{ exists (mkQ mcap pcap rd ln items), false. split; [reflexivity|]. unfold same_packets; auto. }
  cbn zeta in MR. pose proof W0 as W0'. destruct W0'; cbn in *.
  pose proof (sizes_nonneg _ _ _ wf_layout0) as Hn.
  set (dl := Z.of_nat (length data)) in *.
  assert (0 <= dl) by (unfold dl; lia).
  destruct MR as [(-> & L1 & L2) | (c & -> & Hc & Hw & Hl & Hm & Hln)].
  - rewrite Hfull0.
    unfold pq_contig, pq_window, pq_get_idx, pq_set_ring. cbn.
    assert (Hcontig : size <= Z.min (pcap - ln) (pcap - pq_wrap pcap (rd + ln))) by lia.
    destruct (ln =? 0) eqn:E; cbn; bools.
    + pose proof (Hz E) as Hrd0. subst rd.
      match goal with |- context [?a <? size] => destruct (a <? size) eqn:E1 end; bools; [lia|].
      match goal with |- context [?a <? dl] => destruct (a <? dl) eqn:E2 end; bools; [lia|].
      eexists _, true. split; [reflexivity|].
      unfold enq_result, pq_push, pq_set_items. cbn.
      unfold pq_is_full, pq_meta_len in Hfull0. cbn in Hfull0. bools.
      split; [|split; [|split]]; try congruence.
      * apply push_packet_wf; auto; try lia.
      * unfold pq_packets in *. cbn in *. rewrite packets_app. cbn. congruence.
    + destruct (Z.min (pcap - ln) (pcap - pq_wrap pcap (rd + ln)) <? size) eqn:E1; bools; [lia|].
      destruct (Z.min (pcap - ln) (pcap - pq_wrap pcap (rd + ln)) <? dl) eqn:E2; bools; [lia|].
      eexists _, true. split; [reflexivity|].
      unfold enq_result, pq_push, pq_set_items. cbn.
      unfold pq_is_full, pq_meta_len in Hfull0. cbn in Hfull0. bools.
      split; [|split; [|split]]; try congruence.
      * apply push_packet_wf; auto; lia.
      * unfold pq_packets in *. cbn in *. rewrite packets_app. cbn. congruence.
  - unfold pq_is_full, pq_meta_len. cbn. rewrite app_length. cbn.
    destruct (mcap - Z.of_nat (length items + 1) =? 0) eqn:E; bools; [lia|].
    unfold pq_contig, pq_window, pq_get_idx, pq_set_ring. cbn.
    destruct (ln + c =? 0) eqn:E2; bools; [lia|]. cbn.
    assert (Hwr : pq_wrap pcap (rd + (ln + c)) = 0).
    { pose proof (wpos pcap rd ln wf_pcap0 (proj1 wf_read0) (proj2 wf_read0) ltac:(lia)) as (W0a & W1 & W2 & W3).
      cbv zeta in *.
      destruct (Z.eq_dec pcap 0); [apply wrap_nocap; lia|].
      destruct (Z.ltb_spec (rd + ln) pcap).
      - rewrite W2 in Hw by lia. replace (rd + (ln + c)) with pcap by lia. apply wrap_full.
      - rewrite W3 in Hw by lia. lia. }
    rewrite Hwr.
    destruct (Z.min (pcap - (ln + c)) (pcap - 0) <? size) eqn:E1; bools; [lia|].
    destruct (Z.min (pcap - (ln + c)) (pcap - 0) <? dl) eqn:E3; bools; [lia|].
    eexists _, true. split; [reflexivity|].
    unfold enq_result, pq_push, pq_set_items. cbn.
    split; [|split; [|split]]; try congruence.
    * apply push_padding_packet_wf; auto; lia.
    * unfold pq_packets in *. cbn in *. rewrite !packets_app. cbn. rewrite app_nil_r. congruence.
Qed.

(* removing the front record (packet or padding) *)
Lemma pop_front_wf : forall q it rest,
  pq_wf q -> q_items q = it :: rest ->
  it_size it <= pq_ring_front_len q /\
  snd (pq_ring_dequeue_many q (it_size it)) = it_size it /\
  pq_wf (pq_set_items (fst (pq_ring_dequeue_many q (it_size it))) rest).
Proof.
  intros q it rest W E. destruct q as [mcap pcap rd ln items]. cbn in E. subst items.
  destruct W; cbn in *. destruct wf_layout0 as (Hs & Hp & Hh & L).
  pose proof (sizes_nonneg _ _ _ L) as Hn.
  unfold pq_ring_front_len, pq_ring_dequeue_many, pq_ring_front_len, pq_set_ring, pq_set_items. cbn.
  assert (Hfl : it_size it <= Z.min ln (pcap - rd)) by lia.
  split; [exact Hfl|]. rewrite Z.min_l by lia. split; [reflexivity|].
  constructor; cbn; try lia.
  - destruct (Z.leb_spec pcap 0); [rewrite wrap_nocap by lia; lia|].
    pose proof (wrap_range pcap (rd + it_size it) ltac:(lia)). lia.
  - exact L.
Qed.

Lemma dequeue_padding_spec : forall q, pq_wf q ->
  let q1 := pq_dequeue_padding q in
  same_packets q q1 /\
  match q_items q1 with [] => True | it :: _ => it_hdr it <> None end.
Proof.
  intros q W q1. unfold q1, pq_dequeue_padding.
  destruct (q_items q) as [|it rest] eqn:E.
  - split; [apply same_packets_refl; auto|]. rewrite E. exact I.
  - destruct (it_hdr it) eqn:Eh.
    + split; [apply same_packets_refl; auto|]. rewrite E. congruence.
    + pose proof (pop_front_wf q it rest W E) as (_ & _ & W1).
      split.
      * unfold same_packets. split; [exact W1|]. unfold pq_packets. rewrite E. cbn. rewrite Eh.
        repeat split; reflexivity.
      * cbn. destruct W. rewrite E in wf_layout0. cbn in wf_layout0. rewrite Eh in wf_layout0.
        destruct wf_layout0 as (_ & _ & Hh & _). destruct rest; [contradiction|exact Hh].
Qed.

Lemma packets_cons_packet : forall it rest h,
  it_hdr it = Some h -> items_packets (it :: rest) = (h, it_data it) :: items_packets rest.
Proof. intros. cbn. rewrite H. reflexivity. Qed.

(* dequeue: FIFO, whole, never panics *)
Lemma pq_dequeue_spec : forall q, pq_wf q ->
  exists q' r, pq_dequeue q = Ok (q', r) /\ pq_wf q' /\
    q_mcap q' = q_mcap q /\ q_pcap q' = q_pcap q /\
    match r with
    | None => pq_packets q = [] /\ pq_packets q' = []
    | Some x => pq_packets q = x :: pq_packets q'
    end.
Proof.
  intros q W. unfold pq_dequeue.
  pose proof (dequeue_padding_spec q W) as ((W1 & P1 & M1 & C1) & F).
  set (q1 := pq_dequeue_padding q) in *. clearbody q1.
  destruct (q_items q1) as [|it rest] eqn:E.
  - exists q1, None. split; [reflexivity|]. split; [exact W1|]. split; [exact M1|]. split; [exact C1|].
    split; [rewrite <- P1|]; unfold pq_packets; rewrite E; reflexivity.
  - pose proof (pop_front_wf q1 it rest W1 E) as (_ & Hn & W2).
    destruct (pq_ring_dequeue_many q1 (it_size it)) as [q2 n] eqn:ER. cbn in Hn, W2. subst n.
    rewrite Z.eqb_refl. cbn.
    destruct (it_hdr it) as [h|] eqn:Eh; [|contradiction].
    exists (pq_set_items q2 rest), (Some (h, it_data it)). split; [reflexivity|].
    split; [exact W2|].
    assert (q_mcap q2 = q_mcap q1 /\ q_pcap q2 = q_pcap q1) as (? & ?).
    { unfold pq_ring_dequeue_many in ER. inversion ER. cbn. auto. }
    split; [cbn; congruence|]. split; [cbn; congruence|].
    rewrite <- P1. unfold pq_packets. rewrite E. cbn. rewrite Eh. reflexivity.
Qed.

Lemma pq_peek_spec : forall q, pq_wf q ->
  exists q' r, pq_peek q = Ok (q', r) /\ same_packets q q' /\
    match r with
    | None => pq_packets q = []
    | Some x => exists rest, pq_packets q = x :: rest
    end.
Proof.
  intros q W. unfold pq_peek.
  pose proof (dequeue_padding_spec q W) as (SP & F).
  set (q1 := pq_dequeue_padding q) in *. clearbody q1. destruct SP as (W1 & P1 & M1 & C1).
  destruct (q_items q1) as [|it rest] eqn:E.
  - exists q1, None. split; [reflexivity|]. split; [unfold same_packets; auto|].
    rewrite <- P1. unfold pq_packets. rewrite E. reflexivity.
  - destruct (it_hdr it) as [h|] eqn:Eh; [|contradiction].
    pose proof (pop_front_wf q1 it rest W1 E) as (Hfl & _ & _).
    rewrite Z.min_l by lia.
    assert (Hlen : Z.of_nat (length (it_data it)) = it_size it).
    { destruct W1. rewrite E in wf_layout0. cbn in wf_layout0. rewrite Eh in wf_layout0. tauto. }
    rewrite <- Hlen, Nat2Z.id, firstn_all.
    exists q1, (Some (h, it_data it)). split; [reflexivity|]. split; [unfold same_packets; auto|].
    exists (items_packets rest). rewrite <- P1. unfold pq_packets. rewrite E. cbn. rewrite Eh. reflexivity.
Qed.

(* dequeue_with: the callback sees exactly the head packet; it is removed iff the callback
   answers 0 *)
Lemma pq_dequeue_with_spec : forall (E : Type) q (f : dmeta -> list Z -> E -> outcome (E * Z)) e,
  pq_wf q ->
  match pq_packets q with
  | [] => exists q', pq_dequeue_with q f e = Ok (q', e, None) /\ same_packets q q'
  | (h, d) :: rest =>
      match f h d e with
      | Ok (e', r) =>
          exists q', pq_dequeue_with q f e = Ok (q', e', Some r) /\ pq_wf q' /\
            q_mcap q' = q_mcap q /\ q_pcap q' = q_pcap q /\
            pq_packets q' = if r =? 0 then rest else (h, d) :: rest
      | Err x => pq_dequeue_with q f e = Err x
      | Panic => pq_dequeue_with q f e = Panic
      end
  end.
Proof.
  intros E q f e W. unfold pq_dequeue_with.
  pose proof (dequeue_padding_spec q W) as (SP & F).
  set (q1 := pq_dequeue_padding q) in *. clearbody q1. destruct SP as (W1 & P1 & M1 & C1).
  rewrite <- P1. unfold pq_packets at 1.
  destruct (q_items q1) as [|it rest] eqn:Ei.
  - cbn. exists q1. split; [reflexivity|unfold same_packets; auto].
  - destruct (it_hdr it) as [h|] eqn:Eh; [|contradiction].
    cbn [items_packets]. rewrite Eh.
    pose proof (pop_front_wf q1 it rest W1 Ei) as (Hfl & Hn & W2).
    destruct (pq_ring_front_len q1 <? it_size it) eqn:E1; bools; [lia|].
    destruct (f h (it_data it) e) as [[e' r]| |]; cbn; try reflexivity.
    destruct (r =? 0) eqn:Er.
    + apply Z.eqb_eq in Er. subst r.
      eexists. split; [reflexivity|]. split; [exact W2|].
      unfold pq_ring_dequeue_many, pq_set_items, pq_set_ring. cbn.
      split; [congruence|]. split; [congruence|]. reflexivity.
    + eexists. split; [reflexivity|]. split; [exact W1|].
      split; [congruence|]. split; [congruence|].
      unfold pq_packets. rewrite Ei. cbn. rewrite Eh. reflexivity.
Qed.

(* ------------------------------------------------------------------ *)
(* Part B: one socket                                                  *)
(* ------------------------------------------------------------------ *)
Definition dgram : Type := (dmeta * list Z)%type.

Definition sock_wf (s : sock) : Prop := pq_wf (sock_rx s) /\ pq_wf (sock_tx s).
Definition tx_pending (s : sock) : list dgram := pq_packets (sock_tx s).
Definition rx_pending (s : sock) : list dgram := pq_packets (sock_rx s).

(* a socket whose two queues were just created (any capacities, any binding) *)
Definition sock_is_new (s : sock) : Prop :=
  exists rm rp tm tp, 0 <= rm /\ 0 <= rp /\ 0 <= tm /\ 0 <= tp /\
    sock_rx s = pq_new rm rp /\ sock_tx s = pq_new tm tp.

Lemma sock_is_new_wf : forall s, sock_is_new s -> sock_wf s /\ tx_pending s = [] /\ rx_pending s = [].
Proof.
  intros s (rm & rp & tm & tp & ? & ? & ? & ? & Er & Et).
  unfold sock_wf, tx_pending, rx_pending. rewrite Er, Et.
  repeat split; try apply pq_new_wf; auto.
Qed.

(* the queue header a socket of this kind stores for a send to [m] *)
Definition tx_hdr (s : sock) (m : dmeta) : dmeta :=
  match s with SUdp _ => m | SIcmp _ => icmp_hdr (dm_addr m) | SRaw _ => dm_default end.

(* the record a valid arrival becomes in the receive queue: source endpoint and local
   (destination) address for udp, source address for icmp *)
Definition arr_item (a : arrival) : dgram :=
  match a with
  | ArrUdp src sp dst pl => (mkDM src sp (Some dst), pl)
  | ArrIcmp m => (icmp_hdr (im_src m), im_bytes m)
  | ArrRaw r pl => (dm_default, ip_hdr_sym r ++ pl)
  end.

Definition op_args_ok (op : sop) : Prop :=
  match op with
  | OpSend size _ data => 0 <= size /\ Z.of_nat (length data) = size
  | OpSendWith mx _ data => 0 <= mx /\ Z.of_nat (length data) <= mx
  | OpSetHop (Some h) => h <> 0
  | _ => True
  end.

Definition recv_rel (pending pending' : list dgram) (rr : rres) (cap : option Z) (consume : bool) : Prop :=
  match pending with
  | [] => rr = RR_Err E_Exhausted /\ pending' = []
  | (m, d) :: rest =>
      pending' = (if consume then rest else pending) /\
      match cap with
      | None => rr = RR_Ok (zlen d) m d
      | Some c => if c <? zlen d
                  then rr = RR_Trunc (zlen d) (if consume then Some (m, d) else None)
                  else rr = RR_Ok (zlen d) m d
      end
  end.

Definition step_rel (ev : env) (s : sock) (op : sop) (r : sres) (s' : sock) : Prop :=
  match op, r with
  | OpSend _ m d, SR_Code c | OpSendWith _ m d, SR_Code c =>
      rx_pending s' = rx_pending s /\
      tx_pending s' = (if c =? 0 then tx_pending s ++ [(tx_hdr s m, d)] else tx_pending s)
  | OpClose, SR_Unit => tx_pending s' = [] /\ rx_pending s' = []
  | OpBind _, SR_Code _ | OpSetHop _, SR_Unit =>
      tx_pending s' = tx_pending s /\ rx_pending s' = rx_pending s
  | OpRecv, SR_Recv rr => tx_pending s' = tx_pending s /\ recv_rel (rx_pending s) (rx_pending s') rr None true
  | OpRecvSlice cap, SR_Recv rr => tx_pending s' = tx_pending s /\ recv_rel (rx_pending s) (rx_pending s') rr (Some cap) true
  | OpPeek, SR_Recv rr => tx_pending s' = tx_pending s /\ recv_rel (rx_pending s) (rx_pending s') rr None false
  | OpPeekSlice cap, SR_Recv rr => tx_pending s' = tx_pending s /\ recv_rel (rx_pending s) (rx_pending s') rr (Some cap) false
  | OpProcess a, SR_Process ok =>
      tx_pending s' = tx_pending s /\
      rx_pending s' = (if ok then rx_pending s ++ [arr_item a] else rx_pending s)
  | OpDispatch code, SR_Dispatch taken em c =>
      rx_pending s' = rx_pending s /\
      match tx_pending s with
      | [] => taken = None /\ em = None /\ c = 0 /\ tx_pending s' = []
      | (h, d) :: rest =>
          taken = Some (h, d) /\
          match sock_prepare ev s h d with
          | None => em = None /\ c = 0 /\ tx_pending s' = rest
          | Some p => em = Some p /\ c = code /\
                      tx_pending s' = (if code =? 0 then rest else (h, d) :: rest)
          end
      end
  | _, SR_NA => tx_pending s' = tx_pending s /\ rx_pending s' = rx_pending s
  | _, _ => False
  end.

Lemma slice_result_spec : forall cap m d consume,
  slice_result cap m d consume =
  if cap <? zlen d then RR_Trunc (zlen d) (if consume then Some (m, d) else None) else RR_Ok (zlen d) m d.
Proof.
  intros. unfold slice_result. destruct (cap <? zlen d) eqn:E; [reflexivity|]. bools.
  rewrite Z.min_r by lia. unfold zlen. rewrite Nat2Z.id, firstn_all. reflexivity.
Qed.

(* kind-independent views of a socket: replace one queue *)
Definition sock_set_tx (s : sock) (q : pq) : sock :=
  match s with SUdp u => SUdp (udp_set_tx u q) | SIcmp i => SIcmp (icmp_set_tx i q) | SRaw r => SRaw (raw_set_tx r q) end.
Definition sock_set_rx (s : sock) (q : pq) : sock :=
  match s with SUdp u => SUdp (udp_set_rx u q) | SIcmp i => SIcmp (icmp_set_rx i q) | SRaw r => SRaw (raw_set_rx r q) end.

Lemma set_tx_props : forall s q, sock_tx (sock_set_tx s q) = q /\ sock_rx (sock_set_tx s q) = sock_rx s.
Proof. destruct s; intros; cbn; auto. Qed.
Lemma set_rx_props : forall s q, sock_rx (sock_set_rx s q) = q /\ sock_tx (sock_set_rx s q) = sock_tx s.
Proof. destruct s; intros; cbn; auto. Qed.

(* generic enqueue step on the tx queue *)
Lemma tx_enqueue_step : forall s size h data,
  sock_wf s -> 0 <= size -> Z.of_nat (length data) = size ->
  exists q' b, pq_enqueue (sock_tx s) size h data = Ok (q', b) /\
    sock_wf (sock_set_tx s q') /\ rx_pending (sock_set_tx s q') = rx_pending s /\
    tx_pending (sock_set_tx s q') = (if b then tx_pending s ++ [(h, data)] else tx_pending s).
Proof.
  intros s size h data (Wr & Wt) Hs Hd.
  destruct (pq_enqueue_spec (sock_tx s) size h data Wt Hs Hd) as (q' & b & E & R).
  exists q', b. split; [exact E|].
  pose proof (set_tx_props s q') as (Et & Er).
  unfold sock_wf, rx_pending, tx_pending. rewrite Et, Er.
  destruct b; [destruct R as (W' & P & _)|destruct R as (W' & P & _)]; auto.
Qed.

Lemma tx_enqueue_with_step : forall s mx h data,
  sock_wf s -> 0 <= mx -> Z.of_nat (length data) <= mx ->
  exists q' b, pq_enqueue_with (sock_tx s) mx h data = Ok (q', b) /\
    sock_wf (sock_set_tx s q') /\ rx_pending (sock_set_tx s q') = rx_pending s /\
    tx_pending (sock_set_tx s q') = (if b then tx_pending s ++ [(h, data)] else tx_pending s).
Proof.
  intros s mx h data (Wr & Wt) Hs Hd.
  destruct (pq_enqueue_with_spec (sock_tx s) mx h data Wt Hs Hd) as (q' & b & E & R).
  exists q', b. split; [exact E|].
  pose proof (set_tx_props s q') as (Et & Er).
  unfold sock_wf, rx_pending, tx_pending. rewrite Et, Er.
  destruct b; [destruct R as (W' & P & _)|destruct R as (W' & P & _)]; auto.
Qed.

Lemma rx_enqueue_step : forall s h data,
  sock_wf s ->
  exists q' b, pq_enqueue (sock_rx s) (zlen data) h data = Ok (q', b) /\
    sock_wf (sock_set_rx s q') /\ tx_pending (sock_set_rx s q') = tx_pending s /\
    rx_pending (sock_set_rx s q') = (if b then rx_pending s ++ [(h, data)] else rx_pending s).
Proof.
  intros s h data (Wr & Wt).
  destruct (pq_enqueue_spec (sock_rx s) (zlen data) h data Wr ltac:(unfold zlen; lia) eq_refl) as (q' & b & E & R).
  exists q', b. split; [exact E|].
  pose proof (set_rx_props s q') as (Er & Et).
  unfold sock_wf, rx_pending, tx_pending. rewrite Et, Er.
  destruct b; [destruct R as (W' & P & _)|destruct R as (W' & P & _)]; auto.
Qed.

Lemma rx_dequeue_step : forall s, sock_wf s ->
  exists q' r, pq_dequeue (sock_rx s) = Ok (q', r) /\
    sock_wf (sock_set_rx s q') /\ tx_pending (sock_set_rx s q') = tx_pending s /\
    match r with
    | None => rx_pending s = [] /\ rx_pending (sock_set_rx s q') = []
    | Some x => rx_pending s = x :: rx_pending (sock_set_rx s q')
    end.
Proof.
  intros s (Wr & Wt).
  destruct (pq_dequeue_spec (sock_rx s) Wr) as (q' & r & E & W' & _ & _ & R).
  exists q', r. split; [exact E|].
  pose proof (set_rx_props s q') as (Er & Et).
  unfold sock_wf, rx_pending, tx_pending. rewrite Et, Er. auto.
Qed.

Lemma rx_peek_step : forall s, sock_wf s ->
  exists q' r, pq_peek (sock_rx s) = Ok (q', r) /\
    sock_wf (sock_set_rx s q') /\ tx_pending (sock_set_rx s q') = tx_pending s /\
    rx_pending (sock_set_rx s q') = rx_pending s /\
    match r with
    | None => rx_pending s = []
    | Some x => exists rest, rx_pending s = x :: rest
    end.
Proof.
  intros s (Wr & Wt).
  destruct (pq_peek_spec (sock_rx s) Wr) as (q' & r & E & (W' & P & _) & R).
  exists q', r. split; [exact E|].
  pose proof (set_rx_props s q') as (Er & Et).
  unfold sock_wf, rx_pending, tx_pending. rewrite Et, Er. auto.
Qed.

Lemma dispatch_step : forall ev s code, sock_wf s ->
  exists s' em c, sock_dispatch ev s (log_emit code) None = Ok (s', em, c) /\
    sock_wf s' /\ step_rel ev s (OpDispatch code) (SR_Dispatch (sock_tx_head s) em c) s'.
Proof.
  intros ev s code (Wr & Wt).
  assert (G : forall (f : dmeta -> list Z -> option ippacket),
     (forall h d, f h d = sock_prepare ev s h d) ->
     exists q' em r,
       pq_dequeue_with (sock_tx s)
         (fun m b e => match f m b with None => Ok (e, EMIT_OK) | Some p => log_emit code p e end) None
       = Ok (q', em, r) /\
       sock_wf (sock_set_tx s q') /\
       step_rel ev s (OpDispatch code)
         (SR_Dispatch (sock_tx_head s) em (match r with None => EMIT_OK | Some c => c end)) (sock_set_tx s q')).
  { intros f Hf.
    pose proof (pq_dequeue_with_spec _ (sock_tx s)
      (fun m b e => match f m b with None => Ok (e, EMIT_OK) | Some p => log_emit code p e end) None Wt) as D.
    pose proof (set_tx_props s) as SP.
    unfold step_rel, sock_tx_head, tx_pending, rx_pending, sock_wf.
    destruct (pq_packets (sock_tx s)) as [|[h d] rest] eqn:EP.
    - destruct D as (q' & E & (W' & P & _)). exists q', None, None. split; [exact E|].
      destruct (SP q') as (-> & ->). rewrite P. splits; auto.
    - rewrite Hf in D. destruct (sock_prepare ev s h d) as [p|] eqn:EPrep.
      + unfold log_emit in D. destruct D as (q' & E & W' & _ & _ & P).
        exists q', (Some p), (Some code). split; [exact E|].
        destruct (SP q') as (-> & ->). rewrite P. splits; auto.
      + destruct D as (q' & E & W' & _ & _ & P).
        exists q', None, (Some EMIT_OK). split; [exact E|].
        destruct (SP q') as (-> & ->). rewrite P. cbn. splits; auto. }
  destruct s as [u|i|r]; unfold sock_dispatch, udp_dispatch, icmp_dispatch, raw_dispatch.
  - destruct (G (udp_dispatch_packet ev u) ltac:(reflexivity)) as (q' & em & r & E & W' & R).
    cbn [sock_tx] in E. rewrite E. cbn. eexists _, _, _. split; [reflexivity|]. split; [exact W'|exact R].
  - destruct (G (icmp_dispatch_packet ev i) ltac:(reflexivity)) as (q' & em & r & E & W' & R).
    cbn [sock_tx] in E. rewrite E. cbn. eexists _, _, _. split; [reflexivity|]. split; [exact W'|exact R].
  - destruct (G (fun _ b => raw_dispatch_packet r b) ltac:(reflexivity)) as (q' & em & r0 & E & W' & R).
    cbn [sock_tx] in E. rewrite E. cbn. eexists _, _, _. split; [reflexivity|]. split; [exact W'|exact R].
Qed.

Ltac finish_step :=
  eexists _, _; split; [reflexivity|]; split; [assumption|];
  unfold step_rel, recv_rel; auto.

Lemma sock_step_spec : forall ev s op, sock_wf s -> op_args_ok op ->
  exists s' r, sock_step ev s op = Ok (s', r) /\ sock_wf s' /\ step_rel ev s op r s'.
Proof.
  intros ev s op W A.
  assert (Same : forall s0, tx_pending s0 = tx_pending s0 /\ rx_pending s0 = rx_pending s0) by auto.
  destruct op as [b| |h|size m data|mx m data| |cap| |cap|a|code].
  - (* bind *)
    destruct b as [a p|e]; destruct s as [u|i|r]; cbn [sock_step];
      try (eexists _, _; split; [reflexivity|]; split; [exact W|]; cbn; auto).
    + unfold udp_bind. destruct (p =? 0); [|destruct (udp_is_open u)];
        (eexists _, _; split; [reflexivity|]; split; [exact W|]; cbn; auto).
    + unfold icmp_bind. destruct (negb (icmp_ep_is_specified e)); [|destruct (icmp_is_open i)];
        (eexists _, _; split; [reflexivity|]; split; [exact W|]; cbn; auto).
  - (* close *)
    destruct s as [u|i|r]; cbn [sock_step];
      try (eexists _, _; split; [reflexivity|]; split; [exact W|]; cbn; auto).
    destruct W as (Wr & Wt). cbn in Wr, Wt.
    eexists _, _; split; [reflexivity|]. split.
    + split; cbn; apply pq_reset_wf; auto.
    + cbn. auto.
  - (* set_hop_limit *)
    destruct s as [u|i|r]; cbn [sock_step];
      try (eexists _, _; split; [reflexivity|]; split; [exact W|]; cbn; auto).
    + unfold udp_set_hop_limit. destruct h as [[|p|p]|]; cbn in A; try lia;
        (eexists _, _; split; [reflexivity|]; split; [exact W|]; cbn; auto).
    + unfold icmp_set_hop_limit. destruct h as [[|p|p]|]; cbn in A; try lia;
        (eexists _, _; split; [reflexivity|]; split; [exact W|]; cbn; auto).
  - (* send *)
    destruct A as (A1 & A2).
    destruct s as [u|i|r]; cbn [sock_step].
    + unfold udp_send. destruct (negb (udp_send_checks u m =? E_OK)) eqn:E; cbn.
      * eexists _, _; split; [reflexivity|]; split; [exact W|]. cbn. bools.
        destruct (udp_send_checks u m =? 0) eqn:E2; [bools; unfold E_OK in *; lia|auto].
      * destruct (tx_enqueue_step (SUdp u) size m data W A1 A2) as (q' & b & Eq & W' & Rx & Tx); cbn [sock_set_tx sock_set_rx] in W', Rx, Tx.
        cbn [sock_tx] in Eq. rewrite Eq. cbn.
        eexists _, _; split; [reflexivity|]; split; [exact W'|]. cbn [step_rel tx_hdr].
        split; [exact Rx|]. rewrite Tx. destruct b; reflexivity.
    + unfold icmp_send. destruct (addr_is_unspecified (dm_addr m)) eqn:E; cbn.
      * eexists _, _; split; [reflexivity|]; split; [exact W|]. cbn. auto.
      * destruct (tx_enqueue_step (SIcmp i) size (icmp_hdr (dm_addr m)) data W A1 A2) as (q' & b & Eq & W' & Rx & Tx); cbn [sock_set_tx sock_set_rx] in W', Rx, Tx.
        cbn [sock_tx] in Eq. rewrite Eq. cbn.
        eexists _, _; split; [reflexivity|]; split; [exact W'|]. cbn [step_rel tx_hdr].
        split; [exact Rx|]. rewrite Tx. destruct b; reflexivity.
    + unfold raw_send.
      destruct (tx_enqueue_step (SRaw r) size dm_default data W A1 A2) as (q' & b & Eq & W' & Rx & Tx); cbn [sock_set_tx sock_set_rx] in W', Rx, Tx.
      cbn [sock_tx] in Eq. rewrite Eq. cbn.
      eexists _, _; split; [reflexivity|]; split; [exact W'|]. cbn [step_rel tx_hdr].
      split; [exact Rx|]. rewrite Tx. destruct b; reflexivity.
  - (* send_with *)
    destruct A as (A1 & A2).
    destruct s as [u|i|r]; cbn [sock_step].
    + unfold udp_send_with. destruct (negb (udp_send_checks u m =? E_OK)) eqn:E; cbn.
      * eexists _, _; split; [reflexivity|]; split; [exact W|]. cbn. bools.
        destruct (udp_send_checks u m =? 0) eqn:E2; [bools; unfold E_OK in *; lia|auto].
      * destruct (tx_enqueue_with_step (SUdp u) mx m data W A1 A2) as (q' & b & Eq & W' & Rx & Tx); cbn [sock_set_tx sock_set_rx] in W', Rx, Tx.
        cbn [sock_tx] in Eq. rewrite Eq. cbn.
        eexists _, _; split; [reflexivity|]; split; [exact W'|]. cbn [step_rel tx_hdr].
        split; [exact Rx|]. rewrite Tx. destruct b; reflexivity.
    + unfold icmp_send_with. destruct (addr_is_unspecified (dm_addr m)) eqn:E; cbn.
      * eexists _, _; split; [reflexivity|]; split; [exact W|]. cbn. auto.
      * destruct (tx_enqueue_with_step (SIcmp i) mx (icmp_hdr (dm_addr m)) data W A1 A2) as (q' & b & Eq & W' & Rx & Tx); cbn [sock_set_tx sock_set_rx] in W', Rx, Tx.
        cbn [sock_tx] in Eq. rewrite Eq. cbn.
        eexists _, _; split; [reflexivity|]; split; [exact W'|]. cbn [step_rel tx_hdr].
        split; [exact Rx|]. rewrite Tx. destruct b; reflexivity.
    + unfold raw_send_with.
      destruct (tx_enqueue_with_step (SRaw r) mx dm_default data W A1 A2) as (q' & b & Eq & W' & Rx & Tx); cbn [sock_set_tx sock_set_rx] in W', Rx, Tx.
      cbn [sock_tx] in Eq. rewrite Eq. cbn.
      eexists _, _; split; [reflexivity|]; split; [exact W'|]. cbn [step_rel tx_hdr].
      split; [exact Rx|]. rewrite Tx. destruct b; reflexivity.
  - (* recv *)
    destruct (rx_dequeue_step s W) as (q' & r & Eq & W' & Tx & R).
    destruct s as [u|i|r0]; cbn [sock_set_rx] in W', Tx, R; cbn [sock_step]; unfold udp_recv, icmp_recv, raw_recv;
      cbn [sock_rx] in Eq; rewrite Eq; cbn;
      (destruct r as [[m d]|]; cbn;
       [ eexists _, _; split; [reflexivity|]; split; [exact W'|]; cbn [step_rel]; split; [exact Tx|];
         unfold recv_rel; rewrite R; auto
       | destruct R as (R1 & R2); eexists _, _; split; [reflexivity|]; split; [exact W'|]; cbn [step_rel];
         split; [exact Tx|]; unfold recv_rel; rewrite R1; auto ]).
  - (* recv_slice *)
    destruct (rx_dequeue_step s W) as (q' & r & Eq & W' & Tx & R).
    destruct s as [u|i|r0]; cbn [sock_set_rx] in W', Tx, R; cbn [sock_step]; unfold udp_recv_slice, icmp_recv_slice, raw_recv_slice;
      cbn [sock_rx] in Eq; rewrite Eq; cbn;
      (destruct r as [[m d]|]; cbn;
       [ eexists _, _; split; [reflexivity|]; split; [exact W'|]; cbn [step_rel]; split; [exact Tx|];
         unfold recv_rel; rewrite R; rewrite slice_result_spec; destruct (cap <? zlen d); auto
       | destruct R as (R1 & R2); eexists _, _; split; [reflexivity|]; split; [exact W'|]; cbn [step_rel];
         split; [exact Tx|]; unfold recv_rel; rewrite R1; auto ]).
  - (* peek *)
    destruct s as [u|i|r0]; cbn [sock_step];
      try (eexists _, _; split; [reflexivity|]; split; [exact W|]; cbn; auto).
    + destruct (rx_peek_step (SUdp u) W) as (q' & r & Eq & W' & Tx & Rx & R); cbn [sock_set_tx sock_set_rx] in W', Rx, Tx.
      unfold udp_peek. cbn [sock_rx] in Eq. rewrite Eq. cbn.
      destruct r as [[m d]|]; cbn;
        (eexists _, _; split; [reflexivity|]; split; [exact W'|]; cbn [step_rel]; split; [exact Tx|];
         unfold recv_rel; rewrite Rx).
      * destruct R as (rest & ->). auto.
      * rewrite R. auto.
    + destruct (rx_peek_step (SRaw r0) W) as (q' & r & Eq & W' & Tx & Rx & R); cbn [sock_set_tx sock_set_rx] in W', Rx, Tx.
      unfold raw_peek. cbn [sock_rx] in Eq. rewrite Eq. cbn.
      destruct r as [[m d]|]; cbn;
        (eexists _, _; split; [reflexivity|]; split; [exact W'|]; cbn [step_rel]; split; [exact Tx|];
         unfold recv_rel; rewrite Rx).
      * destruct R as (rest & ->). auto.
      * rewrite R. auto.
  - (* peek_slice *)
    destruct s as [u|i|r0]; cbn [sock_step];
      try (eexists _, _; split; [reflexivity|]; split; [exact W|]; cbn; auto).
    + destruct (rx_peek_step (SUdp u) W) as (q' & r & Eq & W' & Tx & Rx & R); cbn [sock_set_tx sock_set_rx] in W', Rx, Tx.
      unfold udp_peek_slice. cbn [sock_rx] in Eq. rewrite Eq. cbn.
      destruct r as [[m d]|]; cbn;
        (eexists _, _; split; [reflexivity|]; split; [exact W'|]; cbn [step_rel]; split; [exact Tx|];
         unfold recv_rel; rewrite Rx).
      * destruct R as (rest & ->). rewrite slice_result_spec. destruct (cap <? zlen d); auto.
      * rewrite R. auto.
    + destruct (rx_peek_step (SRaw r0) W) as (q' & r & Eq & W' & Tx & Rx & R); cbn [sock_set_tx sock_set_rx] in W', Rx, Tx.
      unfold raw_peek_slice. cbn [sock_rx] in Eq. rewrite Eq. cbn.
      destruct r as [[m d]|]; cbn;
        (eexists _, _; split; [reflexivity|]; split; [exact W'|]; cbn [step_rel]; split; [exact Tx|];
         unfold recv_rel; rewrite Rx).
      * destruct R as (rest & ->). rewrite slice_result_spec. destruct (cap <? zlen d); auto.
      * rewrite R. auto.
  - (* process *)
    destruct a as [src sp dst pl|im|ir pl]; destruct s as [u|i|r0]; cbn [sock_step];
      try (eexists _, _; split; [reflexivity|]; split; [exact W|]; cbn; auto).
    + destruct (rx_enqueue_step (SUdp u) (mkDM src sp (Some dst)) pl W) as (q' & b & Eq & W' & Tx & Rx); cbn [sock_set_tx sock_set_rx] in W', Rx, Tx.
      unfold udp_process. cbn [sock_rx] in Eq. rewrite Eq. cbn.
      eexists _, _; split; [reflexivity|]; split; [exact W'|]. cbn [step_rel arr_item]. split; [exact Tx|].
      rewrite Rx. destruct b; reflexivity.
    + destruct (rx_enqueue_step (SIcmp i) (icmp_hdr (im_src im)) (im_bytes im) W) as (q' & b & Eq & W' & Tx & Rx); cbn [sock_set_tx sock_set_rx] in W', Rx, Tx.
      unfold icmp_process. cbn [sock_rx] in Eq. rewrite Eq. cbn.
      eexists _, _; split; [reflexivity|]; split; [exact W'|]. cbn [step_rel arr_item]. split; [exact Tx|].
      rewrite Rx. destruct b; reflexivity.
    + destruct (rx_enqueue_step (SRaw r0) dm_default (ip_hdr_sym ir ++ pl) W) as (q' & b & Eq & W' & Tx & Rx); cbn [sock_set_tx sock_set_rx] in W', Rx, Tx.
      unfold raw_process.
      assert (HL : ip_header_len (ir_ver ir) + zlen pl = zlen (ip_hdr_sym ir ++ pl)).
      { unfold zlen, ip_hdr_sym. rewrite !app_length, repeat_length. cbn [length].
        unfold ip_header_len. destruct (ir_ver ir =? 4);
          [pose proof (eq_refl : wipv4_HEADER_LEN = 20)|pose proof (eq_refl : wipv6_HEADER_LEN = 40)]; lia. }
      rewrite HL. cbn [sock_rx] in Eq. rewrite Eq. cbn.
      eexists _, _; split; [reflexivity|]; split; [exact W'|]. cbn [step_rel arr_item]. split; [exact Tx|].
      rewrite Rx. destruct b; reflexivity.
  - (* dispatch *)
    destruct (dispatch_step ev s code W) as (s' & em & c & E & W' & R).
    cbn [sock_step]. destruct s; rewrite E; cbn; eexists _, _; (split; [reflexivity|]); split; assumption.
Qed.

(* ------------------------------------------------------------------ *)
(* Part C: histories                                                   *)
(* ------------------------------------------------------------------ *)
Lemma sock_dispatch_kind : forall (E : Type) ev s (emit : ippacket -> E -> outcome (E * Z)) e s' e' c,
  sock_dispatch ev s emit e = Ok (s', e', c) -> sock_kind s' = sock_kind s.
Proof.
  intros E ev s emit e s' e' c H. destruct s; cbn [sock_dispatch] in H;
    match type of H with obind ?x _ = _ => destruct x as [[[? ?] ?]| |]; cbn [obind] in H; [|discriminate H..] end;
    inversion H; subst; reflexivity.
Qed.

Lemma sock_step_kind : forall ev s op s' r,
  sock_step ev s op = Ok (s', r) -> sock_kind s' = sock_kind s.
Proof.
  intros ev s op s' r H.
  destruct op as [b| |h|size m data|mx m data| |cap| |cap|a|code].
  11:{ cbn [sock_step] in H.
       assert (G : forall x, (do '(s1, em, c) <- x; Ok (s1, SR_Dispatch (sock_tx_head s) em c)) = Ok (s', r) ->
                     exists em c, x = Ok (s', em, c)).
       { intros x Hx. destruct x as [[[s1 em] c]| |]; cbn in Hx; try discriminate. inversion Hx; subst. eauto. }
       destruct s; apply G in H; destruct H as (em & c & H); eapply sock_dispatch_kind; eauto. }
  all: try destruct b; try destruct a; destruct s; cbn [sock_step] in H;
    repeat match goal with
    | H : obind ?x _ = Ok _ |- _ =>
        let p := fresh "p" in destruct x as [p| |]; cbn [obind] in H; [|discriminate H..];
        repeat (let a := fresh in let b := fresh in destruct p as [a b])
    | H : (let '(_, _) := ?x in _) = Ok _ |- _ => destruct x
    end;
    try (inversion H; subst; reflexivity).
Qed.

Lemma tx_hdr_kind : forall s s', sock_kind s' = sock_kind s -> tx_hdr s' = tx_hdr s.
Proof. destruct s, s'; cbn; intros; try discriminate; reflexivity. Qed.

Definition evt : Type := (sop * sres)%type.

(* ghost transmit history since the last close: (accepted by send, taken out by dispatch) *)
Definition ghost_tx_step (hdr : dmeta -> dmeta) (g : list dgram * list dgram) (e : evt) : list dgram * list dgram :=
  match e with
  | (OpClose, SR_Unit) => ([], [])
  | (OpSend _ m d, SR_Code c) | (OpSendWith _ m d, SR_Code c) =>
      if c =? 0 then (fst g ++ [(hdr m, d)], snd g) else g
  | (OpDispatch _, SR_Dispatch (Some it) _ c) => if c =? 0 then (fst g, snd g ++ [it]) else g
  | _ => g
  end.

(* ghost receive history since the last close: (stored by process, handed out / dropped by recv) *)
Definition ghost_rx_step (g : list dgram * list dgram) (e : evt) : list dgram * list dgram :=
  match e with
  | (OpClose, SR_Unit) => ([], [])
  | (OpProcess a, SR_Process true) => (fst g ++ [arr_item a], snd g)
  | (OpRecv, SR_Recv (RR_Ok _ m d)) | (OpRecvSlice _, SR_Recv (RR_Ok _ m d)) => (fst g, snd g ++ [(m, d)])
  | (OpRecvSlice _, SR_Recv (RR_Trunc _ (Some x))) => (fst g, snd g ++ [x])
  | _ => g
  end.

Definition ghost_tx (hdr : dmeta -> dmeta) (l : list evt) := fold_left (ghost_tx_step hdr) l ([], []).
Definition ghost_rx (l : list evt) := fold_left ghost_rx_step l ([], []).

(* the packet handed to the emit callback carries the queued datagram unmodified *)
Definition pkt_faithful (kind : Z) (h : dmeta) (d : list Z) (p : ippacket) : Prop :=
  p_kind p = kind /\
  match kind with
  | 1 =>
    p_payload p = d /\ p_dst p = dm_addr h /\ p_dport p = dm_port h /\ p_proto p = PROTO_UDP /\
    p_iplen p = wudp_HEADER_LEN + zlen d /\ (forall a, dm_local h = Some a -> p_src p = a)
  | 2 =>
    p_payload p = d /\ p_dst p = dm_addr h /\ p_iplen p = zlen d
  | _ =>
    exists ver, nth 0 d 0 = ver /\
    p_payload p = firstn (Z.to_nat (nth 5 d 0)) (skipn (Z.to_nat (ip_header_len ver)) d) /\
    p_src p = mkA ver (nth 3 d 0) /\ p_dst p = mkA ver (nth 4 d 0) /\
    p_proto p = nth 1 d 0 /\ p_hop p = nth 2 d 0 /\ p_iplen p = nth 5 d 0 /\
    ip_header_len ver + p_iplen p <= zlen d
  end.

Lemma prepare_faithful : forall ev s h d p,
  sock_prepare ev s h d = Some p -> pkt_faithful (sock_kind s) h d p.
Proof.
  intros ev s h d p H. destruct s as [u|i|r]; cbn in H |- *; unfold pkt_faithful; cbn.
  - unfold udp_dispatch_packet in H.
    destruct (dm_local h) as [a|] eqn:El.
    + destruct (negb (a_ver a =? a_ver (dm_addr h))); [discriminate|]. inversion H; subst; cbn.
      splits; auto; try (intros; congruence).
    + destruct (match u_addr u with Some a => Some a | None => env_get_source_address ev (dm_addr h) end) as [a|];
        [|discriminate].
      destruct (negb (a_ver a =? a_ver (dm_addr h))); [discriminate|]. inversion H; subst; cbn.
      splits; auto; try (intros; discriminate).
  - unfold icmp_dispatch_packet in H.
    destruct (a_ver (dm_addr h) =? 4).
    + destruct (e_src_v4 ev (dm_addr h)); [|discriminate].
      destruct (icmp_tx_parses 4 d); [|discriminate]. inversion H; subst; cbn. auto.
    + destruct (icmp_tx_parses 6 d); [|discriminate]. inversion H; subst; cbn. auto.
  - unfold raw_dispatch_packet in H. destruct d as [|ver rest]; [discriminate|].
    destruct ((ver =? 4) || (ver =? 6)); [|discriminate].
    destruct (zlen (ver :: rest) <? ip_header_len ver) eqn:E1; [discriminate|].
    destruct (zlen (ver :: rest) <? ip_header_len ver + nth 5 (ver :: rest) 0) eqn:E2; [discriminate|].
    destruct (opt_z_differs (r_proto r) (nth 1 (ver :: rest) 0)); [discriminate|].
    destruct (nth 4 (ver :: rest) 0 =? 0); [discriminate|].
    inversion H; subst; cbn [p_kind p_payload p_src p_dst p_proto p_hop p_iplen]. bools.
    split; [reflexivity|]. exists ver. splits; auto.
Qed.

(* what one event of a run guarantees by itself *)
Definition evt_local (kind : Z) (e : evt) : Prop :=
  match e with
  | (OpDispatch code, SR_Dispatch taken em c) =>
      match em with
      | Some p => exists h d, taken = Some (h, d) /\ pkt_faithful kind h d p /\ c = code
      | None => c = 0
      end
  | (OpRecv, SR_Recv rr) | (OpPeek, SR_Recv rr) =>
      match rr with RR_Ok n m d => n = zlen d | RR_Trunc _ _ => False | RR_Err e => e = E_Exhausted end
  | (OpRecvSlice cap, SR_Recv rr) =>
      match rr with
      | RR_Ok n m d => n = zlen d /\ zlen d <= cap
      | RR_Trunc sz x => cap < sz /\ exists m d, x = Some (m, d) /\ sz = zlen d
      | RR_Err e => e = E_Exhausted
      end
  | (OpPeekSlice cap, SR_Recv rr) =>
      match rr with
      | RR_Ok n m d => n = zlen d /\ zlen d <= cap
      | RR_Trunc sz x => cap < sz /\ x = None
      | RR_Err e => e = E_Exhausted
      end
  | _ => True
  end.

Lemma step_rel_local : forall ev s op r s',
  step_rel ev s op r s' -> evt_local (sock_kind s) (op, r).
Proof.
  intros ev s op r s' R. destruct op, r; cbn in R |- *; try exact I; try contradiction.
  - destruct R as (_ & R). unfold recv_rel in R. destruct (rx_pending s) as [|[m d] rest].
    + destruct R as (-> & _). reflexivity.
    + destruct R as (_ & ->). reflexivity.
  - destruct R as (_ & R). unfold recv_rel in R. destruct (rx_pending s) as [|[m d] rest].
    + destruct R as (-> & _). reflexivity.
    + destruct R as (_ & R). destruct (cap <? zlen d) eqn:E; subst r; bools.
      * split; [lia|]. eauto.
      * split; [reflexivity|lia].
  - destruct R as (_ & R). unfold recv_rel in R. destruct (rx_pending s) as [|[m d] rest].
    + destruct R as (-> & _). reflexivity.
    + destruct R as (_ & ->). reflexivity.
  - destruct R as (_ & R). unfold recv_rel in R. destruct (rx_pending s) as [|[m d] rest].
    + destruct R as (-> & _). reflexivity.
    + destruct R as (_ & R). destruct (cap <? zlen d) eqn:E; subst r; bools.
      * split; [lia|reflexivity].
      * split; [reflexivity|lia].
  - destruct R as (_ & R). destruct (tx_pending s) as [|[h d] rest].
    + destruct R as (-> & -> & -> & _). reflexivity.
    + destruct R as (-> & R). destruct (sock_prepare ev s h d) as [p|] eqn:EP.
      * destruct R as (-> & -> & _). exists h, d. splits; auto. eapply prepare_faithful; eauto.
      * destruct R as (-> & -> & _). reflexivity.
Qed.

Lemma ghost_tx_step_inv : forall ev s op r s' A C,
  step_rel ev s op r s' -> A = C ++ tx_pending s ->
  let '(A', C') := ghost_tx_step (tx_hdr s) (A, C) (op, r) in A' = C' ++ tx_pending s'.
Proof.
  intros ev s op r s' A C R I.
  destruct op, r; cbn in R |- *; try contradiction;
    try (destruct R as (R1 & R2); try rewrite R1; try rewrite R2; assumption).
  - destruct R as (R1 & _). rewrite R1. reflexivity.
  - destruct R as (_ & R). rewrite R. destruct (e =? 0); cbn; [rewrite I, app_assoc; reflexivity|assumption].
  - destruct R as (_ & R). rewrite R. destruct (e =? 0); cbn; [rewrite I, app_assoc; reflexivity|assumption].
  - destruct R as (_ & R). destruct (tx_pending s) as [|[h d] rest].
    + destruct R as (-> & _ & _ & ->). assumption.
    + destruct R as (-> & R). destruct (sock_prepare ev s h d).
      * destruct R as (_ & -> & ->). destruct (emit_result =? 0); cbn; [rewrite I, <- app_assoc; reflexivity|assumption].
      * destruct R as (_ & -> & ->). change (0 =? 0) with true. cbn. rewrite I, <- app_assoc. reflexivity.
Qed.

Lemma ghost_rx_step_inv : forall ev s op r s' A C,
  step_rel ev s op r s' -> A = C ++ rx_pending s ->
  let '(A', C') := ghost_rx_step (A, C) (op, r) in A' = C' ++ rx_pending s'.
Proof.
  intros ev s op r s' A C R I.
  destruct op, r; cbn in R |- *; try contradiction;
    try (destruct R as (R1 & R2); try rewrite R1; try rewrite R2; assumption).
  - destruct R as (_ & R2). rewrite R2. reflexivity.
  - destruct R as (_ & R). unfold recv_rel in R. destruct (rx_pending s) as [|[m d] rest].
    + destruct R as (-> & ->). assumption.
    + destruct R as (-> & ->). cbn. rewrite I, <- app_assoc. reflexivity.
  - destruct R as (_ & R). unfold recv_rel in R. destruct (rx_pending s) as [|[m d] rest].
    + destruct R as (-> & ->). assumption.
    + destruct R as (-> & R). destruct (cap <? zlen d); subst r; cbn; rewrite I, <- app_assoc; reflexivity.
  - destruct R as (_ & R). unfold recv_rel in R. destruct (rx_pending s) as [|[m d] rest].
    + destruct R as (-> & ->). assumption.
    + destruct R as (-> & ->). assumption.
  - destruct R as (_ & R). unfold recv_rel in R. destruct (rx_pending s) as [|[m d] rest].
    + destruct R as (-> & ->). assumption.
    + destruct R as (-> & R). destruct (cap <? zlen d); subst r; cbn; assumption.
  - destruct R as (_ & R). rewrite R. destruct stored; cbn; [rewrite I, app_assoc; reflexivity|assumption].
Qed.

Lemma fold_left_cons' : forall (A B : Type) (f : A -> B -> A) x l a,
  fold_left f (x :: l) a = fold_left f l (f a x).
Proof. reflexivity. Qed.

Lemma sock_run_spec : forall ev ops s, sock_wf s -> Forall op_args_ok ops ->
  exists s' rs, sock_run ev s ops = Ok (s', rs) /\ sock_wf s' /\ length rs = length ops /\
    sock_kind s' = sock_kind s /\
    Forall (evt_local (sock_kind s)) (combine ops rs) /\
    (forall A C, A = C ++ tx_pending s ->
       let '(A', C') := fold_left (ghost_tx_step (tx_hdr s)) (combine ops rs) (A, C) in
       A' = C' ++ tx_pending s') /\
    (forall A C, A = C ++ rx_pending s ->
       let '(A', C') := fold_left ghost_rx_step (combine ops rs) (A, C) in
       A' = C' ++ rx_pending s').
Proof.
  intros ev ops; induction ops as [|op ops IH]; intros s W F.
  - exists s, []. cbn. splits; auto.
  - inversion F as [|? ? Aop Fops]; subst.
    destruct (sock_step_spec ev s op W Aop) as (s1 & r & E1 & W1 & R1).
    pose proof (sock_step_kind _ _ _ _ _ E1) as K1.
    destruct (IH s1 W1 Fops) as (s2 & rs & E2 & W2 & L2 & K2 & Loc & GT & GR).
    assert (Erun : sock_run ev s (op :: ops) = Ok (s2, r :: rs)).
    { cbn [sock_run]. rewrite E1. cbn [obind]. rewrite E2. reflexivity. }
    exists s2, (r :: rs).
    split; [exact Erun|]. split; [exact W2|]. split; [cbn [length]; congruence|]. split; [congruence|].
    split; [|split].
    + constructor.
      * eapply step_rel_local; eauto.
      * rewrite <- K1. exact Loc.
    + intros A C I. change (combine (op :: ops) (r :: rs)) with ((op, r) :: combine ops rs). rewrite fold_left_cons'.
      pose proof (ghost_tx_step_inv ev s op r s1 A C R1 I) as G1.
      destruct (ghost_tx_step (tx_hdr s) (A, C) (op, r)) as [A1 C1].
      specialize (GT A1 C1 G1). rewrite (tx_hdr_kind s s1 K1) in GT. exact GT.
    + intros A C I. change (combine (op :: ops) (r :: rs)) with ((op, r) :: combine ops rs). rewrite fold_left_cons'.
      pose proof (ghost_rx_step_inv ev s op r s1 A C R1 I) as G1.
      destruct (ghost_rx_step (A, C) (op, r)) as [A1 C1].
      exact (GR A1 C1 G1).
Qed.

(* ---- the property theorems ---- *)

(* never panics *)
Theorem c09_no_panic : forall ev s ops,
  sock_is_new s -> Forall op_args_ok ops -> is_panic (sock_run ev s ops) = false.
Proof.
  intros ev s ops N F. destruct (sock_is_new_wf s N) as (W & _).
  destruct (sock_run_spec ev ops s W F) as (s' & rs & E & _). rewrite E. reflexivity.
Qed.

Theorem c09_tx_at_most_once_in_order_unmodified : forall ev s ops s' rs,
  sock_is_new s -> Forall op_args_ok ops -> sock_run ev s ops = Ok (s', rs) ->
  let '(accepted, taken) := ghost_tx (tx_hdr s) (combine ops rs) in
  accepted = taken ++ tx_pending s' /\
  Forall (evt_local (sock_kind s)) (combine ops rs).
Proof.
  intros ev s ops s' rs N F E. destruct (sock_is_new_wf s N) as (W & T0 & R0).
  destruct (sock_run_spec ev ops s W F) as (s2 & rs2 & E2 & _ & _ & _ & Loc & GT & _).
  rewrite E in E2. inversion E2; subst s2 rs2.
  specialize (GT [] [] ltac:(rewrite T0; reflexivity)). unfold ghost_tx.
  destruct (fold_left (ghost_tx_step (tx_hdr s)) (combine ops rs) ([], [])) as [A C]. auto.
Qed.

Theorem c09_rx_exactly_once_whole_or_not_at_all : forall ev s ops s' rs,
  sock_is_new s -> Forall op_args_ok ops -> sock_run ev s ops = Ok (s', rs) ->
  let '(stored, consumed) := ghost_rx (combine ops rs) in
  stored = consumed ++ rx_pending s' /\
  Forall (evt_local (sock_kind s)) (combine ops rs).
Proof.
  intros ev s ops s' rs N F E. destruct (sock_is_new_wf s N) as (W & T0 & R0).
  destruct (sock_run_spec ev ops s W F) as (s2 & rs2 & E2 & _ & _ & _ & Loc & _ & GR).
  rewrite E in E2. inversion E2; subst s2 rs2.
  specialize (GR [] [] ltac:(rewrite R0; reflexivity)). unfold ghost_rx.
  destruct (fold_left ghost_rx_step (combine ops rs) ([], [])) as [A C]. auto.
Qed.

Theorem c09_reachable_wf : forall ev s ops s' rs,
  sock_is_new s -> Forall op_args_ok ops -> sock_run ev s ops = Ok (s', rs) -> sock_wf s'.
Proof.
  intros ev s ops s' rs N F E. destruct (sock_is_new_wf s N) as (W & _).
  destruct (sock_run_spec ev ops s W F) as (s2 & rs2 & E2 & W2 & _).
  rewrite E in E2. inversion E2; subst. exact W2.
Qed.

Lemma sock_dispatch_prepare : forall (E : Type) ev s (emit : ippacket -> E -> outcome (E * Z)) e s' e' c,
  sock_dispatch ev s emit e = Ok (s', e', c) ->
  forall h d, sock_prepare ev s' h d = sock_prepare ev s h d.
Proof.
  intros E ev s emit e s' e' c H h d. destruct s; cbn [sock_dispatch] in H;
    match type of H with obind ?x _ = _ => destruct x as [[[? ?] ?]| |] eqn:EX; cbn [obind] in H; [|discriminate H..] end;
    inversion H; subst; clear H.
  - unfold udp_dispatch in EX.
    match type of EX with obind ?x _ = _ => destruct x as [[[? ?] ?]| |]; cbn [obind] in EX; [|discriminate EX..] end.
    inversion EX; subst. reflexivity.
  - unfold icmp_dispatch in EX.
    match type of EX with obind ?x _ = _ => destruct x as [[[? ?] ?]| |]; cbn [obind] in EX; [|discriminate EX..] end.
    inversion EX; subst. reflexivity.
  - unfold raw_dispatch in EX.
    match type of EX with obind ?x _ = _ => destruct x as [[[? ?] ?]| |]; cbn [obind] in EX; [|discriminate EX..] end.
    inversion EX; subst. reflexivity.
Qed.

Lemma dispatch_ok_step : forall ev s, sock_wf s ->
  exists s' r, sock_step ev s (OpDispatch EMIT_OK) = Ok (s', r) /\ sock_wf s' /\
    rx_pending s' = rx_pending s /\
    (forall h d, sock_prepare ev s' h d = sock_prepare ev s h d) /\
    match tx_pending s with
    | [] => tx_pending s' = []
    | x :: rest => tx_pending s' = rest /\ r = SR_Dispatch (Some x) (sock_prepare ev s (fst x) (snd x)) 0
    end.
Proof.
  intros ev s W.
  destruct (sock_step_spec ev s (OpDispatch EMIT_OK) W I) as (s' & r & E & W' & R).
  exists s', r. split; [exact E|]. split; [exact W'|].
  assert (P : forall h d, sock_prepare ev s' h d = sock_prepare ev s h d).
  { cbn [sock_step] in E.
    match type of E with obind ?x _ = _ => destruct x as [[[? ?] ?]| |] eqn:EX; cbn [obind] in E; [|discriminate E..] end.
    inversion E; subst. eapply sock_dispatch_prepare; eauto. }
  destruct r; cbn in R; try contradiction.
  - destruct R as (Rx & R). split; [exact Rx|]. split; [exact P|].
    destruct (tx_pending s) as [|[h d] rest].
    + tauto.
    + destruct R as (-> & R). cbn [fst snd]. destruct (sock_prepare ev s h d).
      * destruct R as (-> & -> & ->). auto.
      * destruct R as (-> & -> & ->). auto.
  - (* SR_NA is impossible for a dispatch *)
    cbn [sock_step] in E.
    match type of E with obind ?x _ = _ => destruct x as [[[? ?] ?]| |]; cbn [obind] in E; [|discriminate E..] end.
    discriminate E.
Qed.

Theorem c09_tx_exactly_once_when_emit_ok : forall ev s, sock_wf s ->
  exists s' rs,
    sock_run ev s (repeat (OpDispatch EMIT_OK) (length (tx_pending s))) = Ok (s', rs) /\
    tx_pending s' = [] /\ rx_pending s' = rx_pending s /\
    rs = map (fun x => SR_Dispatch (Some x) (sock_prepare ev s (fst x) (snd x)) 0) (tx_pending s).
Proof.
  intros ev s. remember (length (tx_pending s)) as n eqn:En. revert s En.
  induction n as [|n IH]; intros s En W.
  - exists s, []. cbn. destruct (tx_pending s); [auto|discriminate].
  - destruct (dispatch_ok_step ev s W) as (s1 & r & E1 & W1 & Rx1 & P1 & T1).
    destruct (tx_pending s) as [|x rest] eqn:ET; [discriminate|]. destruct T1 as (T1 & ->).
    cbn [length] in En. inversion En as [En'].
    destruct (IH s1 ltac:(rewrite T1; exact En') W1) as (s2 & rs & E2 & T2 & Rx2 & Ers).
    exists s2, (SR_Dispatch (Some x) (sock_prepare ev s (fst x) (snd x)) 0 :: rs).
    split; [|split; [exact T2|split; [congruence|]]].
    + cbn [repeat sock_run]. rewrite E1. cbn [obind]. rewrite <- En'. rewrite E2. reflexivity.
    + cbn [map]. f_equal. rewrite Ers, T1. apply map_ext. intros [h d]. cbn. rewrite P1. reflexivity.
Qed.

(* one call, any reachable state: the complete specification of the step *)
Theorem c09_step_spec : forall ev s op, sock_wf s -> op_args_ok op ->
  exists s' r, sock_step ev s op = Ok (s', r) /\ sock_wf s' /\ step_rel ev s op r s'.
Proof. exact sock_step_spec. Qed.

Theorem c09_truncated_is_error_not_short_data : forall ev s cap m d rest,
  sock_wf s -> rx_pending s = (m, d) :: rest ->
  exists s' rr,
    sock_step ev s (OpRecvSlice cap) = Ok (s', SR_Recv rr) /\ rx_pending s' = rest /\
    (if cap <? zlen d then rr = RR_Trunc (zlen d) (Some (m, d)) else rr = RR_Ok (zlen d) m d) /\
    (forall s2 r2, sock_step ev s (OpPeekSlice cap) = Ok (s2, r2) ->
       r2 = SR_NA \/
       (rx_pending s2 = (m, d) :: rest /\
        r2 = SR_Recv (if cap <? zlen d then RR_Trunc (zlen d) None else RR_Ok (zlen d) m d))).
Proof.
  intros ev s cap m d rest W EP.
  assert (Peek : forall s2 r2, sock_step ev s (OpPeekSlice cap) = Ok (s2, r2) ->
       r2 = SR_NA \/
       (rx_pending s2 = (m, d) :: rest /\
        r2 = SR_Recv (if cap <? zlen d then RR_Trunc (zlen d) None else RR_Ok (zlen d) m d))).
  { intros s2 r2 E2.
    destruct (sock_step_spec ev s (OpPeekSlice cap) W I) as (s3 & r3 & E3 & _ & R3).
    rewrite E2 in E3. inversion E3; subst s3 r3.
    destruct r2; cbn in R3; try contradiction; [right|left; reflexivity].
    destruct R3 as (_ & R3). unfold recv_rel in R3. rewrite EP in R3. destruct R3 as (R30 & R3).
    split; [exact R30|]. destruct (cap <? zlen d); subst; reflexivity. }
  destruct (sock_step_spec ev s (OpRecvSlice cap) W I) as (s' & r & E & _ & R).
  destruct r; cbn in R; try contradiction.
  - destruct R as (_ & R). unfold recv_rel in R. rewrite EP in R. destruct R as (R0 & R).
    exists s', r. split; [exact E|]. split; [exact R0|]. split; [exact R|exact Peek].
  - (* recv_slice exists for every socket kind *)
    destruct s; cbn [sock_step] in E;
      match type of E with obind ?x _ = _ => destruct x as [[? ?]| |]; cbn [obind] in E; [|discriminate E..] end;
      discriminate E.
Qed.

(* ------------------------------------------------------------------ *)
(* Part D: interface                                                   *)
(* ------------------------------------------------------------------ *)
Inductive udp_demux (ev : env) (src : ipaddr) (sport : Z) (dst : ipaddr) (dport : Z) (payload : list Z)
  : sset -> sset -> bool -> Prop :=
| DemuxNone : forall ss,
    (forall m u, In (m, SUdp u) ss -> udp_accepts ev u dst dport = false) ->
    udp_demux ev src sport dst dport payload ss ss false
| DemuxHit : forall pre m u u' ok post,
    (forall m0 u0, In (m0, SUdp u0) pre -> udp_accepts ev u0 dst dport = false) ->
    udp_accepts ev u dst dport = true ->
    udp_process u src sport dst payload = Ok (u', ok) ->
    udp_demux ev src sport dst dport payload (pre ++ (m, SUdp u) :: post) (pre ++ (m, SUdp u') :: post) true.

Theorem c09_first_matching_udp_socket_only : forall ev src sport dst dport payload ss ss' handled,
  if_process_udp ev ss src sport dst dport payload = Ok (ss', handled) ->
  udp_demux ev src sport dst dport payload ss ss' handled.
Proof.
  intros ev src sport dst dport payload ss; induction ss as [|[m sk] ss IH]; intros ss' handled H.
  - cbn in H. inversion H; subst. apply DemuxNone. intros ? ? [].
  - assert (Skip : (forall u, sk = SUdp u -> udp_accepts ev u dst dport = false) ->
                   forall rest' h, if_process_udp ev ss src sport dst dport payload = Ok (rest', h) ->
                   ss' = (m, sk) :: rest' -> handled = h ->
                   udp_demux ev src sport dst dport payload ((m, sk) :: ss) ss' handled).
    { intros NA rest' h E -> ->. apply IH in E. inversion E; subst.
      - apply DemuxNone. intros m0 u0 [Heq|Hin]; [inversion Heq; subst; auto|eauto].
      - change ((m, sk) :: pre ++ (m0, SUdp u) :: post) with (((m, sk) :: pre) ++ (m0, SUdp u) :: post).
        change ((m, sk) :: pre ++ (m0, SUdp u') :: post) with (((m, sk) :: pre) ++ (m0, SUdp u') :: post).
        eapply DemuxHit; eauto.
        intros m1 u1 [Heq|Hin]; [inversion Heq; subst; auto|eauto]. }
    destruct sk as [u|i|r]; cbn [if_process_udp] in H.
    + destruct (udp_accepts ev u dst dport) eqn:EA.
      * destruct (udp_process u src sport dst payload) as [[u' ok]| |] eqn:EP; cbn [obind] in H; try discriminate.
        inversion H; subst. apply (DemuxHit ev src sport dst dport payload [] m u u' ok ss); auto.
        intros ? ? [].
      * destruct (if_process_udp ev ss src sport dst dport payload) as [[rest' h]| |] eqn:ER; cbn [obind] in H; try discriminate.
        inversion H; subst. eapply Skip; eauto. intros u0 Hu; inversion Hu; subst; auto.
    + destruct (if_process_udp ev ss src sport dst dport payload) as [[rest' h]| |] eqn:ER; cbn [obind] in H; try discriminate.
      inversion H; subst. eapply Skip; eauto. intros; discriminate.
    + destruct (if_process_udp ev ss src sport dst dport payload) as [[rest' h]| |] eqn:ER; cbn [obind] in H; try discriminate.
      inversion H; subst. eapply Skip; eauto. intros; discriminate.
Qed.

(* what one call of the interface's emit closure does to the wire: when it answers Ok the datagram
   is transmitted exactly once if it fits the link, its first fragment is transmitted and the
   datagram parked in the fragmenter if it is an IPv4 datagram above the MTU that fits the
   fragmentation buffer (the fragmenter is then free: a busy fragmenter makes the closure answer
   EMIT_BUSY, never "Ok and dropped"), and it is dropped only when it can never be sent; when it
   answers Err nothing of the datagram is transmitted (at most a neighbor-discovery frame) and
   the fragmenter is untouched *)
Theorem c09_interface_emit : forall ev p st na res st' na' res' c,
  if_respond ev p (st, na, res) = Ok ((st', na', res'), c) ->
  (c = EMIT_OK ->
     (pkt_total_len p <= if_mtu st /\ if_out st' = if_out st ++ [FO_Pkt p] /\ if_frag st' = if_frag st) \/
     (pkt_total_len p > if_mtu st /\ a_ver (p_dst p) = 4 /\ pkt_total_len p <= cfg_FRAGMENTATION_BUFFER_SIZE /\
      if_out st' = if_out st ++ [FO_Frag 0 (if_max_frag st) true] /\
      if_frag st' = Some (FO_Pkt p, pkt_total_len p, if_max_frag st + wipv4_HEADER_LEN)) \/
     (pkt_total_len p > if_mtu st /\
      (a_ver (p_dst p) <> 4 \/ cfg_FRAGMENTATION_BUFFER_SIZE < pkt_total_len p) /\
      if_out st' = if_out st /\ if_frag st' = if_frag st)) /\
  (c <> EMIT_OK ->
     if_frag st' = if_frag st /\
     (if_out st' = if_out st \/ exists k a, if_out st' = if_out st ++ [FO_Aux k a])).
Proof.
  intros ev p st na res st' na' res' c H. unfold if_respond in H.
  destruct (if_frag_finished st) eqn:EG; cbn [negb] in H.
  2:{ inversion H; subst. split; [discriminate|auto]. }
  assert (Guard : a_ver (p_dst p) = 4 -> if_mtu st < pkt_total_len p -> true = true) by reflexivity.
  destruct (negb (if_has_token st)).
  { inversion H; subst. split; [discriminate|auto]. }
  unfold if_dispatch_ip in H.
  destruct (addr_is_unspecified (p_dst p)); [discriminate|].
  assert (LH : forall st1 ok, if_lookup_hardware_addr ev st (p_dst p) = (st1, ok) ->
              (ok = true -> st1 = st) /\ if_frag st1 = if_frag st /\
              (if_out st1 = if_out st \/ exists k a, if_out st1 = if_out st ++ [FO_Aux k a])).
  { intros st1 ok L. unfold if_lookup_hardware_addr in L.
    destruct (e_is_broadcast ev (p_dst p)); [inversion L; subst; auto|].
    destruct (e_is_multicast ev (p_dst p)); [inversion L; subst; auto|].
    destruct (e_route ev (p_dst p)) as [nh|]; [|inversion L; subst; split; [discriminate|auto]].
    destruct (neigh_lookup st nh =? 0); [inversion L; subst; auto|].
    destruct (neigh_lookup st nh =? 2); [inversion L; subst; split; [discriminate|auto]|].
    destruct (a_ver nh =? 4).
    - destruct (e_src_v4 ev nh); inversion L; subst; (split; [discriminate|]); cbn; eauto.
    - inversion L; subst. split; [discriminate|]. cbn; eauto. }
  assert (Core : forall st1, st1 = st ->
    (if pkt_total_len p >? if_mtu st1
     then if a_ver (p_dst p) =? 4
          then if cfg_FRAGMENTATION_BUFFER_SIZE <? pkt_total_len p then Ok (st1, true)
               else if negb (if_frag_finished st1) then Ok (st1, true)
               else Ok (if_set_frag (if_consume st1 (FO_Frag 0 (if_max_frag st1) true))
                          (Some (FO_Pkt p, pkt_total_len p, if_max_frag st1 + wipv4_HEADER_LEN)), true)
          else Ok (st1, true)
     else Ok (if_consume st1 (FO_Pkt p), true)) = Ok (st', true) ->
    (pkt_total_len p <= if_mtu st /\ if_out st' = if_out st ++ [FO_Pkt p] /\ if_frag st' = if_frag st) \/
    (pkt_total_len p > if_mtu st /\ a_ver (p_dst p) = 4 /\ pkt_total_len p <= cfg_FRAGMENTATION_BUFFER_SIZE /\
     if_out st' = if_out st ++ [FO_Frag 0 (if_max_frag st) true] /\
     if_frag st' = Some (FO_Pkt p, pkt_total_len p, if_max_frag st + wipv4_HEADER_LEN)) \/
    (pkt_total_len p > if_mtu st /\
     (a_ver (p_dst p) <> 4 \/ cfg_FRAGMENTATION_BUFFER_SIZE < pkt_total_len p) /\
     if_out st' = if_out st /\ if_frag st' = if_frag st)).
  { intros st1 -> HC.
    destruct (pkt_total_len p >? if_mtu st) eqn:EM; rewrite Z.gtb_ltb in EM; bools.
    - destruct (a_ver (p_dst p) =? 4) eqn:EV; bools.
      + destruct (cfg_FRAGMENTATION_BUFFER_SIZE <? pkt_total_len p) eqn:EB; bools.
        * inversion HC; subst. right; right. splits; auto; lia.
        * (* the guard of the closure: the fragmenter is free here *)
          assert (FF : if_frag_finished st = true) by exact EG.
          rewrite FF in HC. cbn [negb] in HC. inversion HC; subst.
          right; left. splits; auto; try lia.
      + inversion HC; subst. right; right. splits; auto; try lia.
    - inversion HC; subst. left. splits; auto; lia. }
  destruct (if_eth st) eqn:Eeth.
  - destruct (if_lookup_hardware_addr ev st (p_dst p)) as [st1 ok] eqn:EL.
    destruct (LH st1 ok eq_refl) as (L1 & L2 & L3).
    destruct ok; cbn [negb] in H.
    + match type of H with obind ?x _ = _ => destruct x as [[st2 ok2]| |] eqn:EX; cbn [obind] in H; [|discriminate H..] end.
      assert (ok2 = true).
      { destruct (pkt_total_len p >? if_mtu st1); [destruct (a_ver (p_dst p) =? 4);
          [destruct (cfg_FRAGMENTATION_BUFFER_SIZE <? pkt_total_len p); [|destruct (negb (if_frag_finished st1))]|]|];
          inversion EX; reflexivity. }
      subst ok2. inversion H; subst. split; [intros _|intros X; contradiction X; reflexivity].
      apply (Core st1 (L1 eq_refl)). exact EX.
    + inversion H; subst. split; [discriminate|intros _; auto].
  - cbn [negb] in H.
    match type of H with obind ?x _ = _ => destruct x as [[st2 ok2]| |] eqn:EX; cbn [obind] in H; [|discriminate H..] end.
    assert (ok2 = true).
    { destruct (pkt_total_len p >? if_mtu st); [destruct (a_ver (p_dst p) =? 4);
        [destruct (cfg_FRAGMENTATION_BUFFER_SIZE <? pkt_total_len p); [|destruct (negb (if_frag_finished st))]|]|];
        inversion EX; reflexivity. }
    subst ok2. inversion H; subst. split; [intros _|intros X; contradiction X; reflexivity].
    apply (Core st eq_refl). exact EX.
Qed.

(* the remaining fragments of a parked datagram: ipv4_egress sends them one per call, contiguous
   8-aligned pieces, and reports the datagram exactly once, with the last one *)
Fixpoint frag_train (fuel : nat) (mf len sent : Z) : list frame_out :=
  match fuel with
  | O => []
  | S k =>
      if sent <? len then
        let n := Z.min (len - sent) mf in
        FO_Frag (sent - wipv4_HEADER_LEN) n (negb (len - sent =? n)) :: frag_train k mf len (sent + n)
      else []
  end.

Fixpoint ipv4_egress_n (k : nat) (st : iface) : iface :=
  match k with O => st | S k' => ipv4_egress_n k' (if_ipv4_egress st) end.

Theorem c09_fragment_train_completes : forall fuel st f len sent,
  if_frag st = Some (f, len, sent) -> if_budget st = None -> 0 < if_max_frag st ->
  sent < len -> (Z.to_nat (len - sent) <= fuel)%nat ->
  let st' := ipv4_egress_n fuel st in
  if_frag_finished st' = true /\
  if_out st' = if_out st ++ frag_train fuel (if_max_frag st) len sent ++ [f].
Proof.
  induction fuel as [|fuel IH]; intros st f len sent HF HB HM HS HFu; [lia|].
  cbn [ipv4_egress_n frag_train].
  assert (Hlt : (sent <? len) = true) by (apply Z.ltb_lt; lia). rewrite Hlt.
  set (n := Z.min (len - sent) (if_max_frag st)).
  assert (Hn : 0 < n) by (unfold n; lia).
  (* one step *)
  assert (Step : let st1 := if_ipv4_egress st in
            if_budget st1 = None /\ if_max_frag st1 = if_max_frag st /\
            if_frag st1 = Some (f, len, sent + n) /\
            if_out st1 = if_out st ++ FO_Frag (sent - wipv4_HEADER_LEN) n (negb (len - sent =? n))
                                       :: (if len - sent =? n then [f] else [])).
  { assert (NF : if_frag_finished st = false).
    { unfold if_frag_finished. rewrite HF. apply Z.eqb_neq. lia. }
    assert (TK : if_has_token st = true) by (unfold if_has_token; rewrite HB; reflexivity).
    unfold if_ipv4_egress. rewrite NF, HF, Hlt, TK. cbn [andb]. fold n.
    destruct (len - sent =? n) eqn:EL; cbn [negb];
      unfold if_report, if_set_frag, if_consume, if_set_out, if_set_budget, if_max_frag; cbn; rewrite HB;
      splits; auto. rewrite <- app_assoc. reflexivity. }
  destruct Step as (B1 & M1 & F1 & O1). set (st1 := if_ipv4_egress st) in *.
  destruct (len - sent =? n) eqn:EL; bools.
  - (* that was the last fragment *)
    assert (Fin : forall k s, if_frag s = Some (f, len, len) -> ipv4_egress_n k s = ipv4_egress_n k s) by auto.
    assert (Idle : forall k s, if_frag_finished s = true ->
              if_frag_finished (ipv4_egress_n k s) = true /\ if_out (ipv4_egress_n k s) = if_out s).
    { induction k; intros s Hs; [auto|]. cbn [ipv4_egress_n].
      assert (E1 : if_frag_finished (if_ipv4_egress s) = true /\ if_out (if_ipv4_egress s) = if_out s).
      { unfold if_ipv4_egress. rewrite Hs. cbn. auto. }
      destruct E1 as (E1 & E2). destruct (IHk _ E1) as (I1 & I2). split; [exact I1|congruence]. }
    assert (FF : if_frag_finished st1 = true).
    { unfold if_frag_finished. rewrite F1. apply Z.eqb_eq. lia. }
    destruct (Idle fuel st1 FF) as (I1 & I2).
    split; [exact I1|]. rewrite I2, O1.
    assert (TE : frag_train fuel (if_max_frag st) len (sent + n) = []).
    { destruct fuel; [reflexivity|]. cbn. destruct (sent + n <? len) eqn:E2; bools; [lia|reflexivity]. }
    rewrite TE. reflexivity.
  - destruct (IH st1 f len (sent + n) F1 B1 ltac:(rewrite M1; exact HM) ltac:(lia) ltac:(lia)) as (I1 & I2).
    split; [exact I1|]. rewrite I2, O1, M1. rewrite <- app_assoc. reflexivity.
Qed.

(* ---- order on the wire ----
   [wire_scan open out]: run over the transmitted frames; [open] = a fragment train is unfinished.
   A whole datagram (FO_Pkt appended by consume, or the report that follows a last fragment)
   must never appear while a train is open; stack-generated frames (FO_Aux) may. *)
Fixpoint wire_scan (open : bool) (out : list frame_out) : option bool :=
  match out with
  | [] => Some open
  | FO_Frag _ _ more :: r => wire_scan more r
  | FO_Pkt _ :: r => if open then None else wire_scan false r
  | FO_Aux _ _ :: r => wire_scan open r
  end.

Lemma wire_scan_app : forall a b o,
  wire_scan o (a ++ b) = match wire_scan o a with Some o' => wire_scan o' b | None => None end.
Proof.
  induction a as [|f a IH]; intros b o; [reflexivity|]. cbn [app wire_scan].
  destruct f; [destruct o; [reflexivity|]| |]; apply IH.
Qed.

(* the wire is consistent with the fragmenter: a train is open on the wire iff the fragmenter
   still holds unsent fragments; [o0] is the openness when the log [if_out] was last emptied *)
Definition wire_coherent (o0 : bool) (st : iface) : Prop :=
  wire_scan o0 (if_out st) = Some (negb (if_frag_finished st)) /\
  match if_frag st with
  | Some (f, len, sent) => sent <= len /\ match f with FO_Frag _ _ _ => False | _ => True end
  | None => True
  end.

Lemma lookup_hw_coherent : forall ev st dst st1 ok o0,
  if_lookup_hardware_addr ev st dst = (st1, ok) -> wire_coherent o0 st -> wire_coherent o0 st1.
Proof.
  intros ev st dst st1 ok o0 L (C1 & C2). unfold if_lookup_hardware_addr in L.
  assert (Aux : forall k a, wire_coherent o0 (if_set_silent (if_consume st (FO_Aux k a)) (if_now (if_consume st (FO_Aux k a)) + neigh_SILENT_TIME_ms))).
  { intros k a. unfold wire_coherent, if_set_silent, if_consume, if_set_out, if_set_budget, if_frag_finished in *. cbn.
    rewrite wire_scan_app, C1. cbn. auto. }
  destruct (e_is_broadcast ev dst); [inversion L; subst; split; auto|].
  destruct (e_is_multicast ev dst); [inversion L; subst; split; auto|].
  destruct (e_route ev dst) as [nh|]; [|inversion L; subst; split; auto].
  destruct (neigh_lookup st nh =? 0); [inversion L; subst; split; auto|].
  destruct (neigh_lookup st nh =? 2); [inversion L; subst; split; auto|].
  destruct (a_ver nh =? 4).
  - destruct (e_src_v4 ev nh); inversion L; subst; [apply Aux|split; auto].
  - inversion L; subst. apply Aux.
Qed.

(* dispatch_ip of a whole datagram [FO_Pkt p] keeps the wire coherent provided no train is open
   (which is what the hold-back of socket_egress guarantees); of a stack reply always *)
Lemma dispatch_ip_coherent : forall ev st ver dst total f st' ok o0,
  if_dispatch_ip ev st ver dst total f = Ok (st', ok) ->
  wire_coherent o0 st -> 0 < if_max_frag st -> if_mtu st < cfg_FRAGMENTATION_BUFFER_SIZE \/ True ->
  (match f with FO_Pkt _ => if_frag_finished st = true | FO_Aux _ _ => True | FO_Frag _ _ _ => False end) ->
  (total > if_mtu st -> if_max_frag st + wipv4_HEADER_LEN <= total) ->
  wire_coherent o0 st'.
Proof.
  intros ev st ver dst total f st' ok o0 H C HM _ HF HT. unfold if_dispatch_ip in H.
  destruct (addr_is_unspecified dst); [discriminate|].
  destruct (if if_eth st then if_lookup_hardware_addr ev st dst else (st, true)) as [st1 ok1] eqn:EL.
  assert (C1 : wire_coherent o0 st1 /\ (ok1 = true -> st1 = st)).
  { destruct (if_eth st).
    - split; [eapply lookup_hw_coherent; eauto|].
      intros ->. unfold if_lookup_hardware_addr in EL.
      destruct (e_is_broadcast ev dst); [inversion EL; auto|].
      destruct (e_is_multicast ev dst); [inversion EL; auto|].
      destruct (e_route ev dst) as [nh|]; [|inversion EL].
      destruct (neigh_lookup st nh =? 0); [inversion EL; auto|].
      destruct (neigh_lookup st nh =? 2); [inversion EL|].
      destruct (a_ver nh =? 4); [destruct (e_src_v4 ev nh)|]; inversion EL.
    - inversion EL; subst. auto. }
  destruct C1 as (C1 & Same).
  destruct ok1; cbn [negb] in H; [|inversion H; subst; exact C1].
  rewrite (Same eq_refl) in *. clear Same C1 EL st1.
  destruct C as (W & B).
  assert (Whole : wire_coherent o0 (if_consume st f)).
  { unfold wire_coherent, if_consume, if_set_out, if_set_budget, if_frag_finished in *. cbn.
    rewrite wire_scan_app, W. split; [|exact B].
    destruct f; cbn; try contradiction.
    - cbn in HF. unfold if_frag_finished in HF. rewrite HF. reflexivity.
    - reflexivity. }
  destruct (total >? if_mtu st) eqn:EM; [|inversion H; subst; exact Whole].
  rewrite Z.gtb_ltb in EM. bools.
  destruct (ver =? 4); [|inversion H; subst; exact (conj W B)].
  destruct (cfg_FRAGMENTATION_BUFFER_SIZE <? total); [inversion H; subst; exact (conj W B)|].
  destruct (negb (if_frag_finished st)) eqn:EF; [inversion H; subst; split; [rewrite EF; exact W|exact B]|].
  inversion H; subst. bools.
  unfold wire_coherent, if_set_frag, if_consume, if_set_out, if_set_budget, if_frag_finished in *. cbn.
  rewrite wire_scan_app, W. cbn. specialize (HT ltac:(lia)).
  split; [|split; [lia|destruct f; auto]].
  destruct (total =? if_max_frag st + wipv4_HEADER_LEN) eqn:E; bools; cbn.
  - (* a train of one fragment cannot arise: the packet is larger than the MTU *)
    unfold if_max_frag in *. pose proof (eq_refl : wipv4_HEADER_LEN = 20) as HL. rewrite HL in *.
    pose proof (Z.mod_pos_bound (if_mtu st - 20) 8 ltac:(lia)). lia.
  - reflexivity.
Qed.

Lemma ipv4_egress_coherent : forall st o0,
  wire_coherent o0 st -> 0 < if_max_frag st -> wire_coherent o0 (if_ipv4_egress st).
Proof.
  intros st o0 (W & B) HM. unfold if_ipv4_egress.
  destruct (if_frag_finished st) eqn:EF.
  - (* reset: nothing to send *)
    unfold wire_coherent, if_set_frag, if_frag_finished in *. cbn. rewrite W. cbn. auto.
  - unfold if_frag_finished in EF. destruct (if_frag st) as [[[f len] sent]|] eqn:EFr; [|discriminate].
    bools. destruct ((sent <? len) && if_has_token st) eqn:ET.
    2:{ unfold wire_coherent, if_frag_finished. rewrite EFr. split; [|exact B].
        rewrite W. destruct (len =? sent) eqn:E2; bools; [lia|reflexivity]. }
    destruct B as (B & NF).
    bools. set (n := Z.min (len - sent) (if_max_frag st)).
    assert (0 < n) by (unfold n; lia).
    destruct (len - sent =? n) eqn:EL; cbn [negb]; bools.
    + (* last fragment, then the report *)
      unfold wire_coherent, if_report, if_set_frag, if_consume, if_set_out, if_set_budget, if_frag_finished in *. cbn.
      rewrite <- app_assoc, wire_scan_app, W. cbn.
      replace (len =? sent + n) with true by (symmetry; apply Z.eqb_eq; lia). cbn.
      split; [|split; [lia|exact NF]]. destruct f; [reflexivity|reflexivity|contradiction].
    + unfold wire_coherent, if_set_frag, if_consume, if_set_out, if_set_budget, if_frag_finished in *. cbn.
      rewrite wire_scan_app, W. cbn.
      replace (len =? sent + n) with false by (symmetry; apply Z.eqb_neq; unfold n in *; lia). cbn.
      split; [reflexivity|split; [unfold n; lia|exact NF]].
Qed.

(* The emit closure of socket_egress: while a fragment train is unfinished NOTHING of any socket
   leaves and the datagram stays queued (EMIT_BUSY, state unchanged); otherwise the wire stays
   coherent.  With [wire_scan] this is the order property: all fragments of a datagram precede
   every frame of the datagram queued behind it. *)
Theorem c09_fragments_before_next_datagram : forall ev p st na res st' na' res' c o0,
  if_respond ev p (st, na, res) = Ok ((st', na', res'), c) ->
  wire_coherent o0 st -> 0 < if_max_frag st -> if_max_frag st + wipv4_HEADER_LEN <= if_mtu st ->
  (if_frag_finished st = false -> c = EMIT_BUSY /\ st' = st) /\
  (c = EMIT_OK -> if_frag_finished st = true) /\
  wire_coherent o0 st' /\
  exists o', wire_scan o0 (if_out st') = Some o'.
Proof.
  intros ev p st na res st' na' res' c o0 H C HM HMTU.
  assert (G : (if_frag_finished st = false -> c = EMIT_BUSY /\ st' = st) /\
              (c = EMIT_OK -> if_frag_finished st = true) /\ wire_coherent o0 st').
  { unfold if_respond in H. destruct (if_frag_finished st) eqn:EF; cbn [negb] in H.
    2:{ inversion H; subst. splits; auto. discriminate. }
    destruct (negb (if_has_token st)).
    { inversion H; subst. splits; auto; discriminate. }
    match type of H with obind ?x _ = _ => destruct x as [[st1 ok]| |] eqn:EX; cbn [obind] in H; [|discriminate H..] end.
    assert (C1 : wire_coherent o0 st1).
    { eapply dispatch_ip_coherent; eauto. intros; lia. }
    destruct ok; inversion H; subst; splits; auto; discriminate. }
  destruct G as (G1 & G2 & G3). splits; auto.
  destruct G3 as (W & _). eauto.
Qed.

(* boundaries: what has been handed out is, position by position, what was stored *)
Theorem c09_no_merge_no_split : forall ev s ops s' rs,
  sock_is_new s -> Forall op_args_ok ops -> sock_run ev s ops = Ok (s', rs) ->
  let '(stored, consumed) := ghost_rx (combine ops rs) in
  forall i x, nth_error consumed i = Some x -> nth_error stored i = Some x.
Proof.
  intros ev s ops s' rs N F E.
  pose proof (c09_rx_exactly_once_whole_or_not_at_all ev s ops s' rs N F E) as H.
  destruct (ghost_rx (combine ops rs)) as [stored consumed]. destruct H as (-> & _).
  intros i x Hn. rewrite nth_error_app1; [exact Hn|]. apply nth_error_Some. congruence.
Qed.

(* metadata of a stored arrival: the source endpoint and the destination address of the packet *)
Theorem c09_rx_metadata_correct : forall ev s src sport dst payload,
  sock_wf s -> sock_kind s = 1 ->
  exists s' ok, sock_step ev s (OpProcess (ArrUdp src sport dst payload)) = Ok (s', SR_Process ok) /\
    tx_pending s' = tx_pending s /\
    rx_pending s' = if ok then rx_pending s ++ [(mkDM src sport (Some dst), payload)] else rx_pending s.
Proof.
  intros ev s src sport dst payload W K.
  destruct (sock_step_spec ev s (OpProcess (ArrUdp src sport dst payload)) W I) as (s' & r & E & _ & R).
  destruct s; try discriminate K.
  destruct r; cbn in R; try contradiction.
  - exists s', stored. auto.
  - cbn [sock_step] in E.
    match type of E with obind ?x _ = _ => destruct x as [[? ?]| |]; cbn [obind] in E; [|discriminate E..] end.
    discriminate E.
Qed.

(* ---- non-vacuity: a tiny transmit ring (3 slots, 8 bytes) forced to wrap with a padding record ---- *)
Definition ex_env : env := std_env 4.
Definition ex_sock : sock := SUdp (udp_new (pq_new 2 8) (pq_new 3 8)).
Definition ex_m : dmeta := mkDM (mkA 4 3) 9000 None.
Definition ex_ops : list sop :=
  [ OpBind (BindUdp None 7000);
    OpSend 5 ex_m [1;2;3;4;5];
    OpSend 2 ex_m [6;7];
    OpDispatch EMIT_OK;                 (* first datagram leaves: read_at = 5, 2 bytes queued *)
    OpSend 4 ex_m [8;9;10;11];          (* contiguous window is 1 < 4: padding record + wrap *)
    OpSend 3 ex_m [12;13;14];           (* refused: no room *)
    OpDispatch EMIT_DISPATCH;           (* emit fails: datagram [6;7] stays queued *)
    OpDispatch EMIT_OK;
    OpDispatch EMIT_OK;                 (* skips the padding record, sends [8;9;10;11] *)
    OpDispatch EMIT_OK ].

Example c09_example_tx :
  match sock_run ex_env ex_sock ex_ops with
  | Ok (s', rs) =>
      map (fun r => match r with SR_Code c => c | SR_Dispatch _ (Some p) c => 100 + c + 10 * zlen (p_payload p)
                               | SR_Dispatch _ None c => 200 + c | _ => -1 end) rs
        = [0; 0; 0; 150; 0; 2; 122; 120; 140; 200] /\
      ghost_tx (tx_hdr ex_sock) (combine ex_ops rs) =
        ([(ex_m, [1;2;3;4;5]); (ex_m, [6;7]); (ex_m, [8;9;10;11])],
         [(ex_m, [1;2;3;4;5]); (ex_m, [6;7]); (ex_m, [8;9;10;11])]) /\
      tx_pending s' = []
  | _ => False
  end /\
  (* the state in the middle really contains a padding record *)
  match sock_run ex_env ex_sock (firstn 5 ex_ops) with
  | Ok (s', _) => map (fun it => (match it_hdr it with Some _ => 1 | None => 0 end, it_size it)) (q_items (sock_tx s'))
                  = [(1, 2); (0, 1); (1, 4)] /\ q_read (sock_tx s') = 5 /\ q_len (sock_tx s') = 7
  | _ => False
  end.
Proof. vm_compute. repeat split; reflexivity. Qed.

Definition ex_rx_ops : list sop :=
  [ OpBind (BindUdp None 7000);
    OpProcess (ArrUdp (mkA 4 3) 9000 (mkA 4 1) [1;2;3;4;5]);
    OpProcess (ArrUdp (mkA 4 4) 9001 (mkA 4 7) [6;7]);
    OpRecv;
    OpProcess (ArrUdp (mkA 4 3) 9000 (mkA 4 1) [8;9;10;11]);      (* padding + wrap in the 8-byte rx ring *)
    OpProcess (ArrUdp (mkA 4 3) 9000 (mkA 4 1) [12]);             (* dropped: both metadata slots... *)
    OpPeekSlice 1;                                                (* Truncated, datagram stays *)
    OpRecvSlice 1;                                                (* Truncated, datagram [6;7] is dropped *)
    OpRecvSlice 4;
    OpRecv ].

Example c09_example_rx :
  match sock_run ex_env (SUdp (udp_new (pq_new 3 8) (pq_new 1 8))) ex_rx_ops with
  | Ok (s', rs) =>
      map (fun r => match r with
                    | SR_Recv (RR_Ok n m d) => (1, n, a_id (dm_addr m), match dm_local m with Some a => a_id a | None => -1 end)
                    | SR_Recv (RR_Trunc n (Some _)) => (2, n, 0, 0)
                    | SR_Recv (RR_Trunc n None) => (3, n, 0, 0)
                    | SR_Recv (RR_Err e) => (4, e, 0, 0)
                    | SR_Process true => (5, 0, 0, 0)
                    | SR_Process false => (6, 0, 0, 0)
                    | _ => (0, 0, 0, 0) end) rs
      = [(0,0,0,0); (5,0,0,0); (5,0,0,0); (1,5,3,1); (5,0,0,0); (6,0,0,0); (3,2,0,0); (2,2,0,0); (1,4,3,1); (4,3,0,0)]
  | _ => False
  end.
Proof. vm_compute. reflexivity. Qed.

Theorem c09_tx_exactly_once_reachable : forall ev s0 ops s rs,
  sock_is_new s0 -> Forall op_args_ok ops -> sock_run ev s0 ops = Ok (s, rs) ->
  let '(accepted, taken) := ghost_tx (tx_hdr s0) (combine ops rs) in
  accepted = taken ++ tx_pending s /\
  exists s' rs',
    sock_run ev s (repeat (OpDispatch EMIT_OK) (length (tx_pending s))) = Ok (s', rs') /\
    tx_pending s' = [] /\ rx_pending s' = rx_pending s /\
    rs' = map (fun x => SR_Dispatch (Some x) (sock_prepare ev s (fst x) (snd x)) 0) (tx_pending s).
Proof.
  intros ev s0 ops s rs N F E.
  pose proof (c09_tx_at_most_once_in_order_unmodified ev s0 ops s rs N F E) as H.
  destruct (ghost_tx (tx_hdr s0) (combine ops rs)) as [acc taken]. destruct H as (H & _).
  split; [exact H|]. apply c09_tx_exactly_once_when_emit_ok. eapply c09_reachable_wf; eauto.
Qed.

(* the numbers of the source the models and the statements rely on *)
Lemma c09_constants :
  wudp_HEADER_LEN = 8 /\ wipv4_HEADER_LEN = 20 /\ wipv6_HEADER_LEN = 40 /\ wicmpv4_HEADER_END = 8 /\
  neigh_SILENT_TIME_ms = 1000 /\ neigh_ENTRY_LIFETIME_ms = 60000 /\ meta_DISCOVERY_SILENT_TIME_ms = 1000 /\
  0 < cfg_FRAGMENTATION_BUFFER_SIZE.
Proof. vm_compute. repeat split; reflexivity. Qed.
