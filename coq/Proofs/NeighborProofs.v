(* Lemmas about Model/Neighbor.v: the association list is a bounded map without duplicate keys,
   every entry stems from the most recent fill of its key (eviction only loses entries), expiry,
   and the rate-limit bookkeeping. *)
From SV Require Import Lib.Base Gen.Consts Model.Neighbor.

Lemma ip_eqb_eq : forall x y, ip_eqb x y = true <-> x = y.
Proof.
  destruct x, y; simpl; split; intro H; try discriminate; try (apply Z.eqb_eq in H; congruence);
    inversion H; apply Z.eqb_refl.
Qed.

Lemma ip_eqb_refl : forall x, ip_eqb x x = true.
Proof. intro; apply ip_eqb_eq; reflexivity. Qed.

Lemma ip_eqb_neq : forall x y, ip_eqb x y = false <-> x <> y.
Proof.
  intros; split; intro H.
  - intro E; apply ip_eqb_eq in E; congruence.
  - destruct (ip_eqb x y) eqn:E; [apply ip_eqb_eq in E; contradiction | reflexivity].
Qed.

Definition keys (l : list (ipaddr * neighbor)) : list ipaddr := map fst l.

Definition cache_wf (cap : Z) (c : cache) : Prop :=
  NoDup (keys (c_storage c)) /\ Z.of_nat (length (c_storage c)) <= cap.

(* ---------- association-list facts ---------- *)

Lemma NoDup_app_snoc : forall (A : Type) (l : list A) (x : A), NoDup l -> ~ In x l -> NoDup (l ++ [x]).
Proof.
  induction l as [|y r IH]; simpl; intros x ND H; [repeat constructor; auto|].
  inversion ND; subst. constructor.
  - rewrite in_app_iff; simpl. intros [F|[F|[]]]; [contradiction | subst; tauto].
  - apply IH; auto.
Qed.

Lemma lm_get_In : forall l k v, lm_get l k = Some v -> In (k, v) l.
Proof.
  induction l as [|[k' v'] r IH]; simpl; intros k v H; [discriminate|].
  destruct (ip_eqb k' k) eqn:E.
  - apply ip_eqb_eq in E; inversion H; subst; auto.
  - right; auto.
Qed.

Lemma lm_get_None : forall l k, lm_get l k = None -> ~ In k (keys l).
Proof.
  induction l as [|[k' v'] r IH]; simpl; intros k H; [tauto|].
  destruct (ip_eqb k' k) eqn:E; [discriminate|].
  apply ip_eqb_neq in E. intros [A|A]; [congruence | eapply IH; eauto].
Qed.

Lemma In_lm_get : forall l k v, NoDup (keys l) -> In (k, v) l -> lm_get l k = Some v.
Proof.
  induction l as [|[k' v'] r IH]; simpl; intros k v ND H; [tauto|].
  inversion ND; subst.
  destruct H as [H|H].
  - inversion H; subst. rewrite ip_eqb_refl; reflexivity.
  - destruct (ip_eqb k' k) eqn:E.
    + apply ip_eqb_eq in E; subst. exfalso; apply H2. change k with (fst (k, v)). apply in_map; exact H.
    + apply IH; auto.
Qed.

Lemma keys_replace : forall l k v, keys (lm_replace l k v) = keys l.
Proof.
  induction l as [|[k' v'] r IH]; simpl; intros; [reflexivity|].
  destruct (ip_eqb k' k); simpl; [reflexivity | rewrite IH; reflexivity].
Qed.

Lemma length_replace : forall l k v, length (lm_replace l k v) = length l.
Proof. intros. rewrite <- (map_length fst), <- (map_length fst l). f_equal. apply keys_replace. Qed.

(* version with NoDup, which is what the cache guarantees *)
Lemma In_replace : forall l k v x, NoDup (keys l) ->
  In x (lm_replace l k v) -> x = (k, v) \/ (In x l /\ fst x <> k).
Proof.
  induction l as [|[k' v'] r IH]; simpl; intros k v x ND H; [tauto|].
  inversion ND; subst.
  destruct (ip_eqb k' k) eqn:E.
  - apply ip_eqb_eq in E; subst. destruct H as [H|H]; [left; auto|].
    right. split; [right; exact H|]. intro F. apply H2. rewrite <- F. apply in_map; exact H.
  - apply ip_eqb_neq in E. destruct H as [H|H].
    + right; subst; simpl; split; auto.
    + destruct (IH k v x H3 H) as [A|[A B]]; [left; auto | right; split; auto].
Qed.

Lemma replace_has : forall l k v, In k (keys l) -> In (k, v) (lm_replace l k v).
Proof.
  induction l as [|[k' v'] r IH]; simpl; intros k v H; [tauto|].
  destruct (ip_eqb k' k) eqn:E.
  - apply ip_eqb_eq in E; subst; left; reflexivity.
  - apply ip_eqb_neq in E. destruct H as [H|H]; [congruence | right; auto].
Qed.

Lemma lm_get_Some_key : forall l k v, lm_get l k = Some v -> In k (keys l).
Proof. intros. apply lm_get_In in H. change k with (fst (k, v)). apply in_map; exact H. Qed.

(* swap_remove: the result is a duplicate-free sub-collection without key k, one shorter *)
Lemma In_last_removelast : forall (A : Type) (r : list A) (d x : A), r <> [] ->
  (In x (last r d :: removelast r) <-> In x r).
Proof.
  intros A r d x Hne. rewrite (app_removelast_last d Hne) at 3.
  rewrite in_app_iff; simpl; tauto.
Qed.

Lemma NoDup_last_removelast : forall (A : Type) (r : list A) (d : A), r <> [] ->
  NoDup r -> NoDup (last r d :: removelast r).
Proof.
  intros A r d Hne ND. rewrite (app_removelast_last d Hne) in ND.
  apply NoDup_remove in ND. destruct ND as [ND1 ND2]. rewrite app_nil_r in *.
  constructor; auto.
Qed.

Lemma length_last_removelast : forall (A : Type) (r : list A) (d : A), r <> [] ->
  length (last r d :: removelast r) = length r.
Proof.
  intros A r d Hne.
  assert (E : length r = length (removelast r ++ [last r d]))
    by (rewrite <- (app_removelast_last d Hne); reflexivity).
  rewrite app_length in E; simpl in *; lia.
Qed.

Lemma In_swap_remove : forall l k x, NoDup (keys l) ->
  In x (lm_swap_remove l k) -> In x l /\ fst x <> k.
Proof.
  induction l as [|y r IH]; simpl; intros k x ND H; [tauto|].
  inversion ND; subst.
  destruct (ip_eqb (fst y) k) eqn:E.
  - apply ip_eqb_eq in E; subst.
    destruct r as [|z r']; [simpl in H; tauto|].
    apply In_last_removelast in H; [|discriminate].
    split; [right; exact H|]. intro F. apply H2. rewrite <- F. apply in_map; exact H.
  - apply ip_eqb_neq in E. destruct H as [H|H].
    + subst; split; auto.
    + destruct (IH k x H3 H); split; auto.
Qed.

Lemma keys_swap_remove_sub : forall l k x, In x (keys (lm_swap_remove l k)) -> In x (keys l).
Proof.
  induction l as [|y r IH]; simpl; intros k x H; [tauto|].
  destruct (ip_eqb (fst y) k) eqn:E.
  - destruct r as [|z r']; [simpl in H; tauto|].
    right. unfold keys in *. rewrite in_map_iff in *. destruct H as [p [P1 P2]].
    exists p; split; auto. apply In_last_removelast in P2; [exact P2 | discriminate].
  - simpl in H. destruct H as [H|H]; [left; auto | right; eapply IH; eauto].
Qed.

Lemma NoDup_swap_remove : forall l k, NoDup (keys l) -> NoDup (keys (lm_swap_remove l k)).
Proof.
  induction l as [|y r IH]; simpl; intros k ND; [constructor|].
  inversion ND as [|a b Hnin Hnd]; subst.
  destruct (ip_eqb (fst y) k) eqn:E.
  - destruct r as [|z r']; [constructor|].
    assert (Hne : z :: r' <> []) by discriminate.
    pose proof (app_removelast_last y Hne) as EQ.
    unfold keys in Hnd. rewrite EQ in Hnd. rewrite map_app in Hnd. simpl in Hnd.
    apply NoDup_remove in Hnd. rewrite app_nil_r in Hnd. destruct Hnd as [N1 N2].
    unfold keys. simpl map. constructor; auto.
  - simpl. constructor; auto. intro F. apply Hnin. eapply keys_swap_remove_sub; eauto.
Qed.

Lemma length_swap_remove : forall l k, In k (keys l) ->
  length (lm_swap_remove l k) = pred (length l).
Proof.
  induction l as [|y r IH]; simpl; intros k H; [tauto|].
  destruct (ip_eqb (fst y) k) eqn:E.
  - destruct r as [|z r']; [reflexivity|].
    rewrite length_last_removelast by discriminate. reflexivity.
  - apply ip_eqb_neq in E. destruct H as [H|H]; [congruence|].
    simpl. rewrite IH by auto. destruct r; [simpl in H; tauto | reflexivity].
Qed.

Lemma lm_min_In : forall l best, In (lm_min best l) (best :: l).
Proof.
  induction l as [|x r IH]; simpl; intros best; [auto|].
  destruct (nb_expires (snd x) <? nb_expires (snd best)).
  - destruct (IH x) as [A|A]; [right; left; auto | right; right; auto].
  - destruct (IH best) as [A|A]; [left; auto | right; right; auto].
Qed.

(* the evicted entry has the smallest expiry: an expired entry is always preferred to a live one *)
Lemma lm_min_le : forall l best y, In y (best :: l) ->
  nb_expires (snd (lm_min best l)) <= nb_expires (snd y).
Proof.
  induction l as [|x r IH]; simpl; intros best y H.
  - destruct H as [H|[]]; subst; lia.
  - destruct (nb_expires (snd x) <? nb_expires (snd best)) eqn:E.
    + destruct H as [H|[H|H]].
      * subst. pose proof (IH x x (or_introl eq_refl)). lia.
      * subst. apply IH; left; reflexivity.
      * apply IH; right; exact H.
    + destruct H as [H|[H|H]].
      * subst. apply IH; left; reflexivity.
      * subst. pose proof (IH best best (or_introl eq_refl)). lia.
      * apply IH; right; exact H.
Qed.

(* ---------- well-formedness is preserved ---------- *)

Lemma wf_new : forall cap, 0 <= cap -> cache_wf cap neigh_new.
Proof. intros; split; simpl; [constructor | lia]. Qed.

Lemma wf_fill_with_expiration : forall cap c k hw e, 1 <= cap -> cache_wf cap c ->
  cache_wf cap (neigh_fill_with_expiration cap c k hw e).
Proof.
  intros cap c k hw e Hcap [ND LEN]. unfold neigh_fill_with_expiration.
  destruct (lm_get (c_storage c) k) eqn:G.
  - split; simpl; [rewrite keys_replace; exact ND | rewrite length_replace; exact LEN].
  - apply lm_get_None in G.
    destruct (Z.of_nat (length (c_storage c)) <? cap) eqn:L.
    + split; simpl.
      * unfold keys. rewrite map_app. simpl.
        apply NoDup_app_snoc; auto.
      * rewrite app_length; simpl. lia.
    + destruct (c_storage c) as [|x r] eqn:ST.
      * split; simpl; [repeat constructor; auto | lia].
      * set (old := fst (lm_min x r)).
        assert (Hin : In old (keys (x :: r))).
        { unfold old, keys. apply in_map. apply lm_min_In. }
        remember (x :: r) as st.
        split; cbn [c_storage].
        -- unfold keys. rewrite map_app. cbn [map fst].
           apply NoDup_app_snoc.
           ++ apply NoDup_swap_remove; exact ND.
           ++ intro F. apply G. eapply keys_swap_remove_sub; exact F.
        -- rewrite app_length, length_swap_remove by exact Hin. cbn [length].
           assert (length st <> O) by (subst st; discriminate). lia.
Qed.

Lemma wf_fill : forall cap c k hw t, 1 <= cap -> cache_wf cap c -> cache_wf cap (neigh_fill cap c k hw t).
Proof. intros; apply wf_fill_with_expiration; auto. Qed.

Lemma wf_reset : forall cap c k hw t, cache_wf cap c -> cache_wf cap (neigh_reset_expiry_if_existing c k hw t).
Proof.
  intros cap c k hw t [ND LEN]. unfold neigh_reset_expiry_if_existing.
  destruct (lm_get (c_storage c) k); [|split; auto].
  destruct (hw =? nb_hw n); [|split; auto].
  split; simpl; [rewrite keys_replace; auto | rewrite length_replace; auto].
Qed.

Lemma wf_limit_rate : forall cap c t, cache_wf cap c -> cache_wf cap (neigh_limit_rate c t).
Proof. intros cap c t [ND LEN]; split; auto. Qed.

Lemma wf_flush : forall cap c, 0 <= cap -> cache_wf cap c -> cache_wf cap (neigh_flush c).
Proof. intros; split; simpl; [constructor | lia]. Qed.

(* ---------- which entries exist after an operation ---------- *)

Lemma fill_entries : forall cap c k hw e x, cache_wf cap c ->
  In x (c_storage (neigh_fill_with_expiration cap c k hw e)) ->
  x = (k, mkNeighbor hw e) \/ (In x (c_storage c) /\ fst x <> k).
Proof.
  intros cap c k hw e x [ND LEN] H. unfold neigh_fill_with_expiration in H.
  destruct (lm_get (c_storage c) k) eqn:G.
  - cbn [c_storage] in H. apply In_replace in H; auto.
  - apply lm_get_None in G.
    assert (NK : forall y, In y (c_storage c) -> fst y <> k).
    { intros y Hy F. apply G. rewrite <- F. apply in_map; exact Hy. }
    destruct (Z.of_nat (length (c_storage c)) <? cap).
    + cbn [c_storage] in H. apply in_app_iff in H. destruct H as [H|[H|[]]]; [right; auto | left; auto].
    + destruct (c_storage c) as [|y r] eqn:ST.
      * cbn [c_storage] in H. destruct H as [H|[]]; left; auto.
      * cbn [c_storage] in H. apply in_app_iff in H. destruct H as [H|[H|[]]]; [|left; auto].
        apply In_swap_remove in H; [|exact ND]. right. split; [tauto | apply NK; tauto].
Qed.

Lemma fill_has : forall cap c k hw e,
  In (k, mkNeighbor hw e) (c_storage (neigh_fill_with_expiration cap c k hw e)).
Proof.
  intros. unfold neigh_fill_with_expiration.
  destruct (lm_get (c_storage c) k) eqn:G.
  - cbn [c_storage]. apply replace_has. eapply lm_get_Some_key; eauto.
  - destruct (Z.of_nat (length (c_storage c)) <? cap); [cbn [c_storage]; apply in_app_iff; right; left; auto|].
    destruct (c_storage c); cbn [c_storage]; [left; auto | apply in_app_iff; right; left; auto].
Qed.

Lemma reset_entries : forall c k hw t x, NoDup (keys (c_storage c)) ->
  In x (c_storage (neigh_reset_expiry_if_existing c k hw t)) ->
  (In x (c_storage c) /\ (fst x <> k \/ neigh_reset_expiry_if_existing c k hw t = c)) \/
  (exists e0, In (k, mkNeighbor hw e0) (c_storage c) /\ x = (k, mkNeighbor hw (t + neigh_ENTRY_LIFETIME))).
Proof.
  intros c k hw t x ND H. unfold neigh_reset_expiry_if_existing in *.
  destruct (lm_get (c_storage c) k) eqn:G; [|left; auto].
  destruct (hw =? nb_hw n) eqn:E; [|left; auto].
  apply Z.eqb_eq in E. cbn [c_storage] in H. apply In_replace in H; auto.
  destruct H as [H|[H1 H2]].
  - right. exists (nb_expires n). split; [|rewrite E; exact H].
    apply lm_get_In in G. destruct n; simpl in *; subst; exact G.
  - left; auto.
Qed.

(* ---------- the history of a cache ---------- *)

Inductive cop :=
| CFill (k : ipaddr) (hw t : Z)       (* Cache::fill(k, hw, t) *)
| CReset (k : ipaddr) (hw t : Z)      (* Cache::reset_expiry_if_existing(k, hw, t) *)
| CLimit (t : Z)                      (* Cache::limit_rate(t) *)
| CFlush.                             (* Cache::flush() *)

Definition cache_apply (cap : Z) (c : cache) (op : cop) : cache :=
  match op with
  | CFill k hw t => neigh_fill cap c k hw t
  | CReset k hw t => neigh_reset_expiry_if_existing c k hw t
  | CLimit t => neigh_limit_rate c t
  | CFlush => neigh_flush c
  end.

Definition cache_run (cap : Z) (c : cache) (ops : list cop) : cache := fold_left (cache_apply cap) ops c.

Definition keeps (k : ipaddr) (op : cop) : bool :=
  match op with
  | CFlush => false
  | CFill k' _ _ => negb (ip_eqb k' k)
  | _ => true
  end.

(* [learned log k hw e]: the most recent fill of k in the history taught hw, nothing flushed the
   cache since, and e is the lifetime counted from that fill or from a later refresh by traffic
   from (k, hw) *)
Definition learned (log : list cop) (k : ipaddr) (hw : Z) (expires : Z) : Prop :=
  exists l1 t0 l2,
    log = l1 ++ CFill k hw t0 :: l2 /\
    forallb (keeps k) l2 = true /\
    (expires = t0 + neigh_ENTRY_LIFETIME \/
     exists t, In (CReset k hw t) l2 /\ expires = t + neigh_ENTRY_LIFETIME).

Definition cache_inv (log : list cop) (c : cache) : Prop :=
  forall k nb, In (k, nb) (c_storage c) -> learned log k (nb_hw nb) (nb_expires nb).

Lemma learned_snoc : forall log k hw e op, learned log k hw e -> keeps k op = true ->
  learned (log ++ [op]) k hw e.
Proof.
  intros log k hw e op (l1 & t0 & l2 & E & F & C) K.
  exists l1, t0, (l2 ++ [op]). split; [|split].
  - rewrite E, <- app_assoc; reflexivity.
  - rewrite forallb_app, F; simpl; rewrite K; reflexivity.
  - destruct C as [C|[t [C1 C2]]]; [left; auto | right; exists t; split; auto; apply in_app_iff; auto].
Qed.

Lemma cache_inv_step : forall cap log c op, 1 <= cap -> cache_wf cap c -> cache_inv log c ->
  cache_inv (log ++ [op]) (cache_apply cap c op).
Proof.
  intros cap log c op Hcap WF INV k nb H. destruct op as [k' hw t|k' hw t|t|]; cbn [cache_apply] in H.
  - apply fill_entries in H; auto. destruct H as [H|[H1 H2]].
    + injection H as Ek En; subst k nb; cbn [nb_hw nb_expires].
      exists log, t, []. split; [reflexivity|]. split; [reflexivity | left; reflexivity].
    + apply learned_snoc; [apply INV; exact H1|]. cbn [keeps fst] in *.
      apply negb_true_iff, ip_eqb_neq. congruence.
  - apply reset_entries in H; [|apply WF]. destruct H as [[H _]|(e0 & H1 & H2)].
    + apply learned_snoc; [apply INV; exact H | reflexivity].
    + injection H2 as Ek En; subst k nb; cbn [nb_hw nb_expires].
      destruct (INV _ _ H1) as (l1 & t0 & l2 & E & F & C); cbn [nb_hw nb_expires] in *.
      exists l1, t0, (l2 ++ [CReset k' hw t]). split; [|split].
      * rewrite E, <- app_assoc; reflexivity.
      * rewrite forallb_app, F; reflexivity.
      * right. exists t. split; [apply in_app_iff; right; left; reflexivity | reflexivity].
  - apply learned_snoc; [apply INV; exact H | reflexivity].
  - destruct H.
Qed.

Lemma cache_wf_step : forall cap c op, 1 <= cap -> cache_wf cap c -> cache_wf cap (cache_apply cap c op).
Proof.
  intros cap c op Hcap WF. destruct op; cbn [cache_apply].
  - apply wf_fill; auto.
  - apply wf_reset; auto.
  - apply wf_limit_rate; auto.
  - apply wf_flush; auto; lia.
Qed.

Lemma cache_run_inv : forall cap ops log c, 1 <= cap -> cache_wf cap c -> cache_inv log c ->
  cache_wf cap (cache_run cap c ops) /\ cache_inv (log ++ ops) (cache_run cap c ops).
Proof.
  induction ops as [|op r IH]; intros log c Hcap WF INV; cbn [cache_run fold_left].
  - rewrite app_nil_r; auto.
  - replace (log ++ op :: r) with ((log ++ [op]) ++ r) by (rewrite <- app_assoc; reflexivity).
    apply IH; [auto | apply cache_wf_step; auto | apply cache_inv_step; auto].
Qed.

Lemma cache_inv_new : cache_inv [] neigh_new.
Proof. intros k nb []. Qed.

(* ---------- lookup ---------- *)

Lemma lookup_found : forall c k now h, neigh_lookup c k now = Found h ->
  exists e, In (k, mkNeighbor h e) (c_storage c) /\ now < e.
Proof.
  intros c k now h H. unfold neigh_lookup in H.
  destruct (lm_get (c_storage c) k) eqn:G.
  - destruct (now <? nb_expires n) eqn:E.
    + inversion H; subst. exists (nb_expires n). split; [|lia].
      apply lm_get_In in G. destruct n; exact G.
    + destruct (now <? c_silent_until c); discriminate.
  - destruct (now <? c_silent_until c); discriminate.
Qed.

Lemma lookup_found_learned : forall log c k now h, cache_inv log c -> neigh_lookup c k now = Found h ->
  exists e, learned log k h e /\ now < e.
Proof.
  intros log c k now h INV H. apply lookup_found in H. destruct H as (e & H1 & H2).
  exists e. split; [exact (INV _ _ H1) | exact H2].
Qed.

(* an entry is returned exactly until its expiry *)
Lemma lookup_entry : forall c k hw e now, NoDup (keys (c_storage c)) ->
  In (k, mkNeighbor hw e) (c_storage c) ->
  neigh_lookup c k now = if now <? e then Found hw
                         else if now <? c_silent_until c then RateLimited else NotFound.
Proof.
  intros c k hw e now ND H. unfold neigh_lookup. rewrite (In_lm_get _ _ _ ND H). reflexivity.
Qed.

Lemma lookup_not_found_silent : forall c k now, neigh_lookup c k now = NotFound -> c_silent_until c <= now.
Proof.
  intros c k now H. unfold neigh_lookup in H.
  destruct (lm_get (c_storage c) k); [destruct (now <? nb_expires n); [discriminate|]|];
    destruct (now <? c_silent_until c) eqn:E; try discriminate; lia.
Qed.

Lemma lookup_rate_limited : forall c k now, neigh_lookup c k now = RateLimited -> now < c_silent_until c.
Proof.
  intros c k now H. unfold neigh_lookup in H.
  destruct (lm_get (c_storage c) k); [destruct (now <? nb_expires n); [discriminate|]|];
    destruct (now <? c_silent_until c) eqn:E; try discriminate; lia.
Qed.

(* silent_until is only ever changed by limit_rate *)
Lemma silent_fill : forall cap c k hw t, c_silent_until (neigh_fill cap c k hw t) = c_silent_until c.
Proof.
  intros. unfold neigh_fill, neigh_fill_with_expiration.
  destruct (lm_get (c_storage c) k); [reflexivity|].
  destruct (Z.of_nat (length (c_storage c)) <? cap); [reflexivity|].
  destruct (c_storage c); reflexivity.
Qed.

Lemma silent_reset : forall c k hw t, c_silent_until (neigh_reset_expiry_if_existing c k hw t) = c_silent_until c.
Proof.
  intros. unfold neigh_reset_expiry_if_existing.
  destruct (lm_get (c_storage c) k); [|reflexivity]. destruct (hw =? nb_hw n); reflexivity.
Qed.

(* the generated constants, as the property text states them *)
Lemma entry_lifetime_is_60s : neigh_ENTRY_LIFETIME = 60 * 1000000.
Proof. reflexivity. Qed.

Lemma silent_time_is_1s : neigh_SILENT_TIME = 1 * 1000000.
Proof. reflexivity. Qed.

Lemma neigh_cap_pos : 1 <= neigh_cap.
Proof. unfold neigh_cap, cfg_IFACE_NEIGHBOR_CACHE_COUNT. lia. Qed.

(* ---------- eviction: only when full, and then an entry with the smallest expiry ---------- *)

Lemma swap_remove_keeps : forall l k x, In x l -> fst x <> k -> In x (lm_swap_remove l k).
Proof.
  induction l as [|y r IH]; simpl; intros k x H N; [tauto|].
  destruct (ip_eqb (fst y) k) eqn:E.
  - apply ip_eqb_eq in E. destruct H as [H|H]; [subst; contradiction|].
    destruct r as [|z r']; [destruct H|]. apply In_last_removelast; [discriminate | exact H].
  - destruct H as [H|H]; [left; exact H | right; apply IH; auto].
Qed.

Lemma NoDup_keys_inj : forall l a b, NoDup (keys l) -> In a l -> In b l -> fst a = fst b -> a = b.
Proof.
  induction l as [|y r IH]; simpl; intros a b ND Ha Hb E; [tauto|].
  inversion ND as [|? ? Hn Hd]; subst.
  destruct Ha as [Ha|Ha]; destruct Hb as [Hb|Hb]; subst; auto.
  - exfalso; apply Hn. rewrite E. apply in_map; exact Hb.
  - exfalso; apply Hn. rewrite <- E. apply in_map; exact Ha.
Qed.

Lemma fill_evicts_smallest : forall cap c k hw e x, cache_wf cap c ->
  In x (c_storage c) -> fst x <> k ->
  ~ In x (c_storage (neigh_fill_with_expiration cap c k hw e)) ->
  cap <= Z.of_nat (length (c_storage c)) /\
  forall y, In y (c_storage c) -> nb_expires (snd x) <= nb_expires (snd y).
Proof.
  intros cap c k hw e x [ND LEN] Hx Nk Hn. unfold neigh_fill_with_expiration in Hn.
  destruct (lm_get (c_storage c) k) eqn:G.
  - exfalso. apply Hn. cbn [c_storage]. clear -Hx Nk.
    induction (c_storage c) as [|[k' v'] r IH]; simpl in *; [tauto|].
    destruct (ip_eqb k' k) eqn:E.
    + apply ip_eqb_eq in E. destruct Hx as [Hx|Hx]; [subst; simpl in Nk; contradiction | right; exact Hx].
    + destruct Hx as [Hx|Hx]; [left; exact Hx | right; apply IH; exact Hx].
  - destruct (Z.of_nat (length (c_storage c)) <? cap) eqn:L.
    + exfalso. apply Hn. cbn [c_storage]. apply in_app_iff; left; exact Hx.
    + split; [lia|]. destruct (c_storage c) as [|y0 r] eqn:ST; [destruct Hx|].
      cbn [c_storage] in Hn.
      assert (F : fst x = fst (lm_min y0 r)).
      { destruct (ip_eqb (fst x) (fst (lm_min y0 r))) eqn:E; [apply ip_eqb_eq in E; exact E|].
        apply ip_eqb_neq in E. exfalso. apply Hn. apply in_app_iff; left. apply swap_remove_keeps; auto. }
      assert (X : x = lm_min y0 r) by (eapply NoDup_keys_inj; eauto; apply lm_min_In).
      intros y Hy. rewrite X. apply lm_min_le. exact Hy.
Qed.
