(* C02 (liveness half), step 4, layer 1b: the advertised window of an ESTABLISHED receiver across its
   events (for the composition with the rounds of step 5, Proofs/TcpProgressZw4.v).
     process_quiet_window   a data/ACK segment that is not answered and not accepted leaves the
                            advertised window where it was
     dispatch_est_adv       a dispatch leaves it, or advertises afresh
     fresh_open             a fresh advertisement of a non-zero scaled window is an open window
     wtu_when_closed        advertised window closed, buffer empty, scaled window non-zero:
                            window_to_update *)
From SV Require Import Lib.Base Gen.Consts.
From SV Require Import Model.Seq32 Model.Assembler Model.TcpBuf Model.TcpTypes Model.Tcp.
From SV Require Import Proofs.TcpRecvBase Proofs.TcpRecvWindow Proofs.TcpRecvInv Proofs.TcpRecvProcess.
From SV Require Proofs.TcpRecvDispatch.
From SV Require Import Proofs.TcpSendBase Proofs.TcpLiveBase Proofs.TcpLiveProofs Proofs.TcpLiveMore
  Proofs.TcpLiveProgress.
From SV Require Import Proofs.TcpProgressFrame Proofs.TcpProgressCtl Proofs.TcpProgressRecv Proofs.TcpProgressSend
  Proofs.TcpProgressZwp Proofs.TcpProgressZw1.

Lemma window_end_view s' s :
  s_remote_last_ack s' = s_remote_last_ack s -> s_remote_last_win s' = s_remote_last_win s ->
  s_remote_win_shift s' = s_remote_win_shift s -> tcp_window_start s' = tcp_window_start s ->
  tcp_window_end s' = tcp_window_end s.
Proof. intros E1 E2 E3 E4. unfold tcp_window_end. rewrite E1, E2, E3, E4. reflexivity. Qed.

(* ---------------------------------------------------------------------------------------- *)
(* process: no reply, nothing accepted                                                       *)
(* ---------------------------------------------------------------------------------------- *)
Theorem process_quiet_window cx s ip r s' tags :
  s_state s = Established -> rcv_wf s -> adv_ok s ->
  l_len (r_payload r) <= p30 -> 0 <= r_seq_number r < 4294967296 ->
  (r_control r = CNone \/ r_control r = CPsh) ->
  r_ack_number r = Some (s_local_seq_no s) ->
  0 <= s_local_seq_no s < 4294967296 -> 0 <= rb_len (s_tx_buffer s) < 2147483648 ->
  tcp_process cx s ip r = Ok (s', None, tags) ->
  rb_len (s_rx_buffer s') = rb_len (s_rx_buffer s) ->
  tcp_window_start s' = tcp_window_start s /\ tcp_window_end s' = tcp_window_end s.
Proof.
  intros Hst Hrw (W & HW & Hwe) Hlen Hsq Hctl Hack Hu Htx H Hrx.
  unfold tcp_process in H.
  destruct (negb (tcp_accepts s ip r)); [discriminate|].
  rewrite (ack_check_una cx s ip r Hst Hctl Hack Hu Htx) in H. cbn [obind] in H.
  apply obind_ok_inv in H. destruct H as (p2 & H2 & H).
  set (WS := s_remote_seq_no s + rb_len (s_rx_buffer s)) in *.
  assert (Ews : tcp_window_start s = seq_norm WS) by (unfold tcp_window_start, WS; apply seq_add_as_norm).
  assert (Ewe : tcp_window_end s = seq_norm (WS + W)).
  { rewrite Hwe, Ews. rewrite <- seq_add_as_norm. apply seq_add_norm. }
  set (d := seq_sdiff (r_seq_number r) (seq_norm WS)).
  assert (Hd : -2147483648 <= d < 2147483648) by apply seq_sdiff_range.
  assert (Esq : r_seq_number r = seq_norm (WS + d)).
  { pose proof (seq_norm_of_sdiff (r_seq_number r) (seq_norm WS) Hsq) as Hx. fold d in Hx.
    rewrite Hx. rewrite <- seq_add_as_norm. apply seq_add_norm. }
  assert (Hsynced : match s_state s with Listen | SynSent => False | _ => True end) by (rewrite Hst; exact I).
  pose proof (TcpRecvWindow.process_window_spec cx s ip r WS W d Ews Ewe Esq HW Hlen Hd Hsynced) as P2.
  cbv zeta in P2. rewrite H2 in P2.
  assert (Hview : forall q, s_rx_buffer q = s_rx_buffer s -> s_remote_seq_no q = s_remote_seq_no s ->
            s_remote_last_ack q = s_remote_last_ack s -> s_remote_last_win q = s_remote_last_win s ->
            s_remote_win_shift q = s_remote_win_shift s ->
            tcp_window_start q = tcp_window_start s /\ tcp_window_end q = tcp_window_end s).
  { intros q E1 E2 E3 E4 E5.
    assert (Es : tcp_window_start q = tcp_window_start s) by (unfold tcp_window_start; rewrite E1, E2; reflexivity).
    split; [exact Es | apply window_end_view; assumption]. }
  destruct p2 as [t2 ((s2, payload), off)|t2 s2r rep2].
  2:{ inversion H; subst s2r rep2 tags; clear H.
      destruct P2 as [(-> & _) | (s0 & Hs0 & Hrep)]; [split; reflexivity|].
      destruct Hrep as [(p & _ & X) | Hch]; [discriminate|].
      unfold tcp_challenge_ack_reply in Hch.
      destruct (cx_now cx <? s_challenge_ack_timer s0).
      - inversion Hch; subst s'. destruct Hs0 as [-> | ->]; [split; reflexivity|]. apply Hview; rproj; reflexivity.
      - destruct (tcp_ack_reply cx (upd_challenge_ack_timer s0 (cx_now cx + 1000000)) ip r). discriminate. }
  destruct P2 as (Hin & -> & -> & ->).
  set (s2 := upd_local_rx_last_seq s (Some (r_seq_number r))) in *.
  assert (F2 : frame s2 s) by (unfold s2; frame_solve).
  apply obind_ok_inv in H. destruct H as (((al & aof) & aall) & _ & H).
  assert (Hq : tcp_process_quash s2 r = CNone).
  { unfold tcp_process_quash. destruct Hctl as [-> | ->]; reflexivity. }
  rewrite Hq in H.
  assert (Hst2 : s_state s2 = Established) by (unfold s2; rproj; exact Hst).
  unfold tcp_process_transition in H. rewrite Hst2 in H. cbn [obind] in H.
  apply obind_ok_inv in H. destruct H as ((s4 & wu) & H4 & H).
  pose proof (update_remote_frame _ _ _ _ _ _ H4) as F4.
  apply obind_ok_inv in H. destruct H as ((s5 & t5) & H5 & H).
  pose proof (dup_ack_frame _ _ _ _ _ _ _ H5) as F5.
  pose proof (tsval_frame s5 r) as F5'.
  set (q5 := match r_timestamp r with
             | Some (tsval, _) => upd_last_remote_tsval s5 tsval
             | None => s5
             end) in *. clearbody q5.
  pose proof (timers_frame cx q5 al aall) as F6.
  destruct (tcp_process_timers cx q5 al aall) as (s6, t6). cbn [fst] in F6.
  pose proof (zwp_frame cx s6 al) as F7.
  destruct (tcp_process_zwp cx s6 al) as (s7, t7). cbn [fst] in F7.
  apply obind_ok_inv in H. destruct H as (((s8 & rep8) & t8) & H8 & H).
  inversion H; subst s8 rep8 tags; clear H.
  assert (F : frame s7 s).
  { eapply frame_trans; [exact F7|]. eapply frame_trans; [exact F6|]. eapply frame_trans; [exact F5'|].
    eapply frame_trans; [exact F5|]. eapply frame_trans; [exact F4 | exact F2]. }
  destruct F as ((E1 & E2 & E3 & E4 & E5 & E6 & E7) & Est).
  assert (Hoff : 0 <= trim_off d) by (unfold trim_off; lia).
  destruct (payload_mono cx s7 ip r _ _ s' None t8 (rcv_wf_view _ _ E1 Hrw) Hoff H8)
    as (_ & _ & _ & Sq & _ & _ & Sh & _ & Hn8).
  destruct (Hn8 eq_refl) as (A1 & A2).
  assert (Es : tcp_window_start s' = tcp_window_start s).
  { unfold tcp_window_start. rewrite Hrx, Sq, E4. reflexivity. }
  split; [exact Es|]. apply window_end_view; congruence.
Qed.

(* ---------------------------------------------------------------------------------------- *)
(* dispatch: the advertisement stays, or is renewed                                          *)
(* ---------------------------------------------------------------------------------------- *)
Theorem dispatch_est_adv cx s ok s' res tags t :
  s_state s = Established -> s_state s' = Established ->
  s_tuple s = Some t -> tu_local_addr t = cx_addr cx ->
  tcp_dispatch cx s ok = Ok (s', res, tags) ->
  tcp_window_start s' = tcp_window_start s /\
  (tcp_window_end s' = tcp_window_end s \/ fresh_adv s').
Proof.
  intros Hst Hst' Htu Haddr H. unfold tcp_dispatch in H.
  rewrite Htu, Haddr, Z.eqb_refl in H. cbn [negb] in H.
  apply obind_ok_inv in H. destruct H as ((s1 & t1) & H1 & H).
  pose proof (TcpRecvDispatch.dispatch_timers_frame _ _ _ _ H1) as (F1 & _).
  apply obind_ok_inv in H. destruct H as (((s2 & go) & t2) & H2 & H).
  pose proof (TcpRecvDispatch.dispatch_decide_frame _ _ _ _ _ H2) as (F2 & _).
  pose proof (rxv_eq_trans _ _ _ F2 F1) as F12.
  assert (Hsame : forall q, rxv_eq q s ->
            tcp_window_start q = tcp_window_start s /\ (tcp_window_end q = tcp_window_end s \/ fresh_adv q)).
  { intros q Hq. split; [exact (rxv_eq_window_start _ _ Hq) | left; exact (rxv_eq_window_end _ _ Hq)]. }
  destruct (negb go); [inversion H; subst; apply Hsame; exact F12|].
  apply obind_ok_inv in H. destruct H as (((((s3 & orepr) & zwp) & ka) & t3) & H3 & H).
  pose proof (TcpRecvDispatch.dispatch_build_spec _ _ _ _ _ _ _ _ H3) as ((F3 & _) & _).
  pose proof (rxv_eq_trans _ _ _ F3 F12) as F123.
  destruct orepr as [repr|]; [|inversion H; subst; apply Hsame; exact F123].
  destruct (negb ok); [inversion H; subst; apply Hsame; exact F123|].
  destruct (tcp_dispatch_finish cx s3 repr zwp ka) as (s4, t4) eqn:Ef.
  inversion H; subst s' res tags; clear H.
  pose proof (TcpRecvDispatch.dispatch_finish_spec _ _ _ _ _ _ _ Ef) as (F4r & F4s & F4).
  destruct F4 as [F4 | (La & Lw)].
  { apply Hsame. exact (rxv_eq_trans _ _ _ F4 F123). }
  (* an ACK went out: the segment carries RCV.NXT and the scaled window of the state at build time *)
  unfold tcp_dispatch_build in H3.
  apply obind_ok_inv in H3. destruct H3 as ((((sb & ob) & zb) & tb) & Hb & H3).
  set (ts := if s_tsval_generator s2 then Some (cx_tsval cx, s_last_remote_tsval s2) else None) in *.
  set (repr0 := mkRepr (tu_local_port t) (tu_remote_port t) CNone (s_remote_last_seq s2)
                       (Some (tcp_window_start s2)) (tcp_scaled_window s2) None None false no_sack ts []) in *.
  assert (Hs3 : s3 = sb) by (destruct ob; [apply obind_ok_inv in H3; destruct H3 as (? & _ & H3)|]; inversion H3; reflexivity).
  subst sb.
  assert (Est2 : s_state s2 = Established).
  { destruct (s_state s2) eqn:E2; try reflexivity; exfalso.
    all: try (inversion Hb; subst s3; rewrite E2 in F4s; congruence).
    - destruct (s_syn_unacked_in_fin_wait s2); [inversion Hb; subst s3; rewrite E2 in F4s; congruence|].
      pose proof (TcpRecvDispatch.build_data_spec _ _ _ _ _ _ _ Hb eq_refl) as ((_ & Hs) & _). congruence.
    - pose proof (TcpRecvDispatch.build_data_spec _ _ _ _ _ _ _ Hb eq_refl) as ((_ & Hs) & _). congruence.
    - pose proof (TcpRecvDispatch.build_data_spec _ _ _ _ _ _ _ Hb eq_refl) as ((_ & Hs) & _). congruence.
    - pose proof (TcpRecvDispatch.build_data_spec _ _ _ _ _ _ _ Hb eq_refl) as ((_ & Hs) & _). congruence. }
  rewrite Est2 in Hb.
  destruct (TcpRecvDispatch.build_data_spec _ _ _ _ _ _ _ Hb eq_refl) as (_ & repr1 & -> & Hns & _ & Hak & Hw).
  assert (Hrepr : r_window_len repr = tcp_scaled_window s2 /\ r_ack_number repr = Some (tcp_window_start s2) /\
                  control_eqb (r_control repr) CSyn = false).
  { cbv beta iota zeta in H3.
    repeat match type of H3 with context [if ?c then _ else _] => destruct c eqn:? end;
      first [ apply obind_ok_inv in H3; destruct H3 as (rr & Hrr & H3);
              apply obind_ok_inv in Hrr; destruct Hrr as (m & _ & Hrr); inversion Hrr; subst rr; clear Hrr
            | cbn [obind] in H3 ];
      match type of H3 with Ok (_, Some ?a, _, _, _) = _ =>
        assert (Er : repr = a) by (inversion H3; reflexivity) end; rewrite Er;
      cbn [repr_set_seq repr_set_payload r_window_len r_ack_number r_control];
      (split; [exact Hw|]; split; [exact Hak|]); try assumption;
      destruct (r_control repr1); try reflexivity; congruence. }
  destruct Hrepr as (Rw & Ra & Rc). rewrite Rc, Rw in Lw. rewrite Ra in La.
  pose proof (rxv_eq_trans _ _ _ F3 (rxv_eq_refl s2)) as F32.
  assert (Ews : tcp_window_start s4 = tcp_window_start s2).
  { destruct F4r as (_ & E2 & _ & E4 & _). unfold tcp_window_start. rewrite E2, E4.
    exact (rxv_eq_window_start _ _ F32). }
  assert (Esw : tcp_scaled_window s4 = tcp_scaled_window s2).
  { destruct F4r as (_ & E2 & _ & _ & E5). unfold tcp_scaled_window. rewrite E2, E5.
    exact (scaled_window_rxv _ _ F32). }
  split; [rewrite Ews; exact (rxv_eq_window_start _ _ F12)|].
  right. split; [rewrite La, Ews; reflexivity | rewrite Lw, Esw; reflexivity].
Qed.

(* ---------------------------------------------------------------------------------------- *)
(* a fresh advertisement of a non-zero window is an open window                              *)
(* ---------------------------------------------------------------------------------------- *)
Definition adv_open' (s : socket) : Prop :=
  exists W, 0 < W <= TcpRecvWindow.p30 /\ tcp_window_end s = seq_norm (tcp_window_start s + W).

Theorem fresh_open s :
  fresh_adv s -> 0 < tcp_scaled_window s -> 0 <= s_remote_win_shift s ->
  shl (s_remote_last_win s) (s_remote_win_shift s) <= rb_cap (s_rx_buffer s) ->
  rb_cap (s_rx_buffer s) <= 2 ^ 30 ->
  adv_open' s.
Proof.
  intros (Hla & Hlw) Hpos Hsh Hlwb Hcap.
  set (L := shl (s_remote_last_win s) (s_remote_win_shift s)) in *.
  assert (HL : 0 < L).
  { unfold L, shl. rewrite Hlw. assert (0 < 2 ^ s_remote_win_shift s) by (apply Z.pow_pos_nonneg; lia). nia. }
  exists L. change (2 ^ 30) with 1073741824 in Hcap. unfold TcpRecvWindow.p30. split; [lia|].
  unfold tcp_window_end. rewrite Hla. fold L.
  pose proof (window_start_range s) as Hr.
  set (ws := tcp_window_start s) in *.
  assert (Ews : ws = sq (ws + 0)) by (apply u32_sq_self; unfold u32; change (2 ^ 32) with 4294967296; lia).
  rewrite seq_add_raw. unfold seq_max.
  rewrite Ews at 2. rewrite seq_gt_sq by (change (2 ^ 31) with 2147483648; lia).
  destruct (Z.gtb_spec L 0); [reflexivity | lia].
Qed.

(* ---------------------------------------------------------------------------------------- *)
(* the advertised window is closed but the buffer has room: a window update is due            *)
(* ---------------------------------------------------------------------------------------- *)
Theorem wtu_when_closed s :
  s_state s = Established -> s_syn_unacked_in_fin_wait s = false ->
  s_remote_last_ack s <> None -> tcp_window_end s = tcp_window_start s ->
  0 < tcp_scaled_window s ->
  tcp_window_to_update s = Ok true.
Proof.
  intros Hst Hfw Hla Hwe Hpos. unfold tcp_window_to_update. rewrite Hfw, Hst.
  unfold tcp_last_scaled_window.
  destruct (s_remote_last_ack s) as [la|] eqn:Ela; [|congruence].
  unfold tcp_window_end in Hwe. rewrite Ela in Hwe.
  fold (tcp_window_start s).
  set (lwe := seq_add la (shl (s_remote_last_win s) (s_remote_win_shift s))) in *.
  set (ws := tcp_window_start s) in *.
  assert (Hz : match (if seq_lt lwe ws then Ok (Some 0)
                      else do a <- seq_sub lwe ws; Ok (Some (u16_try (shr a (s_remote_win_shift s))))) with
               | Ok (Some 0) => True | _ => False end).
  { unfold seq_max in Hwe. unfold seq_lt, seq_gt, seq_sub in *.
    destruct (Z.ltb_spec (seq_sdiff lwe ws) 0) as [Hlt | Hge]; [exact I|].
    destruct (Z.gtb_spec (seq_sdiff lwe ws) 0) as [Hgt | Hle].
    - exfalso. rewrite Hwe in Hgt.
      replace (seq_sdiff ws ws) with 0 in Hgt by (unfold seq_sdiff, seq_modulus, seq_half; rewrite Z.sub_diag; reflexivity). lia.
    - assert (E0 : seq_sdiff lwe ws = 0) by lia. rewrite E0. cbn [obind].
      unfold shr. rewrite Zdiv_0_l.
      cbn. exact I. }
  destruct (if seq_lt lwe ws then Ok (Some 0)
            else do a <- seq_sub lwe ws; Ok (Some (u16_try (shr a (s_remote_win_shift s))))) as [[[| |]|]|e|];
    try contradiction.
  cbn [obind].
  destruct (Z.gtb_spec (tcp_scaled_window s) 0) as [_ | X]; [|lia].
  assert (0 <= tcp_scaled_window s / 2) by (apply Z.div_pos; lia).
  destruct (Z.geb_spec (tcp_scaled_window s / 2) 0); [reflexivity | lia].
Qed.
