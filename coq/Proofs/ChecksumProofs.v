(* Lemmas for property C08 (Internet checksum).  Spec side first (RFC 1071), then the proofs
   that Model/Checksum.v implements it, then fill/verify and corruption-detection lemmas. *)
From Coq Require Import Permutation.
From SV Require Import Lib.Base Gen.WireFields Model.Checksum.

(* ------------------------------------------------------------------------------------- *)
(* Specification: RFC 1071                                                                *)
(* ------------------------------------------------------------------------------------- *)

(* "Adjacent octets to be checksummed are paired to form 16-bit integers" (network order;
   an odd trailing octet is padded with a zero octet on the right). *)
Fixpoint be_words (l : list Z) : list Z :=
  match l with
  | [] => []
  | [b] => [b * 256]
  | b0 :: b1 :: r => (b0 * 256 + b1) :: be_words r
  end.

(* 1's complement addition of two 16-bit integers: end-around carry *)
Definition oc_add (a b : Z) : Z :=
  let s := a + b in if s <? 65536 then s else s - 65536 + 1.

(* "the 1's complement sum of these 16-bit integers is formed" *)
Definition rfc1071_sum (l : list Z) : Z := fold_left oc_add (be_words l) 0.

(* closed form used in the proofs: 0 for 0, otherwise the representative of n modulo 65535
   in 1..65535 *)
Definition norm (n : Z) : Z := if n =? 0 then 0 else (n - 1) mod 65535 + 1.

(* plain integer sum of the big-endian words *)
Fixpoint besum (l : list Z) : Z :=
  match l with
  | [] => 0
  | [b] => b * 256
  | b0 :: b1 :: r => b0 * 256 + b1 + besum r
  end.

Definition bytes (l : list Z) : Prop := Forall (fun b => 0 <= b < 256) l.
Definition words16 (l : list Z) : Prop := Forall (fun w => 0 <= w <= 65535) l.

(* induction two elements at a time *)
Lemma list_ind2 : forall (P : list Z -> Prop),
  P [] -> (forall b, P [b]) -> (forall b0 b1 r, P r -> P (b0 :: b1 :: r)) -> forall l, P l.
Proof.
  intros P H0 H1 H2.
  assert (H : forall l, P l /\ forall b, P (b :: l)).
  { induction l as [|a l [IH1 IH2]]; split; auto. }
  intro l. apply H.
Qed.

Lemma bytes_cons : forall b l, bytes (b :: l) <-> 0 <= b < 256 /\ bytes l.
Proof. intros. unfold bytes. split; intro H; [inversion H; auto | constructor; tauto]. Qed.

Lemma bytes_app : forall a b, bytes (a ++ b) <-> bytes a /\ bytes b.
Proof. intros. unfold bytes. apply Forall_app. Qed.

Lemma bytes_firstn : forall n l, bytes l -> bytes (firstn n l).
Proof.
  intros n l H. rewrite <- (firstn_skipn n l) in H. apply bytes_app in H. tauto.
Qed.

Lemma bytes_skipn : forall n l, bytes l -> bytes (skipn n l).
Proof.
  intros n l H. rewrite <- (firstn_skipn n l) in H. apply bytes_app in H. tauto.
Qed.

(* ------------------------------------------------------------------------------------- *)
(* norm / oc_add arithmetic                                                               *)
(* ------------------------------------------------------------------------------------- *)

Lemma norm_range : forall n, 0 <= n -> 0 <= norm n <= 65535.
Proof. intros. unfold norm. destruct (n =? 0) eqn:E; lia. Qed.

Lemma norm_zero_iff : forall n, 0 <= n -> (norm n = 0 <-> n = 0).
Proof. intros. unfold norm. destruct (n =? 0) eqn:E; lia. Qed.

Lemma norm_mod : forall n, 0 <= n -> norm n mod 65535 = n mod 65535.
Proof. intros. unfold norm. destruct (n =? 0) eqn:E; lia. Qed.

Lemma norm_small : forall n, 0 <= n <= 65535 -> norm n = n.
Proof. intros. unfold norm. destruct (n =? 0) eqn:E; lia. Qed.

(* characterisation: the unique value in 0..65535 congruent to n that is 0 exactly when n is *)
Lemma norm_unique : forall n z, 0 <= n -> 0 <= z <= 65535 ->
  z mod 65535 = n mod 65535 -> (z = 0 <-> n = 0) -> z = norm n.
Proof. intros n z Hn Hz Hm H0. unfold norm. destruct (n =? 0) eqn:E; lia. Qed.

Lemma norm_add_l : forall a b, 0 <= a -> 0 <= b -> norm (norm a + b) = norm (a + b).
Proof.
  intros a b Ha Hb. apply norm_unique.
  - lia.
  - apply norm_range. pose proof (norm_range a Ha). lia.
  - pose proof (norm_range a Ha). pose proof (norm_mod a Ha).
    rewrite norm_mod by lia. lia.
  - pose proof (norm_range a Ha). pose proof (norm_zero_iff a Ha).
    rewrite norm_zero_iff by lia. lia.
Qed.

Lemma norm_add_r : forall a b, 0 <= a -> 0 <= b -> norm (a + norm b) = norm (a + b).
Proof. intros. rewrite (Z.add_comm a), norm_add_l, (Z.add_comm b) by lia. reflexivity. Qed.

Lemma norm_idem : forall a, 0 <= a -> norm (norm a) = norm a.
Proof. intros. apply norm_small. apply norm_range; lia. Qed.

Lemma oc_add_norm : forall a b, 0 <= a <= 65535 -> 0 <= b <= 65535 -> oc_add a b = norm (a + b).
Proof.
  intros. unfold oc_add, norm. cbv zeta.
  destruct (a + b <? 65536) eqn:E1; destruct (a + b =? 0) eqn:E2; lia.
Qed.

Lemma besum_nonneg : forall l, bytes l -> 0 <= besum l.
Proof.
  induction l using list_ind2; intros Hb; cbn [besum].
  - lia.
  - apply bytes_cons in Hb. lia.
  - apply bytes_cons in Hb. destruct Hb as [? Hb]. apply bytes_cons in Hb. destruct Hb as [? Hb].
    specialize (IHl Hb). lia.
Qed.

Lemma be_words_range : forall l, bytes l -> words16 (be_words l).
Proof.
  unfold words16. induction l using list_ind2; intros Hb; cbn [be_words].
  - constructor.
  - apply bytes_cons in Hb. constructor; [lia | constructor].
  - apply bytes_cons in Hb. destruct Hb as [? Hb]. apply bytes_cons in Hb. destruct Hb as [? Hb].
    constructor; [lia | auto].
Qed.

Lemma besum_be_words : forall l, besum l = fold_right Z.add 0 (be_words l).
Proof.
  induction l using list_ind2; cbn [besum be_words fold_right]; lia.
Qed.

Lemma fold_oc_add_norm : forall ws a, words16 ws -> 0 <= a <= 65535 ->
  fold_left oc_add ws a = norm (a + fold_right Z.add 0 ws).
Proof.
  induction ws as [|w ws IH]; intros a Hw Ha; cbn [fold_left fold_right].
  - rewrite Z.add_0_r, norm_small; lia.
  - inversion Hw as [|? ? Hw1 Hw2]; subst.
    assert (Hs : 0 <= fold_right Z.add 0 ws).
    { clear - Hw2. induction Hw2; cbn [fold_right]; lia. }
    rewrite IH; auto.
    + rewrite oc_add_norm by lia. rewrite norm_add_l by lia. f_equal. lia.
    + rewrite oc_add_norm by lia. apply norm_range. lia.
Qed.

(* the RFC's word-by-word one's-complement sum has the closed form norm (sum of the words) *)
Lemma rfc1071_sum_norm : forall l, bytes l -> rfc1071_sum l = norm (besum l).
Proof.
  intros l Hb. unfold rfc1071_sum.
  rewrite fold_oc_add_norm by (auto using be_words_range || lia).
  rewrite besum_be_words. reflexivity.
Qed.

Lemma rfc1071_sum_range : forall l, bytes l -> 0 <= rfc1071_sum l <= 65535.
Proof. intros. rewrite rfc1071_sum_norm by auto. apply norm_range, besum_nonneg; auto. Qed.

(* ------------------------------------------------------------------------------------- *)
(* propagate_carries                                                                      *)
(* ------------------------------------------------------------------------------------- *)

Lemma shiftr16 : forall w, Z.shiftr w 16 = w / 65536.
Proof. intros. rewrite Z.shiftr_div_pow2 by lia. reflexivity. Qed.

Lemma land_ffff : forall w, Z.land w 65535 = w mod 65536.
Proof. intros. change 65535 with (Z.ones 16). rewrite Z.land_ones by lia. reflexivity. Qed.

Lemma propagate_carries_eq : forall w, 0 <= w <= cksum_u32_MAX ->
  cksum_propagate_carries w = norm w.
Proof.
  intros w Hw. unfold cksum_propagate_carries, cksum_u32_MAX in *. cbv zeta.
  rewrite !shiftr16, land_ffff. unfold norm. destruct (w =? 0) eqn:E; lia.
Qed.

(* the two intermediate additions stay inside their types: the u32 `sum` and the final u16 + u16 *)
Lemma propagate_carries_no_overflow : forall w, 0 <= w <= cksum_u32_MAX ->
  let sum := Z.shiftr w 16 + Z.land w 65535 in
  0 <= sum <= 131070 /\
  0 <= (Z.shiftr sum 16) mod 65536 + sum mod 65536 <= 65535 /\
  0 <= cksum_propagate_carries w <= 65535 /\
  cksum_propagate_carries w mod 65535 = w mod 65535 /\
  (cksum_propagate_carries w = 0 <-> w = 0).
Proof.
  intros w Hw. cbv zeta.
  pose proof (propagate_carries_eq w Hw) as E.
  unfold cksum_propagate_carries in *. cbv zeta in *. unfold cksum_u32_MAX in *.
  rewrite !shiftr16, land_ffff in *.
  split; [lia|]. split; [lia|]. split; [lia|].
  rewrite E. split; [apply norm_mod; lia | apply norm_zero_iff; lia].
Qed.

(* ------------------------------------------------------------------------------------- *)
(* data = RFC 1071                                                                        *)
(* ------------------------------------------------------------------------------------- *)

(* plain sum of the native-endian words, paired two at a time (odd tail padded with 0) *)
Fixpoint nesum (be : bool) (l : list Z) : Z :=
  match l with
  | [] => 0
  | [b] => cksum_u16_from_ne_bytes be b 0
  | b0 :: b1 :: r => cksum_u16_from_ne_bytes be b0 b1 + nesum be r
  end.

(* chunking independence: 4-byte chunks + 2-byte tail + odd byte add up to the pairwise sum *)
Lemma chunks_spec : forall be n l acc, (length l <= n)%nat ->
  fst (cksum_chunks be l acc) + nesum be (snd (cksum_chunks be l acc)) = acc + nesum be l /\
  (length (snd (cksum_chunks be l acc)) < 4)%nat.
Proof.
  induction n as [|n IH]; intros l acc Hl.
  - destruct l; [|cbn in Hl; lia]. cbn. split; lia.
  - destruct l as [|b0 [|b1 [|b2 [|b3 rest]]]]; try (cbn; split; lia).
    cbn [cksum_chunks].
    assert (Hr : (length rest <= n)%nat) by (cbn in Hl; lia).
    destruct (IH rest (acc + cksum_u16_from_ne_bytes be b0 b1 + cksum_u16_from_ne_bytes be b2 b3) Hr) as [E L].
    split; [|exact L]. rewrite E. cbn [nesum]. lia.
Qed.

Lemma accum_nesum : forall be l, cksum_accum be l = nesum be l.
Proof.
  intros be l. unfold cksum_accum.
  destruct (chunks_spec be (length l) l 0 (le_n _)) as [E L].
  destruct (cksum_chunks be l 0) as [acc rem]. cbn [fst snd] in *.
  destruct rem as [|r0 [|r1 [|r2 [|r3 rem]]]]; cbn [nesum length] in *; try lia.
Qed.

Lemma nesum_be : forall l, nesum true l = besum l.
Proof. induction l using list_ind2; cbn [nesum besum cksum_u16_from_ne_bytes]; lia. Qed.

(* little-endian words: byte swap = multiplication by 256 modulo 65535 *)
Lemma nesum_le : forall l, bytes l ->
  nesum false l mod 65535 = (256 * besum l) mod 65535 /\
  0 <= nesum false l <= 256 * besum l /\ besum l <= 256 * nesum false l.
Proof.
  induction l using list_ind2; intros Hb; cbn [nesum besum cksum_u16_from_ne_bytes].
  - lia.
  - apply bytes_cons in Hb. lia.
  - apply bytes_cons in Hb. destruct Hb as [? Hb]. apply bytes_cons in Hb. destruct Hb as [? Hb].
    specialize (IHl Hb). lia.
Qed.

Lemma swap_bytes_mod : forall y, 0 <= y <= 65535 ->
  let z := (y mod 256) * 256 + y / 256 in
  0 <= z <= 65535 /\ z mod 65535 = (256 * y) mod 65535 /\ (z = 0 <-> y = 0).
Proof. intros. cbv zeta. lia. Qed.

Lemma nesum_bound : forall be l, bytes l -> 0 <= nesum be l <= 65535 * ((Z.of_nat (length l) + 1) / 2).
Proof.
  intros be. induction l using list_ind2; intros Hb.
  - cbn. lia.
  - apply bytes_cons in Hb. destruct be; cbn [nesum length cksum_u16_from_ne_bytes]; lia.
  - apply bytes_cons in Hb. destruct Hb as [? Hb]. apply bytes_cons in Hb. destruct Hb as [? Hb].
    specialize (IHl Hb). revert IHl.
    destruct be; cbn [nesum length cksum_u16_from_ne_bytes]; rewrite !Nat2Z.inj_succ; lia.
Qed.

(* 131074 = 2 * 65537 bytes: 65537 words of at most 65535 never exceed u32::MAX = 65537 * 65535 *)
Definition cksum_max_len : Z := 131074.

Lemma accum_no_overflow : forall be l, bytes l -> Z.of_nat (length l) <= cksum_max_len ->
  0 <= cksum_accum be l <= cksum_u32_MAX.
Proof.
  intros be l Hb Hl. rewrite accum_nesum. pose proof (nesum_bound be l Hb).
  unfold cksum_max_len, cksum_u32_MAX in *. lia.
Qed.

Lemma data_value : forall be l, bytes l -> 0 <= nesum be l <= cksum_u32_MAX ->
  cksum_u16_to_be be (cksum_propagate_carries (nesum be l)) = norm (besum l).
Proof.
  intros be l Hb Hr. rewrite propagate_carries_eq by exact Hr.
  pose proof (besum_nonneg l Hb) as Hs.
  destruct be; cbn [cksum_u16_to_be].
  - rewrite nesum_be. reflexivity.
  - destruct (nesum_le l Hb) as [Hm [Hle1 Hle2]].
    set (A := nesum false l) in *. set (S := besum l) in *.
    assert (HA : 0 <= A) by lia.
    pose proof (norm_range A HA) as Hy. pose proof (norm_mod A HA) as Hym.
    pose proof (norm_zero_iff A HA) as Hy0.
    set (y := norm A) in *.
    destruct (swap_bytes_mod y Hy) as [Hz [Hzm Hz0]].
    apply norm_unique; [lia | exact Hz | | lia].
    rewrite Hzm. clear - Hym Hm. lia.
Qed.

(* data_eq_rfc1071 *)
Lemma data_eq_rfc1071 : forall dbg be l, bytes l -> Z.of_nat (length l) <= cksum_max_len ->
  cksum_data dbg be l = Ok (rfc1071_sum l).
Proof.
  intros dbg be l Hb Hl. unfold cksum_data.
  pose proof (accum_no_overflow be l Hb Hl) as Hr.
  destruct (cksum_accum be l <=? cksum_u32_MAX) eqn:E; [|lia].
  rewrite accum_nesum in *. rewrite data_value by auto.
  rewrite rfc1071_sum_norm by auto. reflexivity.
Qed.

(* beyond the bound the code is still right as long as the accumulator happens not to overflow;
   when it does, debug builds panic and release builds return the folded *wrapped* accumulator *)
Lemma data_beyond_bound : forall dbg be l, bytes l ->
  cksum_data dbg be l =
    if cksum_accum be l <=? cksum_u32_MAX then Ok (rfc1071_sum l)
    else if dbg then Panic
    else Ok (cksum_u16_to_be be (cksum_propagate_carries (cksum_accum be l mod 4294967296))).
Proof.
  intros dbg be l Hb. unfold cksum_data.
  destruct (cksum_accum be l <=? cksum_u32_MAX) eqn:E; [|reflexivity].
  rewrite accum_nesum in *. pose proof (nesum_bound be l Hb).
  apply Z.leb_le in E. rewrite data_value by (try assumption; lia). rewrite rfc1071_sum_norm by auto. reflexivity.
Qed.

(* ------------------------------------------------------------------------------------- *)
(* combine                                                                                *)
(* ------------------------------------------------------------------------------------- *)

Definition wsum (ws : list Z) : Z := fold_right Z.add 0 ws.

Lemma fold_left_add : forall ws a, fold_left Z.add ws a = a + wsum ws.
Proof.
  induction ws as [|w ws IH]; intros a; cbn [fold_left wsum fold_right].
  - lia.
  - rewrite IH. unfold wsum. lia.
Qed.

Lemma wsum_app : forall a b, wsum (a ++ b) = wsum a + wsum b.
Proof.
  unfold wsum. induction a as [|x a IH]; intros b; cbn [app fold_right].
  - lia.
  - rewrite IH. lia.
Qed.

Lemma wsum_bound : forall ws, words16 ws -> 0 <= wsum ws <= 65535 * Z.of_nat (length ws).
Proof.
  induction 1 as [|w ws Hw _ IH]; cbn [wsum fold_right length] in *; [lia|].
  rewrite Nat2Z.inj_succ. unfold wsum in IH. lia.
Qed.

(* at most 65537 words: the u32 accumulator of `combine` cannot overflow *)
Lemma combine_eq : forall ws, words16 ws -> Z.of_nat (length ws) <= 65537 ->
  cksum_combine ws = norm (wsum ws).
Proof.
  intros ws Hw Hl. unfold cksum_combine. rewrite fold_left_add, Z.add_0_l.
  pose proof (wsum_bound ws Hw). apply propagate_carries_eq. unfold cksum_u32_MAX. lia.
Qed.

Lemma combine_range : forall ws, words16 ws -> Z.of_nat (length ws) <= 65537 ->
  0 <= cksum_combine ws <= 65535.
Proof. intros. rewrite combine_eq by auto. apply norm_range. pose proof (wsum_bound ws H). lia. Qed.

Lemma words16_app : forall a b, words16 (a ++ b) <-> words16 a /\ words16 b.
Proof. intros. unfold words16. apply Forall_app. Qed.

(* combine is the n-ary one's-complement addition: splitting the argument list anywhere and
   combining the partial results gives the same value (associativity in the folded domain) *)
Lemma combine_app : forall a b, words16 a -> words16 b ->
  Z.of_nat (length a) <= 65537 -> Z.of_nat (length b) <= 65537 ->
  Z.of_nat (length (a ++ b)) <= 65537 ->
  cksum_combine (a ++ b) = cksum_combine [cksum_combine a; cksum_combine b].
Proof.
  intros a b Ha Hb La Lb Lab.
  pose proof (wsum_bound a Ha). pose proof (wsum_bound b Hb).
  pose proof (combine_range a Ha La). pose proof (combine_range b Hb Lb).
  rewrite (combine_eq (a ++ b)) by (try apply words16_app; auto).
  rewrite (combine_eq [_; _]) by (cbn [length]; try lia; repeat constructor; lia).
  rewrite (combine_eq a), (combine_eq b) by auto.
  cbn [wsum fold_right]. rewrite Z.add_0_r, wsum_app.
  pose proof (norm_range (wsum a)). pose proof (norm_range (wsum b)).
  rewrite norm_add_l, norm_add_r by lia. reflexivity.
Qed.

Lemma combine_assoc : forall a b c, 0 <= a <= 65535 -> 0 <= b <= 65535 -> 0 <= c <= 65535 ->
  cksum_combine [cksum_combine [a; b]; c] = cksum_combine [a; cksum_combine [b; c]] /\
  cksum_combine [cksum_combine [a; b]; c] = cksum_combine [a; b; c].
Proof.
  intros a b c Ha Hb Hc.
  assert (Wab : words16 [a; b]) by (repeat constructor; lia).
  assert (Wbc : words16 [b; c]) by (repeat constructor; lia).
  pose proof (combine_range [a; b] Wab ltac:(cbn; lia)).
  pose proof (combine_range [b; c] Wbc ltac:(cbn; lia)).
  rewrite !(combine_eq [_; _]) in * by (cbn [length]; try lia; repeat constructor; lia).
  rewrite (combine_eq [_; _; _]) by (cbn [length]; try lia; repeat constructor; lia).
  cbn [wsum fold_right] in *. rewrite !Z.add_0_r in *.
  rewrite norm_add_l, norm_add_r by lia. split; f_equal; lia.
Qed.

Lemma wsum_perm : forall a b, Permutation a b -> wsum a = wsum b.
Proof. unfold wsum. induction 1; cbn [fold_right] in *; lia. Qed.

(* commutativity: any reordering of the words gives the same result *)
Lemma combine_perm : forall a b, Permutation a b -> cksum_combine a = cksum_combine b.
Proof.
  intros a b H. unfold cksum_combine. rewrite !fold_left_add, (wsum_perm a b H). reflexivity.
Qed.

Lemma combine_comm : forall a b, cksum_combine [a; b] = cksum_combine [b; a].
Proof. intros. apply combine_perm. constructor. Qed.

(* ------------------------------------------------------------------------------------- *)
(* besum: concatenation and point updates                                                 *)
(* ------------------------------------------------------------------------------------- *)

Lemma besum_app_even : forall l1 l2, Nat.even (length l1) = true ->
  besum (l1 ++ l2) = besum l1 + besum l2.
Proof.
  induction l1 using list_ind2; intros l2 He.
  - reflexivity.
  - discriminate.
  - cbn [length] in He. change (Nat.even (S (S (length l1)))) with (Nat.even (length l1)) in He.
    cbn [app besum]. rewrite IHl1 by exact He. lia.
Qed.

(* data of a concatenation (even split point) is the combination of the parts' checksums *)
Lemma combine_data_app : forall dbg be l1 l2 d1 d2, bytes l1 -> bytes l2 ->
  Nat.even (length l1) = true -> Z.of_nat (length (l1 ++ l2)) <= cksum_max_len ->
  cksum_data dbg be l1 = Ok d1 -> cksum_data dbg be l2 = Ok d2 ->
  cksum_data dbg be (l1 ++ l2) = Ok (cksum_combine [d1; d2]).
Proof.
  intros dbg be l1 l2 d1 d2 B1 B2 He Hl E1 E2.
  rewrite app_length in Hl.
  rewrite data_eq_rfc1071 in E1, E2 by (auto; lia). inversion E1; inversion E2; subst.
  rewrite data_eq_rfc1071 by (try apply bytes_app; try rewrite app_length; auto; lia).
  pose proof (besum_nonneg l1 B1). pose proof (besum_nonneg l2 B2).
  rewrite !rfc1071_sum_norm by (try apply bytes_app; auto).
  rewrite combine_eq.
  - unfold wsum. cbn [fold_right]. rewrite Z.add_0_r.
    pose proof (norm_range (besum l1)). pose proof (norm_range (besum l2)).
    rewrite norm_add_l by lia. rewrite norm_add_r by lia.
    rewrite besum_app_even by auto. reflexivity.
  - repeat constructor; apply norm_range; lia.
  - cbn [length]; lia.
Qed.

Definition weight (i : nat) : Z := if Nat.even i then 256 else 1.

Lemma upd_length : forall l i v, length (cksum_upd l i v) = length l.
Proof. induction l as [|h t IH]; intros [|i] v; cbn [cksum_upd length]; auto. Qed.

Lemma upd_nth_same : forall l i v d, (i < length l)%nat -> nth i (cksum_upd l i v) d = v.
Proof.
  induction l as [|h t IH]; intros [|i] v d Hl; cbn [cksum_upd nth length] in *; try lia.
  apply IH. lia.
Qed.

Lemma upd_nth_other : forall l i j v d, i <> j -> nth j (cksum_upd l i v) d = nth j l d.
Proof.
  induction l as [|h t IH]; intros [|i] [|j] v d Hn; cbn [cksum_upd nth]; auto; try lia.
Qed.

Lemma upd_firstn : forall l n i v, (i < n)%nat ->
  firstn n (cksum_upd l i v) = cksum_upd (firstn n l) i v.
Proof.
  induction l as [|h t IH]; intros [|n] [|i] v Hl; cbn [cksum_upd firstn]; try lia; auto.
  rewrite IH by lia. reflexivity.
Qed.

Lemma upd_firstn_out : forall l n i v, (n <= i)%nat ->
  firstn n (cksum_upd l i v) = firstn n l.
Proof.
  induction l as [|h t IH]; intros [|n] [|i] v Hl; cbn [cksum_upd firstn]; try lia; auto.
  rewrite IH by lia. reflexivity.
Qed.

Lemma upd_bytes : forall l i v, bytes l -> 0 <= v < 256 -> bytes (cksum_upd l i v).
Proof.
  induction l as [|h t IH]; intros [|i] v Hb Hv; cbn [cksum_upd]; auto;
    apply bytes_cons in Hb; apply bytes_cons; split; try tauto; try lia.
  apply IH; tauto.
Qed.

Lemma besum_upd : forall l i v, (i < length l)%nat ->
  besum (cksum_upd l i v) = besum l + (v - nth i l 0) * weight i.
Proof.
  induction l using list_ind2; intros i v Hl.
  - cbn in Hl. lia.
  - destruct i; [|cbn in Hl; lia]. cbn [cksum_upd besum nth weight Nat.even]. lia.
  - destruct i as [|[|i]].
    + cbn [cksum_upd besum nth weight Nat.even]. lia.
    + cbn [cksum_upd besum nth weight Nat.even]. lia.
    + cbn [cksum_upd besum nth]. rewrite IHl by (cbn [length] in Hl; lia).
      change (weight (S (S i))) with (weight i). lia.
Qed.

Lemma firstn_nth : forall (l : list Z) n i d, (i < n)%nat -> nth i (firstn n l) d = nth i l d.
Proof.
  induction l as [|h t IH]; intros [|n] [|i] d H; cbn [firstn nth]; try lia; auto.
  apply IH. lia.
Qed.

Lemma nth_bytes : forall l i, bytes l -> 0 <= nth i l 0 < 256.
Proof.
  intros l i Hb. destruct (Nat.lt_ge_cases i (length l)) as [H|H].
  - unfold bytes in Hb. rewrite Forall_forall in Hb. apply Hb. apply nth_In. exact H.
  - rewrite nth_overflow by exact H. lia.
Qed.

(* pure form of write_u16 / read_u16 at byte offset a *)
Definition w16 (l : list Z) (a : nat) (v : Z) : list Z :=
  cksum_upd (cksum_upd l a (v / 256)) (S a) (v mod 256).
Definition r16 (l : list Z) (a : nat) : Z := nth a l 0 * 256 + nth (S a) l 0.

Lemma w16_length : forall l a v, length (w16 l a v) = length l.
Proof. intros. unfold w16. rewrite !upd_length. reflexivity. Qed.

Lemma w16_bytes : forall l a v, bytes l -> 0 <= v <= 65535 -> bytes (w16 l a v).
Proof. intros. unfold w16. apply upd_bytes; [apply upd_bytes|]; auto; lia. Qed.

Lemma r16_w16 : forall l a v, (S a < length l)%nat -> 0 <= v <= 65535 -> r16 (w16 l a v) a = v.
Proof.
  intros. unfold r16, w16.
  rewrite (upd_nth_other _ (S a) a) by lia.
  rewrite upd_nth_same by lia. rewrite upd_nth_same by (rewrite upd_length; lia). lia.
Qed.

Lemma r16_w16_other : forall l a b v, (S a < b \/ S b < a)%nat -> r16 (w16 l a v) b = r16 l b.
Proof. intros. unfold r16, w16. rewrite !upd_nth_other by lia. reflexivity. Qed.

Lemma nth_w16_other : forall l a v j d, j <> a -> j <> S a -> nth j (w16 l a v) d = nth j l d.
Proof. intros. unfold w16. rewrite !upd_nth_other by lia. reflexivity. Qed.

Lemma w16_w16 : forall l a v v', w16 (w16 l a v) a v' = w16 l a v'.
Proof.
  intros l a. unfold w16.
  assert (E1 : forall l i v v', cksum_upd (cksum_upd l i v) i v' = cksum_upd l i v').
  { induction l0 as [|h t IH]; intros [|i] v v'; cbn [cksum_upd]; auto. rewrite IH. reflexivity. }
  assert (E2 : forall l i j v w, i <> j ->
             cksum_upd (cksum_upd l i v) j w = cksum_upd (cksum_upd l j w) i v).
  { induction l0 as [|h t IH]; intros [|i] [|j] v w Hn; cbn [cksum_upd]; auto; try lia.
    rewrite IH by lia. reflexivity. }
  intros v v'.
  rewrite (E2 (cksum_upd l a (v / 256)) (S a) a) by lia.
  rewrite !E1. reflexivity.
Qed.

Lemma firstn_w16 : forall l n a v, (S a < n)%nat -> firstn n (w16 l a v) = w16 (firstn n l) a v.
Proof. intros. unfold w16. rewrite !upd_firstn by lia. reflexivity. Qed.

Lemma firstn_w16_out : forall l n a v, (n <= a)%nat -> firstn n (w16 l a v) = firstn n l.
Proof. intros. unfold w16. rewrite !upd_firstn_out by lia. reflexivity. Qed.

(* writing a 16-bit big-endian value at an even offset changes the word sum by new - old *)
Lemma besum_w16 : forall l a v, Nat.even a = true -> (S a < length l)%nat -> 0 <= v <= 65535 ->
  besum (w16 l a v) = besum l - r16 l a + v.
Proof.
  intros l a v He Hl Hv. unfold w16, r16.
  rewrite besum_upd by (rewrite upd_length; lia).
  rewrite besum_upd by lia.
  rewrite (upd_nth_other _ a (S a)) by lia.
  unfold weight. rewrite Nat.even_succ, <- Nat.negb_even, He. cbn [negb]. lia.
Qed.

(* read/write in the outcome monad reduce to the pure forms when the field is inside the buffer *)
Lemma read_u16_ok : forall l a, 0 <= a -> a + 2 <= Z.of_nat (length l) ->
  cksum_read_u16 l (a, a + 2) = Ok (r16 l (Z.to_nat a)).
Proof.
  intros l a Ha Hl. unfold cksum_read_u16, r16. cbn [fst].
  set (n := Z.to_nat a). assert (Hn : (S n < length l)%nat) by lia. clearbody n. clear Ha Hl.
  revert l Hn. induction n as [|n IH]; intros l Hn.
  - destruct l as [|b0 [|b1 t]]; cbn [length] in Hn; try lia. reflexivity.
  - destruct l as [|b0 t]; cbn [length] in Hn; try lia.
    cbn [skipn]. rewrite IH by lia. reflexivity.
Qed.

Lemma read_u16_panic : forall l a, 0 <= a -> Z.of_nat (length l) < a + 2 ->
  cksum_read_u16 l (a, a + 2) = Panic.
Proof.
  intros l a Ha Hl. unfold cksum_read_u16. cbn [fst].
  set (n := Z.to_nat a). assert (Hn : (length l < S (S n))%nat) by lia. clearbody n. clear Ha Hl.
  revert l Hn. induction n as [|n IH]; intros l Hn.
  - destruct l as [|b0 [|b1 t]]; cbn [length] in Hn; try lia; reflexivity.
  - destruct l as [|b0 t]; [reflexivity|]. cbn [length] in Hn. cbn [skipn]. apply IH. lia.
Qed.

Lemma write_u16_ok : forall l a v, a + 2 <= Z.of_nat (length l) ->
  cksum_write_u16 l (a, a + 2) v = Ok (w16 l (Z.to_nat a) v).
Proof.
  intros. unfold cksum_write_u16, w16. cbn [fst snd].
  destruct (a + 2 <=? Z.of_nat (length l)) eqn:E; [reflexivity | lia].
Qed.

Lemma slice_to_ok : forall l n, 0 <= n <= Z.of_nat (length l) ->
  cksum_slice_to l n = Ok (firstn (Z.to_nat n) l).
Proof.
  intros. unfold cksum_slice_to.
  destruct ((0 <=? n) && (n <=? Z.of_nat (length l))) eqn:E; [reflexivity | lia].
Qed.

(* ------------------------------------------------------------------------------------- *)
(* pseudo headers and the generic "pseudo-header word + region" checksum                  *)
(* ------------------------------------------------------------------------------------- *)

Lemma norm_ffff_iff : forall T, 0 <= T -> (norm T = 65535 <-> 0 < T /\ T mod 65535 = 0).
Proof. intros T HT. unfold norm. destruct (T =? 0) eqn:E; lia. Qed.

Lemma combine2_norm : forall P S, 0 <= P -> 0 <= S ->
  cksum_combine [norm P; norm S] = norm (P + S).
Proof.
  intros P S HP HS. pose proof (norm_range P HP). pose proof (norm_range S HS).
  rewrite combine_eq by (cbn [length]; try lia; repeat constructor; lia).
  unfold wsum. cbn [fold_right]. rewrite Z.add_0_r.
  rewrite norm_add_l by lia. rewrite norm_add_r by lia. reflexivity.
Qed.

Lemma combine3_norm : forall A B C, 0 <= A -> 0 <= B -> 0 <= C ->
  cksum_combine [norm A; norm B; norm C] = norm (A + B + C).
Proof.
  intros A B C HA HB HC.
  pose proof (norm_range A HA). pose proof (norm_range B HB). pose proof (norm_range C HC).
  rewrite combine_eq by (cbn [length]; try lia; repeat constructor; lia).
  unfold wsum. cbn [fold_right]. rewrite Z.add_0_r.
  rewrite norm_add_l by lia.
  replace (A + (norm B + norm C)) with (norm B + (A + norm C)) by lia.
  rewrite norm_add_l by lia.
  replace (B + (A + norm C)) with ((A + B) + norm C) by lia.
  rewrite norm_add_r by lia. reflexivity.
Qed.

Lemma proto_len_bytes : forall nh len, 0 <= nh < 256 -> bytes (cksum_proto_len nh len).
Proof. intros. unfold cksum_proto_len. repeat (apply bytes_cons; split; [lia|]). constructor. Qed.

Lemma proto_len_besum : forall nh len, besum (cksum_proto_len nh len) = nh + len mod 65536.
Proof. intros. unfold cksum_proto_len. cbn [besum]. lia. Qed.

(* integer sum of the big-endian words of the pseudo header src ++ dst ++ [0; proto; len_hi; len_lo] *)
Definition ph_sum (s d : list Z) (nh len : Z) : Z := besum s + besum d + (nh + len mod 65536).

Lemma ph_sum_nonneg : forall s d nh len, bytes s -> bytes d -> 0 <= nh -> 0 <= ph_sum s d nh len.
Proof.
  intros. unfold ph_sum. pose proof (besum_nonneg s). pose proof (besum_nonneg d). lia.
Qed.

Lemma pseudo_header_v4_eq : forall dbg be s d nh len, bytes s -> bytes d ->
  Z.of_nat (length s) <= cksum_max_len -> Z.of_nat (length d) <= cksum_max_len -> 0 <= nh < 256 ->
  cksum_pseudo_header_v4 dbg be s d nh len = Ok (norm (ph_sum s d nh len)).
Proof.
  intros dbg be s d nh len Bs Bd Ls Ld Hn. unfold cksum_pseudo_header_v4.
  pose proof (proto_len_bytes nh len Hn) as Bp.
  rewrite !data_eq_rfc1071 by (auto; cbn [cksum_proto_len length]; unfold cksum_max_len; lia).
  cbn [obind]. rewrite !rfc1071_sum_norm by auto.
  pose proof (besum_nonneg s Bs). pose proof (besum_nonneg d Bd). pose proof (besum_nonneg _ Bp).
  rewrite combine3_norm by lia. rewrite proto_len_besum. reflexivity.
Qed.

Lemma pseudo_header_v6_eq : forall dbg be s d nh len, bytes s -> bytes d ->
  Z.of_nat (length s) <= cksum_max_len -> Z.of_nat (length d) <= cksum_max_len -> 0 <= nh < 256 ->
  cksum_pseudo_header_v6 dbg be s d nh len = Ok (norm (ph_sum s d nh len)).
Proof. exact pseudo_header_v4_eq. Qed.

Definition addr_octets (a : cksum_ipaddr) : list Z :=
  match a with CkV4 o => o | CkV6 o => o end.

(* type invariant of wire::IpAddress: [u8; 4] or [u8; 16] *)
Definition addr_ok (a : cksum_ipaddr) : Prop :=
  bytes (addr_octets a) /\ length (addr_octets a) = (if cksum_is_v4 a then 4 else 16)%nat.

Definition same_family (a b : cksum_ipaddr) : Prop := cksum_is_v4 a = cksum_is_v4 b.

Lemma pseudo_header_eq : forall dbg be src dst nh len,
  addr_ok src -> addr_ok dst -> same_family src dst -> 0 <= nh < 256 ->
  cksum_pseudo_header dbg be src dst nh len =
    Ok (norm (ph_sum (addr_octets src) (addr_octets dst) nh len)).
Proof.
  intros dbg be src dst nh len [Bs Ls] [Bd Ld] Hf Hn. unfold same_family in Hf.
  destruct src as [s|s], dst as [d|d]; cbn [cksum_is_v4 addr_octets cksum_pseudo_header] in *;
    try discriminate.
  - apply pseudo_header_v4_eq; auto; unfold cksum_max_len; lia.
  - apply pseudo_header_v6_eq; auto; unfold cksum_max_len; lia.
Qed.

Lemma pseudo_header_mixed : forall dbg be src dst nh len, ~ same_family src dst ->
  cksum_pseudo_header dbg be src dst nh len = Panic.
Proof.
  intros dbg be src dst nh len Hf. unfold same_family in Hf.
  destruct src, dst; cbn [cksum_is_v4] in Hf; try congruence; reflexivity.
Qed.

(* the pseudo header word is the RFC 1071 sum of the pseudo-header bytes *)
Definition pseudo_bytes (src dst : cksum_ipaddr) (nh len : Z) : list Z :=
  addr_octets src ++ addr_octets dst ++ cksum_proto_len nh len.

Lemma addr_even : forall a, addr_ok a -> Nat.even (length (addr_octets a)) = true.
Proof. intros a [_ L]. rewrite L. destruct (cksum_is_v4 a); reflexivity. Qed.

Lemma pseudo_bytes_besum : forall src dst nh len, addr_ok src -> addr_ok dst ->
  besum (pseudo_bytes src dst nh len) = ph_sum (addr_octets src) (addr_octets dst) nh len.
Proof.
  intros. unfold pseudo_bytes, ph_sum.
  rewrite !besum_app_even by auto using addr_even. rewrite proto_len_besum. lia.
Qed.

Lemma pseudo_bytes_ok : forall src dst nh len, addr_ok src -> addr_ok dst -> 0 <= nh < 256 ->
  bytes (pseudo_bytes src dst nh len) /\ Nat.even (length (pseudo_bytes src dst nh len)) = true /\
  (length (pseudo_bytes src dst nh len) <= 36)%nat.
Proof.
  intros src dst nh len [Bs Ls] [Bd Ld] Hn. unfold pseudo_bytes. split; [|split].
  - apply bytes_app; split; auto. apply bytes_app; split; auto using proto_len_bytes.
  - rewrite !app_length, Ls, Ld. destruct (cksum_is_v4 src), (cksum_is_v4 dst); reflexivity.
  - rewrite !app_length, Ls, Ld. destruct (cksum_is_v4 src), (cksum_is_v4 dst); cbn; lia.
Qed.

Lemma pseudo_header_rfc : forall dbg be src dst nh len,
  addr_ok src -> addr_ok dst -> same_family src dst -> 0 <= nh < 256 ->
  cksum_pseudo_header dbg be src dst nh len = Ok (rfc1071_sum (pseudo_bytes src dst nh len)).
Proof.
  intros. rewrite pseudo_header_eq by auto.
  destruct (pseudo_bytes_ok src dst nh len) as [B _]; auto.
  rewrite rfc1071_sum_norm, pseudo_bytes_besum by auto. reflexivity.
Qed.

(* generic checksum test: pseudo-header sum P (0 when there is none) plus a byte region *)
Definition gen_verify (P : Z) (region : list Z) : bool := norm (P + besum region) =? 65535.

(* value written by fill_checksum: complement of the sum with the checksum field zeroed *)
Definition gen_cksum (P : Z) (region : list Z) (off : nat) : Z :=
  65535 - norm (P + besum (w16 region off 0)).

Lemma gen_verify_rfc : forall P pb region, bytes pb -> bytes region ->
  Nat.even (length pb) = true -> P = besum pb ->
  gen_verify P region = (rfc1071_sum (pb ++ region) =? 65535).
Proof.
  intros P pb region Bp Br He ->. unfold gen_verify.
  rewrite rfc1071_sum_norm by (apply bytes_app; auto).
  rewrite besum_app_even by auto. reflexivity.
Qed.

Lemma fill_core : forall T0, 0 <= T0 ->
  let c := 65535 - norm T0 in 0 <= c <= 65535 /\ norm (T0 + c) = 65535.
Proof.
  intros T0 H0. cbv zeta. pose proof (norm_range T0 H0).
  split; [lia|]. apply norm_ffff_iff; [lia|].
  unfold norm in *. destruct (T0 =? 0) eqn:E; lia.
Qed.

Lemma fill_core_udp : forall T0, 0 <= T0 ->
  let c := 65535 - norm T0 in
  let c' := if c =? 0 then 65535 else c in 1 <= c' <= 65535 /\ norm (T0 + c') = 65535.
Proof.
  intros T0 H0. cbv zeta. pose proof (norm_range T0 H0).
  destruct (65535 - norm T0 =? 0) eqn:Ec.
  - split; [lia|]. apply norm_ffff_iff; [lia|].
    unfold norm in *. destruct (T0 =? 0) eqn:E; lia.
  - split; [lia|]. apply (fill_core T0 H0).
Qed.

Lemma gen_cksum_range : forall P region off, 0 <= P -> bytes region ->
  0 <= gen_cksum P region off <= 65535.
Proof.
  intros. unfold gen_cksum.
  pose proof (besum_nonneg (w16 region off 0) (w16_bytes region off 0 H0 ltac:(lia))).
  pose proof (norm_range (P + besum (w16 region off 0))). lia.
Qed.

(* fill then verify, generic: the checksum field is 16-bit aligned inside the region *)
Lemma gen_fill_verify : forall P region off, 0 <= P -> bytes region ->
  Nat.even off = true -> (S off < length region)%nat ->
  gen_verify P (w16 region off (gen_cksum P region off)) = true.
Proof.
  intros P region off HP Br He Hl. unfold gen_verify.
  pose proof (gen_cksum_range P region off HP Br) as Hc.
  rewrite <- (w16_w16 region off 0).
  assert (B0 : bytes (w16 region off 0)) by (apply w16_bytes; auto; lia).
  rewrite besum_w16 by (rewrite ?w16_length; auto).
  rewrite r16_w16 by (auto; lia).
  pose proof (besum_nonneg _ B0).
  destruct (fill_core (P + besum (w16 region off 0)) ltac:(lia)) as [_ E].
  unfold gen_cksum. apply Z.eqb_eq. rewrite <- E. f_equal. lia.
Qed.

Lemma gen_fill_verify_udp : forall P region off, 0 <= P -> bytes region ->
  Nat.even off = true -> (S off < length region)%nat ->
  let c := gen_cksum P region off in
  let c' := if c =? 0 then 65535 else c in
  1 <= c' <= 65535 /\ gen_verify P (w16 region off c') = true.
Proof.
  intros P region off HP Br He Hl. cbv zeta. unfold gen_verify.
  assert (B0 : bytes (w16 region off 0)) by (apply w16_bytes; auto; lia).
  pose proof (besum_nonneg _ B0).
  pose proof (fill_core_udp (P + besum (w16 region off 0)) ltac:(lia)) as F.
  cbv zeta in F. fold (gen_cksum P region off) in F.
  set (c' := if gen_cksum P region off =? 0 then 65535 else gen_cksum P region off) in *.
  destruct F as [Hc E]. split; [exact Hc|].
  rewrite <- (w16_w16 region off 0).
  rewrite besum_w16 by (rewrite ?w16_length; auto; lia).
  rewrite r16_w16 by (auto; lia).
  apply Z.eqb_eq. rewrite <- E. f_equal. lia.
Qed.

(* ------------------------------------------------------------------------------------- *)
(* field layout facts (from Gen.WireFields: changing an offset in the source re-checks these) *)
(* ------------------------------------------------------------------------------------- *)

Definition field16_ok (f : Z * Z) : Prop :=
  0 <= fst f /\ snd f = fst f + 2 /\ Nat.even (Z.to_nat (fst f)) = true.

Lemma ipv4_field_ok : field16_ok wipv4_f_CHECKSUM /\ wipv4_f_VER_IHL = 0.
Proof. unfold field16_ok. vm_compute. intuition congruence. Qed.
Lemma icmpv4_field_ok : field16_ok wicmpv4_f_CHECKSUM.
Proof. unfold field16_ok. vm_compute. intuition congruence. Qed.
Lemma icmpv6_field_ok : field16_ok wicmpv6_f_CHECKSUM.
Proof. unfold field16_ok. vm_compute. intuition congruence. Qed.
Lemma tcp_field_ok : field16_ok wtcp_f_CHECKSUM.
Proof. unfold field16_ok. vm_compute. intuition congruence. Qed.
Lemma udp_field_ok : field16_ok wudp_f_CHECKSUM /\ field16_ok wudp_f_LENGTH /\
  snd wudp_f_LENGTH <= fst wudp_f_CHECKSUM.
Proof. unfold field16_ok. vm_compute. intuition congruence. Qed.

Definition foff (f : Z * Z) : nat := Z.to_nat (fst f).

Lemma write_u16_ok' : forall l f v, field16_ok f -> snd f <= Z.of_nat (length l) ->
  cksum_write_u16 l f v = Ok (w16 l (foff f) v).
Proof.
  intros l [a b] v [H0 [H1 _]] Hl. cbn [fst snd] in *. subst b. apply write_u16_ok. exact Hl.
Qed.

Lemma write_u16_panic : forall l f v, Z.of_nat (length l) < snd f -> cksum_write_u16 l f v = Panic.
Proof. intros. unfold cksum_write_u16. destruct (snd f <=? Z.of_nat (length l)) eqn:E; [lia | reflexivity]. Qed.

Lemma read_u16_ok' : forall l f, field16_ok f -> snd f <= Z.of_nat (length l) ->
  cksum_read_u16 l f = Ok (r16 l (foff f)).
Proof.
  intros l [a b] [H0 [H1 _]] Hl. cbn [fst snd] in *. subst b. apply read_u16_ok; lia.
Qed.

Lemma read_u16_panic' : forall l f, field16_ok f -> Z.of_nat (length l) < snd f ->
  cksum_read_u16 l f = Panic.
Proof.
  intros l [a b] [H0 [H1 _]] Hl. cbn [fst snd] in *. subst b. apply read_u16_panic; lia.
Qed.

Lemma foff_lt : forall f (l : list Z), field16_ok f -> snd f <= Z.of_nat (length l) ->
  (S (foff f) < length l)%nat.
Proof. intros [a b] l [H0 [H1 _]] Hl. unfold foff. cbn [fst snd] in *. lia. Qed.

Lemma r16_range : forall l a, bytes l -> 0 <= r16 l a <= 65535.
Proof. intros. unfold r16. pose proof (nth_bytes l a H). pose proof (nth_bytes l (S a) H). lia. Qed.

(* ------------------------------------------------------------------------------------- *)
(* TCP                                                                                    *)
(* ------------------------------------------------------------------------------------- *)

Definition tcp_P (src dst : cksum_ipaddr) (p : list Z) : Z :=
  ph_sum (addr_octets src) (addr_octets dst) cksum_PROTO_TCP (Z.of_nat (length p)).

Lemma ph_nonneg : forall src dst nh len, addr_ok src -> addr_ok dst -> 0 <= nh ->
  0 <= ph_sum (addr_octets src) (addr_octets dst) nh len.
Proof. intros src dst nh len [? _] [? _] ?. apply ph_sum_nonneg; auto. Qed.

Lemma tcp_verify_shape : forall dbg be src dst p, bytes p ->
  addr_ok src -> addr_ok dst -> same_family src dst ->
  Z.of_nat (length p) <= cksum_max_len ->
  cksum_tcp_verify dbg be src dst p = Ok (gen_verify (tcp_P src dst p) p).
Proof.
  intros dbg be src dst p Bp As Ad Hf Hl. unfold cksum_tcp_verify.
  rewrite pseudo_header_eq by (auto; unfold cksum_PROTO_TCP; lia). cbn [obind].
  rewrite data_eq_rfc1071 by auto. cbn [obind]. rewrite rfc1071_sum_norm by auto.
  rewrite combine2_norm by (try apply besum_nonneg; try apply ph_nonneg; auto; unfold cksum_PROTO_TCP; lia).
  reflexivity.
Qed.

Lemma tcp_fill_shape : forall dbg be src dst p, bytes p ->
  addr_ok src -> addr_ok dst -> same_family src dst ->
  snd wtcp_f_CHECKSUM <= Z.of_nat (length p) <= cksum_max_len ->
  cksum_tcp_fill dbg be src dst p =
    Ok (w16 p (foff wtcp_f_CHECKSUM) (gen_cksum (tcp_P src dst p) p (foff wtcp_f_CHECKSUM))).
Proof.
  intros dbg be src dst p Bp As Ad Hf Hl. unfold cksum_tcp_fill.
  pose proof tcp_field_ok as Fk.
  rewrite write_u16_ok' by (auto; lia). cbn [obind]. rewrite w16_length.
  rewrite pseudo_header_eq by (auto; unfold cksum_PROTO_TCP; lia). cbn [obind].
  assert (B0 : bytes (w16 p (foff wtcp_f_CHECKSUM) 0)) by (apply w16_bytes; auto; lia).
  rewrite data_eq_rfc1071 by (rewrite ?w16_length; auto; lia). cbn [obind].
  rewrite rfc1071_sum_norm by auto.
  rewrite combine2_norm by (try apply besum_nonneg; try apply ph_nonneg; auto; unfold cksum_PROTO_TCP; lia).
  rewrite write_u16_ok' by (rewrite ?w16_length; auto; lia).
  rewrite w16_w16. reflexivity.
Qed.

Lemma tcp_fill_then_verify : forall dbg be src dst p, bytes p ->
  addr_ok src -> addr_ok dst -> same_family src dst ->
  snd wtcp_f_CHECKSUM <= Z.of_nat (length p) <= cksum_max_len ->
  exists p', cksum_tcp_fill dbg be src dst p = Ok p' /\ length p' = length p /\ bytes p' /\
             cksum_tcp_verify dbg be src dst p' = Ok true.
Proof.
  intros dbg be src dst p Bp As Ad Hf Hl.
  pose proof tcp_field_ok as Fk.
  assert (HP : 0 <= tcp_P src dst p) by (apply ph_nonneg; auto; unfold cksum_PROTO_TCP; lia).
  eexists. split; [apply tcp_fill_shape; auto|].
  split; [apply w16_length|].
  assert (B' : bytes (w16 p (foff wtcp_f_CHECKSUM) (gen_cksum (tcp_P src dst p) p (foff wtcp_f_CHECKSUM)))).
  { apply w16_bytes; auto. apply gen_cksum_range; auto. }
  split; [exact B'|].
  rewrite tcp_verify_shape by (rewrite ?w16_length; auto; lia).
  unfold tcp_P. rewrite w16_length. fold (tcp_P src dst p).
  rewrite gen_fill_verify; [reflexivity | exact HP | exact Bp | apply Fk | apply foff_lt; auto; lia].
Qed.

(* ------------------------------------------------------------------------------------- *)
(* ICMPv6                                                                                 *)
(* ------------------------------------------------------------------------------------- *)

Definition v6_ok (o : list Z) : Prop := bytes o /\ length o = 16%nat.

Definition icmpv6_P (src dst p : list Z) : Z :=
  ph_sum src dst cksum_PROTO_ICMPV6 (Z.of_nat (length p)).

Lemma icmpv6_verify_shape : forall dbg be src dst p, bytes p -> v6_ok src -> v6_ok dst ->
  Z.of_nat (length p) <= cksum_max_len ->
  cksum_icmpv6_verify dbg be src dst p = Ok (gen_verify (icmpv6_P src dst p) p).
Proof.
  intros dbg be src dst p Bp [Bs Ls] [Bd Ld] Hl. unfold cksum_icmpv6_verify.
  rewrite pseudo_header_v6_eq by (auto; unfold cksum_PROTO_ICMPV6, cksum_max_len; lia). cbn [obind].
  rewrite data_eq_rfc1071 by auto. cbn [obind]. rewrite rfc1071_sum_norm by auto.
  rewrite combine2_norm by (try apply besum_nonneg; try apply ph_sum_nonneg; auto; unfold cksum_PROTO_ICMPV6; lia).
  reflexivity.
Qed.

Lemma icmpv6_fill_shape : forall dbg be src dst p, bytes p -> v6_ok src -> v6_ok dst ->
  snd wicmpv6_f_CHECKSUM <= Z.of_nat (length p) <= cksum_max_len ->
  cksum_icmpv6_fill dbg be src dst p =
    Ok (w16 p (foff wicmpv6_f_CHECKSUM) (gen_cksum (icmpv6_P src dst p) p (foff wicmpv6_f_CHECKSUM))).
Proof.
  intros dbg be src dst p Bp [Bs Ls] [Bd Ld] Hl. unfold cksum_icmpv6_fill.
  pose proof icmpv6_field_ok as Fk.
  rewrite write_u16_ok' by (auto; lia). cbn [obind]. rewrite w16_length.
  rewrite pseudo_header_v6_eq by (auto; unfold cksum_PROTO_ICMPV6, cksum_max_len; lia). cbn [obind].
  assert (B0 : bytes (w16 p (foff wicmpv6_f_CHECKSUM) 0)) by (apply w16_bytes; auto; lia).
  rewrite data_eq_rfc1071 by (rewrite ?w16_length; auto; lia). cbn [obind].
  rewrite rfc1071_sum_norm by auto.
  rewrite combine2_norm by (try apply besum_nonneg; try apply ph_sum_nonneg; auto; unfold cksum_PROTO_ICMPV6; lia).
  rewrite write_u16_ok' by (rewrite ?w16_length; auto; lia).
  rewrite w16_w16. reflexivity.
Qed.

Lemma icmpv6_fill_then_verify : forall dbg be src dst p, bytes p -> v6_ok src -> v6_ok dst ->
  snd wicmpv6_f_CHECKSUM <= Z.of_nat (length p) <= cksum_max_len ->
  exists p', cksum_icmpv6_fill dbg be src dst p = Ok p' /\ length p' = length p /\ bytes p' /\
             cksum_icmpv6_verify dbg be src dst p' = Ok true.
Proof.
  intros dbg be src dst p Bp As Ad Hl.
  pose proof icmpv6_field_ok as Fk.
  assert (HP : 0 <= icmpv6_P src dst p)
    by (destruct As, Ad; apply ph_sum_nonneg; auto; unfold cksum_PROTO_ICMPV6; lia).
  eexists. split; [apply icmpv6_fill_shape; auto|].
  split; [apply w16_length|].
  assert (B' : bytes (w16 p (foff wicmpv6_f_CHECKSUM)
                        (gen_cksum (icmpv6_P src dst p) p (foff wicmpv6_f_CHECKSUM)))).
  { apply w16_bytes; auto. apply gen_cksum_range; auto. }
  split; [exact B'|].
  rewrite icmpv6_verify_shape by (rewrite ?w16_length; auto; lia).
  unfold icmpv6_P. rewrite w16_length. fold (icmpv6_P src dst p).
  rewrite gen_fill_verify; [reflexivity | exact HP | exact Bp | apply Fk | apply foff_lt; auto; lia].
Qed.

(* ------------------------------------------------------------------------------------- *)
(* ICMPv4                                                                                 *)
(* ------------------------------------------------------------------------------------- *)

Lemma icmpv4_verify_shape : forall dbg be p, bytes p -> Z.of_nat (length p) <= cksum_max_len ->
  cksum_icmpv4_verify dbg be p = Ok (gen_verify 0 p).
Proof.
  intros dbg be p Bp Hl. unfold cksum_icmpv4_verify, gen_verify.
  rewrite data_eq_rfc1071 by auto. cbn [obind]. rewrite rfc1071_sum_norm by auto.
  rewrite Z.add_0_l. reflexivity.
Qed.

Lemma icmpv4_fill_shape : forall dbg be p, bytes p ->
  snd wicmpv4_f_CHECKSUM <= Z.of_nat (length p) <= cksum_max_len ->
  cksum_icmpv4_fill dbg be p =
    Ok (w16 p (foff wicmpv4_f_CHECKSUM) (gen_cksum 0 p (foff wicmpv4_f_CHECKSUM))).
Proof.
  intros dbg be p Bp Hl. unfold cksum_icmpv4_fill.
  pose proof icmpv4_field_ok as Fk.
  rewrite write_u16_ok' by (auto; lia). cbn [obind].
  assert (B0 : bytes (w16 p (foff wicmpv4_f_CHECKSUM) 0)) by (apply w16_bytes; auto; lia).
  rewrite data_eq_rfc1071 by (rewrite ?w16_length; auto; lia). cbn [obind].
  rewrite rfc1071_sum_norm by auto.
  rewrite write_u16_ok' by (rewrite ?w16_length; auto; lia).
  rewrite w16_w16. unfold gen_cksum, cksum_not16. rewrite Z.add_0_l. reflexivity.
Qed.

Lemma icmpv4_fill_then_verify : forall dbg be p, bytes p ->
  snd wicmpv4_f_CHECKSUM <= Z.of_nat (length p) <= cksum_max_len ->
  exists p', cksum_icmpv4_fill dbg be p = Ok p' /\ length p' = length p /\ bytes p' /\
             cksum_icmpv4_verify dbg be p' = Ok true.
Proof.
  intros dbg be p Bp Hl.
  pose proof icmpv4_field_ok as Fk.
  eexists. split; [apply icmpv4_fill_shape; auto|].
  split; [apply w16_length|].
  assert (B' : bytes (w16 p (foff wicmpv4_f_CHECKSUM) (gen_cksum 0 p (foff wicmpv4_f_CHECKSUM)))).
  { apply w16_bytes; auto. apply gen_cksum_range; auto. lia. }
  split; [exact B'|].
  rewrite icmpv4_verify_shape by (rewrite ?w16_length; auto; lia).
  rewrite gen_fill_verify; [reflexivity | lia | exact Bp | apply Fk | apply foff_lt; auto; lia].
Qed.

(* ------------------------------------------------------------------------------------- *)
(* IPv4 header                                                                            *)
(* ------------------------------------------------------------------------------------- *)

Definition ipv4_hl (p : list Z) : Z := Z.land (nth 0 p 0) 15 * 4.

Lemma ipv4_hl_range : forall p, 0 <= ipv4_hl p <= 60.
Proof.
  intros. unfold ipv4_hl. change 15 with (Z.ones 4). rewrite Z.land_ones by lia.
  change (2 ^ 4) with 16. lia.
Qed.

Lemma ipv4_header_len_ok : forall p, (0 < length p)%nat -> cksum_ipv4_header_len p = Ok (ipv4_hl p).
Proof.
  intros p Hl. unfold cksum_ipv4_header_len, ipv4_hl.
  destruct ipv4_field_ok as [_ ->]. destruct p as [|b t]; [cbn in Hl; lia|]. reflexivity.
Qed.

Lemma ipv4_header_len_panic : cksum_ipv4_header_len [] = Panic.
Proof. unfold cksum_ipv4_header_len. destruct ipv4_field_ok as [_ ->]. reflexivity. Qed.

Definition ipv4_region (p : list Z) : list Z := firstn (Z.to_nat (ipv4_hl p)) p.

Lemma ipv4_verify_shape : forall dbg be p, bytes p -> (0 < length p)%nat ->
  ipv4_hl p <= Z.of_nat (length p) ->
  cksum_ipv4_verify dbg be p = Ok (gen_verify 0 (ipv4_region p)).
Proof.
  intros dbg be p Bp H0 Hl. unfold cksum_ipv4_verify, gen_verify, ipv4_region.
  pose proof (ipv4_hl_range p) as Hr.
  rewrite ipv4_header_len_ok by auto. cbn [obind].
  rewrite slice_to_ok by lia. cbn [obind].
  rewrite data_eq_rfc1071
    by (auto using bytes_firstn; rewrite firstn_length; unfold cksum_max_len; lia).
  cbn [obind]. rewrite rfc1071_sum_norm by auto using bytes_firstn.
  rewrite Z.add_0_l. reflexivity.
Qed.

Lemma ipv4_hl_w16 : forall p v, ipv4_hl (w16 p (foff wipv4_f_CHECKSUM) v) = ipv4_hl p.
Proof.
  intros. unfold ipv4_hl. rewrite nth_w16_other; [reflexivity | |];
    destruct ipv4_field_ok as [_ _]; vm_compute; lia.
Qed.

Lemma ipv4_fill_shape : forall dbg be p, bytes p ->
  snd wipv4_f_CHECKSUM <= ipv4_hl p <= Z.of_nat (length p) ->
  cksum_ipv4_fill dbg be p =
    Ok (w16 p (foff wipv4_f_CHECKSUM) (gen_cksum 0 (ipv4_region p) (foff wipv4_f_CHECKSUM))).
Proof.
  intros dbg be p Bp Hl. unfold cksum_ipv4_fill.
  destruct ipv4_field_ok as [Fk _]. pose proof (ipv4_hl_range p) as Hr.
  assert (H0 : (0 < length p)%nat) by (destruct Fk as [? [? _]]; lia).
  rewrite write_u16_ok' by (auto; lia). cbn [obind].
  rewrite ipv4_header_len_ok by (rewrite w16_length; auto). cbn [obind].
  rewrite ipv4_hl_w16.
  rewrite slice_to_ok by (rewrite w16_length; lia). cbn [obind].
  assert (Hn : (S (foff wipv4_f_CHECKSUM) < Z.to_nat (ipv4_hl p))%nat)
    by (destruct Fk as [? [? _]]; unfold foff; lia).
  rewrite firstn_w16 by exact Hn. fold (ipv4_region p).
  assert (Br : bytes (ipv4_region p)) by (apply bytes_firstn; auto).
  assert (B0 : bytes (w16 (ipv4_region p) (foff wipv4_f_CHECKSUM) 0)) by (apply w16_bytes; auto; lia).
  rewrite data_eq_rfc1071
    by (auto; rewrite w16_length; unfold ipv4_region; rewrite firstn_length; unfold cksum_max_len; lia).
  cbn [obind]. rewrite rfc1071_sum_norm by auto.
  rewrite write_u16_ok' by (rewrite ?w16_length; auto; lia).
  rewrite w16_w16. unfold gen_cksum, cksum_not16. rewrite Z.add_0_l. reflexivity.
Qed.

Lemma ipv4_fill_then_verify : forall dbg be p, bytes p ->
  snd wipv4_f_CHECKSUM <= ipv4_hl p <= Z.of_nat (length p) ->
  exists p', cksum_ipv4_fill dbg be p = Ok p' /\ length p' = length p /\ bytes p' /\
             cksum_ipv4_verify dbg be p' = Ok true.
Proof.
  intros dbg be p Bp Hl.
  destruct ipv4_field_ok as [Fk _]. pose proof (ipv4_hl_range p) as Hr.
  assert (H0 : (0 < length p)%nat) by (destruct Fk as [? [? _]]; lia).
  assert (Hn : (S (foff wipv4_f_CHECKSUM) < Z.to_nat (ipv4_hl p))%nat)
    by (destruct Fk as [? [? _]]; unfold foff; lia).
  assert (Br : bytes (ipv4_region p)) by (apply bytes_firstn; auto).
  eexists. split; [apply ipv4_fill_shape; auto|].
  split; [apply w16_length|].
  match goal with |- bytes ?x /\ _ => assert (B' : bytes x) end.
  { apply w16_bytes; auto. apply gen_cksum_range; auto. lia. }
  split; [exact B'|].
  rewrite ipv4_verify_shape by (rewrite ?w16_length, ?ipv4_hl_w16; auto; lia).
  unfold ipv4_region at 1. rewrite ipv4_hl_w16, firstn_w16 by exact Hn. fold (ipv4_region p).
  rewrite gen_fill_verify; [reflexivity | lia | exact Br | apply Fk |].
  unfold ipv4_region. rewrite firstn_length. lia.
Qed.

(* ------------------------------------------------------------------------------------- *)
(* UDP                                                                                    *)
(* ------------------------------------------------------------------------------------- *)

Definition udp_len (p : list Z) : Z := r16 p (foff wudp_f_LENGTH).
Definition udp_ck (p : list Z) : Z := r16 p (foff wudp_f_CHECKSUM).
Definition udp_region (p : list Z) : list Z := firstn (Z.to_nat (udp_len p)) p.
Definition udp_P (src dst : cksum_ipaddr) (p : list Z) : Z :=
  ph_sum (addr_octets src) (addr_octets dst) cksum_PROTO_UDP (udp_len p).

Lemma udp_len_range : forall p, bytes p -> 0 <= udp_len p <= 65535.
Proof. intros. apply r16_range; auto. Qed.

Lemma udp_len_w16 : forall p v, udp_len (w16 p (foff wudp_f_CHECKSUM) v) = udp_len p.
Proof. intros. unfold udp_len. apply r16_w16_other. vm_compute. lia. Qed.

Lemma udp_verify_shape : forall dbg be src dst p, bytes p ->
  addr_ok src -> addr_ok dst -> same_family src dst ->
  snd wudp_f_CHECKSUM <= Z.of_nat (length p) -> udp_len p <= Z.of_nat (length p) ->
  cksum_udp_verify dbg be src dst p =
    Ok (if udp_ck p =? 0 then cksum_is_v4 src && cksum_is_v4 dst
        else gen_verify (udp_P src dst p) (udp_region p)).
Proof.
  intros dbg be src dst p Bp As Ad Hf Hl Hlen. unfold cksum_udp_verify, cksum_udp_checksum, cksum_udp_len.
  destruct udp_field_ok as [Fc [Fl Ho]]. pose proof (udp_len_range p Bp) as Hr.
  rewrite read_u16_ok' by auto. cbn [obind]. fold (udp_ck p).
  destruct (udp_ck p =? 0) eqn:Ec.
  - unfold same_family in Hf. destruct src, dst; cbn [cksum_is_v4] in *; try discriminate; reflexivity.
  - rewrite read_u16_ok' by (auto; destruct Fc as [? [? _]]; lia). cbn [obind]. fold (udp_len p).
    rewrite pseudo_header_eq by (auto; unfold cksum_PROTO_UDP; lia). cbn [obind].
    rewrite slice_to_ok by lia. cbn [obind]. fold (udp_region p).
    assert (Br : bytes (udp_region p)) by (apply bytes_firstn; auto).
    rewrite data_eq_rfc1071
      by (auto; unfold udp_region; rewrite firstn_length; unfold cksum_max_len; lia).
    cbn [obind]. rewrite rfc1071_sum_norm by auto.
    rewrite combine2_norm
      by (try apply besum_nonneg; try apply ph_nonneg; auto; unfold cksum_PROTO_UDP; lia).
    reflexivity.
Qed.

Definition udp_fill_value (src dst : cksum_ipaddr) (p : list Z) : Z :=
  let c := gen_cksum (udp_P src dst p) (udp_region p) (foff wudp_f_CHECKSUM) in
  if c =? 0 then 65535 else c.

Lemma udp_fill_shape : forall dbg be src dst p, bytes p ->
  addr_ok src -> addr_ok dst -> same_family src dst ->
  snd wudp_f_CHECKSUM <= udp_len p <= Z.of_nat (length p) ->
  cksum_udp_fill dbg be src dst p = Ok (w16 p (foff wudp_f_CHECKSUM) (udp_fill_value src dst p)).
Proof.
  intros dbg be src dst p Bp As Ad Hf Hl. unfold cksum_udp_fill, cksum_udp_len.
  destruct udp_field_ok as [Fc [Fl Ho]]. pose proof (udp_len_range p Bp) as Hr.
  rewrite write_u16_ok' by (auto; lia). cbn [obind].
  rewrite read_u16_ok' by (rewrite ?w16_length; auto; destruct Fc as [? [? _]]; lia). cbn [obind].
  fold (udp_len (w16 p (foff wudp_f_CHECKSUM) 0)). rewrite udp_len_w16.
  rewrite pseudo_header_eq by (auto; unfold cksum_PROTO_UDP; lia). cbn [obind].
  rewrite slice_to_ok by (rewrite w16_length; lia). cbn [obind].
  assert (Hn : (S (foff wudp_f_CHECKSUM) < Z.to_nat (udp_len p))%nat)
    by (destruct Fc as [? [? _]]; unfold foff; lia).
  rewrite firstn_w16 by exact Hn. fold (udp_region p).
  assert (Br : bytes (udp_region p)) by (apply bytes_firstn; auto).
  assert (B0 : bytes (w16 (udp_region p) (foff wudp_f_CHECKSUM) 0)) by (apply w16_bytes; auto; lia).
  rewrite data_eq_rfc1071
    by (auto; rewrite w16_length; unfold udp_region; rewrite firstn_length; unfold cksum_max_len; lia).
  cbn [obind]. rewrite rfc1071_sum_norm by auto.
  rewrite combine2_norm
    by (try apply besum_nonneg; try apply ph_nonneg; auto; unfold cksum_PROTO_UDP; lia).
  rewrite write_u16_ok' by (rewrite ?w16_length; auto; lia).
  rewrite w16_w16. reflexivity.
Qed.

Lemma udp_fill_then_verify : forall dbg be src dst p, bytes p ->
  addr_ok src -> addr_ok dst -> same_family src dst ->
  snd wudp_f_CHECKSUM <= udp_len p <= Z.of_nat (length p) ->
  exists p', cksum_udp_fill dbg be src dst p = Ok p' /\ length p' = length p /\ bytes p' /\
             cksum_udp_checksum p' = Ok (udp_ck p') /\ udp_ck p' <> 0 /\
             cksum_udp_verify dbg be src dst p' = Ok true.
Proof.
  intros dbg be src dst p Bp As Ad Hf Hl.
  destruct udp_field_ok as [Fc [Fl Ho]]. pose proof (udp_len_range p Bp) as Hr.
  assert (HP : 0 <= udp_P src dst p) by (apply ph_nonneg; auto; unfold cksum_PROTO_UDP; lia).
  assert (Hn : (S (foff wudp_f_CHECKSUM) < Z.to_nat (udp_len p))%nat)
    by (destruct Fc as [? [? _]]; unfold foff; lia).
  assert (Br : bytes (udp_region p)) by (apply bytes_firstn; auto).
  assert (Hrl : (S (foff wudp_f_CHECKSUM) < length (udp_region p))%nat)
    by (unfold udp_region; rewrite firstn_length; lia).
  destruct (gen_fill_verify_udp (udp_P src dst p) (udp_region p) (foff wudp_f_CHECKSUM) HP Br
              ltac:(apply Fc) Hrl) as [Hc Hv].
  fold (udp_fill_value src dst p) in Hc, Hv.
  eexists. split; [apply udp_fill_shape; auto|].
  split; [apply w16_length|].
  match goal with |- bytes ?x /\ _ => assert (B' : bytes x) by (apply w16_bytes; auto; lia) end.
  split; [exact B'|].
  assert (Eck : udp_ck (w16 p (foff wudp_f_CHECKSUM) (udp_fill_value src dst p)) = udp_fill_value src dst p).
  { unfold udp_ck. apply r16_w16; [apply foff_lt; auto; lia | lia]. }
  split; [unfold cksum_udp_checksum; apply read_u16_ok'; rewrite ?w16_length; auto; lia|].
  split; [rewrite Eck; lia|].
  rewrite udp_verify_shape by (rewrite ?w16_length, ?udp_len_w16; auto; lia).
  rewrite Eck. destruct (udp_fill_value src dst p =? 0) eqn:E0; [lia|].
  unfold udp_P, udp_region. rewrite udp_len_w16. fold (udp_P src dst p).
  rewrite firstn_w16 by exact Hn. fold (udp_region p). rewrite Hv. reflexivity.
Qed.

(* udp_zero_only_v4: a zero checksum field is accepted ("no checksum") exactly when the
   pseudo header is IPv4; over IPv6 the packet is rejected, also by Repr::parse's gate *)
Lemma udp_zero_only_v4 : forall dbg be src dst p,
  snd wudp_f_CHECKSUM <= Z.of_nat (length p) -> udp_ck p = 0 ->
  cksum_udp_verify dbg be src dst p = Ok (cksum_is_v4 src && cksum_is_v4 dst) /\
  cksum_udp_parse_check true dbg be src dst p = Ok (cksum_is_v4 src && cksum_is_v4 dst).
Proof.
  intros dbg be src dst p Hl E0.
  destruct udp_field_ok as [Fc _].
  assert (V : cksum_udp_verify dbg be src dst p = Ok (cksum_is_v4 src && cksum_is_v4 dst)).
  { unfold cksum_udp_verify, cksum_udp_checksum. rewrite read_u16_ok' by auto. cbn [obind].
    fold (udp_ck p). rewrite E0. cbn [Z.eqb]. destruct src, dst; reflexivity. }
  split; [exact V|].
  unfold cksum_udp_parse_check. rewrite V. cbn [obind].
  destruct src, dst; cbn [cksum_is_v4 andb]; reflexivity.
Qed.

(* enforcement at the wire level: with rx checksumming on, a packet that does not verify
   does not get through Repr::parse's checksum gate *)
Lemma parse_rejects_bad_checksum : forall dbg be,
  (forall p, cksum_ipv4_verify dbg be p = Ok false -> cksum_ipv4_parse_check true dbg be p = Ok false) /\
  (forall p, cksum_icmpv4_verify dbg be p = Ok false -> cksum_icmpv4_parse_check true dbg be p = Ok false) /\
  (forall s d p, cksum_icmpv6_verify dbg be s d p = Ok false ->
                 cksum_icmpv6_parse_check true dbg be s d p = Ok false) /\
  (forall s d p, cksum_tcp_verify dbg be s d p = Ok false ->
                 cksum_tcp_parse_check true dbg be s d p = Ok false) /\
  (forall s d p, cksum_udp_verify dbg be s d p = Ok false ->
                 cksum_udp_parse_check true dbg be s d p = Ok false).
Proof.
  intros dbg be. repeat split; intros; try assumption.
  unfold cksum_udp_parse_check. rewrite H. cbn [obind].
  (* verify = false excludes a zero checksum field over IPv4 *)
  unfold cksum_udp_verify in H.
  destruct (cksum_udp_checksum p) as [ck| |] eqn:Ek; cbn [obind] in *; try discriminate.
  destruct (ck =? 0) eqn:E0.
  - destruct s, d; try discriminate; reflexivity.
  - destruct s, d; reflexivity.
Qed.

(* ------------------------------------------------------------------------------------- *)
(* single-bit corruption                                                                  *)
(* ------------------------------------------------------------------------------------- *)

Definition flip_bit (b k : Z) : Z := Z.lxor b (2 ^ k).
Definition flip_at (l : list Z) (i : nat) (k : Z) : list Z := cksum_upd l i (flip_bit (nth i l 0) k).

(* finite table (256 byte values x 8 bit positions): flipping bit k of a byte adds or subtracts
   2^k according to the old value of the bit, stays a byte, and bits 4..7 do not touch the low nibble *)
Definition flip_row_ok (b k : Z) : bool :=
  let f := flip_bit b k in
  (0 <=? f) && (f <? 256) &&
  (f =? (if Z.testbit b k then b - 2 ^ k else b + 2 ^ k)) &&
  ((k <? 4) || (Z.land f 15 =? Z.land b 15)).

Lemma flip_table :
  forallb (fun b => forallb (fun k => flip_row_ok (Z.of_nat b) (Z.of_nat k)) (seq 0 8)) (seq 0 256) = true.
Proof. vm_compute. reflexivity. Qed.

Lemma flip_row : forall b k, 0 <= b < 256 -> 0 <= k < 8 -> flip_row_ok b k = true.
Proof.
  intros b k Hb Hk. pose proof flip_table as T. rewrite forallb_forall in T.
  specialize (T (Z.to_nat b)). rewrite in_seq in T. specialize (T ltac:(lia)).
  rewrite forallb_forall in T. specialize (T (Z.to_nat k)). rewrite in_seq in T.
  specialize (T ltac:(lia)). rewrite !Z2Nat.id in T by lia. exact T.
Qed.

Lemma pow2_small : forall k, 0 <= k < 8 -> 1 <= 2 ^ k <= 128.
Proof.
  intros k Hk. assert (C : k = 0 \/ k = 1 \/ k = 2 \/ k = 3 \/ k = 4 \/ k = 5 \/ k = 6 \/ k = 7) by lia.
  destruct C as [->|[->|[->|[->|[->|[->|[->| ->]]]]]]]; vm_compute; split; discriminate.
Qed.

Lemma flip_bit_spec : forall b k, 0 <= b < 256 -> 0 <= k < 8 ->
  0 <= flip_bit b k < 256 /\
  flip_bit b k = (if Z.testbit b k then b - 2 ^ k else b + 2 ^ k) /\
  (4 <= k -> Z.land (flip_bit b k) 15 = Z.land b 15).
Proof.
  intros b k Hb Hk. pose proof (flip_row b k Hb Hk) as R. unfold flip_row_ok in R. cbv zeta in R.
  repeat rewrite andb_true_iff in R. destruct R as [[[R1 R2] R3] R4].
  split; [lia|]. split; [lia|]. intros H4. rewrite orb_true_iff in R4. lia.
Qed.

Lemma flip_at_length : forall l i k, length (flip_at l i k) = length l.
Proof. intros. apply upd_length. Qed.

Lemma flip_at_bytes : forall l i k, bytes l -> 0 <= k < 8 -> bytes (flip_at l i k).
Proof.
  intros. unfold flip_at. apply upd_bytes; auto.
  apply flip_bit_spec; auto. apply nth_bytes; auto.
Qed.

(* the word sum moves by exactly +-2^k (odd offset) or +-2^(k+8) (even offset) *)
Lemma besum_flip : forall l i k, bytes l -> (i < length l)%nat -> 0 <= k < 8 ->
  exists D, besum (flip_at l i k) = besum l + D /\ (0 < D < 65535 \/ 0 < - D < 65535).
Proof.
  intros l i k Bl Hi Hk. unfold flip_at. rewrite besum_upd by exact Hi.
  pose proof (nth_bytes l i Bl) as Hb.
  destruct (flip_bit_spec (nth i l 0) k Hb Hk) as [_ [E _]].
  pose proof (pow2_small k Hk) as Hp.
  eexists. split; [reflexivity|]. rewrite E. unfold weight.
  destruct (Z.testbit (nth i l 0) k); destruct (Nat.even i); lia.
Qed.

Lemma gen_verify_true_iff : forall P region, 0 <= P -> bytes region ->
  (gen_verify P region = true <-> 0 < P + besum region /\ (P + besum region) mod 65535 = 0).
Proof.
  intros P region HP Br. unfold gen_verify. rewrite Z.eqb_eq.
  apply norm_ffff_iff. pose proof (besum_nonneg region Br). lia.
Qed.

(* a change of the total by D, 0 < |D| < 65535, is always detected *)
Lemma gen_delta_detected : forall P region P' region' D, 0 <= P -> bytes region -> 0 <= P' -> bytes region' ->
  P' + besum region' = P + besum region + D -> (0 < D < 65535 \/ 0 < - D < 65535) ->
  gen_verify P region = true -> gen_verify P' region' = false.
Proof.
  intros P region P' region' D HP Br HP' Br' E HD V.
  apply gen_verify_true_iff in V; auto.
  destruct (gen_verify P' region') eqn:V'; [|reflexivity].
  apply gen_verify_true_iff in V'; auto. rewrite E in V'. lia.
Qed.

Lemma gen_flip_detected : forall P region i k, 0 <= P -> bytes region ->
  (i < length region)%nat -> 0 <= k < 8 ->
  gen_verify P region = true -> gen_verify P (flip_at region i k) = false.
Proof.
  intros P region i k HP Br Hi Hk V.
  destruct (besum_flip region i k Br Hi Hk) as [D [E HD]].
  apply (gen_delta_detected P region P (flip_at region i k) D); auto using flip_at_bytes. lia.
Qed.

Lemma flip_at_firstn : forall l n i k, (i < n)%nat ->
  firstn n (flip_at l i k) = flip_at (firstn n l) i k.
Proof. intros. unfold flip_at. rewrite upd_firstn by lia. rewrite firstn_nth by lia. reflexivity. Qed.

Lemma flip_at_nth_other : forall l i k j d, i <> j -> nth j (flip_at l i k) d = nth j l d.
Proof. intros. unfold flip_at. apply upd_nth_other. exact H. Qed.

Lemma r16_flip_other : forall l i k a, i <> a -> i <> S a -> r16 (flip_at l i k) a = r16 l a.
Proof. intros. unfold r16. rewrite !flip_at_nth_other by lia. reflexivity. Qed.

(* --- per protocol --- *)

Lemma icmpv4_flip_detected : forall dbg be p i k, bytes p ->
  Z.of_nat (length p) <= cksum_max_len -> (i < length p)%nat -> 0 <= k < 8 ->
  cksum_icmpv4_verify dbg be p = Ok true ->
  cksum_icmpv4_verify dbg be (flip_at p i k) = Ok false.
Proof.
  intros dbg be p i k Bp Hl Hi Hk V.
  rewrite icmpv4_verify_shape in V by auto. inversion V as [V'].
  rewrite icmpv4_verify_shape by (rewrite ?flip_at_length; auto using flip_at_bytes).
  rewrite gen_flip_detected; auto. lia.
Qed.

Lemma icmpv6_flip_detected : forall dbg be src dst p i k, bytes p -> v6_ok src -> v6_ok dst ->
  Z.of_nat (length p) <= cksum_max_len -> (i < length p)%nat -> 0 <= k < 8 ->
  cksum_icmpv6_verify dbg be src dst p = Ok true ->
  cksum_icmpv6_verify dbg be src dst (flip_at p i k) = Ok false.
Proof.
  intros dbg be src dst p i k Bp As Ad Hl Hi Hk V.
  rewrite icmpv6_verify_shape in V by auto. inversion V as [V'].
  rewrite icmpv6_verify_shape by (rewrite ?flip_at_length; auto using flip_at_bytes).
  unfold icmpv6_P at 1. rewrite flip_at_length. fold (icmpv6_P src dst p).
  rewrite gen_flip_detected; auto.
  destruct As, Ad. apply ph_sum_nonneg; auto. unfold cksum_PROTO_ICMPV6; lia.
Qed.

Lemma tcp_flip_detected : forall dbg be src dst p i k, bytes p ->
  addr_ok src -> addr_ok dst -> same_family src dst ->
  Z.of_nat (length p) <= cksum_max_len -> (i < length p)%nat -> 0 <= k < 8 ->
  cksum_tcp_verify dbg be src dst p = Ok true ->
  cksum_tcp_verify dbg be src dst (flip_at p i k) = Ok false.
Proof.
  intros dbg be src dst p i k Bp As Ad Hf Hl Hi Hk V.
  rewrite tcp_verify_shape in V by auto. inversion V as [V'].
  rewrite tcp_verify_shape by (rewrite ?flip_at_length; auto using flip_at_bytes).
  unfold tcp_P at 1. rewrite flip_at_length. fold (tcp_P src dst p).
  rewrite gen_flip_detected; auto.
  apply ph_nonneg; auto. unfold cksum_PROTO_TCP; lia.
Qed.

(* IPv4 header: every bit of the header except the four IHL bits (byte 0, bits 0..3), which
   change what the header *is* (the summed region) rather than corrupt it *)
Lemma ipv4_flip_detected : forall dbg be p i k, bytes p ->
  ipv4_hl p <= Z.of_nat (length p) -> (Z.of_nat i < ipv4_hl p) -> 0 <= k < 8 ->
  (i <> O \/ 4 <= k) ->
  cksum_ipv4_verify dbg be p = Ok true ->
  cksum_ipv4_verify dbg be (flip_at p i k) = Ok false.
Proof.
  intros dbg be p i k Bp Hl Hi Hk Hnib V.
  assert (H0 : (0 < length p)%nat) by lia.
  rewrite ipv4_verify_shape in V by auto. inversion V as [V'].
  assert (Ehl : ipv4_hl (flip_at p i k) = ipv4_hl p).
  { unfold ipv4_hl. destruct i as [|i].
    - unfold flip_at. rewrite upd_nth_same by exact H0.
      destruct (flip_bit_spec (nth 0 p 0) k (nth_bytes p 0 Bp) Hk) as [_ [_ E]].
      rewrite E by lia. reflexivity.
    - rewrite flip_at_nth_other by lia. reflexivity. }
  rewrite ipv4_verify_shape by (rewrite ?flip_at_length, ?Ehl; auto using flip_at_bytes).
  unfold ipv4_region in *. rewrite Ehl. rewrite flip_at_firstn by lia.
  rewrite gen_flip_detected; auto using bytes_firstn; try lia.
  rewrite firstn_length. lia.
Qed.

(* UDP: every bit of the first `len` bytes except the length field itself (which changes the
   summed region).  The corrupted datagram is accepted only in the one case the property allows:
   IPv4 pseudo header and the corruption turned the checksum field into 0 ("no checksum"). *)
Lemma udp_flip_detected : forall dbg be src dst p i k, bytes p ->
  addr_ok src -> addr_ok dst -> same_family src dst ->
  snd wudp_f_CHECKSUM <= Z.of_nat (length p) -> udp_len p <= Z.of_nat (length p) ->
  Z.of_nat i < udp_len p -> 0 <= k < 8 ->
  i <> foff wudp_f_LENGTH -> i <> S (foff wudp_f_LENGTH) ->
  udp_ck p <> 0 ->
  cksum_udp_verify dbg be src dst p = Ok true ->
  cksum_udp_verify dbg be src dst (flip_at p i k) =
    Ok (cksum_is_v4 src && cksum_is_v4 dst && (udp_ck (flip_at p i k) =? 0)).
Proof.
  intros dbg be src dst p i k Bp As Ad Hf Hl Hlen Hi Hk Hn1 Hn2 Hck V.
  rewrite udp_verify_shape in V by auto.
  destruct (udp_ck p =? 0) eqn:E0; [lia|]. inversion V as [V'].
  assert (Elen : udp_len (flip_at p i k) = udp_len p) by (apply r16_flip_other; auto).
  rewrite udp_verify_shape by (rewrite ?flip_at_length, ?Elen; auto using flip_at_bytes).
  destruct (udp_ck (flip_at p i k) =? 0) eqn:E1.
  - rewrite andb_true_r. reflexivity.
  - rewrite andb_false_r. unfold udp_P, udp_region in *. rewrite Elen.
    rewrite flip_at_firstn by lia.
    rewrite gen_flip_detected; auto using bytes_firstn; try lia.
    + apply ph_nonneg; auto. unfold cksum_PROTO_UDP; lia.
    + rewrite firstn_length. pose proof (udp_len_range p Bp). lia.
Qed.

(* over IPv6 there is no exception: the corrupted datagram is always rejected *)
Lemma udp_flip_detected_v6 : forall dbg be src dst p i k, bytes p ->
  addr_ok src -> addr_ok dst -> same_family src dst -> cksum_is_v4 src = false ->
  snd wudp_f_CHECKSUM <= Z.of_nat (length p) -> udp_len p <= Z.of_nat (length p) ->
  Z.of_nat i < udp_len p -> 0 <= k < 8 ->
  i <> foff wudp_f_LENGTH -> i <> S (foff wudp_f_LENGTH) ->
  cksum_udp_verify dbg be src dst p = Ok true ->
  cksum_udp_verify dbg be src dst (flip_at p i k) = Ok false.
Proof.
  intros dbg be src dst p i k Bp As Ad Hf H6 Hl Hlen Hi Hk Hn1 Hn2 V.
  assert (Hck : udp_ck p <> 0).
  { intro E0. rewrite udp_verify_shape in V by auto. rewrite E0, H6 in V. discriminate. }
  rewrite (udp_flip_detected dbg be src dst p i k) by auto. rewrite H6. reflexivity.
Qed.

(* corruption of an address (pseudo header) is detected as well *)
Definition addr_flip (a : cksum_ipaddr) (i : nat) (k : Z) : cksum_ipaddr :=
  match a with CkV4 o => CkV4 (flip_at o i k) | CkV6 o => CkV6 (flip_at o i k) end.

Lemma addr_flip_ok : forall a i k, addr_ok a -> 0 <= k < 8 ->
  addr_ok (addr_flip a i k) /\ cksum_is_v4 (addr_flip a i k) = cksum_is_v4 a.
Proof.
  intros [o|o] i k [B L] Hk; unfold addr_ok; cbn [addr_flip addr_octets cksum_is_v4] in *;
    (split; [split; [apply flip_at_bytes; auto | rewrite flip_at_length; exact L] | reflexivity]).
Qed.

Lemma ph_sum_flip : forall a b i k nh len, addr_ok a -> (i < length (addr_octets a))%nat -> 0 <= k < 8 ->
  exists D, (0 < D < 65535 \/ 0 < - D < 65535) /\
    ph_sum (addr_octets (addr_flip a i k)) b nh len = ph_sum (addr_octets a) b nh len + D /\
    ph_sum b (addr_octets (addr_flip a i k)) nh len = ph_sum b (addr_octets a) nh len + D.
Proof.
  intros a b i k nh len [B L] Hi Hk.
  destruct (besum_flip (addr_octets a) i k B Hi Hk) as [D [E HD]].
  exists D. split; [exact HD|]. unfold ph_sum.
  destruct a; cbn [addr_flip addr_octets] in *; rewrite E; lia.
Qed.

Lemma tcp_addr_flip_detected : forall dbg be src dst p i k (which : bool), bytes p ->
  addr_ok src -> addr_ok dst -> same_family src dst ->
  Z.of_nat (length p) <= cksum_max_len -> 0 <= k < 8 ->
  (i < length (addr_octets (if which then src else dst)))%nat ->
  cksum_tcp_verify dbg be src dst p = Ok true ->
  cksum_tcp_verify dbg be (if which then addr_flip src i k else src)
                          (if which then dst else addr_flip dst i k) p = Ok false.
Proof.
  intros dbg be src dst p i k which Bp As Ad Hf Hl Hk Hi V.
  rewrite tcp_verify_shape in V by auto. inversion V as [V'].
  assert (HP : 0 <= tcp_P src dst p) by (apply ph_nonneg; auto; unfold cksum_PROTO_TCP; lia).
  destruct which.
  - destruct (addr_flip_ok src i k As Hk) as [As' Ef].
    destruct (ph_sum_flip src (addr_octets dst) i k cksum_PROTO_TCP (Z.of_nat (length p)) As Hi Hk) as [D [HD [E _]]].
    rewrite tcp_verify_shape by (auto; unfold same_family in *; congruence).
    f_equal.
    apply (gen_delta_detected (tcp_P src dst p) p _ p D); auto.
    + apply ph_nonneg; auto. unfold cksum_PROTO_TCP; lia.
    + unfold tcp_P. rewrite E. lia.
  - destruct (addr_flip_ok dst i k Ad Hk) as [Ad' Ef].
    destruct (ph_sum_flip dst (addr_octets src) i k cksum_PROTO_TCP (Z.of_nat (length p)) Ad Hi Hk) as [D [HD [_ E]]].
    rewrite tcp_verify_shape by (auto; unfold same_family in *; congruence).
    f_equal.
    apply (gen_delta_detected (tcp_P src dst p) p _ p D); auto.
    + apply ph_nonneg; auto. unfold cksum_PROTO_TCP; lia.
    + unfold tcp_P. rewrite E. lia.
Qed.

(* verify, stated against the RFC: the one's-complement sum of pseudo header ++ segment is 0xffff *)
Lemma tcp_verify_rfc : forall dbg be src dst p, bytes p ->
  addr_ok src -> addr_ok dst -> same_family src dst ->
  Z.of_nat (length p) <= cksum_max_len ->
  cksum_tcp_verify dbg be src dst p =
    Ok (rfc1071_sum (pseudo_bytes src dst cksum_PROTO_TCP (Z.of_nat (length p)) ++ p) =? 65535).
Proof.
  intros dbg be src dst p Bp As Ad Hf Hl. rewrite tcp_verify_shape by auto. f_equal.
  destruct (pseudo_bytes_ok src dst cksum_PROTO_TCP (Z.of_nat (length p)) As Ad
              ltac:(unfold cksum_PROTO_TCP; lia)) as [B [E _]].
  apply gen_verify_rfc; auto. unfold tcp_P. rewrite pseudo_bytes_besum by auto. reflexivity.
Qed.

Lemma icmpv4_verify_rfc : forall dbg be p, bytes p -> Z.of_nat (length p) <= cksum_max_len ->
  cksum_icmpv4_verify dbg be p = Ok (rfc1071_sum p =? 65535).
Proof.
  intros. unfold cksum_icmpv4_verify. rewrite data_eq_rfc1071 by auto. reflexivity.
Qed.

(* ------------------------------------------------------------------------------------- *)
(* non-vacuity: concrete packets (the test vectors of the smoltcp unit tests)             *)
(* ------------------------------------------------------------------------------------- *)

Definition ex_ipv4 : list Z :=
  [0x45; 0x00; 0x00; 0x1e; 0x01; 0x02; 0x62; 0x03; 0x1a; 0x01; 0xd5; 0x6e; 0x11; 0x12; 0x13;
   0x14; 0x21; 0x22; 0x23; 0x24; 0xaa; 0x00; 0x00; 0x00; 0x00; 0x00; 0x00; 0x00; 0x00; 0xff].
Definition ex_v4_src := CkV4 [192; 168; 1; 1].
Definition ex_v4_dst := CkV4 [192; 168; 1; 2].
Definition ex_v6_src := CkV6 [0xfe; 0x80; 0; 0; 0; 0; 0; 0; 0; 0; 0; 0; 0; 0; 0; 1].
Definition ex_v6_dst := CkV6 [0xfe; 0x80; 0; 0; 0; 0; 0; 0; 0; 0; 0; 0; 0; 0; 0; 2].
Definition ex_udp : list Z := [0xbf; 0x00; 0x00; 0x35; 0x00; 0x0c; 0x12; 0x4d; 0xaa; 0x00; 0x00; 0xff].
Definition ex_udp_nock : list Z := [0xbf; 0x00; 0x00; 0x35; 0x00; 0x0c; 0x00; 0x00; 0xaa; 0x00; 0x00; 0xff].
Definition ex_tcp : list Z :=
  [0xbf; 0x00; 0x00; 0x50; 0x01; 0x23; 0x45; 0x67; 0x89; 0xab; 0xcd; 0xef; 0x60; 0x35; 0x01;
   0x23; 0x01; 0xb6; 0x02; 0x01; 0x03; 0x03; 0x0c; 0x01; 0xaa; 0x00; 0x00; 0xff].
Definition ex_icmpv4 : list Z := [0x08; 0x00; 0x8e; 0xfe; 0x12; 0x34; 0xab; 0xcd; 0xaa; 0x00; 0x00; 0xff].
Definition ex_icmpv6 : list Z := [0x80; 0x00; 0x19; 0xb3; 0x12; 0x34; 0xab; 0xcd; 0xaa; 0x00; 0x00; 0xff].
(* a UDP datagram over IPv6 whose computed checksum is 0: payload chosen so that the sum folds
   to 0xffff; fill must transmit 0xffff, and the same bytes with a zero field are rejected *)
Definition ex_udp6_zero : list Z := [0x00; 0x35; 0x00; 0x35; 0x00; 0x0a; 0x00; 0x00; 0x02; 0x6c].

Definition forall_be (f : bool -> bool -> bool) : bool :=
  f true true && f true false && f false true && f false false.

Definition outcome_eqb {A} (eqb : A -> A -> bool) (x y : outcome A) : bool :=
  match x, y with Ok a, Ok b => eqb a b | Panic, Panic => true | Err a, Err b => a =? b | _, _ => false end.

Definition list_eqb (a b : list Z) : bool :=
  (length a =? length b)%nat && forallb (fun '(x, y) => x =? y) (combine a b).

Lemma c08_examples :
  (* every function on both endiannesses and both overflow modes *)
  forall_be (fun dbg be =>
    outcome_eqb Z.eqb (cksum_data dbg be ex_icmpv4) (Ok 65535) &&
    outcome_eqb Z.eqb (cksum_data dbg be [0x12; 0x34; 0x56]) (Ok (0x1234 + 0x5600)) &&
    outcome_eqb Z.eqb (cksum_data dbg be []) (Ok 0) &&
    outcome_eqb Z.eqb (cksum_data dbg be [0xff; 0xff; 0x00; 0x01]) (Ok 1) &&
    outcome_eqb Bool.eqb (cksum_ipv4_verify dbg be ex_ipv4) (Ok true) &&
    outcome_eqb list_eqb (cksum_ipv4_fill dbg be (w16 ex_ipv4 10 0xeeee)) (Ok ex_ipv4) &&
    outcome_eqb Bool.eqb (cksum_udp_verify dbg be ex_v4_src ex_v4_dst ex_udp) (Ok true) &&
    outcome_eqb list_eqb (cksum_udp_fill dbg be ex_v4_src ex_v4_dst ex_udp_nock) (Ok ex_udp) &&
    outcome_eqb Bool.eqb (cksum_udp_verify dbg be ex_v4_src ex_v4_dst ex_udp_nock) (Ok true) &&
    outcome_eqb Bool.eqb (cksum_udp_verify dbg be ex_v6_src ex_v6_dst ex_udp_nock) (Ok false) &&
    outcome_eqb Bool.eqb (cksum_udp_parse_check true dbg be ex_v6_src ex_v6_dst ex_udp_nock) (Ok false) &&
    outcome_eqb Bool.eqb (cksum_udp_parse_check true dbg be ex_v4_src ex_v4_dst ex_udp_nock) (Ok true) &&
    outcome_eqb list_eqb (cksum_udp_fill dbg be ex_v6_src ex_v6_dst ex_udp6_zero)
                         (Ok (w16 ex_udp6_zero 6 0xffff)) &&
    outcome_eqb Bool.eqb (cksum_udp_verify dbg be ex_v6_src ex_v6_dst (w16 ex_udp6_zero 6 0xffff)) (Ok true) &&
    outcome_eqb Bool.eqb (cksum_udp_verify dbg be ex_v6_src ex_v6_dst ex_udp6_zero) (Ok false) &&
    outcome_eqb Bool.eqb (cksum_tcp_verify dbg be ex_v4_src ex_v4_dst ex_tcp) (Ok true) &&
    outcome_eqb list_eqb (cksum_tcp_fill dbg be ex_v4_src ex_v4_dst (w16 ex_tcp 16 0xeeee)) (Ok ex_tcp) &&
    outcome_eqb Bool.eqb (cksum_tcp_verify dbg be ex_v4_src ex_v4_dst (flip_at ex_tcp 27 0)) (Ok false) &&
    outcome_eqb Bool.eqb (cksum_tcp_verify dbg be ex_v4_src ex_v6_dst ex_tcp) Panic &&
    outcome_eqb Bool.eqb (cksum_icmpv4_verify dbg be ex_icmpv4) (Ok true) &&
    outcome_eqb list_eqb (cksum_icmpv4_fill dbg be (w16 ex_icmpv4 2 0)) (Ok ex_icmpv4) &&
    outcome_eqb Bool.eqb (cksum_icmpv6_verify dbg be (addr_octets ex_v6_src) (addr_octets ex_v6_dst) ex_icmpv6) (Ok true) &&
    outcome_eqb list_eqb (cksum_icmpv6_fill dbg be (addr_octets ex_v6_src) (addr_octets ex_v6_dst) (w16 ex_icmpv6 2 0))
                         (Ok ex_icmpv6) &&
    outcome_eqb list_eqb (cksum_icmpv4_fill dbg be [8; 0; 0]) Panic) = true.
Proof. vm_compute. reflexivity. Qed.

(* the accumulator bound is sharp: 131074 bytes of 0xff reach exactly u32::MAX and are still
   summed correctly; two more bytes overflow: debug builds panic, release builds wrap and return
   0xfeff (little endian) / 0xfffe (big endian) instead of the RFC 1071 value 0xffff *)
Lemma c08_bound_sharp :
  let ff n := repeat 255 (Z.to_nat n) in
  cksum_accum false (ff 131074) = cksum_u32_MAX /\
  cksum_data true false (ff 131074) = Ok 65535 /\
  cksum_data true false (ff 131076) = Panic /\
  cksum_data false false (ff 131076) = Ok 65279 /\
  cksum_data false true (ff 131076) = Ok 65534 /\
  rfc1071_sum (ff 131076) = 65535.
Proof. vm_compute. repeat split; reflexivity. Qed.

(* combine is literally the RFC's word-by-word one's-complement addition *)
Lemma combine_is_fold : forall ws, words16 ws -> Z.of_nat (length ws) <= 65537 ->
  cksum_combine ws = fold_left oc_add ws 0.
Proof.
  intros ws Hw Hl. rewrite combine_eq by auto. rewrite fold_oc_add_norm by (auto; lia).
  rewrite Z.add_0_l. reflexivity.
Qed.
(* ------------------------------------------------------------------------------------- *)
(* double-bit corruption: exact characterisation of what goes undetected                  *)
(* ------------------------------------------------------------------------------------- *)

(* bit column inside the 16-bit word: bits of the high (even-offset) byte are columns 8..15 *)
Definition col (i : nat) (k : Z) : Z := if Nat.even i then k + 8 else k.
Definition bit_of (l : list Z) (i : nat) (k : Z) : bool := Z.testbit (nth i l 0) k.
Definition sgn (b : bool) : Z := if b then -1 else 1.

Definition dd_row (j1 j2 : Z) : bool :=
  forallb (fun s1 => forallb (fun s2 =>
    Bool.eqb ((s1 * 2 ^ j1 + s2 * 2 ^ j2) mod 65535 =? 0) ((j1 =? j2) && (s1 + s2 =? 0)))
    [1; -1]) [1; -1].

Lemma dd_table :
  forallb (fun j1 => forallb (fun j2 => dd_row (Z.of_nat j1) (Z.of_nat j2)) (seq 0 16)) (seq 0 16) = true.
Proof. vm_compute. reflexivity. Qed.

Lemma double_delta : forall j1 j2 b1 b2, 0 <= j1 < 16 -> 0 <= j2 < 16 ->
  ((sgn b1 * 2 ^ j1 + sgn b2 * 2 ^ j2) mod 65535 = 0 <-> j1 = j2 /\ b1 <> b2).
Proof.
  intros j1 j2 b1 b2 H1 H2. pose proof dd_table as T. rewrite forallb_forall in T.
  specialize (T (Z.to_nat j1)). rewrite in_seq in T. specialize (T ltac:(lia)).
  rewrite forallb_forall in T. specialize (T (Z.to_nat j2)). rewrite in_seq in T.
  specialize (T ltac:(lia)). rewrite !Z2Nat.id in T by lia.
  unfold dd_row in T. rewrite forallb_forall in T.
  specialize (T (sgn b1) ltac:(destruct b1; cbn; auto)).
  rewrite forallb_forall in T.
  specialize (T (sgn b2) ltac:(destruct b2; cbn; auto)).
  apply eqb_prop in T.
  destruct ((sgn b1 * 2 ^ j1 + sgn b2 * 2 ^ j2) mod 65535 =? 0) eqn:E.
  - symmetry in T. apply andb_true_iff in T. destruct T as [Tj Ts].
    split; [intros _|intros _; lia]. split; [lia|].
    destruct b1, b2; cbn [sgn] in Ts; try discriminate; congruence.
  - split; [lia|]. intros [Ej Eb]. symmetry in T. apply andb_false_iff in T.
    destruct T as [T|T]; [lia|]. destruct b1, b2; cbn [sgn] in T; try congruence; lia.
Qed.

Lemma pow2_col : forall i k, 0 <= k < 8 -> 2 ^ k * weight i = 2 ^ col i k /\ 0 <= col i k < 16.
Proof.
  intros i k Hk. unfold weight, col. destruct (Nat.even i).
  - rewrite Z.pow_add_r by lia. change (2 ^ 8) with 256. lia.
  - lia.
Qed.

Lemma besum_flip_exact : forall l i k, bytes l -> (i < length l)%nat -> 0 <= k < 8 ->
  besum (flip_at l i k) = besum l + sgn (bit_of l i k) * 2 ^ col i k.
Proof.
  intros l i k Bl Hi Hk. unfold flip_at. rewrite besum_upd by exact Hi.
  destruct (flip_bit_spec (nth i l 0) k (nth_bytes l i Bl) Hk) as [_ [E _]].
  destruct (pow2_col i k Hk) as [Ec _]. rewrite <- Ec. rewrite E. unfold bit_of, sgn.
  destruct (Z.testbit (nth i l 0) k); lia.
Qed.

Lemma bit_of_flip_other : forall l i1 k1 i2 k2, (i1 < length l)%nat -> 0 <= k1 -> 0 <= k2 ->
  (i1 <> i2 \/ k1 <> k2) -> bit_of (flip_at l i1 k1) i2 k2 = bit_of l i2 k2.
Proof.
  intros l i1 k1 i2 k2 Hi H1 H2 Hne. unfold bit_of.
  destruct (Nat.eq_dec i1 i2) as [->|Hn].
  - unfold flip_at. rewrite upd_nth_same by exact Hi. unfold flip_bit.
    rewrite Z.lxor_spec. rewrite Z.pow2_bits_false by lia. apply xorb_false_r.
  - rewrite flip_at_nth_other by exact Hn. reflexivity.
Qed.

(* Two distinct bit positions of a valid region are inverted.  The corruption passes the checksum
   test exactly when both bits lie in the same bit column of their 16-bit words and had opposite
   values (one 0 -> 1, the other 1 -> 0); every other double flip is detected. *)
Lemma gen_double_flip : forall P region i1 k1 i2 k2, 0 <= P -> bytes region ->
  (i1 < length region)%nat -> (i2 < length region)%nat -> 0 <= k1 < 8 -> 0 <= k2 < 8 ->
  (i1 <> i2 \/ k1 <> k2) ->
  gen_verify P region = true ->
  gen_verify P (flip_at (flip_at region i1 k1) i2 k2) =
    (col i1 k1 =? col i2 k2) && xorb (bit_of region i1 k1) (bit_of region i2 k2).
Proof.
  intros P region i1 k1 i2 k2 HP Br H1 H2 Hk1 Hk2 Hne V.
  assert (B1 : bytes (flip_at region i1 k1)) by (apply flip_at_bytes; auto).
  assert (B2 : bytes (flip_at (flip_at region i1 k1) i2 k2)) by (apply flip_at_bytes; auto).
  pose proof (besum_flip_exact region i1 k1 Br H1 Hk1) as E1.
  pose proof (besum_flip_exact (flip_at region i1 k1) i2 k2 B1
                ltac:(rewrite flip_at_length; exact H2) Hk2) as E2.
  rewrite bit_of_flip_other in E2 by (auto; lia). rewrite E1 in E2.
  destruct (pow2_col i1 k1 Hk1) as [_ C1]. destruct (pow2_col i2 k2 Hk2) as [_ C2].
  pose proof (double_delta (col i1 k1) (col i2 k2) (bit_of region i1 k1) (bit_of region i2 k2) C1 C2) as DD.
  apply gen_verify_true_iff in V; auto.
  pose proof (besum_nonneg _ B2) as N2.
  set (D := sgn (bit_of region i1 k1) * 2 ^ col i1 k1 + sgn (bit_of region i2 k2) * 2 ^ col i2 k2) in *.
  assert (ET : P + besum (flip_at (flip_at region i1 k1) i2 k2) = P + besum region + D) by lia.
  destruct ((col i1 k1 =? col i2 k2) && xorb (bit_of region i1 k1) (bit_of region i2 k2)) eqn:R.
  - apply andb_true_iff in R. destruct R as [Rc Rx].
    assert (D mod 65535 = 0).
    { apply DD. split; [lia|]. destruct (bit_of region i1 k1), (bit_of region i2 k2); cbn in Rx; congruence. }
    assert (D = 0).
    { unfold D. replace (col i2 k2) with (col i1 k1) by lia.
      destruct (bit_of region i1 k1), (bit_of region i2 k2); cbn in Rx; try discriminate; cbn [sgn]; lia. }
    apply gen_verify_true_iff; auto. rewrite ET. lia.
  - destruct (gen_verify P (flip_at (flip_at region i1 k1) i2 k2)) eqn:V'; [|reflexivity].
    apply gen_verify_true_iff in V'; auto. rewrite ET in V'.
    assert (HD : D mod 65535 = 0) by lia.
    apply DD in HD. destruct HD as [Hc Hb].
    apply andb_false_iff in R. destruct R as [R|R]; [lia|].
    destruct (bit_of region i1 k1), (bit_of region i2 k2); cbn in R; congruence.
Qed.

Lemma icmpv4_double_flip : forall dbg be p i1 k1 i2 k2, bytes p ->
  Z.of_nat (length p) <= cksum_max_len ->
  (i1 < length p)%nat -> (i2 < length p)%nat -> 0 <= k1 < 8 -> 0 <= k2 < 8 ->
  (i1 <> i2 \/ k1 <> k2) ->
  cksum_icmpv4_verify dbg be p = Ok true ->
  cksum_icmpv4_verify dbg be (flip_at (flip_at p i1 k1) i2 k2) =
    Ok ((col i1 k1 =? col i2 k2) && xorb (bit_of p i1 k1) (bit_of p i2 k2)).
Proof.
  intros dbg be p i1 k1 i2 k2 Bp Hl H1 H2 Hk1 Hk2 Hne V.
  rewrite icmpv4_verify_shape in V by auto. inversion V as [V'].
  rewrite icmpv4_verify_shape by (rewrite ?flip_at_length; auto using flip_at_bytes).
  rewrite gen_double_flip; auto. lia.
Qed.

Lemma tcp_double_flip : forall dbg be src dst p i1 k1 i2 k2, bytes p ->
  addr_ok src -> addr_ok dst -> same_family src dst ->
  Z.of_nat (length p) <= cksum_max_len ->
  (i1 < length p)%nat -> (i2 < length p)%nat -> 0 <= k1 < 8 -> 0 <= k2 < 8 ->
  (i1 <> i2 \/ k1 <> k2) ->
  cksum_tcp_verify dbg be src dst p = Ok true ->
  cksum_tcp_verify dbg be src dst (flip_at (flip_at p i1 k1) i2 k2) =
    Ok ((col i1 k1 =? col i2 k2) && xorb (bit_of p i1 k1) (bit_of p i2 k2)).
Proof.
  intros dbg be src dst p i1 k1 i2 k2 Bp As Ad Hf Hl H1 H2 Hk1 Hk2 Hne V.
  rewrite tcp_verify_shape in V by auto. inversion V as [V'].
  rewrite tcp_verify_shape by (rewrite ?flip_at_length; auto using flip_at_bytes).
  unfold tcp_P at 1. rewrite !flip_at_length. fold (tcp_P src dst p).
  rewrite gen_double_flip; auto. apply ph_nonneg; auto. unfold cksum_PROTO_TCP; lia.
Qed.
