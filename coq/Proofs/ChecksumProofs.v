(* Lemmas for property C08 (Internet checksum).  Spec side first (RFC 1071), then the proofs
   that Model/Checksum.v implements it, then fill/verify and corruption-detection lemmas. *)
From SV Require Import Lib.Base Gen.WireFields Model.Checksum.

(* ------------------------------------------------------------------------------------- *)
(* Specification: RFC 1071                                                                *)
(* ------------------------------------------------------------------------------------- *)

(* "Adjacent octets to be checksummed are paired to form 16-bit integers" (network order;
   an odd trailing octet is padded with a zero octet on the right). *)
Fixpoint be_words (l : list Z) : list Z :=
  match l with
  | [] => []
  | [b] => [b * 256]
  | b0 :: b1 :: r => (b0 * 256 + b1) :: be_words r
  end.

(* 1's complement addition of two 16-bit integers: end-around carry *)
Definition oc_add (a b : Z) : Z :=
  let s := a + b in if s <? 65536 then s else s - 65536 + 1.

(* "the 1's complement sum of these 16-bit integers is formed" *)
Definition rfc1071_sum (l : list Z) : Z := fold_left oc_add (be_words l) 0.

(* closed form used in the proofs: 0 for 0, otherwise the representative of n modulo 65535
   in 1..65535 *)
Definition norm (n : Z) : Z := if n =? 0 then 0 else (n - 1) mod 65535 + 1.

(* plain integer sum of the big-endian words *)
Fixpoint besum (l : list Z) : Z :=
  match l with
  | [] => 0
  | [b] => b * 256
  | b0 :: b1 :: r => b0 * 256 + b1 + besum r
  end.

Definition bytes (l : list Z) : Prop := Forall (fun b => 0 <= b < 256) l.
Definition words16 (l : list Z) : Prop := Forall (fun w => 0 <= w <= 65535) l.

(* induction two elements at a time *)
Lemma list_ind2 : forall (P : list Z -> Prop),
  P [] -> (forall b, P [b]) -> (forall b0 b1 r, P r -> P (b0 :: b1 :: r)) -> forall l, P l.
Proof.
  intros P H0 H1 H2.
  assert (H : forall l, P l /\ forall b, P (b :: l)).
  { induction l as [|a l [IH1 IH2]]; split; auto. }
  intro l. apply H.
Qed.

Lemma bytes_cons : forall b l, bytes (b :: l) <-> 0 <= b < 256 /\ bytes l.
Proof. intros. unfold bytes. split; intro H; [inversion H; auto | constructor; tauto]. Qed.

Lemma bytes_app : forall a b, bytes (a ++ b) <-> bytes a /\ bytes b.
Proof. intros. unfold bytes. apply Forall_app. Qed.

Lemma bytes_firstn : forall n l, bytes l -> bytes (firstn n l).
Proof.
  intros n l H. rewrite <- (firstn_skipn n l) in H. apply bytes_app in H. tauto.
Qed.

Lemma bytes_skipn : forall n l, bytes l -> bytes (skipn n l).
Proof.
  intros n l H. rewrite <- (firstn_skipn n l) in H. apply bytes_app in H. tauto.
Qed.

(* ------------------------------------------------------------------------------------- *)
(* norm / oc_add arithmetic                                                               *)
(* ------------------------------------------------------------------------------------- *)

Lemma norm_range : forall n, 0 <= n -> 0 <= norm n <= 65535.
Proof. intros. unfold norm. destruct (n =? 0) eqn:E; lia. Qed.

Lemma norm_zero_iff : forall n, 0 <= n -> (norm n = 0 <-> n = 0).
Proof. intros. unfold norm. destruct (n =? 0) eqn:E; lia. Qed.

Lemma norm_mod : forall n, 0 <= n -> norm n mod 65535 = n mod 65535.
Proof. intros. unfold norm. destruct (n =? 0) eqn:E; lia. Qed.

Lemma norm_small : forall n, 0 <= n <= 65535 -> norm n = n.
Proof. intros. unfold norm. destruct (n =? 0) eqn:E; lia. Qed.

(* characterisation: the unique value in 0..65535 congruent to n that is 0 exactly when n is *)
Lemma norm_unique : forall n z, 0 <= n -> 0 <= z <= 65535 ->
  z mod 65535 = n mod 65535 -> (z = 0 <-> n = 0) -> z = norm n.
Proof. intros n z Hn Hz Hm H0. unfold norm. destruct (n =? 0) eqn:E; lia. Qed.

Lemma norm_add_l : forall a b, 0 <= a -> 0 <= b -> norm (norm a + b) = norm (a + b).
Proof.
  intros a b Ha Hb. apply norm_unique.
  - lia.
  - apply norm_range. pose proof (norm_range a Ha). lia.
  - pose proof (norm_range a Ha). pose proof (norm_mod a Ha).
    rewrite norm_mod by lia. lia.
  - pose proof (norm_range a Ha). pose proof (norm_zero_iff a Ha).
    rewrite norm_zero_iff by lia. lia.
Qed.

Lemma norm_add_r : forall a b, 0 <= a -> 0 <= b -> norm (a + norm b) = norm (a + b).
Proof. intros. rewrite (Z.add_comm a), norm_add_l, (Z.add_comm b) by lia. reflexivity. Qed.

Lemma norm_idem : forall a, 0 <= a -> norm (norm a) = norm a.
Proof. intros. apply norm_small. apply norm_range; lia. Qed.

Lemma oc_add_norm : forall a b, 0 <= a <= 65535 -> 0 <= b <= 65535 -> oc_add a b = norm (a + b).
Proof.
  intros. unfold oc_add, norm. cbv zeta.
  destruct (a + b <? 65536) eqn:E1; destruct (a + b =? 0) eqn:E2; lia.
Qed.

Lemma besum_nonneg : forall l, bytes l -> 0 <= besum l.
Proof.
  induction l using list_ind2; intros Hb; cbn [besum].
  - lia.
  - apply bytes_cons in Hb. lia.
  - apply bytes_cons in Hb. destruct Hb as [? Hb]. apply bytes_cons in Hb. destruct Hb as [? Hb].
    specialize (IHl Hb). lia.
Qed.

Lemma be_words_range : forall l, bytes l -> words16 (be_words l).
Proof.
  unfold words16. induction l using list_ind2; intros Hb; cbn [be_words].
  - constructor.
  - apply bytes_cons in Hb. constructor; [lia | constructor].
  - apply bytes_cons in Hb. destruct Hb as [? Hb]. apply bytes_cons in Hb. destruct Hb as [? Hb].
    constructor; [lia | auto].
Qed.

Lemma besum_be_words : forall l, besum l = fold_right Z.add 0 (be_words l).
Proof.
  induction l using list_ind2; cbn [besum be_words fold_right]; lia.
Qed.

Lemma fold_oc_add_norm : forall ws a, words16 ws -> 0 <= a <= 65535 ->
  fold_left oc_add ws a = norm (a + fold_right Z.add 0 ws).
Proof.
  induction ws as [|w ws IH]; intros a Hw Ha; cbn [fold_left fold_right].
  - rewrite Z.add_0_r, norm_small; lia.
  - inversion Hw as [|? ? Hw1 Hw2]; subst.
    assert (Hs : 0 <= fold_right Z.add 0 ws).
    { clear - Hw2. induction Hw2; cbn [fold_right]; lia. }
    rewrite IH; auto.
    + rewrite oc_add_norm by lia. rewrite norm_add_l by lia. f_equal. lia.
    + rewrite oc_add_norm by lia. apply norm_range. lia.
Qed.

(* the RFC's word-by-word one's-complement sum has the closed form norm (sum of the words) *)
Lemma rfc1071_sum_norm : forall l, bytes l -> rfc1071_sum l = norm (besum l).
Proof.
  intros l Hb. unfold rfc1071_sum.
  rewrite fold_oc_add_norm by (auto using be_words_range || lia).
  rewrite besum_be_words. reflexivity.
Qed.

Lemma rfc1071_sum_range : forall l, bytes l -> 0 <= rfc1071_sum l <= 65535.
Proof. intros. rewrite rfc1071_sum_norm by auto. apply norm_range, besum_nonneg; auto. Qed.

(* ------------------------------------------------------------------------------------- *)
(* propagate_carries                                                                      *)
(* ------------------------------------------------------------------------------------- *)

Lemma shiftr16 : forall w, Z.shiftr w 16 = w / 65536.
Proof. intros. rewrite Z.shiftr_div_pow2 by lia. reflexivity. Qed.

Lemma land_ffff : forall w, Z.land w 65535 = w mod 65536.
Proof. intros. change 65535 with (Z.ones 16). rewrite Z.land_ones by lia. reflexivity. Qed.

Lemma propagate_carries_eq : forall w, 0 <= w <= cksum_u32_MAX ->
  cksum_propagate_carries w = norm w.
Proof.
  intros w Hw. unfold cksum_propagate_carries, cksum_u32_MAX in *. cbv zeta.
  rewrite !shiftr16, land_ffff. unfold norm. destruct (w =? 0) eqn:E; lia.
Qed.

(* the two intermediate additions stay inside their types: the u32 `sum` and the final u16 + u16 *)
Lemma propagate_carries_no_overflow : forall w, 0 <= w <= cksum_u32_MAX ->
  let sum := Z.shiftr w 16 + Z.land w 65535 in
  0 <= sum <= 131070 /\
  0 <= (Z.shiftr sum 16) mod 65536 + sum mod 65536 <= 65535 /\
  0 <= cksum_propagate_carries w <= 65535 /\
  cksum_propagate_carries w mod 65535 = w mod 65535 /\
  (cksum_propagate_carries w = 0 <-> w = 0).
Proof.
  intros w Hw. cbv zeta.
  pose proof (propagate_carries_eq w Hw) as E.
  unfold cksum_propagate_carries in *. cbv zeta in *. unfold cksum_u32_MAX in *.
  rewrite !shiftr16, land_ffff in *.
  split; [lia|]. split; [lia|]. split; [lia|].
  rewrite E. split; [apply norm_mod; lia | apply norm_zero_iff; lia].
Qed.

(* ------------------------------------------------------------------------------------- *)
(* data = RFC 1071                                                                        *)
(* ------------------------------------------------------------------------------------- *)

(* plain sum of the native-endian words, paired two at a time (odd tail padded with 0) *)
Fixpoint nesum (be : bool) (l : list Z) : Z :=
  match l with
  | [] => 0
  | [b] => cksum_u16_from_ne_bytes be b 0
  | b0 :: b1 :: r => cksum_u16_from_ne_bytes be b0 b1 + nesum be r
  end.

(* chunking independence: 4-byte chunks + 2-byte tail + odd byte add up to the pairwise sum *)
Lemma chunks_spec : forall be n l acc, (length l <= n)%nat ->
  fst (cksum_chunks be l acc) + nesum be (snd (cksum_chunks be l acc)) = acc + nesum be l /\
  (length (snd (cksum_chunks be l acc)) < 4)%nat.
Proof.
  induction n as [|n IH]; intros l acc Hl.
  - destruct l; [|cbn in Hl; lia]. cbn. split; lia.
  - destruct l as [|b0 [|b1 [|b2 [|b3 rest]]]]; try (cbn; split; lia).
    cbn [cksum_chunks].
    assert (Hr : (length rest <= n)%nat) by (cbn in Hl; lia).
    destruct (IH rest (acc + cksum_u16_from_ne_bytes be b0 b1 + cksum_u16_from_ne_bytes be b2 b3) Hr) as [E L].
    split; [|exact L]. rewrite E. cbn [nesum]. lia.
Qed.

Lemma accum_nesum : forall be l, cksum_accum be l = nesum be l.
Proof.
  intros be l. unfold cksum_accum.
  destruct (chunks_spec be (length l) l 0 (le_n _)) as [E L].
  destruct (cksum_chunks be l 0) as [acc rem]. cbn [fst snd] in *.
  destruct rem as [|r0 [|r1 [|r2 [|r3 rem]]]]; cbn [nesum length] in *; try lia.
Qed.

Lemma nesum_be : forall l, nesum true l = besum l.
Proof. induction l using list_ind2; cbn [nesum besum cksum_u16_from_ne_bytes]; lia. Qed.

(* little-endian words: byte swap = multiplication by 256 modulo 65535 *)
Lemma nesum_le : forall l, bytes l ->
  nesum false l mod 65535 = (256 * besum l) mod 65535 /\
  0 <= nesum false l <= 256 * besum l /\ besum l <= 256 * nesum false l.
Proof.
  induction l using list_ind2; intros Hb; cbn [nesum besum cksum_u16_from_ne_bytes].
  - lia.
  - apply bytes_cons in Hb. lia.
  - apply bytes_cons in Hb. destruct Hb as [? Hb]. apply bytes_cons in Hb. destruct Hb as [? Hb].
    specialize (IHl Hb). lia.
Qed.

Lemma swap_bytes_mod : forall y, 0 <= y <= 65535 ->
  let z := (y mod 256) * 256 + y / 256 in
  0 <= z <= 65535 /\ z mod 65535 = (256 * y) mod 65535 /\ (z = 0 <-> y = 0).
Proof. intros. cbv zeta. lia. Qed.

Lemma nesum_bound : forall be l, bytes l -> 0 <= nesum be l <= 65535 * ((Z.of_nat (length l) + 1) / 2).
Proof.
  intros be. induction l using list_ind2; intros Hb.
  - cbn. lia.
  - apply bytes_cons in Hb. destruct be; cbn [nesum length cksum_u16_from_ne_bytes]; lia.
  - apply bytes_cons in Hb. destruct Hb as [? Hb]. apply bytes_cons in Hb. destruct Hb as [? Hb].
    specialize (IHl Hb). revert IHl.
    destruct be; cbn [nesum length cksum_u16_from_ne_bytes]; rewrite !Nat2Z.inj_succ; lia.
Qed.

(* 131074 = 2 * 65537 bytes: 65537 words of at most 65535 never exceed u32::MAX = 65537 * 65535 *)
Definition cksum_max_len : Z := 131074.

Lemma accum_no_overflow : forall be l, bytes l -> Z.of_nat (length l) <= cksum_max_len ->
  0 <= cksum_accum be l <= cksum_u32_MAX.
Proof.
  intros be l Hb Hl. rewrite accum_nesum. pose proof (nesum_bound be l Hb).
  unfold cksum_max_len, cksum_u32_MAX in *. lia.
Qed.

Lemma data_value : forall be l, bytes l -> 0 <= nesum be l <= cksum_u32_MAX ->
  cksum_u16_to_be be (cksum_propagate_carries (nesum be l)) = norm (besum l).
Proof.
  intros be l Hb Hr. rewrite propagate_carries_eq by exact Hr.
  pose proof (besum_nonneg l Hb) as Hs.
  destruct be; cbn [cksum_u16_to_be].
  - rewrite nesum_be. reflexivity.
  - destruct (nesum_le l Hb) as [Hm [Hle1 Hle2]].
    set (A := nesum false l) in *. set (S := besum l) in *.
    assert (HA : 0 <= A) by lia.
    pose proof (norm_range A HA) as Hy. pose proof (norm_mod A HA) as Hym.
    pose proof (norm_zero_iff A HA) as Hy0.
    set (y := norm A) in *.
    destruct (swap_bytes_mod y Hy) as [Hz [Hzm Hz0]].
    apply norm_unique; [lia | exact Hz | | lia].
    rewrite Hzm. clear - Hym Hm. lia.
Qed.

(* data_eq_rfc1071 *)
Lemma data_eq_rfc1071 : forall dbg be l, bytes l -> Z.of_nat (length l) <= cksum_max_len ->
  cksum_data dbg be l = Ok (rfc1071_sum l).
Proof.
  intros dbg be l Hb Hl. unfold cksum_data.
  pose proof (accum_no_overflow be l Hb Hl) as Hr.
  destruct (cksum_accum be l <=? cksum_u32_MAX) eqn:E; [|lia].
  rewrite accum_nesum in *. rewrite data_value by auto.
  rewrite rfc1071_sum_norm by auto. reflexivity.
Qed.

(* beyond the bound the code is still right as long as the accumulator happens not to overflow;
   when it does, debug builds panic and release builds return the folded *wrapped* accumulator *)
Lemma data_beyond_bound : forall dbg be l, bytes l ->
  cksum_data dbg be l =
    if cksum_accum be l <=? cksum_u32_MAX then Ok (rfc1071_sum l)
    else if dbg then Panic
    else Ok (cksum_u16_to_be be (cksum_propagate_carries (cksum_accum be l mod 4294967296))).
Proof.
  intros dbg be l Hb. unfold cksum_data.
  destruct (cksum_accum be l <=? cksum_u32_MAX) eqn:E; [|reflexivity].
  rewrite accum_nesum in *. pose proof (nesum_bound be l Hb).
  apply Z.leb_le in E. rewrite data_value by (try assumption; lia). rewrite rfc1071_sum_norm by auto. reflexivity.
Qed.
