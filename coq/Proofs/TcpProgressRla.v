(* C02 (liveness half): an ESTABLISHED client has sent an ACK - socket level.
     process_synced_rla   a segment at a socket in a synchronised state: remote_last_ack stays recorded
     process_synsent_rla  SYN-SENT -> ESTABLISHED records the number of the SYN|ACK
   (the other events: send / recv by stf, dispatch by C04's dispatch_spec) *)
From SV Require Import Lib.Base Gen.Consts.
From SV Require Import Model.Seq32 Model.Assembler Model.TcpBuf Model.TcpTypes Model.Tcp.
From SV Require Import Proofs.AssemblerProofs Proofs.TcpRecvBase Proofs.TcpRecvWindow
  Proofs.TcpRecvPayload Proofs.TcpRecvInv Proofs.TcpRecvProcess.
From SV Require Proofs.TcpSendBase Proofs.TcpRecvDispatch Proofs.TcpRecvSync.
From SV Require Proofs.TcpLiveBase Proofs.TcpLiveProofs.
From SV Require Import Proofs.TcpProgressFrame Proofs.TcpProgressCtl Proofs.TcpProgressHs Proofs.TcpProgressHsD
  Proofs.TcpProgressSynWin.

Lemma sweq_rla s' s : sweq s' s -> s_remote_last_ack s <> None -> s_remote_last_ack s' <> None.
Proof.
  intros [(_ & _ & _ & _ & E & _) | (_ & _ & _ & _ & E & _)] H; rewrite E; [exact H | discriminate].
Qed.

Lemma frame_rla s' s : frame s' s -> s_remote_last_ack s' = s_remote_last_ack s.
Proof. intros ((_ & _ & _ & _ & E & _) & _). exact E. Qed.

Theorem process_synced_rla cx s ip r s' rep tags :
  synced_state (s_state s) -> s_state s <> SynReceived -> s_remote_last_ack s <> None ->
  tcp_process cx s ip r = Ok (s', rep, tags) -> s_remote_last_ack s' <> None.
Proof.
  intros Hsy Hnsr Hla H. unfold tcp_process in H.
  destruct (negb (tcp_accepts s ip r)); [discriminate|].
  apply obind_ok_inv in H. destruct H as (p1 & H1 & H).
  destruct p1 as [t1 []|t1 s1 rep1].
  2:{ inversion H; subst. exact (sweq_rla _ _ (proj2 (soa_sweq _ _ _ (ack_check_ret _ _ _ _ _ _ _ H1))) Hla). }
  apply obind_ok_inv in H. destruct H as (p2 & H2 & H).
  pose proof (window_view _ _ _ _ _ H2) as P2.
  destruct p2 as [t2 ((s2, payload), off)|t2 s2r rep2].
  2:{ inversion H; subst. exact (sweq_rla _ _ (proj2 P2) Hla). }
  pose proof (frame_rla _ _ P2) as R2. destruct P2 as (_ & S2).
  apply obind_ok_inv in H. destruct H as (((al & aof) & aall) & _ & H).
  apply obind_ok_inv in H. destruct H as (p3 & H3 & H).
  assert (Hsy2 : synced_state (s_state s2)) by (rewrite S2; exact Hsy).
  pose proof (transition_synced _ _ _ _ _ _ _ _ Hsy2 H3) as P3.
  assert (Hla2 : s_remote_last_ack s2 <> None) by (rewrite R2; exact Hla).
  destruct p3 as [t3 s3|t3 s3r rep3].
  2:{ inversion H; subst s3r rep3 tags. destruct P3 as [P3 | [((_ & _ & _ & _ & E & _) & _) | (_ & _ & X)]].
      - exact (sweq_rla _ _ (proj2 (soa_sweq _ _ _ P3)) Hla2).
      - rewrite E. exact Hla2.
      - rewrite S2 in X. contradiction. }
  assert (R3 : s_remote_last_ack s3 <> None).
  { destruct P3 as (_ & [(_ & (_ & _ & _ & _ & E & _)) | (_ & (_ & _ & _ & _ & E & _))]); rewrite E; exact Hla2. }
  apply obind_ok_inv in H. destruct H as ((s4 & wu) & H4 & H).
  pose proof (frame_rla _ _ (update_remote_frame _ _ _ _ _ _ H4)) as R4.
  apply obind_ok_inv in H. destruct H as ((s5 & t5) & H5 & H).
  pose proof (frame_rla _ _ (dup_ack_frame _ _ _ _ _ _ _ H5)) as R5.
  pose proof (frame_rla _ _ (tsval_frame s5 r)) as R5'.
  set (q5 := match r_timestamp r with
             | Some (tsval, _) => upd_last_remote_tsval s5 tsval
             | None => s5
             end) in *. clearbody q5.
  pose proof (frame_rla _ _ (timers_frame cx q5 al aall)) as R6.
  destruct (tcp_process_timers cx q5 al aall) as (s6, t6). cbn [fst] in R6.
  pose proof (frame_rla _ _ (zwp_frame cx s6 al)) as R7.
  destruct (tcp_process_zwp cx s6 al) as (s7, t7). cbn [fst] in R7.
  apply obind_ok_inv in H. destruct H as (((s8 & rep8) & t8) & H8 & H).
  destruct (payload_stf _ _ _ _ _ _ _ _ _ H8) as (_ & _ & E8 & _).
  inversion H; subst s' rep tags. apply E8. congruence.
Qed.

Lemma transition_synsent_rla cx s ip r ctl al aof t s3 :
  s_state s = SynSent -> tcp_process_transition cx s ip r ctl al aof = Ok (Cont t s3) ->
  s_remote_last_ack s3 <> None.
Proof.
  intros Est H. unfold tcp_process_transition in H. rewrite Est in H.
  destruct ctl; cbv beta iota in H; TcpRecvProcess.des_all H; inversion H; subst; clear H.
  all: unfold tcp_set_state; rproj.
  all: repeat match goal with |- context [if ?c then _ else _] => destruct c end; rproj; discriminate.
Qed.

Theorem process_synsent_rla cx s ip r s' rep tags :
  s_state s = SynSent -> tcp_process cx s ip r = Ok (s', rep, tags) -> s_state s' = Established ->
  s_remote_last_ack s' <> None.
Proof.
  intros Hst H Hst'. unfold tcp_process in H.
  destruct (negb (tcp_accepts s ip r)); [discriminate|].
  apply obind_ok_inv in H. destruct H as (p1 & H1 & H).
  destruct p1 as [t1 []|t1 s1 rep1].
  2:{ exfalso. inversion H; subst. destruct (ack_check_ret_stf _ _ _ _ _ _ _ H1) as (E & _). congruence. }
  apply obind_ok_inv in H. destruct H as (p2 & H2 & H).
  assert (E2 : p2 = Cont 128 (s, [], 0)) by (unfold tcp_process_window in H2; rewrite Hst in H2; inversion H2; reflexivity).
  subst p2.
  apply obind_ok_inv in H. destruct H as (((al & aof) & aall) & _ & H).
  apply obind_ok_inv in H. destruct H as (p3 & H3 & H).
  destruct p3 as [t3 s3|t3 s3r rep3].
  2:{ exfalso. destruct (TcpRecvSync.transition_unsynced _ _ _ _ _ _ _ _ (or_intror Hst) H3) as (_ & _ & X).
      inversion H; subst. destruct X as [X | X]; congruence. }
  pose proof (transition_synsent_rla _ _ _ _ _ _ _ _ _ Hst H3) as R3.
  apply obind_ok_inv in H. destruct H as ((s4 & wu) & H4 & H).
  pose proof (frame_rla _ _ (update_remote_frame _ _ _ _ _ _ H4)) as R4.
  apply obind_ok_inv in H. destruct H as ((s5 & t5) & H5 & H).
  pose proof (frame_rla _ _ (dup_ack_frame _ _ _ _ _ _ _ H5)) as R5.
  pose proof (frame_rla _ _ (tsval_frame s5 r)) as R5'.
  set (q5 := match r_timestamp r with
             | Some (tsval, _) => upd_last_remote_tsval s5 tsval
             | None => s5
             end) in *. clearbody q5.
  pose proof (frame_rla _ _ (timers_frame cx q5 al aall)) as R6.
  destruct (tcp_process_timers cx q5 al aall) as (s6, t6). cbn [fst] in R6.
  pose proof (frame_rla _ _ (zwp_frame cx s6 al)) as R7.
  destruct (tcp_process_zwp cx s6 al) as (s7, t7). cbn [fst] in R7.
  rewrite payload_nil in H. cbn [obind] in H. inversion H; subst s' rep tags. congruence.
Qed.
