(* DHCPv4 socket with a zero discover timeout: the model exhibits the spin of the egress loop (property C03; known
   finding dhcp-zero-timeout-spins-poll, D29, reproduced on the real crate: corpus/C03/known/). *)
From SV Require Import Lib.Base Gen.Consts Gen.WireFields Model.Dhcp.

(* a DHCP socket whose retry configuration has discover_timeout = 0: a dispatch that emits leaves the socket in a
   state that is due again at the same instant - dispatching again at that instant emits again and reproduces the
   state, so no measure can decrease: the egress loop of Interface::poll does not end (known finding
   dhcp-zero-timeout-spins-poll, reproduced on the real crate) *)
Definition dhcp_zero_cfg : dhcp_retry_config :=
  mkRetry 0 (rc_initial_request_timeout dhcp_retry_default) (rc_request_retries dhcp_retry_default)
          (rc_min_renew_timeout dhcp_retry_default) (rc_max_renew_timeout dhcp_retry_default).

Lemma dhcp_zero_timeout_never_quiet :
  let s0 := dhcp_set_retry_config dhcp_new dhcp_zero_cfg in
  let now := 1000000 in
  match dhcp_dispatch 1500 now 7 (fun _ => true) s0 with
  | Ok (s1, DrSent _) =>
      match dhcp_dispatch 1500 now 8 (fun _ => true) s1 with
      | Ok (s2, DrSent _) =>
          ds_state s2 = ds_state s1 /\ ds_retry_config s2 = ds_retry_config s1 /\ ds_state s1 = Discovering now
      | _ => False
      end
  | _ => False
  end.
Proof. vm_compute. repeat split. Qed.
