(* C02 (liveness half), layer 9: THE HANDSHAKE MAKES PROGRESS (client side), for every fair schedule
   from a state of the handshake in which the client's SYN is still to be transmitted (in particular:
   from net_init).  Phases, each left within the stated virtual time because the clock of a fair
   schedule never passes tcp_poll_at nor a delivery deadline:
     P0  A (SYN-SENT) has its SYN to transmit: poll_at = Now - the clock stands until A is polled,
         and the poll transmits the SYN
     P1  a SYN is in flight towards the listening B: delivered within Dt; B enters SYN-RECEIVED
         with its SYN|ACK to transmit
     P2  poll_at(B) = Now: the clock stands until B is polled, and the poll transmits the SYN|ACK
     P3  a SYN|ACK is in flight towards A: delivered within Dt; A becomes ESTABLISHED
   syn_eventually_established: A is ESTABLISHED before its clock has advanced by more than 2 Dt.
   The safety facts about every state of the run ([HSR]: the handshake invariant and C01's
   invariant) are not assumed: they are derived for runs from net_init (hsr_run). *)
From SV Require Import Lib.Base Gen.Consts.
From SV Require Import Model.Seq32 Model.Assembler Model.TcpBuf Model.TcpTypes Model.Tcp Model.TcpNet.
From SV Require Import Proofs.TcpSendBase Proofs.TcpLiveBase Proofs.TcpLiveProofs Proofs.TcpLiveMore
  Proofs.TcpLiveProgress.
From SV Require Import Proofs.TcpNetBase.
From SV Require Proofs.TcpNetInv.
From SV Require Import Proofs.TcpProgressBase Proofs.TcpProgressFrame Proofs.TcpProgressCtl Proofs.TcpProgressRecv
  Proofs.TcpProgressSend Proofs.TcpProgressNet Proofs.TcpProgressData Proofs.TcpProgressAck
  Proofs.TcpProgressAll Proofs.TcpProgressSafe Proofs.TcpProgressHs Proofs.TcpProgressHsD Proofs.TcpProgressHsNet
  Proofs.TcpProgressHsInit.

Section Live.
Variables isn Dack Dt Da : Z.

Notation sa st := (net_sock st SA).
Notation sb st := (net_sock st SB).

(* what is known of every state of the run (derived below for runs from net_init) *)
Definition HSR (st : net) : Prop :=
  (pre_hs isn Dack st \/ reg SA Dack st) /\ hs_view isn st /\ NI st /\ opts_ok st.

(* a segment in flight towards z with a delivery deadline at or before T *)
Definition tracked (fa : fair_aux) (st : net) (z : side) (T : Z) : Prop :=
  exists i p t, nth_error (chan_to st z) i = Some p /\ nth_error (fa_dl fa z) i = Some (Some t) /\
                net_now st z <= t /\ t <= T.

Definition needs_tx (s : socket) : Prop := s_remote_last_seq s = s_local_seq_no s.

Lemma tracked_keep fa st ev st' z T :
  fair_ev fa st ev -> net_step st ev = Ok st' ->
  match ev with NDeliver to j => to = z -> nth_error (chan_to st z) j = None | _ => True end ->
  tracked fa st z T -> tracked (fa_after Dt Da fa ev st') st' z T.
Proof.
  intros Hfe H Hnd (i & p & t & Hn & Hdl & Hnow & HT).
  exists i, p, t. split; [exact (fair_step_nth fa st ev st' z i p Hfe H Hn)|].
  split.
  { apply fa_after_dl_keep; [exact Hdl|]. intros to E Eto. subst ev to. specialize (Hnd eq_refl). congruence. }
  split; [|exact HT].
  rewrite (net_step_now _ _ _ z H). destruct ev; try lia.
  exact (tick_respects_dl fa st d z i t Hfe Hdl Hnow).
Qed.

(* a segment emitted in this step towards z is tracked *)
Lemma tracked_new fa st ev st' z p T :
  dl_sync Da fa st -> chan_to st' z = chan_to st z ++ [p] -> net_now st' z + Dt <= T -> 0 <= Dt ->
  tracked (fa_after Dt Da fa ev st') st' z T.
Proof.
  intros Hsy Hch HT HDt. exists (length (chan_to st z)), p, (net_now st' z + Dt).
  split; [rewrite Hch, nth_error_app2 by lia; rewrite Nat.sub_diag; reflexivity|].
  split; [apply (fa_after_dl_new Dt Da fa st ev st' z _ Hsy); rewrite Hch, app_length; cbn [length]; lia|].
  split; [lia | exact HT].
Qed.

(* ---------------------------------------------------------------------------------------- *)
(* what the events do to a socket of the handshake                                           *)
(* ---------------------------------------------------------------------------------------- *)
(* a poll of a SYN-SENT / SYN-RECEIVED socket *)
Lemma disp_eff st w ok e' t :
  NI st -> opts_ok st -> hs_view isn st ->
  (s_state (net_sock st w) = SynSent \/ s_state (net_sock st w) = SynReceived) ->
  s_tuple (net_sock st w) = Some t -> tu_local_addr t = cx_addr (ep_cx (net_get st w)) ->
  ep_step (net_get st w) (EvDispatch ok) = Ok e' ->
  s_state (ep_sock e') = s_state (net_sock st w) /\
  (exists l, ep_out e' = ep_out (net_get st w) ++ l) /\
  (ok = true -> needs_tx (net_sock st w) -> exists p, ep_out e' = ep_out (net_get st w) ++ [p]).
Proof.
  intros HN Ho HV Hst Htu Haddr He.
  destruct (ep_step_spec _ _ _ He) as (s' & out & tags & Hs & Hk & _ & Hout & _).
  destruct (Ho w) as (Hto & _). pose proof (NI_live st w HN) as Il. unfold net_sock in *.
  cbn [tcp_step] in Hs. apply obind_ok in Hs. destruct Hs as (((s1 & res) & tg) & Hd & Hs).
  inversion Hs; subst s1 out tags; clear Hs.
  assert (Hhs : hs_state (s_state (ep_sock (net_get st w)))) by (destruct Hst as [X | X]; [left | right; left]; exact X).
  destruct (dispatch_keeps _ _ _ _ _ _ _ Il Hhs Hto Htu Haddr Hd) as (K1 & _).
  split; [rewrite Hk; exact K1|]. split; [eexists; exact Hout|].
  intros -> Hnt.
  destruct (syn_dispatch_emits _ _ _ _ _ _ Il Hst Hto Htu Haddr Hnt (hv_mtu _ _ HV w) Hd) as (p & ->).
  exists p. exact Hout.
Qed.

(* send / recv *)
Lemma quiet_eff st w ev0 e' :
  ((exists d, ev0 = EvSend d) \/ (exists n, ev0 = EvRecv n)) ->
  ep_step (net_get st w) ev0 = Ok e' ->
  qf (ep_sock e') (net_sock st w) /\ ep_out e' = ep_out (net_get st w).
Proof.
  intros Hev He.
  destruct (ep_step_spec _ _ _ He) as (s' & out & tags & Hs & Hk & _ & Hout & _).
  destruct (quiet_event _ _ _ _ _ _ Hev Hs) as (Hwo & Hq).
  rewrite Hwo in Hout. cbn [opt_list] in Hout. rewrite app_nil_r in Hout.
  split; [rewrite Hk; exact Hq | exact Hout].
Qed.

(* ---------------------------------------------------------------------------------------- *)
(* the phases                                                                                *)
(* ---------------------------------------------------------------------------------------- *)
Definition Jh (T0 dk : Z) (fa : fair_aux) (st : net) : Prop :=
  dl_sync Da fa st /\ net_now st SB - net_now st SA = dk /\ s_state (sa st) = SynSent /\
  ( (s_state (sb st) = Listen /\ needs_tx (sa st) /\ net_now st SA <= T0)
    \/ (s_state (sb st) = Listen /\ tracked fa st SB (T0 + dk + Dt))
    \/ (s_state (sb st) = SynReceived /\ needs_tx (sb st) /\ net_now st SA <= T0 + Dt)
    \/ tracked fa st SA (T0 + 2 * Dt) ).

Definition Qh (fa : fair_aux) (st : net) : Prop := s_state (sa st) = Established.

Lemma Jh_clock T0 dk fa st : 0 <= Dt -> Jh T0 dk fa st -> net_now st SA <= T0 + 2 * Dt.
Proof.
  intros HDt (_ & Hdk & _ & [(_ & _ & H) | [(_ & i & p & t & _ & _ & H1 & H2) | [(_ & _ & H) | (i & p & t & _ & _ & H1 & H2)]]]); lia.
Qed.

Lemma reg_not_synsent st : reg SA Dack st -> s_state (sa st) = SynSent -> False.
Proof. intros HG X. rewrite (rg_est _ _ _ HG SA) in X. discriminate. Qed.

Lemma hsr_phase st :
  HSR st -> (s_state (sa st) = SynSent \/ s_state (sa st) = Established) /\
            (s_state (sb st) = Listen \/ s_state (sb st) = SynReceived \/ s_state (sb st) = Established).
Proof.
  intros ([HP | HG] & _).
  - destruct (ph_phase _ _ _ HP) as [(A & [B | B]) | (A & B)]; auto.
  - rewrite (rg_est _ _ _ HG SA), (rg_est _ _ _ HG SB). auto.
Qed.

(* the clock stands while a SYN has to be transmitted *)
Lemma tick_blocked fa st d z t :
  hs_view isn st -> fair_ev fa st (NTick d) ->
  s_tuple (net_sock st z) = Some t ->
  (s_state (net_sock st z) = SynSent \/ s_state (net_sock st z) = SynReceived) ->
  needs_tx (net_sock st z) -> Z.max 0 d = 0.
Proof.
  intros HV (Hd & Hperm) Htu Hst Hnt. destruct (Z.eq_dec d 0) as [-> | Hnz]; [reflexivity|]. exfalso.
  destruct (Hperm ltac:(lia) z) as (Hpp & _). unfold poll_permits, net_poll_at in Hpp.
  unfold net_sock in *.
  rewrite (syn_poll_now _ _ ltac:(rewrite Htu; discriminate) Hst Hnt (hv_mtu _ _ HV z)) in Hpp. exact Hpp.
Qed.

Lemma Jh_step T0 dk fa st ev st' :
  0 <= Dt -> HSR st -> HSR st' -> Jh T0 dk fa st -> fair_ev fa st ev -> net_step st ev = Ok st' ->
  Qh (fa_after Dt Da fa ev st') st' \/ Jh T0 dk (fa_after Dt Da fa ev st') st'.
Proof.
  intros HDt HR HR' (Hsy & Hdk & Hsa & HPh) Hfe H.
  destruct HR as ([HP | HG] & HV & HN & Ho); [|exfalso; exact (reg_not_synsent _ HG Hsa)].
  pose proof (fa_after_sync Dt Da _ _ _ _ Hsy Hfe H) as Hsy'.
  pose proof (net_step_skew _ _ _ H) as Hdk'. rewrite Hdk in Hdk'.
  destruct (ph_tup _ _ _ HP) as (tA & T1 & T2 & T3 & T4 & T5 & T6 & T7 & T8).
  destruct (net_step_kind _ _ _ H) as [w ev0 e' Hse He -> | to i -> Hnone -> | d -> -> | w isn0 ts -> -> | to i Hd].
  - (* a socket event *)
    assert (Hnow : forall z, net_now (net_set st w e') z = net_now st z).
    { intros z. rewrite (net_step_now _ _ _ z H). destruct ev; try lia. destruct Hse. }
    destruct w.
    + (* at A *)
      destruct ev as [to i | to i | to i | d | z i1 t1 | z ok | z data | z n | z]; cbn [sock_event] in Hse; try contradiction.
      * (* a SYN|ACK arrives: ESTABLISHED *)
        destruct Hse as (_ & q & Hn & ->). left.
        destruct (hs_A_synsent_segment isn Dack st q e' HN Ho HV HP Hsa (nth_error_In _ _ Hn) He) as (_ & X).
        unfold Qh, net_sock. cbn [net_set net_get n_a]. exact X.
      * (* poll *)
        destruct Hse as (_ & ->). pose proof Hfe as Hok. cbn [fair_ev] in Hok. subst ok. right.
        destruct (disp_eff st SA true e' tA HN Ho HV (or_introl Hsa) T1 T2 He) as (D1 & (l & D2) & D3).
        split; [exact Hsy'|]. split; [exact Hdk'|].
        split; [unfold net_sock; cbn [net_set net_get n_a]; rewrite D1; exact Hsa|].
        destruct HPh as [(B1 & B2 & B3) | [(B1 & B2) | [(B1 & B2 & B3) | B1]]].
        -- right. left. split; [exact B1|].
           destruct (D3 eq_refl B2) as (p & Hp).
           apply (tracked_new fa st _ _ SB p); [exact Hsy | unfold chan_to; cbn [side_other net_set net_get n_a]; exact Hp | | exact HDt].
           rewrite Hnow. lia.
        -- right. left. split; [exact B1|]. apply (tracked_keep fa st); [exact Hfe | exact H | exact I | exact B2].
        -- right. right. left. split; [exact B1|]. split; [exact B2|]. rewrite Hnow. exact B3.
        -- right. right. right. apply (tracked_keep fa st); [exact Hfe | exact H | exact I | exact B1].
      * (* send *)
        destruct Hse as (_ & ->). right.
        destruct (quiet_eff st SA (EvSend data) e' ltac:(left; eexists; reflexivity) He) as ((Q1 & _ & _ & Q4 & _ & _ & _ & Q8 & _) & Qo).
        split; [exact Hsy'|]. split; [exact Hdk'|].
        split; [unfold net_sock; cbn [net_set net_get n_a]; rewrite Q1; exact Hsa|].
        destruct HPh as [(B1 & B2 & B3) | [(B1 & B2) | [(B1 & B2 & B3) | B1]]].
        -- left. split; [exact B1|]. split; [|rewrite Hnow; exact B3].
           unfold needs_tx, net_sock in *. cbn [net_set net_get n_a]. rewrite Q4, Q8. exact B2.
        -- right. left. split; [exact B1|]. apply (tracked_keep fa st); [exact Hfe | exact H | exact I | exact B2].
        -- right. right. left. split; [exact B1|]. split; [exact B2|]. rewrite Hnow. exact B3.
        -- right. right. right. apply (tracked_keep fa st); [exact Hfe | exact H | exact I | exact B1].
      * (* recv *)
        destruct Hse as (_ & ->). right.
        destruct (quiet_eff st SA (EvRecv (Z.max 0 n)) e' ltac:(right; eexists; reflexivity) He) as ((Q1 & _ & _ & Q4 & _ & _ & _ & Q8 & _) & Qo).
        split; [exact Hsy'|]. split; [exact Hdk'|].
        split; [unfold net_sock; cbn [net_set net_get n_a]; rewrite Q1; exact Hsa|].
        destruct HPh as [(B1 & B2 & B3) | [(B1 & B2) | [(B1 & B2 & B3) | B1]]].
        -- left. split; [exact B1|]. split; [|rewrite Hnow; exact B3].
           unfold needs_tx, net_sock in *. cbn [net_set net_get n_a]. rewrite Q4, Q8. exact B2.
        -- right. left. split; [exact B1|]. apply (tracked_keep fa st); [exact Hfe | exact H | exact I | exact B2].
        -- right. right. left. split; [exact B1|]. split; [exact B2|]. rewrite Hnow. exact B3.
        -- right. right. right. apply (tracked_keep fa st); [exact Hfe | exact H | exact I | exact B1].
      * (* close: not an event of such a run *)
        destruct Hse as (_ & ->). exfalso.
        destruct (ep_step_spec _ _ _ He) as (s' & out & tags & Hs & Hk & _).
        cbn [tcp_step] in Hs. assert (E : s' = tcp_close (ep_sock (n_a st))) by (inversion Hs; reflexivity).
        destruct (hsr_phase _ HR') as ([X | X] & _); unfold net_sock in X; cbn [net_set net_get n_a] in X;
          rewrite Hk, E in X; unfold tcp_close in X; unfold net_sock in Hsa; cbn [net_get] in Hsa; rewrite Hsa in X;
          unfold tcp_set_state in X; revert X; sproj; discriminate.
    + (* at B *)
      assert (Hsa' : s_state (sa (net_set st SB e')) = SynSent) by exact Hsa.
      destruct ev as [to i | to i | to i | d | z i1 t1 | z ok | z data | z n | z]; cbn [sock_event] in Hse; try contradiction.
      * (* a segment arrives at B *)
        destruct Hse as (-> & p & Hn & ->). pose proof (nth_error_In _ _ Hn) as Hin. right.
        split; [exact Hsy'|]. split; [exact Hdk'|]. split; [exact Hsa'|].
        destruct (ph_toB _ _ _ HP p Hin) as [(Hc & Ha) | (_ & X & _)]; [|rewrite Hsa in X; discriminate].
        assert (Hlisten : s_state (sb st) = Listen ->
                  s_state (sb (net_set st SB e')) = SynReceived /\ needs_tx (sb (net_set st SB e'))).
        { intros B1. destruct (hs_B_listen_segment isn Dack st p e' HN Ho HP B1 Hin He) as (_ & X1 & X2).
          unfold needs_tx, net_sock. cbn [net_set net_get n_b]. auto. }
        assert (Hsynrecv : s_state (sb st) = SynReceived -> net_sock (net_set st SB e') SB = sb st /\
                                                            chan_to (net_set st SB e') SA = chan_to st SA).
        { intros B1. destruct (ep_step_spec _ _ _ He) as (s' & out & tags & Hs & Hk & _ & Hout & _).
          pose proof (T6 B1) as Htb.
          destruct (accepts_of_sent_to_gen _ (mirror tA) (fst p) (wire_parse (snd p)) ltac:(rewrite B1; discriminate)
                      ltac:(rewrite B1; discriminate) Htb (mirror_nz _ T4) (sent_to_parse _ _ (T7 p Hin))) as (A1 & A2 & A3).
          unfold net_sock in *. cbn [net_get] in *.
          cbn [tcp_step] in Hs. apply obind_ok in Hs. destruct Hs as (((s1 & rep) & tg) & Hi & Hs).
          assert (E1 : s1 = s' /\ out = OReply rep) by (inversion Hs; auto). destruct E1 as (-> & ->).
          unfold iface_tcp_ingress in Hi. rewrite A1, A2, A3 in Hi.
          assert (N1 : s_state (ep_sock (n_b st)) <> Listen) by (rewrite B1; discriminate).
          assert (N2 : s_state (ep_sock (n_b st)) <> SynSent) by (rewrite B1; discriminate).
          assert (Hc' : r_control (wire_parse (snd p)) = CSyn) by (unfold wire_parse; cbn [r_control]; exact Hc).
          assert (Ha' : r_ack_number (wire_parse (snd p)) = None) by (unfold wire_parse; cbn [r_ack_number]; rewrite Ha; reflexivity).
          destruct (process_syn_dropped _ _ (fst p) (wire_parse (snd p)) _ _ _ N1 N2 Hc' Ha' Hi) as (-> & ->).
          cbn [wire_out opt_list] in Hout. rewrite app_nil_r in Hout.
          split; [cbn [net_set net_get n_b]; exact Hk | unfold chan_to; cbn [side_other net_set net_get n_b]; exact Hout]. }
        destruct HPh as [(B1 & B2 & B3) | [(B1 & B2) | [(B1 & B2 & B3) | B1]]].
        -- destruct (Hlisten B1) as (X1 & X2). right. right. left. split; [exact X1|]. split; [exact X2|]. rewrite Hnow. lia.
        -- destruct (Hlisten B1) as (X1 & X2). right. right. left. split; [exact X1|]. split; [exact X2|].
           rewrite Hnow. destruct B2 as (i0 & p0 & t0 & _ & _ & Y1 & Y2). lia.
        -- destruct (Hsynrecv B1) as (X1 & _). right. right. left. rewrite X1. split; [exact B1|]. split; [exact B2|]. rewrite Hnow. exact B3.
        -- right. right. right. apply (tracked_keep fa st); [exact Hfe | exact H | | exact B1]. intros X; discriminate.
      * (* poll *)
        destruct Hse as (_ & ->). pose proof Hfe as Hok. cbn [fair_ev] in Hok. subst ok. right.
        split; [exact Hsy'|]. split; [exact Hdk'|]. split; [exact Hsa'|].
        assert (Hl : s_state (sb st) = Listen -> net_sock (net_set st SB e') SB = sb st).
        { intros B1. destruct (ep_step_spec _ _ _ He) as (s' & out & tags & Hs & Hk & _).
          destruct (T5 B1) as (L1 & _). unfold net_sock in *. cbn [net_get] in *.
          cbn [tcp_step] in Hs. unfold tcp_dispatch in Hs. rewrite L1 in Hs. cbn [obind] in Hs.
          cbn [net_set net_get n_b]. rewrite Hk. inversion Hs; reflexivity. }
        destruct HPh as [(B1 & B2 & B3) | [(B1 & B2) | [(B1 & B2 & B3) | B1]]].
        -- left. rewrite (Hl B1). split; [exact B1|]. split; [exact B2|]. rewrite Hnow. exact B3.
        -- right. left. rewrite (Hl B1). split; [exact B1|]. apply (tracked_keep fa st); [exact Hfe | exact H | exact I | exact B2].
        -- pose proof (T6 B1) as Htb.
           assert (Hla : tu_local_addr (mirror tA) = cx_addr (ep_cx (net_get st SB))) by (unfold mirror; cbn; exact T3).
           destruct (disp_eff st SB true e' (mirror tA) HN Ho HV (or_intror B1) Htb Hla He) as (D1 & _ & D3).
           destruct (D3 eq_refl B2) as (q & Hq).
           right. right. right.
           apply (tracked_new fa st _ _ SA q); [exact Hsy | unfold chan_to; cbn [side_other net_set net_get n_b]; exact Hq | | exact HDt].
           rewrite Hnow. lia.
        -- right. right. right. apply (tracked_keep fa st); [exact Hfe | exact H | exact I | exact B1].
      * (* send at B: refused in LISTEN / SYN-RECEIVED *)
        destruct Hse as (_ & ->). right.
        destruct (quiet_eff st SB (EvSend data) e' ltac:(left; eexists; reflexivity) He) as ((Q1 & _ & _ & Q4 & _ & _ & _ & Q8 & _) & Qo).
        split; [exact Hsy'|]. split; [exact Hdk'|]. split; [exact Hsa'|].
        destruct HPh as [(B1 & B2 & B3) | [(B1 & B2) | [(B1 & B2 & B3) | B1]]].
        -- left. split; [unfold net_sock; cbn [net_set net_get n_b]; rewrite Q1; exact B1|]. split; [exact B2|]. rewrite Hnow. exact B3.
        -- right. left. split; [unfold net_sock; cbn [net_set net_get n_b]; rewrite Q1; exact B1|].
           apply (tracked_keep fa st); [exact Hfe | exact H | exact I | exact B2].
        -- right. right. left. split; [unfold net_sock; cbn [net_set net_get n_b]; rewrite Q1; exact B1|].
           split; [unfold needs_tx, net_sock in *; cbn [net_set net_get n_b]; rewrite Q4, Q8; exact B2|]. rewrite Hnow. exact B3.
        -- right. right. right. apply (tracked_keep fa st); [exact Hfe | exact H | exact I | exact B1].
      * (* recv at B *)
        destruct Hse as (_ & ->). right.
        destruct (quiet_eff st SB (EvRecv (Z.max 0 n)) e' ltac:(right; eexists; reflexivity) He) as ((Q1 & _ & _ & Q4 & _ & _ & _ & Q8 & _) & Qo).
        split; [exact Hsy'|]. split; [exact Hdk'|]. split; [exact Hsa'|].
        destruct HPh as [(B1 & B2 & B3) | [(B1 & B2) | [(B1 & B2 & B3) | B1]]].
        -- left. split; [unfold net_sock; cbn [net_set net_get n_b]; rewrite Q1; exact B1|]. split; [exact B2|]. rewrite Hnow. exact B3.
        -- right. left. split; [unfold net_sock; cbn [net_set net_get n_b]; rewrite Q1; exact B1|].
           apply (tracked_keep fa st); [exact Hfe | exact H | exact I | exact B2].
        -- right. right. left. split; [unfold net_sock; cbn [net_set net_get n_b]; rewrite Q1; exact B1|].
           split; [unfold needs_tx, net_sock in *; cbn [net_set net_get n_b]; rewrite Q4, Q8; exact B2|]. rewrite Hnow. exact B3.
        -- right. right. right. apply (tracked_keep fa st); [exact Hfe | exact H | exact I | exact B1].
      * (* close at B: not an event of such a run *)
        destruct Hse as (_ & ->). exfalso.
        destruct (ep_step_spec _ _ _ He) as (s' & out & tags & Hs & Hk & _).
        cbn [tcp_step] in Hs. assert (E : s' = tcp_close (ep_sock (n_b st))) by (inversion Hs; reflexivity).
        destruct (hsr_phase _ HR') as ([X0 | X0] & Hb'); [|unfold net_sock in X0, Hsa; cbn [net_set net_get n_a] in X0, Hsa; congruence].
        destruct HR' as ([HP' | HG'] & _); [|exact (reg_not_synsent _ HG' X0)].
        destruct (ph_phase _ _ _ HP') as [(_ & Y) | (Y & _)]; [|rewrite X0 in Y; discriminate].
        unfold net_sock in Y. cbn [net_set net_get n_b] in Y. rewrite Hk, E in Y. unfold tcp_close in Y.
        destruct HPh as [(B1 & _) | [(B1 & _) | [(B1 & _) | B1]]]; unfold net_sock in B1; cbn [net_get] in B1.
        -- rewrite B1 in Y. unfold tcp_set_state in Y. revert Y. sproj. intros [Y | Y]; discriminate.
        -- rewrite B1 in Y. unfold tcp_set_state in Y. revert Y. sproj. intros [Y | Y]; discriminate.
        -- rewrite B1 in Y. unfold tcp_set_state in Y. revert Y. sproj. intros [Y | Y]; discriminate.
        -- destruct B1 as (i0 & q0 & t0 & Hn0 & _). destruct (ph_toA _ _ _ HP q0 (nth_error_In _ _ Hn0)) as (Z1 & _).
           unfold net_sock in Z1. cbn [net_get] in Z1. rewrite Z1 in Y. unfold tcp_set_state in Y. revert Y. sproj. intros [Y | Y]; discriminate.
  - (* a delivery of nothing *)
    right. split; [exact Hsy'|]. split; [exact Hdk'|]. split; [exact Hsa|].
    assert (Hnow : forall z, net_now st z = net_now st z) by reflexivity.
    destruct HPh as [B | [(B1 & B2) | [B | B1]]].
    + left. exact B.
    + right. left. split; [exact B1|]. apply (tracked_keep fa st); [exact Hfe | exact H | | exact B2]. intros ->. exact Hnone.
    + right. right. left. exact B.
    + right. right. right. apply (tracked_keep fa st); [exact Hfe | exact H | | exact B1]. intros ->. exact Hnone.
  - (* the clock *)
    right. split; [exact Hsy'|]. split; [exact Hdk'|].
    assert (Es : forall z, net_sock (tick_net st d) z = net_sock st z) by (intros z; destruct z; reflexivity).
    split; [rewrite Es; exact Hsa|].
    assert (Hn : forall z, net_now (tick_net st d) z = net_now st z + Z.max 0 d) by (intros z; destruct z; reflexivity).
    destruct HPh as [(B1 & B2 & B3) | [(B1 & B2) | [(B1 & B2 & B3) | B1]]].
    + left. rewrite !Es. split; [exact B1|]. split; [exact B2|].
      rewrite Hn, (tick_blocked fa st d SA tA HV Hfe T1 (or_introl Hsa) B2). lia.
    + right. left. rewrite Es. split; [exact B1|]. apply (tracked_keep fa st); [exact Hfe | exact H | exact I | exact B2].
    + right. right. left. rewrite !Es. split; [exact B1|]. split; [exact B2|].
      rewrite Hn, (tick_blocked fa st d SB (mirror tA) HV Hfe (T6 B1) (or_intror B1) B2). lia.
    + right. right. right. apply (tracked_keep fa st); [exact Hfe | exact H | exact I | exact B1].
  - (* the random number generator *)
    right. split; [exact Hsy'|]. split; [exact Hdk'|].
    assert (Es : forall z, net_sock (net_set st w (ep_set_cx (net_get st w) (cx_rand (ep_cx (net_get st w)) isn0 ts))) z = net_sock st z).
    { intros z. unfold net_sock. destruct (side_cases w z) as [-> | ->]; [rewrite net_get_set_same | rewrite net_get_set_other]; reflexivity. }
    assert (Hn : forall z, net_now (net_set st w (ep_set_cx (net_get st w) (cx_rand (ep_cx (net_get st w)) isn0 ts))) z = net_now st z).
    { intros z. rewrite (net_step_now _ _ _ z H). lia. }
    split; [rewrite Es; exact Hsa|].
    destruct HPh as [(B1 & B2 & B3) | [(B1 & B2) | [(B1 & B2 & B3) | B1]]].
    + left. rewrite !Es, Hn. auto.
    + right. left. rewrite Es. split; [exact B1|]. apply (tracked_keep fa st); [exact Hfe | exact H | exact I | exact B2].
    + right. right. left. rewrite !Es, Hn. auto.
    + right. right. right. apply (tracked_keep fa st); [exact Hfe | exact H | exact I | exact B1].
  - (* losses are excluded by fairness *)
    destruct Hd as [-> | ->]; destruct Hfe.
Qed.

End Live.

(* ---------------------------------------------------------------------------------------- *)
(* the safety facts hold of every state of a run from net_init                               *)
(* ---------------------------------------------------------------------------------------- *)
Module NVL := TcpNetInv.

Theorem hsr_run_all Dack ca cb st0 : start_ok Dack ca cb st0 ->
  forall evs pre st1 st,
  net_run st0 pre = Ok st1 -> hs_inv (cx_isn (ep_cx (n_a st0))) Dack st1 -> opts_ok st1 ->
  Forall (script_ev SA) evs -> net_run st1 evs = Ok st -> NVL.small st ->
  run_all (HSR (cx_isn (ep_cx (n_a st0))) Dack) st1 evs.
Proof.
  intros Hstart. pose proof Hstart as (Hi & Hstart0 & Ga & Gb & Pa & Pb & Haddr & Hdel).
  set (isn := cx_isn (ep_cx (n_a st0))).
  assert (Hhere : forall pre st1, net_run st0 pre = Ok st1 -> hs_inv isn Dack st1 -> opts_ok st1 -> NVL.small st1 ->
                                  HSR isn Dack st1).
  { intros pre st1 Hpre Hinv Ho Hsm1.
    destruct (hs_inv_closed _ _ _ Hinv) as (Hcl1 & Hbw1).
    pose proof (INVo_reach _ _ _ _ _ Ga Gb Hi Hpre Hsm1 Hcl1) as HI1.
    assert (Hre1 : reach st1) by (exists ca, cb, st0, pre; auto).
    split; [exact Hinv|]. split; [exact (INVo_view _ _ HI1 Hbw1)|]. split; [exact (reach_NI _ Hre1) | exact Ho]. }
  induction evs as [|ev rest IH]; intros pre st1 st Hpre Hinv Ho Hsc Hrun Hsm.
  - cbn [net_run] in Hrun. inversion Hrun; subst st. cbn [run_all]. split; [|exact I].
    exact (Hhere pre st1 Hpre Hinv Ho Hsm).
  - cbn [net_run] in Hrun. apply obind_ok in Hrun. destruct Hrun as (st2 & Hs & Hrun).
    inversion Hsc as [|? ? Hsc1 Hsc2]; subst.
    pose proof (net_run_mono _ _ _ Hrun) as Hm2. pose proof (net_step_mono _ _ _ Hs) as Hm1.
    assert (Hsm2 : NVL.small st2) by exact (NVL.small_mono _ _ Hm2 Hsm).
    assert (Hsm1 : NVL.small st1) by exact (NVL.small_mono _ _ Hm1 Hsm2).
    assert (Hpre2 : net_run st0 (pre ++ [ev]) = Ok st2).
    { apply (net_run_app pre [ev] st0 st1 st2 Hpre). cbn [net_run]. rewrite Hs. reflexivity. }
    destruct (hs_run Dack ca cb st0 Hstart [ev] pre st1 st2 Hpre Hinv Ho ltac:(constructor; [exact Hsc1 | constructor])
                ltac:(cbn [net_run]; rewrite Hs; reflexivity) Hsm2) as (Hinv2 & Ho2).
    cbn [run_all]. rewrite Hs. split; [exact (Hhere pre st1 Hpre Hinv Ho Hsm1)|].
    exact (IH (pre ++ [ev]) st2 st Hpre2 Hinv2 Ho2 Hsc2 Hrun Hsm).
Qed.

(* SYN EVENTUALLY ESTABLISHED (client side).  From net_init, on every fair schedule of the one-way
   workload, A is ESTABLISHED before its clock has advanced by more than 2 Dt. *)
Theorem syn_eventually_established Dt Da Dack ca cb st0 : forall evs st',
  start_ok Dack ca cb st0 -> fair_schedule Dt Da st0 evs ->
  Forall (app_ev SA) evs -> net_run st0 evs = Ok st' -> NVL.small st' ->
  net_now st0 SA + 2 * Dt < net_now st' SA ->
  exists pre post st1, evs = pre ++ post /\ net_run st0 pre = Ok st1 /\ net_run st1 post = Ok st' /\
                       s_state (net_sock st1 SA) = Established.
Proof.
  intros evs st' Hstart (HDt & HDa & Ho & Hfair) Happ Hrun Hsm Hlate.
  pose proof Hstart as (Hi & Hst0 & Ga & Gb & Pa & Pb & Haddr & Hdel).
  set (isn := cx_isn (ep_cx (n_a st0))).
  destruct (hs_init ca cb st0 isn Dack Hi Hst0 Pa Pb Haddr Hdel) as (HP0 & Ho0).
  pose proof (hsr_run_all Dack ca cb st0 Hstart evs [] st0 st' eq_refl (or_introl HP0) Ho0 Happ Hrun Hsm) as HRall.
  set (dk := net_now st0 SB - net_now st0 SA).
  assert (HJ0 : Jh Dt Da (net_now st0 SA) dk (fa_init Dt Da st0) st0).
  { unfold net_started in Hst0. apply andb_true_iff in Hst0. destruct Hst0 as (S1 & S2).
    apply state_eqb_eq in S1. apply state_eqb_eq in S2.
    split; [apply fa_init_sync|]. split; [reflexivity|]. split; [exact S1|]. left.
    split; [exact S2|]. split; [|lia].
    destruct Pa as (_ & Ka). apply (init_needs_tx ca cb st0 Hi); [|exact Ka].
    unfold net_started. rewrite S1, S2. reflexivity. }
  destruct (fair_leads_under_last Dt Da (HSR isn Dack) (Jh Dt Da (net_now st0 SA) dk) (Qh) SA
              (net_now st0 SA + 2 * Dt)
              (fun fa st HJ => Jh_clock Dt Da _ _ fa st HDt HJ)
              (fun fa st ev st1 HR HR' HJ Hfe Hs => Jh_step isn Dack Dt Da _ _ fa st ev st1 HDt HR HR' HJ Hfe Hs)
              evs _ st0 st' HJ0 HRall Hfair Hrun Hlate)
    as (pre & post & fa1 & st1 & E & Hp1 & Hp2 & _ & _ & HQ & _).
  exists pre, post, st1. auto.
Qed.
