(* C01, layer 1: what the end-to-end composition consumes from the sender proofs (C05), written as
   ONE statement [c05_contract] over Model/Tcp.v's [tcp_step] and TcpSendInv's ghost / [inv].
   Proofs/TcpNetCompose.v proves the system invariant from this contract (as a Section hypothesis)
   and from C04's closed theorems; Proofs/TcpNetProofs.v instantiates it with C05's theorem.

   Reading guide.  [g] is the sender ghost before the step, [g'] after.  Sequence offsets count the
   SYN: offset 0 is the SYN, stream octet k has offset k+1, the FIN has offset |stream|+1;
   [g_una] is SND.UNA as an offset.  A segment "carries" something when it has payload or FIN. *)
From SV Require Import Lib.Base Gen.Consts.
From SV Require Import Model.Seq32 Model.Assembler Model.TcpBuf Model.TcpTypes Model.Tcp Model.TcpNet.
From SV Require Import Proofs.TcpSendBase Proofs.TcpSendInv.
From SV Require Proofs.TcpLiveProofs.
From SV Require Import Proofs.TcpNetBase.

(* what a step hands to the wire (= Model/TcpNet.v's [wire_out]): a reply of process_tcp, or a
   segment dispatch handed to a device that had a transmit token *)
Definition tx_emitted (out : step_out) : option packet :=
  match out with
  | OReply (Some p) => Some p
  | ODispatch (DSent p) => Some p
  | _ => None
  end.

Definition carries (r : tcp_repr) : Prop := 0 < l_len (r_payload r) \/ r_control r = CFin.

(* tx_payload_is_stream + fin_after_all_data_nothing_after, per emitted segment *)
Definition tx_stream_seg (g : ghost) (r : tcp_repr) : Prop :=
  let n := l_len (r_payload r) in
  exists k, 0 <= k /\ r_seq_number r = sq (g_iss g + 1 + k) /\
            r_payload r = l_slice k n (g_stream g) /\ k + n <= l_len (g_stream g) /\
            (r_control r = CFin -> g_fin g = true /\ k + n = l_len (g_stream g)).

(* a keep-alive probe: one garbage octet strictly below SND.UNA *)
Definition tx_ka_seg (g : ghost) (r : tcp_repr) : Prop :=
  l_len (r_payload r) = 1 /\ r_control r = CNone /\
  exists u, 0 <= u < g_una g /\ r_seq_number r = sq (g_iss g + u).

Definition tx_pkt_ok (g : ghost) (p : packet) : Prop :=
  let r := snd p in
  l_len (r_payload r) <= 65535 /\
  (r_control r = CSyn -> l_len (r_payload r) = 0 /\ r_seq_number r = sq (g_iss g)) /\
  (r_control r = CRst -> l_len (r_payload r) = 0) /\
  (carries r -> g_phase g <> PSyn /\ (tx_stream_seg g r \/ tx_ka_seg g r)).

(* the step stays in the connection epoch *)
Definition tx_same (g : ghost) (s : socket) (ev : event) (g' : ghost) (out : step_out) : Prop :=
  g_iss g' = g_iss g /\
  g_stream g' = log_written (g_stream g) ev out /\
  g_fin g' = log_closed (g_fin g) (s_state s) ev /\
  (g_fin g = true -> g_stream g' = g_stream g) /\
  (g_phase g <> PSyn -> g_phase g' <> PSyn) /\
  g_una g <= g_una g' /\
  (g_phase g = PSyn -> g_una g' <= 1) /\
  (* SND.UNA moves only by the exact acknowledgement number of an accepted non-RST segment *)
  (g_una g < g_una g' ->
     exists ip r, ev = EvSegment ip r /\ tcp_accepts s ip r = true /\ r_control r <> CRst /\
                  r_ack_number r = Some (sq (g_iss g + g_una g'))).

(* a fresh ghost: nothing written, nothing sent but (possibly) SYNs *)
Definition tx_blank (g : ghost) : Prop :=
  g_stream g = [] /\ g_fin g = false /\ g_phase g = PSyn.

(* the step starts a new epoch: the socket was reset (address removed); a blank epoch is replaced
   by a blank one with a new initial sequence number (SYN accepted in LISTEN, SYN-RECEIVED falling
   back to LISTEN); or the application called listen() / connect() (from any finished connection) *)
Definition tx_new (cx : ctx) (g : ghost) (s : socket) (ev : event) (g' : ghost) (s' : socket)
           (out : step_out) : Prop :=
  tx_blank g' /\
  ((s_state s' = Closed /\ tx_emitted out = None) \/
   match ev with
   | EvSegment _ _ => tx_blank g /\ (s_state s = Listen \/ s_state s' = Listen)
   | EvListen _ => True
   | EvConnect _ _ _ => g_iss g' = cx_isn cx
   | _ => False
   end).

(* the MTU leaves room for a segment with every option and does not exceed an IP datagram *)
Definition mtu_ok (cx : ctx) : Prop := 52 < cx_ip_mtu cx <= 65575.

Definition c05_contract : Prop :=
  forall cx g s ev s' out tags,
    inv g s -> ctx_ok cx -> mtu_ok cx -> TcpLiveProofs.tcp_live_inv s ->
    match ev with EvSegment ip r => repr_ok r | _ => True end ->
    tcp_step cx s ev = Ok (s', out, tags) ->
    exists g', inv g' s' /\
               (tx_same g s ev g' out \/ tx_new cx g s ev g' s' out) /\
               (forall p, tx_emitted out = Some p -> tx_pkt_ok g' p).

(* base case *)
Definition c05_contract_new : Prop :=
  forall rxs txs cc ts s, tcp_new rxs txs cc ts = Ok s -> l_len txs <= 2 ^ 30 -> inv ghost0 s.
