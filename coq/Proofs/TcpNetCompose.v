(* C01, layer 2: the invariant of the two-endpoint system and its preservation, from
   - C04 (Proofs/TcpRecvTheorems.v, closed theorems): a receiver fed segments consistent with a
     stream (S, F) keeps its buffer/assembler/delivered octets consistent with S, and reports
     Finished only at F;
   - C05 (as the Section hypothesis [c05], see Proofs/TcpNetContract.v): every segment a sender
     emits carries its application's stream at the offset its sequence number denotes;
   - "channel is a subset of emitted" (Proofs/TcpNetBase.v).
   The glue proved here: sequence numbers of the two sockets denote the same stream offsets
   (the receiver's irs is the ISS of the epoch in which the sender sends data - the three-way
   handshake argument), wrap-around of 32-bit sequence numbers (Seq32 transfer under the age
   hypothesis), SND.UNA of one side never exceeds RCV.NXT of the other (so the garbage octet of a
   keep-alive probe always lies below RCV.NXT). *)
From SV Require Import Lib.Base Gen.Consts.
From SV Require Import Model.Seq32 Model.Assembler Model.TcpBuf Model.TcpTypes Model.Tcp Model.TcpNet.
From SV Require Import Proofs.AssemblerProofs Proofs.TcpRecvBase Proofs.TcpRecvWindow
  Proofs.TcpRecvPayload Proofs.TcpRecvInv Proofs.TcpRecvProcess Proofs.TcpRecvStep
  Proofs.TcpRecvSync Proofs.TcpRecvDispatch Proofs.TcpRecvTrace Proofs.TcpRecvTheorems.
From SV Require Import Proofs.TcpSendBase Proofs.TcpSendInv.
From SV Require Import Proofs.TcpNetBase Proofs.TcpNetContract.

Notation rxghost := TcpRecvTrace.ghost.
Notation txghost := TcpSendInv.ghost.
Notation rznth := TcpRecvBase.znth.

(* ---------------------------------------------------------------------------------------- *)
(* arithmetic                                                                                *)
(* ---------------------------------------------------------------------------------------- *)
Lemma sq_norm x : sq x = seq_norm x.
Proof. reflexivity. Qed.

Lemma sq_idem_add a b : sq (sq a + b) = sq (a + b).
Proof. unfold sq. rewrite Zplus_mod_idemp_l. reflexivity. Qed.

Lemma sq_succ_inj a b : sq (a + 1) = sq (b + 1) -> sq a = sq b.
Proof. unfold sq. intros H. change (2 ^ 32) with 4294967296 in *. lia. Qed.

Lemma sq_range' x : 0 <= sq x < 4294967296.
Proof. unfold sq. change (2 ^ 32) with 4294967296. lia. Qed.

Lemma sq_small' x : 0 <= x < 4294967296 -> sq x = x.
Proof. intros H. unfold sq. change (2 ^ 32) with 4294967296. apply Z.mod_small. exact H. Qed.

(* offsets congruent modulo 2^32 and closer than 2^32 are equal *)
Lemma sq_offsets_eq b x y : sq (b + x) = sq (b + y) -> - 4294967296 < x - y < 4294967296 -> x = y.
Proof. unfold sq. change (2 ^ 32) with 4294967296. intros H Hr. lia. Qed.

Lemma znth_conv l i : TcpSendBase.znth l i = rznth l i.
Proof. reflexivity. Qed.

(* ---------------------------------------------------------------------------------------- *)
(* the stream oracle of one direction                                                        *)
(* ---------------------------------------------------------------------------------------- *)
(* (S, F) is compatible with what endpoint [e] has written so far: S extends the written octets,
   F (the position of the FIN) is not before the end of what was written, and is exactly that end
   once the application has closed. *)
Definition compat (S : Z -> Z) (F : option Z) (e : endpoint) : Prop :=
  (forall j, 0 <= j < l_len (ep_written e) -> rznth (ep_written e) j = S j) /\
  (forall f, F = Some f -> l_len (ep_written e) <= f) /\
  (ep_closed e = true -> F = Some (l_len (ep_written e))).

Lemma prefix_len {A} (a b : list A) : prefix a b -> (length a <= length b)%nat.
Proof. intros (c & ->). rewrite app_length. lia. Qed.

Lemma l_len_prefix a b : prefix a b -> l_len a <= l_len b.
Proof. intros H. apply prefix_len in H. rewrite !TcpRecvBase.l_len_spec. lia. Qed.

Lemma znth_prefix a b j : prefix a b -> 0 <= j < l_len a -> rznth b j = rznth a j.
Proof.
  intros (c & ->) Hj. unfold rznth. rewrite app_nth1; [reflexivity|].
  rewrite TcpRecvBase.l_len_spec in Hj. lia.
Qed.

(* the oracle read off a later state is compatible with every earlier state *)
Lemma compat_mono S F e e' :
  ep_mono e e' -> (ep_closed e = true -> ep_written e' = ep_written e) -> compat S F e' -> compat S F e.
Proof.
  intros (Hw & _ & _ & Hc & _) Hfr (C1 & C2 & C3). unfold compat.
  pose proof (l_len_prefix _ _ Hw) as Hl.
  split; [|split].
  - intros j Hj. rewrite <- (znth_prefix _ _ j Hw Hj). apply C1. lia.
  - intros f Hf. specialize (C2 f Hf). lia.
  - intros Hcl. rewrite <- (Hfr Hcl). apply C3. apply Hc. exact Hcl.
Qed.

Definition oracle_S (w : list Z) : Z -> Z := fun j => rznth w j.
Definition oracle_F (w : list Z) (closed : bool) : option Z := if closed then Some (l_len w) else None.

Lemma compat_oracle e : compat (oracle_S (ep_written e)) (oracle_F (ep_written e) (ep_closed e)) e.
Proof.
  unfold compat, oracle_S, oracle_F. split; [reflexivity|]. split.
  - intros f. destruct (ep_closed e); [|discriminate]. intros H; inversion H; lia.
  - intros ->. reflexivity.
Qed.

(* ---------------------------------------------------------------------------------------- *)
(* what an in-flight segment must be (time-invariant)                                        *)
(* ---------------------------------------------------------------------------------------- *)
(* [j] = the (normalised) ISS of the epoch in which the sender sends data, [L] = number of octets
   written so far, [R] = the receiver's RCV.NXT as a sequence offset (octets + FIN received) *)
Definition data_at (S : Z -> Z) (F : option Z) (j L : Z) (r : tcp_repr) : Prop :=
  let n := l_len (r_payload r) in
  exists k, 0 <= k /\ r_seq_number r = sq (j + 1 + k) /\
            (forall i, 0 <= i < n -> rznth (r_payload r) i = S (k + i)) /\
            k + n <= L /\ (r_control r = CFin -> F = Some (k + n)).

Definition ka_at (j R : Z) (r : tcp_repr) : Prop :=
  l_len (r_payload r) = 1 /\ r_control r = CNone /\
  exists u, 0 <= u <= R /\ r_seq_number r = sq (j + u).

Definition pkt_wf (r : tcp_repr) : Prop :=
  0 <= r_seq_number r < 2 ^ 32 /\ 0 <= l_len (r_payload r) <= 65535 /\
  match r_ack_number r with Some a => 0 <= a < 2 ^ 32 | None => True end /\
  0 <= r_window_len r <= 65535 /\
  match r_window_scale r with Some v => 0 <= v | None => True end.

Definition pkt_good (S : Z -> Z) (F : option Z) (J : option Z) (L R : Z) (p : packet) : Prop :=
  let r := snd p in
  pkt_wf r /\
  (carries r -> exists j, J = Some j /\ (data_at S F j L r \/ ka_at j R r)).

Lemma pkt_good_mono S F J L R L' R' p :
  L <= L' -> R <= R' -> pkt_good S F J L R p -> pkt_good S F J L' R' p.
Proof.
  intros HL HR (Hwf & Hc). split; [exact Hwf|]. intros Hcar.
  destruct (Hc Hcar) as (j & HJ & [Hd | Hk]); exists j; (split; [exact HJ|]).
  - left. destruct Hd as (k & H1 & H2 & H3 & H4 & H5). exists k. repeat split; try assumption. lia.
  - right. destruct Hk as (H1 & H2 & u & H3 & H4). split; [exact H1|]. split; [exact H2|].
    exists u. split; [lia | exact H4].
Qed.

Lemma pkt_good_set_J S F L R p j :
  pkt_good S F None L R p -> pkt_good S F (Some j) L R p.
Proof.
  intros (Hwf & Hc). split; [exact Hwf|]. intros Hcar.
  destruct (Hc Hcar) as (j0 & HJ & _). discriminate.
Qed.

Lemma repr_ok_parse r : pkt_wf r -> repr_ok (wire_parse r).
Proof.
  intros (H1 & H2 & H3 & H4 & H5). unfold repr_ok, wire_parse.
  cbn [r_seq_number r_ack_number r_window_len r_window_scale].
  split; [exact H1|]. split; [exact H3|]. split; [exact H4|].
  unfold wire_clamp_wscale. destruct (r_window_scale r) as [v|]; [|exact I].
  destruct (Z.gtb_spec v 14); lia.
Qed.

(* ---------------------------------------------------------------------------------------- *)
(* the age hypothesis (MSL), on model states only                                            *)
(* ---------------------------------------------------------------------------------------- *)
(* RCV.NXT of endpoint [e] as a sequence offset of the peer's stream: octets handed to the
   application + octets in the receive buffer + the FIN *)
Definition rcv_off (e : endpoint) : Z :=
  l_len (ep_read e) + rb_len (s_rx_buffer (ep_sock e)) + b2z (s_rx_fin_received (ep_sock e)).

(* SND.UNA of endpoint [e] as a sequence offset of its own stream (octets acknowledged) *)
Definition una_off (e : endpoint) : Z :=
  l_len (ep_written e) - rb_len (s_tx_buffer (ep_sock e)).

(* Segment [r], about to be handed to endpoint [e] whose peer is [pe]:
   - every position k of the peer's stream (k = -1: the SYN; k = |written|: the FIN) that r's
     sequence number can denote - i.e. that is congruent to it modulo 2^32, counted from e's
     RCV.NXT - lies within 2^31 of RCV.NXT;
   - every amount c of e's own stream that r's acknowledgement number can denote lies within 2^31
     of what is acknowledged so far.
   This is RFC 9293's assumption that no segment survives in the network while 2^31 octets of
   sequence space are consumed.  It is implied by "fewer than 2^31 octets written in each
   direction" ([seg_age_small]), so C01 is unconditional for transfers below 2 GiB; beyond that a
   32-bit sequence number denotes several stream positions and nothing in the segment tells them
   apart - only the bound on segment lifetime does. *)
Definition seg_age (e pe : endpoint) (r : tcp_repr) : Prop :=
  (forall k, -1 <= k <= l_len (ep_written pe) ->
     r_seq_number r = seq_norm (tcp_window_start (ep_sock e) + (k - rcv_off e)) ->
     - 2147483648 <= k - rcv_off e < 2147483648) /\
  (forall a c, r_ack_number r = Some a -> 0 <= c <= l_len (ep_written e) + 1 ->
     a = seq_norm (s_local_seq_no (ep_sock e) + (c - una_off e)) ->
     - 2147483648 <= c - una_off e < 2147483648).

(* the hypothesis on the adversary: every NDeliver of a run satisfies seg_age *)
Fixpoint run_age (st : net) (evs : list net_event) : Prop :=
  match evs with
  | [] => True
  | ev :: rest =>
      match ev with
      | NDeliver to i =>
          match nth_error (ep_out (net_get st (side_other to))) i with
          | Some p => seg_age (net_get st to) (net_get st (side_other to)) (snd p)
          | None => True
          end
      | _ => True
      end /\
      match net_step st ev with
      | Ok st' => run_age st' rest
      | _ => True
      end
  end.

(* ---------------------------------------------------------------------------------------- *)
(* the ghost of one endpoint and the invariant                                               *)
(* ---------------------------------------------------------------------------------------- *)
Record eghost := mkEg {
  eg_tx : txghost;       (* C05's sender ghost *)
  eg_rx : rxghost;       (* C04's receiver ghost *)
  eg_J : option Z;       (* the normalised ISS of the epoch in which the endpoint left SYN-* (sends data) *)
  eg_K : option Z;       (* the peer's initial sequence number the endpoint synchronised to *)
  eg_R : Z               (* RCV.NXT as a sequence offset: octets and FIN received *)
}.

(* the sender half is dead: the socket was reset to CLOSED (nothing can be written or sent any more) *)
Definition dead_tx (g : txghost) (s : socket) : Prop := s_state s = Closed /\ tx_blank g.

Definition txl (g : txghost) (e : endpoint) : Prop :=
  (g_stream g = ep_written e /\ g_fin g = ep_closed e) \/ dead_tx g (ep_sock e).

Definition rxl (F : option Z) (gr : rxghost) (e : endpoint) : Prop :=
  (g_irs gr <> None -> g_delivered gr = ep_read e) /\
  (g_irs gr = None -> ep_read e = [] \/ s_state (ep_sock e) = Closed) /\
  (ep_finished e = true -> exists m, F = Some m /\ m <= l_len (ep_read e)).

Definition jl (J : option Z) (g : txghost) (s : socket) : Prop :=
  match J with
  | None => g_phase g = PSyn
  | Some j => 0 <= j < 4294967296 /\ (g_phase g <> PSyn -> sq (g_iss g) = j) /\
              (g_phase g = PSyn -> s_state s = Closed)
  end.

Definition rcv_nxt_off (gr : rxghost) (s : socket) : Z := rcv_count gr s + b2z (s_rx_fin_received s).

Definition kl (K : option Z) (R : Z) (gr : rxghost) (s : socket) : Prop :=
  0 <= R /\
  match g_irs gr with
  | Some irs => K = Some irs /\ R = rcv_nxt_off gr s
  | None => R = 0 \/ s_state s = Closed
  end.

(* endpoint [e] with ghost [g]; (S, F) is the stream of the PEER, which [e] receives *)
Definition EP (S : Z -> Z) (F : option Z) (e : endpoint) (g : eghost) : Prop :=
  inv (eg_tx g) (ep_sock e) /\ ctx_ok (ep_cx e) /\
  ginv (fun _ => S) (fun _ => F) (eg_rx g) (ep_sock e) /\
  txl (eg_tx g) e /\ rxl F (eg_rx g) e /\
  jl (eg_J g) (eg_tx g) (ep_sock e) /\ kl (eg_K g) (eg_R g) (eg_rx g) (ep_sock e).

(* direction x -> y: x writes the stream (S, F), y receives it *)
Definition DIR (S : Z -> Z) (F : option Z) (ex : endpoint) (gx : eghost) (ey : endpoint) (gy : eghost)
  : Prop :=
  (* every segment x ever emitted is consistent with the stream *)
  (forall p, In p (ep_sent ex) -> pkt_good S F (eg_J gx) (l_len (ep_written ex)) (eg_R gy) p) /\
  (* y is synchronised to the ISS of x's data epoch *)
  (forall j k, eg_J gx = Some j -> eg_K gy = Some k -> k = j) /\
  (* offsets y has received were sent *)
  (forall k, g_have (eg_rx gy) k -> eg_J gx <> None /\ 0 <= k < l_len (ep_written ex)) /\
  (* before x sends data y has received nothing *)
  (eg_J gx = None -> eg_R gy = 0) /\
  (* SND.UNA of x <= RCV.NXT of y *)
  (g_una (eg_tx gx) <= eg_R gy + 1) /\
  (* acknowledgement numbers y has sent are irs + 1 + (at most what it has received) *)
  (forall p, In p (ep_sent ey) -> r_control (snd p) <> CRst ->
     forall a, r_ack_number (snd p) = Some a ->
     exists irs c, eg_K gy = Some irs /\ a = sq (irs + 1 + c) /\ 0 <= c <= eg_R gy).

(* what is special about A (it connects: one initial sequence number, never listens) and B *)
Definition ROLES (isn : Z) (ea : endpoint) (ga : eghost) (eb : endpoint) (gb : eghost) : Prop :=
  0 <= isn < 4294967296 /\
  le_port (s_listen_endpoint (ep_sock ea)) = 0 /\
  s_state (ep_sock ea) <> Listen /\
  (sq (g_iss (eg_tx ga)) = isn \/ dead_tx (eg_tx ga) (ep_sock ea)) /\
  (forall p, In p (ep_sent ea) -> r_control (snd p) = CSyn -> r_seq_number (snd p) = isn) /\
  (forall j, eg_J ga = Some j -> j = isn) /\
  (forall k, eg_K gb = Some k -> k = isn) /\
  (g_irs (eg_rx ga) = None -> eg_K ga <> None -> s_state (ep_sock ea) = Closed) /\
  (forall j, eg_J gb = Some j -> eg_K ga = Some j).

Definition INV (Sa : Z -> Z) (Fa : option Z) (Sb : Z -> Z) (Fb : option Z) (isn : Z)
           (ga gb : eghost) (st : net) : Prop :=
  EP Sb Fb (n_a st) ga /\ EP Sa Fa (n_b st) gb /\
  DIR Sa Fa (n_a st) ga (n_b st) gb /\ DIR Sb Fb (n_b st) gb (n_a st) ga /\
  ROLES isn (n_a st) ga (n_b st) gb /\ chan_sub st.
