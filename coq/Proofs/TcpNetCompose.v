(* C01, layer 2: the invariant of the two-endpoint system and its preservation, from
   - C04 (Proofs/TcpRecvTheorems.v, closed theorems): a receiver fed segments consistent with a
     stream (S, F) keeps its buffer/assembler/delivered octets consistent with S, and reports
     Finished only at F;
   - C05 (as the Section hypothesis [c05], see Proofs/TcpNetContract.v): every segment a sender
     emits carries its application's stream at the offset its sequence number denotes;
   - "channel is a subset of emitted" (Proofs/TcpNetBase.v).
   The glue proved here: sequence numbers of the two sockets denote the same stream offsets
   (the receiver's irs is the ISS of the epoch in which the sender sends data - the three-way
   handshake argument), wrap-around of 32-bit sequence numbers (Seq32 transfer under the age
   hypothesis), SND.UNA of one side never exceeds RCV.NXT of the other (so the garbage octet of a
   keep-alive probe always lies below RCV.NXT). *)
From SV Require Import Lib.Base Gen.Consts.
From SV Require Import Model.Seq32 Model.Assembler Model.TcpBuf Model.TcpTypes Model.Tcp Model.TcpNet.
From SV Require Import Proofs.AssemblerProofs Proofs.TcpRecvBase Proofs.TcpRecvWindow
  Proofs.TcpRecvPayload Proofs.TcpRecvInv Proofs.TcpRecvProcess Proofs.TcpRecvStep
  Proofs.TcpRecvSync Proofs.TcpRecvDispatch Proofs.TcpRecvTrace Proofs.TcpRecvTheorems.
From SV Require Import Proofs.TcpSendBase Proofs.TcpSendInv.
From SV Require Proofs.TcpLiveBase Proofs.TcpLiveProofs.
From SV Require Import Proofs.TcpNetBase Proofs.TcpNetFrame Proofs.TcpNetContract.

Notation rxghost := TcpRecvTrace.ghost.
Notation txghost := TcpSendInv.ghost.
Notation rznth := TcpRecvBase.znth.

(* ---------------------------------------------------------------------------------------- *)
(* arithmetic                                                                                *)
(* ---------------------------------------------------------------------------------------- *)
Lemma sq_norm x : sq x = seq_norm x.
Proof. reflexivity. Qed.

Lemma sq_idem_add a b : sq (sq a + b) = sq (a + b).
Proof. unfold sq. rewrite Zplus_mod_idemp_l. reflexivity. Qed.

Lemma sq_idem_add3 a b c : sq (sq a + b + c) = sq (a + b + c).
Proof. replace (sq a + b + c) with (sq a + (b + c)) by lia. rewrite sq_idem_add. f_equal. lia. Qed.

Lemma sq_succ_inj a b : sq (a + 1) = sq (b + 1) -> sq a = sq b.
Proof. unfold sq. intros H. change (2 ^ 32) with 4294967296 in *. lia. Qed.

Lemma sq_range' x : 0 <= sq x < 4294967296.
Proof. unfold sq. change (2 ^ 32) with 4294967296. lia. Qed.

Lemma sq_small' x : 0 <= x < 4294967296 -> sq x = x.
Proof. intros H. unfold sq. change (2 ^ 32) with 4294967296. apply Z.mod_small. exact H. Qed.

(* offsets congruent modulo 2^32 and closer than 2^32 are equal *)
Lemma sq_offsets_eq b x y : sq (b + x) = sq (b + y) -> - 4294967296 < x - y < 4294967296 -> x = y.
Proof. unfold sq. change (2 ^ 32) with 4294967296. intros H Hr. lia. Qed.

Lemma seq_add_norm_l x y : seq_norm (seq_norm x + y) = seq_norm (x + y).
Proof. unfold seq_norm. rewrite Zplus_mod_idemp_l. reflexivity. Qed.

Lemma znth_conv l i : TcpSendBase.znth l i = rznth l i.
Proof. reflexivity. Qed.

(* ---------------------------------------------------------------------------------------- *)
(* the stream oracle of one direction                                                        *)
(* ---------------------------------------------------------------------------------------- *)
(* (S, F) is compatible with what endpoint [e] has written so far: S extends the written octets,
   F (the position of the FIN) is not before the end of what was written, and is exactly that end
   once the application has closed. *)
Definition compat (S : Z -> Z) (F : option Z) (e : endpoint) : Prop :=
  (forall j, 0 <= j < l_len (ep_written e) -> rznth (ep_written e) j = S j) /\
  (forall f, F = Some f -> l_len (ep_written e) <= f) /\
  (ep_closed e = true -> F = Some (l_len (ep_written e))).

Lemma prefix_len {A} (a b : list A) : prefix a b -> (length a <= length b)%nat.
Proof. intros (c & ->). rewrite app_length. lia. Qed.

Lemma l_len_prefix a b : prefix a b -> l_len a <= l_len b.
Proof. intros H. apply prefix_len in H. rewrite !TcpRecvBase.l_len_spec. lia. Qed.

Lemma znth_prefix a b j : prefix a b -> 0 <= j < l_len a -> rznth b j = rznth a j.
Proof.
  intros (c & ->) Hj. unfold rznth. rewrite app_nth1; [reflexivity|].
  rewrite TcpRecvBase.l_len_spec in Hj. lia.
Qed.

(* the oracle read off a later state is compatible with every earlier state *)
Lemma compat_mono S F e e' :
  ep_mono e e' -> (ep_closed e = true -> ep_written e' = ep_written e) -> compat S F e' -> compat S F e.
Proof.
  intros (Hw & _ & _ & Hc & _) Hfr (C1 & C2 & C3). unfold compat.
  pose proof (l_len_prefix _ _ Hw) as Hl.
  split; [|split].
  - intros j Hj. rewrite <- (znth_prefix _ _ j Hw Hj). apply C1. lia.
  - intros f Hf. specialize (C2 f Hf). lia.
  - intros Hcl. rewrite <- (Hfr Hcl). apply C3. apply Hc. exact Hcl.
Qed.

Definition oracle_S (w : list Z) : Z -> Z := fun j => rznth w j.
Definition oracle_F (w : list Z) (closed : bool) : option Z := if closed then Some (l_len w) else None.

Lemma compat_oracle e : compat (oracle_S (ep_written e)) (oracle_F (ep_written e) (ep_closed e)) e.
Proof.
  unfold compat, oracle_S, oracle_F. split; [reflexivity|]. split.
  - intros f. destruct (ep_closed e); [|discriminate]. intros H; inversion H; lia.
  - intros ->. reflexivity.
Qed.

(* ---------------------------------------------------------------------------------------- *)
(* what an in-flight segment must be (time-invariant)                                        *)
(* ---------------------------------------------------------------------------------------- *)
(* [j] = the (normalised) ISS of the epoch in which the sender sends data, [L] = number of octets
   written so far, [R] = the receiver's RCV.NXT as a sequence offset (octets + FIN received) *)
Definition data_at (S : Z -> Z) (F : option Z) (j L : Z) (r : tcp_repr) : Prop :=
  let n := l_len (r_payload r) in
  exists k, 0 <= k /\ r_seq_number r = sq (j + 1 + k) /\
            (forall i, 0 <= i < n -> rznth (r_payload r) i = S (k + i)) /\
            k + n <= L /\ (r_control r = CFin -> F = Some (k + n)).

Definition ka_at (j R : Z) (r : tcp_repr) : Prop :=
  l_len (r_payload r) = 1 /\ r_control r = CNone /\
  exists u, 0 <= u <= R /\ r_seq_number r = sq (j + u).

Definition pkt_wf (r : tcp_repr) : Prop := 0 <= l_len (r_payload r) <= 65535.

Definition pkt_good (S : Z -> Z) (F : option Z) (J : option Z) (L R : Z) (p : packet) : Prop :=
  let r := snd p in
  pkt_wf r /\
  (carries r -> exists j, J = Some j /\ (data_at S F j L r \/ ka_at j R r)).

Lemma pkt_good_mono S F J L R L' R' p :
  L <= L' -> R <= R' -> pkt_good S F J L R p -> pkt_good S F J L' R' p.
Proof.
  intros HL HR (Hwf & Hc). split; [exact Hwf|]. intros Hcar.
  destruct (Hc Hcar) as (j & HJ & [Hd | Hk]); exists j; (split; [exact HJ|]).
  - left. destruct Hd as (k & H1 & H2 & H3 & H4 & H5). exists k. repeat split; try assumption. lia.
  - right. destruct Hk as (H1 & H2 & u & H3 & H4). split; [exact H1|]. split; [exact H2|].
    exists u. split; [lia | exact H4].
Qed.

Lemma pkt_good_set_J S F L R p j :
  pkt_good S F None L R p -> pkt_good S F (Some j) L R p.
Proof.
  intros (Hwf & Hc). split; [exact Hwf|]. intros Hcar.
  destruct (Hc Hcar) as (j0 & HJ & _). discriminate.
Qed.

Lemma repr_ok_parse r : repr_ok (wire_parse r).
Proof.
  unfold repr_ok, wire_parse. cbn [r_seq_number r_ack_number r_window_len r_window_scale].
  split; [apply seq_norm_range|].
  split; [destruct (r_ack_number r); [apply seq_norm_range | exact I]|].
  split; [lia|].
  unfold wire_clamp_wscale. destruct (r_window_scale r) as [v|]; [|exact I].
  destruct (Z.gtb_spec (v mod 256) 14); lia.
Qed.

(* ---------------------------------------------------------------------------------------- *)
(* the age hypothesis (MSL), on model states only                                            *)
(* ---------------------------------------------------------------------------------------- *)
(* RCV.NXT of endpoint [e] as a sequence offset of the peer's stream: octets handed to the
   application + octets in the receive buffer + the FIN *)
Definition rcv_off (e : endpoint) : Z :=
  l_len (ep_read e) + rb_len (s_rx_buffer (ep_sock e)) + b2z (s_rx_fin_received (ep_sock e)).

(* SND.UNA of endpoint [e] as a sequence offset of its own stream (octets acknowledged) *)
Definition una_off (e : endpoint) : Z :=
  l_len (ep_written e) - rb_len (s_tx_buffer (ep_sock e)).

(* Segment [r], about to be handed to endpoint [e] whose peer is [pe]:
   - every position k of the peer's stream (k = -1: the SYN; k = |written|: the FIN) that r's
     sequence number can denote - i.e. that is congruent to it modulo 2^32, counted from e's
     RCV.NXT - lies within 2^31 of RCV.NXT;
   - every amount c of e's own stream that r's acknowledgement number can denote lies within 2^31
     of what is acknowledged so far.
   This is RFC 9293's assumption that no segment survives in the network while 2^31 octets of
   sequence space are consumed.  It is implied by "fewer than 2^31 octets written in each
   direction" ([seg_age_small]), so C01 is unconditional for transfers below 2 GiB; beyond that a
   32-bit sequence number denotes several stream positions and nothing in the segment tells them
   apart - only the bound on segment lifetime does. *)
Definition seg_age (e pe : endpoint) (r : tcp_repr) : Prop :=
  (forall k, -1 <= k <= l_len (ep_written pe) ->
     r_seq_number r = seq_norm (tcp_window_start (ep_sock e) + (k - rcv_off e)) ->
     - 2147483648 <= k - rcv_off e < 2147483648) /\
  (forall a c, r_ack_number r = Some a -> 0 <= c <= l_len (ep_written e) + 1 ->
     a = seq_norm (s_local_seq_no (ep_sock e) + (c - una_off e)) ->
     - 2147483648 <= c - una_off e < 2147483648).

(* the hypothesis on the adversary: every NDeliver of a run satisfies seg_age *)
Definition ev_age (st : net) (ev : net_event) : Prop :=
  match ev with
  | NDeliver to i =>
      match nth_error (ep_out (net_get st (side_other to))) i with
      | Some p => seg_age (net_get st to) (net_get st (side_other to)) (snd p)
      | None => True
      end
  | _ => True
  end.

Fixpoint run_age (st : net) (evs : list net_event) : Prop :=
  match evs with
  | [] => True
  | ev :: rest =>
      ev_age st ev /\
      match net_step st ev with
      | Ok st' => run_age st' rest
      | _ => True
      end
  end.

(* ---------------------------------------------------------------------------------------- *)
(* the ghost of one endpoint and the invariant                                               *)
(* ---------------------------------------------------------------------------------------- *)
Record eghost := mkEg {
  eg_tx : txghost;       (* C05's sender ghost *)
  eg_rx : rxghost;       (* C04's receiver ghost *)
  eg_J : option Z;       (* the normalised ISS of the epoch in which the endpoint left SYN-* (sends data) *)
  eg_K : option Z;       (* the peer's initial sequence number the endpoint synchronised to *)
  eg_R : Z               (* RCV.NXT as a sequence offset: octets and FIN received *)
}.

(* the sender half is dead: the socket was reset to CLOSED (nothing can be written or sent any more) *)
Definition dead_tx (g : txghost) (s : socket) : Prop := s_state s = Closed /\ tx_blank g.

Definition txl (g : txghost) (e : endpoint) : Prop :=
  (g_stream g = ep_written e /\ g_fin g = ep_closed e) \/ dead_tx g (ep_sock e).

Definition rxl (F : option Z) (gr : rxghost) (e : endpoint) : Prop :=
  (g_irs gr <> None -> g_delivered gr = ep_read e) /\
  (g_irs gr = None -> ep_read e = [] \/ s_state (ep_sock e) = Closed) /\
  (ep_finished e = true -> exists m, F = Some m /\ m <= l_len (ep_read e)).

Definition jl (J : option Z) (g : txghost) (s : socket) : Prop :=
  match J with
  | None => g_phase g = PSyn
  | Some j => 0 <= j < 4294967296 /\ (g_phase g <> PSyn -> sq (g_iss g) = j) /\
              (g_phase g = PSyn -> s_state s = Closed)
  end.

Definition rcv_nxt_off (gr : rxghost) (s : socket) : Z := rcv_count gr s + b2z (s_rx_fin_received s).

Definition kl (K : option Z) (R : Z) (gr : rxghost) (s : socket) : Prop :=
  0 <= R /\ (forall k, K = Some k -> 0 <= k < 4294967296) /\
  match g_irs gr with
  | Some irs => K = Some irs /\ R = rcv_nxt_off gr s
  | None => R = 0 \/ s_state s = Closed
  end.

(* endpoint [e] with ghost [g]; (S, F) is the stream of the PEER, which [e] receives *)
Definition live_ok (e : endpoint) : Prop :=
  mtu_ok (ep_cx e) /\ TcpLiveProofs.tcp_live_inv (ep_sock e).

Definition EP (S : Z -> Z) (F : option Z) (e : endpoint) (g : eghost) : Prop :=
  inv (eg_tx g) (ep_sock e) /\ (ctx_ok (ep_cx e) /\ live_ok e) /\
  ginv (fun _ => S) (fun _ => F) (eg_rx g) (ep_sock e) /\
  txl (eg_tx g) e /\ rxl F (eg_rx g) e /\
  jl (eg_J g) (eg_tx g) (ep_sock e) /\ kl (eg_K g) (eg_R g) (eg_rx g) (ep_sock e).

(* direction x -> y: x writes the stream (S, F), y receives it *)
Definition DIR (S : Z -> Z) (F : option Z) (ex : endpoint) (gx : eghost) (ey : endpoint) (gy : eghost)
  : Prop :=
  (* every segment x ever emitted is consistent with the stream *)
  (forall p, In p (ep_sent ex) -> pkt_good S F (eg_J gx) (l_len (ep_written ex)) (eg_R gy) p) /\
  (* y is synchronised to the ISS of x's data epoch *)
  (forall j k, eg_J gx = Some j -> eg_K gy = Some k -> k = j) /\
  (* offsets y has received were sent *)
  (forall k, g_have (eg_rx gy) k -> eg_J gx <> None /\ 0 <= k < l_len (ep_written ex)) /\
  (* before x sends data y has received nothing *)
  (eg_J gx = None -> eg_R gy = 0) /\
  (* SND.UNA of x <= RCV.NXT of y <= what x has written (+ FIN) *)
  (g_una (eg_tx gx) <= eg_R gy + 1) /\
  (eg_R gy <= l_len (ep_written ex) + 1) /\
  (* acknowledgement numbers y has sent are irs + 1 + (at most what it has received) *)
  (forall p, In p (ep_sent ey) -> r_control (snd p) <> CRst ->
     forall a, r_ack_number (snd p) = Some a ->
     exists irs c, eg_K gy = Some irs /\ a = sq (irs + 1 + c) /\ 0 <= c <= eg_R gy) /\
  (* what y's application has been handed is the beginning of the stream *)
  (l_len (ep_read ey) <= l_len (ep_written ex) /\
   forall j, 0 <= j < l_len (ep_read ey) -> rznth (ep_read ey) j = S j).

(* what is special about A (it connects: one initial sequence number, never listens) and B *)
Definition ROLES (isn : Z) (ea : endpoint) (ga : eghost) (eb : endpoint) (gb : eghost) : Prop :=
  0 <= isn < 4294967296 /\
  le_port (s_listen_endpoint (ep_sock ea)) = 0 /\
  s_state (ep_sock ea) <> Listen /\
  (sq (g_iss (eg_tx ga)) = isn \/ dead_tx (eg_tx ga) (ep_sock ea)) /\
  (forall p, In p (ep_sent ea) -> r_control (snd p) = CSyn -> r_seq_number (snd p) = isn) /\
  (forall j, eg_J ga = Some j -> j = isn) /\
  (forall k, eg_K gb = Some k -> k = isn) /\
  (g_irs (eg_rx ga) = None -> eg_K ga <> None -> s_state (ep_sock ea) = Closed) /\
  (forall j, eg_J gb = Some j -> eg_K ga = Some j).

Definition INV (Sa : Z -> Z) (Fa : option Z) (Sb : Z -> Z) (Fb : option Z) (isn : Z)
           (ga gb : eghost) (st : net) : Prop :=
  EP Sb Fb (n_a st) ga /\ EP Sa Fa (n_b st) gb /\
  DIR Sa Fa (n_a st) ga (n_b st) gb /\ DIR Sb Fb (n_b st) gb (n_a st) ga /\
  ROLES isn (n_a st) ga (n_b st) gb /\ chan_sub st.

(* ---------------------------------------------------------------------------------------- *)
(* a consistent in-flight segment is admissible for C04's receiver                           *)
(* ---------------------------------------------------------------------------------------- *)
Lemma wire_parse_fields r :
  r_payload (wire_parse r) = r_payload r /\ r_seq_number (wire_parse r) = seq_norm (r_seq_number r) /\
  r_control (wire_parse r) = r_control r /\
  r_ack_number (wire_parse r) = match r_ack_number r with Some a => Some (seq_norm a) | None => None end.
Proof. unfold wire_parse. cbn. repeat split; reflexivity. Qed.

Lemma seq_norm_sq x : seq_norm (sq x) = sq x.
Proof. unfold sq, seq_norm, seq_modulus. apply Z.mod_mod. lia. Qed.

(* the stream offset the receiver computes for a segment = the offset the sender meant *)
Lemma seg_q_exact c s r j q :
  tcp_window_start s = seq_norm (j + 1 + wsq c s) ->
  r_seq_number r = sq (j + 1 + q) ->
  - 2147483648 <= q - wsq c s < 2147483648 ->
  seg_q c s r = q.
Proof.
  intros Hws Hseq Hage. unfold seg_q, seg_d. rewrite Hws, Hseq, sq_norm.
  rewrite seq_sdiff_norm by lia. lia.
Qed.

Lemma compat_F_nonneg S F e : compat S F e -> forall f, F = Some f -> 0 <= f.
Proof.
  intros (_ & C2 & _) f Hf. specialize (C2 f Hf). pose proof (TcpRecvBase.l_len_nonneg (ep_written e)). lia.
Qed.

Lemma seg_q_parse c s r x :
  r_seq_number r = sq x -> seg_q c s (wire_parse r) = seg_q c s r.
Proof.
  intros H. unfold seg_q, seg_d. destruct (wire_parse_fields r) as (_ & P2 & _).
  rewrite P2, H, seq_norm_sq. reflexivity.
Qed.

Lemma seg_ok_of_good S F have irs c s J L R p ex :
  rx_synced S F have irs c s ->
  compat S F ex -> L = l_len (ep_written ex) ->
  pkt_good S F J L R p ->
  (forall j, J = Some j -> irs = j) ->
  R = wsq c s -> R <= L + 1 ->
  (forall k, -1 <= k <= L ->
     r_seq_number (snd p) = seq_norm (tcp_window_start s + (k - wsq c s)) ->
     - 2147483648 <= k - wsq c s < 2147483648) ->
  seg_ok S F c s (wire_parse (snd p)).
Proof.
  intros Hsy (C1 & C2 & C3) HL (W2 & Hgood) Hanchor HR HRL Hage.
  pose proof (synced_window_start _ _ _ _ _ _ Hsy) as Hws.
  destruct (wire_parse_fields (snd p)) as (P1 & P2 & P3 & _).
  unfold seg_ok. rewrite P1, P3. cbv zeta. unfold pkt_wf in W2.
  split; [lia|]. split; [rewrite P2; apply seq_norm_range|].
  intros Hnear.
  destruct (Z.ltb_spec 0 (l_len (r_payload (snd p)))) as [Hn|Hn].
  2:{ (* no payload *)
      destruct (control_eqb (r_control (snd p)) CFin) eqn:Ec.
      - (* bare FIN *)
        assert (Hfin : r_control (snd p) = CFin) by (destruct (r_control (snd p)); try discriminate; reflexivity).
        destruct (Hgood (or_intror Hfin)) as (j & HJ & [Hd | Hk]).
        + destruct Hd as (k & Hk0 & Hseq & Hbytes & HkL & Hf).
          assert (Hirs : irs = j) by (apply Hanchor; exact HJ). subst irs.
          assert (Hqk : seg_q c s (wire_parse (snd p)) = k).
          { rewrite (seg_q_parse c s (snd p) _ Hseq). apply (seg_q_exact c s (snd p) j k Hws Hseq).
            apply Hage; [lia|]. rewrite Hws, Hseq, sq_norm, seq_add_norm_l. f_equal. lia. }
          rewrite Hqk. split; [intros i Hi; lia|]. split; [lia|]. intros _. apply Hf. exact Hfin.
        + destruct Hk as (_ & Hc & _). congruence.
      - split; [intros i Hi; lia|]. split; [lia|]. intros E. rewrite E in Ec. discriminate. }
  destruct (Hgood (or_introl Hn)) as (j & HJ & [Hd | Hk]).
  - destruct Hd as (k & Hk0 & Hseq & Hbytes & HkL & Hf).
    assert (Hirs : irs = j) by (apply Hanchor; exact HJ). subst irs.
    assert (Hqk : seg_q c s (wire_parse (snd p)) = k).
    { rewrite (seg_q_parse c s (snd p) _ Hseq). apply (seg_q_exact c s (snd p) j k Hws Hseq).
      apply Hage; [lia|]. rewrite Hws, Hseq, sq_norm, seq_add_norm_l. f_equal. lia. }
    rewrite Hqk. split; [intros i Hi _; apply Hbytes; exact Hi|].
    split; [|exact Hf]. intros _ _ f HF. specialize (C2 f HF). lia.
  - destruct Hk as (Hn1 & Hc & u & Hu & Hseq).
    assert (Hirs : irs = j) by (apply Hanchor; exact HJ). subst irs.
    assert (Hqk : seg_q c s (wire_parse (snd p)) = u - 1).
    { rewrite (seg_q_parse c s (snd p) _ Hseq). apply (seg_q_exact c s (snd p) j (u - 1) Hws).
      - rewrite Hseq. f_equal. lia.
      - apply Hage; [lia|]. rewrite Hws, Hseq, sq_norm, seq_add_norm_l. f_equal. lia. }
    rewrite Hqk. split; [intros i Hi Hge; lia|]. split; [lia|]. intros E; congruence.
Qed.

(* offsets a consistent segment adds to the receiver's "have" set were written by the sender *)
Lemma have_of_good S F have irs c s J L R p ex k :
  rx_synced S F have irs c s ->
  compat S F ex -> L = l_len (ep_written ex) ->
  pkt_good S F J L R p ->
  (forall j, J = Some j -> irs = j) ->
  R = wsq c s -> R <= L + 1 ->
  (forall k, -1 <= k <= L ->
     r_seq_number (snd p) = seq_norm (tcp_window_start s + (k - wsq c s)) ->
     - 2147483648 <= k - wsq c s < 2147483648) ->
  wsq c s <= k ->
  seg_q c s (wire_parse (snd p)) <= k < seg_q c s (wire_parse (snd p)) + l_len (r_payload (wire_parse (snd p))) ->
  J <> None /\ 0 <= k < L.
Proof.
  intros Hsy (C1 & C2 & C3) HL (W2 & Hgood) Hanchor HR HRL Hage Hk1 Hk2.
  pose proof (synced_window_start _ _ _ _ _ _ Hsy) as Hws.
  destruct (wire_parse_fields (snd p)) as (P1 & P2 & P3 & _).
  rewrite P1 in Hk2.
  assert (Hn : 0 < l_len (r_payload (snd p))) by lia.
  destruct (Hgood (or_introl Hn)) as (j & HJ & [Hd | Hka]).
  - destruct Hd as (k0 & Hk0 & Hseq & Hbytes & HkL & Hf).
    assert (Hirs : irs = j) by (apply Hanchor; exact HJ). subst irs.
    assert (Hqk : seg_q c s (wire_parse (snd p)) = k0).
    { rewrite (seg_q_parse c s (snd p) _ Hseq). apply (seg_q_exact c s (snd p) j k0 Hws Hseq).
      apply Hage; [lia|]. rewrite Hws, Hseq, sq_norm, seq_add_norm_l. f_equal. lia. }
    rewrite Hqk in Hk2. split; [congruence | lia].
  - destruct Hka as (Hn1 & Hc & u & Hu & Hseq).
    assert (Hirs : irs = j) by (apply Hanchor; exact HJ). subst irs.
    assert (Hqk : seg_q c s (wire_parse (snd p)) = u - 1).
    { rewrite (seg_q_parse c s (snd p) _ Hseq). apply (seg_q_exact c s (snd p) j (u - 1) Hws).
      - rewrite Hseq. f_equal. lia.
      - apply Hage; [lia|]. rewrite Hws, Hseq, sq_norm, seq_add_norm_l. f_equal. lia. }
    rewrite Hqk in Hk2. lia.
Qed.

(* ---------------------------------------------------------------------------------------- *)
(* one socket event at endpoint x: the new ghost                                             *)
(* ---------------------------------------------------------------------------------------- *)
Definition phase_syn (g : txghost) : bool := match g_phase g with PSyn => true | _ => false end.

Lemma phase_syn_true g : phase_syn g = true <-> g_phase g = PSyn.
Proof. unfold phase_syn. destruct (g_phase g); split; intros; congruence. Qed.
Lemma phase_syn_false g : phase_syn g = false <-> g_phase g <> PSyn.
Proof. unfold phase_syn. destruct (g_phase g); split; intros; congruence. Qed.

Definition next_J (J : option Z) (gt' : txghost) : option Z :=
  match J with
  | Some j => Some j
  | None => if phase_syn gt' then None else Some (sq (g_iss gt'))
  end.
Definition next_K (K : option Z) (gr' : rxghost) : option Z :=
  match K with Some k => Some k | None => g_irs gr' end.
Definition next_R (R : Z) (gr' : rxghost) (s' : socket) : Z :=
  match g_irs gr' with Some _ => rcv_nxt_off gr' s' | None => R end.
Definition next_g (gx : eghost) (gt' : txghost) (gr' : rxghost) (s' : socket) : eghost :=
  mkEg gt' gr' (next_J (eg_J gx) gt') (next_K (eg_K gx) gr') (next_R (eg_R gx) gr' s').

(* what ep_step did to the endpoint record *)
Definition xfacts (ex : endpoint) (ev : event) (ex' : endpoint) (s' : socket) (out : step_out) : Prop :=
  ep_sock ex' = s' /\ ep_cx ex' = ep_cx ex /\
  ep_sent ex' = ep_sent ex ++ opt_list (wire_out out) /\
  ep_written ex' = log_written (ep_written ex) ev out /\
  ep_read ex' = log_read (ep_read ex) ev out /\
  ep_finished ex' = log_finished (ep_finished ex) ev out /\
  ep_closed ex' = log_closed (ep_closed ex) (s_state (ep_sock ex)) ev.

Lemma una_syn g : g_phase g = PSyn -> g_una g = 0.
Proof. unfold g_una. intros ->. reflexivity. Qed.

Lemma una_pos g s : inv g s -> g_phase g <> PSyn -> 1 <= g_una g.
Proof.
  intros ((_ & _ & Ha & _) & _) Hp. unfold g_una. destruct (g_phase g); [congruence | lia | lia].
Qed.

Lemma una_nonneg g s : inv g s -> 0 <= g_una g.
Proof.
  intros Hi. destruct (g_phase g) eqn:E.
  - rewrite (una_syn g E). lia.
  - pose proof (una_pos g s Hi ltac:(congruence)). lia.
  - pose proof (una_pos g s Hi ltac:(congruence)). lia.
Qed.

Lemma accepts_not_closed' s ip r : tcp_accepts s ip r = true -> s_state s <> Closed.
Proof. intros H E. unfold tcp_accepts in H. rewrite E in H. cbn in H. discriminate. Qed.

(* in CLOSED a step of the same epoch cannot leave the SYN phase *)
Lemma same_closed_syn g s ev g' out s' :
  inv g' s' -> tx_same g s ev g' out -> s_state s = Closed -> g_phase g = PSyn -> g_phase g' = PSyn.
Proof.
  intros Hi (_ & _ & _ & _ & _ & Hle & _ & Hadv) Hc Hp.
  destruct (g_phase g') eqn:E; [reflexivity|exfalso..].
  all: rewrite (una_syn g Hp) in *;
       assert (H1 : 1 <= g_una g') by (apply (una_pos g' s' Hi); congruence);
       destruct (Hadv ltac:(lia)) as (ip & r & _ & Ha & _);
       exact (accepts_not_closed' _ _ _ Ha Hc).
Qed.

(* ---------------------------------------------------------------------------------------- *)
(* the sender-side links                                                                     *)
(* ---------------------------------------------------------------------------------------- *)
Lemma txl_step cx ex ev ex' s' out tags gt gt' :
  run_ev ev -> tcp_step cx (ep_sock ex) ev = Ok (s', out, tags) -> xfacts ex ev ex' s' out ->
  inv gt' s' ->
  tx_same gt (ep_sock ex) ev gt' out \/ tx_new cx gt (ep_sock ex) ev gt' s' out ->
  txl gt ex -> txl gt' ex'.
Proof.
  intros Hrun Hstep (X1 & _ & _ & X4 & _ & _ & X7) Hi' Hrel Htxl.
  destruct (step_le _ _ _ _ _ _ Hrun Hstep) as (_ & HL & HC).
  unfold txl, dead_tx. rewrite X1, X4, X7.
  destruct Hrel as [Hs | (Hb' & Hn)].
  - pose proof Hs as (_ & Hst & Hfin & _).
    destruct Htxl as [(T1 & T2) | (Dc & Db)].
    + left. rewrite Hst, Hfin, T1, T2. split; reflexivity.
    + right. destruct (HC Dc) as (Hc' & _ & Hsend & _). split; [exact Hc'|].
      destruct Db as (B1 & B2 & B3). unfold tx_blank. rewrite Hst, Hfin, B1, B2.
      split; [|split].
      * unfold log_written. destruct ev; try reflexivity. destruct (Hsend data eq_refl) as (e & ->). reflexivity.
      * unfold log_closed. destruct ev; try reflexivity. rewrite Dc. reflexivity.
      * eapply same_closed_syn; eassumption.
  - destruct Hn as [(Hc' & _) | Hevn].
    + right. split; assumption.
    + destruct ev; try contradiction. destruct Hevn as (Hb & Hev).
      destruct Htxl as [(T1 & T2) | (Dc & _)].
      * left. destruct Hb as (B1 & B2 & _). destruct Hb' as (B1' & B2' & _).
        unfold log_written, log_closed. rewrite B1', B2', <- T1, <- T2, B1, B2. split; reflexivity.
      * exfalso. destruct (HC Dc) as (Hc' & _). destruct Hev as [E|E]; congruence.
Qed.

Lemma jl_step cx s ev s' out tags gt gt' J :
  run_ev ev -> tcp_step cx s ev = Ok (s', out, tags) ->
  inv gt' s' ->
  tx_same gt s ev gt' out \/ tx_new cx gt s ev gt' s' out ->
  jl J gt s -> jl (next_J J gt') gt' s'.
Proof.
  intros Hrun Hstep Hi' Hrel Hjl.
  destruct (step_le _ _ _ _ _ _ Hrun Hstep) as (_ & HL & HC).
  unfold jl, next_J in *. destruct J as [j|].
  - destruct Hjl as (Hj & Hd & Hc). split; [exact Hj|].
    destruct Hrel as [Hs | ((_ & _ & Hp') & Hn)].
    + pose proof Hs as (Hiss & _ & _ & _ & Hmono & _).
      destruct (g_phase gt) eqn:Ep.
      * (* dead-ish: stays PSyn and CLOSED *)
        pose proof (Hc eq_refl) as Hcl.
        assert (Hp' : g_phase gt' = PSyn) by (eapply same_closed_syn; eassumption).
        split; [intros; congruence|]. intros _. apply (HC Hcl).
      * split; [intros _; rewrite Hiss; apply Hd; congruence|].
        intros E. exfalso. apply (Hmono ltac:(congruence)). exact E.
      * split; [intros _; rewrite Hiss; apply Hd; congruence|].
        intros E. exfalso. apply (Hmono ltac:(congruence)). exact E.
    + split; [intros; congruence|]. intros _.
      destruct Hn as [(Hc' & _) | Hevn]; [exact Hc'|].
      exfalso. destruct ev; try contradiction. destruct Hevn as ((_ & _ & Hp) & Hev).
      pose proof (Hc Hp) as Hcl. destruct (HC Hcl) as (Hc' & _).
      destruct Hev as [E|E]; congruence.
  - destruct (phase_syn gt') eqn:Ep.
    + apply phase_syn_true. exact Ep.
    + apply phase_syn_false in Ep. split; [apply sq_range'|]. split; [reflexivity|]. intros; congruence.
Qed.

(* ---------------------------------------------------------------------------------------- *)
(* the receiver-side links                                                                   *)
(* ---------------------------------------------------------------------------------------- *)
Lemma dispatch_resets_closed cx s ok s' res tags :
  dispatch_resets cx s = true -> tcp_dispatch cx s ok = Ok (s', res, tags) ->
  s_state s' = Closed /\ res = DNothing.
Proof.
  unfold dispatch_resets, tcp_dispatch. destruct (s_tuple s) as [t|]; [|discriminate].
  intros ->. intros H. inversion H; subst. split; [apply reset_fields_le | reflexivity].
Qed.

Lemma l_len_app' a b : l_len (a ++ b) = l_len a + l_len b.
Proof. rewrite !TcpRecvBase.l_len_spec, app_length, Nat2Z.inj_add. reflexivity. Qed.

Section RxLink.
  Variable S : Z -> Z.
  Variable F : option Z.
  Hypothesis F_nonneg : forall f, F = Some f -> 0 <= f.
  Notation Sx := (fun _ : nat => S).
  Notation Fx := (fun _ : nat => F).

  Lemma Fx_nonneg : forall (e : nat) f, Fx e = Some f -> 0 <= f.
  Proof. intros e f. apply F_nonneg. Qed.

  Lemma rxl_step cx ex ev ex' s' out tags gr :
    run_ev ev -> tcp_step cx (ep_sock ex) ev = Ok (s', out, tags) -> xfacts ex ev ex' s' out ->
    ginv Sx Fx gr (ep_sock ex) -> ev_ok Sx Fx gr (ep_sock ex) ev ->
    rxl F gr ex -> rxl F (ghost_step cx gr (ep_sock ex) ev s' out) ex'.
  Proof.
    intros Hrun Hstep (X1 & _ & _ & _ & X5 & X6 & _) Hg Hev (R1 & R2 & R3).
    destruct (step_le _ _ _ _ _ _ Hrun Hstep) as (_ & _ & HC).
    pose proof (step_inv Sx Fx Fx_nonneg cx gr (ep_sock ex) ev s' out tags Hg Hev Hstep) as (Hg' & _ & Hfin & _).
    set (s := ep_sock ex) in *.
    assert (Hkeep : ghost_step cx gr s ev s' out = gr ->
                    ep_read ex' = ep_read ex -> ep_finished ex' = ep_finished ex ->
                    rxl F (ghost_step cx gr s ev s' out) ex').
    { intros Eg E5 E6. rewrite Eg. unfold rxl. rewrite E5, E6, X1. split; [exact R1|]. split; [|exact R3].
      intros Hn. destruct (R2 Hn) as [E|E]; [left; exact E | right; apply (HC E)]. }
    destruct ev; try contradiction.
    - (* close *) apply Hkeep; [reflexivity | rewrite X5; reflexivity | rewrite X6; reflexivity].
    - (* send *) apply Hkeep; [reflexivity | rewrite X5; destruct out; reflexivity | rewrite X6; destruct out; reflexivity].
    - (* recv *)
      unfold rxl. rewrite X1, X5, X6.
      cbn [tcp_step] in Hstep. cbn [ghost_step log_read log_finished].
      destruct (tcp_recv_slice s n) as [(s1, b)|e|] eqn:Er; [| |discriminate]; inversion Hstep; subst s' out tags; clear Hstep.
      + unfold ginv in Hg. destruct (g_irs gr) as [irs|] eqn:Ei.
        * cbn [g_irs g_delivered]. split; [intros _; rewrite R1 by congruence; reflexivity|].
          split; [intros; congruence|]. intros Hf. destruct (R3 Hf) as (m & Hm & Hle). exists m. split; [exact Hm|].
          rewrite l_len_app'. pose proof (TcpRecvBase.l_len_nonneg b). lia.
        * exfalso. destruct Hg as (Hu & _). rewrite (recv_unsynced s n Hu) in Er. discriminate.
      + split; [exact R1|]. split; [intros Hn; destruct (R2 Hn) as [E|E]; [left; exact E | right; first [exact E | apply (HC E)]]|].
        intros Hf.
        assert (Hcase : e = 2 \/ ep_finished ex = true).
        { destruct e as [|[|[| |]|]|]; auto. }
        destruct Hcase as [-> | Hold]; [|exact (R3 Hold)].
        destruct (Hfin n eq_refl eq_refl) as (irs & Hi & HF).
        exists (g_consumed gr). split; [exact HF|].
        unfold ginv in Hg. rewrite Hi in Hg. destruct Hg as (_ & (Hl & _)).
        rewrite <- R1 by congruence. lia.
    - (* segment *)
      unfold rxl. rewrite X1, X5, X6.
      cbn [log_read log_finished]. cbn [ghost_step].
      destruct (g_irs gr) as [irs|] eqn:Ei.
      + destruct (is_state s' Listen) eqn:El.
        * unfold g_unsync. cbn [g_irs g_delivered]. split; [intros; congruence|]. split; [|exact R3].
          intros _. left.
          destruct (segment_unsync_empty Sx Fx Fx_nonneg cx gr s ip r s' out tags Hg Hev Hstep) as (_ & Hd).
          { congruence. } { cbn [ghost_step]. rewrite Ei, El. reflexivity. }
          rewrite <- R1 by congruence. exact Hd.
        * cbn [g_irs g_delivered]. split; [intros _; apply R1; congruence|]. split; [intros; congruence | exact R3].
      + destruct (is_state s' SynReceived || is_state s' Established) eqn:Es.
        * cbn [g_irs g_delivered]. split; [|split; [intros; congruence | exact R3]].
          intros _. destruct (R2 eq_refl) as [E|E]; [symmetry; exact E|].
          exfalso. destruct (HC E) as (Hc' & _). unfold is_state in Es. rewrite Hc' in Es. discriminate.
        * rewrite Ei. split; [intros; congruence|]. split; [|exact R3].
          intros _. destruct (R2 eq_refl) as [E|E]; [left; exact E | right; apply (HC E)].
    - (* dispatch *)
      unfold rxl. rewrite X1, X5, X6.
      cbn [log_read log_finished]. cbn [ghost_step].
      destruct (dispatch_resets cx s) eqn:Ed.
      + unfold g_unsync. cbn [g_irs g_delivered]. split; [intros; congruence|]. split; [|exact R3].
        intros _. right. cbn [tcp_step] in Hstep.
        apply obind_ok_inv in Hstep. destruct Hstep as (((s1 & res) & tg) & Hd & Hstep). inversion Hstep; subst.
        apply (dispatch_resets_closed _ _ _ _ _ _ Ed Hd).
      + split; [exact R1|]. split; [|exact R3].
        intros Hn. destruct (R2 Hn) as [E|E]; [left; exact E | right; apply (HC E)].
  Qed.
End RxLink.

Lemma rb_wf_conv r : TcpRecvBase.rb_wf r -> TcpSendBase.rb_wf r.
Proof. intros (H1 & H2 & H3 & H4). split; [exact H1|]. split; [exact H2|]. split; [exact H3|]. lia. Qed.

Section KLink.
  Variable S : Z -> Z.
  Variable F : option Z.
  Hypothesis F_nonneg : forall f, F = Some f -> 0 <= f.
  Notation Sx := (fun _ : nat => S).
  Notation Fx := (fun _ : nat => F).

  Lemma rcv_nxt_off_nonneg gr s : ginv Sx Fx gr s -> g_irs gr <> None -> 0 <= rcv_nxt_off gr s.
  Proof.
    unfold ginv. destruct (g_irs gr); [|congruence]. intros (((Hwf & _ & _ & _ & Hc & _) & _) & _) _.
    destruct Hwf as (Hl & _). unfold rcv_nxt_off, rcv_count. pose proof (b2z_range (s_rx_fin_received s)). lia.
  Qed.

  (* a run event keeps irs while the ghost stays synchronised *)
  Lemma ghost_irs_keep cx gr s ev s' out irs :
    run_ev ev -> g_irs gr = Some irs ->
    g_irs (ghost_step cx gr s ev s' out) = Some irs \/
    (g_irs (ghost_step cx gr s ev s' out) = None /\
     ((exists ip r, ev = EvSegment ip r) \/ (exists ok, ev = EvDispatch ok /\ dispatch_resets cx s = true))).
  Proof.
    intros Hrun Hi. destruct ev; try contradiction; cbn [ghost_step].
    - left; exact Hi.
    - left; exact Hi.
    - destruct out; cbn [g_irs]; left; exact Hi.
    - rewrite Hi. destruct (is_state s' Listen).
      + right. split; [reflexivity|]. left. eauto.
      + left. reflexivity.
    - destruct (dispatch_resets cx s) eqn:Ed.
      + right. split; [reflexivity|]. right. eauto.
      + left. exact Hi.
  Qed.

  (* ... and an unsynchronised ghost synchronises only by a segment *)
  Lemma ghost_sync_seg cx gr s ev s' out :
    run_ev ev -> g_irs gr = None -> g_irs (ghost_step cx gr s ev s' out) <> None ->
    exists ip r, ev = EvSegment ip r.
  Proof.
    intros Hrun Hi Hn. destruct ev; try contradiction; cbn [ghost_step] in Hn.
    - exfalso. apply Hn. destruct out; cbn [g_irs]; exact Hi.
    - eauto.
    - exfalso. apply Hn. destruct (dispatch_resets cx s); [reflexivity | exact Hi].
  Qed.

  Lemma kl_step cx s ev s' out tags gr K R :
    run_ev ev -> tcp_step cx s ev = Ok (s', out, tags) ->
    ginv Sx Fx gr s -> ev_ok Sx Fx gr s ev ->
    (forall irs', g_irs gr = None -> g_irs (ghost_step cx gr s ev s' out) = Some irs' ->
                  forall k, K = Some k -> k = irs') ->
    kl K R gr s ->
    let gr' := ghost_step cx gr s ev s' out in
    kl (next_K K gr') (next_R R gr' s') gr' s' /\ R <= next_R R gr' s'.
  Proof.
    intros Hrun Hstep Hg Hev Hre (HR0 & HKr & Hk). cbv zeta.
    destruct (step_le _ _ _ _ _ _ Hrun Hstep) as (_ & _ & HC).
    pose proof (step_inv Sx Fx (Fx_nonneg F F_nonneg) cx gr s ev s' out tags Hg Hev Hstep) as (Hg' & _).
    set (gr' := ghost_step cx gr s ev s' out) in *.
    unfold kl, next_K, next_R.
    destruct (g_irs gr) as [irs|] eqn:Ei.
    - destruct Hk as (HK & HR).
      destruct (ghost_irs_keep cx gr s ev s' out irs Hrun Ei) as [Hk' | (Hk' & Hwhy)]; fold gr' in Hk'; rewrite Hk'.
      + assert (Hm : R <= rcv_nxt_off gr' s').
        { rewrite HR. apply (rcv_nxt_mono Sx Fx (Fx_nonneg F F_nonneg) cx gr s ev s' out tags Hg Hev Hstep); fold gr'; congruence. }
        split; [|exact Hm]. split; [lia|]. rewrite HK. split; [rewrite <- HK; exact HKr|]. split; reflexivity.
      + split; [|lia]. split; [exact HR0|]. rewrite HK. split; [rewrite <- HK; exact HKr|].
        destruct Hwhy as [(ip & r & ->) | (ok & -> & Hd)].
        * left. destruct (segment_unsync_pre Sx Fx (Fx_nonneg F F_nonneg) cx gr s ip r s' out tags Hg Hev Hstep) as (H1 & H2);
            [congruence | exact Hk' |]. rewrite HR. unfold rcv_nxt_off. rewrite H1, H2. reflexivity.
        * right. cbn [tcp_step] in Hstep. apply obind_ok_inv in Hstep.
          destruct Hstep as (((s1 & res) & tg) & Hd' & Hstep). inversion Hstep; subst.
          apply (dispatch_resets_closed _ _ _ _ _ _ Hd Hd').
    - destruct (g_irs gr') as [irs'|] eqn:Ei'.
      + assert (Hnn : 0 <= rcv_nxt_off gr' s') by (apply rcv_nxt_off_nonneg; [exact Hg' | congruence]).
        destruct (ghost_sync_seg cx gr s ev s' out Hrun Ei) as (ip & r & ->); [fold gr'; congruence|].
        assert (HR' : R = 0).
        { destruct Hk as [E|E]; [exact E|]. exfalso. destruct (HC E) as (Hc' & _).
          unfold gr' in Ei'. cbn [ghost_step] in Ei'. rewrite Ei in Ei'. unfold is_state in Ei'. rewrite Hc' in Ei'.
          cbn in Ei'. congruence. }
        split; [|lia]. split; [exact Hnn|].
        destruct (sync_only_by_syn Sx Fx (Fx_nonneg F F_nonneg) cx gr s ip r s' out tags Hg Hev Hstep Ei) as (_ & Hirs & _);
          [fold gr'; congruence|]. fold gr' in Hirs. rewrite Ei' in Hirs. inversion Hirs; subst irs'.
        destruct Hev as (Hrange & _).
        destruct K as [k|].
        * rewrite (Hre _ eq_refl eq_refl k eq_refl). split; [intros k0 E; inversion E; subst; exact Hrange|]. split; reflexivity.
        * split; [intros k0 E; inversion E; subst; exact Hrange|]. split; reflexivity.
      + split; [|lia]. split; [exact HR0|]. split.
        * destruct K; [exact HKr|]. intros k E. discriminate.
        * destruct Hk as [E|E]; [left; exact E | right; apply (HC E)].
  Qed.
End KLink.

(* ---------------------------------------------------------------------------------------- *)
(* a segment the sender emits is consistent with the stream oracle                           *)
(* ---------------------------------------------------------------------------------------- *)
Lemma pkt_good_new S F ex' gt' J' R p :
  inv gt' (ep_sock ex') -> tx_pkt_ok gt' p -> txl gt' ex' -> jl J' gt' (ep_sock ex') ->
  compat S F ex' -> g_una gt' <= R + 1 ->
  pkt_good S F J' (l_len (ep_written ex')) R p.
Proof.
  intros Hi (W2 & Hsyn & Hrst & Hcar) Htxl Hjl (C1 & C2 & C3) Huna.
  split.
  - unfold pkt_wf. pose proof (TcpRecvBase.l_len_nonneg (r_payload (snd p))). lia.
  - intros Hc. destruct (Hcar Hc) as (Hp & Hkind).
    unfold jl in Hjl. destruct J' as [j|]; [|congruence].
    destruct Hjl as (Hj & Hiss & _). specialize (Hiss Hp).
    exists j. split; [reflexivity|].
    destruct Htxl as [(T1 & T2) | (_ & (_ & _ & B3))]; [|congruence].
    destruct Hkind as [(k & Hk0 & Hseq & Hpay & Hlen & Hfin) | (Hn1 & Hctl & u & Hu & Hseq)].
    + left. exists k. split; [exact Hk0|].
      split; [rewrite Hseq, <- Hiss, sq_idem_add3; reflexivity|].
      rewrite T1 in *.
      split.
      * intros i Hi'. rewrite Hpay. rewrite l_slice_znth by lia. apply C1.
        pose proof (TcpRecvBase.l_len_nonneg (r_payload (snd p))). lia.
      * split; [exact Hlen|]. intros Hf. destruct (Hfin Hf) as (Hgf & Hkn).
        rewrite Hkn. apply C3. rewrite <- T2. exact Hgf.
    + right. split; [exact Hn1|]. split; [exact Hctl|]. exists u. split; [lia|].
      rewrite Hseq, <- Hiss, sq_idem_add. reflexivity.
Qed.

(* ---------------------------------------------------------------------------------------- *)
(* SND.UNA moves only to what the peer has really received (handshake and ACK argument)      *)
(* ---------------------------------------------------------------------------------------- *)
Lemma una_advance s ev s' out gt gt' J Ky Ry L p ex :
  inv gt s -> inv gt' s' -> tx_same gt s ev gt' out -> g_una gt < g_una gt' ->
  ev = EvSegment (fst p) (wire_parse (snd p)) ->
  (r_control (snd p) <> CRst -> forall a, r_ack_number (snd p) = Some a ->
     exists irs c, Ky = Some irs /\ a = sq (irs + 1 + c) /\ 0 <= c <= Ry) ->
  (forall k, Ky = Some k -> 0 <= k < 4294967296) ->
  jl J gt s -> (forall j k, J = Some j -> Ky = Some k -> k = j) -> (J = None -> Ry = 0) ->
  txl gt ex -> ep_sock ex = s -> L = l_len (ep_written ex) -> Ry <= L + 1 ->
  (forall a c, r_ack_number (snd p) = Some a -> 0 <= c <= L + 1 ->
     a = seq_norm (s_local_seq_no s + (c - una_off ex)) ->
     - 2147483648 <= c - una_off ex < 2147483648) ->
  exists irs, Ky = Some irs /\ irs = sq (g_iss gt') /\ g_una gt' <= Ry + 1.
Proof.
  intros Hi Hi' Hs Hlt Hev Huu HKr Hjl Hanchor Hquiet Htxl Hsock HL HRL Hage.
  pose proof Hs as (Hiss & Hstream & _ & _ & _ & _ & Hsyn1 & Hadv).
  destruct (Hadv Hlt) as (ip & r & Hev' & Hacc & Hnrst & Hack).
  rewrite Hev in Hev'. inversion Hev'; subst ip r; clear Hev'.
  destruct (wire_parse_fields (snd p)) as (_ & _ & P3 & P4). rewrite P3 in Hnrst. rewrite P4 in Hack.
  destruct (r_ack_number (snd p)) as [a0|] eqn:Ea0; [|discriminate].
  destruct (Huu Hnrst a0 eq_refl) as (irs & c & HK & Haa & Hc).
  assert (Ha : sq (g_iss gt + g_una gt') = sq (irs + 1 + c)).
  { inversion Hack as [Hack']. rewrite Haa, seq_norm_sq. reflexivity. }
  pose proof (HKr _ HK) as Hirs_r.
  pose proof (accepts_not_closed' _ _ _ Hacc) as Hncl.
  exists irs. split; [exact HK|].
  unfold jl in Hjl. destruct J as [j|].
  - destruct Hjl as (Hj & Hd & Hcl).
    assert (Hp : g_phase gt <> PSyn) by (intros E; apply Hncl; apply Hcl; exact E).
    specialize (Hd Hp). pose proof (Hanchor j irs eq_refl HK) as Hij. subst irs.
    split; [rewrite Hiss; symmetry; exact Hd|].
    (* the sender invariant before and after *)
    destruct Hi as ((Hwf & Hcap & Ha0 & Hlen & _ & Hlsn & _ & _ & _ & Hph & _) & _).
    destruct Hi' as ((Hwf' & Hcap' & Ha0' & Hlen' & _ & _ & _ & _ & _ & Hph' & _) & _).
    destruct Htxl as [(T1 & _) | (Dc & _)]; [|rewrite Hsock in Dc; congruence].
    assert (Hstr : g_stream gt' = g_stream gt) by (rewrite Hstream, Hev; reflexivity).
    assert (Huo : una_off ex = g_acked gt).
    { unfold una_off. rewrite Hsock, <- T1. lia. }
    destruct Hwf as (Hl0 & _). destruct Hwf' as (Hl0' & _).
    (* una' = 1 + c modulo 2^32 *)
    assert (Hcong : sq (g_iss gt + g_una gt') = sq (g_iss gt + (1 + c))).
    { rewrite Ha, <- Hd, sq_idem_add3. f_equal. lia. }
    destruct (g_phase gt) eqn:Ep; [congruence| |].
    + (* PData *)
      assert (Huna : g_una gt = 1 + g_acked gt) by (unfold g_una; rewrite Ep; reflexivity).
      assert (Hagec : - 2147483648 <= c - g_acked gt < 2147483648).
      { rewrite <- Huo. apply (Hage a0 c eq_refl); [lia|].
        rewrite Hlsn, Huo, Huna, Haa, <- Hd, sq_idem_add3, sq_norm, seq_add_norm_l. f_equal. lia. }
      assert (Hub : g_una gt' <= 2 + l_len (g_stream gt')).
      { unfold g_una. destruct (g_phase gt'); lia. }
      rewrite Hstr in Hub.
      assert (Heq : g_una gt' = 1 + c).
      { apply (sq_offsets_eq (g_iss gt)); [exact Hcong|]. lia. }
      lia.
    + (* PFinAcked: nothing left to acknowledge *)
      exfalso. unfold phase_ok in Hph. rewrite Ep in Hph. destruct Hph as (Hl00 & _).
      assert (Huna : g_una gt = 2 + g_acked gt) by (unfold g_una; rewrite Ep; reflexivity).
      assert (Hub : g_una gt' <= 2 + l_len (g_stream gt')).
      { unfold g_una. destruct (g_phase gt'); lia. }
      rewrite Hstr in Hub. lia.
  - (* the SYN is acknowledged: nothing was received yet *)
    pose proof (Hquiet eq_refl) as HR0. assert (c = 0) by lia. subst c.
    rewrite (una_syn gt Hjl) in Hlt. pose proof (Hsyn1 Hjl) as H1.
    assert (Hu1 : g_una gt' = 1) by lia. rewrite Hu1 in *.
    split; [|lia].
    rewrite Hiss. replace (irs + 1 + 0) with (irs + 1) in Ha by lia.
    apply sq_succ_inj in Ha. rewrite Ha. symmetry. apply sq_small'. exact Hirs_r.
Qed.

(* ---------------------------------------------------------------------------------------- *)
(* receiver-side clauses of a direction                                                      *)
(* ---------------------------------------------------------------------------------------- *)
Section RxDir.
  Variable S : Z -> Z.
  Variable F : option Z.
  Hypothesis F_nonneg : forall f, F = Some f -> 0 <= f.
  Notation Sx := (fun _ : nat => S).
  Notation Fx := (fun _ : nat => F).

  Lemma rcv_count_bound gr s L :
    ginv Sx Fx gr s -> g_irs gr <> None -> 0 <= L ->
    (forall k, g_have gr k -> 0 <= k < L) -> rcv_count gr s <= L.
  Proof.
    intros Hg Hi HL Hh. pose proof (ginv_have Sx Fx gr s Hg Hi) as Hhave.
    destruct (Z.leb_spec (rcv_count gr s) L); [lia|].
    exfalso. assert (Hc : 0 <= L < rcv_count gr s) by lia.
    specialize (Hh L (Hhave L Hc)). lia.
  Qed.

  Lemma R_bound_synced gr s L :
    ginv Sx Fx gr s -> g_irs gr <> None -> 0 <= L ->
    (forall k, g_have gr k -> 0 <= k < L) -> rcv_nxt_off gr s <= L + 1.
  Proof.
    intros Hg Hi HL Hh. pose proof (rcv_count_bound gr s L Hg Hi HL Hh).
    unfold rcv_nxt_off. pose proof (b2z_range (s_rx_fin_received s)). lia.
  Qed.

  (* x receives; [p] is the in-flight segment when the event is a segment *)
  Lemma have_step cx s ev s' out tags gr J L R ey :
    run_ev ev -> tcp_step cx s ev = Ok (s', out, tags) ->
    ginv Sx Fx gr s ->
    compat S F ey -> L = l_len (ep_written ey) ->
    (forall ip r, ev = EvSegment ip r -> forall irs, g_irs gr = Some irs ->
       exists p, ip = fst p /\ r = wire_parse (snd p) /\ pkt_good S F J L R p /\
                 (forall j, J = Some j -> irs = j) /\ R = wsq (g_consumed gr) s /\ R <= L + 1 /\
                 (forall k, -1 <= k <= L ->
                    r_seq_number (snd p) = seq_norm (tcp_window_start s + (k - wsq (g_consumed gr) s)) ->
                    - 2147483648 <= k - wsq (g_consumed gr) s < 2147483648)) ->
    (forall k, g_have gr k -> J <> None /\ 0 <= k < L) ->
    forall k, g_have (ghost_step cx gr s ev s' out) k -> J <> None /\ 0 <= k < L.
  Proof.
    intros Hrun Hstep Hg Hcompat HL Hseg Hold k Hk.
    destruct ev; try contradiction; cbn [ghost_step] in Hk.
    - apply Hold. exact Hk.
    - apply Hold. exact Hk.
    - destruct out; cbn [g_have] in Hk; apply Hold; exact Hk.
    - destruct (g_irs gr) as [irs|] eqn:Ei.
      + destruct (is_state s' Listen); [cbn in Hk; contradiction|].
        cbn [g_have] in Hk. destruct Hk as [Hk | (Hnear & Hk1 & Hk2)]; [apply Hold; exact Hk|].
        destruct (Hseg ip r eq_refl irs eq_refl) as (p & -> & -> & Hgood & Hanc & HR & HRL & Hage).
        unfold ginv in Hg. rewrite Ei in Hg. destruct Hg as (Hsy & _).
        eapply (have_of_good S F _ irs (g_consumed gr) s J L R p ey k Hsy Hcompat HL Hgood Hanc HR HRL Hage Hk1 Hk2).
      + destruct (_ || _); [cbn in Hk; contradiction | apply Hold; exact Hk].
    - destruct (dispatch_resets cx s); [cbn in Hk; contradiction | apply Hold; exact Hk].
  Qed.

  (* acknowledgement numbers of what x emits *)
  Lemma uu_new gr' s' K' R' p :
    ack_ok Fx gr' s' p -> kl K' R' gr' s' ->
    r_control (snd p) <> CRst -> forall a, r_ack_number (snd p) = Some a ->
    exists irs c, K' = Some irs /\ a = sq (irs + 1 + c) /\ 0 <= c <= R'.
  Proof.
    intros Hack (HR0 & _ & Hk) Hn a Ha.
    destruct Hack as [Hc | [Hnone | (irs & Hi & Hnum & _)]]; [congruence | congruence|].
    rewrite Hi in Hk. destruct Hk as (HK & HR). exists irs, R'. split; [exact HK|].
    split; [|lia]. rewrite Ha in Hnum. inversion Hnum; subst a. rewrite HR. unfold rcv_nxt_off.
    unfold sq, seq_norm, seq_modulus. f_equal. lia.
  Qed.
End RxDir.

(* ---------------------------------------------------------------------------------------- *)
(* one socket event at endpoint x (peer y), all clauses together                             *)
(* ---------------------------------------------------------------------------------------- *)
Lemma log_written_prefix w ev out : prefix w (log_written w ev out).
Proof. unfold log_written. destruct ev, out; auto using prefix_refl, prefix_app. Qed.

Lemma next_J_some J gt' j : J = Some j -> next_J J gt' = Some j.
Proof. intros ->. reflexivity. Qed.

Lemma next_J_keeps J gt' : J <> None -> next_J J gt' <> None.
Proof. destruct J; [discriminate | congruence]. Qed.

Lemma next_J_none J gt' : next_J J gt' = None -> J = None.
Proof. destruct J; [discriminate | reflexivity]. Qed.

Lemma wire_out_emitted out p : wire_out out = Some p -> emitted out = Some p /\ tx_emitted out = Some p.
Proof. destruct out as [| | | |[q|]|[|q|q]]; cbn; intros H; inversion H; split; reflexivity. Qed.

(* the facts about an in-flight segment p (emitted by y) that x's receiver needs *)
Lemma deliver_facts S F ex gx ey gy p irs :
  EP S F ex gx -> DIR S F ey gy ex gx -> In p (ep_sent ey) -> seg_age ex ey (snd p) ->
  g_irs (eg_rx gx) = Some irs ->
  let L := l_len (ep_written ey) in
  let s := ep_sock ex in
  let c := g_consumed (eg_rx gx) in
  pkt_good S F (eg_J gy) L (eg_R gx) p /\ (forall j, eg_J gy = Some j -> irs = j) /\
  eg_R gx = wsq c s /\ eg_R gx <= L + 1 /\
  (forall k, -1 <= k <= L ->
     r_seq_number (snd p) = seq_norm (tcp_window_start s + (k - wsq c s)) ->
     - 2147483648 <= k - wsq c s < 2147483648).
Proof.
  intros (_ & _ & Hg & _ & (R1 & _) & _ & (_ & _ & Hk)) (Hpd & Hanc & _ & _ & _ & HRL & _) Hin (Hage & _) Hi.
  cbv zeta. rewrite Hi in Hk. destruct Hk as (HK & HR).
  split; [apply Hpd; exact Hin|].
  split; [intros j HJ; apply (Hanc j irs HJ HK)|].
  assert (Hw : eg_R gx = wsq (g_consumed (eg_rx gx)) (ep_sock ex)).
  { rewrite HR. unfold rcv_nxt_off, rcv_count, wsq, finz. reflexivity. }
  split; [exact Hw|]. split; [exact HRL|].
  assert (Hoff : rcv_off ex = wsq (g_consumed (eg_rx gx)) (ep_sock ex)).
  { unfold rcv_off, wsq, finz. rewrite <- R1 by congruence.
    unfold ginv in Hg. rewrite Hi in Hg. destruct Hg as (_ & (Hl & _)). rewrite Hl. reflexivity. }
  intros k Hk Hseq. rewrite <- Hoff. apply Hage; [exact Hk|]. rewrite Hoff. exact Hseq.
Qed.

Section XStep.
  Hypothesis c05 : c05_contract.
  Variables (Sin : Z -> Z) (Fin : option Z) (Sout : Z -> Z) (Fout : option Z).
  Notation Sx := (fun _ : nat => Sin).
  Notation Fx := (fun _ : nat => Fin).

  Lemma xstep ex gx ey gy ev ex' s' out tags :
    EP Sin Fin ex gx -> EP Sout Fout ey gy ->
    DIR Sout Fout ex gx ey gy -> DIR Sin Fin ey gy ex gx ->
    compat Sout Fout ex' -> compat Sin Fin ey ->
    run_ev ev -> tcp_step (ep_cx ex) (ep_sock ex) ev = Ok (s', out, tags) -> xfacts ex ev ex' s' out ->
    (forall ip r, ev = EvSegment ip r ->
       exists p, In p (ep_sent ey) /\ ip = fst p /\ r = wire_parse (snd p) /\ seg_age ex ey (snd p)) ->
    (forall n, ev = EvRecv n -> 0 <= n) ->
    let gr' := ghost_step (ep_cx ex) (eg_rx gx) (ep_sock ex) ev s' out in
    (forall irs', g_irs (eg_rx gx) = None -> g_irs gr' = Some irs' ->
                  forall k, eg_K gx = Some k -> k = irs') ->
    (forall irs' j, g_irs (eg_rx gx) = None -> g_irs gr' = Some irs' -> eg_K gx = None ->
                    eg_J gy = Some j -> irs' = j) ->
    exists gt',
      let gx' := next_g gx gt' gr' s' in
      EP Sin Fin ex' gx' /\ DIR Sout Fout ex' gx' ey gy /\ DIR Sin Fin ey gy ex' gx' /\
      inv gt' s' /\
      (tx_same (eg_tx gx) (ep_sock ex) ev gt' out \/
       tx_new (ep_cx ex) (eg_tx gx) (ep_sock ex) ev gt' s' out) /\
      (forall p, tx_emitted out = Some p -> tx_pkt_ok gt' p) /\
      (eg_J gx = None -> forall j, eg_J gx' = Some j -> eg_K gy = Some j) /\
      (ep_closed ex = true -> ep_written ex' = ep_written ex).
  Proof.
    intros HEPx HEPy HDxy HDyx Hcout Hcin Hrun Hstep Hxf Hseg Hrecv gr' Hresync Hancsync.
    pose proof HEPx as (Hinv & (Hcx & (Hmtu & Hlive)) & Hg & Htxl & Hrxl & Hjl & Hkl).
    pose proof HEPy as (_ & _ & _ & _ & _ & _ & Hkly).
    pose proof HDxy as (Hpd & Hanc & Hhv & Hquiet & Hvv & HRL & Huu & Hrd).
    pose proof HDyx as (Hpd2 & Hanc2 & Hhv2 & Hquiet2 & Hvv2 & HRL2 & Huu2 & Hrd2).
    pose proof Hxf as (X1 & X2 & X3 & X4 & X5 & X6 & X7).
    pose proof (compat_F_nonneg _ _ _ Hcin) as HFnn.
    set (s := ep_sock ex) in *. set (cx := ep_cx ex) in *.
    set (gt := eg_tx gx) in *. set (gr := eg_rx gx) in *.
    destruct (ginv_wf Sx Fx gr s Hg) as (Hwf & _ & Hsh).
    (* admissibility of the event for the receiver *)
    assert (Hevrx : ev_ok Sx Fx gr s ev).
    { destruct ev; try exact I.
      - apply (Hrecv n eq_refl).
      - destruct (Hseg ip r eq_refl) as (p & Hin & -> & -> & Hage).
        destruct (wire_parse_fields (snd p)) as (_ & P2 & _).
        split; [rewrite P2; apply seq_norm_range|].
        destruct (g_irs gr) as [irs|] eqn:Ei; [|exact I].
        destruct (deliver_facts Sin Fin ex gx ey gy p irs HEPx HDyx Hin Hage Ei) as (Hgood & Hanc' & HR & HRL' & Hage').
        unfold ginv in Hg. fold gr in Ei. rewrite Ei in Hg. destruct Hg as (Hsy & _).
        eapply (seg_ok_of_good Sin Fin _ irs _ s _ _ _ p ey Hsy Hcin eq_refl Hgood Hanc' HR HRL' Hage'). }
    assert (Hevtx : match ev with EvSegment ip r => repr_ok r | _ => True end).
    { destruct ev; try exact I. destruct (Hseg ip r eq_refl) as (p & Hin & _ & -> & _).
      apply repr_ok_parse. }
    (* C05 and C04 *)
    destruct (c05 cx gt s ev s' out tags Hinv Hcx Hmtu Hlive Hevtx Hstep) as (gt' & Hinv' & Hrel & Hpk).
    assert (Hlive' : TcpLiveProofs.tcp_live_inv s').
    { apply (TcpLiveProofs.step_inv cx s ev s' out tags); [apply Hcx| |exact Hlive | exact Hstep].
      destruct ev; try exact I. cbn [TcpLiveProofs.ev_ok]. destruct Hevtx as (_ & H2 & H3 & H4).
      split; [exact H3|]. split; [exact H2 | exact H4]. }
    pose proof (step_inv Sx Fx (Fx_nonneg Fin HFnn) cx gr s ev s' out tags Hg Hevrx Hstep) as (Hg' & Hack & _).
    fold gr' in Hg', Hack.
    exists gt'. cbv zeta.
    (* links *)
    pose proof (txl_step cx ex ev ex' s' out tags gt gt' Hrun Hstep Hxf Hinv' Hrel Htxl) as Htxl'.
    pose proof (jl_step cx s ev s' out tags gt gt' (eg_J gx) Hrun Hstep Hinv' Hrel Hjl) as Hjl'.
    pose proof (rxl_step Sin Fin HFnn cx ex ev ex' s' out tags gr Hrun Hstep Hxf Hg Hevrx Hrxl) as Hrxl'.
    destruct (kl_step Sin Fin HFnn cx s ev s' out tags gr (eg_K gx) (eg_R gx) Hrun Hstep Hg Hevrx Hresync Hkl)
      as (Hkl' & HRmono).
    fold gr' in Hrxl', Hkl', HRmono.
    set (J' := next_J (eg_J gx) gt') in *. set (K' := next_K (eg_K gx) gr') in *.
    set (R' := next_R (eg_R gx) gr' s') in *.
    assert (HLmono : l_len (ep_written ex) <= l_len (ep_written ex')).
    { rewrite X4. apply l_len_prefix. apply log_written_prefix. }
    destruct Hkly as (HRy0 & HKyr & _).
    (* SND.UNA: either unchanged / reset, or advanced by an in-flight ACK *)
    assert (Huna : g_una gt' <= g_una gt \/
                   (tx_same gt s ev gt' out /\ g_una gt < g_una gt')).
    { destruct Hrel as [Hs | ((_ & _ & Hp') & _)].
      - destruct (Z.leb_spec (g_una gt') (g_una gt)); [left; assumption | right; split; assumption].
      - left. rewrite (una_syn gt' Hp'). apply (una_nonneg gt s Hinv). }
    assert (Hadv : g_una gt < g_una gt' -> tx_same gt s ev gt' out ->
                   exists irs, eg_K gy = Some irs /\ irs = sq (g_iss gt') /\ g_una gt' <= eg_R gy + 1).
    { intros Hlt Hs. pose proof Hs as (_ & _ & _ & _ & _ & _ & _ & Hadv0).
      destruct (Hadv0 Hlt) as (ip & r & Hev & _). subst ev.
      destruct (Hseg ip r eq_refl) as (p & Hin & -> & -> & (_ & Hage)).
      eapply (una_advance s _ s' out gt gt' (eg_J gx) (eg_K gy) (eg_R gy) (l_len (ep_written ex)) p ex
                Hinv Hinv' Hs Hlt eq_refl); try eassumption; try reflexivity.
      intros Hn a Ha. apply (Huu p Hin Hn a Ha). }
    assert (Hvv' : g_una gt' <= eg_R gy + 1).
    { destruct Huna as [Hle | (Hs & Hlt)]; [fold gt in Hvv; lia|].
      destruct (Hadv Hlt Hs) as (_ & _ & _ & H). exact H. }
    assert (HJnew : eg_J gx = None -> forall j, J' = Some j -> eg_K gy = Some j).
    { intros HJ j Hj'. unfold J', next_J in Hj'. rewrite HJ in Hj'.
      destruct (phase_syn gt') eqn:Ep; [discriminate|]. inversion Hj'; subst j; clear Hj'.
      apply phase_syn_false in Ep. unfold jl in Hjl. rewrite HJ in Hjl.
      destruct Huna as [Hle | (Hs & Hlt)].
      - exfalso. rewrite (una_syn gt Hjl) in Hle. pose proof (una_pos gt' s' Hinv' Ep). lia.
      - destruct (Hadv Hlt Hs) as (irs & HK & Hirs & _). rewrite <- Hirs. exact HK. }
    assert (Hfrozen : ep_closed ex = true -> ep_written ex' = ep_written ex).
    { intros Hcl. rewrite X4. unfold log_written. destruct ev; try reflexivity. destruct out; try reflexivity.
      cbn [tcp_step] in Hstep.
      destruct (tcp_send_slice s data) as [(s1, n1)|e|] eqn:Es; inversion Hstep; subst s1 n1 tags; clear Hstep.
      destruct (send_slice_tailf _ _ _ _ Es) as (_ & Hst).
      assert (Hms : tcp_may_send s = true).
      { unfold tcp_send_slice in Es. destruct (tcp_may_send s); [reflexivity | discriminate]. }
      destruct Htxl as [(T1 & T2) | (Dc & _)].
      - destruct Hrel as [(_ & Hst' & _ & Hfr & _) | (_ & [(Hc' & _) | Hf])].
        + fold gt in T2. rewrite Hcl in T2. specialize (Hfr T2). rewrite Hst' in Hfr. unfold log_written in Hfr.
          rewrite <- (app_nil_r (g_stream gt)) in Hfr at 2. apply app_inv_head in Hfr. rewrite Hfr. apply app_nil_r.
        + exfalso. unfold tcp_may_send in Hms. rewrite <- Hst, Hc' in Hms. discriminate.
        + contradiction.
      - exfalso. fold s in Dc. unfold tcp_may_send in Hms. rewrite Dc in Hms. discriminate. }
    split; [|split; [|split; [|split; [exact Hinv'|split; [exact Hrel|split; [exact Hpk|split; [exact HJnew | exact Hfrozen]]]]]]].
    - (* EP x *)
      unfold EP. cbn [eg_tx eg_rx eg_J eg_K eg_R next_g]. rewrite X1, X2.
      split; [exact Hinv'|]. split; [split; [exact Hcx|split; [rewrite X2; exact Hmtu | rewrite X1; exact Hlive']]|]. split; [exact Hg'|]. split; [exact Htxl'|].
      split; [exact Hrxl'|]. split; [exact Hjl' | exact Hkl'].
    - (* x -> y *)
      unfold DIR. cbn [eg_tx eg_rx eg_J eg_K eg_R next_g].
      split; [|split; [|split; [|split; [|split; [exact Hvv'|split; [lia | split; [exact Huu|]]]]]]];
        [| | | |destruct Hrd as (Hrd1 & Hrd0); split; [lia | exact Hrd0]].
      + intros p Hin. rewrite X3 in Hin. apply in_app_or in Hin. destruct Hin as [Hin | Hin].
        * pose proof (Hpd p Hin) as Hgood.
          apply (pkt_good_mono _ _ _ (l_len (ep_written ex)) (eg_R gy)); [exact HLmono | lia|].
          unfold J', next_J. destruct (eg_J gx) as [j|]; [exact Hgood|].
          destruct (phase_syn gt'); [exact Hgood | apply pkt_good_set_J; exact Hgood].
        * destruct (wire_out out) as [q|] eqn:Ew; cbn in Hin; [|contradiction].
          destruct Hin as [<- | []]. destruct (wire_out_emitted _ _ Ew) as (_ & Ht).
          apply (pkt_good_new Sout Fout ex' gt' J' (eg_R gy) q); try assumption.
          -- rewrite X1. exact Hinv'.
          -- apply Hpk. exact Ht.
          -- rewrite X1. exact Hjl'.
      + intros j k Hj HK. destruct (eg_J gx) as [j0|] eqn:EJ.
        * unfold J', next_J in Hj. inversion Hj; subst j0. apply (Hanc j k eq_refl HK).
        * pose proof (HJnew eq_refl j Hj) as HK'. congruence.
      + intros k Hk. destruct (Hhv k Hk) as (H1 & H2). split; [apply next_J_keeps; exact H1 | lia].
      + intros HJ'. apply Hquiet. apply (next_J_none _ _ HJ').
    - (* y -> x *)
      unfold DIR. cbn [eg_tx eg_rx eg_J eg_K eg_R next_g].
      assert (Hhv2' : forall k, g_have gr' k -> eg_J gy <> None /\ 0 <= k < l_len (ep_written ey)).
      { apply (have_step Sin Fin cx s ev s' out tags gr (eg_J gy) _ (eg_R gx) ey Hrun Hstep Hg Hcin eq_refl); [|exact Hhv2].
        intros ip r -> irs Ei. destruct (Hseg ip r eq_refl) as (p & Hin & -> & -> & Hage).
        exists p. split; [reflexivity|]. split; [reflexivity|].
        apply (deliver_facts Sin Fin ex gx ey gy p irs HEPx HDyx Hin Hage Ei). }
      assert (HL0 : 0 <= l_len (ep_written ey)) by apply TcpRecvBase.l_len_nonneg.
      split; [|split; [|split; [exact Hhv2'|split; [|split; [lia|split; [|split]]]]]].
      + intros p Hin. apply (pkt_good_mono _ _ _ (l_len (ep_written ey)) (eg_R gx)); [lia | exact HRmono|].
        apply Hpd2. exact Hin.
      + intros j k Hj HK. unfold K', next_K in HK. destruct (eg_K gx) as [k0|] eqn:EK.
        * inversion HK; subst k0. apply (Hanc2 j k Hj eq_refl).
        * assert (Hun : g_irs gr = None).
          { destruct Hkl as (_ & _ & Hk). destruct (g_irs gr); [destruct Hk; congruence | reflexivity]. }
          apply (Hancsync k j Hun HK eq_refl Hj).
      + (* quiet *)
        intros HJ. unfold R', next_R. destruct (g_irs gr') as [irs'|] eqn:Ei'; [|apply Hquiet2; exact HJ].
        assert (Hrc : rcv_count gr' s' = 0).
        { pose proof (ginv_have Sx Fx gr' s' Hg' ltac:(congruence)) as Hh.
          destruct (Z.leb_spec (rcv_count gr' s') 0) as [Hle|Hgt].
          - unfold ginv in Hg'. rewrite Ei' in Hg'. destruct Hg' as (((Hwf' & _ & _ & _ & Hc0 & _) & _) & _).
            destruct Hwf' as (Hl0 & _). unfold rcv_count in *. lia.
          - exfalso. destruct (Hhv2' 0 (Hh 0 ltac:(lia))) as (Hne & _). congruence. }
        assert (Hfin' : s_rx_fin_received s' = false).
        { destruct (s_rx_fin_received s') eqn:Ef; [exfalso | reflexivity].
          destruct (fin_only_from_fin Sx Fx (Fx_nonneg Fin HFnn) cx gr s ev s' out tags Hg Hevrx Hstep Ef)
            as [Hold | (ip & r & -> & Hc)].
          - pose proof (Hquiet2 HJ) as HR0. destruct Hkl as (_ & _ & Hk).
            unfold ginv in Hg. destruct (g_irs gr) as [irs|] eqn:Ei.
            + destruct Hk as (_ & HR). rewrite HR0 in HR. unfold rcv_nxt_off in HR. rewrite Hold in HR.
              destruct Hg as (((Hwf0 & _ & _ & _ & Hc0 & _) & _) & _). destruct Hwf0 as (Hl0 & _).
              unfold rcv_count in HR. cbn [b2z] in HR. lia.
            + destruct Hg as ((_ & _ & _ & _ & Hf0 & _) & _). congruence.
          - destruct (Hseg ip r eq_refl) as (p & Hin & _ & -> & _).
            destruct (wire_parse_fields (snd p)) as (_ & _ & P3 & _). rewrite P3 in Hc.
            destruct (Hpd2 p Hin) as (_ & Hcar). destruct (Hcar (or_intror Hc)) as (j & Hj & _). congruence. }
        unfold rcv_nxt_off. rewrite Hrc, Hfin'. reflexivity.
      + (* R' <= L + 1 *)
        unfold R', next_R. destruct (g_irs gr') as [irs'|] eqn:Ei'; [|exact HRL2].
        apply (R_bound_synced Sin Fin HFnn gr' s' _ Hg'); [congruence | exact HL0|].
        intros k Hk. apply (Hhv2' k Hk).
      + (* acknowledgement numbers of x *)
        intros p Hin Hn a Ha. rewrite X3 in Hin. apply in_app_or in Hin. destruct Hin as [Hin | Hin].
        * destruct (Huu2 p Hin Hn a Ha) as (irs & c & HK & Hac & Hc). exists irs, c.
          split; [unfold K', next_K; rewrite HK; reflexivity|]. split; [exact Hac | lia].
        * destruct (wire_out out) as [q|] eqn:Ew; cbn in Hin; [|contradiction].
          destruct Hin as [<- | []]. destruct (wire_out_emitted _ _ Ew) as (He & _).
          apply (uu_new Sin Fin HFnn gr' s' K' R' q (Hack q He) Hkl' Hn a Ha).
      + (* what x has read *)
        destruct (g_irs gr') as [irs'|] eqn:Ei'.
        * assert (Hne : g_irs gr' <> None) by congruence.
          rewrite <- (proj1 Hrxl' Hne).
          pose proof (rcv_count_bound Sin Fin HFnn gr' s' _ Hg' ltac:(congruence) HL0 (fun k Hk => proj2 (Hhv2' k Hk))) as Hb.
          unfold ginv in Hg'. rewrite Ei' in Hg'. destruct Hg' as (((Hwf' & _) & _) & (Hl & Hd)).
          destruct Hwf' as (Hl0 & _). unfold rcv_count in Hb. fold s gr gr'. split; [lia|].
          intros j Hj. apply Hd. lia.
        * assert (Hsame : ep_read ex' = ep_read ex).
          { rewrite X5. unfold log_read. destruct ev; try reflexivity. destruct out; try reflexivity. exfalso.
            unfold gr' in Ei'. cbn [ghost_step g_irs] in Ei'.
            unfold ginv in Hg. fold gr in Ei'. rewrite Ei' in Hg. destruct Hg as (Hu & _).
            cbn [tcp_step] in Hstep. rewrite (recv_unsynced s n Hu) in Hstep. discriminate. }
          rewrite Hsame. exact Hrd2.
  Qed.
End XStep.
