(* Lemmas about Model/WireIpv6Routing.v (properties C06, C07): the IPv6 Routing header (Type 2
   and RPL source routing).  [v6rt_bytes r] are the explicit octets; the 4-bit fields cmpr_i,
   cmpr_e, pad are handled by finite tables over bounded variables (the values below 16 under the
   proviso and the old low nibble of the CMPR octet, reduced to a bounded variable with
   [land_15_range]); everything else is by evaluation on the 6-octet fixed part followed by a
   symbolic tail. *)
From SV Require Import Lib.Base Gen.WireFields Model.WireBase Model.WireIpv6Routing
  Proofs.WireBaseProofs Proofs.Wire2Kit.

Definition v6rt_bytes (r : v6rt_repr) : list Z :=
  match r with
  | V6RtType2 sl ha => [v6rt_T_TYPE2; sl; 0; 0; 0; 0] ++ ha
  | V6RtRpl sl ci ce p a => [v6rt_T_RPL; sl; ci * 16 + ce; p * 16; 0; 0] ++ a
  end.

(* ---------- the 4-bit fields: finite tables ----------
   ci, ce, p = the values written (below 16 under the proviso), e = the old low nibble of the CMPR
   octet (all that set_cmpr_i keeps of the old contents). *)
Definition v6rt_tab_cmpr (ci ce e : Z) : bool :=
  Z.lor (Z.land ce 15) (Z.land (Z.lor (Z.shiftl ci 4 mod 256) e) 240) =? ci * 16 + ce.
Definition v6rt_tab_pad (p : Z) : bool := Z.land (Z.shiftl p 4 mod 256) 240 =? p * 16.
Definition v6rt_tab_get (ci ce : Z) : bool :=
  (Z.shiftr (ci * 16 + ce) 4 =? ci) && (Z.land (ci * 16 + ce) 15 =? ce).

Lemma v6rt_table_cmpr :
  forallb (fun x => forallb (fun y => forallb (v6rt_tab_cmpr x y) (ztab 16)) (ztab 16)) (ztab 16) = true.
Proof. vm_compute. reflexivity. Qed.
Lemma v6rt_table_pad : forallb v6rt_tab_pad (ztab 16) = true.
Proof. vm_compute. reflexivity. Qed.
Lemma v6rt_table_get : forallb (fun x => forallb (v6rt_tab_get x) (ztab 16)) (ztab 16) = true.
Proof. vm_compute. reflexivity. Qed.

(* ---------- C06 ---------- *)

Lemma v6rt_emit_spec r b : v6rt_wf r = true -> blen b = v6rt_buffer_len r ->
  v6rt_emit r b = Ok (v6rt_bytes r).
Proof.
  intros Hwf Hb. destruct r as [sl ha|sl ci ce p a]; cbn [v6rt_wf v6rt_buffer_len v6rt_emit v6rt_bytes] in *; bsplit.
  - zfold_in Hb. destruct (split_hdr b 6 ltac:(lia)) as (h & t & -> & Hh & Ht). zfold_in Hh. cells Hh.
    unfold v6rt_set_routing_type, v6rt_set_segments_left, v6rt_clear_reserved, v6rt_routing_type,
      v6rt_set_home_address, wb_set_field. zfold. cbn [fst snd].
    repeat (hstep; zfold; cbn [obind]).
    apply wb_set_slice_tail; autorewrite with blen in *; zfold; lia.
  - pose proof (blen_nonneg a). destruct (split_hdr b 6 ltac:(lia)) as (h & t & -> & Hh & Ht). zfold_in Hh. cells Hh.
    unfold v6rt_set_routing_type, v6rt_set_segments_left, v6rt_set_cmpr_i, v6rt_set_cmpr_e, v6rt_set_pad,
      v6rt_clear_reserved, v6rt_routing_type, v6rt_set_addresses. zfold.
    repeat (hstep; zfold; cbn [obind]).
    pose proof (land_15_range c1) as He. generalize dependent (Z.land c1 15). intros e He.
    replace (Z.lor (Z.land ce 15) (Z.land (Z.lor (Z.shiftl ci 4 mod 256) e) 240)) with (ci * 16 + ce)
      by (symmetry; apply Z.eqb_eq;
          exact (tab3 16 16 16 v6rt_tab_cmpr v6rt_table_cmpr ci ce e ltac:(lia) ltac:(lia) ltac:(lia))).
    replace (Z.land (Z.shiftl p 4 mod 256) 240) with (p * 16)
      by (symmetry; apply Z.eqb_eq; exact (tab1 16 v6rt_tab_pad v6rt_table_pad p ltac:(lia))).
    apply wb_set_slice_tail; autorewrite with blen in *; zfold; lia.
Qed.

Lemma v6rt_bytes_len r : v6rt_wf r = true -> blen (v6rt_bytes r) = v6rt_buffer_len r.
Proof.
  destruct r as [sl ha|sl ci ce p a]; cbn [v6rt_wf v6rt_buffer_len v6rt_bytes]; intros H; bsplit;
    autorewrite with blen; zfold; lia.
Qed.

Lemma v6rt_parse_bytes r : v6rt_wf r = true -> v6rt_parse (v6rt_bytes r) = Ok r.
Proof.
  intros Hwf. destruct r as [sl ha|sl ci ce p a]; cbn [v6rt_wf v6rt_bytes] in *; bsplit.
  - match goal with H : blen ha = 16 |- _ => apply (blen_length _ 16) in H; cells H end.
    cbn [app]. reflexivity.
  - pose proof (blen_nonneg a).
    pose proof (tab2 16 16 v6rt_tab_get v6rt_table_get ci ce ltac:(lia) ltac:(lia)) as G.
    unfold v6rt_tab_get in G. bsplit.
    assert (P : Z.shiftr (p * 16) 4 = p) by (rewrite Z.shiftr_div_pow2 by lia; change (2 ^ 4) with 16; lia).
    remember (ci * 16 + ce) as X eqn:HX. remember (p * 16) as Y eqn:HY.
    unfold v6rt_parse, v6rt_check_len, v6rt_routing_type, v6rt_segments_left, v6rt_cmpr_i, v6rt_cmpr_e, v6rt_pad,
      v6rt_addresses. autorewrite with blen. zfold. cbn [snd]. zbool.
    repeat (hstep; zfold; cbn [obind andb]).
    rewrite wb_from_tail by (autorewrite with blen; zfold; lia). cbn [obind].
    congruence.
Qed.

Lemma v6rt_emit_no_panic r b : v6rt_wf r = true -> blen b = v6rt_buffer_len r -> v6rt_emit r b <> Panic.
Proof. intros; rewrite v6rt_emit_spec by assumption; discriminate. Qed.

Lemma v6rt_emit_ignores_old_bytes r b1 b2 : v6rt_wf r = true ->
  blen b1 = v6rt_buffer_len r -> blen b2 = v6rt_buffer_len r -> v6rt_emit r b1 = v6rt_emit r b2.
Proof. intros; rewrite !v6rt_emit_spec by assumption; reflexivity. Qed.

Lemma v6rt_roundtrip r b : v6rt_wf r = true -> blen b = v6rt_buffer_len r ->
  exists bs, v6rt_emit r b = Ok bs /\ blen bs = v6rt_buffer_len r /\ v6rt_parse bs = Ok r.
Proof.
  intros Hwf Hb. exists (v6rt_bytes r). split; [apply v6rt_emit_spec; assumption|].
  split; [apply v6rt_bytes_len; assumption | apply v6rt_parse_bytes; assumption].
Qed.

(* ---------- C07 ---------- *)

Lemma v6rt_check_len_inv bs : v6rt_check_len bs = Ok tt ->
  2 <= blen bs /\ exists t, wb_get_u8 bs 0 = Ok t /\ t = nth 0 bs 0 /\
    (t = 2 -> 22 <= blen bs) /\ (t = 3 -> 6 <= blen bs).
Proof.
  unfold v6rt_check_len, v6rt_routing_type, v6rt_T_TYPE2, v6rt_T_RPL. zfold. cbn [snd].
  destruct (blen bs <? 2) eqn:E; [discriminate|]. bsplit.
  rewrite wb_get_u8_ok by lia. cbn [obind]. zfold. intros H. split; [assumption|].
  eexists; split; [reflexivity|]. split; [reflexivity|].
  destruct (nth 0 bs 0 =? 2) eqn:E2; destruct (nth 0 bs 0 =? 3) eqn:E3; cbn [andb] in H; bsplit;
    repeat case_if_in H; try discriminate; bsplit; split; intros; lia.
Qed.

Lemma v6rt_check_len_total bs : v6rt_check_len bs <> Panic.
Proof.
  unfold v6rt_check_len, v6rt_routing_type. zfold.
  destruct (blen bs <? 2) eqn:E; [discriminate|]. bsplit.
  rewrite wb_get_u8_ok by lia. cbn [obind]. repeat case_if; discriminate.
Qed.

(* home_address applies to Type 2 headers, cmpr_i / cmpr_e / pad / addresses to RPL headers
   ("may panic if this header is not ..." in the source) *)
Lemma v6rt_accessors_safe bs : v6rt_check_len bs = Ok tt ->
  v6rt_routing_type bs <> Panic /\ v6rt_segments_left bs <> Panic /\
  (v6rt_routing_type bs = Ok v6rt_T_TYPE2 -> v6rt_home_address bs <> Panic) /\
  (v6rt_routing_type bs = Ok v6rt_T_RPL ->
     v6rt_cmpr_i bs <> Panic /\ v6rt_cmpr_e bs <> Panic /\ v6rt_pad bs <> Panic /\ v6rt_addresses bs <> Panic).
Proof.
  intros H. destruct (v6rt_check_len_inv bs H) as (L & t & Ht & _ & L2 & L3).
  unfold v6rt_routing_type, v6rt_segments_left, v6rt_home_address, v6rt_cmpr_i, v6rt_cmpr_e, v6rt_pad,
    v6rt_addresses, wb_field, v6rt_T_TYPE2, v6rt_T_RPL. zfold. cbn [fst snd]. rewrite Ht.
  split; [discriminate|]. split; [apply wb_get_u8_nopanic; lia|]. split.
  - intros E. injection E as ->. specialize (L2 eq_refl).
    destruct (wb_sub_ok_len bs 6 22 ltac:(lia) ltac:(lia)) as (s & Hs & Ls & _). rewrite Hs. cbn [obind].
    unfold wb_arr. rewrite Ls. zfold. discriminate.
  - intros E. injection E as ->. specialize (L3 eq_refl).
    rewrite !wb_get_u8_ok by lia. cbn [obind]. repeat split; try discriminate. apply wb_from_nopanic; lia.
Qed.

Lemma v6rt_parse_total bs : v6rt_parse bs <> Panic.
Proof.
  unfold v6rt_parse. destruct (v6rt_check_len bs) as [[]| |] eqn:E; cbn [obind]; try discriminate;
    [|exfalso; exact (v6rt_check_len_total bs E)].
  destruct (v6rt_accessors_safe bs E) as (A1 & A2 & A3 & A4).
  destruct (v6rt_routing_type bs) as [t| |]; cbn [obind]; [|discriminate|congruence].
  destruct (t =? v6rt_T_TYPE2) eqn:T2.
  - bsplit. subst t. specialize (A3 eq_refl). nopanic.
  - destruct (t =? v6rt_T_RPL) eqn:T3; [|discriminate]. bsplit. subst t.
    destruct (A4 eq_refl) as (B1 & B2 & B3 & B4). nopanic.
Qed.

Lemma v6rt_parse_wf bs r : bytes_ok bs = true -> v6rt_parse bs = Ok r -> v6rt_wf r = true.
Proof.
  intros Hb H. unfold v6rt_parse in H.
  destruct (v6rt_check_len bs) as [[]| |] eqn:E; cbn [obind] in H; try discriminate.
  destruct (v6rt_check_len_inv bs E) as (L & t & Ht & Et & L2 & L3).
  unfold v6rt_routing_type, v6rt_segments_left, v6rt_home_address, v6rt_cmpr_i, v6rt_cmpr_e, v6rt_pad,
    v6rt_addresses, wb_field, v6rt_T_TYPE2, v6rt_T_RPL in H. zfold_in H. cbn [fst snd] in H.
  rewrite Ht in H. cbn [obind] in H.
  pose proof (bytes_ok_byte bs 1 Hb ltac:(lia)) as R1. zfold_in R1.
  destruct (t =? 2) eqn:T2.
  - bsplit. specialize (L2 T2). rewrite wb_get_u8_ok in H by lia. cbn [obind] in H. zfold_in H.
    destruct (wb_sub_ok_len bs 6 22 ltac:(lia) ltac:(lia)) as (s & Hs & Ls & Bs). rewrite Hs in H. cbn [obind] in H.
    unfold wb_arr in H. rewrite Ls in H. zfold_in H. cbn [obind] in H. injection H as <-.
    cbn [v6rt_wf]. unfold is_u8, is_arr. rewrite Ls, (Bs Hb). zfold. zbool. reflexivity.
  - destruct (t =? 3) eqn:T3; [|discriminate]. bsplit. specialize (L3 T3).
    rewrite !wb_get_u8_ok in H by lia. cbn [obind] in H. zfold_in H.
    rewrite wb_from_ok in H by lia. cbn [obind] in H. injection H as <-.
    pose proof (bytes_ok_byte bs 2 Hb ltac:(lia)) as R2. zfold_in R2.
    pose proof (bytes_ok_byte bs 3 Hb ltac:(lia)) as R3. zfold_in R3.
    pose proof (shiftr_range (nth 2 bs 0) 4 256 R2 ltac:(lia)) as S2.
    pose proof (shiftr_range (nth 3 bs 0) 4 256 R3 ltac:(lia)) as S3.
    pose proof (land_15_range (nth 2 bs 0)) as A2.
    rewrite !Z.shiftr_div_pow2 in * by lia. change (2 ^ 4) with 16 in *.
    cbn [v6rt_wf]. unfold is_u8. pose proof (bytes_ok_skipn 6 bs Hb) as B6. cbn [skipn] in B6. rewrite B6.
    zbool. reflexivity.
Qed.

Lemma v6rt_reparse bs r : bytes_ok bs = true -> v6rt_parse bs = Ok r ->
  v6rt_wf r = true /\
  forall b, blen b = v6rt_buffer_len r ->
    exists bs', v6rt_emit r b = Ok bs' /\ v6rt_parse bs' = Ok r.
Proof.
  intros Hb H. pose proof (v6rt_parse_wf bs r Hb H) as Hwf. split; [assumption|].
  intros b Hlen. destruct (v6rt_roundtrip r b Hwf Hlen) as (bs' & He & _ & Hp). eauto.
Qed.
