(* Lemmas about Model/WireIcmpv6Hdr.v, used by the MLD and NDISC proofs. *)
From SV Require Import Lib.Base Gen.WireFields Model.WireBase Model.WireIcmpv6Hdr
  Proofs.WireBaseProofs Proofs.Wire2Kit.

(* what check_len establishes: the type is a known one and the whole header it announces
   (at least the 8 common octets) is inside the buffer *)
Lemma icmp6h_check_len_inv bs : icmp6h_check_len bs = Ok tt ->
  exists t, icmp6h_msg_type bs = Ok t /\ icmp6h_known t = true /\
            8 <= blen bs /\ icmp6h_header_len_of t <= blen bs.
Proof.
  unfold icmp6h_check_len. destruct (blen bs <? 4) eqn:E; [discriminate|]. bsplit.
  unfold icmp6h_header_len, icmp6h_msg_type. zfold. rewrite wb_get_u8_ok by lia. cbn [obind].
  set (t := nth (Z.to_nat 0) bs 0).
  destruct (icmp6h_known t) eqn:K; [|discriminate]. cbn [obind]. zfold.
  destruct ((blen bs <? 8) || (blen bs <? icmp6h_header_len_of t)) eqn:E2; [discriminate|].
  apply orb_false_elim in E2. destruct E2. bsplit. intros _. exists t. repeat split; try assumption; lia.
Qed.

Lemma icmp6h_check_len_nopanic bs : icmp6h_check_len bs <> Panic.
Proof.
  unfold icmp6h_check_len. destruct (blen bs <? 4) eqn:E; [discriminate|]. bsplit.
  unfold icmp6h_header_len, icmp6h_msg_type. zfold. rewrite wb_get_u8_ok by lia. cbn [obind].
  case_if; [|discriminate]. cbn [obind]. case_if; discriminate.
Qed.

Lemma icmp6h_header_len_of_range t : 4 <= icmp6h_header_len_of t <= 40.
Proof. unfold icmp6h_header_len_of. repeat case_if; zfold; lia. Qed.

Lemma icmp6h_generic_safe bs : icmp6h_check_len bs = Ok tt ->
  icmp6h_msg_type bs <> Panic /\ icmp6h_msg_code bs <> Panic /\ icmp6h_checksum bs <> Panic /\
  icmp6h_header_len bs <> Panic /\ icmp6h_payload bs <> Panic.
Proof.
  intros H. destruct (icmp6h_check_len_inv bs H) as (t & Ht & _ & L8 & Lh).
  pose proof (icmp6h_header_len_of_range t).
  unfold icmp6h_payload, icmp6h_header_len. rewrite Ht. cbn [obind].
  unfold icmp6h_msg_code, icmp6h_checksum, wb_get_u16. zfold.
  repeat split; try discriminate.
  - apply wb_get_u8_nopanic; lia.
  - apply wb_get_be_nopanic; lia.
  - apply wb_from_nopanic; lia.
Qed.

(* link to C08 (checksum arithmetic): the value stored by fill_checksum verifies.  The ICMPv6
   checksum occupies octets 2..3 and is computed over the packet with those octets zero. *)
Definition icmp6h_cksum_link (sum_ok : list Z -> bool) (sum_fill : list Z -> Z) : Prop :=
  forall a b rest, sum_ok ([a; b] ++ be_enc2 (sum_fill ([a; b; 0; 0] ++ rest)) ++ rest) = true.

(* the checksum step on a packet whose first four octets are explicit *)
Lemma icmp6h_finish_emit_spec sum_fill tx a b k2 k3 rest :
  icmp6h_finish_emit sum_fill tx ([a; b; k2; k3] ++ rest) =
  Ok ([a; b] ++ be_enc2 (if tx then sum_fill ([a; b; 0; 0] ++ rest) else 0) ++ rest).
Proof.
  unfold icmp6h_finish_emit, icmp6h_fill_checksum, icmp6h_set_checksum, wb_put_u16. zfold.
  destruct tx.
  - hstep. hstep. reflexivity.
  - hstep. reflexivity.
Qed.

(* Icmpv6Repr::parse reaches the sub-representation parser *)
Lemma icmp6h_parse_sub_ok {A} sum_ok (mine : Z -> bool) (sub : list Z -> outcome A) rx bs t a :
  icmp6h_check_len bs = Ok tt -> (rx = true -> sum_ok bs = true) ->
  icmp6h_msg_type bs = Ok t -> mine t = true -> icmp6h_msg_code bs = Ok 0 ->
  sub bs = Ok a -> icmp6h_parse_sub sum_ok mine sub rx bs = Ok a.
Proof.
  intros Hc Hs Ht Hm Hcode Hsub. unfold icmp6h_parse_sub, icmp6h_verify_checksum.
  rewrite Hc, Ht, Hcode. cbn [obind].
  destruct rx; cbn [obind]; [rewrite (Hs eq_refl); cbn [wb_guard obind]|]; rewrite Hm; exact Hsub.
Qed.

(* type / code of a packet given by its first octets *)
Lemma icmp6h_type_code_cons a b rest :
  icmp6h_msg_type (a :: b :: rest) = Ok a /\ icmp6h_msg_code (a :: b :: rest) = Ok b.
Proof.
  unfold icmp6h_msg_type, icmp6h_msg_code. zfold.
  rewrite !wb_get_u8_ok by (autorewrite with blen; pose proof (blen_nonneg rest); lia). split; reflexivity.
Qed.
