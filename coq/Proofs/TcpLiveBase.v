(* C02 / C13(TCP), layer 0: algebra used by the liveness proofs of the TCP socket model.
   - [sproj]: reduces projections of nested [upd_*] terms (and nothing else);
   - sequence-number facts needed by the timer logic;
   - timer algebra ([timer_set_*], [timer_should_*], [timer_poll_at]) and [poll_at_min];
   - RTT estimator: the retransmission timeout is always positive and at most RTTE_MAX_RTO;
   - Reno: the window is always positive; it is at least one MSS on every path except [set_mss].
   No socket-level statement here. *)
From SV Require Import Lib.Base Gen.Consts.
From SV Require Import Model.Seq32 Model.Assembler Model.TcpBuf Model.TcpTypes Model.Tcp.

(* ------------------------------------------------------------------------------------------ *)
(* projections through setters                                                                  *)
(* ------------------------------------------------------------------------------------------ *)
Ltac sproj :=
  cbn [s_state s_timer s_rtte s_assembler s_rx_buffer s_rx_fin_received s_tx_buffer s_timeout
       s_keep_alive s_hop_limit s_listen_endpoint s_tuple s_local_seq_no s_remote_seq_no
       s_remote_last_seq s_remote_last_ack s_remote_last_win s_remote_win_shift s_remote_win_len
       s_remote_win_scale s_remote_has_sack s_remote_mss s_remote_last_ts s_local_rx_last_seq
       s_local_rx_last_ack s_local_rx_dup_acks s_pending_fast_retransmit s_ack_delay
       s_ack_delay_timer s_challenge_ack_timer s_nagle s_congestion_controller s_tsval_generator
       s_last_remote_tsval s_syn_unacked_in_fin_wait
       upd_state upd_timer upd_rtte upd_assembler upd_rx_buffer upd_rx_fin_received upd_tx_buffer
       upd_timeout upd_keep_alive upd_hop_limit upd_listen_endpoint upd_tuple upd_local_seq_no
       upd_remote_seq_no upd_remote_last_seq upd_remote_last_ack upd_remote_last_win
       upd_remote_win_shift upd_remote_win_len upd_remote_win_scale upd_remote_has_sack
       upd_remote_mss upd_remote_last_ts upd_local_rx_last_seq upd_local_rx_last_ack
       upd_local_rx_dup_acks upd_pending_fast_retransmit upd_ack_delay upd_ack_delay_timer
       upd_challenge_ack_timer upd_nagle upd_congestion_controller upd_tsval_generator
       upd_last_remote_tsval upd_syn_unacked_in_fin_wait tcp_set_state].

Tactic Notation "sproj" "in" hyp(H) :=
  cbn [s_state s_timer s_rtte s_assembler s_rx_buffer s_rx_fin_received s_tx_buffer s_timeout
       s_keep_alive s_hop_limit s_listen_endpoint s_tuple s_local_seq_no s_remote_seq_no
       s_remote_last_seq s_remote_last_ack s_remote_last_win s_remote_win_shift s_remote_win_len
       s_remote_win_scale s_remote_has_sack s_remote_mss s_remote_last_ts s_local_rx_last_seq
       s_local_rx_last_ack s_local_rx_dup_acks s_pending_fast_retransmit s_ack_delay
       s_ack_delay_timer s_challenge_ack_timer s_nagle s_congestion_controller s_tsval_generator
       s_last_remote_tsval s_syn_unacked_in_fin_wait
       upd_state upd_timer upd_rtte upd_assembler upd_rx_buffer upd_rx_fin_received upd_tx_buffer
       upd_timeout upd_keep_alive upd_hop_limit upd_listen_endpoint upd_tuple upd_local_seq_no
       upd_remote_seq_no upd_remote_last_seq upd_remote_last_ack upd_remote_last_win
       upd_remote_win_shift upd_remote_win_len upd_remote_win_scale upd_remote_has_sack
       upd_remote_mss upd_remote_last_ts upd_local_rx_last_seq upd_local_rx_last_ack
       upd_local_rx_dup_acks upd_pending_fast_retransmit upd_ack_delay upd_ack_delay_timer
       upd_challenge_ack_timer upd_nagle upd_congestion_controller upd_tsval_generator
       upd_last_remote_tsval upd_syn_unacked_in_fin_wait tcp_set_state] in H.

(* the outcome monad *)
Lemma obind_ok : forall A B (x : outcome A) (f : A -> outcome B) b,
  obind x f = Ok b -> exists a, x = Ok a /\ f a = Ok b.
Proof. intros A B [a|e|] f b H; cbn in H; try discriminate. exists a. auto. Qed.

(* split [do x <- m; k = Ok b] in hypothesis H into [m = Ok x] and [k = Ok b] *)
Ltac obind_inv H :=
  let a := fresh "a" in let E := fresh "E" in
  apply obind_ok in H; destruct H as (a & E & H).

(* ------------------------------------------------------------------------------------------ *)
(* sequence numbers                                                                             *)
(* ------------------------------------------------------------------------------------------ *)
Definition u32 (x : Z) : Prop := 0 <= x < 2 ^ 32.

Ltac sequ :=
  unfold u32, seq_lt, seq_le, seq_gt, seq_ge, seq_eqb, seq_max, seq_min, seq_sub, seq_sdiff,
         seq_add, seq_subn, seq_norm, seq_modulus, seq_half in *;
  change (2 ^ 32) with 4294967296 in *; change (2 ^ 31) with 2147483648 in *.

Lemma seq_add_u32 : forall a n, u32 (seq_add a n).
Proof. intros. sequ. lia. Qed.

Lemma seq_add_zero : forall a, u32 a -> seq_add a 0 = a.
Proof. intros. sequ. lia. Qed.

Lemma seq_max_u32 : forall a b, u32 a -> u32 b -> u32 (seq_max a b).
Proof. intros. unfold seq_max. destruct (seq_gt a b); assumption. Qed.

Lemma seq_max_self : forall a, seq_max a a = a.
Proof. intros. unfold seq_max. destruct (seq_gt a a); reflexivity. Qed.

(* [a <= b] and not [a < b] in the wrapped order means equality *)
Lemma seq_le_not_lt_eq : forall a b, u32 a -> u32 b ->
  seq_le a b = true -> seq_lt a b = false -> a = b.
Proof.
  intros a b Ha Hb. sequ.
  destruct (Z.ltb_spec ((a - b) mod 4294967296) 2147483648); lia.
Qed.

(* not [b < a] means [a <= b] or the antipode; either way [max a b] after the update is b *)
Lemma seq_lt_false_ge : forall a b, seq_lt a b = false -> seq_ge a b = true.
Proof. intros a b. unfold seq_lt, seq_ge. lia. Qed.

(* an acknowledgement not below SND.UNA: SND.UNA is strictly below it or equal *)
Lemma seq_not_lt_cases : forall ack una, u32 ack -> u32 una ->
  seq_lt ack una = false -> ack = una \/ seq_lt una ack = true.
Proof.
  intros a b Ha Hb. sequ.
  destruct (Z.ltb_spec ((a - b) mod 4294967296) 2147483648);
  destruct (Z.ltb_spec ((b - a) mod 4294967296) 2147483648); lia.
Qed.

Lemma seq_lt_succ : forall a, seq_lt a (seq_add a 1) = true.
Proof.
  intros. sequ.
  destruct (Z.ltb_spec ((a - (a + 1) mod 4294967296) mod 4294967296) 2147483648); lia.
Qed.

Lemma seq_lt_irrefl : forall a, seq_lt a a = false.
Proof. intros. sequ. replace (a - a) with 0 by lia. reflexivity. Qed.

(* SND.UNA + k for a small positive k is ahead of SND.UNA by exactly k *)
Lemma seq_ge_add_small : forall a k, 0 <= k < 2 ^ 31 -> seq_ge (seq_add a k) a = true.
Proof.
  intros. sequ.
  destruct (Z.ltb_spec (((a + k) mod 4294967296 - a) mod 4294967296) 2147483648); lia.
Qed.

Lemma seq_sub_add_small : forall a k, 0 <= k < 2 ^ 31 -> seq_sub (seq_add a k) a = Ok k.
Proof.
  intros. sequ.
  destruct (Z.ltb_spec (((a + k) mod 4294967296 - a) mod 4294967296) 2147483648).
  - destruct (Z.ltb_spec (((a + k) mod 4294967296 - a) mod 4294967296) 0); [lia|].
    f_equal. lia.
  - lia.
Qed.

Lemma seq_sub_self : forall a, seq_sub a a = Ok 0.
Proof. intros. sequ. replace (a - a) with 0 by lia. reflexivity. Qed.

(* ------------------------------------------------------------------------------------------ *)
(* timers                                                                                       *)
(* ------------------------------------------------------------------------------------------ *)
(* a timer that guarantees a later retransmission or probe *)
Definition timer_armed (t : timer) : bool :=
  match t with TRetransmit _ | TFastRetransmit | TZeroWindowProbe _ _ => true | _ => false end.
Definition timer_is_close (t : timer) : bool := match t with TClose _ => true | _ => false end.

Lemma set_for_idle_shape : forall now ka, timer_is_idle (timer_set_for_idle now ka) = true.
Proof. reflexivity. Qed.

Lemma set_for_retransmit_armed : forall t now d,
  timer_is_close t = false -> timer_set_for_retransmit t now d = TRetransmit (now + d).
Proof. intros [k| | | |] now d H; try reflexivity. discriminate. Qed.

Lemma set_for_retransmit_close : forall t now d,
  timer_is_close t = true -> timer_set_for_retransmit t now d = t.
Proof. intros [k| | | |] now d H; try discriminate. reflexivity. Qed.

Lemma rewind_keep_alive_armed : forall t now ka,
  timer_armed (timer_rewind_keep_alive t now ka) = timer_armed t.
Proof. intros [k| | | |] now ka; reflexivity. Qed.

Lemma rewind_keep_alive_close : forall t now ka,
  timer_is_close (timer_rewind_keep_alive t now ka) = timer_is_close t.
Proof. intros [k| | | |] now ka; reflexivity. Qed.

Lemma rewind_keep_alive_not_idle : forall t now ka,
  timer_is_idle t = false -> timer_rewind_keep_alive t now ka = t.
Proof. intros [k| | | |] now ka H; try reflexivity. discriminate. Qed.

Lemma rewind_zwp_armed : forall t now,
  timer_armed (timer_rewind_zero_window_probe t now) = timer_armed t.
Proof. intros [k| | | |] now; reflexivity. Qed.

Lemma rewind_zwp_close : forall t now,
  timer_is_close (timer_rewind_zero_window_probe t now) = timer_is_close t.
Proof. intros [k| | | |] now; reflexivity. Qed.

Lemma set_keep_alive_armed : forall t, timer_armed (timer_set_keep_alive t) = timer_armed t.
Proof. intros [[k|]| | | |]; reflexivity. Qed.

Lemma set_keep_alive_close : forall t, timer_is_close (timer_set_keep_alive t) = timer_is_close t.
Proof. intros [[k|]| | | |]; reflexivity. Qed.

Lemma should_zwp_is_zwp : forall t now,
  timer_should_zero_window_probe t now = true -> timer_is_zero_window_probe t = true.
Proof. intros [k| | | |] now H; try discriminate. reflexivity. Qed.

Lemma is_zwp_armed : forall t, timer_is_zero_window_probe t = true -> timer_armed t = true.
Proof. intros [k| | | |] H; try discriminate. reflexivity. Qed.

Lemma should_keep_alive_idle : forall t now,
  timer_should_keep_alive t now = true -> timer_is_idle t = true.
Proof. intros [k| | | |] now H; try discriminate. reflexivity. Qed.

Lemma armed_poll_at : forall t, timer_armed t = true -> timer_poll_at t <> PIngress.
Proof. intros [k| | | |] H; try discriminate; cbn; discriminate. Qed.

Lemma armed_not_idle : forall t, timer_armed t = true -> timer_is_idle t = false.
Proof. intros [k| | | |] H; try discriminate; reflexivity. Qed.

Lemma armed_not_close : forall t, timer_armed t = true -> timer_is_close t = false.
Proof. intros [k| | | |] H; try discriminate; reflexivity. Qed.

(* exhaustive: idle, armed or close *)
Lemma timer_cases : forall t,
  timer_is_idle t = true \/ timer_armed t = true \/ timer_is_close t = true.
Proof. intros [k| | | |]; cbn; auto. Qed.

(* "strictly after now, or never": the shape C13 asks of a deadline after an idle poll *)
Definition pa_future (now : Z) (p : poll_at) : Prop :=
  match p with PIngress => True | PTime t => now < t | PNow => False end.

Lemma poll_at_min_ingress : forall a b, poll_at_min a b = PIngress -> a = PIngress /\ b = PIngress.
Proof.
  intros [|x|] [|y|]; cbn; try discriminate; auto.
  destruct (x <=? y); discriminate.
Qed.

Lemma poll_at_min_not_ingress_l : forall a b, a <> PIngress -> poll_at_min a b <> PIngress.
Proof. intros a b H E. apply poll_at_min_ingress in E. tauto. Qed.

Lemma poll_at_min_future : forall now a b,
  pa_future now (poll_at_min a b) <-> pa_future now a /\ pa_future now b.
Proof.
  intros now [|x|] [|y|]; cbn; try tauto.
  destruct (Z.leb_spec x y); cbn; lia.
Qed.

(* ------------------------------------------------------------------------------------------ *)
(* RTT estimator: 0 < rto <= RTTE_MAX_RTO                                                       *)
(* ------------------------------------------------------------------------------------------ *)
Definition rtte_ok (r : rtt_estimator) : Prop := 0 < rt_rto r <= tcp_RTTE_MAX_RTO.

Lemma rtte_default_ok : rtte_ok rtte_default.
Proof. unfold rtte_ok, rtte_default. cbn [rt_rto]. vm_compute. split; [reflexivity | discriminate]. Qed.

Lemma rtte_sample_ok : forall r n r', rtte_sample r n = Ok r' -> rtte_ok r'.
Proof.
  intros r n r' H. unfold rtte_sample in H.
  obind_inv H. destruct a as (srtt, rttvar).
  obind_inv H. obind_inv H.
  inversion H; subst r'. unfold rtte_ok. cbn [rt_rto].
  assert (C1 : 0 < tcp_RTTE_MIN_RTO) by reflexivity.
  assert (C2 : tcp_RTTE_MIN_RTO <= tcp_RTTE_MAX_RTO) by (vm_compute; discriminate).
  destruct (Z.ltb_spec a0 tcp_RTTE_MIN_RTO); [lia|].
  destruct (Z.gtb_spec a0 tcp_RTTE_MAX_RTO); lia.
Qed.

Lemma rtte_on_send_rto : forall r t s, rt_rto (rtte_on_send r t s) = rt_rto r.
Proof.
  intros. unfold rtte_on_send.
  destruct (match rt_max_seq_sent r with Some m => seq_gt s m | None => true end); reflexivity.
Qed.

Lemma rtte_on_ack_ok : forall r t s r', rtte_ok r -> rtte_on_ack r t s = Ok r' -> rtte_ok r'.
Proof.
  intros r t s r' Hr H. unfold rtte_on_ack in H.
  destruct (rt_timestamp r) as [(st, ss)|]; [|inversion H; subst; exact Hr].
  destruct (seq_ge s ss); [|inversion H; subst; exact Hr].
  obind_inv H. inversion H; subst r'. apply rtte_sample_ok in E.
  unfold rtte_ok in *. cbn [rt_rto]. exact E.
Qed.

Lemma rtte_on_rto_ok : forall r, rtte_ok r -> rtte_ok (rtte_on_rto r).
Proof.
  intros r Hr. unfold rtte_ok, rtte_on_rto in *.
  destruct (rt_rto_count r + 1 >=? 3); cbn [rt_rto]; lia.
Qed.

Lemma rtte_on_retransmit_rto : forall r, rt_rto (rtte_on_retransmit r) = rt_rto r.
Proof. reflexivity. Qed.

Lemma rtte_timeout_bounds : forall r, rtte_ok r ->
  0 < rtte_retransmission_timeout r <= tcp_RTTE_MAX_RTO * 1000.
Proof. intros r H. unfold rtte_retransmission_timeout, rtte_ok in *. lia. Qed.

(* ------------------------------------------------------------------------------------------ *)
(* congestion control                                                                           *)
(* ------------------------------------------------------------------------------------------ *)
(* what liveness needs: the window is never 0 *)
Definition reno_pos (r : reno) : Prop :=
  0 < rn_mss r /\ 0 < rn_cwnd r /\ 0 < rn_ssthresh r /\ 0 <= rn_rwnd r.

(* the stronger statement of the property text: never below one MSS *)
Definition reno_ge_mss (r : reno) : Prop :=
  0 < rn_mss r <= usize_max /\ rn_mss r <= rn_cwnd r /\ 0 <= rn_rwnd r.

Lemma usize_max_pos : 0 < usize_max.
Proof. reflexivity. Qed.

Ltac reno_fields := cbn [rn_mss rn_cwnd rn_ssthresh rn_rwnd rn_in_fast_recovery rn_in_rto_recovery].

Lemma reno_new_pos : reno_pos reno_new.
Proof. unfold reno_pos, reno_new. reno_fields. repeat split; try reflexivity. vm_compute; discriminate. Qed.

Lemma reno_new_ge_mss : reno_ge_mss reno_new.
Proof.
  unfold reno_ge_mss, reno_new. reno_fields.
  split; [split; [reflexivity | vm_compute; discriminate]|]. split; vm_compute; discriminate.
Qed.

Lemma reno_clamp_ge : forall r c, rn_mss r <= reno_clamp r c.
Proof. intros. unfold reno_clamp. lia. Qed.

Lemma reno_on_ack_pos : forall r len r', reno_pos r -> reno_on_ack r len = Ok r' -> reno_pos r'.
Proof.
  intros r len r' (Hm & Hc & Hs & Hw) H. unfold reno_on_ack in H.
  destruct (len =? 0); [inversion H; subst; repeat split; assumption|].
  destruct (rn_in_fast_recovery r).
  - inversion H; subst r'. unfold reno_pos. reno_fields. repeat split; lia.
  - obind_inv H. inversion H; subst r'. unfold reno_pos. reno_fields.
    pose proof (reno_clamp_ge r (sat_add_usize (rn_cwnd r) a)). repeat split; lia.
Qed.

Lemma reno_on_ack_ge_mss : forall r len r',
  reno_ge_mss r -> reno_on_ack r len = Ok r' -> reno_ge_mss r'.
Proof.
  intros r len r' (Hm & Hc & Hw) H. unfold reno_on_ack in H.
  destruct (len =? 0); [inversion H; subst; unfold reno_ge_mss; auto|].
  destruct (rn_in_fast_recovery r) eqn:Hf.
  - inversion H; subst r'. unfold reno_ge_mss. reno_fields. repeat split; lia.
  - obind_inv H. inversion H; subst r'. unfold reno_ge_mss. reno_fields.
    pose proof (reno_clamp_ge r (sat_add_usize (rn_cwnd r) a)). repeat split; lia.
Qed.

Lemma reno_on_dup_ack_pos : forall r len, reno_pos r -> reno_pos (reno_on_dup_ack r len).
Proof.
  intros r len (Hm & Hc & Hs & Hw). unfold reno_on_dup_ack. destruct (rn_in_fast_recovery r).
  - unfold reno_pos. reno_fields.
    pose proof (reno_clamp_ge r (sat_add_usize (rn_cwnd r) len)). repeat split; lia.
  - repeat split; assumption.
Qed.

Lemma reno_on_dup_ack_ge_mss : forall r len, reno_ge_mss r -> reno_ge_mss (reno_on_dup_ack r len).
Proof.
  intros r len (Hm & Hc & Hw). unfold reno_on_dup_ack. destruct (rn_in_fast_recovery r) eqn:Hf.
  - unfold reno_ge_mss. reno_fields.
    pose proof (reno_clamp_ge r (sat_add_usize (rn_cwnd r) len)). repeat split; lia.
  - unfold reno_ge_mss. repeat split; lia.
Qed.

Lemma reno_on_loss_pos : forall r f, reno_pos r -> reno_pos (reno_on_loss r f).
Proof.
  intros r f (Hm & Hc & Hs & Hw). unfold reno_on_loss. destruct (rn_in_fast_recovery r).
  - repeat split; assumption.
  - unfold reno_pos. reno_fields. unfold sat_add_usize. pose proof usize_max_pos.
    repeat split; lia.
Qed.

Lemma reno_on_loss_ge_mss : forall r f, reno_ge_mss r -> reno_ge_mss (reno_on_loss r f).
Proof.
  intros r f (Hm & Hc & Hw). unfold reno_on_loss. destruct (rn_in_fast_recovery r) eqn:Hf.
  - unfold reno_ge_mss. repeat split; lia.
  - unfold reno_ge_mss. reno_fields. unfold sat_add_usize. repeat split; lia.
Qed.

Lemma reno_on_rto_pos : forall r f, reno_pos r -> reno_pos (reno_on_rto r f).
Proof.
  intros r f (Hm & Hc & Hs & Hw). unfold reno_on_rto, reno_pos. reno_fields.
  destruct (rn_in_rto_recovery r); repeat split; lia.
Qed.

Lemma reno_on_rto_ge_mss : forall r f, reno_ge_mss r -> reno_ge_mss (reno_on_rto r f).
Proof.
  intros r f (Hm & Hc & Hw). unfold reno_on_rto, reno_ge_mss. reno_fields. repeat split; lia.
Qed.

Lemma reno_set_remote_window_pos : forall r w, reno_pos r -> reno_pos (reno_set_remote_window r w).
Proof.
  intros r w (Hm & Hc & Hs & Hw). unfold reno_set_remote_window.
  destruct (Z.ltb_spec (rn_rwnd r) w); unfold reno_pos; reno_fields; repeat split; lia.
Qed.

Lemma reno_set_remote_window_ge_mss : forall r w,
  reno_ge_mss r -> reno_ge_mss (reno_set_remote_window r w).
Proof.
  intros r w (Hm & Hc & Hw). unfold reno_set_remote_window.
  destruct (Z.ltb_spec (rn_rwnd r) w); unfold reno_ge_mss; reno_fields; repeat split; lia.
Qed.

Lemma reno_set_mss_pos : forall r m, 0 < m -> reno_pos r -> reno_pos (reno_set_mss r m).
Proof.
  intros r m Hm (_ & Hc & Hs & Hw). unfold reno_set_mss, reno_pos. reno_fields.
  repeat split; try assumption; lia.
Qed.

(* [set_mss] as repaired by /repo 8f8eb43 (cwnd := max cwnd mss); with d04325c (leaving fast
   recovery deflates to max ssthresh mss) no path can take the window below one MSS.  Both repairs
   were prompted by counter-models of this lemma set: before 8f8eb43, on_rto; set_mss 1460 gave
   cwnd 1024 < mss (corpus/C02/tcp-reno-cwnd-below-mss.case); before d04325c, on_loss; set_mss
   4000; on_ack 1 gave cwnd 2048 < mss 4000. *)
Lemma reno_set_mss_ge_mss : forall r m,
  0 < m <= usize_max -> reno_ge_mss r -> reno_ge_mss (reno_set_mss r m).
Proof.
  intros r m Hm (_ & Hc & Hw). unfold reno_set_mss, reno_ge_mss. reno_fields. repeat split; lia.
Qed.

(* controller level *)
Definition cc_ok (c : controller) : Prop :=
  match c with CcNone => True | CcReno r => reno_pos r end.

Lemma cc_window_pos : forall c, cc_ok c -> 0 < cc_window c.
Proof. intros [|r] H; cbn [cc_window]; [reflexivity | apply H]. Qed.

Lemma cc_set_remote_window_ok : forall c w, cc_ok c -> cc_ok (cc_set_remote_window c w).
Proof. intros [|r] w H; cbn [cc_set_remote_window cc_ok]; auto using reno_set_remote_window_pos. Qed.

Lemma cc_set_mss_ok : forall c m, 0 < m -> cc_ok c -> cc_ok (cc_set_mss c m).
Proof. intros [|r] m Hm H; cbn [cc_set_mss cc_ok]; auto using reno_set_mss_pos. Qed.

Lemma cc_on_ack_ok : forall c len c', cc_ok c -> cc_on_ack c len = Ok c' -> cc_ok c'.
Proof.
  intros [|r] len c' H E; cbn [cc_on_ack] in E.
  - inversion E; subst; exact I.
  - obind_inv E. inversion E; subst c'. cbn [cc_ok] in *. eauto using reno_on_ack_pos.
Qed.

Lemma cc_on_dup_ack_ok : forall c len, cc_ok c -> cc_ok (cc_on_dup_ack c len).
Proof. intros [|r] len H; cbn [cc_on_dup_ack cc_ok]; auto using reno_on_dup_ack_pos. Qed.

Lemma cc_on_loss_ok : forall c f, cc_ok c -> cc_ok (cc_on_loss c f).
Proof. intros [|r] f H; cbn [cc_on_loss cc_ok]; auto using reno_on_loss_pos. Qed.

Lemma cc_on_rto_ok : forall c f, cc_ok c -> cc_ok (cc_on_rto c f).
Proof. intros [|r] f H; cbn [cc_on_rto cc_ok]; auto using reno_on_rto_pos. Qed.
