(* C05, layer 3: every phase of [tcp_process] characterised by its effect on the fields the sender
   invariant reads ([txv]), and [tcp_process] preserves the invariant for every segment. *)
From SV Require Import Lib.Base Gen.Consts.
From SV Require Import Model.Seq32 Model.Assembler Model.TcpBuf Model.TcpTypes Model.Tcp.
From SV Require Import Proofs.TcpSendBase Proofs.TcpSendInv.

(* ------------------------------------------------------------------------------------------ *)
(* how one step may change the ghost                                                            *)
(* ------------------------------------------------------------------------------------------ *)
Definition same_epoch (g g' : ghost) : Prop :=
  g_iss g' = g_iss g /\ (exists more, g_stream g' = g_stream g ++ more) /\
  g_acked g <= g_acked g' /\ g_hw g <= g_hw g' /\
  (g_fin g = true -> g_fin g' = true /\ g_stream g' = g_stream g).
Definition new_epoch (g' : ghost) : Prop := g_stream g' = [] /\ g_acked g' = 0.
Definition ghost_rel (g g' : ghost) : Prop := same_epoch g g' \/ new_epoch g'.

Lemma same_epoch_refl : forall g, same_epoch g g.
Proof.
  intros. unfold same_epoch. split; [reflexivity|]. split; [exists []; symmetry; apply app_nil_r|].
  split; [lia|]. split; [lia|]. auto.
Qed.

(* ------------------------------------------------------------------------------------------ *)
(* replies do not touch the sender fields                                                       *)
(* ------------------------------------------------------------------------------------------ *)
Lemma ack_reply_txv : forall cx s ip r, txv (fst (tcp_ack_reply cx s ip r)) = txv s.
Proof. intros. unfold tcp_ack_reply, tcp_reply, with_payload_len. fld. reflexivity. Qed.

Lemma challenge_txv : forall cx s ip r, txv (fst (tcp_challenge_ack_reply cx s ip r)) = txv s.
Proof.
  intros. unfold tcp_challenge_ack_reply. destruct (cx_now cx <? s_challenge_ack_timer s); [reflexivity|].
  destruct (tcp_ack_reply cx (upd_challenge_ack_timer s (cx_now cx + 1000000)) ip r) as [s' p] eqn:E.
  fld. change s' with (fst (s', p)). rewrite <- E. rewrite ack_reply_txv. reflexivity.
Qed.

(* ------------------------------------------------------------------------------------------ *)
(* ack_check (l.1604-1703)                                                                      *)
(* ------------------------------------------------------------------------------------------ *)
Definition ack_facts (s : socket) (r : tcp_repr) : Prop :=
  r_control r = CRst \/
  match s_state s with
  | Listen => r_ack_number r = None
  | SynSent => r_control r = CSyn /\
               (r_ack_number r = None \/ r_ack_number r = Some (seq_add (s_local_seq_no s) 1))
  | SynReceived => r_ack_number r = Some (seq_add (s_local_seq_no s) 1)
  | _ => exists a, r_ack_number r = Some a /\
           seq_lt a (seq_add (s_local_seq_no s) (b2z (tcp_sent_syn s))) = false /\
           seq_gt a (seq_add (s_local_seq_no s)
                      (rb_len (s_tx_buffer s) + (b2z (tcp_sent_syn s) + b2z (tcp_sent_fin s)))) = false
  end.

Lemma ack_check_spec : forall cx s ip r p, tcp_process_ack_check cx s ip r = Ok p ->
  match p with
  | Ret _ s' _ => txv s' = txv s
  | Cont _ _ => ack_facts s r
  end.
Proof.
  intros cx s ip r p H. unfold tcp_process_ack_check in H. unfold ack_facts.
  destruct (s_state s), (r_control r), (r_ack_number r) as [a|];
  repeat match type of H with
  | context [if ?b then _ else _] => destruct b eqn:?
  | context [tcp_rst_reply ?a ?b] => destruct (tcp_rst_reply a b); cbn [obind] in H
  | context [tcp_challenge_ack_reply ?a ?b ?c ?d] =>
      let E := fresh "E" in destruct (tcp_challenge_ack_reply a b c d) as [s'' p''] eqn:E;
      apply (f_equal fst) in E; cbn [fst] in E; rewrite <- E in H
  end; try discriminate; injection H as <-; auto;
  try (rewrite challenge_txv; reflexivity);
  try (right; try split; auto; try (right; f_equal); try (f_equal);
       match goal with H : negb (_ =? _) = false |- _ => apply negb_false_iff, Z.eqb_eq in H; subst; reflexivity
                    | H : (_ =? _) = true |- _ => apply Z.eqb_eq in H; subst; reflexivity end);
  try (right; eexists; split; [reflexivity|]; split; assumption).
Qed.

(* ------------------------------------------------------------------------------------------ *)
(* window check (l.1705-1832)                                                                   *)
(* ------------------------------------------------------------------------------------------ *)
Lemma window_spec : forall cx s ip r p, tcp_process_window cx s ip r = Ok p ->
  match p with
  | Ret _ s' _ => exists tm, txv s' = txv (upd_timer s tm) /\ (tm = s_timer s \/ exists e, tm = TClose e)
  | Cont _ (s2, _, _) => txv s2 = txv s
  end.
Proof.
  intros cx s ip r p H. unfold tcp_process_window in H.
  destruct (tcp_segment_in_window (tcp_window_start s) (tcp_window_end s) (r_seq_number r)
              (seq_add (r_seq_number r) (l_len (r_payload r)))) as [inw tg].
  destruct (s_state s) eqn:Est; try (injection H as <-; reflexivity);
  (destruct inw;
   [ destruct (negb (seq_le _ _)); [discriminate|];
     repeat match type of H with context [obind ?x _] => destruct x; cbn [obind] in H; try discriminate end;
     injection H as <-; reflexivity
   | destruct (control_eqb (r_control r) CRst);
     [ injection H as <-; exists (s_timer s); split; [reflexivity|left; reflexivity] |];
     cbn [tcp_state_eqb] in H;
     match type of H with context [if ?b then _ else _] => destruct b end;
     match type of H with
     | context [tcp_ack_reply ?a ?b ?c ?d] =>
        let E := fresh "E" in destruct (tcp_ack_reply a b c d) as [s'' p''] eqn:E;
        apply (f_equal fst) in E; cbn [fst] in E; injection H as <-; rewrite <- E, ack_reply_txv
     | context [tcp_challenge_ack_reply ?a ?b ?c ?d] =>
        let E := fresh "E" in destruct (tcp_challenge_ack_reply a b c d) as [s'' p''] eqn:E;
        apply (f_equal fst) in E; cbn [fst] in E; injection H as <-; rewrite <- E, challenge_txv
     end;
     first [ exists (s_timer s); split; [reflexivity|left; reflexivity]
           | eexists; split; [reflexivity|right; eexists; reflexivity] ] ]).
Qed.

(* ------------------------------------------------------------------------------------------ *)
(* the transition table (l.1877-2056)                                                           *)
(* ------------------------------------------------------------------------------------------ *)
Definition cls (st : tcp_state) : Z :=
  match st with
  | Established | CloseWait => 1
  | FinWait1 | Closing | LastAck => 2
  | FinWait2 | TimeWait => 3
  | Closed => 4 | Listen => 5 | SynSent | SynReceived => 6
  end.

(* which state changes the table can make (besides the two SYN rows) *)
Definition st_rel (st : tcp_state) (c : control) (aof : bool) (st' : tcp_state) : Prop :=
  match c with
  | CRst => st' = Closed \/ (st = SynReceived /\ st' = Listen)
  | _ => (aof = true /\ cls st = 2 /\ (cls st' = 3 \/ st' = Closed)) \/
         (cls st' = cls st /\ (st' = FinWait1 -> st = FinWait1)) \/
         (st = SynReceived /\ cls st' = 1)
  end.

Definition phase_sock {A} (p : phase A) (f : A -> socket) : socket :=
  match p with Cont _ a => f a | Ret _ s _ => s end.

Lemma transition_spec : forall cx s ip r c al aof p,
  tcp_process_transition cx s ip r c al aof = Ok p -> c <> CPsh ->
  let s' := phase_sock p (fun x => x) in
  txv s' = txv s \/
  (exists st' tm, txv s' = txv (upd_timer (upd_state s st') tm) /\
     (tm = s_timer s \/ exists e, tm = TClose e) /\ st_rel (s_state s) c aof st') \/
  (s_state s = Listen /\ c = CSyn /\
   s_state s' = SynReceived /\ s_local_seq_no s' = cx_isn cx /\ s_remote_last_seq s' = cx_isn cx /\
   s_tx_buffer s' = s_tx_buffer s /\ s_remote_win_len s' = s_remote_win_len s /\
   s_remote_win_scale s' = r_window_scale r /\ timer_is_idle (s_timer s') = true /\
   s_remote_mss s' = s_remote_mss (tcp_apply_mss s r) /\
   s_remote_win_shift s' = (if is_some (r_window_scale r) then s_remote_win_shift s else 0) /\
   s_syn_unacked_in_fin_wait s' = s_syn_unacked_in_fin_wait s) \/
  (s_state s = SynSent /\ c = CSyn /\
   s_state s' = (if is_some (r_ack_number r) then Established else SynReceived) /\
   s_local_seq_no s' = s_local_seq_no s /\
   s_remote_last_seq s' = (if is_some (r_ack_number r) then seq_add (s_local_seq_no s) 1
                           else s_remote_last_seq s) /\
   s_tx_buffer s' = s_tx_buffer s /\ s_remote_win_len s' = s_remote_win_len s /\
   s_remote_win_scale s' = r_window_scale r /\ s_timer s' = s_timer s /\
   s_remote_mss s' = s_remote_mss (tcp_apply_mss s r) /\
   s_remote_win_shift s' = (if is_some (r_window_scale r) then s_remote_win_shift s else 0) /\
   s_syn_unacked_in_fin_wait s' = s_syn_unacked_in_fin_wait s).
Proof.
  intros cx s ip r c al aof p H Hc. unfold tcp_process_transition in H. cbv zeta.
  destruct (s_state s) eqn:Est, c; try congruence;
  repeat match type of H with
  | context [if ?b then _ else _] => destruct b eqn:?
  | context [tcp_challenge_ack_reply ?a ?b ?c ?d] =>
      let E := fresh "E" in destruct (tcp_challenge_ack_reply a b c d) as [s'' p''] eqn:E;
      apply (f_equal fst) in E; cbn [fst] in E; rewrite <- E in H
  end; injection H as <-; cbn [phase_sock];
  try (left; reflexivity);
  try (left; apply challenge_txv);
  try (right; left; unfold tcp_enter_time_wait, tcp_fin_received, tcp_set_state;
       eexists; eexists; split; [reflexivity|]; split;
       [first [left; reflexivity | right; eexists; reflexivity]|]; unfold st_rel; cbn [cls];
       solve [auto 7 | intuition congruence]).
  all: repeat match goal with H : is_some (s_remote_win_scale _) = _ |- _ => fld_in H; fld; rewrite H
                            | H : is_some (r_ack_number _) = _ |- _ => fld_in H; fld; rewrite ?H end;
       assert (Hm : s_tx_buffer (tcp_apply_mss s r) = s_tx_buffer s /\
                    s_remote_win_len (tcp_apply_mss s r) = s_remote_win_len s /\
                    s_remote_win_shift (tcp_apply_mss s r) = s_remote_win_shift s /\
                    s_local_seq_no (tcp_apply_mss s r) = s_local_seq_no s /\
                    s_remote_last_seq (tcp_apply_mss s r) = s_remote_last_seq s /\
                    s_syn_unacked_in_fin_wait (tcp_apply_mss s r) = s_syn_unacked_in_fin_wait s /\
                    s_timer (tcp_apply_mss s r) = s_timer s)
         by (unfold tcp_apply_mss; destruct (r_max_seg_size r) as [m|]; [destruct (m =? 0)|]; fld;
             repeat split; reflexivity);
       destruct Hm as (M1 & M2 & M3 & M4 & M5 & M6 & M7); fld; rewrite ?M1, ?M2, ?M3, ?M4, ?M5, ?M6, ?M7;
       right; right; first [left; repeat split; reflexivity | right; repeat split; reflexivity].
Qed.

(* ------------------------------------------------------------------------------------------ *)
(* update_remote, dup_ack, timers, zwp, payload                                                 *)
(* ------------------------------------------------------------------------------------------ *)
(* the window the socket learns from a segment: the window field, scaled as negotiated (SYN and
   SYN|ACK segments carry an unscaled window) *)
Definition learned_window (s : socket) (r : tcp_repr) : Z :=
  shl (r_window_len r)
      (match r_control r with
       | CSyn => 0
       | _ => match s_remote_win_scale s with Some x => x | None => 0 end
       end).

Lemma update_remote_spec : forall cx s r al s' wu,
  tcp_process_update_remote cx s r al = Ok (s', wu) ->
  exists tx', txv s' = txv (upd_tx_buffer (upd_remote_win_len s (learned_window s r)) tx') /\
    (al > 0 -> rb_dequeue_allocated (s_tx_buffer s) al = Ok tx') /\
    (al <= 0 -> tx' = s_tx_buffer s).
Proof.
  intros cx s r al s' wu H. unfold tcp_process_update_remote in H. fld_in H.
  destruct (Z.gtb_spec al 0).
  - destruct (negb (rb_len (s_tx_buffer s) >=? al)); [discriminate|].
    destruct (rb_dequeue_allocated (s_tx_buffer s) al) as [tx'| |] eqn:E; cbn [obind] in H; try discriminate.
    injection H as <- <-. exists tx'. split; [reflexivity|]. split; [auto|lia].
  - injection H as <- <-. exists (s_tx_buffer s). split; [reflexivity|]. split; [lia|auto].
Qed.

Lemma dup_ack_spec : forall cx s r al wu s' tg,
  tcp_process_dup_ack cx s r al wu = Ok (s', tg) ->
  match r_ack_number r with
  | None => s' = s
  | Some a => exists tm,
      txv s' = txv (upd_syn_unacked_in_fin_wait
                      (upd_remote_last_seq (upd_local_seq_no (upd_timer s tm) a)
                         (if seq_lt (s_remote_last_seq s) a then a else s_remote_last_seq s)) false) /\
      (tm = s_timer s \/ (tm = TFastRetransmit /\ rb_is_empty (s_tx_buffer s) = false))
  end.
Proof.
  intros cx s r al wu s' tg H. unfold tcp_process_dup_ack in H.
  destruct (r_ack_number r) as [a|]; [|injection H as <- <-; reflexivity].
  match type of H with context [if ?b then _ else _] => destruct b end.
  - match type of H with context [if ?b then _ else _] => destruct b eqn:Eb end;
    match type of H with context [tcp_flight_size ?x] => destruct (tcp_flight_size x) end;
    cbn [obind] in H; try discriminate; fld_in H; injection H as <- <-;
    [exists TFastRetransmit|exists (s_timer s)];
    (split; [destruct (seq_lt (s_remote_last_seq s) a); fld; reflexivity|]).
    + right. split; [reflexivity|]. apply andb_prop in Eb. destruct Eb as [_ Eb].
      apply negb_true_iff in Eb. exact Eb.
    + left. reflexivity.
  - destruct (s_local_rx_dup_acks s >? 0); fld_in H;
    (destruct (rtte_on_ack (s_rtte s) (cx_now cx) a); cbn [obind] in H; try discriminate;
     match type of H with context [tcp_flight_size ?x] => destruct (tcp_flight_size x) end;
     cbn [obind] in H; try discriminate;
     match type of H with context [cc_on_ack ?x ?y] => destruct (cc_on_ack x y) end;
     cbn [obind] in H; try discriminate;
     fld_in H; injection H as <- <-; exists (s_timer s); split; [|left; reflexivity];
     destruct (seq_lt (s_remote_last_seq s) a); fld; reflexivity).
Qed.

Lemma timers_zwp_spec : forall cx s al aa s6 t6 s7 t7,
  tcp_process_timers cx s al aa = (s6, t6) -> tcp_process_zwp cx s6 al = (s7, t7) ->
  txv s7 = txv (upd_timer s (s_timer s7)) /\
  (timer_is_zero_window_probe (s_timer s7) = true -> s_remote_win_len s = 0) /\
  (timer_is_idle (s_timer s7) = true ->
     (timer_is_retransmit (s_timer s) = true /\ aa = true) \/ timer_is_idle (s_timer s) = true \/
     (s_remote_last_seq s =? s_local_seq_no s) = true).
Proof.
  intros cx s al aa s6 t6 s7 t7 H6 H7.
  assert (A : txv s6 = txv (upd_timer s (s_timer s6)) /\
              (timer_is_zero_window_probe (s_timer s6) = true ->
               timer_is_zero_window_probe (s_timer s) = true) /\
              (timer_is_idle (s_timer s6) = true ->
               (timer_is_retransmit (s_timer s) = true /\ aa = true) \/ timer_is_idle (s_timer s) = true)).
  { unfold tcp_process_timers in H6.
    destruct (s_timer s) eqn:Et; try destruct aa; try destruct (al >? 0);
    injection H6 as <- <-; fld; rewrite ?Et; cbn; auto; unfold txv; rewrite Et; auto. }
  destruct A as (A1 & A2 & A3).
  destruct (txv_proj _ _ A1) as (B1 & B2 & B3 & B4 & B5 & B6 & _ & B8 & B9 & B10).
  fld_in B1. fld_in B2. fld_in B3. fld_in B4. fld_in B5. fld_in B6. fld_in B8. fld_in B9. fld_in B10.
  unfold tcp_process_zwp in H7.
  destruct ((s_remote_win_len s6 =? 0) && negb (rb_is_empty (s_tx_buffer s6)) &&
            (timer_is_idle (s_timer s6) || (al >? 0))) eqn:Ez; rewrite B2, B5 in Ez;
  fld_in H7; rewrite ?B2, ?B3, ?B4, ?B5 in H7.
  - apply andb_prop in Ez. destruct Ez as [Ez _]. apply andb_prop in Ez.
    destruct Ez as [Ez Ene]. rewrite Ez in H7. apply negb_true_iff in Ene. rewrite Ene in H7.
    cbn [negb andb orb timer_set_for_zero_window_probe timer_is_zero_window_probe] in H7.
    injection H7 as <- <-.
    unfold txv. fld. rewrite B1, B2, B3, B4, B5, B6, B8, B9, B10. split; [reflexivity|]. split.
    + intros _. apply Z.eqb_eq. exact Ez.
    + unfold timer_set_for_zero_window_probe. cbn. discriminate.
  - destruct (negb (s_remote_win_len s =? 0) || rb_is_empty (s_tx_buffer s)) eqn:Ew; cbn [andb] in H7.
    + destruct (timer_is_zero_window_probe (s_timer s6)) eqn:Ezw.
      * destruct (negb (s_remote_last_seq s =? s_local_seq_no s)) eqn:Er;
        injection H7 as <- <-; unfold txv; fld; rewrite B1, B2, B3, B4, B5, B6, B8, B9, B10;
        (split; [reflexivity|]).
        -- unfold timer_set_for_retransmit, timer_set_for_idle. cbn. split; discriminate.
        -- unfold timer_set_for_idle. cbn. split; [discriminate|]. intros _. right. right.
           apply negb_false_iff in Er. exact Er.
      * injection H7 as <- <-. unfold txv. rewrite B1, B2, B3, B4, B5, B6, B8, B9, B10. fld.
        split; [reflexivity|]. split; [congruence|]. intros Hi. specialize (A3 Hi). tauto.
    + injection H7 as <- <-. unfold txv. rewrite B1, B2, B3, B4, B5, B6, B8, B9, B10. fld.
      split; [reflexivity|]. split.
      * intros _. apply orb_false_iff in Ew. destruct Ew as [Ew _].
        apply negb_false_iff, Z.eqb_eq in Ew. exact Ew.
      * intros Hi. specialize (A3 Hi). tauto.
Qed.

Lemma payload_spec : forall cx s ip r pl po s' reply tg,
  tcp_process_payload cx s ip r pl po = Ok (s', reply, tg) -> txv s' = txv s.
Proof.
  intros cx s ip r pl po s' reply tg H. unfold tcp_process_payload in H.
  destruct (l_len pl =? 0); [injection H as <- <- <-; reflexivity|].
  destruct (asm_atrf _ _ _ _) as [asm' res]. destruct res as [cl|]; [|injection H as <- <- <-; reflexivity].
  fld_in H.
  destruct (rb_write_unallocated (s_rx_buffer s) po pl) as [rx lw].
  destruct (negb (lw =? l_len pl)); [discriminate|].
  match type of H with context [obind ?x _] => destruct x as [rx2| |]; cbn [obind] in H; try discriminate end.
  match type of H with context [let '(_, _) := ?x in _] => destruct x as [s1 tg1] eqn:E1 end.
  assert (T : txv s1 = txv s).
  { repeat match type of E1 with context [match ?x with _ => _ end] => destruct x end;
    injection E1 as <- <-; reflexivity. }
  match type of H with context [if ?b then _ else _] => destruct b end.
  - destruct (tcp_ack_reply cx s1 ip r) as [s2 p2] eqn:E2. injection H as <- <- <-.
    change s2 with (fst (s2, p2)). rewrite <- E2, ack_reply_txv. exact T.
  - injection H as <- <- <-. exact T.
Qed.
