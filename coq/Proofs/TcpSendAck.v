(* C05, layer 3: every phase of [tcp_process] characterised by its effect on the fields the sender
   invariant reads ([txv]), and [tcp_process] preserves the invariant for every segment. *)
From SV Require Import Lib.Base Gen.Consts.
From SV Require Import Model.Seq32 Model.Assembler Model.TcpBuf Model.TcpTypes Model.Tcp.
From SV Require Import Proofs.TcpSendBase Proofs.TcpSendInv.

(* ------------------------------------------------------------------------------------------ *)
(* how one step may change the ghost                                                            *)
(* ------------------------------------------------------------------------------------------ *)
Definition same_epoch (g g' : ghost) : Prop :=
  g_iss g' = g_iss g /\ (exists more, g_stream g' = g_stream g ++ more) /\
  g_acked g <= g_acked g' /\ g_hw g <= g_hw g' /\
  (g_fin g = true -> g_fin g' = true /\ g_stream g' = g_stream g).
Definition new_epoch (g' : ghost) : Prop := g_stream g' = [] /\ g_acked g' = 0.
Definition ghost_rel (g g' : ghost) : Prop := same_epoch g g' \/ new_epoch g'.

Lemma same_epoch_refl : forall g, same_epoch g g.
Proof.
  intros. unfold same_epoch. split; [reflexivity|]. split; [exists []; symmetry; apply app_nil_r|].
  split; [lia|]. split; [lia|]. auto.
Qed.

(* ------------------------------------------------------------------------------------------ *)
(* replies do not touch the sender fields                                                       *)
(* ------------------------------------------------------------------------------------------ *)
Lemma ack_reply_txv : forall cx s ip r, txv (fst (tcp_ack_reply cx s ip r)) = txv s.
Proof. intros. unfold tcp_ack_reply, tcp_reply, with_payload_len. fld. reflexivity. Qed.

Lemma challenge_txv : forall cx s ip r, txv (fst (tcp_challenge_ack_reply cx s ip r)) = txv s.
Proof.
  intros. unfold tcp_challenge_ack_reply. destruct (cx_now cx <? s_challenge_ack_timer s); [reflexivity|].
  destruct (tcp_ack_reply cx (upd_challenge_ack_timer s (cx_now cx + 1000000)) ip r) as [s' p] eqn:E.
  fld. change s' with (fst (s', p)). rewrite <- E. rewrite ack_reply_txv. reflexivity.
Qed.

(* ------------------------------------------------------------------------------------------ *)
(* ack_check (l.1604-1703)                                                                      *)
(* ------------------------------------------------------------------------------------------ *)
Definition ack_facts (s : socket) (r : tcp_repr) : Prop :=
  r_control r = CRst \/
  match s_state s with
  | Listen => r_ack_number r = None
  | SynSent => r_control r = CSyn /\
               (r_ack_number r = None \/ r_ack_number r = Some (seq_add (s_local_seq_no s) 1))
  | SynReceived => r_ack_number r = Some (seq_add (s_local_seq_no s) 1)
  | _ => exists a, r_ack_number r = Some a /\
           seq_lt a (seq_add (s_local_seq_no s) (b2z (tcp_sent_syn s))) = false /\
           seq_gt a (seq_add (s_local_seq_no s)
                      (rb_len (s_tx_buffer s) + (b2z (tcp_sent_syn s) + b2z (tcp_sent_fin s)))) = false
  end.

Lemma ack_check_spec : forall cx s ip r p, tcp_process_ack_check cx s ip r = Ok p ->
  match p with
  | Ret _ s' _ => txv s' = txv s
  | Cont _ _ => ack_facts s r
  end.
Proof.
  intros cx s ip r p H. unfold tcp_process_ack_check in H. unfold ack_facts.
  destruct (s_state s), (r_control r), (r_ack_number r) as [a|];
  repeat match type of H with
  | context [if ?b then _ else _] => destruct b eqn:?
  | context [tcp_rst_reply ?a ?b] => destruct (tcp_rst_reply a b); cbn [obind] in H
  | context [tcp_challenge_ack_reply ?a ?b ?c ?d] =>
      let E := fresh "E" in destruct (tcp_challenge_ack_reply a b c d) as [s'' p''] eqn:E;
      apply (f_equal fst) in E; cbn [fst] in E; rewrite <- E in H
  end; try discriminate; injection H as <-; auto;
  try (rewrite challenge_txv; reflexivity);
  try (right; try split; auto; try (right; f_equal); try (f_equal);
       match goal with H : negb (_ =? _) = false |- _ => apply negb_false_iff, Z.eqb_eq in H; subst; reflexivity
                    | H : (_ =? _) = true |- _ => apply Z.eqb_eq in H; subst; reflexivity end);
  try (right; eexists; split; [reflexivity|]; split; assumption).
Qed.

(* ------------------------------------------------------------------------------------------ *)
(* window check (l.1705-1832)                                                                   *)
(* ------------------------------------------------------------------------------------------ *)
Lemma window_spec : forall cx s ip r p, tcp_process_window cx s ip r = Ok p ->
  match p with
  | Ret _ s' _ => exists tm, txv s' = txv (upd_timer s tm) /\ (tm = s_timer s \/ exists e, tm = TClose e)
  | Cont _ (s2, _, _) => txv s2 = txv s
  end.
Proof.
  intros cx s ip r p H. unfold tcp_process_window in H.
  destruct (tcp_segment_in_window (tcp_window_start s) (tcp_window_end s) (r_seq_number r)
              (seq_add (r_seq_number r) (l_len (r_payload r)))) as [inw tg].
  destruct (s_state s) eqn:Est; try (injection H as <-; reflexivity);
  (destruct inw;
   [ destruct (negb (seq_le _ _)); [discriminate|];
     repeat match type of H with context [obind ?x _] => destruct x; cbn [obind] in H; try discriminate end;
     injection H as <-; reflexivity
   | destruct (control_eqb (r_control r) CRst);
     [ injection H as <-; exists (s_timer s); split; [reflexivity|left; reflexivity] |];
     cbn [tcp_state_eqb] in H;
     match type of H with context [if ?b then _ else _] => destruct b end;
     match type of H with
     | context [tcp_ack_reply ?a ?b ?c ?d] =>
        let E := fresh "E" in destruct (tcp_ack_reply a b c d) as [s'' p''] eqn:E;
        apply (f_equal fst) in E; cbn [fst] in E; injection H as <-; rewrite <- E, ack_reply_txv
     | context [tcp_challenge_ack_reply ?a ?b ?c ?d] =>
        let E := fresh "E" in destruct (tcp_challenge_ack_reply a b c d) as [s'' p''] eqn:E;
        apply (f_equal fst) in E; cbn [fst] in E; injection H as <-; rewrite <- E, challenge_txv
     end;
     first [ exists (s_timer s); split; [reflexivity|left; reflexivity]
           | eexists; split; [reflexivity|right; eexists; reflexivity] ] ]).
Qed.

(* ------------------------------------------------------------------------------------------ *)
(* the transition table (l.1877-2056)                                                           *)
(* ------------------------------------------------------------------------------------------ *)
Definition cls (st : tcp_state) : Z :=
  match st with
  | Established | CloseWait => 1
  | FinWait1 | Closing | LastAck => 2
  | FinWait2 | TimeWait => 3
  | Closed => 4 | Listen => 5 | SynSent | SynReceived => 6
  end.

(* which state changes the table can make (besides the two SYN rows) *)
Definition st_rel (st : tcp_state) (c : control) (aof : bool) (st' : tcp_state) : Prop :=
  match c with
  | CRst => st' = Closed
  | _ => (aof = true /\ cls st = 2 /\ (cls st' = 3 \/ st' = Closed)) \/
         (cls st' = cls st /\ 1 <= cls st <= 3 /\ (st' = FinWait1 -> st = FinWait1) /\
          (aof = true -> cls st <> 2)) \/
         (st = SynReceived /\ cls st' = 1)
  end.

Definition phase_sock {A} (p : phase A) (f : A -> socket) : socket :=
  match p with Cont _ a => f a | Ret _ s _ => s end.
Definition is_ret {A} (p : phase A) : bool := match p with Cont _ _ => false | Ret _ _ _ => true end.

Lemma transition_spec : forall cx s ip r c al aof p,
  tcp_process_transition cx s ip r c al aof = Ok p -> c <> CPsh ->
  let s' := phase_sock p (fun x => x) in
  (txv s' = txv s /\
   (is_ret p = false ->
    match s_state s with Listen | SynSent | SynReceived => False | _ => True end /\
    (aof = true -> cls (s_state s) <> 2) /\ c <> CRst)) \/
  (exists st' tm, txv s' = txv (upd_timer (upd_state s st') tm) /\
     (tm = s_timer s \/ exists e, tm = TClose e) /\ st_rel (s_state s) c aof st' /\
     (is_ret p = true <-> c = CRst)) \/
  (s_state s = Listen /\ c = CSyn /\ is_ret p = false /\
   s_state s' = SynReceived /\ s_local_seq_no s' = cx_isn cx /\ s_remote_last_seq s' = cx_isn cx /\
   s_tx_buffer s' = s_tx_buffer s /\ s_remote_win_len s' = s_remote_win_len s /\
   s_remote_win_scale s' = r_window_scale r /\ timer_is_idle (s_timer s') = true /\
   s_remote_mss s' = s_remote_mss (tcp_apply_mss s r) /\
   s_remote_win_shift s' = (if is_some (r_window_scale r) then s_remote_win_shift s else 0) /\
   s_syn_unacked_in_fin_wait s' = s_syn_unacked_in_fin_wait s /\
   rt_max_seq_sent (s_rtte s') = rt_max_seq_sent (s_rtte s)) \/
  (s_state s = SynSent /\ c = CSyn /\ is_ret p = false /\
   s_state s' = (if is_some (r_ack_number r) then Established else SynReceived) /\
   s_local_seq_no s' = s_local_seq_no s /\
   s_remote_last_seq s' = (if is_some (r_ack_number r) then seq_add (s_local_seq_no s) 1
                           else s_remote_last_seq s) /\
   s_tx_buffer s' = s_tx_buffer s /\ s_remote_win_len s' = s_remote_win_len s /\
   s_remote_win_scale s' = r_window_scale r /\ s_timer s' = s_timer s /\
   s_remote_mss s' = s_remote_mss (tcp_apply_mss s r) /\
   s_remote_win_shift s' = (if is_some (r_window_scale r) then s_remote_win_shift s else 0) /\
   s_syn_unacked_in_fin_wait s' = s_syn_unacked_in_fin_wait s /\
   rt_max_seq_sent (s_rtte s') = rt_max_seq_sent (s_rtte s)) \/
  (* a handshake reset returns a listening socket to a pristine LISTEN *)
  (s_state s = SynReceived /\ c = CRst /\ is_ret p = true /\
   s' = tcp_set_state (upd_listen_endpoint (tcp_reset s) (s_listen_endpoint s)) Listen).
Proof.
  intros cx s ip r c al aof p H Hc. unfold tcp_process_transition in H. cbv zeta.
  assert (Hm : s_tx_buffer (tcp_apply_mss s r) = s_tx_buffer s /\
               s_remote_win_len (tcp_apply_mss s r) = s_remote_win_len s /\
               s_remote_win_shift (tcp_apply_mss s r) = s_remote_win_shift s /\
               s_local_seq_no (tcp_apply_mss s r) = s_local_seq_no s /\
               s_remote_last_seq (tcp_apply_mss s r) = s_remote_last_seq s /\
               s_syn_unacked_in_fin_wait (tcp_apply_mss s r) = s_syn_unacked_in_fin_wait s /\
               s_timer (tcp_apply_mss s r) = s_timer s /\
               s_rtte (tcp_apply_mss s r) = s_rtte s)
    by (unfold tcp_apply_mss; destruct (r_max_seg_size r) as [m|]; [destruct (m =? 0)|]; fld;
        repeat split; reflexivity).
  destruct Hm as (M1 & M2 & M3 & M4 & M5 & M6 & M7 & M8).
  revert M1 M2 M3 M4 M5 M6 M7 M8 H. generalize (tcp_apply_mss s r). intros sm M1 M2 M3 M4 M5 M6 M7 M8 H.
  destruct (s_state s) eqn:Est, c; try congruence;
  repeat match type of H with
  | context [if ?b then _ else _] => destruct b eqn:?
  | context [tcp_challenge_ack_reply ?a ?b ?c ?d] =>
      let E := fresh "E" in destruct (tcp_challenge_ack_reply a b c d) as [s'' p''] eqn:E;
      apply (f_equal fst) in E; cbn [fst] in E; rewrite <- E in H
  end; injection H as <-; cbn [phase_sock is_ret];
  try (left; split; [reflexivity|cbn [cls]; intuition congruence]);
  try (left; split; [apply challenge_txv|cbn [cls]; intuition congruence]);
  try (right; left; unfold tcp_enter_time_wait, tcp_fin_received, tcp_set_state;
       eexists; eexists; split; [reflexivity|]; split;
       [first [left; reflexivity | right; eexists; reflexivity]|]; unfold st_rel; cbn [cls];
       split; [solve [auto 7 | intuition (congruence || lia)]|split; congruence]);
  try (do 4 right; repeat split; reflexivity).
  all: repeat match goal with H : is_some (s_remote_win_scale _) = _ |- _ => fld_in H; fld; rewrite H
                            | H : is_some (r_ack_number _) = _ |- _ => fld_in H; fld; rewrite ?H end;
       fld; rewrite ?M1, ?M2, ?M3, ?M4, ?M5, ?M6, ?M7, ?M8;
       right; right; first [left; repeat split; reflexivity | right; left; repeat split; reflexivity].
Qed.

(* ------------------------------------------------------------------------------------------ *)
(* update_remote, dup_ack, timers, zwp, payload                                                 *)
(* ------------------------------------------------------------------------------------------ *)
(* the window the socket learns from a segment: the window field, scaled as negotiated (SYN and
   SYN|ACK segments carry an unscaled window) *)
Definition learned_window (s : socket) (r : tcp_repr) : Z :=
  shl (r_window_len r)
      (match r_control r with
       | CSyn => 0
       | _ => match s_remote_win_scale s with Some x => x | None => 0 end
       end).

Lemma update_remote_spec : forall cx s r al s' wu,
  tcp_process_update_remote cx s r al = Ok (s', wu) ->
  exists tx', txv s' = txv (upd_tx_buffer (upd_remote_win_len s (learned_window s r)) tx') /\
    (al > 0 -> rb_dequeue_allocated (s_tx_buffer s) al = Ok tx') /\
    (al <= 0 -> tx' = s_tx_buffer s).
Proof.
  intros cx s r al s' wu H. unfold tcp_process_update_remote in H. fld_in H.
  destruct (Z.gtb_spec al 0).
  - destruct (negb (rb_len (s_tx_buffer s) >=? al)); [discriminate|].
    destruct (rb_dequeue_allocated (s_tx_buffer s) al) as [tx'| |] eqn:E; cbn [obind] in H; try discriminate.
    injection H as <- <-. exists tx'. split; [reflexivity|]. split; [auto|lia].
  - injection H as <- <-. exists (s_tx_buffer s). split; [reflexivity|]. split; [lia|auto].
Qed.

Lemma rtte_sample_msx : forall r n r', rtte_sample r n = Ok r' ->
  rt_max_seq_sent r' = rt_max_seq_sent r.
Proof.
  intros r n r' H. unfold rtte_sample in H.
  repeat match type of H with
  | context [obind ?x _] => destruct x; cbn [obind] in H; try discriminate
  | context [if ?b then _ else _] => destruct b
  | context [let '(_, _) := ?x in _] => destruct x
  end; try discriminate; injection H as <-; reflexivity.
Qed.

Lemma rtte_on_ack_msx : forall r t q r', rtte_on_ack r t q = Ok r' ->
  rt_max_seq_sent r' = rt_max_seq_sent r.
Proof.
  intros r t q r' H. unfold rtte_on_ack in H.
  destruct (rt_timestamp r) as [[st sq0]|]; [|injection H as <-; reflexivity].
  destruct (seq_ge q sq0); [|injection H as <-; reflexivity].
  destruct (rtte_sample r _) eqn:E; cbn [obind] in H; try discriminate.
  injection H as <-. cbn [rt_max_seq_sent]. eapply rtte_sample_msx. exact E.
Qed.

Lemma dup_ack_spec : forall cx s r al wu s' tg,
  tcp_process_dup_ack cx s r al wu = Ok (s', tg) ->
  match r_ack_number r with
  | None => s' = s
  | Some a => exists tm,
      txv s' = txv (upd_syn_unacked_in_fin_wait
                      (upd_remote_last_seq (upd_local_seq_no (upd_timer s tm) a)
                         (if seq_lt (s_remote_last_seq s) a then a else s_remote_last_seq s)) false) /\
      (tm = s_timer s \/ (tm = TFastRetransmit /\ rb_is_empty (s_tx_buffer s) = false))
  end.
Proof.
  intros cx s r al wu s' tg H. unfold tcp_process_dup_ack in H.
  destruct (r_ack_number r) as [a|]; [|injection H as <- <-; reflexivity].
  match type of H with context [if ?b then _ else _] => destruct b end.
  - match type of H with context [if ?b then _ else _] => destruct b eqn:Eb end;
    match type of H with context [tcp_flight_size ?x] => destruct (tcp_flight_size x) end;
    cbn [obind] in H; try discriminate; fld_in H; injection H as <- <-;
    [exists TFastRetransmit|exists (s_timer s)];
    (split; [destruct (seq_lt (s_remote_last_seq s) a); fld; reflexivity|]).
    + right. split; [reflexivity|]. apply andb_prop in Eb. destruct Eb as [_ Eb].
      apply negb_true_iff in Eb. exact Eb.
    + left. reflexivity.
  - destruct (s_local_rx_dup_acks s >? 0); fld_in H;
    (destruct (rtte_on_ack (s_rtte s) (cx_now cx) a) eqn:Er; cbn [obind] in H; try discriminate;
     match type of H with context [tcp_flight_size ?x] => destruct (tcp_flight_size x) end;
     cbn [obind] in H; try discriminate;
     match type of H with context [cc_on_ack ?x ?y] => destruct (cc_on_ack x y) end;
     cbn [obind] in H; try discriminate;
     fld_in H; injection H as <- <-; exists (s_timer s); split; [|left; reflexivity];
     destruct (seq_lt (s_remote_last_seq s) a); unfold txv; fld;
     rewrite (rtte_on_ack_msx _ _ _ _ Er); reflexivity).
Qed.

Lemma timers_zwp_spec : forall cx s al aa s6 t6 s7 t7,
  tcp_process_timers cx s al aa = (s6, t6) -> tcp_process_zwp cx s6 al = (s7, t7) ->
  txv s7 = txv (upd_timer s (s_timer s7)) /\
  (timer_is_zero_window_probe (s_timer s7) = true -> s_remote_win_len s = 0) /\
  (timer_is_idle (s_timer s7) = true ->
     (timer_is_retransmit (s_timer s) = true /\ aa = true) \/ timer_is_idle (s_timer s) = true \/
     (s_remote_last_seq s =? s_local_seq_no s) = true).
Proof.
  intros cx s al aa s6 t6 s7 t7 H6 H7.
  assert (A : txv s6 = txv (upd_timer s (s_timer s6)) /\
              (timer_is_zero_window_probe (s_timer s6) = true ->
               timer_is_zero_window_probe (s_timer s) = true) /\
              (timer_is_idle (s_timer s6) = true ->
               (timer_is_retransmit (s_timer s) = true /\ aa = true) \/ timer_is_idle (s_timer s) = true)).
  { unfold tcp_process_timers in H6.
    destruct (s_timer s) eqn:Et; try destruct aa; try destruct (al >? 0);
    injection H6 as <- <-; fld; rewrite ?Et; cbn; auto; unfold txv; rewrite Et; auto. }
  destruct A as (A1 & A2 & A3).
  destruct (txv_proj _ _ A1) as (B1 & B2 & B3 & B4 & B5 & B6 & _ & B8 & B9 & B10).
  fld_in B1. fld_in B2. fld_in B3. fld_in B4. fld_in B5. fld_in B6. fld_in B8. fld_in B9. fld_in B10.
  pose proof (txv_msx _ _ A1) as B11. fld_in B11.
  unfold tcp_process_zwp in H7.
  destruct ((s_remote_win_len s6 =? 0) && negb (rb_is_empty (s_tx_buffer s6)) &&
            (timer_is_idle (s_timer s6) || (al >? 0))) eqn:Ez; rewrite B2, B5 in Ez;
  fld_in H7; rewrite ?B2, ?B3, ?B4, ?B5 in H7.
  - apply andb_prop in Ez. destruct Ez as [Ez _]. apply andb_prop in Ez.
    destruct Ez as [Ez Ene]. rewrite Ez in H7. apply negb_true_iff in Ene. rewrite Ene in H7.
    cbn [negb andb orb timer_set_for_zero_window_probe timer_is_zero_window_probe] in H7.
    injection H7 as <- <-.
    unfold txv. fld. rewrite B1, B2, B3, B4, B5, B6, B8, B9, B10, B11. split; [reflexivity|]. split.
    + intros _. apply Z.eqb_eq. exact Ez.
    + unfold timer_set_for_zero_window_probe. cbn. discriminate.
  - destruct (negb (s_remote_win_len s =? 0) || rb_is_empty (s_tx_buffer s)) eqn:Ew; cbn [andb] in H7.
    + destruct (timer_is_zero_window_probe (s_timer s6)) eqn:Ezw.
      * destruct (negb (s_remote_last_seq s =? s_local_seq_no s)) eqn:Er;
        injection H7 as <- <-; unfold txv; fld; rewrite B1, B2, B3, B4, B5, B6, B8, B9, B10, B11;
        (split; [reflexivity|]).
        -- unfold timer_set_for_retransmit, timer_set_for_idle. cbn. split; discriminate.
        -- unfold timer_set_for_idle. cbn. split; [discriminate|]. intros _. right. right.
           apply negb_false_iff in Er. exact Er.
      * injection H7 as <- <-. unfold txv. rewrite B1, B2, B3, B4, B5, B6, B8, B9, B10, B11. fld.
        split; [reflexivity|]. split; [congruence|]. intros Hi. specialize (A3 Hi). tauto.
    + injection H7 as <- <-. unfold txv. rewrite B1, B2, B3, B4, B5, B6, B8, B9, B10, B11. fld.
      split; [reflexivity|]. split.
      * intros _. apply orb_false_iff in Ew. destruct Ew as [Ew _].
        apply negb_false_iff, Z.eqb_eq in Ew. exact Ew.
      * intros Hi. specialize (A3 Hi). tauto.
Qed.

Lemma payload_spec : forall cx s ip r pl po s' reply tg,
  tcp_process_payload cx s ip r pl po = Ok (s', reply, tg) -> txv s' = txv s.
Proof.
  intros cx s ip r pl po s' reply tg H. unfold tcp_process_payload in H.
  destruct (l_len pl =? 0); [injection H as <- <- <-; reflexivity|].
  destruct (asm_atrf _ _ _ _) as [asm' res]. destruct res as [cl|]; [|injection H as <- <- <-; reflexivity].
  fld_in H.
  destruct (rb_write_unallocated (s_rx_buffer s) po pl) as [rx lw].
  destruct (negb (lw =? l_len pl)); [discriminate|].
  match type of H with context [obind ?x _] => destruct x as [rx2| |]; cbn [obind] in H; try discriminate end.
  match type of H with context [let '(_, _) := ?x in _] => destruct x as [s1 tg1] eqn:E1 end.
  assert (T : txv s1 = txv s).
  { repeat match type of E1 with context [match ?x with _ => _ end] => destruct x end;
    injection E1 as <- <-; reflexivity. }
  match type of H with context [if ?b then _ else _] => destruct b end.
  - destruct (tcp_ack_reply cx s1 ip r) as [s2 p2] eqn:E2. injection H as <- <- <-.
    change s2 with (fst (s2, p2)). rewrite <- E2, ack_reply_txv. exact T.
  - injection H as <- <- <-. exact T.
Qed.

(* ------------------------------------------------------------------------------------------ *)
(* everything after the transition table, in one statement                                      *)
(* ------------------------------------------------------------------------------------------ *)
Lemma tail_spec : forall cx s3 ip r al aa pl po t1 t2 t3 s8 reply tags,
  (do ur <- tcp_process_update_remote cx s3 r al;
   let '(s4, is_window_update) := ur in
   do da <- tcp_process_dup_ack cx s4 r al is_window_update;
   let '(s5, t5) := da in
   let s5 := match r_timestamp r with
             | Some (tsval, _) => upd_last_remote_tsval s5 tsval
             | None => s5
             end in
   let '(s6, t6) := tcp_process_timers cx s5 al aa in
   let '(s7, t7) := tcp_process_zwp cx s6 al in
   do pr <- tcp_process_payload cx s7 ip r pl po;
   let '(s8, reply, t8) := pr in
   Ok (s8, reply, [t1; t2; t3; t5; t6; t7; t8])) = Ok (s8, reply, tags) ->
  exists tx',
    (al > 0 -> rb_dequeue_allocated (s_tx_buffer s3) al = Ok tx') /\
    (al <= 0 -> tx' = s_tx_buffer s3) /\
    s_state s8 = s_state s3 /\ s_tx_buffer s8 = tx' /\
    s_remote_win_len s8 = learned_window s3 r /\
    s_remote_win_scale s8 = s_remote_win_scale s3 /\
    s_remote_mss s8 = s_remote_mss s3 /\ s_remote_win_shift s8 = s_remote_win_shift s3 /\
    match r_ack_number r with
    | None => s_local_seq_no s8 = s_local_seq_no s3 /\ s_remote_last_seq s8 = s_remote_last_seq s3 /\
              s_syn_unacked_in_fin_wait s8 = s_syn_unacked_in_fin_wait s3
    | Some a => s_local_seq_no s8 = a /\
                s_remote_last_seq s8 = (if seq_lt (s_remote_last_seq s3) a then a
                                        else s_remote_last_seq s3) /\
                s_syn_unacked_in_fin_wait s8 = false
    end /\
    (timer_is_zero_window_probe (s_timer s8) = true -> learned_window s3 r = 0) /\
    (timer_is_idle (s_timer s8) = true ->
       aa = true \/ timer_is_idle (s_timer s3) = true \/
       (s_remote_last_seq s8 =? s_local_seq_no s8) = true) /\
    rt_max_seq_sent (s_rtte s8) = rt_max_seq_sent (s_rtte s3).
Proof.
  intros cx s3 ip r al aa pl po t1 t2 t3 s8 reply tags H.
  destruct (tcp_process_update_remote cx s3 r al) as [[s4 wu]| |] eqn:E4; cbn [obind] in H; try discriminate.
  destruct (tcp_process_dup_ack cx s4 r al wu) as [[s5 t5]| |] eqn:E5; cbn [obind] in H; try discriminate.
  set (s5' := match r_timestamp r with
              | Some (tsval, _) => upd_last_remote_tsval s5 tsval
              | None => s5
              end) in *.
  assert (T5 : txv s5' = txv s5) by (unfold s5'; destruct (r_timestamp r) as [[? ?]|]; reflexivity).
  destruct (tcp_process_timers cx s5' al aa) as [s6 t6] eqn:E6.
  destruct (tcp_process_zwp cx s6 al) as [s7 t7] eqn:E7.
  destruct (tcp_process_payload cx s7 ip r pl po) as [[[s8' reply'] t8]| |] eqn:E8; cbn [obind] in H;
    try discriminate.
  injection H as <- <- <-.
  apply update_remote_spec in E4. destruct E4 as (tx' & V4 & D1 & D2).
  apply dup_ack_spec in E5.
  destruct (timers_zwp_spec _ _ _ _ _ _ _ _ E6 E7) as (V7 & Z7 & I7).
  apply payload_spec in E8.
  destruct (txv_proj _ _ E8) as (P1 & P2 & P3 & P4 & P5 & P6 & P7 & P8 & P9 & P10).
  destruct (txv_proj _ _ V7) as (Q1 & Q2 & Q3 & Q4 & Q5 & Q6 & _ & Q8 & Q9 & Q10).
  fld_in Q1. fld_in Q2. fld_in Q3. fld_in Q4. fld_in Q5. fld_in Q6. fld_in Q8. fld_in Q9. fld_in Q10.
  destruct (txv_proj _ _ T5) as (R1 & R2 & R3 & R4 & R5 & R6 & R7 & R8 & R9 & R10).
  destruct (txv_proj _ _ V4) as (U1 & U2 & U3 & U4 & U5 & U6 & U7 & U8 & U9 & U10).
  fld_in U1. fld_in U2. fld_in U3. fld_in U4. fld_in U5. fld_in U6. fld_in U7. fld_in U8. fld_in U9.
  fld_in U10.
  assert (Hmx : forall s5msx, rt_max_seq_sent (s_rtte s5) = s5msx ->
                rt_max_seq_sent (s_rtte s8') = s5msx).
  { intros x Hx. rewrite (txv_msx _ _ E8), (txv_msx _ _ V7). fld. rewrite (txv_msx _ _ T5). exact Hx. }
  pose proof (txv_msx _ _ V4) as M4. fld_in M4.
  exists tx'. split; [exact D1|]. split; [exact D2|].
  destruct (r_ack_number r) as [a|].
  - destruct E5 as (tm & V5 & Htm).
    destruct (txv_proj _ _ V5) as (W1 & W2 & W3 & W4 & W5 & W6 & W7 & W8 & W9 & W10).
    fld_in W1. fld_in W2. fld_in W3. fld_in W4. fld_in W5. fld_in W6. fld_in W7. fld_in W8. fld_in W9.
    fld_in W10.
    rewrite P1, P2, P3, P4, P5, P6, P7, P8, P9, P10.
    rewrite Q1, Q2, Q3, Q4, Q5, Q6, Q8, Q9, Q10.
    rewrite R1, R2, R3, R4, R5, R6, R8, R9, R10.
    rewrite W1, W2, W3, W4, W5, W6, W8, W9, W10.
    rewrite U1, U2, U4, U5, U6, U8, U9.
    repeat (split; [reflexivity|]). split; [repeat split; reflexivity|].
    split; [|split].
    + intros Hz. specialize (Z7 Hz). congruence.
    + intros Hi. specialize (I7 Hi). rewrite R7, W7, R4, R3, W4, W3, U4 in I7.
      destruct I7 as [(_ & I)|[I|I]]; [left; exact I| |right; right; exact I].
      destruct Htm as [->|(-> & _)]; [|discriminate I]. rewrite U7 in I. right. left. exact I.
    + apply Hmx. pose proof (txv_msx _ _ V5) as M5. fld_in M5. congruence.
  - subst s5.
    rewrite P1, P2, P3, P4, P5, P6, P7, P8, P9, P10.
    rewrite Q1, Q2, Q3, Q4, Q5, Q6, Q8, Q9, Q10.
    rewrite R1, R2, R3, R4, R5, R6, R8, R9, R10.
    rewrite U1, U2, U3, U4, U5, U6, U8, U9, U10.
    repeat (split; [reflexivity|]). split; [repeat split; reflexivity|].
    split; [|split].
    + intros Hz. specialize (Z7 Hz). congruence.
    + intros Hi. specialize (I7 Hi). rewrite R7, R4, R3, U7, U4, U3 in I7.
      destruct I7 as [(_ & I)|[I|I]]; [left; exact I|right; left; exact I|right; right; exact I].
    + apply Hmx. exact M4.
Qed.

(* ------------------------------------------------------------------------------------------ *)
(* acceptable acknowledgement numbers, as unbounded offsets                                     *)
(* ------------------------------------------------------------------------------------------ *)
Lemma ack_window_offsets : forall b d0 m U,
  0 <= d0 < 2 ^ 32 -> 0 <= m <= U -> U <= 2 ^ 31 - 1 ->
  seq_lt (sq (b + d0)) (sq (b + m)) = false ->
  seq_gt (sq (b + d0)) (sq (b + U)) = false ->
  m <= d0 <= U.
Proof.
  intros b d0 m U Hd Hm HU Hlt Hgt. unfold seq_lt, seq_gt in *.
  rewrite seq_sdiff_sq_gen in Hlt, Hgt.
  change (2 ^ 32) with 4294967296 in *. change (2 ^ 31) with 2147483648 in *. lia.
Qed.

Lemma control_eqb_neq : forall a b, a <> b -> control_eqb a b = false.
Proof. intros [] []; intros; try reflexivity; congruence. Qed.

Lemma quash_props : forall s r,
  let c := tcp_process_quash s r in
  c <> CPsh /\ (c = CRst <-> r_control r = CRst) /\ (c = CSyn <-> r_control r = CSyn).
Proof.
  intros. unfold c, tcp_process_quash.
  destruct (r_control r); cbn [quash_psh control_eqb andb];
  try match goal with |- context [if ?b then _ else _] => destruct b end;
  repeat split; congruence.
Qed.

Lemma ack_len_spec : forall g s r al aof aa,
  tx_inv g s -> repr_ok r -> ack_facts s r -> r_control r <> CRst -> s_state s <> Closed ->
  tcp_process_ack_len s r = Ok (al, aof, aa) ->
  exists d, 0 <= d /\
    (g_phase g <> PSyn -> al = (if aof then d - 1 else d)) /\
    (g_phase g = PSyn -> al = 0 /\ aof = false /\ d <= 1) /\
    (aof = true -> g_phase g = PData /\ g_fin g = true /\ d = rb_len (s_tx_buffer s) + 1 /\
                   cls (s_state s) = 2) /\
    (aof = false -> match g_phase g with
                    | PSyn => True | PData => d <= rb_len (s_tx_buffer s) | PFinAcked => d = 0 end) /\
    match r_ack_number r with
    | None => d = 0 /\ aof = false /\ al = 0 /\ aa = false /\
              (s_state s = Listen \/ s_state s = SynSent)
    | Some a => a = sq (g_iss g + g_una g + d) /\ aa = (g_flight g <=? d) /\
                (g_phase g = PSyn -> d = 1)
    end.
Proof.
  intros g s r al aof aa Hinv Hr Hf Hrst Hcl H.
  destruct Hinv as (Hwf & Hcap & Ha & Hlen & Hc & Hl & Hrl & Hfl & Hhw & Hph & Hw & Hs).
  destruct Hr as (_ & Hack & _).
  pose proof Hwf as (Hl0 & _).
  pose proof (budget_bound g (rb_len (s_tx_buffer s)) ltac:(lia)) as Hb.
  destruct Hf as [Hf|Hf]; [congruence|].
  unfold tcp_process_ack_len in H. rewrite (control_eqb_neq _ _ Hrst) in H.
  (* the acknowledgement number as an offset *)
  assert (Hsome : forall a, r_ack_number r = Some a -> forall m U,
            m = b2z (tcp_sent_syn s) -> 
            U = rb_len (s_tx_buffer s) + (b2z (tcp_sent_syn s) + b2z (tcp_sent_fin s)) ->
            seq_lt a (seq_add (s_local_seq_no s) m) = false ->
            seq_gt a (seq_add (s_local_seq_no s) U) = false ->
            exists d0, a = sq (g_iss g + g_una g + d0) /\ m <= d0 <= U).
  { intros a Ea m U Em EU Hlt Hgt. rewrite Ea in Hack.
    exists ((a - (g_iss g + g_una g)) mod 2 ^ 32).
    assert (Ed : a = sq (g_iss g + g_una g + (a - (g_iss g + g_una g)) mod 2 ^ 32))
      by (apply sq_decompose; assumption).
    split; [exact Ed|].
    rewrite Hl, !seq_add_sq in Hlt, Hgt. rewrite Ed in Hlt, Hgt.
    assert (0 <= m <= U /\ U <= 2 ^ 31 - 1).
    { subst m U. destruct (tcp_sent_syn s), (tcp_sent_fin s); cbn [b2z]; lia. }
    apply (ack_window_offsets (g_iss g + g_una g) _ m U);
      [apply Z.mod_pos_bound; lia | lia | lia | exact Hlt | exact Hgt]. }
  unfold phase_ok in Hph. unfold ack_facts in Hf.
  unfold tcp_sent_syn, tcp_sent_fin in *.
  destruct (s_state s) eqn:Est; try congruence.
  1: { (* Listen *)
    rewrite Hf in H. injection H as <- <- <-. destruct (g_phase g) eqn:P; try tauto.
    exists 0. split; [lia|]. split; [congruence|]. split; [intros _; repeat split; lia|].
    split; [discriminate|]. split; [intros _; exact I|]. rewrite Hf. repeat split; auto. }
  1: { (* SynSent *)
    destruct (g_phase g) eqn:P; try tauto. destruct Hph as (A0 & L0 & F0).
    destruct Hf as (_ & [Hn|Hn]); rewrite Hn in H |- *.
    + injection H as <- <- <-. exists 0. split; [lia|]. split; [congruence|].
      split; [intros _; repeat split; lia|]. split; [discriminate|]. split; [intros _; exact I|].
      repeat split; auto.
    + cbn [b2z] in H. rewrite Hl, !seq_add_sq in H. unfold g_una in H.
      replace (g_iss g + 0 + 1) with (g_iss g + 1) in H by lia.
      rewrite seq_ge_sq, seq_sub_sq in H by lia.
      destruct (Z.geb_spec 1 1); [|lia]. destruct (Z.ltb_spec 1 1); [lia|]. cbn [obind andb] in H.
      injection H as <- <- <-. exists 1. unfold g_una.
      split; [lia|]. split; [congruence|]. split; [intros _; repeat split; lia|].
      split; [discriminate|]. split; [intros _; exact I|].
      split; [rewrite Hl, seq_add_sq; unfold g_una; rewrite P; f_equal; lia|].
      split; [|intros _; reflexivity].
      rewrite Hrl. unfold g_una. rewrite P.
      replace (g_iss g + 0 + g_flight g) with (g_iss g + g_flight g) by lia.
      replace (g_iss g + 0 + 1) with (g_iss g + 1) by lia.
      unfold g_budget in Hfl. rewrite P in Hfl. rewrite seq_le_sq by lia. reflexivity. }
  1: { (* SynReceived *)
    destruct (g_phase g) eqn:P; try tauto. destruct Hph as (A0 & L0 & F0).
    rewrite Hf in H |- *.
    cbn [b2z] in H. rewrite Hl, !seq_add_sq in H. unfold g_una in H.
    replace (g_iss g + 0 + 1) with (g_iss g + 1) in H by lia.
    rewrite seq_ge_sq, seq_sub_sq in H by lia.
    destruct (Z.geb_spec 1 1); [|lia]. destruct (Z.ltb_spec 1 1); [lia|]. cbn [obind andb] in H.
    injection H as <- <- <-. exists 1. unfold g_una.
    split; [lia|]. split; [congruence|]. split; [intros _; repeat split; lia|].
    split; [discriminate|]. split; [intros _; exact I|].
    split; [rewrite Hl, seq_add_sq; unfold g_una; rewrite P; f_equal; lia|].
    split; [|intros _; reflexivity].
    rewrite Hrl. unfold g_una. rewrite P.
    replace (g_iss g + 0 + g_flight g) with (g_iss g + g_flight g) by lia.
    replace (g_iss g + 0 + 1) with (g_iss g + 1) by lia.
    unfold g_budget in Hfl. rewrite P in Hfl. rewrite seq_le_sq by lia. reflexivity. }
  all: destruct Hf as (a & Ea & Hlt & Hgt).
  (* Established, CloseWait: PData, no FIN *)
  1, 4: destruct (g_phase g) eqn:P; try tauto;
    destruct (Hsome a Ea _ _ eq_refl eq_refl Hlt Hgt) as (d0 & Ed & Hd0); cbn [b2z] in Hd0;
    rewrite Ea in H |- *; cbn [b2z andb] in H; rewrite Hl, !seq_add_sq, Ed in H;
    rewrite seq_ge_sq, seq_sub_sq in H by lia;
    destruct (Z.geb_spec d0 0); [|lia]; destruct (Z.ltb_spec d0 0); [lia|]; cbn [obind] in H;
    rewrite Hrl in H; rewrite seq_le_sq in H by lia;
    injection H as <- <- <-; exists d0;
    (split; [lia|]); (split; [intros _; cbv iota; lia|]); (split; [congruence|]); (split; [discriminate|]);
    (split; [intros _; lia|]); (split; [exact Ed|]); (split; [reflexivity|congruence]).
  (* FinWait2, TimeWait: PFinAcked *)
  2, 5: destruct (g_phase g) eqn:P; try tauto; destruct Hph as (L0 & F0 & G0 & _);
    destruct (Hsome a Ea _ _ eq_refl eq_refl Hlt Hgt) as (d0 & Ed & Hd0); cbn [b2z] in Hd0;
    rewrite Ea in H |- *; cbn [b2z andb] in H; rewrite Hl, !seq_add_sq, Ed in H;
    rewrite seq_ge_sq, seq_sub_sq in H by lia;
    destruct (Z.geb_spec d0 0); [|lia]; destruct (Z.ltb_spec d0 0); [lia|]; cbn [obind] in H;
    rewrite Hrl in H; rewrite seq_le_sq in H by lia;
    injection H as <- <- <-; exists d0;
    (split; [lia|]); (split; [intros _; cbv iota; lia|]); (split; [congruence|]); (split; [discriminate|]);
    (split; [intros _; lia|]); (split; [exact Ed|]); (split; [reflexivity|congruence]).
  (* Closing, LastAck: PData with the FIN *)
  2, 3: destruct (g_phase g) eqn:P; try tauto;
    destruct (Hsome a Ea _ _ eq_refl eq_refl Hlt Hgt) as (d0 & Ed & Hd0); cbn [b2z] in Hd0;
    rewrite Ea in H |- *; cbn [b2z andb] in H; rewrite Hl, !seq_add_sq, Ed in H;
    rewrite seq_ge_sq, seq_sub_sq in H by lia;
    destruct (Z.geb_spec d0 0); [|lia]; destruct (Z.ltb_spec d0 0); [lia|]; cbn [obind] in H;
    rewrite Hrl in H;
    rewrite !seq_le_sq in H by lia;
    destruct (Z.eqb_spec (rb_len (s_tx_buffer s) + 1) (d0 - 0));
    injection H as <- <- <-; exists d0;
    (split; [lia|]); (split; [intros _; cbv iota; lia|]); (split; [congruence|]);
    (split; [first [discriminate | intros _; cbn [cls]; repeat split; auto; lia]|]);
    (split; [first [discriminate | intros _; lia]|]); (split; [exact Ed|]);
    (split; [reflexivity|congruence]).
  (* FinWait1: either the SYN|ACK is still unacknowledged (close() in SYN-RECEIVED) or PData *)
  destruct (g_phase g) eqn:P; try tauto.
  - destruct Hph as (A0 & L0 & G0 & Fw). rewrite Fw in *. cbn [negb] in *.
    destruct (Hsome a Ea _ _ eq_refl eq_refl Hlt Hgt) as (d0 & Ed & Hd0); cbn [b2z] in Hd0.
    rewrite Ea in H |- *. cbn [b2z andb] in H. rewrite Hl, !seq_add_sq, Ed in H.
    rewrite seq_ge_sq, seq_sub_sq in H by lia.
    destruct (Z.geb_spec d0 1); [|lia]. destruct (Z.ltb_spec d0 1); [lia|]. cbn [obind] in H.
    rewrite Hrl in H. rewrite seq_le_sq in H by lia.
    injection H as <- <- <-. exists d0.
    split; [lia|]. split; [congruence|]. split; [intros _; repeat split; lia|].
    split; [discriminate|]. split; [intros _; exact I|]. split; [exact Ed|].
    split; [reflexivity|intros _; lia].
  - destruct Hph as (G0 & Fw). rewrite Fw in *. cbn [negb] in *.
    destruct (Hsome a Ea _ _ eq_refl eq_refl Hlt Hgt) as (d0 & Ed & Hd0); cbn [b2z] in Hd0.
    rewrite Ea in H |- *. cbn [b2z andb] in H. rewrite Hl, !seq_add_sq, Ed in H.
    rewrite seq_ge_sq, seq_sub_sq in H by lia.
    destruct (Z.geb_spec d0 0); [|lia]. destruct (Z.ltb_spec d0 0); [lia|]. cbn [obind] in H.
    rewrite Hrl in H.
    rewrite !seq_le_sq in H by lia.
    destruct (Z.eqb_spec (rb_len (s_tx_buffer s) + 1) (d0 - 0));
    injection H as <- <- <-; exists d0;
    (split; [lia|]); (split; [intros _; cbv iota; lia|]); (split; [congruence|]);
    (split; [first [discriminate | intros _; cbn [cls]; repeat split; auto; lia]|]);
    (split; [first [discriminate | intros _; lia]|]); (split; [exact Ed|]);
    (split; [reflexivity|congruence]).
Qed.


(* ------------------------------------------------------------------------------------------ *)
(* the invariant across one segment                                                             *)
(* ------------------------------------------------------------------------------------------ *)
Lemma inv_timer_swap : forall g s s' tm,
  inv g s -> txv s' = txv (upd_timer s tm) -> (tm = s_timer s \/ exists e, tm = TClose e) ->
  inv g s'.
Proof.
  intros g s s' tm (Htx & Htm & Hk) E Ht.
  destruct (txv_proj _ _ E) as (B1 & B2 & B3 & B4 & B5 & B6 & B7 & B8 & B9 & B10).
  pose proof (txv_msx _ _ E) as B11.
  fld_in B1. fld_in B2. fld_in B3. fld_in B4. fld_in B5. fld_in B6. fld_in B7. fld_in B8. fld_in B10.
  fld_in B11.
  split; [|split].
  - unfold tx_inv in *. rewrite B1, B2, B3, B4, B5, B6, B10. exact Htx.
  - unfold tm_inv in *. rewrite B2, B5, B7. destruct Ht as [->|(e & ->)]; [exact Htm|].
    split; discriminate.
  - eapply kinv_fields; [exact Hk|exact B11|exact B8|congruence].
Qed.

Lemma phase_ok_closed : forall g st len fw fw', phase_ok g st len fw -> phase_ok g Closed len fw'.
Proof.
  intros g st len fw fw' H. unfold phase_ok in *. destruct (g_phase g).
  - destruct H as (A & B & _). auto.
  - exact I.
  - destruct H as (A & B & C & _). auto.
Qed.

Lemma inv_state_rst : forall g s s' st' tm,
  inv g s -> txv s' = txv (upd_timer (upd_state s st') tm) ->
  (tm = s_timer s \/ exists e, tm = TClose e) ->
  st' = Closed ->
  inv g s'.
Proof.
  intros g s s' st' tm (Htx & Htm & Hk) E Ht Hst.
  destruct (txv_proj _ _ E) as (B1 & B2 & B3 & B4 & B5 & B6 & B7 & B8 & B9 & B10).
  pose proof (txv_msx _ _ E) as B11.
  fld_in B1. fld_in B2. fld_in B3. fld_in B4. fld_in B5. fld_in B6. fld_in B7. fld_in B8. fld_in B10.
  fld_in B11.
  split; [|split].
  - unfold tx_inv in *. rewrite B1, B2, B3, B4, B5, B6, B10.
    destruct Htx as (H1 & H2 & H3 & H4 & H5 & H6 & H7 & H8 & H9 & H10 & H11).
    repeat (split; [assumption|]). split; [|assumption].
    subst st'. eapply phase_ok_closed; eassumption.
  - unfold tm_inv in *. rewrite B2, B5, B7. destruct Ht as [->|(e & ->)]; [exact Htm|].
    split; discriminate.
  - eapply kinv_fields; [exact Hk|exact B11|exact B8|]. rewrite B1, Hst. discriminate.
Qed.

(* the state relation a continuing transition can establish *)
Definition st_next (st : tcp_state) (c : control) (aof : bool) (st' : tcp_state) : Prop :=
  (st' = st /\ match st with Listen | SynSent | SynReceived => False | _ => True end /\
   (aof = true -> cls st <> 2)) \/
  (st_rel st c aof st' /\ c <> CRst).

Lemma phase_ok_after_ack : forall g st len fw d al (aof : bool) c st' fw' (some : bool),
  phase_ok g st len fw -> st <> Closed ->
  0 <= d ->
  (g_phase g <> PSyn -> al = (if aof then d - 1 else d)) ->
  (g_phase g = PSyn -> al = 0 /\ aof = false /\ d <= 1) ->
  (aof = true -> g_phase g = PData /\ g_fin g = true /\ d = len + 1 /\ cls st = 2) ->
  (aof = false -> match g_phase g with PSyn => True | PData => d <= len | PFinAcked => d = 0 end) ->
  (some = true -> fw' = false /\ (g_phase g = PSyn -> d = 1)) ->
  (some = false -> fw' = fw /\ d = 0 /\ (st = Listen \/ st = SynSent)) ->
  0 <= g_flight g <= g_budget g len ->
  st_next st c aof st' ->
  phase_ok (g_ack g d al aof) st' (len - al) fw'.
Proof.
  intros g st len fw d al aof c st' fw' some Hph Hncl Hd Hal Hsyn Haof Hnaof Hsome Hnone Hf Hnext.
  assert (Hn : (st' = st /\ match st with Listen | SynSent | SynReceived => False | _ => True end /\
                (aof = true -> cls st <> 2)) \/
               (aof = true /\ cls st = 2 /\ (cls st' = 3 \/ st' = Closed)) \/
               (cls st' = cls st /\ 1 <= cls st <= 3 /\ (st' = FinWait1 -> st = FinWait1) /\
                (aof = true -> cls st <> 2)) \/
               (st = SynReceived /\ cls st' = 1)).
  { destruct Hnext as [X|(Hr & Hc)]; [left; exact X|right].
    unfold st_rel in Hr. destruct c; try congruence; exact Hr. }
  clear Hnext.
  unfold phase_ok in *. unfold g_ack. cbn [g_phase g_acked g_fin g_flight].
  unfold g_budget in Hf.
  destruct (g_phase g) eqn:P.
  - (* PSyn *)
    destruct (Hsyn eq_refl) as (-> & -> & D1). destruct Hph as (A0 & L0 & Hst).
    destruct some.
    + destruct (Hsome eq_refl) as (-> & D). specialize (D eq_refl). subst d.
      destruct (Z.eqb_spec 1 0); [lia|].
      destruct st; try tauto; try congruence;
      destruct st'; cbn [cls] in Hn;
      try (exfalso; intuition (subst; cbn [cls] in *; try lia; try congruence; try discriminate); fail);
      intuition (subst; cbn [cls] in *; try lia; try congruence).
    + destruct (Hnone eq_refl) as (-> & -> & Hls). destruct (Z.eqb_spec 0 0); [|lia].
      split; [lia|]. split; [lia|].
      destruct Hls as [->| ->]; destruct st'; cbn [cls] in Hn;
      try (exfalso; intuition (subst; cbn [cls] in *; try lia; try congruence; try discriminate); fail);
      intuition (subst; cbn [cls] in *; try lia; try congruence).
  - (* PData *)
    specialize (Hal ltac:(discriminate)).
    assert (Hs : some = true).
    { destruct some; [reflexivity|]. destruct (Hnone eq_refl) as (_ & _ & [->| ->]); tauto. }
    destruct (Hsome Hs) as (-> & _).
    destruct aof; cbv iota in Hal.
    + destruct (Haof eq_refl) as (_ & G & D & C).
      split; [lia|]. split; [rewrite G in Hf; cbn [b2z] in Hf; lia|]. split; [exact G|].
      destruct st'; cbn [cls] in Hn; try exact I;
      exfalso; intuition (subst; cbn [cls] in *; try lia; try congruence; try discriminate).
    + destruct st; try tauto; try congruence;
      destruct st'; cbn [cls] in Hn;
      try (exfalso; intuition (subst; cbn [cls] in *; try lia; try congruence; try discriminate); fail);
      intuition (subst; cbn [cls] in *; try lia; try congruence).
  - (* PFinAcked *)
    specialize (Hal ltac:(discriminate)). destruct Hph as (L0 & F0 & G0 & Hst).
    destruct aof; [destruct (Haof eq_refl) as (X & _); discriminate|]. cbv iota in Hal.
    specialize (Hnaof eq_refl). cbv iota in Hnaof. subst d al.
    split; [lia|]. split; [lia|]. split; [exact G0|].
    destruct st; try tauto; try congruence;
    destruct st'; cbn [cls] in Hn; try exact I;
    exfalso; intuition (subst; cbn [cls] in *; try lia; try congruence; try discriminate).
Qed.

(* a socket at the start of an epoch: empty transmit buffer, SND.UNA = SND.NXT = ISS *)
Definition g_fresh (isn : Z) : ghost := mkGhost isn [] 0 PSyn 0 false 0.

Lemma fresh_inv : forall s isn,
  rb_wf (s_tx_buffer s) -> rb_cap (s_tx_buffer s) <= 2 ^ 30 -> rb_len (s_tx_buffer s) = 0 ->
  0 <= isn < 2 ^ 32 -> s_local_seq_no s = isn -> s_remote_last_seq s = isn ->
  0 <= s_remote_win_len s <= max_window ->
  match s_remote_win_scale s with Some v => 0 <= v <= 14 | None => True end ->
  match s_state s with Closed | Listen | SynSent | SynReceived => True | _ => False end ->
  (timer_is_zero_window_probe (s_timer s) = true -> s_remote_win_len s = 0) ->
  rt_max_seq_sent (s_rtte s) = None -> s_remote_mss s = tcp_DEFAULT_MSS ->
  inv (g_fresh isn) s.
Proof.
  intros s isn Hwf Hcap Hlen Hisn Hl Hr Hw Hs Hst Hz Hmx Hms. split; [|split].
  - unfold tx_inv, tx_inv_f, g_fresh, g_una, g_budget, phase_ok, g_W.
    cbn [g_iss g_stream g_acked g_phase g_flight g_fin g_hw]. rewrite Hlen, Hl, Hr.
    split; [exact Hwf|]. split; [exact Hcap|]. split; [lia|]. split; [reflexivity|].
    split; [intros; lia|]. split; [rewrite Z.add_0_r; symmetry; apply sq_small; exact Hisn|].
    split; [rewrite !Z.add_0_r; symmetry; apply sq_small; exact Hisn|].
    split; [lia|]. split; [lia|].
    split; [destruct (s_state s); tauto|]. split; [exact Hw|exact Hs].
  - unfold tm_inv, tm_inv_f, g_fresh. cbn [g_flight]. split; [exact Hz|auto].
  - unfold kinv, g_fresh. cbn [g_hw g_stream g_fin g_iss b2z]. rewrite Hmx, Hms, l_len_nil.
    split; [lia|]. split; [exact I|]. split; [unfold tcp_MIN_REMOTE_MSS, tcp_DEFAULT_MSS; lia|auto].
Qed.

Lemma new_epoch_fresh : forall g isn, ghost_rel g (g_fresh isn).
Proof. intros. right. unfold new_epoch, g_fresh. cbn. auto. Qed.

Lemma reset_fields : forall s,
  s_tx_buffer (tcp_reset s) = rb_clear (s_tx_buffer s) /\
  s_local_seq_no (tcp_reset s) = 0 /\ s_remote_last_seq (tcp_reset s) = 0 /\
  s_remote_win_len (tcp_reset s) = 0 /\ s_remote_win_scale (tcp_reset s) = None /\
  s_timer (tcp_reset s) = TIdle None /\ s_state (tcp_reset s) = Closed.
Proof. intros. unfold tcp_reset, timer_new. fld. repeat split; reflexivity. Qed.

Lemma reset_fields2 : forall s,
  rt_max_seq_sent (s_rtte (tcp_reset s)) = None /\ s_remote_mss (tcp_reset s) = tcp_DEFAULT_MSS.
Proof. intros. unfold tcp_reset, rtte_default. fld. split; reflexivity. Qed.

