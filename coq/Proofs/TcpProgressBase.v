(* C02 (liveness half), layer 0: what "the network eventually stops losing packets, and each
   interface is polled when a frame arrives and no later than poll_at" means for an event list of
   the two-endpoint system model Model/TcpNet.v, and the induction principle every progress theorem
   of Proofs/TcpProgress*.v is proved with.

   FAIR SUFFIX.  [fair_run Dt Da fa st evs]: the event list [evs], executed from system state [st],
   is a *fair* continuation.  [fa] is bookkeeping that exists only in this definition (it is not
   part of the system state and no socket reads it):
     fa_dl x   for every segment in flight towards x (same indexing as the channel), [Some t]: it has
               not been delivered since it was emitted / since the fair suffix began and must be
               delivered before x's clock passes t; [None]: it has been delivered (it may be delivered
               again any number of times - duplicates stay possible - or never again);
     fa_rd x   [Some t]: x's receive buffer holds octets and the application must call recv (for at
               least one octet) before x's clock passes t.
   The conditions, event by event ([fair_ev]):
     (i)   no [NDrop] / [NCorrupt] any more; a new segment must be delivered within [Dt] of its
           emission, a segment already in flight when the suffix begins within [Dt] of that moment
           ([fa_init]); delivery order and duplication remain arbitrary;
     (ii)  "polled when a frame arrives and no later than poll_at": [NDeliver] IS the ingress half of
           Interface::poll (process_tcp, reply included); the egress half is forced by the clock rule:
           time may advance by d > 0 only if every socket's [tcp_poll_at] is Ingress or an instant
           >= now + d ([poll_permits]) - so a socket that reports Now, or a deadline that has been
           reached, is dispatched ([NPoll x true]) before any time passes;  the device accepts the
           frame ([NPoll _ false] does not occur);
     (iii) time is monotone ([NTick d], d >= 0); "unbounded" is how the theorems are phrased:
           "for every fair run whose clock advances by more than W, the goal was reached at some
           point of the run" - a run in which time stops (infinitely many events at one instant)
           satisfies no such premise;
     (iv)  the receiving application keeps reading: a non-empty receive buffer is read (recv of
           n > 0 octets) within [Da], again and again while it stays non-empty;
     (v)   [opts_ok]: no user timeout and no keep-alive configured (set_timeout / set_keep_alive with
           generous values only add closing/probing events); the congestion window is not a
           hypothesis: the model has NoControl and Reno, both proved >= 1 MSS (C02_reno_window_ge_mss).
   Sends, receives, closes of the applications, random-number events and duplicate deliveries are
   unrestricted.

   INDUCTION PRINCIPLE ([fair_leads]).  If J is kept by every fair step unless the step reaches Q,
   and J implies that x's clock has not passed T (because J contains an obligation - a poll deadline,
   a delivery deadline - that forbids the clock to run past T), then every fair run from a J-state
   whose clock does pass T goes through a Q-state, and the rest of the run is again fair.
   No socket-level reasoning in this file. *)
From SV Require Import Lib.Base Gen.Consts.
From SV Require Import Model.Seq32 Model.Assembler Model.TcpBuf Model.TcpTypes Model.Tcp Model.TcpNet.
From SV Require Import Proofs.TcpNetBase.

(* ---------------------------------------------------------------------------------------- *)
(* clocks, channels, poll_at                                                                 *)
(* ---------------------------------------------------------------------------------------- *)
Definition side_eqb (x y : side) : bool :=
  match x, y with SA, SA | SB, SB => true | _, _ => false end.

Lemma side_eqb_refl x : side_eqb x x = true.
Proof. destruct x; reflexivity. Qed.
Lemma side_eqb_other x : side_eqb x (side_other x) = false.
Proof. destruct x; reflexivity. Qed.
Lemma side_eqb_other' x : side_eqb (side_other x) x = false.
Proof. destruct x; reflexivity. Qed.
Lemma side_eqb_true x y : side_eqb x y = true -> x = y.
Proof. destruct x, y; cbn; congruence. Qed.

Definition net_now (st : net) (x : side) : Z := cx_now (ep_cx (net_get st x)).
Definition net_sock (st : net) (x : side) : socket := ep_sock (net_get st x).
(* the segments in flight towards x *)
Definition chan_to (st : net) (x : side) : list packet := ep_out (net_get st (side_other x)).
Definition net_poll_at (st : net) (x : side) : outcome poll_at :=
  tcp_poll_at (ep_cx (net_get st x)) (ep_sock (net_get st x)).

(* the clock may advance by d as far as socket x is concerned *)
Definition poll_permits (st : net) (x : side) (d : Z) : Prop :=
  match net_poll_at st x with
  | Ok PIngress => True
  | Ok (PTime t) => net_now st x + d <= t
  | _ => False
  end.

(* (v) *)
Definition opts_ok (st : net) : Prop :=
  forall x, s_timeout (net_sock st x) = None /\ s_keep_alive (net_sock st x) = None.

(* ---------------------------------------------------------------------------------------- *)
(* the bookkeeping of the fairness definition                                                *)
(* ---------------------------------------------------------------------------------------- *)
Record fair_aux := mkFA {
  fa_dl : side -> list (option Z);
  fa_rd : side -> option Z
}.

Fixpoint mark_delivered (i : nat) (l : list (option Z)) : list (option Z) :=
  match l, i with
  | [], _ => []
  | _ :: r, O => None :: r
  | x :: r, S i' => x :: mark_delivered i' r
  end.

(* new segments get the deadline t *)
Definition pad_dl (l : list (option Z)) (n : nat) (t : Z) : list (option Z) :=
  l ++ repeat (Some t) (n - length l).

Definition rx_len (st : net) (x : side) : Z := rb_len (s_rx_buffer (net_sock st x)).

Definition fa_after (Dt Da : Z) (fa : fair_aux) (ev : net_event) (st' : net) : fair_aux :=
  mkFA
    (fun x =>
       pad_dl (match ev with
               | NDeliver to i => if side_eqb to x then mark_delivered i (fa_dl fa x) else fa_dl fa x
               | _ => fa_dl fa x
               end)
              (length (chan_to st' x)) (net_now st' x + Dt))
    (fun x =>
       if rx_len st' x =? 0 then None else
       let fresh := Some (net_now st' x + Da) in
       let keep := match fa_rd fa x with Some t => Some t | None => fresh end in
       match ev with
       | NRecv y n => if side_eqb y x && (0 <? n) then fresh else keep
       | _ => keep
       end).

Definition fa_init (Dt Da : Z) (st : net) : fair_aux :=
  mkFA (fun x => repeat (Some (net_now st x + Dt)) (length (chan_to st x)))
       (fun x => if rx_len st x =? 0 then None else Some (net_now st x + Da)).

(* the clock may advance by d: nothing is due before now + d *)
Definition tick_permitted (fa : fair_aux) (st : net) (d : Z) : Prop :=
  forall x,
    poll_permits st x d /\
    (forall t, In (Some t) (fa_dl fa x) -> net_now st x + d <= t) /\
    (forall t, fa_rd fa x = Some t -> net_now st x + d <= t).

Definition fair_ev (fa : fair_aux) (st : net) (ev : net_event) : Prop :=
  match ev with
  | NDrop _ _ | NCorrupt _ _ => False
  | NPoll _ ok => ok = true
  | NTick d => 0 <= d /\ (0 < d -> tick_permitted fa st d)
  | _ => True
  end.

Fixpoint fair_run (Dt Da : Z) (fa : fair_aux) (st : net) (evs : list net_event) : Prop :=
  match evs with
  | [] => True
  | ev :: rest =>
      fair_ev fa st ev /\
      match net_step st ev with
      | Ok st' => fair_run Dt Da (fa_after Dt Da fa ev st') st' rest
      | _ => True
      end
  end.

(* THE HYPOTHESIS OF THE PROGRESS THEOREMS: from [st] on the run [evs] is fair (network delay bound
   Dt, application read delay bound Da, both in microseconds of virtual time) *)
Definition fair_schedule (Dt Da : Z) (st : net) (evs : list net_event) : Prop :=
  0 <= Dt /\ 0 <= Da /\ opts_ok st /\ fair_run Dt Da (fa_init Dt Da st) st evs.

(* ---------------------------------------------------------------------------------------- *)
(* one step of the system, by kind                                                           *)
(* ---------------------------------------------------------------------------------------- *)
(* the socket event a system event is for endpoint x *)
Definition sock_event (st : net) (ev : net_event) (x : side) (ev0 : event) : Prop :=
  match ev with
  | NDeliver to i =>
      to = x /\ exists p, nth_error (chan_to st x) i = Some p /\
                          ev0 = EvSegment (fst p) (wire_parse (snd p))
  | NPoll y ok => y = x /\ ev0 = EvDispatch ok
  | NSend y data => y = x /\ ev0 = EvSend data
  | NRecv y n => y = x /\ ev0 = EvRecv (Z.max 0 n)
  | NClose y => y = x /\ ev0 = EvClose
  | _ => False
  end.

Definition tick_net (st : net) (d : Z) : net :=
  mkNet (ep_set_cx (n_a st) (cx_tick (ep_cx (n_a st)) d))
        (ep_set_cx (n_b st) (cx_tick (ep_cx (n_b st)) d)).

Inductive step_kind (st : net) (ev : net_event) (st' : net) : Prop :=
| SK_sock (x : side) (ev0 : event) (e' : endpoint) :
    sock_event st ev x ev0 -> ep_step (net_get st x) ev0 = Ok e' -> st' = net_set st x e' ->
    step_kind st ev st'
| SK_nop (to : side) (i : nat) :
    ev = NDeliver to i -> nth_error (chan_to st to) i = None -> st' = st -> step_kind st ev st'
| SK_tick (d : Z) : ev = NTick d -> st' = tick_net st d -> step_kind st ev st'
| SK_rand (x : side) (isn ts : Z) :
    ev = NRand x isn ts ->
    st' = net_set st x (ep_set_cx (net_get st x) (cx_rand (ep_cx (net_get st x)) isn ts)) ->
    step_kind st ev st'
| SK_drop (to : side) (i : nat) :
    (ev = NDrop to i \/ ev = NCorrupt to i) -> step_kind st ev st'.

Lemma net_step_kind st ev st' : net_step st ev = Ok st' -> step_kind st ev st'.
Proof.
  intros H. unfold net_step in H.
  assert (Hb : forall x ev0,
            sock_event st ev x ev0 ->
            (do e <- ep_step (net_get st x) ev0; Ok (net_set st x e)) = Ok st' -> step_kind st ev st').
  { intros x ev0 Hse Hb. destruct (ep_step (net_get st x) ev0) as [e|err|] eqn:He; cbn [obind] in Hb;
      try discriminate. inversion Hb; subst. eapply SK_sock; [exact Hse | exact He | reflexivity]. }
  destruct ev.
  - destruct (nth_error (ep_out (net_get st (side_other to))) i) as [p|] eqn:En.
    + eapply Hb; [|exact H]. cbn. split; [reflexivity|]. exists p. split; [exact En | reflexivity].
    + inversion H; subst. eapply SK_nop; [reflexivity | exact En | reflexivity].
  - eapply SK_drop. left. reflexivity.
  - eapply SK_drop. right. reflexivity.
  - inversion H; subst. eapply SK_tick; reflexivity.
  - inversion H; subst. eapply SK_rand; reflexivity.
  - eapply Hb; [|exact H]. cbn. auto.
  - eapply Hb; [|exact H]. cbn. auto.
  - eapply Hb; [|exact H]. cbn. auto.
  - eapply Hb; [|exact H]. cbn. auto.
Qed.

(* ---------------------------------------------------------------------------------------- *)
(* what a step does to clocks and channels                                                   *)
(* ---------------------------------------------------------------------------------------- *)
Lemma ep_step_cx e ev e' : ep_step e ev = Ok e' -> ep_cx e' = ep_cx e.
Proof. intros H. destruct (ep_step_spec _ _ _ H) as (s' & out & tags & _ & _ & Hc & _). exact Hc. Qed.

Lemma ep_step_out e ev e' : ep_step e ev = Ok e' -> exists l, ep_out e' = ep_out e ++ l /\ (length l <= 1)%nat.
Proof.
  intros H. destruct (ep_step_spec _ _ _ H) as (s' & out & tags & _ & _ & _ & Ho & _).
  exists (opt_list (wire_out out)). split; [exact Ho|]. destruct (wire_out out); cbn; lia.
Qed.

(* the clock of x after a step: unchanged, or advanced by the tick *)
Lemma net_step_now st ev st' x :
  net_step st ev = Ok st' ->
  net_now st' x = net_now st x + match ev with NTick d => Z.max 0 d | _ => 0 end.
Proof.
  intros H. destruct (net_step_kind _ _ _ H) as [y ev0 e' Hse He -> | to i -> _ -> | d -> -> | y isn ts -> -> | to i Hd].
  - assert (Hz : match ev with NTick d => Z.max 0 d | _ => 0 end = 0)
      by (destruct ev; try reflexivity; destruct Hse).
    rewrite Hz, Z.add_0_r. unfold net_now. destruct (side_cases y x) as [-> | ->].
    + rewrite net_get_set_same, (ep_step_cx _ _ _ He). reflexivity.
    + rewrite net_get_set_other. reflexivity.
  - lia.
  - unfold net_now, tick_net. destruct x; cbn; reflexivity.
  - rewrite Z.add_0_r. unfold net_now. destruct (side_cases y x) as [-> | ->].
    + rewrite net_get_set_same. reflexivity.
    + rewrite net_get_set_other. reflexivity.
  - unfold net_step in H. destruct Hd as [-> | ->]; inversion H; subst; rewrite Z.add_0_r;
      unfold net_now; destruct (side_cases (side_other to) x) as [E | E]; rewrite E;
      rewrite ?net_get_set_same, ?net_get_set_other; reflexivity.
Qed.

Lemma net_step_now_mono st ev st' x : net_step st ev = Ok st' -> net_now st x <= net_now st' x.
Proof. intros H. rewrite (net_step_now _ _ _ x H). destruct ev; lia. Qed.

Lemma net_run_now_mono evs : forall st st' x, net_run st evs = Ok st' -> net_now st x <= net_now st' x.
Proof.
  induction evs as [|ev r IH]; intros st st' x H; cbn [net_run] in H.
  - inversion H; subst. lia.
  - apply obind_ok in H. destruct H as (st1 & H1 & H2).
    pose proof (net_step_now_mono _ _ _ x H1). specialize (IH _ _ x H2). lia.
Qed.

(* both clocks advance by the same amount *)
Lemma net_step_skew st ev st' :
  net_step st ev = Ok st' -> net_now st' SB - net_now st' SA = net_now st SB - net_now st SA.
Proof. intros H. rewrite (net_step_now _ _ _ SA H), (net_step_now _ _ _ SB H). lia. Qed.

Lemma net_run_skew evs : forall st st',
  net_run st evs = Ok st' -> net_now st' SB - net_now st' SA = net_now st SB - net_now st SA.
Proof.
  induction evs as [|ev r IH]; intros st st' H; cbn [net_run] in H.
  - inversion H; subst. reflexivity.
  - apply obind_ok in H. destruct H as (st1 & H1 & H2).
    rewrite (IH _ _ H2). exact (net_step_skew _ _ _ H1).
Qed.

(* in a fair step the channels only grow *)
Lemma fair_step_chan fa st ev st' x :
  fair_ev fa st ev -> net_step st ev = Ok st' ->
  exists l, chan_to st' x = chan_to st x ++ l /\ (length l <= 1)%nat.
Proof.
  intros Hf H. destruct (net_step_kind _ _ _ H) as [y ev0 e' Hse He -> | to i -> _ -> | d -> -> | y isn ts -> -> | to i Hd].
  - unfold chan_to. destruct (side_cases y (side_other x)) as [-> | ->].
    + rewrite net_get_set_same. apply (ep_step_out _ _ _ He).
    + rewrite net_get_set_other. exists []. rewrite app_nil_r. split; [reflexivity | cbn; lia].
  - exists []. rewrite app_nil_r. split; [reflexivity | cbn; lia].
  - exists []. rewrite app_nil_r. split; [|cbn; lia]. unfold chan_to, tick_net. destruct x; reflexivity.
  - exists []. rewrite app_nil_r. split; [|cbn; lia]. unfold chan_to.
    destruct (side_cases y (side_other x)) as [-> | ->].
    + rewrite net_get_set_same. reflexivity.
    + rewrite net_get_set_other. reflexivity.
  - exfalso. destruct Hd as [-> | ->]; exact Hf.
Qed.

Lemma nth_error_app_l {A} (l l' : list A) i a : nth_error l i = Some a -> nth_error (l ++ l') i = Some a.
Proof. intros H. rewrite nth_error_app1; [exact H|]. apply nth_error_Some. congruence. Qed.

(* a segment in flight stays in flight, at the same index *)
Lemma fair_step_nth fa st ev st' x i p :
  fair_ev fa st ev -> net_step st ev = Ok st' ->
  nth_error (chan_to st x) i = Some p -> nth_error (chan_to st' x) i = Some p.
Proof.
  intros Hf H Hn. destruct (fair_step_chan _ _ _ _ x Hf H) as (l & -> & _).
  apply nth_error_app_l. exact Hn.
Qed.

(* ---------------------------------------------------------------------------------------- *)
(* delivery deadlines                                                                        *)
(* ---------------------------------------------------------------------------------------- *)
Lemma mark_delivered_length i l : length (mark_delivered i l) = length l.
Proof. revert i. induction l as [|a l IH]; intros [|i]; cbn; auto. Qed.

Lemma mark_delivered_nth_same i l : (i < length l)%nat -> nth_error (mark_delivered i l) i = Some None.
Proof. revert i. induction l as [|a l IH]; intros [|i] H; cbn in *; try lia; [reflexivity | apply IH; lia]. Qed.

Lemma mark_delivered_nth_other i j l : i <> j -> nth_error (mark_delivered i l) j = nth_error l j.
Proof.
  revert i j. induction l as [|a l IH]; intros [|i] [|j] H; cbn; try reflexivity; try congruence.
  apply IH. congruence.
Qed.

Lemma mark_delivered_in i l t : In (Some t) (mark_delivered i l) -> In (Some t) l.
Proof.
  revert i. induction l as [|a l IH]; intros [|i] H; cbn in *; try contradiction.
  - destruct H as [H|H]; [discriminate | right; exact H].
  - destruct H as [H|H]; [left; exact H | right; eapply IH; exact H].
Qed.

Lemma pad_dl_nth_old l n t i : (i < length l)%nat -> nth_error (pad_dl l n t) i = nth_error l i.
Proof. intros H. unfold pad_dl. apply nth_error_app1. exact H. Qed.

Lemma pad_dl_length l n t : (length l <= n)%nat -> length (pad_dl l n t) = n.
Proof. intros H. unfold pad_dl. rewrite app_length, repeat_length. lia. Qed.

Lemma pad_dl_in l n t u : In (Some u) (pad_dl l n t) -> In (Some u) l \/ u = t.
Proof.
  unfold pad_dl. intros H. apply in_app_or in H. destruct H as [H|H]; [left; exact H|].
  apply repeat_spec in H. right. congruence.
Qed.

(* the deadline list is as long as the channel *)
Definition dl_len_sync (fa : fair_aux) (st : net) : Prop :=
  forall x, length (fa_dl fa x) = length (chan_to st x).

Lemma fa_init_len_sync Dt Da st : dl_len_sync (fa_init Dt Da st) st.
Proof. intros x. cbn. apply repeat_length. Qed.

Lemma fa_after_len_sync Dt Da fa st ev st' :
  dl_len_sync fa st -> fair_ev fa st ev -> net_step st ev = Ok st' -> dl_len_sync (fa_after Dt Da fa ev st') st'.
Proof.
  intros Hs Hf H x. cbn [fa_after fa_dl]. apply pad_dl_length.
  destruct (fair_step_chan _ _ _ _ x Hf H) as (l & -> & _). rewrite app_length.
  assert (Hm : forall l0 : list (option Z), length l0 = length (fa_dl fa x) -> (length l0 <= length (chan_to st x) + length l)%nat)
    by (intros l0 ->; rewrite (Hs x); lia).
  destruct ev; try (apply Hm; reflexivity).
  destruct (side_eqb to x); apply Hm; [apply mark_delivered_length | reflexivity].
Qed.

(* a pending delivery deadline stays (same index, same deadline) until that index is delivered *)
Lemma fa_after_dl_keep Dt Da fa ev st' x i t :
  nth_error (fa_dl fa x) i = Some (Some t) ->
  (forall to, ev = NDeliver to i -> to <> x) ->
  nth_error (fa_dl (fa_after Dt Da fa ev st') x) i = Some (Some t).
Proof.
  intros Hn Hne. cbn [fa_after fa_dl].
  assert (Hi : (i < length (fa_dl fa x))%nat) by (apply nth_error_Some; congruence).
  destruct ev; try (rewrite pad_dl_nth_old by exact Hi; exact Hn).
  destruct (side_eqb to x) eqn:E.
  - apply side_eqb_true in E. subst to.
    destruct (Nat.eq_dec i0 i) as [-> | Hd]; [exfalso; eapply Hne; reflexivity|].
    rewrite pad_dl_nth_old by (rewrite mark_delivered_length; exact Hi).
    rewrite mark_delivered_nth_other by exact Hd. exact Hn.
  - rewrite pad_dl_nth_old by exact Hi. exact Hn.
Qed.

(* a pending delivery deadline bounds the clock: time cannot pass it *)
Lemma tick_respects_dl fa st d x i t :
  fair_ev fa st (NTick d) -> nth_error (fa_dl fa x) i = Some (Some t) ->
  net_now st x <= t -> net_now st x + Z.max 0 d <= t.
Proof.
  intros (Hd & Hp) Hn Hle. destruct (Z.eq_dec d 0) as [-> | Hz]; [lia|].
  destruct (Hp ltac:(lia) x) as (_ & Hdl & _). specialize (Hdl t (nth_error_In _ _ Hn)). lia.
Qed.

(* a segment emitted in this step gets a deadline Dt ahead *)
Lemma fa_after_dl_new_len Dt Da fa st ev st' x i :
  dl_len_sync fa st -> (length (chan_to st x) <= i < length (chan_to st' x))%nat ->
  nth_error (fa_dl (fa_after Dt Da fa ev st') x) i = Some (Some (net_now st' x + Dt)).
Proof.
  intros Hs (H1 & H2). cbn [fa_after fa_dl]. unfold pad_dl.
  set (l0 := match ev with
             | NDeliver to i0 => if side_eqb to x then mark_delivered i0 (fa_dl fa x) else fa_dl fa x
             | _ => fa_dl fa x
             end).
  assert (Hl : length l0 = length (chan_to st x)).
  { unfold l0. rewrite <- (Hs x). destruct ev; try reflexivity.
    destruct (side_eqb to x); [apply mark_delivered_length | reflexivity]. }
  rewrite nth_error_app2 by lia.
  rewrite nth_error_repeat; [reflexivity | lia].
Qed.

(* ---------------------------------------------------------------------------------------- *)
(* runs                                                                                      *)
(* ---------------------------------------------------------------------------------------- *)
Lemma net_run_app evs1 : forall evs2 st st1 st2,
  net_run st evs1 = Ok st1 -> net_run st1 evs2 = Ok st2 -> net_run st (evs1 ++ evs2) = Ok st2.
Proof.
  induction evs1 as [|ev r IH]; intros evs2 st st1 st2 H1 H2; cbn [net_run app] in *.
  - inversion H1; subst. exact H2.
  - apply obind_ok in H1. destruct H1 as (st' & Hs & Hr). rewrite Hs. cbn [obind].
    eapply IH; eassumption.
Qed.

(* THE INDUCTION PRINCIPLE.  [x]: whose clock is watched; [T]: the instant the obligation inside J
   forbids the clock to pass. *)
Theorem fair_leads (Dt Da : Z) (J Q : fair_aux -> net -> Prop) (x : side) (T : Z) :
  (forall fa st, J fa st -> net_now st x <= T) ->
  (forall fa st ev st', J fa st -> fair_ev fa st ev -> net_step st ev = Ok st' ->
     Q (fa_after Dt Da fa ev st') st' \/ J (fa_after Dt Da fa ev st') st') ->
  forall evs fa st st',
    J fa st -> fair_run Dt Da fa st evs -> net_run st evs = Ok st' -> T < net_now st' x ->
    exists pre post fa1 st1,
      evs = pre ++ post /\ net_run st pre = Ok st1 /\ net_run st1 post = Ok st' /\
      fair_run Dt Da fa1 st1 post /\ Q fa1 st1.
Proof.
  intros Hclock Hstep. induction evs as [|ev r IH]; intros fa st st' HJ Hfair Hrun Hpast.
  - cbn [net_run] in Hrun. inversion Hrun; subst. specialize (Hclock _ _ HJ). lia.
  - cbn [net_run] in Hrun. apply obind_ok in Hrun. destruct Hrun as (st1 & Hs & Hr).
    cbn [fair_run] in Hfair. destruct Hfair as (Hev & Hrest). rewrite Hs in Hrest.
    destruct (Hstep _ _ _ _ HJ Hev Hs) as [HQ | HJ'].
    + exists [ev], r, (fa_after Dt Da fa ev st1), st1.
      split; [reflexivity|]. split; [cbn [net_run]; rewrite Hs; reflexivity|].
      split; [exact Hr|]. split; [exact Hrest | exact HQ].
    + destruct (IH _ _ _ HJ' Hrest Hr Hpast) as (pre & post & fa1 & st2 & -> & Hp1 & Hp2 & Hf & HQ).
      exists (ev :: pre), post, fa1, st2.
      split; [reflexivity|]. split; [cbn [net_run]; rewrite Hs; exact Hp1|].
      split; [exact Hp2|]. split; [exact Hf | exact HQ].
Qed.

(* the same with a run-wide hypothesis [R] (facts assumed of every state of this run, e.g. safety
   invariants proved elsewhere): [run_all R st evs] = R holds in every state the run goes through *)
Fixpoint run_all (R : net -> Prop) (st : net) (evs : list net_event) : Prop :=
  R st /\
  match evs with
  | [] => True
  | ev :: rest => match net_step st ev with Ok st' => run_all R st' rest | _ => True end
  end.

Lemma run_all_here R st evs : run_all R st evs -> R st.
Proof. destruct evs; cbn; tauto. Qed.

Theorem fair_leads_under (Dt Da : Z) (R : net -> Prop) (J Q : fair_aux -> net -> Prop) (x : side) (T : Z) :
  (forall fa st, J fa st -> net_now st x <= T) ->
  (forall fa st ev st', R st -> R st' -> J fa st -> fair_ev fa st ev -> net_step st ev = Ok st' ->
     Q (fa_after Dt Da fa ev st') st' \/ J (fa_after Dt Da fa ev st') st') ->
  forall evs fa st st',
    J fa st -> run_all R st evs -> fair_run Dt Da fa st evs -> net_run st evs = Ok st' ->
    T < net_now st' x ->
    exists pre post fa1 st1,
      evs = pre ++ post /\ net_run st pre = Ok st1 /\ net_run st1 post = Ok st' /\
      run_all R st1 post /\ fair_run Dt Da fa1 st1 post /\ Q fa1 st1.
Proof.
  intros Hclock Hstep. induction evs as [|ev r IH]; intros fa st st' HJ HR Hfair Hrun Hpast.
  - cbn [net_run] in Hrun. inversion Hrun; subst. specialize (Hclock _ _ HJ). lia.
  - cbn [net_run] in Hrun. apply obind_ok in Hrun. destruct Hrun as (st1 & Hs & Hr).
    cbn [fair_run] in Hfair. destruct Hfair as (Hev & Hrest). rewrite Hs in Hrest.
    cbn [run_all] in HR. destruct HR as (HR0 & HR1). rewrite Hs in HR1.
    destruct (Hstep _ _ _ _ HR0 (run_all_here _ _ _ HR1) HJ Hev Hs) as [HQ | HJ'].
    + exists [ev], r, (fa_after Dt Da fa ev st1), st1.
      split; [reflexivity|]. split; [cbn [net_run]; rewrite Hs; reflexivity|].
      split; [exact Hr|]. split; [exact HR1|]. split; [exact Hrest | exact HQ].
    + destruct (IH _ _ _ HJ' HR1 Hrest Hr Hpast) as (pre & post & fa1 & st2 & -> & Hp1 & Hp2 & HR2 & Hf & HQ).
      exists (ev :: pre), post, fa1, st2.
      split; [reflexivity|]. split; [cbn [net_run]; rewrite Hs; exact Hp1|].
      split; [exact Hp2|]. split; [exact HR2|]. split; [exact Hf | exact HQ].
Qed.

(* the same, also reporting the step by which the goal was reached: it starts in a J-state *)
Theorem fair_leads_under_last (Dt Da : Z) (R : net -> Prop) (J Q : fair_aux -> net -> Prop) (x : side) (T : Z) :
  (forall fa st, J fa st -> net_now st x <= T) ->
  (forall fa st ev st', R st -> R st' -> J fa st -> fair_ev fa st ev -> net_step st ev = Ok st' ->
     Q (fa_after Dt Da fa ev st') st' \/ J (fa_after Dt Da fa ev st') st') ->
  forall evs fa st st',
    J fa st -> run_all R st evs -> fair_run Dt Da fa st evs -> net_run st evs = Ok st' ->
    T < net_now st' x ->
    exists pre post fa1 st1,
      evs = pre ++ post /\ net_run st pre = Ok st1 /\ net_run st1 post = Ok st' /\
      run_all R st1 post /\ fair_run Dt Da fa1 st1 post /\ Q fa1 st1 /\
      exists fa0 st0 ev0, J fa0 st0 /\ R st0 /\ fair_ev fa0 st0 ev0 /\ net_step st0 ev0 = Ok st1 /\
                          fa1 = fa_after Dt Da fa0 ev0 st1.
Proof.
  intros Hclock Hstep. induction evs as [|ev r IH]; intros fa st st' HJ HR Hfair Hrun Hpast.
  - cbn [net_run] in Hrun. inversion Hrun; subst. specialize (Hclock _ _ HJ). lia.
  - cbn [net_run] in Hrun. apply obind_ok in Hrun. destruct Hrun as (st1 & Hs & Hr).
    cbn [fair_run] in Hfair. destruct Hfair as (Hev & Hrest). rewrite Hs in Hrest.
    cbn [run_all] in HR. destruct HR as (HR0 & HR1). rewrite Hs in HR1.
    destruct (Hstep _ _ _ _ HR0 (run_all_here _ _ _ HR1) HJ Hev Hs) as [HQ | HJ'].
    + exists [ev], r, (fa_after Dt Da fa ev st1), st1.
      split; [reflexivity|]. split; [cbn [net_run]; rewrite Hs; reflexivity|].
      split; [exact Hr|]. split; [exact HR1|]. split; [exact Hrest|]. split; [exact HQ|].
      exists fa, st, ev. auto.
    + destruct (IH _ _ _ HJ' HR1 Hrest Hr Hpast) as (pre & post & fa1 & st2 & -> & Hp1 & Hp2 & HR2 & Hf & HQ & Hlast).
      exists (ev :: pre), post, fa1, st2.
      split; [reflexivity|]. split; [cbn [net_run]; rewrite Hs; exact Hp1|].
      split; [exact Hp2|]. split; [exact HR2|]. split; [exact Hf|]. split; [exact HQ | exact Hlast].
Qed.

(* ---------------------------------------------------------------------------------------- *)
(* application-read deadlines                                                                *)
(* ---------------------------------------------------------------------------------------- *)
(* the read deadline exists exactly while the receive buffer is non-empty, and is at most Da ahead *)
Definition rd_sync (Da : Z) (fa : fair_aux) (st : net) : Prop :=
  forall x, match fa_rd fa x with
            | Some t => rx_len st x <> 0 /\ t <= net_now st x + Da
            | None => rx_len st x = 0
            end.

Lemma fa_init_rd Dt Da st : rd_sync Da (fa_init Dt Da st) st.
Proof.
  intros x. cbn [fa_init fa_rd]. destruct (Z.eqb_spec (rx_len st x) 0) as [E | E]; [exact E | split; [exact E | lia]].
Qed.

Lemma fa_after_rd Dt Da fa st ev st' :
  rd_sync Da fa st -> net_step st ev = Ok st' -> rd_sync Da (fa_after Dt Da fa ev st') st'.
Proof.
  intros Hs H x. specialize (Hs x). cbn [fa_after fa_rd].
  pose proof (net_step_now_mono _ _ _ x H) as Hm.
  destruct (Z.eqb_spec (rx_len st' x) 0) as [E | E]; [exact E|].
  assert (Hkeep : match match fa_rd fa x with Some t => Some t | None => Some (net_now st' x + Da) end with
                  | Some t => rx_len st' x <> 0 /\ t <= net_now st' x + Da
                  | None => rx_len st' x = 0
                  end).
  { destruct (fa_rd fa x) as [t|]; [destruct Hs as (_ & Ht); split; [exact E | lia] | split; [exact E | lia]]. }
  destruct ev; try exact Hkeep.
  destruct (side_eqb x0 x && (0 <? n)); [split; [exact E | lia] | exact Hkeep].
Qed.

(* the bookkeeping is in step with the system state: one delivery deadline per in-flight segment,
   a read deadline exactly while the receive buffer is non-empty *)
Definition dl_sync (Da : Z) (fa : fair_aux) (st : net) : Prop := dl_len_sync fa st /\ rd_sync Da fa st.

Lemma fa_init_sync Dt Da st : dl_sync Da (fa_init Dt Da st) st.
Proof. split; [apply fa_init_len_sync | apply fa_init_rd]. Qed.

Lemma fa_after_sync Dt Da fa st ev st' :
  dl_sync Da fa st -> fair_ev fa st ev -> net_step st ev = Ok st' -> dl_sync Da (fa_after Dt Da fa ev st') st'.
Proof.
  intros (H1 & H2) Hfe H. split; [exact (fa_after_len_sync Dt Da _ _ _ _ H1 Hfe H) | exact (fa_after_rd Dt Da _ _ _ _ H2 H)].
Qed.

Lemma fa_after_dl_new Dt Da fa st ev st' x i :
  dl_sync Da fa st -> (length (chan_to st x) <= i < length (chan_to st' x))%nat ->
  nth_error (fa_dl (fa_after Dt Da fa ev st') x) i = Some (Some (net_now st' x + Dt)).
Proof. intros (H1 & _). apply fa_after_dl_new_len. exact H1. Qed.
