(* Additions to Proofs/WireBaseProofs.v (that file is frozen: other properties' proof files depend
   on it and are expensive to rebuild). *)
From SV Require Export Lib.Base Model.WireBase Proofs.WireBaseProofs.

(* like [nopanic], but first reduces binds whose head is already a value *)
Ltac nopanic2 :=
  repeat first
    [ assumption
    | discriminate
    | progress cbn [obind]
    | apply obind_nopanic; [ | intros ? ? ]
    | match goal with |- (if ?c then _ else _) <> Panic => destruct c end
    | match goal with |- wb_guard ?c <> Panic => destruct c; cbn [wb_guard] end
    | match goal with |- (match ?x with _ => _ end) <> Panic => destruct x end ].

(* ---------- operations behind a symbolic prefix: (h ++ t) with positions >= |h| ---------- *)

Lemma wb_set_u8_app_r h t i v : blen h <= i ->
  wb_set_u8 (h ++ t) i v = omap (fun x => h ++ x) (wb_set_u8 t (i - blen h) v).
Proof.
  intros Hi. unfold wb_set_u8. rewrite blen_app. pose proof (blen_nonneg h).
  destruct (i - blen h <? blen t) eqn:E.
  - bsplit. zbool. cbn [omap]. f_equal.
    rewrite firstn_app, skipn_app.
    rewrite firstn_all2 by (unfold blen in *; lia).
    rewrite (skipn_all2 h) by (unfold blen in *; lia). cbn [app].
    replace (Z.to_nat i - length h)%nat with (Z.to_nat (i - blen h)) by (unfold blen in *; lia).
    replace (Z.to_nat (i + 1) - length h)%nat with (Z.to_nat (i - blen h + 1)) by (unfold blen in *; lia).
    rewrite <- app_assoc. reflexivity.
  - bsplit. zbool.
    destruct (0 <=? i - blen h); reflexivity.
Qed.

Lemma wb_put_be_app_r h t lo hi enc : blen h <= lo ->
  wb_put_be (h ++ t) lo hi enc = omap (fun x => h ++ x) (wb_put_be t (lo - blen h) (hi - blen h) enc).
Proof.
  intros Hlo. unfold wb_put_be. rewrite blen_app. pose proof (blen_nonneg h). pose proof (blen_nonneg enc).
  destruct ((0 <=? lo - blen h) && (lo - blen h <=? hi - blen h) && (hi - blen h <=? blen t) &&
            (blen enc <=? hi - blen h - (lo - blen h))) eqn:E.
  - bsplit. zbool. cbn [omap]. f_equal.
    rewrite firstn_app, skipn_app.
    rewrite firstn_all2 by (unfold blen in *; lia).
    rewrite (skipn_all2 h) by (unfold blen in *; lia). cbn [app].
    replace (Z.to_nat lo - length h)%nat with (Z.to_nat (lo - blen h)) by (unfold blen in *; lia).
    replace (Z.to_nat (lo + blen enc) - length h)%nat with (Z.to_nat (lo - blen h + blen enc))
      by (unfold blen in *; lia).
    rewrite <- app_assoc. reflexivity.
  - destruct ((0 <=? lo) && (lo <=? hi) && (hi <=? blen h + blen t) && (blen enc <=? hi - lo)) eqn:E2;
      [|reflexivity].
    exfalso. bsplit.
    assert ((0 <=? lo - blen h) && (lo - blen h <=? hi - blen h) && (hi - blen h <=? blen t) &&
            (blen enc <=? hi - blen h - (lo - blen h)) = true) by (zbool; reflexivity).
    congruence.
Qed.

Lemma wb_set_slice_app_r h t lo hi v : blen h <= lo ->
  wb_set_slice (h ++ t) lo hi v = omap (fun x => h ++ x) (wb_set_slice t (lo - blen h) (hi - blen h) v).
Proof.
  intros Hlo. unfold wb_set_slice. rewrite blen_app. pose proof (blen_nonneg h).
  destruct ((0 <=? lo - blen h) && (lo - blen h <=? hi - blen h) && (hi - blen h <=? blen t) &&
            (blen v =? hi - blen h - (lo - blen h))) eqn:E.
  - bsplit. zbool. cbn [omap]. f_equal.
    rewrite firstn_app, skipn_app.
    rewrite firstn_all2 by (unfold blen in *; lia).
    rewrite (skipn_all2 h) by (unfold blen in *; lia). cbn [app].
    replace (Z.to_nat lo - length h)%nat with (Z.to_nat (lo - blen h)) by (unfold blen in *; lia).
    replace (Z.to_nat hi - length h)%nat with (Z.to_nat (hi - blen h)) by (unfold blen in *; lia).
    rewrite <- app_assoc. reflexivity.
  - destruct ((0 <=? lo) && (lo <=? hi) && (hi <=? blen h + blen t) && (blen v =? hi - lo)) eqn:E2;
      [|reflexivity].
    exfalso. bsplit.
    assert ((0 <=? lo - blen h) && (lo - blen h <=? hi - blen h) && (hi - blen h <=? blen t) &&
            (blen v =? hi - blen h - (lo - blen h)) = true) by (zbool; reflexivity).
    congruence.
Qed.

(* a write that stays inside the prefix although the addressed sub-slice extends beyond it
   (`write_u16(&mut buffer[2..], v)`) *)
Lemma wb_put_be_prefix h t lo hi enc : 0 <= lo -> lo + blen enc <= blen h -> blen h <= hi ->
  hi <= blen h + blen t ->
  wb_put_be (h ++ t) lo hi enc = omap (fun x => x ++ t) (wb_put_be h lo (blen h) enc).
Proof.
  intros H0 H1 H2 H3. unfold wb_put_be. rewrite blen_app. pose proof (blen_nonneg enc). zbool. cbn [omap].
  f_equal. rewrite firstn_app_l, skipn_app_l by (unfold blen in *; lia). rewrite <- !app_assoc. reflexivity.
Qed.
