(* Additions to Proofs/WireBaseProofs.v (that file is frozen: other properties' proof files depend
   on it and are expensive to rebuild). *)
From SV Require Export Lib.Base Model.WireBase Proofs.WireBaseProofs.

(* like [nopanic], but first reduces binds whose head is already a value *)
Ltac nopanic2 :=
  repeat first
    [ assumption
    | discriminate
    | progress cbn [obind]
    | apply obind_nopanic; [ | intros ? ? ]
    | match goal with |- (if ?c then _ else _) <> Panic => destruct c end
    | match goal with |- wb_guard ?c <> Panic => destruct c; cbn [wb_guard] end
    | match goal with |- (match ?x with _ => _ end) <> Panic => destruct x end ].
