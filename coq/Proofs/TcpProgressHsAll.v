(* C02 (liveness half): THE HANDSHAKE COMPLETES AFTER A FAULT PREFIX that leaves the client in SYN-SENT.
   From net_init, after ANY prefix of the one-way workload (the SYN or the SYN|ACK lost, duplicated, late) in whose
   last state A is still in SYN-SENT, on every fair schedule along which the window B advertises in SYN-RECEIVED
   is open: the client leg with retransmissions (Proofs/TcpProgressHsRtx.v) ends in the [entry] state of the last
   leg (Proofs/TcpProgressHsLive2.v) because no delayed-ACK timer runs at a SYN-SENT socket in any state of the
   run ([andw], threaded from net_init); the last leg needs no retransmission since nothing is lost any more.
   handshake_completes_after_loss: both ESTABLISHED (regime invariant reg) before A's clock has advanced by
   more than RTTE_MAX_RTO + 3 Dt; the rest of the run is fair again. *)
From SV Require Import Lib.Base Gen.Consts.
From SV Require Import Model.Seq32 Model.Assembler Model.TcpBuf Model.TcpTypes Model.Tcp Model.TcpNet.
From SV Require Import Proofs.TcpSendBase Proofs.TcpLiveBase Proofs.TcpLiveProofs Proofs.TcpLiveMore
  Proofs.TcpLiveProgress.
From SV Require Import Proofs.TcpNetBase.
From SV Require Proofs.TcpNetInv Proofs.TcpRecvBase.
From SV Require Import Proofs.TcpProgressBase Proofs.TcpProgressFrame Proofs.TcpProgressCtl Proofs.TcpProgressRecv
  Proofs.TcpProgressSend Proofs.TcpProgressNet Proofs.TcpProgressData Proofs.TcpProgressAck
  Proofs.TcpProgressAll Proofs.TcpProgressSafe Proofs.TcpProgressHs Proofs.TcpProgressHsD Proofs.TcpProgressHs2
  Proofs.TcpProgressHsNet Proofs.TcpProgressHsInit Proofs.TcpProgressHsLive Proofs.TcpProgressHsLive2
  Proofs.TcpProgressHsRtx.

Section All.
Variables isn Dack Dt Da : Z.

Notation sa st := (net_sock st SA).
Notation sb st := (net_sock st SB).

(* no delayed-ACK timer runs at A while it is in SYN-SENT *)
Definition andw (st : net) : Prop := s_state (sa st) = SynSent -> ndw (sa st).

(* one step of the script (drops and duplicates included): A stays in SYN-SENT without a delayed-ACK timer, or
   the step ends in the entry state of the last leg *)
Lemma ndw_A_script st ev st' :
  HSR isn Dack st -> HSR isn Dack st' -> s_state (sa st) = SynSent -> ndw (sa st) ->
  script_ev SA ev -> net_step st ev = Ok st' ->
  (s_state (sa st') = SynSent /\ ndw (sa st')) \/ entry isn st'.
Proof.
  intros HR HR' Hsa Hnd Hsc H.
  destruct HR as ([HP | HG] & HV & HN & Ho); [|exfalso; exact (reg_not_synsent _ _ HG Hsa)].
  destruct (ph_tup _ _ _ HP) as (tA & T1 & T2 & _).
  destruct (step_cases st ev st' SA H) as [(ev0 & e' & Hse & He & ->) | E]; [|left; rewrite E; split; assumption].
  destruct ev as [to i | to i | to i | d | z i1 t1 | z ok | z data | z n | z]; cbn [sock_event] in Hse; try contradiction.
  - destruct Hse as (_ & q & Hn & ->). right.
    exact (A_entry isn Dack st q e' HN Ho HV HP Hsa Hnd (nth_error_In _ _ Hn) He).
  - destruct Hse as (_ & ->). left.
    destruct (disp_eff isn st SA ok e' tA HN Ho HV (or_introl Hsa) T1 T2 He) as (D1 & _).
    destruct (ep_step_spec _ _ _ He) as (s' & out & tags & Hs & Hk & _).
    cbn [tcp_step] in Hs. apply obind_ok in Hs. destruct Hs as (((s1 & res) & tg) & Hd & Hs).
    assert (E1 : s1 = s') by (inversion Hs; reflexivity). subst s1.
    destruct (dispatch_aux _ _ _ _ _ _ Hd) as (_ & Hdl).
    unfold net_sock, ndw in *. cbn [net_set net_get n_a] in *. rewrite D1. split; [exact Hsa|].
    rewrite Hk. destruct Hdl as [-> | ->]; [exact Hnd | exact I].
  - destruct Hse as (_ & ->). left.
    destruct (quiet_eff st SA (EvSend data) e' ltac:(left; eexists; reflexivity) He) as ((Q1 & _ & _ & _ & _ & _ & _ & _ & Q9) & _).
    unfold net_sock, ndw in *. cbn [net_set net_get n_a] in *. rewrite Q1, Q9. split; assumption.
  - destruct Hse as (_ & ->). left.
    destruct (quiet_eff st SA (EvRecv (Z.max 0 n)) e' ltac:(right; eexists; reflexivity) He) as ((Q1 & _ & _ & _ & _ & _ & _ & _ & Q9) & _).
    unfold net_sock, ndw in *. cbn [net_set net_get n_a] in *. rewrite Q1, Q9. split; assumption.
Qed.

Lemma andw_step st ev st' :
  HSR isn Dack st -> HSR isn Dack st' -> inv_at SA st -> inv_at SA st' ->
  script_ev SA ev -> net_step st ev = Ok st' -> andw st -> andw st'.
Proof.
  intros HR HR' HI HI' Hsc H Hnd Hsa'.
  pose proof HR as (Hinv & HV & HN & Ho).
  (* A was SYN-SENT before the step *)
  assert (Hsa : s_state (sa st) = SynSent).
  { destruct Hinv as [HP | HG].
    - destruct (ph_phase _ _ _ HP) as [(A & _) | (A & _)]; [exact A|]. exfalso.
      destruct (step_cases st ev st' SA H) as [(ev0 & e' & Hse & He & ->) | E].
      + destruct (hs_A_est isn Dack st ev ev0 e' HN Ho HV HP A Hsc Hse He) as (_ & X).
        unfold net_sock in Hsa'. rewrite net_get_set_same in Hsa'. congruence.
      + rewrite E in Hsa'. congruence.
    - exfalso. pose proof (reg_step SA Dack st ev st' HN Ho HG HI HI' Hsc H) as HG'.
      rewrite (rg_est _ _ _ HG' SA) in Hsa'. discriminate. }
  destruct (ndw_A_script st ev st' HR HR' Hsa (Hnd Hsa) Hsc H) as [(_ & X) | (X & _)]; [exact X|].
  rewrite X in Hsa'. discriminate.
Qed.

(* the client leg with retransmissions, "no delayed-ACK timer" carried along; its goal is the entry state *)
Definition J1r (T0 dk : Z) (fa : fair_aux) (st : net) : Prop :=
  Jr Dt Da T0 dk fa st /\ ndw (sa st).
Definition Q1r (T0 dk : Z) (fa : fair_aux) (st : net) : Prop :=
  entry isn st /\ dl_sync Da fa st /\ net_now st SB - net_now st SA = dk /\ net_now st SA <= T0 + 2 * Dt.

Lemma J1r_clock T0 dk fa st : 0 <= Dt -> J1r T0 dk fa st -> net_now st SA <= T0 + 2 * Dt.
Proof. intros HDt (HJ & _). exact (Jr_clock Dt Da T0 dk fa st HDt HJ). Qed.

Lemma J1r_step T0 dk fa st ev st' :
  0 <= Dt -> R2 isn Dack st -> R2 isn Dack st' -> J1r T0 dk fa st -> fair_ev fa st ev -> net_step st ev = Ok st' ->
  Q1r T0 dk (fa_after Dt Da fa ev st') st' \/ J1r T0 dk (fa_after Dt Da fa ev st') st'.
Proof.
  intros HDt (HR & _) (HR' & _) (HJ & Hnd) Hfe H.
  pose proof HJ as (Hsy & Hdk & Hsa & _).
  destruct (ndw_A_step isn Dack fa st ev st' HR HR' Hsa Hnd Hfe H) as [(Hsa' & Hnd') | Hent].
  - right. destruct (Jr_step isn Dack Dt Da T0 dk fa st ev st' HDt HR HR' HJ Hfe H) as [HQ | HJ'].
    + unfold Qh in HQ. rewrite Hsa' in HQ. discriminate.
    + split; assumption.
  - left. split; [exact Hent|].
    split; [exact (fa_after_sync Dt Da _ _ _ _ Hsy Hfe H)|].
    split; [rewrite (net_step_skew _ _ _ H); exact Hdk|].
    pose proof (Jr_clock Dt Da T0 dk fa st HDt HJ) as Hc.
    rewrite (net_step_now _ _ _ SA H). destruct ev; try lia.
    (* a tick does not change A's state *)
    exfalso. pose proof (net_step_tick _ _ _ H) as E. subst st'.
    destruct Hent as (X0 & _). assert (Es : net_sock (tick_net st d) SA = net_sock st SA) by reflexivity.
    rewrite Es, Hsa in X0. discriminate.
Qed.

End All.

(* ---------------------------------------------------------------------------------------- *)
(* runs from net_init                                                                        *)
(* ---------------------------------------------------------------------------------------- *)
Module NVA := TcpNetInv.

Section Run.
Variables Dt Da Dack : Z.
Variables ca cb : ep_config.
Variable st0 : net.
Hypothesis Hstart : start_ok Dack ca cb st0.

Let isn := cx_isn (ep_cx (n_a st0)).

Lemma andw_run : forall evs pre st1 st,
  net_run st0 pre = Ok st1 -> hs_inv isn Dack st1 -> opts_ok st1 -> andw st1 ->
  Forall (script_ev SA) evs -> net_run st1 evs = Ok st -> NVA.small st -> andw st.
Proof.
  induction evs as [|ev rest IH]; intros pre st1 st Hpre Hinv Ho Hpl Hsc Hrun Hsm.
  - cbn [net_run] in Hrun. inversion Hrun; subst st. exact Hpl.
  - cbn [net_run] in Hrun. apply obind_ok in Hrun. destruct Hrun as (st2 & Hs & Hrun).
    inversion Hsc as [|? ? Hsc1 Hsc2]; subst.
    pose proof (net_run_mono _ _ _ Hrun) as Hm2. pose proof (net_step_mono _ _ _ Hs) as Hm1.
    assert (Hsm2 : NVA.small st2) by exact (NVA.small_mono _ _ Hm2 Hsm).
    assert (Hsm1 : NVA.small st1) by exact (NVA.small_mono _ _ Hm1 Hsm2).
    assert (Hpre2 : net_run st0 (pre ++ [ev]) = Ok st2).
    { apply (net_run_app pre [ev] st0 st1 st2 Hpre). cbn [net_run]. rewrite Hs. reflexivity. }
    destruct (hs_run Dack ca cb st0 Hstart [ev] pre st1 st2 Hpre Hinv Ho ltac:(constructor; [exact Hsc1 | constructor])
                ltac:(cbn [net_run]; rewrite Hs; reflexivity) Hsm2) as (Hinv2 & Ho2).
    destruct (hsr_here Dack ca cb st0 Hstart pre st1 Hpre Hinv Ho Hsm1) as (HR1 & HI1).
    destruct (hsr_here Dack ca cb st0 Hstart (pre ++ [ev]) st2 Hpre2 Hinv2 Ho2 Hsm2) as (HR2 & HI2).
    pose proof (andw_step isn Dack st1 ev st2 HR1 HR2 HI1 HI2 Hsc1 Hs Hpl) as Hpl2.
    exact (IH (pre ++ [ev]) st2 st Hpre2 Hinv2 Ho2 Hpl2 Hsc2 Hrun Hsm).
Qed.

(* THE HANDSHAKE COMPLETES AFTER A FAULT PREFIX (client still in SYN-SENT).  From net_init, after ANY prefix of
   the one-way workload that leaves A in SYN-SENT, on every fair schedule along which the window B advertises
   in SYN-RECEIVED is open: both ESTABLISHED - and the regime invariant holds - before A's clock has advanced
   by more than RTTE_MAX_RTO + 3 Dt; the rest of the run is again fair. *)
Theorem handshake_completes_after_loss : forall pre st evs st',
  net_run st0 pre = Ok st -> Forall (script_ev SA) pre ->
  s_state (net_sock st SA) = SynSent ->
  fair_schedule Dt Da st evs -> Forall (app_ev SA) evs -> net_run st evs = Ok st' -> NVA.small st' ->
  run_all syn_win_open st evs ->
  net_now st SA + max_rto_us + 3 * Dt < net_now st' SA ->
  exists p1 p2 fa1 st1,
    evs = p1 ++ p2 /\ net_run st p1 = Ok st1 /\ net_run st1 p2 = Ok st' /\
    reg SA Dack st1 /\ reach st1 /\ opts_ok st1 /\
    dl_sync Da fa1 st1 /\ fair_run Dt Da fa1 st1 p2 /\
    net_now st1 SA <= net_now st SA + max_rto_us + 3 * Dt.
Proof.
  intros pre st evs st' Hpre Hscp Hsa (HDt & HDa & Ho & Hfair) Happ Hrun Hsm Hwin Hlate.
  pose proof Hstart as (Hi & Hst0 & Ga & Gb & Pa & Pb & Haddr & Hdel).
  destruct (hs_init ca cb st0 isn Dack Hi Hst0 Pa Pb Haddr Hdel) as (HP0 & Ho0).
  pose proof (net_run_mono _ _ _ Hrun) as Hm.
  assert (Hsm0 : NVA.small st) by exact (NVA.small_mono _ _ Hm Hsm).
  destruct (hs_run Dack ca cb st0 Hstart pre [] st0 st eq_refl (or_introl HP0) Ho0 Hscp Hpre Hsm0) as (Hinv & _).
  assert (Hpl0 : hs_plain st0).
  { intros _. destruct Pa as (_ & Ka). destruct Pb as (_ & Kb). exact (init_plain ca cb st0 Hi Ka Kb). }
  pose proof (hs_plain_run Dack ca cb st0 Hstart pre [] st0 st eq_refl (or_introl HP0) Ho0 Hpl0 Hscp Hpre Hsm0) as Hpl.
  assert (Hnd0 : andw st0).
  { intros _. destruct Pa as (_ & Ka). unfold ndw. rewrite (init_adt ca cb st0 Hi Hst0 Ka). exact I. }
  pose proof (andw_run pre [] st0 st eq_refl (or_introl HP0) Ho0 Hnd0 Hscp Hpre Hsm0 Hsa) as Hnd.
  destruct (hsr_here Dack ca cb st0 Hstart pre st Hpre Hinv Ho Hsm0) as (HR & _).
  pose proof (script_of_fair SA Dt Da evs _ st st' Hfair Hrun Happ) as Hsce.
  pose proof (hsr_run_all Dack ca cb st0 Hstart evs pre st st' Hpre Hinv Ho Hsce Hrun Hsm) as HRall.
  pose proof (run_all_and _ _ evs st HRall Hwin) as HR2. change (run_all (R2 isn Dack) st evs) in HR2.
  destruct HR as ([HP | HG] & HV & HN & _); [|exfalso; exact (reg_not_synsent Dack _ HG Hsa)].
  destruct (Hpl Hsa) as (PA & PB).
  set (dk := net_now st SB - net_now st SA).
  set (T0 := net_now st SA + max_rto_us).
  pose proof max_rto_us_pos as Hmr.
  assert (Hwill : forall z, (s_state (net_sock st z) = SynSent \/ s_state (net_sock st z) = SynReceived) ->
                            plain (s_timer (net_sock st z)) -> forall T, net_now st z + max_rto_us <= T -> will_tx st z T).
  { intros z Hz Hp T HT. split; [lia|].
    pose proof (NI_live st z HN) as Il.
    destruct Hp as [Hidle | (e & He)].
    - left. assert (L : st_live (s_state (net_sock st z)) = true) by (destruct Hz as [-> | ->]; reflexivity).
      destruct (li_K _ Il L) as [Ha | (Hfl & _)]; [|exact Hfl].
      destruct (s_timer (net_sock st z)); discriminate.
    - right. exists e. split; [exact He|].
      destruct (HN z) as (_ & _ & (_ & Hb) & _). unfold net_sock in He. rewrite He in Hb. unfold timer_bounded in Hb. unfold net_now in HT. lia. }
  assert (HJ : J1r Dt Da T0 dk (fa_init Dt Da st) st).
  { split; [|exact Hnd].
    split; [apply fa_init_sync|]. split; [reflexivity|]. split; [exact Hsa|].
    destruct (ph_phase _ _ _ HP) as [(_ & [B | B]) | (A & _)]; [| |congruence].
    - left. split; [exact B|]. apply Hwill; [left; exact Hsa | exact PA | unfold T0; lia].
    - right. right. left. split; [exact B|]. apply Hwill; [right; exact B | exact PB | unfold T0, dk; lia]. }
  destruct (fair_leads_under_last Dt Da (R2 isn Dack) (J1r Dt Da T0 dk) (Q1r isn Dt Da T0 dk) SA (T0 + 2 * Dt)
              (fun fa s HJ0 => J1r_clock Dt Da _ _ fa s HDt HJ0)
              (fun fa s ev s1 HR0 HR1 HJ0 Hfe Hs => J1r_step isn Dack Dt Da _ _ fa s ev s1 HDt HR0 HR1 HJ0 Hfe Hs)
              evs _ st st' HJ HR2 Hfair Hrun ltac:(unfold T0; lia))
    as (pre1 & post1 & fa1 & st1 & E1 & Hp1 & Hp2 & HR2' & Hf1 & HQ1 & _).
  destruct HQ1 as ((Hea & Heb & Hnd1 & Hfr & Hod) & Hsy1 & Hdk1 & Hc1).
  assert (HJg : Jg isn Dt Da (T0 + 2 * Dt) dk fa1 st1).
  { split; [exact Hsy1|]. split; [exact Hdk1|]. split; [exact Hea|]. split; [exact Heb|]. left. auto. }
  destruct (fair_leads_under_last Dt Da (R2 isn Dack) (Jg isn Dt Da (T0 + 2 * Dt) dk) (Qg Dack) SA (T0 + 2 * Dt + Dt)
              (fun fa s HJ0 => Jg_clock isn Dt Da _ _ fa s HDt HJ0)
              (fun fa s ev s2 HR0 HR1 HJ0 Hfe Hs => Jg_step isn Dack Dt Da _ _ fa s ev s2 HDt HR0 HR1 HJ0 Hfe Hs)
              post1 _ st1 st' HJg HR2' Hf1 Hp2 ltac:(unfold T0 in *; lia))
    as (pre2 & post2 & fa2 & st2 & E2 & Hq1 & Hq2 & HR2'' & Hf2 & HQ2 & (fa0 & stp & ev0 & HJp & HRp & Hfep & Hsp & Efa)).
  exists (pre1 ++ pre2), post2, fa2, st2.
  split; [rewrite E1, E2, app_assoc; reflexivity|].
  split; [eapply net_run_app; eassumption|]. split; [exact Hq2|]. split; [exact HQ2|].
  split.
  { exists ca, cb, st0, (pre ++ pre1 ++ pre2). split; [exact Ga|]. split; [exact Gb|]. split; [exact Hi|].
    eapply net_run_app; [exact Hpre|]. eapply net_run_app; eassumption. }
  pose proof (run_all_here _ _ _ HR2'') as ((_ & _ & _ & Ho2) & _).
  split; [exact Ho2|].
  split.
  { subst fa2. destruct HJp as (Hsyp & _). exact (fa_after_sync Dt Da _ _ _ _ Hsyp Hfep Hsp). }
  split; [exact Hf2|].
  pose proof (Jg_clock isn Dt Da _ _ fa0 stp HDt HJp) as Hcp.
  rewrite (net_step_now _ _ _ SA Hsp). destruct ev0; try (unfold T0 in *; lia).
  exfalso. pose proof (net_step_tick _ _ _ Hsp) as E. subst st2.
  destruct HJp as (_ & _ & _ & X0 & _). pose proof (rg_est _ _ _ HQ2 SB) as X1.
  assert (Es : net_sock (tick_net stp d) SB = net_sock stp SB) by reflexivity. rewrite Es, X0 in X1. discriminate.
Qed.

End Run.
