(* C04, layer 1: arithmetic of the RFC 9293 segment acceptability test and of the trimming to the
   window (tcp_segment_in_window / tcp_process_window of Model/Tcp.v), transferred from 32-bit
   sequence numbers to unbounded integers.

   Setting: the window is [WS, WS+W) with 0 <= W <= 2^30; the segment starts [d] after the window
   start, where d is ANY signed 32-bit distance (-2^31 <= d < 2^31: every 32-bit sequence number
   is covered), and has [len] <= 2^30 octets.  Result: if the test accepts the segment then it
   really overlaps the window (so |d| is small and all modular comparisons of the trimming agree
   with the integers), the accepted part lies inside [WS, WS+W) and is the sub-slice of the
   payload at the right offset. *)
From SV Require Import Lib.Base Gen.Consts.
From SV Require Import Model.Seq32 Model.Assembler Model.TcpBuf Model.TcpTypes Model.Tcp.
From SV Require Import Proofs.TcpRecvBase.

Definition p30 : Z := 1073741824.
Lemma p30_val : 2 ^ 30 = p30. Proof. reflexivity. Qed.

(* what "the acceptability test says yes" means over the integers *)
Definition in_window_Z (W d len : Z) : Prop :=
  (len = 0 /\ ((W = 0 /\ d = 0) \/ 0 <= d < W)) \/
  (0 < len /\ 0 < W /\ (0 <= d < W \/ 0 < d + len <= W)).

Lemma segment_in_window_sound WS W d len :
  0 <= W <= p30 -> 0 <= len <= p30 -> -2147483648 <= d < 2147483648 ->
  fst (tcp_segment_in_window (seq_norm WS) (seq_norm (WS + W)) (seq_norm (WS + d))
                             (seq_norm (WS + d + len))) = true ->
  in_window_Z W d len.
Proof.
  unfold p30. intros HW Hlen Hd.
  unfold tcp_segment_in_window.
  rewrite seq_subn_norm.
  rewrite (seq_eqb_norm (WS + d) (WS + d + len)) by lia.
  rewrite (seq_eqb_norm (WS + d + len) (WS - 1)) by lia.
  rewrite (seq_eqb_norm WS (WS + W)) by lia.
  rewrite (seq_eqb_norm WS (WS + d)) by lia.
  unfold seq_le, seq_lt. rewrite !seq_sdiff_signed.
  replace (WS - (WS + d)) with (- d) by lia.
  replace (WS + d - (WS + W)) with (d - W) by lia.
  replace (WS - (WS + d + len)) with (- (d + len)) by lia.
  replace (WS + d + len - (WS + W)) with (d + len - W) by lia.
  unfold in_window_Z.
  destruct (Z.eqb_spec (WS + d) (WS + d + len)); destruct (Z.eqb_spec (WS + d + len) (WS - 1));
  destruct (Z.eqb_spec WS (WS + W)); destruct (Z.eqb_spec WS (WS + d)); cbn [andb fst];
  try discriminate; intros H.
  all: repeat match type of H with context [if ?c then _ else _] => destruct c eqn:? end;
       cbn [fst] in H; try discriminate H.
  all: unfold signed32 in *.
  all: try (left; lia).
  all: right; lia.
Qed.

Lemma in_window_Z_near W d len :
  0 <= W -> 0 <= len -> in_window_Z W d len ->
  - len <= d /\ d <= W /\ Z.max 0 d <= Z.min W (d + len).
Proof. unfold in_window_Z. lia. Qed.

(* the trimmed payload and its offset, over the integers *)
Definition trim_lo (d : Z) : Z := Z.max 0 (- d).                 (* first kept index of the payload *)
Definition trim_off (d : Z) : Z := Z.max 0 d.                     (* offset in the window *)
Definition trim_len (W d len : Z) : Z := Z.min W (d + len) - Z.max 0 d.

Lemma process_window_spec cx s ip r WS W d :
  tcp_window_start s = seq_norm WS -> tcp_window_end s = seq_norm (WS + W) ->
  r_seq_number r = seq_norm (WS + d) ->
  0 <= W <= p30 -> l_len (r_payload r) <= p30 -> -2147483648 <= d < 2147483648 ->
  match s_state s with Listen | SynSent => False | _ => True end ->
  let len := l_len (r_payload r) in
  match tcp_process_window cx s ip r with
  | Ok (Cont tg (s2, payload, off)) =>
      in_window_Z W d len /\
      s2 = upd_local_rx_last_seq s (Some (r_seq_number r)) /\
      off = trim_off d /\
      payload = l_slice (trim_lo d) (trim_len W d len) (r_payload r)
  | Ok (Ret tg s' rep) =>
      (s' = s /\ rep = None) \/
      (exists s0, (s0 = s \/ s0 = upd_timer s (timer_set_for_close (cx_now cx))) /\
         ((exists p, tcp_ack_reply cx s0 ip r = (s', p) /\ rep = Some p) \/
          tcp_challenge_ack_reply cx s0 ip r = (s', rep)))
  | Err _ => False
  | Panic => False
  end.
Proof.
  intros Hws Hwe Hseq HW Hlen Hd Hst len.
  pose proof (l_len_nonneg (r_payload r)) as Hl0. fold len in Hl0, Hlen.
  unfold tcp_process_window. rewrite Hws, Hwe, Hseq. rewrite seq_add_norm. fold len.
  destruct (tcp_segment_in_window (seq_norm WS) (seq_norm (WS + W)) (seq_norm (WS + d))
                                  (seq_norm (WS + d + len))) as (inw, tg) eqn:Hinw.
  assert (Hsound : inw = true -> in_window_Z W d len).
  { intros ->. apply (segment_in_window_sound WS W d len); try lia.
    rewrite Hinw. reflexivity. }
  destruct (s_state s) eqn:Est; try contradiction.
  all: destruct inw.
  all: try (
    specialize (Hsound eq_refl);
    pose proof (in_window_Z_near W d len ltac:(lia) Hl0 Hsound) as (Hn1 & Hn2 & Hn3);
    unfold p30 in *;
    rewrite (seq_max_norm WS (WS + d)) by lia;
    rewrite (seq_min_norm (WS + W) (WS + d + len)) by lia;
    rewrite (seq_le_norm (Z.max WS (WS + d)) (Z.min (WS + W) (WS + d + len))) by lia;
    destruct (Z.leb_spec (Z.max WS (WS + d)) (Z.min (WS + W) (WS + d + len))); [|lia];
    cbn [negb];
    rewrite (seq_sub_norm (Z.max WS (WS + d)) (WS + d)) by lia;
    rewrite (seq_sub_norm (Z.min (WS + W) (WS + d + len)) (WS + d)) by lia;
    rewrite (seq_sub_norm (Z.max WS (WS + d)) WS) by lia;
    cbn [obind]; unfold slice_range; fold len;
    destruct (Z.leb_spec (Z.max WS (WS + d) - (WS + d)) (Z.min (WS + W) (WS + d + len) - (WS + d))); [|lia];
    destruct (Z.leb_spec (Z.min (WS + W) (WS + d + len) - (WS + d)) len); [|lia];
    cbn [andb obind];
    split; [exact Hsound|]; split; [reflexivity|]; split; [unfold trim_off; lia|];
    unfold trim_lo, trim_len; f_equal; lia).
  all: cbn [tcp_state_eqb].
  all: destruct (control_eqb (r_control r) CRst); cbv beta iota; [left; split; reflexivity|].
  all: match goal with
       | |- context [if (?a && ?b)%bool then _ else _] => destruct (a && b)%bool
       end.
  all: match goal with
       | |- context [tcp_ack_reply ?cx0 ?s0 ?ip0 ?r0] =>
           destruct (tcp_ack_reply cx0 s0 ip0 r0) as (s', p) eqn:E; cbv beta iota; right;
           exists s0; split; [first [left; reflexivity | right; reflexivity]|];
           left; exists p; split; [exact E | reflexivity]
       | |- context [tcp_challenge_ack_reply ?cx0 ?s0 ?ip0 ?r0] =>
           destruct (tcp_challenge_ack_reply cx0 s0 ip0 r0) as (s', p) eqn:E; cbv beta iota; right;
           exists s0; split; [first [left; reflexivity | right; reflexivity]|];
           right; exact E
       end.
Qed.
(*
  all: match goal with
       | |- context [if (?a && ?b)%bool then _ else _] => destruct (a && b)%bool
       end.
  all: match goal with
       | |- context [tcp_ack_reply cx ?s0 ip r] =>
           destruct (tcp_ack_reply cx s0 ip r) as (s', p) eqn:E;
           exists s0; split; [first [left; reflexivity | right; reflexivity]|];
           left; exists p; split; [exact E | reflexivity]
       | |- context [tcp_challenge_ack_reply cx ?s0 ip r] =>
           destruct (tcp_challenge_ack_reply cx s0 ip r) as (s', p) eqn:E;
           exists s0; split; [first [left; reflexivity | right; reflexivity]|];
           right; exact E
       end.
Qed.*)

(* the FIN survives tcp_process_quash only when the segment starts at or before the window start
   and ends inside the window; then the trimmed payload starts at the window start and reaches
   the end of the segment *)
Lemma process_quash_fin s r WS W d :
  tcp_window_start s = seq_norm WS -> tcp_window_end s = seq_norm (WS + W) ->
  r_seq_number r = seq_norm (WS + d) ->
  0 <= W <= p30 -> l_len (r_payload r) <= p30 ->
  in_window_Z W d (l_len (r_payload r)) ->
  let len := l_len (r_payload r) in
  match tcp_process_quash s r with
  | CFin => r_control r = CFin /\ d <= 0 /\ d + len <= W /\
            trim_off d = 0 /\ trim_len W d len = d + len
  | CNone => True
  | c => r_control r = c
  end.
Proof.
  intros Hws Hwe Hseq HW Hlen Hin len.
  pose proof (l_len_nonneg (r_payload r)) as Hl0. fold len in Hl0, Hlen, Hin.
  pose proof (in_window_Z_near W d len ltac:(lia) Hl0 Hin) as (Hn1 & Hn2 & Hn3).
  unfold tcp_process_quash. rewrite Hws, Hwe, Hseq, seq_add_norm. fold len.
  unfold p30 in *.
  rewrite (seq_lt_norm WS (WS + d)) by lia.
  rewrite (seq_lt_norm (WS + W) (WS + d + len)) by lia.
  destruct (r_control r) eqn:Ec; cbn [quash_psh control_eqb andb]; try reflexivity; try exact I.
  destruct (Z.ltb_spec WS (WS + d)); destruct (Z.ltb_spec (WS + W) (WS + d + len));
    cbn [orb]; try exact I.
  unfold trim_off, trim_len. repeat split; lia.
Qed.
