(* C02 (liveness half): NON-VACUITY of transfer_quiesce_close_from_net_init (Proofs/TcpProgressCl13.v).
   [qregimeb] decides the premise about the states of the quiet part (sound: [run_qregimeb_sound]); the Example is
   ONE reliable schedule from net_init - handshake with the frames delayed by the full Dt, 12 octets through an
   8-octet window that closes in the middle, B's application reads; when the data part ends B still owes its
   window update; the connection becomes quiet; A closes, B closes, TIME-WAIT runs out - on which every premise
   of the theorem holds, so both sockets end CLOSED with everything delivered.
   vm_compute is used only in the concrete Example. *)
From SV Require Import Lib.Base Gen.Consts.
From SV Require Import Model.Seq32 Model.Assembler Model.TcpBuf Model.TcpTypes Model.Tcp Model.TcpNet.
From SV Require Import Proofs.TcpSendBase Proofs.TcpLiveBase Proofs.TcpLiveProofs Proofs.TcpLiveMore
  Proofs.TcpLiveProgress.
From SV Require Import Proofs.TcpNetBase.
From SV Require Proofs.TcpNetInv.
From SV Require Import Proofs.TcpProgressBase Proofs.TcpProgressFrame Proofs.TcpProgressCtl Proofs.TcpProgressRecv
  Proofs.TcpProgressSend Proofs.TcpProgressNet Proofs.TcpProgressData Proofs.TcpProgressAck
  Proofs.TcpProgressAll Proofs.TcpProgressSafe Proofs.TcpProgressHs Proofs.TcpProgressHsD
  Proofs.TcpProgressHsNet Proofs.TcpProgressHsInit Proofs.TcpProgressHsLive Proofs.TcpProgressHsLive2
  Proofs.TcpProgressZwp Proofs.TcpProgressExample Proofs.TcpProgressWitness Proofs.TcpProgressSafeWitness Proofs.TcpProgressZwDup
  Proofs.TcpProgressZw1 Proofs.TcpProgressZw1b Proofs.TcpProgressZw2 Proofs.TcpProgressZw3 Proofs.TcpProgressZwWitness
  Proofs.TcpProgressZw4 Proofs.TcpProgressZw5 Proofs.TcpProgressZw6 Proofs.TcpProgressZwWitness3 Proofs.TcpProgressZw7
  Proofs.TcpProgressCl1 Proofs.TcpProgressCl2 Proofs.TcpProgressCl3 Proofs.TcpProgressCl4 Proofs.TcpProgressCl5
  Proofs.TcpProgressCl6 Proofs.TcpProgressCl7 Proofs.TcpProgressCl8 Proofs.TcpProgressCl9
  Proofs.TcpProgressCl10 Proofs.TcpProgressCl11 Proofs.TcpProgressCl12 Proofs.TcpProgressCl13.

Notation sz st z := (net_sock st z).

Definition drainedb (st : net) : bool :=
  (rb_len (s_tx_buffer (sz st SA)) =? 0) && (read_off (net_get st SB) =? rcv_off (net_get st SB)).

Lemma drainedb_iff st : drainedb st = true <-> drained st.
Proof.
  unfold drainedb, drained. rewrite andb_true_iff, !Z.eqb_eq. tauto.
Qed.

Definition qstatic1b (s : socket) : bool :=
  negb (s_pending_fast_retransmit s) && negb (s_syn_unacked_in_fin_wait s) &&
  timer_eqb (s_timer s) (TIdle None) && (tcp_RTTE_MIN_RTO <=? rt_rto (s_rtte s)) &&
  (s_remote_win_shift s <=? 14) &&
  ((match s_ack_delay_timer s with ADIdle => true | _ => false end) || tcp_ack_to_transmit s) &&
  (tcp_ack_to_transmit s || opt_eqb (s_remote_last_ack s) (Some (tcp_window_start s))).

Definition qstaticb (st : net) : bool :=
  qstatic1b (sz st SA) && qstatic1b (sz st SB) && (0 <? tcp_scaled_window (sz st SB)) &&
  (match s_ack_delay_timer (sz st SA) with ADIdle => true | _ => false end).

Lemma qstatic1b_sound s :
  qstatic1b s = true ->
  s_pending_fast_retransmit s = false /\ s_syn_unacked_in_fin_wait s = false /\
  s_timer s = TIdle None /\ tcp_RTTE_MIN_RTO <= rt_rto (s_rtte s) /\ s_remote_win_shift s <= 14 /\
  (s_ack_delay_timer s = ADIdle \/ tcp_ack_to_transmit s = true) /\
  (tcp_ack_to_transmit s = false -> s_remote_last_ack s = Some (tcp_window_start s)).
Proof.
  unfold qstatic1b. intros H.
  repeat (apply andb_true_iff in H; let X := fresh "B" in destruct H as (H & X)).
  split; [destruct (s_pending_fast_retransmit s); [discriminate | reflexivity]|].
  split; [destruct (s_syn_unacked_in_fin_wait s); [discriminate | reflexivity]|].
  split; [apply timer_eqb_eq; assumption|]. split; [lia|]. split; [lia|].
  split.
  - apply orb_true_iff in B0. destruct B0 as [X0 | X0]; [left; destruct (s_ack_delay_timer s); try discriminate; reflexivity | right; exact X0].
  - intros Hn. rewrite Hn in B. cbn [orb] in B. apply opt_eqb_eq. exact B.
Qed.

Lemma qstaticb_sound st : qstaticb st = true -> qstatic st.
Proof.
  unfold qstaticb, qstatic. intros H.
  apply andb_true_iff in H. destruct H as (H & H4). apply andb_true_iff in H. destruct H as (H & H3).
  apply andb_true_iff in H. destruct H as (H1 & H2).
  split; [intros z; destruct z; apply qstatic1b_sound; assumption|].
  split; [lia|]. destruct (s_ack_delay_timer (sz st SA)); try discriminate. reflexivity.
Qed.

Definition qregimeb (st : net) : bool := zextrab st && (if drainedb st then qstaticb st else true).

Lemma qregimeb_sound st : qregimeb st = true -> qregime st.
Proof.
  unfold qregimeb, qregime. intros H. apply andb_true_iff in H. destruct H as (H1 & H2).
  split; [apply zextrab_sound; exact H1|]. intros HD. apply drainedb_iff in HD. rewrite HD in H2.
  apply qstaticb_sound. exact H2.
Qed.

Fixpoint run_qregimeb (st : net) (evs : list net_event) : bool :=
  qregimeb st &&
  match evs with
  | [] => true
  | ev :: rest => match net_step st ev with Ok st' => run_qregimeb st' rest | _ => true end
  end.

Lemma run_qregimeb_sound evs : forall st, run_qregimeb st evs = true -> run_all qregime st evs.
Proof.
  induction evs as [|ev r IH]; intros st H; cbn [run_qregimeb run_all] in *;
    apply andb_true_iff in H; destruct H as (H1 & H2); (split; [apply qregimeb_sound; exact H1|]); [exact I|].
  destruct (net_step st ev); try exact I. apply IH. exact H2.
Qed.

Definition qevb (ev : net_event) : bool := match ev with NSend _ _ | NClose _ => false | _ => true end.

Lemma qevb_sound evs : forallb qevb evs = true -> Forall qev evs.
Proof.
  induction evs as [|ev r IH]; cbn [forallb]; intros H; [constructor|].
  apply andb_true_iff in H. destruct H as (H1 & H2). constructor; [|exact (IH H2)].
  destruct ev; cbn in *; try exact I; discriminate.
Qed.

(* ---------------------------------------------------------------------------------------- *)
(* the check and its packaging                                                               *)
(* ---------------------------------------------------------------------------------------- *)
Definition tqc_check (ca cb : ep_config) (evsD evsQ evs1 evs2 : list net_event) (Dt Da Dack : Z) (n : nat) : bool :=
  match net_init ca cb with
  | Ok st0 =>
      let all := evsD ++ evsQ ++ NClose SA :: evs1 ++ NClose SB :: evs2 in
      net_started st0 && opts_okb st0 &&
      fair_runb Dt Da (fa_init Dt Da st0) st0 all && once_runb Dt Da (fa_init Dt Da st0) st0 all &&
      (0 <=? Dt) && (0 <=? Da) && (0 <=? Dack) && (2 * Dt <? tcp_RTTE_MIN_RTO * 1000) &&
      forallb (app_evb SA) evsD && run_zregimeb st0 evsD && forallb qevb evsQ && forallb cl_evb evs1 &&
      match net_run st0 evsD with
      | Ok stD =>
          (net_now st0 SA + 3 * Dt <? net_now stD SA) && run_qregimeb stD evsQ &&
          ((l_len (ep_written (net_get stD SA)) - una_off (net_get stD SA)) +
           (l_len (ep_written (net_get stD SA)) - read_off (net_get stD SB)) <=? Z.of_nat n) &&
          match net_run stD evsQ with
          | Ok stQ =>
              (l_len (ep_written (net_get stQ SA)) <? 2 ^ 30) && (l_len (ep_written (net_get stQ SB)) <? 2 ^ 30) &&
              (net_now stD SA + Z.of_nat n * Wz Dt Da + 2 * Dt + Dack <? net_now stQ SA) &&
              match net_step stQ (NClose SA) with
              | Ok stC =>
                  match net_run stC evs1 with
                  | Ok st_m =>
                      (net_now stQ SA + 2 * Dt <? net_now st_m SA) &&
                      match net_run st_m (NClose SB :: evs2) with
                      | Ok st' => net_now st_m SA + 3 * Dt + tcp_CLOSE_DELAY <? net_now st' SA
                      | _ => false
                      end
                  | _ => false
                  end
              | _ => false
              end
          | _ => false
          end
      | _ => false
      end
  | _ => false
  end.

Lemma tqc_package ca cb evsD evsQ evs1 evs2 Dt Da Dack n :
  cfg_good ca -> cfg_good cb -> cfg_plain ca -> cfg_plain cb -> c_addr ca <> 0 ->
  match c_ack_delay cb with Some d => 0 <= d <= Dack | None => True end ->
  tqc_check ca cb evsD evsQ evs1 evs2 Dt Da Dack n = true ->
  exists st0 stD stQ st_m st',
    start_ok Dack ca cb st0 /\
    reliable_schedule Dt Da st0 (evsD ++ evsQ ++ NClose SA :: evs1 ++ NClose SB :: evs2) /\
    net_run st0 evsD = Ok stD /\ run_all (zregime Dack) st0 evsD /\
    net_run stD evsQ = Ok stQ /\ run_all qregime stD evsQ /\
    net_run stQ (NClose SA :: evs1) = Ok st_m /\ net_run st_m (NClose SB :: evs2) = Ok st' /\
    (exists p1 p2 sta,
       evsQ = p1 ++ p2 /\ net_run stD p1 = Ok sta /\ net_run sta p2 = Ok stQ /\
       una_off (net_get sta SA) = l_len (ep_written (net_get stD SA)) /\
       read_off (net_get sta SB) = l_len (ep_written (net_get stD SA))) /\
    (exists pre post st_c,
       evs2 = pre ++ post /\ net_run st_m (NClose SB :: pre) = Ok st_c /\ net_run st_c post = Ok st' /\
       both_closed st_c).
Proof.
  intros Ga Gb Pa Pb Haddr Hdel H. unfold tqc_check in H.
  destruct (net_init ca cb) as [st0|e|] eqn:Ei; try discriminate. cbv zeta in H.
  apply andb_true_iff in H. destruct H as (H & Hrest).
  repeat (apply andb_true_iff in H; let X := fresh "B" in destruct H as (H & X)).
  destruct (net_run st0 evsD) as [stD|e|] eqn:ED; try discriminate.
  apply andb_true_iff in Hrest. destruct Hrest as (HD & Hrest).
  apply andb_true_iff in HD. destruct HD as (HD & HnD). apply andb_true_iff in HD. destruct HD as (HclkD & HqQ).
  destruct (net_run stD evsQ) as [stQ|e|] eqn:EQ; try discriminate.
  apply andb_true_iff in Hrest. destruct Hrest as (HQ & Hrest).
  apply andb_true_iff in HQ. destruct HQ as (HQ & HclkQ). apply andb_true_iff in HQ. destruct HQ as (HszA & HszB).
  destruct (net_step stQ (NClose SA)) as [stC|e|] eqn:EC; try discriminate.
  destruct (net_run stC evs1) as [st_m|e|] eqn:E1; try discriminate.
  apply andb_true_iff in Hrest. destruct Hrest as (Hc1 & Hrest).
  destruct (net_run st_m (NClose SB :: evs2)) as [st'|e|] eqn:E2; try discriminate.
  apply Z.leb_le in B5, B6, B4, HnD. apply Z.ltb_lt in B3, HclkD, HszA, HszB, HclkQ, Hc1, Hrest.
  assert (Hst : net_started st0 = true) by (unfold net_started; rewrite H, B10; reflexivity).
  assert (Hstart : start_ok Dack ca cb st0) by (unfold start_ok; auto 10).
  assert (Hrel : reliable_schedule Dt Da st0 (evsD ++ evsQ ++ NClose SA :: evs1 ++ NClose SB :: evs2)).
  { split; [|exact (proj1 (once_runb_iff _ _ _ _ _) B7)].
    split; [lia|]. split; [lia|]. split; [apply opts_okb_sound; assumption | apply fair_runb_sound; assumption]. }
  pose proof (run_zregimeb_sound Dack evsD st0 B1) as HzD.
  pose proof (run_qregimeb_sound evsQ stD HqQ) as HqQ'.
  assert (Hsz : forall z, l_len (ep_written (net_get stQ z)) < 2 ^ 30) by (intros z; destruct z; cbn [net_get] in *; lia).
  destruct (transfer_quiesce_close_from_net_init Dt Da Dack ca cb st0 n evsD evsQ evs1 evs2 stD stQ stC st_m st'
              Hstart B3 B4 Hrel (app_evb_sound SA _ B2) ED HzD HclkD (qevb_sound _ B0) EQ Hsz HqQ' HnD HclkQ EC
              (cl_evb_sound _ B) E1 Hc1 E2 Hrest) as (HA & HC).
  exists st0, stD, stQ, st_m, st'. split; [exact Hstart|]. split; [exact Hrel|]. split; [exact ED|]. split; [exact HzD|].
  split; [exact EQ|]. split; [exact HqQ'|].
  split; [cbn [net_run]; rewrite EC; cbn [obind]; exact E1|]. split; [exact E2|]. split; [exact HA | exact HC].
Qed.

(* ---------------------------------------------------------------------------------------- *)
(* the Example                                                                               *)
(* ---------------------------------------------------------------------------------------- *)
(* handshake and first data segment, every frame delayed by the full Dt; 12 octets into an 8-octet buffer: the
   window closes, B's application reads, the window update, the last 4 octets, their ACK, B's application reads;
   B still owes the window update that announces the empty buffer *)
Definition tqc_evsD : list net_event :=
  [NPoll SA true; NTick 5000; NDeliver SB 0; NPoll SB true; NTick 5000; NDeliver SA 0;
   NSend SA [1;2;3;4;5;6;7;8;9;10;11;12]; NPoll SA true; NTick 5000; NDeliver SB 1;
   NPoll SB true; NTick 5000; NDeliver SA 1; NRecv SB 8; NPoll SB true; NDeliver SA 2; NPoll SA true; NDeliver SB 2;
   NPoll SB true; NDeliver SA 3; NRecv SB 8].
(* the connection becomes quiet: B sends the update, it is delivered *)
Definition tqc_evsQ : list net_event := [NPoll SB true; NTick 5000; NDeliver SA 4; NTick 30000].
Definition tqc_evs1 : list net_event := [NPoll SA true; NDeliver SB 3; NPoll SB true; NDeliver SA 5; NTick 20000].
Definition tqc_evs2 : list net_event :=
  [NPoll SB true; NDeliver SA 6; NPoll SA true; NDeliver SB 4; NTick 10000000; NPoll SA true; NTick 100000].

Lemma tqc_check_ok : tqc_check zcfg_a zcfg_b tqc_evsD tqc_evsQ tqc_evs1 tqc_evs2 5000 5000 10000 0 = true.
Proof. vm_compute. reflexivity. Qed.

Theorem transfer_quiesce_close_applies :
  exists st0 stD stQ st_m st',
    start_ok 10000 zcfg_a zcfg_b st0 /\
    reliable_schedule 5000 5000 st0 (tqc_evsD ++ tqc_evsQ ++ NClose SA :: tqc_evs1 ++ NClose SB :: tqc_evs2) /\
    net_run st0 tqc_evsD = Ok stD /\ run_all (zregime 10000) st0 tqc_evsD /\
    net_run stD tqc_evsQ = Ok stQ /\ run_all qregime stD tqc_evsQ /\
    net_run stQ (NClose SA :: tqc_evs1) = Ok st_m /\ net_run st_m (NClose SB :: tqc_evs2) = Ok st' /\
    (exists p1 p2 sta,
       tqc_evsQ = p1 ++ p2 /\ net_run stD p1 = Ok sta /\ net_run sta p2 = Ok stQ /\
       una_off (net_get sta SA) = l_len (ep_written (net_get stD SA)) /\
       read_off (net_get sta SB) = l_len (ep_written (net_get stD SA))) /\
    (exists pre post st_c,
       tqc_evs2 = pre ++ post /\ net_run st_m (NClose SB :: pre) = Ok st_c /\ net_run st_c post = Ok st' /\
       both_closed st_c).
Proof.
  destruct zcfg_good as (Ga & Gb).
  apply (tqc_package zcfg_a zcfg_b tqc_evsD tqc_evsQ tqc_evs1 tqc_evs2 5000 5000 10000 0 Ga Gb); try exact tqc_check_ok.
  - split; reflexivity.
  - split; reflexivity.
  - cbn. lia.
  - cbn. exact I.
Qed.
