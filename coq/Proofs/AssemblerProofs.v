(* Lemmas about Model/Assembler.v (property C15). *)
From SV Require Import Lib.Base Model.Assembler.

(* ---------- specification vocabulary ---------- *)

(* x is tracked by the contig list laid out from absolute position [base] *)
Fixpoint amem (base : Z) (l : asm) (x : Z) : Prop :=
  match l with
  | [] => False
  | c :: r => (base + c_hole c <= x < base + c_total c) \/ amem (base + c_total c) r x
  end.

(* what the public iterator reports *)
Definition in_ranges (rs : list (Z * Z)) (x : Z) : Prop :=
  exists a b, In (a, b) rs /\ a <= x < b.

(* the source's invariant: every used contig has data; only the first may lack a hole *)
Fixpoint wf_tail (l : asm) : Prop :=
  match l with
  | [] => True
  | c :: r => 0 < c_hole c /\ 0 < c_data c /\ wf_tail r
  end.

Definition asm_wf (l : asm) : Prop :=
  match l with
  | [] => True
  | c :: r => 0 <= c_hole c /\ 0 < c_data c /\ wf_tail r
  end.

Lemma wf_tail_wf l : wf_tail l -> asm_wf l.
Proof. destruct l as [|c r]; cbn; [tauto|]. intros (H1 & H2 & H3). repeat split; try lia; assumption. Qed.

Lemma amem_ranges base l x : amem base l x <-> in_ranges (asm_ranges base l) x.
Proof.
  revert base; induction l as [|c r IH]; intros base; cbn [amem asm_ranges].
  - split; [tauto|]. intros (a & b & [] & _).
  - rewrite IH. split.
    + intros [H | (a & b & Hin & Hx)].
      * exists (base + c_hole c), (base + c_total c). split; [left; reflexivity | exact H].
      * exists a, b. split; [right; exact Hin | exact Hx].
    + intros (a & b & [Heq | Hin] & Hx).
      * inversion Heq; subst. left; exact Hx.
      * right. exists a, b. split; assumption.
Qed.

Lemma amem_lower base l x : asm_wf l -> amem base l x -> base <= x.
Proof.
  revert base; induction l as [|c r IH]; intros base Hwf H; cbn in *; [tauto|].
  destruct Hwf as (H1 & H2 & H3). destruct H as [H | H]; [lia|].
  apply IH in H; [unfold c_total in *; lia | apply wf_tail_wf; exact H3].
Qed.

Lemma amem_lower_tail base l x : wf_tail l -> amem base l x -> base < x.
Proof.
  destruct l as [|c r]; cbn; [tauto|]. intros (H1 & H2 & H3) [H | H]; [lia|].
  apply amem_lower in H; [unfold c_total in *; lia | apply wf_tail_wf; exact H3].
Qed.

(* ---------- finish / coalesce ---------- *)

Lemma finish_spec c rest e :
  0 <= c_hole c -> 0 < c_data c -> wf_tail rest ->
  (match rest with d :: _ => e < c_total c + c_hole d | [] => True end) ->
  let l' := asm_finish c rest e in
  (exists c' r', l' = c' :: r' /\ c_hole c' = c_hole c /\ 0 < c_data c' /\ wf_tail r') /\
  (length l' = S (length rest)) /\
  (forall base x, amem base l' x <->
     amem base (c :: rest) x \/ base + c_total c <= x < base + e).
Proof.
  intros Hh Hd Hwf Hlt. unfold asm_finish. cbv zeta.
  destruct (e >? c_total c) eqn:Hgt.
  - assert (Hgt' : e > c_total c) by lia. clear Hgt.
    destruct rest as [|d r].
    + split; [eexists _, _; split; [reflexivity|]; cbn; repeat split; lia|].
      split; [reflexivity|].
      intros base x. cbn [amem c_hole c_data c_total]. unfold c_total in *. cbn. lia.
    + cbn in Hwf. destruct Hwf as (Hdh & Hdd & Hr).
      split; [eexists _, _; split; [reflexivity|]; cbn; repeat split; try lia; assumption|].
      split; [reflexivity|].
      intros base x. cbn [amem]. unfold c_total in *. cbn [c_hole c_data].
      replace (base + (c_hole c + (c_data c + (e - (c_hole c + c_data c)))) +
               (c_hole d - (e - (c_hole c + c_data c)) + c_data d))
        with (base + (c_hole c + c_data c) + (c_hole d + c_data d)) by lia.
      intuition lia.
  - assert (Hle : e <= c_total c) by lia. clear Hgt.
    split; [eexists _, _; split; [reflexivity|]; repeat split; try lia; assumption|].
    split; [reflexivity|].
    intros base x. split; [tauto|]. intros [H | H]; [exact H | lia].
Qed.

Lemma coalesce_spec rest : forall c e,
  0 <= c_hole c -> 0 < c_data c -> wf_tail rest ->
  let l' := asm_coalesce c rest e in
  (exists c' r', l' = c' :: r' /\ c_hole c' = c_hole c /\ 0 < c_data c' /\ wf_tail r') /\
  (length l' <= S (length rest))%nat /\
  (forall base x, amem base l' x <->
     amem base (c :: rest) x \/ base + c_total c <= x < base + e).
Proof.
  induction rest as [|d rest IH]; intros c e Hh Hd Hwf; cbn [asm_coalesce]; cbv zeta.
  - pose proof (finish_spec c [] e Hh Hd I I) as (H1 & H2 & H3).
    split; [exact H1|]. split; [rewrite H2; lia | exact H3].
  - cbn in Hwf. destruct Hwf as (Hdh & Hdd & Hr).
    destruct (e >=? c_total c + c_hole d) eqn:Hge.
    + assert (Hge' : e >= c_total c + c_hole d) by lia. clear Hge.
      specialize (IH (mkContig (c_hole c) (c_data c + c_total d)) e).
      cbn [c_hole c_data] in IH.
      destruct IH as (H1 & H2 & H3); [lia | unfold c_total; lia | exact Hr |].
      split; [exact H1|]. split; [cbn [length]; lia|].
      intros base x. rewrite H3. cbn [amem]. unfold c_total in *. cbn [c_hole c_data].
      replace (base + (c_hole c + (c_data c + (c_hole d + c_data d))))
        with (base + (c_hole c + c_data c) + (c_hole d + c_data d)) by lia.
      (intuition lia).
    + assert (Hlt : e < c_total c + c_hole d) by lia. clear Hge.
      pose proof (finish_spec c (d :: rest) e Hh Hd) as HF.
      destruct HF as (H1 & H2 & H3); [cbn; tauto | exact Hlt |].
      split; [exact H1|]. split; [rewrite H2; cbn [length]; lia | exact H3].
Qed.

(* ---------- add_go ---------- *)

(* head may have a zero hole iff [first] *)
Definition wf_from (first : bool) (l : asm) : Prop :=
  if first then asm_wf l else wf_tail l.

Lemma wf_from_cons first c r :
  wf_from first (c :: r) <->
  (if first then 0 <= c_hole c else 0 < c_hole c) /\ 0 < c_data c /\ wf_tail r.
Proof. destruct first; cbn; tauto. Qed.

Lemma add_go_spec full l : forall first offset size l',
  wf_from first l -> (if first then 0 <= offset else 0 < offset) -> 0 < size ->
  asm_add_go full l offset size = Some l' ->
  wf_from first l' /\
  (length l' <= S (length l))%nat /\
  (full = true -> length l' <= length l)%nat /\
  (forall base x, amem base l' x <->
     amem base l x \/ base + offset <= x < base + offset + size).
Proof.
  induction l as [|c rest IH]; intros first offset size l' Hwf Ho Hs Hgo; cbn [asm_add_go] in Hgo.
  - destruct full; [discriminate|]. inversion Hgo; subst l'; clear Hgo.
    split; [destruct first; cbn; repeat split; lia|].
    split; [cbn; lia|]. split; [discriminate|].
    intros base x. cbn [amem c_hole c_data c_total]. unfold c_total; cbn. lia.
  - apply wf_from_cons in Hwf. destruct Hwf as (Hh & Hd & Hr).
    assert (Hh0 : 0 <= c_hole c) by (destruct first; lia).
    destruct (offset <=? c_total c) eqn:Hle.
    + assert (Hle' : offset <= c_total c) by lia. clear Hle.
      destruct (offset <? c_hole c) eqn:Hlt.
      * assert (Hlt' : offset < c_hole c) by lia. clear Hlt.
        destruct (offset + size <? c_hole c) eqn:Hin.
        -- assert (Hin' : offset + size < c_hole c) by lia. clear Hin.
           destruct full; [discriminate|]. inversion Hgo; subst l'; clear Hgo.
           split; [apply wf_from_cons; cbn [c_hole c_data wf_tail]; repeat split; try lia; assumption|].
           split; [cbn [length]; lia|]. split; [discriminate|].
           intros base x. cbn [amem]. unfold c_total. cbn [c_hole c_data].
           replace (base + (offset + size) + (c_hole c - (offset + size) + c_data c))
             with (base + (c_hole c + c_data c)) by lia.
           (intuition lia).
        -- assert (Hin' : offset + size >= c_hole c) by lia. clear Hin.
           inversion Hgo; subst l'; clear Hgo.
           pose proof (coalesce_spec rest (mkContig offset (c_total c - offset)) (offset + size)) as HC.
           cbn [c_hole c_data] in HC.
           destruct HC as ((c' & r' & He & Hc'h & Hc'd & Hr') & Hlen & Hmem);
             [destruct first; lia | unfold c_total; lia | exact Hr |].
           split; [rewrite He; apply wf_from_cons; rewrite Hc'h; destruct first; repeat split; try lia; assumption|].
           split; [rewrite He in *; cbn [length] in *; lia|].
           split; [intros _; cbn [length]; lia|].
           intros base x. rewrite Hmem. cbn [amem]. unfold c_total in *. cbn [c_hole c_data].
           replace (base + (offset + (c_hole c + c_data c - offset)))
             with (base + (c_hole c + c_data c)) by lia.
           (intuition lia).
      * assert (Hge : offset >= c_hole c) by lia. clear Hlt.
        inversion Hgo; subst l'; clear Hgo.
        pose proof (coalesce_spec rest c (offset + size) Hh0 Hd Hr) as HC.
        destruct HC as ((c' & r' & He & Hc'h & Hc'd & Hr') & Hlen & Hmem).
        split; [rewrite He; apply wf_from_cons; rewrite Hc'h; repeat split; assumption|].
        split; [rewrite He in *; cbn [length] in *; lia|].
        split; [intros _; cbn [length]; lia|].
        intros base x. rewrite Hmem. cbn [amem]. unfold c_total in *. (intuition lia).
    + assert (Hgt : offset > c_total c) by lia. clear Hle.
      destruct (asm_add_go full rest (offset - c_total c) size) as [rest'|] eqn:Hrec; [|discriminate].
      inversion Hgo; subst l'; clear Hgo.
      specialize (IH false (offset - c_total c) size rest' Hr).
      destruct IH as (Hw' & Hlen & Hfull & Hmem); [cbn; lia | exact Hs | exact Hrec |].
      split; [apply wf_from_cons; repeat split; assumption|].
      split; [cbn [length]; lia|].
      split; [intros Hf; specialize (Hfull Hf); cbn [length]; lia|].
      intros base x. cbn [amem]. rewrite Hmem.
      replace (base + c_total c + (offset - c_total c)) with (base + offset) by lia.
      tauto.
Qed.

(* with room the insertion always succeeds *)
Lemma add_go_room l : forall offset size, exists l', asm_add_go false l offset size = Some l'.
Proof.
  induction l as [|c rest IH]; intros offset size; cbn [asm_add_go].
  - eexists; reflexivity.
  - destruct (offset <=? c_total c).
    + destruct (offset <? c_hole c); [destruct (offset + size <? c_hole c)|]; eexists; reflexivity.
    + destruct (IH (offset - c_total c) size) as (r' & Hr'). rewrite Hr'. eexists; reflexivity.
Qed.

(* the full / not-full runs differ only in refusing growth *)
Lemma finish_len c rest e : length (asm_finish c rest e) = S (length rest).
Proof. unfold asm_finish. destruct (e >? c_total c); [destruct rest|]; reflexivity. Qed.

Lemma coalesce_len rest : forall c e, (length (asm_coalesce c rest e) <= S (length rest))%nat.
Proof.
  induction rest as [|d r IH]; intros c e; cbn [asm_coalesce].
  - rewrite finish_len. lia.
  - destruct (e >=? c_total c + c_hole d).
    + specialize (IH (mkContig (c_hole c) (c_data c + c_total d)) e). cbn [length]. lia.
    + rewrite finish_len. lia.
Qed.

Lemma add_go_full_vs_room l : forall offset size l0,
  asm_add_go false l offset size = Some l0 ->
  (asm_add_go true l offset size = None /\ length l0 = S (length l)) \/
  (asm_add_go true l offset size = Some l0 /\ (length l0 <= length l)%nat).
Proof.
  induction l as [|c rest IH]; intros offset size l0 H0; cbn [asm_add_go] in *.
  - inversion H0; subst. left. split; reflexivity.
  - destruct (offset <=? c_total c).
    + destruct (offset <? c_hole c).
      * destruct (offset + size <? c_hole c).
        -- inversion H0; subst. left. split; reflexivity.
        -- right. split; [exact H0|]. inversion H0; subst; clear H0.
           cbn [length]. apply coalesce_len.
      * right. split; [exact H0|]. inversion H0; subst; clear H0.
        cbn [length]. apply coalesce_len.
    + destruct (asm_add_go false rest (offset - c_total c) size) as [r0|] eqn:Hr0; [|discriminate].
      inversion H0; subst; clear H0.
      destruct (IH _ _ _ Hr0) as [(Hn & Hl) | (Hs & Hl)].
      * left. rewrite Hn. split; [reflexivity | cbn [length]; lia].
      * right. rewrite Hs. split; [reflexivity | cbn [length]; lia].
Qed.

(* ---------- unbounded insertion: the canonical union ---------- *)

Definition asm_add_unb (l : asm) (offset size : Z) : asm :=
  if size =? 0 then l
  else match asm_add_go false l offset size with Some l' => l' | None => l end.

Lemma add_unb_spec l offset size :
  asm_wf l -> 0 <= offset -> 0 <= size ->
  asm_wf (asm_add_unb l offset size) /\
  (forall base x, amem base (asm_add_unb l offset size) x <->
     amem base l x \/ base + offset <= x < base + offset + size).
Proof.
  intros Hwf Ho Hs. unfold asm_add_unb.
  destruct (size =? 0) eqn:Hz.
  - split; [exact Hwf|]. intros base x. split; [tauto|]. intros [H|H]; [exact H | lia].
  - destruct (add_go_room l offset size) as (l' & Hl'). rewrite Hl'.
    pose proof (add_go_spec false l true offset size l' Hwf Ho ltac:(lia) Hl') as (H1 & _ & _ & H4).
    split; [exact H1 | exact H4].
Qed.

(* ---------- public operations ---------- *)

Lemma add_ok_spec n l offset size l' :
  asm_wf l -> 0 <= offset -> 0 <= size ->
  asm_add n l offset size = (l', true) ->
  l' = asm_add_unb l offset size /\
  (Z.of_nat (length l) <= n -> Z.of_nat (length l') <= n).
Proof.
  intros Hwf Ho Hs. unfold asm_add, asm_add_unb.
  destruct (size =? 0) eqn:Hz.
  - intros H; inversion H; subst. split; [reflexivity | tauto].
  - destruct (add_go_room l offset size) as (l0 & Hl0). rewrite Hl0.
    unfold asm_full. destruct (n <=? Z.of_nat (length l)) eqn:Hfull.
    + destruct (add_go_full_vs_room l offset size l0 Hl0) as [(Hn & _) | (Hsome & Hlen)].
      * rewrite Hn. discriminate.
      * rewrite Hsome. intros H; inversion H; subst. split; [reflexivity | lia].
    + rewrite Hl0. intros H; inversion H; subst. split; [reflexivity|].
      pose proof (add_go_spec false l true offset size l' Hwf Ho ltac:(lia) Hl0) as (_ & Hlen & _ & _).
      lia.
Qed.

Lemma add_err_spec n l offset size l' :
  Z.of_nat (length l) <= n ->
  asm_add n l offset size = (l', false) ->
  l' = l /\ Z.of_nat (length (asm_add_unb l offset size)) > n.
Proof.
  intros Hn. unfold asm_add, asm_add_unb.
  destruct (size =? 0) eqn:Hz; [discriminate|].
  destruct (add_go_room l offset size) as (l0 & Hl0). rewrite Hl0.
  unfold asm_full. destruct (n <=? Z.of_nat (length l)) eqn:Hfull.
  - destruct (add_go_full_vs_room l offset size l0 Hl0) as [(Hnone & Hlen) | (Hsome & _)].
    + rewrite Hnone. intros H; inversion H; subst. split; [reflexivity | lia].
    + rewrite Hsome. discriminate.
  - rewrite Hl0. discriminate.
Qed.

Lemma add_fits_ok n l offset size :
  Z.of_nat (length (asm_add_unb l offset size)) <= n ->
  snd (asm_add n l offset size) = true.
Proof.
  unfold asm_add, asm_add_unb. destruct (size =? 0); [reflexivity|].
  destruct (add_go_room l offset size) as (l0 & Hl0). rewrite Hl0. intros Hlen.
  unfold asm_full. destruct (n <=? Z.of_nat (length l)) eqn:Hfull.
  - destruct (add_go_full_vs_room l offset size l0 Hl0) as [(_ & Hl) | (Hsome & _)].
    + lia.
    + rewrite Hsome. reflexivity.
  - rewrite Hl0. reflexivity.
Qed.

Lemma remove_front_spec l l' r :
  asm_wf l -> asm_remove_front l = (l', r) ->
  asm_wf l' /\ 0 <= r /\ (length l' <= length l)%nat /\
  (r = 0 -> l' = l /\ ~ amem 0 l 0) /\
  (0 < r -> (forall x, 0 <= x < r -> amem 0 l x) /\ ~ amem 0 l r /\
            forall base x, amem (base + r) l' x <-> amem base l x /\ ~ (base <= x < base + r)).
Proof.
  intros Hwf. destruct l as [|c rest]; cbn [asm_remove_front].
  - intros H; inversion H; subst. cbn. repeat split; try lia; try tauto.
  - cbn in Hwf. destruct Hwf as (Hh & Hd & Hr).
    destruct (c_hole c =? 0) eqn:Hz.
    + assert (Hz' : c_hole c = 0) by lia. clear Hz.
      intros H; inversion H; subst; clear H.
      split; [apply wf_tail_wf; exact Hr|]. split; [lia|]. split; [cbn; lia|].
      split; [lia|]. intros _.
      split; [intros x Hx; cbn [amem]; left; unfold c_total; lia|].
      split.
      * cbn [amem]. unfold c_total. rewrite Hz'. intros [H | H]; [lia|].
        apply amem_lower_tail in H; [lia | exact Hr].
      * intros base x. cbn [amem]. unfold c_total. rewrite Hz'.
        replace (base + (0 + c_data c)) with (base + c_data c) by lia.
        split.
        -- intros H. split; [right; exact H|]. apply amem_lower_tail in H; [lia | exact Hr].
        -- intros ([H | H] & Hn); [lia | exact H].
    + intros H; inversion H; subst; clear H.
      split; [cbn; repeat split; assumption|]. split; [lia|]. split; [lia|].
      split; [|lia]. intros _. split; [reflexivity|].
      cbn [amem]. intros [H | H]; [lia|].
      apply amem_lower in H; [unfold c_total in *; lia | apply wf_tail_wf; exact Hr].
Qed.

Lemma atrf_spec n l offset size l' res :
  asm_wf l -> 0 <= offset -> 0 <= size -> 1 <= n -> Z.of_nat (length l) <= n ->
  asm_atrf n l offset size = (l', res) ->
  match res with
  | Some r => asm_remove_front (asm_add_unb l offset size) = (l', r)
  | None => l' = l /\ offset <> 0 /\ Z.of_nat (length (asm_add_unb l offset size)) > n
  end.
Proof.
  intros Hwf Ho Hs Hn1 Hn. unfold asm_atrf.
  destruct ((offset =? 0) && (size <? match l with [] => 0 | c :: _ => c_hole c end)) eqn:Hfast.
  - (* fast path: equals unbounded add followed by remove_front *)
    apply andb_prop in Hfast. destruct Hfast as (Ho0 & Hlt).
    assert (offset = 0) by lia. subst offset.
    destruct l as [|c rest]; [lia|].
    assert (Hlt' : size < c_hole c) by lia.
    intros H; inversion H; subst; clear H.
    unfold asm_add_unb. destruct (size =? 0) eqn:Hz.
    + assert (size = 0) by lia. subst size. cbn [asm_remove_front].
      destruct (c_hole c =? 0) eqn:Hc; [lia|].
      replace (c_hole c - 0) with (c_hole c) by lia. destruct c; reflexivity.
    + cbn [asm_add_go].
      destruct (0 <=? c_total c) eqn:H1; [|cbn in Hwf; unfold c_total in *; lia].
      destruct (0 <? c_hole c) eqn:H2; [|lia].
      destruct (0 + size <? c_hole c) eqn:H3; [|lia].
      cbn [asm_remove_front c_hole c_data]. cbn. replace (0 + size) with size by lia. reflexivity.
  - destruct (asm_add n l offset size) as (l1, ok) eqn:Hadd.
    destruct ok.
    + destruct (add_ok_spec n l offset size l1 Hwf Ho Hs Hadd) as (Heq & _). subst l1.
      destruct (asm_remove_front (asm_add_unb l offset size)) as (l2, r) eqn:Hrf.
      intros H; inversion H; subst. reflexivity.
    + destruct (add_err_spec n l offset size l1 Hn Hadd) as (Heq & Hlen). subst l1.
      intros H; injection H as Hl Hr; subst l' res.
      split; [reflexivity|]. split; [|exact Hlen].
      (* offset = 0 cannot fail *)
      intros ->.
      unfold asm_add in Hadd. destruct (size =? 0) eqn:Hz; [discriminate|].
      destruct l as [|c rest].
      * cbn in Hadd. unfold asm_full in Hadd. cbn [length] in *.
        destruct (n <=? Z.of_nat 0) eqn:Hf; cbn in Hadd; [|discriminate].
        lia.
      * cbn [asm_add_go] in Hadd. cbn in Hwf.
        destruct (0 <=? c_total c) eqn:H1; [|unfold c_total in *; lia].
        rewrite andb_false_iff in Hfast. destruct Hfast as [Hf | Hf]; [lia|].
        destruct (0 <? c_hole c) eqn:H2.
        -- destruct (0 + size <? c_hole c) eqn:H3; [lia|]. discriminate.
        -- discriminate.
Qed.


(* ---------- the representation is canonical ---------- *)

Lemma amem_first base c r :
  0 < c_data c -> amem base (c :: r) (base + c_hole c).
Proof. intros Hd. cbn [amem]. left. unfold c_total. lia. Qed.

Lemma canon_unique_from l1 : forall first base l2,
  wf_from first l1 -> wf_from first l2 ->
  (forall x, amem base l1 x <-> amem base l2 x) -> l1 = l2.
Proof.
  induction l1 as [|c1 r1 IH]; intros first base l2 Hw1 Hw2 Heq.
  - destruct l2 as [|c2 r2]; [reflexivity|].
    apply wf_from_cons in Hw2. destruct Hw2 as (_ & Hd & _).
    exfalso. apply (proj2 (Heq (base + c_hole c2))). apply amem_first; exact Hd.
  - destruct l2 as [|c2 r2].
    + apply wf_from_cons in Hw1. destruct Hw1 as (_ & Hd & _).
      exfalso. apply (proj1 (Heq (base + c_hole c1))). apply amem_first; exact Hd.
    + pose proof Hw1 as Hw1'. pose proof Hw2 as Hw2'.
      apply wf_from_cons in Hw1. destruct Hw1 as (Hh1 & Hd1 & Hr1).
      apply wf_from_cons in Hw2. destruct Hw2 as (Hh2 & Hd2 & Hr2).
      assert (Hwf1 : asm_wf (c1 :: r1)) by (destruct first; [exact Hw1' | apply wf_tail_wf; exact Hw1']).
      assert (Hwf2 : asm_wf (c2 :: r2)) by (destruct first; [exact Hw2' | apply wf_tail_wf; exact Hw2']).
      (* a member of one list is at or after that list's first start *)
      assert (Hlow1 : forall x, amem base (c1 :: r1) x -> base + c_hole c1 <= x).
      { intros x [H | H]; [lia|]. apply amem_lower_tail in H; [unfold c_total in *; lia | exact Hr1]. }
      assert (Hlow2 : forall x, amem base (c2 :: r2) x -> base + c_hole c2 <= x).
      { intros x [H | H]; [lia|]. apply amem_lower_tail in H; [unfold c_total in *; lia | exact Hr2]. }
      assert (Hhole : c_hole c1 = c_hole c2).
      { pose proof (Hlow2 _ (proj1 (Heq _) (amem_first base c1 r1 Hd1))).
        pose proof (Hlow1 _ (proj2 (Heq _) (amem_first base c2 r2 Hd2))). lia. }
      (* the end of the first run is not a member *)
      assert (Hend1 : ~ amem base (c1 :: r1) (base + c_total c1)).
      { intros [H | H]; [lia|]. apply amem_lower_tail in H; [lia | exact Hr1]. }
      assert (Hend2 : ~ amem base (c2 :: r2) (base + c_total c2)).
      { intros [H | H]; [lia|]. apply amem_lower_tail in H; [lia | exact Hr2]. }
      assert (Htot : c_total c1 = c_total c2).
      { destruct (Z.lt_trichotomy (c_total c1) (c_total c2)) as [Hlt | [He | Hgt]]; [|exact He|].
        - exfalso. apply Hend1. apply Heq. left. unfold c_total in *. lia.
        - exfalso. apply Hend2. apply Heq. left. unfold c_total in *. lia. }
      assert (Hc : c1 = c2).
      { destruct c1, c2; unfold c_total in *; cbn in *. f_equal; lia. }
      subst c2. f_equal.
      apply (IH false (base + c_total c1) r2 Hr1 Hr2).
      intros x. split; intros H.
      * assert (Hx : base + c_total c1 < x) by (apply amem_lower_tail in H; assumption).
        destruct (proj1 (Heq x) (or_intror H)) as [H' | H']; [lia | exact H'].
      * assert (Hx : base + c_total c1 < x) by (apply amem_lower_tail in H; assumption).
        destruct (proj2 (Heq x) (or_intror H)) as [H' | H']; [lia | exact H'].
Qed.

Lemma canon_unique l1 l2 :
  asm_wf l1 -> asm_wf l2 -> (forall x, amem 0 l1 x <-> amem 0 l2 x) -> l1 = l2.
Proof. intros H1 H2 H. exact (canon_unique_from l1 true 0 l2 H1 H2 H). Qed.

(* ---------- invariant over arbitrary operation sequences ---------- *)

Definition asm_inv (n : Z) (l : asm) : Prop := asm_wf l /\ Z.of_nat (length l) <= n.

Definition op_args_ok (op : asm_op) : Prop :=
  match op with
  | AAdd o s | AAtrf o s => 0 <= o /\ 0 <= s
  | _ => True
  end.

Lemma add_inv n l o s :
  asm_inv n l -> 0 <= o -> 0 <= s -> asm_inv n (fst (asm_add n l o s)).
Proof.
  intros (Hwf & Hlen) Ho Hs. destruct (asm_add n l o s) as (l', ok) eqn:Hadd. cbn [fst].
  destruct ok.
  - destruct (add_ok_spec n l o s l' Hwf Ho Hs Hadd) as (Heq & Hl). subst l'.
    split; [apply add_unb_spec; assumption | apply Hl; exact Hlen].
  - unfold asm_add in Hadd. destruct (s =? 0); [discriminate|].
    destruct (asm_add_go _ _ _ _); [discriminate|]. inversion Hadd; subst. split; assumption.
Qed.

Lemma step_inv n l op :
  1 <= n -> asm_inv n l -> op_args_ok op -> asm_inv n (fst (asm_step n l op)).
Proof.
  intros Hn Hinv Hop. destruct op as [o s | | o s |]; cbn [asm_step op_args_ok] in *.
  - destruct Hop as (Ho & Hs). pose proof (add_inv n l o s Hinv Ho Hs) as H.
    destruct (asm_add n l o s) as (l', ok). exact H.
  - destruct Hinv as (Hwf & Hlen).
    destruct (asm_remove_front l) as (l', r) eqn:Hrf.
    destruct (remove_front_spec l l' r Hwf Hrf) as (H1 & _ & H3 & _). split; [exact H1 | cbn [fst]; lia].
  - destruct Hop as (Ho & Hs). destruct Hinv as (Hwf & Hlen).
    destruct (asm_atrf n l o s) as (l', res) eqn:Hat. cbn [fst].
    pose proof (atrf_spec n l o s l' res Hwf Ho Hs Hn Hlen Hat) as Hspec.
    destruct res as [r|].
    + (* equals add (which keeps the bound when it succeeds) then remove_front; the fast
         path never grows the list *)
      destruct (add_unb_spec l o s Hwf Ho Hs) as (Hwfu & _).
      destruct (remove_front_spec _ _ _ Hwfu Hspec) as (H1 & _ & H3 & _).
      split; [exact H1|].
      unfold asm_atrf in Hat.
      destruct ((o =? 0) && (s <? match l with [] => 0 | c :: _ => c_hole c end)) eqn:Hfast.
      * destruct l as [|c rest]; inversion Hat; subst; cbn [length] in *; lia.
      * destruct (asm_add n l o s) as (l1, ok) eqn:Hadd. destruct ok.
        -- destruct (add_ok_spec n l o s l1 Hwf Ho Hs Hadd) as (Heq & Hl). subst l1. lia.
        -- inversion Hat.
    + destruct Hspec as (-> & _). split; assumption.
  - split; [exact I | cbn; lia].
Qed.

Lemma run_inv n : 1 <= n -> forall ops l,
  asm_inv n l -> Forall op_args_ok ops -> asm_inv n (asm_run n l ops).
Proof.
  intros Hn. induction ops as [|op ops IH]; intros l Hinv Hops; cbn [asm_run]; [exact Hinv|].
  inversion Hops; subst. apply IH; [apply step_inv; assumption | assumption].
Qed.

(* ---------- statements in terms of the reported ranges only ---------- *)

Definition tracked (l : asm) (x : Z) : Prop := in_ranges (asm_iter_data l) x.

Lemma tracked_amem l x : tracked l x <-> amem 0 l x.
Proof. unfold tracked, asm_iter_data. symmetry. apply amem_ranges. Qed.

(* the reported ranges are sorted, non-empty, pairwise separated by a gap: "touching or
   overlapping ranges merged" *)
Fixpoint ranges_canonical (lo : Z) (strict : bool) (rs : list (Z * Z)) : Prop :=
  match rs with
  | [] => True
  | (a, b) :: rest => (if strict then lo < a else lo <= a) /\ a < b /\ ranges_canonical b true rest
  end.

Lemma ranges_canonical_of_wf l : forall first base,
  wf_from first l -> ranges_canonical base (negb first) (asm_ranges base l).
Proof.
  induction l as [|c r IH]; intros first base Hwf; cbn [asm_ranges ranges_canonical]; [exact I|].
  apply wf_from_cons in Hwf. destruct Hwf as (Hh & Hd & Hr).
  split; [destruct first; cbn; lia|]. split; [unfold c_total; lia|].
  apply (IH false (base + c_total c)). exact Hr.
Qed.

(* ---------- final statements used by Props/C15.v ---------- *)

Lemma c15_invariant n ops :
  1 <= n -> Forall op_args_ok ops ->
  let l := asm_run n asm_new ops in
  asm_wf l /\ Z.of_nat (length l) <= n /\
  Z.of_nat (length (asm_iter_data l)) <= n /\ ranges_canonical 0 false (asm_iter_data l).
Proof.
  intros Hn Hops l.
  assert (Hinv : asm_inv n l) by (apply run_inv; [exact Hn | split; [exact I | cbn; lia] | exact Hops]).
  destruct Hinv as (Hwf & Hlen). split; [exact Hwf|]. split; [exact Hlen|].
  split.
  - unfold asm_iter_data. assert (H : forall b l0, length (asm_ranges b l0) = length l0).
    { intros b l0; revert b; induction l0 as [|c r IH]; intros b; cbn; [reflexivity | rewrite IH; reflexivity]. }
    rewrite H. exact Hlen.
  - exact (ranges_canonical_of_wf l true 0 Hwf).
Qed.

Lemma c15_add_union n l o s l' :
  asm_wf l -> 0 <= o -> 0 <= s -> asm_add n l o s = (l', true) ->
  asm_wf l' /\ forall x, tracked l' x <-> tracked l x \/ o <= x < o + s.
Proof.
  intros Hwf Ho Hs Hadd. destruct (add_ok_spec n l o s l' Hwf Ho Hs Hadd) as (-> & _).
  destruct (add_unb_spec l o s Hwf Ho Hs) as (Hw & Hm). split; [exact Hw|].
  intros x. rewrite !tracked_amem. rewrite Hm. replace (0 + o) with o by lia. tauto.
Qed.

Lemma c15_add_refused n l o s l' :
  asm_wf l -> Z.of_nat (length l) <= n -> 0 <= o -> 0 <= s ->
  asm_add n l o s = (l', false) ->
  l' = l /\
  forall u, asm_wf u -> (forall x, tracked u x <-> tracked l x \/ o <= x < o + s) ->
            Z.of_nat (length u) > n.
Proof.
  intros Hwf Hlen Ho Hs Hadd. destruct (add_err_spec n l o s l' Hlen Hadd) as (-> & Hbig).
  split; [reflexivity|]. intros u Hu Hmem.
  destruct (add_unb_spec l o s Hwf Ho Hs) as (Hw & Hm).
  assert (u = asm_add_unb l o s).
  { apply canon_unique; [exact Hu | exact Hw|]. intros x. rewrite Hm.
    rewrite <- !tracked_amem. rewrite Hmem. replace (0 + o) with o by lia. tauto. }
  subst u. exact Hbig.
Qed.

Lemma c15_add_accepts_when_fits n l o s u :
  asm_wf l -> 0 <= o -> 0 <= s ->
  asm_wf u -> (forall x, tracked u x <-> tracked l x \/ o <= x < o + s) ->
  Z.of_nat (length u) <= n ->
  snd (asm_add n l o s) = true.
Proof.
  intros Hwf Ho Hs Hu Hmem Hlen. apply add_fits_ok.
  destruct (add_unb_spec l o s Hwf Ho Hs) as (Hw & Hm).
  assert (u = asm_add_unb l o s).
  { apply canon_unique; [exact Hu | exact Hw|]. intros x. rewrite Hm.
    rewrite <- !tracked_amem. rewrite Hmem. replace (0 + o) with o by lia. tauto. }
  subst u. exact Hlen.
Qed.

Lemma c15_remove_front l l' r :
  asm_wf l -> asm_remove_front l = (l', r) ->
  asm_wf l' /\ 0 <= r /\
  (r = 0 -> l' = l /\ ~ tracked l 0) /\
  (0 < r -> (forall x, 0 <= x < r -> tracked l x) /\ ~ tracked l r /\
            forall x, tracked l' x <-> tracked l (x + r) /\ 0 <= x).
Proof.
  intros Hwf Hrf. destruct (remove_front_spec l l' r Hwf Hrf) as (H1 & H2 & _ & H4 & H5).
  split; [exact H1|]. split; [exact H2|]. split.
  - intros Hr. destruct (H4 Hr) as (Ha & Hb). split; [exact Ha|]. rewrite tracked_amem. exact Hb.
  - intros Hr. destruct (H5 Hr) as (Ha & Hb & Hc). split; [|split].
    + intros x Hx. rewrite tracked_amem. apply Ha; exact Hx.
    + rewrite tracked_amem. exact Hb.
    + intros x. rewrite !tracked_amem. specialize (Hc (-r) (x)).
      replace (- r + r) with 0 in Hc by lia.
      (* shift the base of the right-hand side *)
      assert (Hshift : forall l0 b d y, amem b l0 y <-> amem (b + d) l0 (y + d)).
      { induction l0 as [|c0 r0 IH0]; intros b d y; cbn [amem]; [tauto|].
        rewrite (IH0 (b + c_total c0) d y).
        replace (b + d + c_total c0) with (b + c_total c0 + d) by lia. intuition lia. }
      rewrite Hc. rewrite (Hshift l (-r) r x). replace (- r + r) with 0 by lia.
      split; intros (Hm & Hx); (split; [exact Hm|]); pose proof (amem_lower 0 l (x + r) Hwf Hm); lia.
Qed.

Lemma c15_atrf n l o s l' res :
  asm_wf l -> Z.of_nat (length l) <= n -> 1 <= n -> 0 <= o -> 0 <= s ->
  asm_atrf n l o s = (l', res) ->
  match res with
  | Some r =>
      exists u, asm_wf u /\ (forall x, tracked u x <-> tracked l x \/ o <= x < o + s) /\
                asm_remove_front u = (l', r)
  | None =>
      o <> 0 /\ l' = l /\
      forall u, asm_wf u -> (forall x, tracked u x <-> tracked l x \/ o <= x < o + s) ->
                Z.of_nat (length u) > n
  end.
Proof.
  intros Hwf Hlen Hn Ho Hs Hat.
  pose proof (atrf_spec n l o s l' res Hwf Ho Hs Hn Hlen Hat) as Hspec.
  destruct (add_unb_spec l o s Hwf Ho Hs) as (Hw & Hm).
  destruct res as [r|].
  - exists (asm_add_unb l o s). split; [exact Hw|]. split; [|exact Hspec].
    intros x. rewrite !tracked_amem. rewrite Hm. replace (0 + o) with o by lia. tauto.
  - destruct Hspec as (-> & Hne & Hbig). split; [exact Hne|]. split; [reflexivity|].
    intros u Hu Hmem.
    assert (u = asm_add_unb l o s).
    { apply canon_unique; [exact Hu | exact Hw|]. intros x. rewrite Hm.
      rewrite <- !tracked_amem. rewrite Hmem. replace (0 + o) with o by lia. tauto. }
    subst u. exact Hbig.
Qed.

Lemma c15_atrf_offset0_never_fails n l s :
  asm_wf l -> Z.of_nat (length l) <= n -> 1 <= n -> 0 <= s ->
  snd (asm_atrf n l 0 s) <> None.
Proof.
  intros Hwf Hlen Hn Hs. destruct (asm_atrf n l 0 s) as (l', res) eqn:Hat. cbn [snd].
  pose proof (c15_atrf n l 0 s l' res Hwf Hlen Hn ltac:(lia) Hs Hat) as H.
  destruct res; [discriminate|]. destruct H as (H & _). congruence.
Qed.

Lemma c15_clear l : asm_clear l = asm_new /\ forall x, ~ tracked asm_new x.
Proof. split; [reflexivity|]. intros x (a & b & [] & _). Qed.

(* non-vacuity: a reachable full tracker (n = 4) meets every hypothesis above, is refused a
   fifth range, and still accepts a front segment through add_then_remove_front *)
Definition c15_example_ops : list asm_op := [AAdd 2 2; AAdd 10 3; AAdd 6 1; AAdd 20 5].
Lemma c15_example :
  let l := asm_run 4 asm_new c15_example_ops in
  asm_iter_data l = [(2, 4); (6, 7); (10, 13); (20, 25)] /\
  asm_wf l /\ Z.of_nat (length l) <= 4 /\
  snd (asm_add 4 l 15 1) = false /\
  asm_atrf 4 l 0 1 = ([mkContig 1 2; mkContig 2 1; mkContig 3 3; mkContig 7 5], Some 1) /\
  snd (asm_atrf 4 l 0 2) = Some 4.
Proof. vm_compute. repeat split; try reflexivity; try lia; discriminate. Qed.
