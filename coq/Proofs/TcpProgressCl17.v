(* C02 (liveness half): THE ORDERLY CLOSE, SERVER FIRST.  The development of Proofs/TcpProgressCl7.v with the roles
   of the two endpoints exchanged (the half-close stage of Proofs/TcpProgressCl5.v, the stability between the
   halves and TIME-WAIT of Proofs/TcpProgressCl6.v are parametric in the closer): B closes first - FIN-WAIT-1,
   FIN, A in CLOSE-WAIT acknowledges, B in FIN-WAIT-2 - then A's application closes in CLOSE-WAIT - LAST-ACK, FIN,
   B acknowledges and enters TIME-WAIT, A is CLOSED - and B's TIME-WAIT expires.
   In this section tA is the CLOSER's (B's) tuple, X its sequence number, Y the peer's (A's), dk the clock skew seen
   from B. *)
From SV Require Import Lib.Base Gen.Consts.
From SV Require Import Model.Seq32 Model.Assembler Model.TcpBuf Model.TcpTypes Model.Tcp Model.TcpNet.
From SV Require Proofs.TcpRecvBase Proofs.TcpRecvInv Proofs.TcpRecvProcess Proofs.TcpRecvDispatch.
From SV Require Import Proofs.TcpSendBase Proofs.TcpLiveBase Proofs.TcpLiveProofs Proofs.TcpLiveMore
  Proofs.TcpLiveProgress.
From SV Require Import Proofs.TcpNetBase.
From SV Require Import Proofs.TcpProgressBase Proofs.TcpProgressFrame Proofs.TcpProgressCtl Proofs.TcpProgressRecv
  Proofs.TcpProgressSend Proofs.TcpProgressNet Proofs.TcpProgressData Proofs.TcpProgressAck
  Proofs.TcpProgressAll Proofs.TcpProgressSafe Proofs.TcpProgressHs Proofs.TcpProgressHsD
  Proofs.TcpProgressExample Proofs.TcpProgressWitness Proofs.TcpProgressZwDup Proofs.TcpProgressZw1 Proofs.TcpProgressZw2
  Proofs.TcpProgressCl1 Proofs.TcpProgressCl2 Proofs.TcpProgressCl3 Proofs.TcpProgressCl4 Proofs.TcpProgressCl5
  Proofs.TcpProgressCl6 Proofs.TcpProgressCl7.

Notation sz st z := (net_sock st z).

Section CloseB.
Variables (tA : tuple) (X Y : Z) (MA MB : option Z) (Dt Da dk : Z).
Notation X1 := (seq_add X 1).
Notation Y1 := (seq_add Y 1).

Hypothesis HDt : 0 <= Dt.
Hypothesis HDt2 : 2 * Dt < tcp_RTTE_MIN_RTO * 1000.
Hypothesis Hnz : tuple_nz tA.
Hypothesis HX : 0 <= X < 4294967296.
Hypothesis HY : 0 <= Y < 4294967296.
Hypothesis HMB : match MB with Some m => seq_gt m Y = false | None => True end.
Hypothesis HMB2 : mlim MB Y.

(* the start: A in FIN-WAIT-1 with its FIN unsent or awaiting its retransmission at e <= T0, B quiet *)
Definition close_start_b (T0 : Z) (fa : fair_aux) (st : net) : Prop :=
  base SB Da dk fa st /\ ntrk fa SB /\ ntrk fa SA /\ net_now st SB <= T0 /\
  gview (cxz st SA) (sz st SA) (mirror tA) Established Y Y X (TIdle None) X MB /\
  mlim MA X /\
  (gview (cxz st SB) (sz st SB) tA FinWait1 X X Y (TIdle None) Y MA \/
   exists e, gview (cxz st SB) (sz st SB) tA FinWait1 X X1 Y (TRetransmit e) Y MA /\ e <= T0).

(* the FIN is acknowledged: A in FIN-WAIT-2, B in CLOSE-WAIT, nothing tracked *)
Definition fin_acked_b (fa : fair_aux) (st : net) : Prop := QS SB tA X Y MB Da dk fa st.

(* B has closed too and is CLOSED; A is in TIME-WAIT, its timer expires at ec *)
Definition last_acked_b (ec : Z) (fa : fair_aux) (st : net) : Prop := J3 SB tA X1 Y1 (Some X1) Da dk ec fa st.

Definition both_closed_b (st : net) : Prop := sock_closed (sz st SB) /\ sock_closed (sz st SA).

Lemma close_start_J_b T0 fa st : close_start_b T0 fa st -> J SB false tA X Y MB Dt Da dk T0 fa st.
Proof.
  intros (HB & N1 & N2 & Hc & GB & HM & GA). split; [exact HB|]. left.
  split; [exact N1|]. split; [exact N2|]. split; [exact GB|]. split; [exact Hc|].
  destruct GA as [G | (e & G & He)]; [left; exists MA; split; assumption | right; exists e, MA; auto].
Qed.

Theorem fin_eventually_acked_b T0 : forall evs fa st st',
  close_start_b T0 fa st -> Forall (cl_ev SB false) evs ->
  fair_run Dt Da fa st evs -> once_run Dt Da fa st evs -> net_run st evs = Ok st' ->
  T0 + 2 * Dt < net_now st' SB ->
  exists pre post st1,
    evs = pre ++ post /\ net_run st pre = Ok st1 /\ net_run st1 post = Ok st' /\
    net_now st1 SB <= T0 + 2 * Dt /\ fin_acked_b (fa_run Dt Da fa st pre) st1.
Proof.
  intros evs fa st st' Hs HE Hf Ho Hr Hp.
  destruct (half_close_completes SB false tA X Y MB Dt Da dk HDt HDt2 Hnz HX HY HMB T0 evs fa st st'
              (close_start_J_b _ _ _ Hs) HE Hf Ho Hr Hp) as (pre & post & st1 & E & H1 & H2 & _ & _ & _ & HQ).
  exists pre, post, st1. split; [exact E|]. split; [exact H1|]. split; [exact H2|].
  destruct HQ as (HB & HC & N1 & N2 & T1 & tm & HT & R1 & Htm & Hc).
  split; [lia|]. unfold rtm in Htm. subst tm.
  split; [exact HB|]. split; [exact HC|]. split; [exact R1|]. split; assumption.
Qed.

(* the situation lasts while B's application neither writes nor closes *)
Theorem close_wait_stable_b : forall evs fa st st',
  fin_acked_b fa st -> Forall (cl_ev SB false) evs -> fair_run Dt Da fa st evs -> once_run Dt Da fa st evs ->
  net_run st evs = Ok st' -> fin_acked_b (fa_run Dt Da fa st evs) st'.
Proof. exact (QS_run SB tA X Y MB Dt Da dk). Qed.

(* ---------------------------------------------------------------------------------------- *)
(* B's application closes                                                                    *)
(* ---------------------------------------------------------------------------------------- *)
Lemma base_swap_b fa st : base SB Da dk fa st -> base SA Da (- dk) fa st.
Proof. intros (A & B & C & D). split; [exact A|]. split; [exact B|]. split; [exact C|]. cbn [side_other] in *. lia. Qed.
Lemma base_swap_b' fa st : base SA Da (- dk) fa st -> base SB Da dk fa st.
Proof. intros (A & B & C & D). split; [exact A|]. split; [exact B|]. split; [exact C|]. cbn [side_other] in *. lia. Qed.

Lemma X1_range_b : 0 <= X1 < 4294967296.
Proof. unfold seq_add, seq_modulus. change (2 ^ 32) with 4294967296. apply Z.mod_pos_bound. lia. Qed.

Lemma close_step_b fa st st' :
  fin_acked_b fa st -> fair_ev fa st (NClose SA) -> net_step st (NClose SA) = Ok st' ->
  J SA true (mirror tA) Y X1 (Some X1) Dt Da (- dk) (net_now st SA) (fa_after Dt Da fa (NClose SA) st') st'.
Proof.
  intros (HB & GC & GR & N1 & N2) Hfe H.
  pose proof (base_step SB Dt Da dk _ _ _ _ HB Hfe H) as HB'. pose proof HB as (_ & _ & Hsy & _).
  destruct (net_step_kind _ _ _ H) as [w ev0 e' Hse He -> | to i Hx _ _ | d Hx _ | w isn0 ts Hx _ | to i Hd];
    try discriminate; [|destruct Hd; discriminate].
  cbn [sock_event] in Hse. destruct Hse as (<- & ->).
  destruct (sock_step_pieces st SA _ e' He) as (s' & out & tags & Hs & E1 & E2 & E3 & E4 & E5).
  destruct (step_close_cw _ _ _ _ _ _ _ _ _ _ _ _ GR Hs) as (Hw & G').
  cbn [side_other] in *.
  split; [exact (base_swap_b _ _ HB')|]. left.
  split; [exact (ntrk_keep Dt Da fa st _ _ SA Hsy Hfe H E4 N2)|].
  split; [apply (ntrk_keep Dt Da fa st _ _ SB Hsy Hfe H); [rewrite E5, Hw; apply app_nil_r | exact N1]|].
  split.
  { unfold Rv0, rst0. cbn [side_other]. rewrite mirror_mirror. apply view_other; [exact E3 | exact GC]. }
  split; [rewrite (net_step_now _ _ _ SA H); lia|].
  left. exists MB. split; [|exact HMB2].
  unfold Cv, cst0. rewrite E1, E2. exact G'.
Qed.

(* ---------------------------------------------------------------------------------------- *)
(* the second half and TIME-WAIT                                                             *)
(* ---------------------------------------------------------------------------------------- *)
Theorem last_ack_eventually_closed_b T0 : forall evs fa st st',
  J SA true (mirror tA) Y X1 (Some X1) Dt Da (- dk) T0 fa st ->
  fair_run Dt Da fa st evs -> once_run Dt Da fa st evs -> net_run st evs = Ok st' ->
  T0 + 2 * Dt < net_now st' SA ->
  exists pre post st1 ec,
    evs = pre ++ post /\ net_run st pre = Ok st1 /\ net_run st1 post = Ok st' /\
    fair_run Dt Da (fa_run Dt Da fa st pre) st1 post /\ once_run Dt Da (fa_run Dt Da fa st pre) st1 post /\
    ec <= T0 - dk + Dt + tcp_CLOSE_DELAY /\ last_acked_b ec (fa_run Dt Da fa st pre) st1.
Proof.
  intros evs fa st st' HJ Hf Ho Hr Hp.
  assert (HE : Forall (cl_ev SA true) evs).
  { apply Forall_forall. intros ev _. destruct ev; cbn; auto. }
  assert (HM : match Some X1 with Some m => seq_gt m X1 = false | None => True end) by apply seq_gt_refl.
  destruct (half_close_completes SA true (mirror tA) Y X1 (Some X1) Dt Da (- dk) HDt HDt2 (mirror_nz' _ Hnz) HY X1_range_b HM
              T0 evs fa st st' HJ HE Hf Ho Hr Hp) as (pre & post & st1 & E & H1 & H2 & _ & Hf1 & Ho1 & HQ).
  destruct HQ as (HB & HC & N1 & N2 & T1 & tm & HT & R1 & Htm & Hc).
  unfold rtm in Htm. destruct Htm as (ec & -> & Hec1 & Hec2).
  exists pre, post, st1, ec. split; [exact E|]. split; [exact H1|]. split; [exact H2|].
  split; [exact Hf1|]. split; [exact Ho1|]. split; [lia|].
  pose proof HB as (_ & _ & _ & Hdk). cbn [side_other] in *.
  split; [exact (base_swap_b' _ _ HB)|].
  split; [unfold Rv1, rst1 in R1; cbn [side_other] in R1; rewrite mirror_mirror in R1; exact R1|].
  split; [exact HC|]. split; [exact N2|]. split; [exact N1|].
  pose proof close_delay_big. lia.
Qed.

Theorem orderly_close_completes_b T0 : forall evs1 evs2 fa st st_m st',
  close_start_b T0 fa st -> Forall (cl_ev SB false) evs1 ->
  fair_run Dt Da fa st (evs1 ++ NClose SA :: evs2) -> once_run Dt Da fa st (evs1 ++ NClose SA :: evs2) ->
  net_run st evs1 = Ok st_m -> T0 + 2 * Dt < net_now st_m SB ->
  net_run st_m (NClose SA :: evs2) = Ok st' ->
  net_now st_m SB + 3 * Dt + tcp_CLOSE_DELAY < net_now st' SB ->
  exists pre post st_c,
    evs2 = pre ++ post /\ net_run st_m (NClose SA :: pre) = Ok st_c /\ net_run st_c post = Ok st' /\
    both_closed_b st_c.
Proof.
  intros evs1 evs2 fa st st_m st' Hs HE Hf Ho Hr1 Hp1 Hr2 Hp2.
  destruct (fair_run_app Dt Da evs1 _ fa st st_m Hr1 Hf) as (Hf1 & Hf2).
  destruct (once_run_app Dt Da evs1 _ fa st st_m Hr1 Ho) as (Ho1 & Ho2).
  (* first half, then stability up to B's close *)
  destruct (fin_eventually_acked_b T0 evs1 fa st st_m Hs HE Hf1 Ho1 Hr1 Hp1)
    as (pre1 & post1 & st1 & E1 & H11 & H12 & _ & HQ1).
  subst evs1. apply Forall_app in HE. destruct HE as (_ & HE1).
  destruct (fair_run_app Dt Da pre1 _ fa st st1 H11 Hf1) as (_ & Hf1').
  destruct (once_run_app Dt Da pre1 _ fa st st1 H11 Ho1) as (_ & Ho1').
  pose proof (close_wait_stable_b post1 _ st1 st_m HQ1 HE1 Hf1' Ho1' H12) as HQm.
  rewrite <- (fa_run_app Dt Da pre1 post1 fa st st1 H11) in HQm.
  set (fam := fa_run Dt Da fa st (pre1 ++ post1)) in *.
  (* B's close *)
  cbn [net_run] in Hr2. apply obind_ok in Hr2. destruct Hr2 as (st2 & Hs2 & Hr2).
  cbn [fair_run] in Hf2. destruct Hf2 as (Hev & Hf2). rewrite Hs2 in Hf2.
  cbn [once_run] in Ho2. destruct Ho2 as (_ & Ho2). rewrite Hs2 in Ho2.
  pose proof (close_step_b fam st_m st2 HQm Hev Hs2) as HJ2.
  pose proof HQm as ((_ & _ & _ & Hdk) & _). cbn [side_other] in Hdk.
  pose proof (net_run_skew _ _ _ Hr2) as Hsk2. pose proof (net_step_skew _ _ _ Hs2) as Hsk1.
  pose proof (net_step_now _ _ _ SB Hs2) as Hn2. cbn iota in Hn2.
  assert (HCD : 0 < tcp_CLOSE_DELAY) by (vm_compute; reflexivity).
  (* second half *)
  destruct (last_ack_eventually_closed_b (net_now st_m SA) evs2 _ st2 st' HJ2 Hf2 Ho2 Hr2 ltac:(lia))
    as (pre2 & post2 & st3 & ec & E2 & H21 & H22 & Hf3 & Ho3 & Hec & HQ2).
  (* TIME-WAIT *)
  destruct (time_wait_expires SB tA X1 Y1 (Some X1) Dt Da dk ec post2 _ st3 st' HQ2 Hf3 Ho3 H22 ltac:(lia))
    as (pre3 & post3 & st4 & E3 & H31 & H32 & HQ3).
  exists (pre2 ++ pre3), post3, st4.
  split; [rewrite E2, E3, app_assoc; reflexivity|].
  split; [cbn [net_run]; rewrite Hs2; cbn [obind]; exact (net_run_app pre2 pre3 st2 st3 st4 H21 H31)|].
  split; [exact H32 | exact HQ3].
Qed.

(* the same from the start of the reliable part of a run (the bookkeeping is [fa_init]): the channels are
   empty there iff nothing is tracked *)
Theorem orderly_close_reliable_b T0 : forall evs1 evs2 st st_m st',
  reliable_schedule Dt Da st (evs1 ++ NClose SA :: evs2) ->
  close_start_b T0 (fa_init Dt Da st) st -> Forall (cl_ev SB false) evs1 ->
  net_run st evs1 = Ok st_m -> T0 + 2 * Dt < net_now st_m SB ->
  net_run st_m (NClose SA :: evs2) = Ok st' ->
  net_now st_m SB + 3 * Dt + tcp_CLOSE_DELAY < net_now st' SB ->
  exists pre post st_c,
    evs2 = pre ++ post /\ net_run st_m (NClose SA :: pre) = Ok st_c /\ net_run st_c post = Ok st' /\
    both_closed_b st_c.
Proof.
  intros evs1 evs2 st st_m st' ((_ & _ & _ & Hf) & Ho) Hs HE H1 Hp1 H2 Hp2.
  exact (orderly_close_completes_b T0 evs1 evs2 _ st st_m st' Hs HE Hf Ho H1 Hp1 H2 Hp2).
Qed.

End CloseB.
