(* C04, layer 2: content of the receive ring and of the assembler (invariants I1-I3 of DESIGN.md
   Appendix A) and its preservation by the payload phase of `process`
   (assembler.add_then_remove_front + write_unallocated + enqueue_unallocated) and by
   recv/dequeue.  Uses the C15 theorems about the assembler.

   [S] is the peer's stream (byte at offset k), [F] the offset of its FIN if it has one, [have k]
   a ghost predicate "octet k arrived in some segment", [c] the number of octets the application
   has consumed. *)
From SV Require Import Lib.Base Gen.Consts.
From SV Require Import Model.Seq32 Model.Assembler Model.TcpBuf Model.TcpTypes Model.Tcp.
From SV Require Import Proofs.AssemblerProofs Proofs.TcpRecvBase Proofs.TcpRecvWindow.

Definition asm_cap : Z := cfg_ASSEMBLER_MAX_SEGMENT_COUNT.
Lemma asm_cap_pos : 1 <= asm_cap. Proof. vm_compute. discriminate. Qed.

Section Buf.
  Variable S : Z -> Z.
  Variable F : option Z.

  Definition buf_inv (have : Z -> Prop) (c : Z) (rx : ring) (a : asm) : Prop :=
    rb_wf rx /\ rb_cap rx <= p30 /\ asm_wf a /\ Z.of_nat (length a) <= asm_cap /\ 0 <= c /\
    (* I1 *) (forall i, 0 <= i < rb_len rx -> rb_cell rx i = S (c + i)) /\
    (* I2, I3 *) (forall o, tracked a o ->
                   o < rb_cap rx - rb_len rx /\ rb_cell rx (rb_len rx + o) = S (c + rb_len rx + o) /\
                   have (c + rb_len rx + o)) /\
    (forall k, 0 <= k < c + rb_len rx -> have k) /\
    (forall f, F = Some f -> c + rb_len rx <= f /\ forall o, tracked a o -> c + rb_len rx + o < f).

  Lemma tracked_nonneg a o : asm_wf a -> tracked a o -> 0 <= o.
  Proof. intros Hwf H. apply tracked_amem in H. apply (amem_lower 0 a o Hwf H). Qed.

  Lemma wf_nonempty_tracked a : asm_wf a -> a <> [] -> exists o, tracked a o.
  Proof.
    intros Hwf Hne. destruct a as [|ct r]; [congruence|]. cbn in Hwf.
    exists (c_hole ct). apply tracked_amem. cbn [amem]. left. unfold c_total. lia.
  Qed.

  Lemma no_tracked_nil a : asm_wf a -> (forall o, ~ tracked a o) -> a = [].
  Proof.
    intros Hwf H. destruct a as [|ct r]; [reflexivity|].
    destruct (wf_nonempty_tracked (ct :: r) Hwf ltac:(discriminate)) as (o & Ho).
    exfalso. exact (H o Ho).
  Qed.

  Lemma tracked_nil o : ~ tracked [] o.
  Proof. intros H. apply tracked_amem in H. exact H. Qed.

  (* --- the payload phase --- *)
  Lemma payload_buf_inv (have have' : Z -> Prop) c rx a off payload a' contig rx1 n :
    buf_inv have c rx a ->
    (forall k, have k -> have' k) ->
    0 <= off -> 0 < l_len payload -> off + l_len payload <= rb_window rx ->
    (forall j, 0 <= j < l_len payload ->
       znth payload j = S (c + rb_len rx + off + j) /\ have' (c + rb_len rx + off + j)) ->
    (forall f, F = Some f -> c + rb_len rx + off + l_len payload <= f) ->
    asm_atrf asm_cap a off (l_len payload) = (a', Some contig) ->
    rb_write_unallocated rx off payload = (rx1, n) ->
    n = l_len payload /\ 0 <= contig <= rb_window rx /\
    exists rx2,
      (if negb (contig =? 0) then rb_enqueue_unallocated rx1 contig else Ok rx1) = Ok rx2 /\
      buf_inv have' c rx2 a' /\
      rb_len rx2 = rb_len rx + contig /\ (rb_cap rx2 = rb_cap rx /\ rb_read_at rx2 = rb_read_at rx) /\
      (off = 0 -> l_len payload <= contig) /\
      (0 < off -> a = [] -> contig = 0 /\ a' <> []) /\
      (off = 0 -> a = [] -> contig = l_len payload /\ a' = []) /\
      (forall f, off = 0 -> F = Some f -> c + rb_len rx + l_len payload = f ->
                 contig = l_len payload) /\
      (forall i, 0 <= i < rb_cap rx ->
                 ~ (rb_len rx + off <= i < rb_len rx + off + l_len payload) ->
                 rb_cell rx2 i = rb_cell rx i).
  Proof.
    intros (Hwf & Hcap & Hawf & Halen & Hc & HI1 & HI2 & Hhave & HF) Hmono Hoff Hlen Hfit Hpay HFpay Hat Hw.
    set (size := l_len payload) in *.
    destruct (rb_write_unallocated_spec rx off payload rx1 n Hwf Hoff Hfit Hw)
      as (Hn & Hwf1 & Hcap1 & Hlen1 & Hra1 & Hcell1). fold size in Hn, Hcell1.
    pose proof (c15_atrf asm_cap a off size a' (Some contig) Hawf Halen asm_cap_pos Hoff ltac:(lia) Hat)
      as (u & Hu & Hmem & Hrf).
    destruct (c15_remove_front u a' contig Hu Hrf) as (Hawf' & Hcontig0 & Hzero & Hpos).
    pose proof (step_inv asm_cap a (AAtrf off size) asm_cap_pos (conj Hawf Halen)
                         ltac:(cbn; lia)) as (_ & Halen').
    cbn [asm_step] in Halen'. rewrite Hat in Halen'. cbn [fst] in Halen'.
    pose proof Hwf as (Hl & Hs & Hr0 & Hr). unfold rb_window in *.
    (* every offset tracked after the insertion lies in the window and holds the right byte *)
    assert (Hu_all : forall x, tracked u x ->
              0 <= x < rb_cap rx - rb_len rx /\
              rb_cell rx1 (rb_len rx + x) = S (c + rb_len rx + x) /\ have' (c + rb_len rx + x) /\
              forall f, F = Some f -> c + rb_len rx + x < f).
    { intros x Hx. pose proof (tracked_nonneg u x Hu Hx) as Hx0.
      apply Hmem in Hx.
      destruct (Z_le_gt_dec off x) as [Hge|Hlt]; [destruct (Z_lt_le_dec x (off + size)) as [Hin|Hout]|].
      - (* freshly written *)
        split; [lia|]. rewrite Hcell1 by lia.
        destruct (Z.leb_spec (rb_len rx + off) (rb_len rx + x)); [|lia].
        destruct (Z.ltb_spec (rb_len rx + x) (rb_len rx + off + size)); [|lia]. cbn [andb].
        destruct (Hpay (x - off) ltac:(lia)) as (Hb & Hh).
        replace (rb_len rx + x - (rb_len rx + off)) with (x - off) by lia.
        replace (c + rb_len rx + off + (x - off)) with (c + rb_len rx + x) in * by lia.
        split; [exact Hb|]. split; [exact Hh|].
        intros f Hf. specialize (HFpay f Hf). lia.
      - destruct Hx as [Hx|Hx]; [|lia].
        destruct (HI2 x Hx) as (Hb1 & Hb2 & Hb3). split; [lia|].
        rewrite Hcell1 by lia.
        destruct (Z.leb_spec (rb_len rx + off) (rb_len rx + x));
          destruct (Z.ltb_spec (rb_len rx + x) (rb_len rx + off + size)); cbn [andb]; try lia.
        split; [exact Hb2|]. split; [apply Hmono; exact Hb3|].
        intros f Hf. apply (proj2 (HF f Hf)). exact Hx.
      - destruct Hx as [Hx|Hx]; [|lia].
        destruct (HI2 x Hx) as (Hb1 & Hb2 & Hb3). split; [lia|].
        rewrite Hcell1 by lia.
        destruct (Z.leb_spec (rb_len rx + off) (rb_len rx + x)); cbn [andb]; try lia.
        split; [exact Hb2|]. split; [apply Hmono; exact Hb3|].
        intros f Hf. apply (proj2 (HF f Hf)). exact Hx. }
    assert (Hcontig_le : contig <= rb_cap rx - rb_len rx).
    { destruct (Z.eq_dec contig 0) as [->|Hne]; [lia|].
      destruct (Hpos ltac:(lia)) as (Hrun & _).
      destruct (Hu_all (contig - 1) (Hrun (contig - 1) ltac:(lia))) as (Hb & _). lia. }
    split; [exact Hn|]. split; [lia|].
    (* the ring after enqueue_unallocated *)
    assert (Hrx2 : exists rx2,
              (if negb (contig =? 0) then rb_enqueue_unallocated rx1 contig else Ok rx1) = Ok rx2 /\
              rb_wf rx2 /\ rb_cap rx2 = rb_cap rx /\ rb_len rx2 = rb_len rx + contig /\
              rb_read_at rx2 = rb_read_at rx /\
              forall i, rb_cell rx2 i = rb_cell rx1 i).
    { destruct (Z.eqb_spec contig 0) as [->|Hne]; cbn [negb].
      - exists rx1. split; [reflexivity|]. split; [exact Hwf1|]. split; [exact Hcap1|].
        split; [lia|]. split; [exact Hra1 | reflexivity].
      - destruct (rb_enqueue_unallocated_spec rx1 contig Hwf1 ltac:(unfold rb_window; lia))
          as (rx2 & He & Hwf2 & Hc2 & Hl2 & Hr2 & Hcell2).
        exists rx2. split; [exact He|]. split; [exact Hwf2|]. split; [lia|].
        split; [lia|]. split; [congruence | exact Hcell2]. }
    destruct Hrx2 as (rx2 & He & Hwf2 & Hc2 & Hl2 & Hra2 & Hcell2).
    exists rx2. split; [exact He|].
    (* which offsets are tracked afterwards *)
    assert (Ha' : forall o, tracked a' o -> tracked u (o + contig) /\ 0 <= o).
    { intros o Ho. destruct (Z.eq_dec contig 0) as [E|E].
      - destruct (Hzero E) as (-> & _). rewrite E. replace (o + 0) with o by lia.
        split; [exact Ho | apply (tracked_nonneg u o Hu Ho)].
      - destruct (Hpos ltac:(lia)) as (_ & _ & Hsh). apply Hsh. exact Ho. }
    split.
    { (* buf_inv *)
      split; [exact Hwf2|]. split; [lia|]. split; [exact Hawf'|]. split; [exact Halen'|].
      split; [exact Hc|]. split; [|split; [|split]].
      - intros i Hi. rewrite Hcell2. destruct (Z_lt_le_dec i (rb_len rx)) as [Hlo|Hhi].
        + rewrite Hcell1 by lia.
          destruct (Z.leb_spec (rb_len rx + off) i); cbn [andb]; [lia|]. apply HI1. lia.
        + destruct (Hpos ltac:(lia)) as (Hrun & _).
          destruct (Hu_all (i - rb_len rx) (Hrun (i - rb_len rx) ltac:(lia))) as (_ & Hb & _).
          replace (rb_len rx + (i - rb_len rx)) with i in Hb by lia.
          replace (c + rb_len rx + (i - rb_len rx)) with (c + i) in Hb by lia. exact Hb.
      - intros o Ho. destruct (Ha' o Ho) as (Htu & Ho0).
        destruct (Hu_all (o + contig) Htu) as (Hb1 & Hb2 & Hb3 & _).
        rewrite Hc2, Hl2, Hcell2.
        replace (rb_len rx + contig + o) with (rb_len rx + (o + contig)) by lia.
        replace (c + (rb_len rx + contig) + o) with (c + rb_len rx + (o + contig)) by lia.
        split; [lia|]. split; [exact Hb2 | exact Hb3].
      - intros k Hk. rewrite Hl2 in Hk. destruct (Z_lt_le_dec k (c + rb_len rx)) as [Hlo|Hhi].
        + apply Hmono, Hhave. lia.
        + destruct (Hpos ltac:(lia)) as (Hrun & _).
          destruct (Hu_all (k - c - rb_len rx) (Hrun (k - c - rb_len rx) ltac:(lia))) as (_ & _ & Hb & _).
          replace (c + rb_len rx + (k - c - rb_len rx)) with k in Hb by lia. exact Hb.
      - intros f Hf. rewrite Hl2. split.
        + destruct (Z.eq_dec contig 0) as [->|Hne]; [destruct (HF f Hf); lia|].
          destruct (Hpos ltac:(lia)) as (Hrun & _).
          destruct (Hu_all (contig - 1) (Hrun (contig - 1) ltac:(lia))) as (_ & _ & _ & Hb).
          specialize (Hb f Hf). lia.
        + intros o Ho. destruct (Ha' o Ho) as (Htu & Ho0).
          destruct (Hu_all (o + contig) Htu) as (_ & _ & _ & Hb). specialize (Hb f Hf). lia. }
    split; [exact Hl2|]. split; [split; [exact Hc2 | exact Hra2]|].
    (* shape of contig *)
    assert (Hfront : off = 0 -> size <= contig).
    { intros ->. destruct (Z_lt_le_dec contig size) as [Hlt|Hge]; [|exact Hge]. exfalso.
      assert (Ht : tracked u contig) by (apply Hmem; right; lia).
      destruct (Z.eq_dec contig 0) as [E|E].
      - destruct (Hzero E) as (_ & Hn0). rewrite E in Ht. exact (Hn0 Ht).
      - destruct (Hpos ltac:(lia)) as (_ & Hn0 & _). exact (Hn0 Ht). }
    assert (Hnot_beyond : ~ tracked a size -> off = 0 -> contig = size).
    { intros Hns Hoff0. specialize (Hfront Hoff0).
      destruct (Z.eq_dec contig size) as [E|E]; [exact E|]. exfalso.
      destruct (Hpos ltac:(lia)) as (Hrun & _).
      pose proof (Hrun size ltac:(lia)) as Ht. apply Hmem in Ht. destruct Ht as [Ht|Ht]; [exact (Hns Ht) | lia]. }
    split; [exact Hfront|]. split; [|split].
    - intros Hoff0 ->.
      assert (Hn0 : ~ tracked u 0).
      { intros Ht. apply Hmem in Ht. destruct Ht as [Ht|Ht]; [exact (tracked_nil 0 Ht) | lia]. }
      assert (Ec : contig = 0).
      { destruct (Z.eq_dec contig 0) as [E|E]; [exact E|]. exfalso.
        destruct (Hpos ltac:(lia)) as (Hrun & _). exact (Hn0 (Hrun 0 ltac:(lia))). }
      split; [exact Ec|]. destruct (Hzero Ec) as (-> & _). intros ->.
      assert (Ht : tracked [] off) by (apply Hmem; right; lia). exact (tracked_nil off Ht).
    - intros Hoff0 ->. pose proof (Hnot_beyond (tracked_nil size) Hoff0) as Ec.
      split; [exact Ec|]. apply no_tracked_nil; [exact Hawf'|].
      intros o Ho. destruct (Ha' o Ho) as (Htu & Ho0). apply Hmem in Htu.
      destruct Htu as [Ht|Ht]; [exact (tracked_nil _ Ht) | lia].
    - split.
      + intros f Hoff0 Hf Heq. apply Hnot_beyond; [|exact Hoff0].
        intros Ht. destruct (HF f Hf) as (_ & Hb). specialize (Hb size Ht). lia.
      + intros i Hi Hout. rewrite Hcell2, Hcell1 by exact Hi.
        destruct (Z.leb_spec (rb_len rx + off) i); destruct (Z.ltb_spec i (rb_len rx + off + size));
          cbn [andb]; try reflexivity. lia.
  Qed.

  (* --- recv: dequeue_slice hands out S[c .. c+k) and shifts the rest --- *)
  Lemma dequeue_buf_inv (have : Z -> Prop) c rx a n rx' b :
    buf_inv have c rx a -> 0 <= n -> rb_dequeue_slice rx n = (rx', b) ->
    let k := l_len b in
    k = Z.min (rb_len rx) n /\
    (forall j, 0 <= j < k -> znth b j = S (c + j)) /\
    rb_len rx' = rb_len rx - k /\ rb_cap rx' = rb_cap rx /\
    buf_inv have (c + k) rx' a.
  Proof.
    intros (Hwf & Hcap & Hawf & Halen & Hc & HI1 & HI2 & Hhave & HF) Hn Hd.
    destruct (rb_dequeue_slice_spec rx n rx' b Hwf Hn Hd) as (Hk & Hwf' & Hc' & Hl' & Hb & Hcell).
    cbv zeta in *. set (k := l_len b) in *. pose proof Hwf as (Hl & _).
    split; [exact Hk|]. split.
    { intros j Hj. rewrite Hb by exact Hj. apply HI1. lia. }
    split; [exact Hl'|]. split; [exact Hc'|].
    split; [exact Hwf'|]. split; [lia|]. split; [exact Hawf|]. split; [exact Halen|].
    split; [lia|]. split; [|split; [|split]].
    - intros i Hi. rewrite Hcell, HI1 by lia. f_equal. lia.
    - intros o Ho. destruct (HI2 o Ho) as (H1 & H2 & H3). rewrite Hc', Hl', Hcell.
      replace (k + (rb_len rx - k + o)) with (rb_len rx + o) by lia.
      replace (c + k + (rb_len rx - k) + o) with (c + rb_len rx + o) by lia.
      split; [lia|]. split; assumption.
    - intros i Hi. apply Hhave. lia.
    - intros f Hf. destruct (HF f Hf) as (H1 & H2). rewrite Hl'. split; [lia|].
      intros o Ho. specialize (H2 o Ho). lia.
  Qed.

  (* an empty ring with an empty assembler satisfies the invariant for any stream *)
  Lemma buf_inv_empty (have : Z -> Prop) rx :
    rb_wf rx -> rb_cap rx <= p30 -> rb_len rx = 0 -> (forall f, F = Some f -> 0 <= f) ->
    buf_inv have 0 rx [].
  Proof.
    intros Hwf Hcap Hlen HF. split; [exact Hwf|]. split; [exact Hcap|]. split; [exact I|].
    split; [pose proof asm_cap_pos; cbn [length]; lia|]. split; [lia|].
    split; [intros i Hi; lia|]. split; [intros o Ho; exfalso; exact (tracked_nil o Ho)|].
    split; [intros k Hk; lia|]. intros f Hf. specialize (HF f Hf). split; [lia|].
    intros o Ho. exfalso. exact (tracked_nil o Ho).
  Qed.

  Lemma buf_inv_mono (have have' : Z -> Prop) c rx a :
    (forall k, have k -> have' k) -> buf_inv have c rx a -> buf_inv have' c rx a.
  Proof.
    intros Hm (Hwf & Hcap & Hawf & Halen & Hc & HI1 & HI2 & Hhave & HF).
    repeat (split; [assumption|]). split; [|split; [|exact HF]].
    - intros o Ho. destruct (HI2 o Ho) as (H1 & H2 & H3). repeat split; auto.
    - intros k Hk. auto.
  Qed.
End Buf.
