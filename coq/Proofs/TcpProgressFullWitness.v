(* C02 (liveness half): NON-VACUITY of oneway_transfer_from_net_init (Proofs/TcpProgressHsLive2.v):
   a fair schedule FROM net_init (handshake, 5 octets, delayed ACK, the clock runs on) on which every
   premise holds - including the residual regime premise [open_regime] - so that the theorem applies:
   both sockets are ESTABLISHED inside the run before A's clock has advanced by 3 Dt. *)
From SV Require Import Lib.Base Gen.Consts.
From SV Require Import Model.Seq32 Model.Assembler Model.TcpBuf Model.TcpTypes Model.Tcp Model.TcpNet.
From SV Require Import Proofs.TcpSendBase Proofs.TcpLiveBase Proofs.TcpLiveProofs Proofs.TcpLiveMore
  Proofs.TcpLiveProgress.
From SV Require Import Proofs.TcpNetBase.
From SV Require Proofs.TcpNetInv.
From SV Require Import Proofs.TcpProgressBase Proofs.TcpProgressFrame Proofs.TcpProgressCtl Proofs.TcpProgressRecv
  Proofs.TcpProgressSend Proofs.TcpProgressNet Proofs.TcpProgressData Proofs.TcpProgressAck
  Proofs.TcpProgressAll Proofs.TcpProgressSafe Proofs.TcpProgressExample Proofs.TcpProgressWitness
  Proofs.TcpProgressHsNet Proofs.TcpProgressHsInit Proofs.TcpProgressHsLive Proofs.TcpProgressHsLive2
  Proofs.TcpProgressSafeWitness.

(* ---------------------------------------------------------------------------------------- *)
(* one fair schedule from net_init: handshake, then 5 octets, delayed ACK, the clock runs on   *)
(* ---------------------------------------------------------------------------------------- *)
Definition full_sched : list net_event :=
  [NPoll SA true; NDeliver SB 0; NPoll SB true; NDeliver SA 0; NPoll SA true; NDeliver SB 1;
   NSend SA [1;2;3;4;5]; NPoll SA true; NDeliver SB 2; NRecv SB 100;
   NTick tcp_ACK_DELAY_DEFAULT; NPoll SB true; NDeliver SA 1; NTick 400000000].

Definition open_regimeb (Dack : Z) (st : net) : bool :=
  (if tcp_state_eqb (s_state (net_sock st SB)) SynReceived && is_some (s_remote_last_ack (net_sock st SB))
   then adv_Wb (net_sock st SB) 1 else true) &&
  (win_openb SA st || negb (tcp_state_eqb (s_state (net_sock st SA)) Established
                            && tcp_state_eqb (s_state (net_sock st SB)) Established)).

Lemma open_regimeb_sound Dack st : open_regimeb Dack st = true -> open_regime Dack st.
Proof.
  unfold open_regimeb. intros H. apply andb_true_iff in H. destruct H as (H1 & H2). split.
  - intros Hs Hla. rewrite Hs in H1. cbn [tcp_state_eqb andb] in H1.
    destruct (s_remote_last_ack (net_sock st SB)); [|contradiction]. cbn [is_some] in H1.
    destruct (adv_Wb_sound _ _ H1) as (W & HW & E). exists W. split; [lia | exact E].
  - intros HG. apply orb_true_iff in H2. destruct H2 as [H2 | H2]; [exact (win_openb_sound SA st H2)|].
    rewrite (rg_est _ _ _ HG SA), (rg_est _ _ _ HG SB) in H2. discriminate.
Qed.

Fixpoint run_openb (Dack : Z) (st : net) (evs : list net_event) : bool :=
  open_regimeb Dack st &&
  match evs with
  | [] => true
  | ev :: rest => match net_step st ev with Ok st' => run_openb Dack st' rest | _ => true end
  end.

Lemma run_openb_sound Dack evs : forall st, run_openb Dack st evs = true -> run_all (open_regime Dack) st evs.
Proof.
  induction evs as [|ev r IH]; intros st H; cbn [run_openb run_all] in *;
    apply andb_true_iff in H; destruct H as (H1 & H2); (split; [apply open_regimeb_sound; exact H1|]); [exact I|].
  destruct (net_step st ev); try exact I. apply IH. exact H2.
Qed.

Definition full_check (ca cb : ep_config) (evs : list net_event) (Dt Da Dack : Z) : bool :=
  match net_init ca cb with
  | Ok st0 =>
      net_started st0 && forallb (app_evb SA) evs &&
      opts_okb st0 && fair_runb Dt Da (fa_init Dt Da st0) st0 evs && run_openb Dack st0 evs &&
      (0 <=? Dt) && (0 <=? Da) && (0 <=? Dack) &&
      match net_run st0 evs with
      | Ok st' => (net_now st0 SA + 3 * Dt + Z.of_nat 5 * W3 Dt Dack + Z.of_nat 5 * Da <? net_now st' SA) &&
                  (l_len (ep_written (net_get st' SA)) <? 2 ^ 30) && (l_len (ep_written (net_get st' SB)) <? 2 ^ 30)
      | _ => false
      end
  | _ => false
  end.

Lemma full_package ca cb evs Dt Da Dack :
  cfg_good ca -> cfg_good cb -> cfg_plain ca -> cfg_plain cb -> c_addr ca <> 0 ->
  match c_ack_delay cb with Some d => 0 <= d <= Dack | None => True end ->
  full_check ca cb evs Dt Da Dack = true ->
  exists st0 st' pre post st1,
    start_ok Dack ca cb st0 /\ fair_schedule Dt Da st0 evs /\
    net_run st0 evs = Ok st' /\ evs = pre ++ post /\ net_run st0 pre = Ok st1 /\
    net_run st1 post = Ok st' /\ (forall z, s_state (net_sock st1 z) = Established) /\
    net_now st1 SA <= net_now st0 SA + 3 * Dt.
Proof.
  intros Ga Gb Pa Pb Haddr Hdel H. unfold full_check in H.
  destruct (net_init ca cb) as [st0|e|] eqn:Ei; try discriminate.
  apply andb_true_iff in H. destruct H as (H & Hend).
  apply andb_true_iff in H. destruct H as (H & Hd3).
  apply andb_true_iff in H. destruct H as (H & Hd2).
  apply andb_true_iff in H. destruct H as (H & Hd1).
  apply andb_true_iff in H. destruct H as (H & Hop).
  apply andb_true_iff in H. destruct H as (H & Hf).
  apply andb_true_iff in H. destruct H as (H & Ho).
  apply andb_true_iff in H. destruct H as (Hst & Hpa).
  destruct (net_run st0 evs) as [st'|e|] eqn:Es; try discriminate.
  apply andb_true_iff in Hend. destruct Hend as (Hend & Hsb).
  apply andb_true_iff in Hend. destruct Hend as (Hclk & Hsa).
  assert (Hstart : start_ok Dack ca cb st0) by (unfold start_ok; auto 10).
  assert (Hfs : fair_schedule Dt Da st0 evs).
  { split; [lia|]. split; [lia|]. split; [apply opts_okb_sound; exact Ho | apply fair_runb_sound; exact Hf]. }
  assert (Hsz : forall z, l_len (ep_written (net_get st' z)) < 2 ^ 30) by (intros z; destruct z; cbn [net_get] in *; lia).
  apply Z.leb_le in Hd1, Hd2, Hd3.
  assert (Hw3 : 0 <= Z.of_nat 5 * W3 Dt Dack + Z.of_nat 5 * Da).
  { unfold W3. pose proof max_rto_us_pos. change (Z.of_nat 5) with 5. lia. }
  destruct (oneway_transfer_from_net_init Dt Da Dack ca cb st0 evs st' Hstart ltac:(lia) Hfs
              (app_evb_sound SA _ Hpa) Es Hsz (run_openb_sound Dack _ st0 Hop) ltac:(lia))
    as (pre & post & st1 & E & Hp1 & Hp2 & Hest & Hc & _).
  exists st0, st', pre, post, st1. split; [exact Hstart|]. split; [exact Hfs|]. split; [first [reflexivity | exact Es]|].
  split; [exact E|]. split; [exact Hp1|]. split; [exact Hp2|]. split; [exact Hest | exact Hc].
Qed.

Lemma full_check_ok : full_check ex_cfg_a ex_cfg_b full_sched 10000 5000 10000 = true.
Proof. vm_compute. reflexivity. Qed.

(* the end-to-end theorem applies to this schedule: both sockets become ESTABLISHED inside the run,
   before A's clock has advanced by 3 Dt *)
Theorem transfer_from_net_init_applies :
  exists st0 st' pre post st1,
    start_ok 10000 ex_cfg_a ex_cfg_b st0 /\ fair_schedule 10000 5000 st0 full_sched /\
    net_run st0 full_sched = Ok st' /\ full_sched = pre ++ post /\ net_run st0 pre = Ok st1 /\
    net_run st1 post = Ok st' /\ (forall z, s_state (net_sock st1 z) = Established) /\
    net_now st1 SA <= net_now st0 SA + 3 * 10000.
Proof.
  destruct ex_cfg_good as (Ga & Gb).
  apply (full_package ex_cfg_a ex_cfg_b full_sched 10000 5000 10000 Ga Gb); try exact full_check_ok.
  - split; reflexivity.
  - split; reflexivity.
  - cbn. lia.
  - cbn. unfold tcp_ACK_DELAY_DEFAULT. lia.
Qed.
