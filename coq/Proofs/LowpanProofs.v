(* Lemmas about Model/Lowpan.v (property C20, step 4): decompression never panics; compression
   followed by decompression reproduces the datagram (whole and first-fragment forms). *)
From SV Require Import Lib.Base Gen.Consts Gen.WireFields Model.WireBase Model.WireSixFrag Model.WireNhc.
From SV Require Import Model.WireIphc Model.Assembler Model.LowpanFrag Model.Lowpan.
From SV Require Import Proofs.WireBaseProofs Proofs.AssemblerProofs Proofs.LowpanWireProofs Proofs.LowpanFragProofs.
From SV Require Import Proofs.LowpanIphcBitsProofs Proofs.LowpanIphcProofs.

(* ================================================================================
   decompress_no_panic
   ================================================================================ *)

(* ---------- NHC extension header view ---------- *)

Lemma nhc_get_field_ok b mask shift : 0 < blen b ->
  exists x, wb_get_u8 b 0 = Ok x /\ nhc_get_field b mask shift = Ok (Z.land (Z.shiftr x shift) mask).
Proof.
  intros H. unfold nhc_get_field. rewrite wb_get_u8_ok by lia. eexists. split; reflexivity.
Qed.

Lemma nhc_ext_check_len_inv b : nhc_ext_check_len b = Ok tt ->
  exists x len, wb_get_u8 b 0 = Ok x /\
    let n := if Z.land (Z.shiftr x 0) 1 =? 0 then 1 else 0 in
    wb_get_u8 b (1 + n) = Ok len /\ 2 + n + len <= blen b /\ 2 + n <= blen b.
Proof.
  unfold nhc_ext_check_len, nhc_ext_next_header_size, nhc_ext_nh_field. pose proof (blen_nonneg b).
  destruct (blen b =? 0) eqn:E0; [intros HH; discriminate HH|]. bsplit.
  destruct (nhc_get_field_ok b 1 0 ltac:(lia)) as (x & Ex & Ef). rewrite Ef. cbn [obind].
  set (n := if Z.land (Z.shiftr x 0) 1 =? 0 then 1 else 0).
  destruct (blen b <? 2 + n) eqn:E1; [intros HH; discriminate HH|]. bsplit.
  assert (Hn : 0 <= n <= 1) by (subst n; destruct (_ =? 0); lia).
  rewrite wb_get_u8_ok by lia. cbn [obind].
  destruct (2 + n + _ <=? blen b) eqn:E2; [|intros HH; discriminate HH]. bsplit.
  intros _. exists x. eexists. split; [exact Ex|]. cbv zeta. fold n.
  split; [apply wb_get_u8_ok; lia|]. split; lia.
Qed.

Lemma nhc_ext_check_len_total b : nhc_ext_check_len b <> Panic.
Proof.
  unfold nhc_ext_check_len, nhc_ext_next_header_size, nhc_ext_nh_field. pose proof (blen_nonneg b).
  destruct (blen b =? 0) eqn:E0; [discriminate|]. bsplit.
  destruct (nhc_get_field_ok b 1 0 ltac:(lia)) as (x & Ex & Ef). rewrite Ef. cbn [obind].
  set (n := if Z.land (Z.shiftr x 0) 1 =? 0 then 1 else 0).
  assert (Hn : 0 <= n <= 1) by (subst n; destruct (_ =? 0); lia).
  destruct (blen b <? 2 + n) eqn:E1; [discriminate|]. bsplit.
  rewrite wb_get_u8_ok by lia. cbn [obind]. destruct (_ <=? blen b); discriminate.
Qed.

(* after check_len every accessor the decompressor uses is panic-free and the payload is in range *)
Lemma land1_cases a : Z.land a 1 = 0 \/ Z.land a 1 = 1.
Proof.
  change (Z.land a 1) with (Z.land a (Z.ones 1)). rewrite Z.land_ones by lia.
  pose proof (Z.mod_pos_bound a (2 ^ 1) ltac:(lia)). change (2 ^ 1) with 2 in *. lia.
Qed.

Lemma wb_get_u8_byte b i v : bytes_ok b = true -> wb_get_u8 b i = Ok v -> 0 <= v < 256.
Proof.
  intros Hb H. unfold wb_get_u8 in H. destruct ((0 <=? i) && (i <? blen b)) eqn:E; [|discriminate H].
  injection H as <-. bsplit. apply bytes_ok_nth; [assumption | unfold blen in *; lia].
Qed.

Lemma nhc_ext_safe b : bytes_ok b = true -> nhc_ext_check_len b = Ok tt ->
  nhc_ext_new_checked b <> Panic /\ nhc_ext_parse b <> Panic /\ nhc_ext_eid_field b <> Panic /\
  nhc_ext_payload b <> Panic /\
  (forall er, nhc_ext_parse b = Ok er ->
     0 <= ne_length er /\ 2 <= nhc_ext_buffer_len er <= 3 /\
     nhc_ext_buffer_len er + ne_length er <= blen b).
Proof.
  intros Hb Hc. destruct (nhc_ext_check_len_inv b Hc) as (x & len & Ex & Hlen & Hle & Hle2).
  cbv zeta in *. set (n := if Z.land (Z.shiftr x 0) 1 =? 0 then 1 else 0) in *.
  assert (Hn : 0 <= n <= 1) by (subst n; destruct (_ =? 0); lia).
  assert (Hgf : forall mask shift, nhc_get_field b mask shift = Ok (Z.land (Z.shiftr x shift) mask))
    by (intros; unfold nhc_get_field; rewrite Ex; reflexivity).
  assert (Hl0 : 0 <= len) by (pose proof (wb_get_u8_byte b _ len Hb Hlen); lia).
  unfold nhc_ext_new_checked, nhc_ext_parse, nhc_ext_eid_field, nhc_ext_payload, nhc_ext_dispatch_field,
    nhc_ext_next_header, nhc_ext_length, nhc_ext_next_header_size, nhc_ext_nh_field.
  rewrite Hc, !Hgf. cbn [obind]. fold n.
  split; [destruct (7 <? _); discriminate|].
  split.
  { destruct (negb _); [discriminate|]. cbn [obind].
    destruct (Z.land (Z.shiftr x 0) 1 =? 1); cbn [obind]; [rewrite Hlen; discriminate|].
    rewrite wb_get_u8_ok by lia. cbn [obind]. rewrite Hlen. discriminate. }
  split; [discriminate|].
  split.
  { rewrite Hlen. cbn [obind]. unfold wb_from, wb_upto.
    replace ((0 <=? 2 + n) && (2 + n <=? blen b)) with true by (symmetry; zbool; reflexivity). cbn [obind].
    rewrite blen_skipn by lia.
    replace ((0 <=? len) && (len <=? blen b - (2 + n))) with true by (symmetry; zbool; reflexivity). discriminate. }
  intros er H.
  destruct (negb _); [discriminate H|]. cbn [obind] in H.
  assert (Hbits : Z.land (Z.shiftr x 0) 1 = 0 \/ Z.land (Z.shiftr x 0) 1 = 1) by apply land1_cases.
  destruct (Z.land (Z.shiftr x 0) 1 =? 1) eqn:E1; cbn [obind] in H.
  - rewrite Hlen in H. injection H as <-. unfold nhc_ext_buffer_len. cbn [ne_next ne_length].
    apply Z.eqb_eq in E1. subst n. rewrite E1 in *.
    replace (if 1 =? 0 then 1 else 0) with 0 in * by reflexivity. lia.
  - destruct (wb_get_u8 b 1); cbn [obind] in H; try discriminate H. rewrite Hlen in H. injection H as <-.
    unfold nhc_ext_buffer_len. cbn [ne_next ne_length].
    apply Z.eqb_neq in E1. assert (E0 : Z.land (Z.shiftr x 0) 1 = 0) by lia. subst n. rewrite E0 in *.
    replace (if 0 =? 0 then 1 else 0) with 1 in * by reflexivity. lia.
Qed.

Lemma nhc_ext_new_checked_total b : nhc_ext_new_checked b <> Panic.
Proof.
  unfold nhc_ext_new_checked. destruct (nhc_ext_check_len b) as [[]| |] eqn:E; cbn [obind]; try discriminate.
  - destruct (nhc_ext_check_len_inv b E) as (x & len & Ex & _).
    unfold nhc_ext_eid_field, nhc_get_field. rewrite Ex. cbn [obind]. destruct (7 <? _); discriminate.
  - exfalso. exact (nhc_ext_check_len_total b E).
Qed.

Lemma nhc_ext_new_checked_inv b : nhc_ext_new_checked b = Ok tt -> nhc_ext_check_len b = Ok tt.
Proof.
  unfold nhc_ext_new_checked. destruct (nhc_ext_check_len b) as [[]| |]; cbn [obind]; intros H;
    [reflexivity | discriminate H | discriminate H].
Qed.

Lemma lp_decompress_next_header_total nh payload : bytes_ok payload = true ->
  lp_decompress_next_header nh payload <> Panic.
Proof.
  intros Hb. unfold lp_decompress_next_header. destruct nh; [discriminate|].
  apply obind_nopanic; [apply nhc_dispatch_total|]. intros k _.
  destruct (k =? 0); [|discriminate].
  destruct (nhc_ext_new_checked payload) as [[]| |] eqn:E; cbn [obind]; try discriminate.
  - apply nhc_ext_new_checked_inv in E. destruct (nhc_ext_safe payload Hb E) as (_ & _ & He & _).
    apply obind_nopanic; [assumption | discriminate].
  - exfalso. exact (nhc_ext_new_checked_total payload E).
Qed.

Lemma wb_from_bytes l lo r : bytes_ok l = true -> wb_from l lo = Ok r -> bytes_ok r = true.
Proof.
  intros Hb H. unfold wb_from in H. destruct ((0 <=? lo) && (lo <=? blen l)); [|discriminate H].
  injection H as <-. apply bytes_ok_skipn. assumption.
Qed.

Lemma wb_from_len l lo r : wb_from l lo = Ok r -> 0 <= lo <= blen l /\ blen r = blen l - lo.
Proof.
  intros H. unfold wb_from in H. destruct ((0 <=? lo) && (lo <=? blen l)) eqn:E; [|discriminate H].
  injection H as <-. bsplit. rewrite blen_skipn by lia. lia.
Qed.

(* decompress_ext_hdr: never panics; consumes at least two octets; keeps the bookkeeping sane *)
Lemma lp_decompress_ext_hdr_spec data s : bytes_ok data = true -> 0 <= ds_room s ->
  lp_decompress_ext_hdr data s <> Panic /\
  forall s' data' nh', lp_decompress_ext_hdr data s = Ok (s', data', nh') ->
    bytes_ok data' = true /\ blen data' + 2 <= blen data /\ 0 <= ds_room s' /\
    ds_payload_len s <= ds_payload_len s' /\
    blen (ds_out s') + ds_room s' = blen (ds_out s) + ds_room s.
Proof.
  intros Hb Hroom. unfold lp_decompress_ext_hdr.
  destruct (nhc_ext_new_checked data) as [[]| |] eqn:Enc; cbn [obind];
    [|split; [discriminate | intros ? ? ? HH; discriminate HH] | exfalso; exact (nhc_ext_new_checked_total data Enc)].
  pose proof (nhc_ext_new_checked_inv data Enc) as Ecl.
  destruct (nhc_ext_safe data Hb Ecl) as (_ & Hp & _ & Hpl & Her).
  destruct (nhc_ext_parse data) as [er| |] eqn:Ep; cbn [obind];
    [|split; [discriminate | intros ? ? ? HH; discriminate HH] | congruence].
  destruct (Her er eq_refl) as (Hl0 & Hbl & Hle).
  replace (blen data <? nhc_ext_buffer_len er + ne_length er) with false by (symmetry; apply Z.ltb_ge; lia).
  rewrite (wb_from_ok data (ne_length er + nhc_ext_buffer_len er)) by lia. cbn [obind].
  assert (Hba : bytes_ok (skipn (Z.to_nat (ne_length er + nhc_ext_buffer_len er)) data) = true)
    by (apply bytes_ok_skipn; assumption).
  pose proof (lp_decompress_next_header_total (ne_next er) _ Hba) as Hnh.
  destruct (lp_decompress_next_header (ne_next er) _) as [nh| |]; cbn [obind];
    [|split; [discriminate | intros ? ? ? HH; discriminate HH] | congruence].
  destruct (nhc_ext_payload data) as [pl| |] eqn:Epl; cbn [obind];
    [|split; [discriminate | intros ? ? ? HH; discriminate HH] | congruence].
  destruct (ds_room s <? 2 + blen pl) eqn:Er; [split; [discriminate | intros ? ? ? HH; discriminate HH]|].
  apply Z.ltb_ge in Er.
  rewrite (wb_from_ok data (nhc_ext_buffer_len er + ne_length er)) by lia. cbn [obind].
  split; [discriminate|]. intros s' data' nh' HH. injection HH as <- <- <-.
  cbn [ds_room ds_out ds_payload_len]. pose proof (blen_nonneg pl).
  split; [apply bytes_ok_skipn; assumption|]. rewrite blen_skipn by lia.
  autorewrite with blen. repeat split; lia.
Qed.

(* decompress_udp: never panics *)
Lemma lp_decompress_udp_spec data src dst total_len s : blen data < 65528 ->
  lp_decompress_udp data src dst total_len s <> Panic /\
  forall s', lp_decompress_udp data src dst total_len s = Ok s' ->
    40 <= ds_payload_len s -> (forall t, total_len = Some t -> 40 <= t) ->
    0 <= ds_room s' /\ blen (ds_out s') + ds_room s' = blen (ds_out s) + ds_room s /\
    40 <= ds_payload_len s'.
Proof.
  intros Hl. unfold lp_decompress_udp.
  destruct (nhc_udp_check_len data) as [[]| |] eqn:Ec; cbn [obind];
    [|split; [discriminate | intros ? HH; discriminate HH] | exfalso; exact (nhc_udp_check_len_total data Ec)].
  destruct (nhc_udp_accessors_safe data Ec) as (_ & _ & Hck & Hpl & _).
  destruct (nhc_udp_payload data) as [payload| |] eqn:Ep; cbn [obind];
    [|split; [discriminate | intros ? HH; discriminate HH] | congruence].
  pose proof (nhc_udp_parse_total data src dst false Hl) as Hpa.
  destruct (nhc_udp_parse data src dst false) as [ports| |]; cbn [obind];
    [|split; [discriminate | intros ? HH; discriminate HH] | congruence].
  destruct (ds_room s <? lp_UDP_HDR + blen payload) eqn:Er;
    [split; [discriminate | intros ? HH; discriminate HH]|]. apply Z.ltb_ge in Er.
  destruct total_len as [t|].
  - destruct (t <? ds_payload_len s + lp_UDP_HDR) eqn:Et; cbn [obind];
      [split; [discriminate | intros ? HH; discriminate HH]|]. apply Z.ltb_ge in Et.
    destruct (nhc_udp_checksum data) as [ck| |]; cbn [obind];
      [|split; [discriminate | intros ? HH; discriminate HH] | congruence].
    split; [discriminate|]. intros s' HH Hp40 Ht. injection HH as <-. cbn [ds_room ds_out ds_payload_len].
    unfold lp_UDP_HDR in *. zfold_in Er. zfold_in Et. revert Er Et. zfold. intros Er Et.
    autorewrite with blen. unfold be_enc2, blen. cbn [length]. unfold blen in *. lia.
  - cbn [obind].
    destruct (nhc_udp_checksum data) as [ck| |]; cbn [obind];
      [|split; [discriminate | intros ? HH; discriminate HH] | congruence].
    split; [discriminate|]. intros s' HH Hp40 Ht. injection HH as <-. cbn [ds_room ds_out ds_payload_len].
    unfold lp_UDP_HDR in *. zfold_in Er. revert Er. zfold. intros Er. pose proof (blen_nonneg payload).
    autorewrite with blen. unfold be_enc2, blen. cbn [length]. unfold blen in *. lia.
Qed.

(* ---------- the addresses iphc_parse reconstructs are 16 octets long ---------- *)

Definition lp_ctx_wf (ctx : list (list Z)) : Prop := Forall (fun c => blen c = 8) ctx.

Lemma iphc_src_unres_ok b u : iphc_src_unres b = Ok u -> iphc_unres_ok u.
Proof.
  unfold iphc_src_unres. intros H. obind_inv H.
  destruct (v0 =? 0); destruct (v1 =? 0); try destruct (v1 =? 1); try destruct (v1 =? 2);
    try (injection H as <-; exact I);
    try (obind_inv H; destruct v2 as [id|]; try discriminate H);
    try (injection H as <-; exact I);
    (obind_inv H; injection H as <-; cbn;
     match goal with E : iphc_inline _ _ _ = Ok _ |- _ => exact (proj1 (iphc_inline_len _ _ _ _ E)) end).
Qed.

Lemma iphc_dst_unres_ok b u : iphc_dst_unres b = Ok u -> iphc_unres_ok u.
Proof.
  unfold iphc_dst_unres. intros H. obind_inv H.
  destruct (v1 =? 0); destruct (v2 =? 0); destruct (v3 =? 0); try destruct (v3 =? 1); try destruct (v3 =? 2);
    try (injection H as <-; exact I);
    try (obind_inv H; destruct v4 as [id|]; try discriminate H);
    try (injection H as <-; exact I);
    (obind_inv H; injection H as <-; cbn;
     match goal with E : iphc_inline _ _ _ = Ok _ |- _ => exact (proj1 (iphc_inline_len _ _ _ _ E)) end).
Qed.

Lemma wb_arr_inv n v r : wb_arr n v = Ok r -> r = v /\ blen v = n.
Proof. unfold wb_arr. destruct (blen v =? n) eqn:E; intros H; [|discriminate H]. injection H as <-. bsplit. auto. Qed.

Lemma iphc_iid_len ll iid : iphc_iid_of_ll ll = Ok iid -> blen iid = 8.
Proof.
  destruct ll as [[|a|a]|]; cbn [iphc_iid_of_ll]; intros H; try discriminate H.
  - obind_inv H. injection H as <-. apply wb_arr_inv in E. destruct E as (-> & E). autorewrite with blen. unfold blen in *. cbn [length]. lia.
  - destruct (iphc_as_eui64 (LlExtended a)); [|discriminate H]. obind_inv H. injection H as <-.
    apply wb_arr_inv in E. destruct E as (-> & E). exact E.
Qed.

Lemma iphc_context_len ctx idx c : lp_ctx_wf ctx -> iphc_context ctx idx = Ok c -> blen c = 8.
Proof.
  intros Hw. unfold iphc_context. destruct (_ <=? idx) eqn:E1; [intros HH; discriminate HH|].
  destruct (idx <? 0) eqn:E2; [intros HH; discriminate HH|]. intros HH. injection HH as <-. bsplit.
  unfold lp_ctx_wf in Hw. rewrite Forall_forall in Hw. apply Hw. apply nth_In. lia.
Qed.

Lemma blen_skipn1 (v : list Z) n : blen v = n -> 1 <= n -> blen (skipn 1 v) = n - 1.
Proof. intros H Hn. destruct v; [unfold blen in H; cbn in H; lia|]. cbn [skipn]. autorewrite with blen in H. lia. Qed.

Lemma mc48_len v : blen v = 6 -> blen ([255; nth 0 v 0] ++ iphc_zeros 9 ++ skipn 1 v) = 16.
Proof. intros H. apply (blen_length _ 6) in H. cells H. reflexivity. Qed.
Lemma mc32_len v : blen v = 4 -> blen ([255; nth 0 v 0] ++ iphc_zeros 11 ++ skipn 1 v) = 16.
Proof. intros H. apply (blen_length _ 4) in H. cells H. reflexivity. Qed.

Lemma iphc_resolve_len u ll ctx a : iphc_unres_ok u -> lp_ctx_wf ctx ->
  iphc_resolve u ll ctx = Ok a -> blen a = 16.
Proof.
  intros Hu Hc H. destruct u as [m|idx m|].
  - destruct m.
    + cbn [iphc_resolve] in H. apply wb_arr_inv in H. destruct H as (-> & E). exact E.
    + cbn [iphc_resolve] in H. obind_inv H. injection H as <-. apply wb_arr_inv in E. destruct E as (-> & E).
      unfold iphc_LL_PREFIX. autorewrite with blen. lia.
    + cbn [iphc_resolve] in H. obind_inv H. injection H as <-. apply wb_arr_inv in E. destruct E as (-> & E).
      unfold iphc_LL_PREFIX. autorewrite with blen. lia.
    + cbn [iphc_resolve] in H. obind_inv H. injection H as <-. apply iphc_iid_len in E.
      unfold iphc_LL_PREFIX. autorewrite with blen. lia.
    + cbn [iphc_resolve] in H. obind_inv H. injection H as <-. apply wb_arr_inv in E. destruct E as (-> & E).
      exact (mc48_len v E).
    + cbn [iphc_resolve] in H. obind_inv H. injection H as <-. apply wb_arr_inv in E. destruct E as (-> & E).
      exact (mc32_len v E).
    + cbn [iphc_resolve] in H. obind_inv H. injection H as <-. apply wb_arr_inv in E. destruct E as (-> & E).
      unfold iphc_zeros. autorewrite with blen. lia.
    + cbn [iphc_resolve] in H. discriminate H.
    + cbn [iphc_resolve] in H. discriminate H.
  - destruct m.
    + cbn [iphc_resolve] in H. discriminate H.
    + cbn [iphc_resolve] in H. obind_inv H. injection H as <-. apply wb_arr_inv in E0. destruct E0 as (-> & E0).
      apply (iphc_context_len _ _ _ Hc) in E. autorewrite with blen. lia.
    + cbn [iphc_resolve] in H. obind_inv H. injection H as <-. apply wb_arr_inv in E0. destruct E0 as (-> & E0).
      apply (iphc_context_len _ _ _ Hc) in E. unfold iphc_zeros. autorewrite with blen. lia.
    + cbn [iphc_resolve] in H. obind_inv H. injection H as <-. apply iphc_iid_len in E.
      apply (iphc_context_len _ _ _ Hc) in E0. autorewrite with blen. lia.
    + cbn [iphc_resolve] in H. discriminate H.
    + cbn [iphc_resolve] in H. discriminate H.
    + cbn [iphc_resolve] in H. discriminate H.
    + cbn [iphc_resolve] in H. injection H as <-. reflexivity.
    + cbn [iphc_resolve] in H. discriminate H.
  - cbn [iphc_resolve] in H. discriminate H.
Qed.

Lemma iphc_parse_addr_len b lls lld ctx r : lp_ctx_wf ctx -> iphc_parse b lls lld ctx = Ok r ->
  blen (ir_src r) = 16 /\ blen (ir_dst r) = 16.
Proof.
  intros Hc H. unfold iphc_parse in H. obind_inv H. destruct (negb _); [discriminate H|]. obind_inv H.
  injection H as <-. cbn [ir_src ir_dst].
  split; eapply iphc_resolve_len; try eassumption; [eapply iphc_src_unres_ok | eapply iphc_dst_unres_ok]; eassumption.
Qed.

(* the loop of sixlowpan_to_ipv6 *)
Lemma lp_decompress_loop_spec src dst total_len : forall fuel data nh s,
  bytes_ok data = true -> blen data < 65528 -> 0 <= ds_room s -> 40 <= ds_payload_len s ->
  (forall t, total_len = Some t -> 40 <= t) ->
  lp_decompress_loop fuel data nh src dst total_len s <> Panic /\
  forall s', lp_decompress_loop fuel data nh src dst total_len s = Ok s' ->
    0 <= ds_room s' /\ blen (ds_out s') + ds_room s' = blen (ds_out s) + ds_room s /\
    40 <= ds_payload_len s'.
Proof.
  induction fuel as [|fuel IH]; intros data nh s Hb Hl Hr Hp Ht; cbn [lp_decompress_loop].
  - split; [discriminate | intros ? HH; discriminate HH].
  - destruct nh as [proto|].
    + destruct ((proto =? lp_PROTO_TCP) || (proto =? lp_PROTO_UDP) || (proto =? lp_PROTO_ICMPV6));
        [|split; [discriminate | intros ? HH; discriminate HH]].
      destruct (ds_room s <? blen data) eqn:Er; [split; [discriminate | intros ? HH; discriminate HH]|].
      apply Z.ltb_ge in Er. split; [discriminate|]. intros s' HH. injection HH as <-.
      cbn [ds_room ds_out ds_payload_len]. pose proof (blen_nonneg data). autorewrite with blen. lia.
    + pose proof (nhc_dispatch_total data) as Hd.
      destruct (nhc_dispatch data) as [k| |]; cbn [obind];
        [|split; [discriminate | intros ? HH; discriminate HH] | congruence].
      destruct (k =? 0).
      * destruct (lp_decompress_ext_hdr_spec data s Hb Hr) as (Hnp & Hsp).
        destruct (lp_decompress_ext_hdr data s) as [((s1, data1), nh1)| |]; cbn [obind];
          [|split; [discriminate | intros ? HH; discriminate HH] | congruence].
        destruct (Hsp s1 data1 nh1 eq_refl) as (Hb1 & Hl1 & Hr1 & Hp1 & Hsum).
        destruct (IH data1 nh1 s1 Hb1 ltac:(lia) Hr1 ltac:(lia) Ht) as (Hnp2 & Hsp2).
        split; [assumption|]. intros s' HH. destruct (Hsp2 s' HH) as (A & B & C). repeat split; lia.
      * destruct (lp_decompress_udp_spec data src dst total_len s Hl) as (Hnp & Hsp).
        split; [assumption|]. intros s' HH. exact (Hsp s' HH Hp Ht).
Qed.

(* decompress_no_panic: sixlowpan_to_ipv6 (with decompress_ext_hdr / decompress_udp and every length
   computation in them) never panics, for ALL octet strings, any link-layer addresses and contexts,
   a buffer of at least 40 octets and, for fragments, a datagram size of at least 40; and what it
   writes fits the buffer *)
Theorem lp_sixlowpan_to_ipv6_total ctx lls lld b total_len buflen :
  bytes_ok b = true -> blen b < 65528 -> iphc_ll_wf lls = true -> iphc_ll_wf lld = true ->
  lp_ctx_wf ctx ->
  lp_IPV6_HDR <= buflen -> (forall t, total_len = Some t -> lp_IPV6_HDR <= t) ->
  lp_sixlowpan_to_ipv6 ctx lls lld b total_len buflen <> Panic /\
  forall d, lp_sixlowpan_to_ipv6 ctx lls lld b total_len buflen = Ok d -> blen d <= buflen.
Proof.
  intros Hb Hl Hls Hld Hctx Hbuf Ht. unfold lp_sixlowpan_to_ipv6.
  destruct (iphc_parse_total b lls lld ctx Hls Hld) as (Hpa & Hcl & Hafter).
  destruct (iphc_check_len b) as [[]| |] eqn:Ec; cbn [obind];
    [|split; [discriminate | intros ? HH; discriminate HH] | congruence].
  destruct (Hafter eq_refl) as (Hpl & _).
  destruct (iphc_parse b lls lld ctx) as [r| |] eqn:Epr; cbn [obind];
    [|split; [discriminate | intros ? HH; discriminate HH] | congruence].
  destruct (iphc_parse_addr_len b lls lld ctx r Hctx Epr) as (Ls & Ld).
  replace (buflen <? lp_IPV6_HDR) with false by (symmetry; apply Z.ltb_ge; lia).
  destruct (iphc_payload b) as [data| |] eqn:Ed; cbn [obind];
    [|split; [discriminate | intros ? HH; discriminate HH] | congruence].
  assert (Hbd : bytes_ok data = true).
  { unfold iphc_payload in Ed. destruct (iphc_header_len b); cbn [obind] in Ed; try discriminate Ed.
    eapply wb_from_bytes; eassumption. }
  assert (Hld' : blen data <= blen b).
  { unfold iphc_payload in Ed. destruct (iphc_header_len b); cbn [obind] in Ed; try discriminate Ed.
    apply wb_from_len in Ed. lia. }
  unfold lp_IPV6_HDR in *. zfold_in Hbuf.
  assert (Ht' : forall t, total_len = Some t -> 40 <= t).
  { intros t E. specialize (Ht t E). revert Ht. zfold. auto. }
  destruct (lp_decompress_loop_spec (ir_src r) (ir_dst r) total_len (S (length data)) data (ir_nh r)
              (mkDs [] (buflen - 40) 40) Hbd ltac:(lia) ltac:(cbn; zfold; lia) ltac:(cbn; lia) Ht') as (Hnp & Hsp).
  revert Hnp Hsp. zfold. intros Hnp Hsp.
  destruct (lp_decompress_loop _ data (ir_nh r) (ir_src r) (ir_dst r) total_len _) as [s| |]; cbn [obind];
    [|split; [discriminate | intros ? HH; discriminate HH] | congruence].
  destruct (Hsp s eq_refl) as (Hr & Hsum & Hp40). cbn [ds_out ds_room] in Hsum.
  pose proof (lp_decompress_next_header_total (ir_nh r) data Hbd) as Hnh.
  destruct (lp_decompress_next_header (ir_nh r) data) as [nh| |]; cbn [obind];
    [|split; [discriminate | intros ? HH; discriminate HH] | congruence].
  unfold lpf_usub.
  assert (Hge : 40 <= match total_len with Some t => t | None => ds_payload_len s end)
    by (destruct total_len as [t|]; [apply Ht'; reflexivity | assumption]).
  replace (_ <? 40) with false by (symmetry; apply Z.ltb_ge; exact Hge). cbn [obind].
  split; [discriminate|]. intros d HH. injection HH as <-.
  unfold lp_ipv6_header. autorewrite with blen. rewrite Ls, Ld.
  assert (Hnil : blen (@nil Z) = 0) by reflexivity. lia.
Qed.

(* ================================================================================
   lowpan_roundtrip
   ================================================================================ *)

(* a datagram the stack can send (ipv6_to_sixlowpan's input): Rust type invariants plus the
   protocols the 6LoWPAN code handles (UDP through NHC; ICMPv6 / TCP as emitted octets) *)
Definition lp_dgram_wf (d : lp_dgram) (lls lld : option iphc_ll) : Prop :=
  iphc_repr_wf (lp_iphc_repr d lls lld) = true /\
  match ld_pl d with
  | LpUdp ports data => nhc_ports_wf ports = true /\ bytes_ok data = true /\ blen data < 65000
  | LpRaw proto bytes => (proto = lp_PROTO_TCP \/ proto = lp_PROTO_ICMPV6) /\ bytes_ok bytes = true /\
                         blen bytes < 65000
  end.

(* the compressed packet ipv6_to_sixlowpan writes, and the sizes compressed_packet_size reports *)
Definition lp_compressed (d : lp_dgram) (lls lld : option iphc_ll) : outcome (list Z) :=
  let r := lp_iphc_repr d lls lld in
  match ld_pl d with
  | LpUdp ports data =>
      do ck <- nhc_udp_cksum (ld_src d) (ld_dst d) (np_src ports) (np_dst ports) data;
      Ok (iphc_bytes r ++ nhc_udp_hdr_bytes ports (nhc_ck_tx ck) ++ data)
  | LpRaw _ bytes => Ok (iphc_bytes r ++ bytes)
  end.

Lemma lp_wf_addrs d lls lld : lp_dgram_wf d lls lld ->
  is_arr 16 (ld_src d) = true /\ is_arr 16 (ld_dst d) = true /\ 0 <= ld_hl d < 256.
Proof.
  intros (Hr & _). unfold iphc_repr_wf, lp_iphc_repr in Hr. cbn [ir_src ir_dst ir_ll_src ir_ll_dst ir_nh ir_hl ir_ecn ir_dscp ir_flow] in Hr.
  rewrite !andb_true_iff in Hr. destruct Hr as ((((((H1 & H2) & _) & _) & _) & H6) & _).
  split; [exact H1|]. split; [exact H2|]. unfold is_u8 in H6. apply andb_prop in H6. destruct H6 as (A & B).
  apply Z.leb_le in A. apply Z.ltb_lt in B. lia.
Qed.

(* sizes *)
Lemma lp_compressed_packet_size_spec d lls lld c : lp_dgram_wf d lls lld ->
  lp_compressed d lls lld = Ok c ->
  exists chdr uhdr, lp_compressed_packet_size d lls lld = Ok (blen c, chdr, uhdr) /\
    0 <= chdr <= uhdr /\ chdr <= blen c /\ chdr <= 45 /\ uhdr <= 48 /\
    blen c - chdr = lp_payload_len (ld_pl d) + lp_IPV6_HDR - uhdr.
Proof.
  intros (Hr & Hp) Hc. unfold lp_compressed_packet_size, lp_compressed in *.
  rewrite (iphc_buffer_len_spec _ Hr). cbn [obind].
  pose proof (iphc_bytes_len (lp_iphc_repr d lls lld)) as Hbl.
  destruct (iphc_repr_wf_inv _ Hr) as (Hs & Hd & _).
  pose proof (iphc_src_size_mode (ir_src (lp_iphc_repr d lls lld)) (ir_ll_src (lp_iphc_repr d lls lld)) Hs) as Es.
  pose proof (iphc_dst_size_mode (ir_dst (lp_iphc_repr d lls lld)) (ir_ll_dst (lp_iphc_repr d lls lld)) Hd) as Ed.
  assert (Hn : 2 <= blen (iphc_bytes (lp_iphc_repr d lls lld)) <= 36).
  { rewrite Hbl, <- Es, <- Ed.
    assert (0 <= blen (iphc_nh_bytes (ir_nh (lp_iphc_repr d lls lld))) <= 1) by (destruct (ir_nh _); unfold blen; cbn [iphc_nh_bytes length]; lia).
    assert (0 <= blen (iphc_hl_bytes (ir_hl (lp_iphc_repr d lls lld))) <= 1)
      by (unfold iphc_hl_bytes; destruct (_ =? 0); unfold blen; cbn [length]; lia).
    unfold iphc_src_size_of, iphc_dst_size_of.
    repeat match goal with |- context [if ?c then _ else _] => destruct c end; lia. }
  destruct (ld_pl d) as [ports data|proto bytes] eqn:Epl.
  - obind_inv Hc. injection Hc as <-. destruct Hp as (Hpw & Hdb & Hdl).
    pose proof (nhc_udp_hdr_bytes_len ports (nhc_ck_tx v)) as Hhl. pose proof (blen_nonneg data).
    assert (Hh : 4 <= nhc_udp_header_len ports <= 7).
    { unfold nhc_udp_header_len. repeat match goal with |- context [if ?c then _ else _] => destruct c end; lia. }
    eexists _, _. split.
    + f_equal. f_equal. f_equal. rewrite !blen_app, Hhl. lia.
    + unfold lp_IPV6_HDR, lp_UDP_HDR. zfold. cbn [lp_payload_len]. unfold lp_UDP_HDR. zfold.
      rewrite !blen_app, Hhl. lia.
  - injection Hc as <-. destruct Hp as (Hpr & Hbb & Hbl2). pose proof (blen_nonneg bytes).
    eexists _, _. split.
    + f_equal. f_equal. f_equal. rewrite blen_app. lia.
    + unfold lp_IPV6_HDR. zfold. cbn [lp_payload_len]. rewrite blen_app. lia.
Qed.

(* ---------- ipv6_to_sixlowpan writes the compressed form, whatever the buffer held ---------- *)

Lemma wb_upto_ok l n : 0 <= n <= blen l -> wb_upto l n = Ok (firstn (Z.to_nat n) l).
Proof. intros H. unfold wb_upto. zbool. reflexivity. Qed.

Lemma lp_ipv6_to_sixlowpan_spec d lls lld c buffer : lp_dgram_wf d lls lld ->
  lp_compressed d lls lld = Ok c -> bytes_ok buffer = true -> blen c <= blen buffer ->
  lp_ipv6_to_sixlowpan d lls lld buffer = Ok (c ++ skipn (Z.to_nat (blen c)) buffer).
Proof.
  intros Hwf Hc Hb Hl. pose proof Hwf as (Hr & Hp).
  destruct (lp_wf_addrs d lls lld Hwf) as (Hsa & Hda & _).
  unfold lp_ipv6_to_sixlowpan, lp_compressed in *.
  remember (lp_iphc_repr d lls lld) as r eqn:Er.
  rewrite (iphc_buffer_len_spec r Hr). cbn [obind].
  pose proof (blen_nonneg (iphc_bytes r)) as Hn0. remember (blen (iphc_bytes r)) as n eqn:En.
  assert (Hnc : n <= blen c).
  { destruct (ld_pl d); [obind_inv Hc|]; injection Hc as <-; rewrite blen_app; subst n;
      [pose proof (blen_nonneg (nhc_udp_hdr_bytes ports (nhc_ck_tx v) ++ data)) | pose proof (blen_nonneg bytes)]; lia. }
  rewrite wb_upto_ok by lia. cbn [obind].
  assert (Hbf : bytes_ok (firstn (Z.to_nat n) buffer) = true) by (apply bytes_ok_firstn; assumption).
  destruct (iphc_roundtrip r (firstn (Z.to_nat n) buffer) [] Hr Hbf
              ltac:(rewrite blen_firstn by lia; lia)) as (_ & He & _).
  rewrite <- En in He. rewrite He. cbn [obind].
  rewrite skipn_all2 by (rewrite firstn_length; unfold blen in *; lia). rewrite app_nil_r.
  rewrite wb_from_ok by lia. cbn [obind].
  remember (skipn (Z.to_nat n) buffer) as rest eqn:Erest.
  assert (Hrl : blen rest = blen buffer - n) by (subst rest; apply blen_skipn; lia).
  assert (Hbr : bytes_ok rest = true) by (subst rest; apply bytes_ok_skipn; assumption).
  destruct (ld_pl d) as [ports data|proto bytes] eqn:Epl.
  - destruct Hp as (Hpw & Hdb & Hdl). obind_inv Hc. injection Hc as <-.
    pose proof (nhc_udp_hdr_bytes_len ports (nhc_ck_tx v)) as Hhl. pose proof (blen_nonneg data).
    rewrite !blen_app, <- ?En in *.
    assert (Hh : 4 <= nhc_udp_header_len ports <= 7).
    { unfold nhc_udp_header_len. repeat match goal with |- context [if ?c then _ else _] => destruct c end; lia. }
    rewrite wb_upto_ok by lia. cbn [obind].
    remember (nhc_udp_header_len ports + blen data) as m eqn:Em.
    (* the NHC emitter works on exactly header ++ payload space *)
    destruct (split_hdr (firstn (Z.to_nat m) rest) (nhc_udp_header_len ports)
                ltac:(rewrite blen_firstn by lia; lia)) as (h & t & Eht & Hh1 & Ht1).
    rewrite blen_firstn in Ht1 by lia.
    assert (Hbu : bytes_ok (firstn (Z.to_nat m) rest) = true) by (apply bytes_ok_firstn; assumption).
    rewrite Eht in *. rewrite bytes_ok_app in Hbu. apply andb_prop in Hbu. destruct Hbu as (Hbh & _).
    rewrite (nhc_udp_emit_exact ports (ld_src d) (ld_dst d) data v h t Hpw Hbh
               ltac:(unfold blen; lia) ltac:(lia) E).
    cbn [obind]. rewrite wb_from_ok by lia. cbn [obind]. f_equal.
    rewrite <- !app_assoc. f_equal. f_equal. f_equal.
    subst rest. rewrite skipn_add. f_equal. rewrite Hhl, <- Em. rewrite Z2Nat.inj_add by lia. lia.
  - destruct Hp as (Hpr & Hbb & Hbl2). injection Hc as <-. pose proof (blen_nonneg bytes).
    rewrite blen_app, <- ?En in *.
    unfold wb_set_slice. rewrite Hrl. zbool. change (Z.to_nat 0) with 0%nat. cbn [firstn app obind].
    rewrite <- app_assoc. f_equal. f_equal. f_equal. subst rest. rewrite skipn_add. f_equal.
    rewrite Z2Nat.inj_add by lia. lia.
Qed.

(* ---------- sixlowpan_to_ipv6 on (a prefix of) the compressed form ---------- *)

Lemma nhc_dispatch_cons b0 rest : (Z.shiftr b0 4 =? 14) = false -> (Z.shiftr b0 3 =? 30) = true ->
  nhc_dispatch (b0 :: rest) = Ok 1.
Proof.
  intros H1 H2. unfold nhc_dispatch, wb_get_u8. rewrite blen_cons. pose proof (blen_nonneg rest).
  zbool. change (Z.to_nat 0) with 0%nat. cbn [nth obind]. unfold wsix_DISPATCH_EXT_HEADER, wsix_DISPATCH_UDP_HEADER.
  rewrite H1, H2. reflexivity.
Qed.

Lemma nhc_dispatch_udp_hdr ports ck x : nhc_dispatch (nhc_udp_hdr_bytes ports ck ++ x) = Ok 1.
Proof.
  unfold nhc_udp_hdr_bytes. cbv zeta.
  destruct (nhc_port_4bit (np_src ports) && nhc_port_4bit (np_dst ports));
    [|destruct (nhc_port_8bit (np_src ports)); [|destruct (nhc_port_8bit (np_dst ports))]];
    cbn [app]; apply nhc_dispatch_cons; reflexivity.
Qed.

Lemma firstn_app_exact {A} (a b : list A) n : n = length a -> firstn n (a ++ b) = a.
Proof. intros ->. rewrite firstn_app, firstn_all, Nat.sub_diag. cbn [firstn]. apply app_nil_r. Qed.

Lemma firstn_app_more {A} (a b : list A) n : (length a <= n)%nat -> firstn n (a ++ b) = a ++ firstn (n - length a) b.
Proof. intros H. rewrite firstn_app. rewrite firstn_all2 by lia. reflexivity. Qed.

Lemma firstn_prefix_eq (P Q data : list Z) n j : Q = P ++ data -> n = (length P + j)%nat ->
  firstn n Q = P ++ firstn j data.
Proof. intros -> ->. rewrite firstn_app_more by lia. f_equal. f_equal. lia. Qed.

Ltac norm_app := unfold lp_ipv6_header, lp_udp_header, be_enc2; cbn [app]; rewrite <- ?app_assoc; cbn [app]; rewrite <- ?app_assoc.

Section Roundtrip.
  Variables (d : lp_dgram) (lls lld : option iphc_ll) (ctx : list (list Z)).
  Hypothesis Hwf : lp_dgram_wf d lls lld.

  (* the first k octets of the compressed packet, k beyond the compressed headers, decompress to
     the first k + header_diff octets of the datagram.  total = None: the whole packet (k = |c|);
     total = Some |D|: a first fragment. *)
  Lemma lp_decompress_prefix c D k total buflen :
    lp_compressed d lls lld = Ok c -> lp_ipv6_bytes d = Ok D ->
    (total = None /\ k = blen c \/ total = Some (blen D)) ->
    blen D <= buflen -> k <= blen c ->
    (match ld_pl d with
     | LpUdp ports _ => blen (iphc_bytes (lp_iphc_repr d lls lld)) + nhc_udp_header_len ports
     | LpRaw _ _ => blen (iphc_bytes (lp_iphc_repr d lls lld)) end) <= k ->
    lp_sixlowpan_to_ipv6 ctx lls lld (firstn (Z.to_nat k) c) total buflen =
    Ok (firstn (Z.to_nat (k + (blen D - blen c))) D).
  Proof.
    intros Hc HD Htot Hbuf Hk Hchdr. destruct Hwf as (Hr & Hp).
    destruct (lp_wf_addrs d lls lld Hwf) as (Hsa & Hda & Hhl).
    unfold lp_compressed, lp_ipv6_bytes in *.
    remember (lp_iphc_repr d lls lld) as r eqn:Er.
    assert (Hrs : ir_src r = ld_src d /\ ir_dst r = ld_dst d /\ ir_hl r = ld_hl d /\
                  ir_ll_src r = lls /\ ir_ll_dst r = lld) by (subst r; cbn; auto).
    destruct Hrs as (Rs & Rd & Rh & Rls & Rld).
    pose proof (blen_nonneg (iphc_bytes r)) as HnI.
    assert (Lsrc : blen (ld_src d) = 16) by (unfold is_arr in Hsa; bsplit; lia).
    assert (Ldst : blen (ld_dst d) = 16) by (unfold is_arr in Hda; bsplit; lia).
    unfold lp_sixlowpan_to_ipv6.
    destruct (ld_pl d) as [ports data|proto bytes] eqn:Epl.
    - (* UDP through LOWPAN_NHC *)
      destruct Hp as (Hpw & Hdb & Hdl). obind_inv Hc. injection Hc as <-. rename v into ck.
      obind_inv HD. rewrite E in E0. injection E0 as <-. injection HD as <-.
      destruct (nhc_ports_wf_inv ports Hpw) as (Hsp & Hdp).
      pose proof (nhc_udp_cksum_range (ld_src d) (ld_dst d) _ _ data ck Hsa Hda Hsp Hdp Hdb ltac:(lia) E) as Hckr.
      pose proof (nhc_ck_tx_range ck Hckr) as Hckr'.
      pose proof (nhc_udp_hdr_bytes_len ports (nhc_ck_tx ck)) as HnN. pose proof (blen_nonneg data) as Hnd.
      assert (Hh : 4 <= nhc_udp_header_len ports <= 7).
      { unfold nhc_udp_header_len. repeat match goal with |- context [if ?c then _ else _] => destruct c end; lia. }
      unfold lp_udp_header, lp_ipv6_header, be_enc2 in *. autorewrite with blen in Hbuf, Htot, Hk, Hchdr |- *.
      remember (k - blen (iphc_bytes r) - nhc_udp_header_len ports) as j eqn:Ej.
      assert (Hj : 0 <= j <= blen data) by lia.
      (* the frame: IPHC ++ NHC ++ first j payload octets *)
      assert (Efr : firstn (Z.to_nat k) (iphc_bytes r ++ nhc_udp_hdr_bytes ports (nhc_ck_tx ck) ++ data) =
                    iphc_bytes r ++ (nhc_udp_hdr_bytes ports (nhc_ck_tx ck) ++ firstn (Z.to_nat j) data)).
      { rewrite firstn_app_more by (unfold blen in *; lia). f_equal.
        rewrite firstn_app_more by (unfold blen in *; lia). f_equal. f_equal. unfold blen in *. lia. }
      rewrite Efr. set (p := nhc_udp_hdr_bytes ports (nhc_ck_tx ck) ++ firstn (Z.to_nat j) data).
      destruct (iphc_parse_bytes r p ctx Hr) as (Hpa & Hcl & Hpl & _).
      rewrite Hcl. cbn [obind]. rewrite Rls, Rld in Hpa. rewrite Hpa. cbn [obind].
      replace (buflen <? lp_IPV6_HDR) with false by (symmetry; apply Z.ltb_ge; unfold lp_IPV6_HDR; zfold; lia).
      rewrite Hpl. cbn [obind].
      assert (Rnh : ir_nh r = None) by (subst r; cbn; rewrite Epl; reflexivity).
      rewrite Rnh, Rs, Rd, Rh. cbn [lp_decompress_loop]. subst p. rewrite nhc_dispatch_udp_hdr. cbn [obind].
      change (1 =? 0) with false. cbv iota.
      (* decompress_udp *)
      assert (Hjl : blen (firstn (Z.to_nat j) data) = j) by (apply blen_firstn; lia).
      destruct (nhc_udp_parse_bytes ports (nhc_ck_tx ck) (firstn (Z.to_nat j) data) (ld_src d) (ld_dst d) Hpw ltac:(lia))
        as (N1 & N2 & N3 & N4 & _).
      cbv zeta in N1, N2, N3, N4.
      unfold lp_decompress_udp. rewrite N1. cbn [obind]. rewrite N3. cbn [obind]. rewrite N2. cbn [obind].
      cbn [ds_room ds_out ds_payload_len]. rewrite Hjl. unfold lp_UDP_HDR, lp_IPV6_HDR. zfold.
      replace (buflen - 40 <? 8 + j) with false by (symmetry; apply Z.ltb_ge; lia).
      zfold.
      assert (Hupl : (match total with
                      | Some t => if t <? 48 then Err 0 else Ok (t - 48)
                      | None => Ok j end) = Ok (blen data)).
      { destruct Htot as [(-> & Hkc)| ->]; [f_equal; lia|].
        match goal with |- context [?a <? ?b] => replace (a <? b) with false by (symmetry; apply Z.ltb_ge; lia) end.
        f_equal. lia. }
      rewrite Hupl. cbn [obind]. rewrite N4. cbn [obind app]. unfold lp_decompress_next_header.
      rewrite nhc_dispatch_udp_hdr. cbn [obind]. change (1 =? 0) with false. cbv iota. cbn [obind].
      unfold lpf_usub. cbn [ds_out ds_payload_len ds_room].
      assert (Hpl2 : match total with Some t => t | None => 40 + blen data + 8 end = 48 + blen data).
      { destruct Htot as [(-> & _)| ->]; lia. }
      rewrite Hpl2. replace (48 + blen data <? 40) with false by (symmetry; apply Z.ltb_ge; lia). cbn [obind].
      f_equal.
      (* both sides: 40-octet header ++ 8-octet UDP header ++ first j payload octets *)
      unfold lp_PROTO_UDP. zfold.
      replace (48 + blen data - 40) with (8 + blen data) by lia.
      rewrite (Z.mod_small (8 + blen data) 65536) by lia.
      replace ((8 + blen data) mod 65536) with (8 + blen data) by (symmetry; apply Z.mod_small; lia).
      replace ((if nhc_ck_tx ck =? 0 then 65535 else nhc_ck_tx ck)) with (nhc_ck_tx ck).
      2: { unfold nhc_ck_tx. destruct (ck =? 0) eqn:E0; [reflexivity|]. rewrite E0. reflexivity. }
      change (if ck =? 0 then 65535 else ck) with (nhc_ck_tx ck).
      set (P := lp_ipv6_header (ld_src d) (ld_dst d) 17 (ld_hl d) (8 + blen data) ++
                lp_udp_header ports (8 + blen data) (nhc_ck_tx ck)).
      assert (LP : length P = 48%nat).
      { subst P. unfold lp_ipv6_header, lp_udp_header, be_enc2. rewrite !app_length. unfold blen in *. cbn [length]. lia. }
      transitivity (P ++ firstn (Z.to_nat j) data); [subst P; norm_app; reflexivity|].
      symmetry. apply firstn_prefix_eq; [subst P; norm_app; reflexivity|]. rewrite LP. unfold blen in *. lia.
    - (* ICMPv6 / TCP: copied verbatim *)
      destruct Hp as (Hpr & Hbb & Hbl2). injection Hc as <-. injection HD as <-.
      pose proof (blen_nonneg bytes) as Hnb.
      unfold lp_ipv6_header, be_enc2 in *. autorewrite with blen in Hbuf, Htot, Hk, Hchdr |- *.
      remember (k - blen (iphc_bytes r)) as j eqn:Ej.
      assert (Hj : 0 <= j <= blen bytes) by lia.
      assert (Efr : firstn (Z.to_nat k) (iphc_bytes r ++ bytes) = iphc_bytes r ++ firstn (Z.to_nat j) bytes).
      { rewrite firstn_app_more by (unfold blen in *; lia). f_equal. f_equal. unfold blen in *. lia. }
      rewrite Efr. set (p := firstn (Z.to_nat j) bytes).
      destruct (iphc_parse_bytes r p ctx Hr) as (Hpa & Hcl & Hpl & _).
      rewrite Hcl. cbn [obind]. rewrite Rls, Rld in Hpa. rewrite Hpa. cbn [obind].
      replace (buflen <? lp_IPV6_HDR) with false by (symmetry; apply Z.ltb_ge; unfold lp_IPV6_HDR; zfold; lia).
      rewrite Hpl. cbn [obind].
      assert (Rnh : ir_nh r = Some proto) by (subst r; cbn; rewrite Epl; reflexivity).
      rewrite Rnh, Rs, Rd, Rh. cbn [lp_decompress_loop].
      assert (Hjl : blen p = j) by (subst p; apply blen_firstn; lia).
      replace ((proto =? lp_PROTO_TCP) || (proto =? lp_PROTO_UDP) || (proto =? lp_PROTO_ICMPV6)) with true
        by (destruct Hpr as [-> | ->]; reflexivity).
      cbn [ds_room ds_out ds_payload_len]. rewrite Hjl. unfold lp_IPV6_HDR. zfold.
      replace (buflen - 40 <? j) with false by (symmetry; apply Z.ltb_ge; lia). cbn [obind app lp_decompress_next_header].
      cbn [ds_out ds_payload_len]. unfold lpf_usub.
      assert (Hpl2 : match total with Some t => t | None => 40 + j end = 40 + blen bytes).
      { destruct Htot as [(-> & Hkc)| ->]; lia. }
      rewrite Hpl2. replace (40 + blen bytes <? 40) with false by (symmetry; apply Z.ltb_ge; lia). cbn [obind].
      f_equal.
      replace (40 + blen bytes - 40) with (blen bytes) by lia.
      rewrite (Z.mod_small (blen bytes) 65536) by lia.
      assert (Hpm : proto mod 256 = proto) by (destruct Hpr as [-> | ->]; reflexivity). rewrite Hpm.
      set (P := lp_ipv6_header (ld_src d) (ld_dst d) proto (ld_hl d) (blen bytes)).
      assert (LP : length P = 40%nat).
      { subst P. unfold lp_ipv6_header, be_enc2. rewrite !app_length. unfold blen in *. cbn [length]. lia. }
      transitivity (P ++ firstn (Z.to_nat j) bytes); [subst P p; norm_app; reflexivity|].
      symmetry. apply firstn_prefix_eq; [subst P; norm_app; reflexivity|]. rewrite LP. unfold blen in *. lia.
  Qed.
End Roundtrip.

(* lowpan_roundtrip (unfragmented): sixlowpan_to_ipv6 (ipv6_to_sixlowpan d) = d, for EVERY datagram
   the stack can send (UDP on any ports, ICMPv6, TCP; any addresses and hop limit; any link-layer
   addresses, the same on both sides), any previous content of the transmit buffer, any context
   table at the receiver *)
Theorem lp_roundtrip d lls lld ctx c D buffer buflen :
  lp_dgram_wf d lls lld -> lp_compressed d lls lld = Ok c -> lp_ipv6_bytes d = Ok D ->
  bytes_ok buffer = true -> blen c <= blen buffer -> blen D <= buflen ->
  lp_ipv6_to_sixlowpan d lls lld buffer = Ok (c ++ skipn (Z.to_nat (blen c)) buffer) /\
  lp_sixlowpan_to_ipv6 ctx lls lld c None buflen = Ok D.
Proof.
  intros Hwf Hc HD Hb Hl Hbuf. split; [apply lp_ipv6_to_sixlowpan_spec; assumption|].
  destruct (lp_compressed_packet_size_spec d lls lld c Hwf Hc) as (chdr & uhdr & Hsz & Hh & Hcc & _ & _ & Hdiff).
  pose proof (lp_decompress_prefix d lls lld ctx Hwf c D (blen c) None buflen Hc HD
                ltac:(left; split; reflexivity) Hbuf ltac:(lia)) as H.
  rewrite firstn_all2 in H by (unfold blen; lia).
  replace (blen c + (blen D - blen c)) with (blen D) in H by lia.
  rewrite firstn_all2 in H by (unfold blen; lia).
  apply H.
  (* the compressed headers end inside the packet *)
  unfold lp_compressed in Hc. destruct (ld_pl d) as [ports data|proto bytes].
  - obind_inv Hc. injection Hc as <-. rewrite !blen_app, nhc_udp_hdr_bytes_len.
    pose proof (blen_nonneg data). lia.
  - injection Hc as <-. rewrite blen_app. pose proof (blen_nonneg bytes). lia.
Qed.

Lemma skipn_app_exact {A} (a b : list A) n : n = length a -> skipn n (a ++ b) = b.
Proof. intros ->. rewrite skipn_app, skipn_all, Nat.sub_diag. reflexivity. Qed.

Lemma lp_ipv6_bytes_len d lls lld D : lp_dgram_wf d lls lld -> lp_ipv6_bytes d = Ok D ->
  blen D = lp_payload_len (ld_pl d) + lp_IPV6_HDR.
Proof.
  intros Hwf HD. destruct (lp_wf_addrs d lls lld Hwf) as (Hsa & Hda & _).
  assert (Lsrc : blen (ld_src d) = 16) by (unfold is_arr in Hsa; bsplit; lia).
  assert (Ldst : blen (ld_dst d) = 16) by (unfold is_arr in Hda; bsplit; lia).
  unfold lp_ipv6_bytes in HD. destruct (ld_pl d) as [ports data|proto bytes].
  - obind_inv HD. injection HD as <-. unfold lp_ipv6_header, lp_udp_header, be_enc2, lp_payload_len, lp_IPV6_HDR, lp_UDP_HDR.
    autorewrite with blen. zfold. lia.
  - injection HD as <-. unfold lp_ipv6_header, be_enc2, lp_payload_len, lp_IPV6_HDR. autorewrite with blen. zfold. lia.
Qed.

(* the datagram and the compressed packet end in the same octets *)
Lemma lp_tails d lls lld c D chdr uhdr : lp_dgram_wf d lls lld ->
  lp_compressed d lls lld = Ok c -> lp_ipv6_bytes d = Ok D ->
  lp_compressed_packet_size d lls lld = Ok (blen c, chdr, uhdr) ->
  exists Pc Pd tail, c = Pc ++ tail /\ D = Pd ++ tail /\ blen Pc = chdr /\ blen Pd = uhdr.
Proof.
  intros Hwf Hc HD Hsz. destruct Hwf as (Hr & Hp). destruct (lp_wf_addrs d lls lld (conj Hr Hp)) as (Hsa & Hda & _).
  assert (Lsrc : blen (ld_src d) = 16) by (unfold is_arr in Hsa; bsplit; lia).
  assert (Ldst : blen (ld_dst d) = 16) by (unfold is_arr in Hda; bsplit; lia).
  unfold lp_compressed, lp_ipv6_bytes, lp_compressed_packet_size in *.
  rewrite (iphc_buffer_len_spec _ Hr) in Hsz. cbn [obind] in Hsz.
  destruct (ld_pl d) as [ports data|proto bytes].
  - obind_inv Hc. obind_inv HD. injection Hsz as _ <- <-.
    injection Hc as <-. injection HD as <-.
    exists (iphc_bytes (lp_iphc_repr d lls lld) ++ nhc_udp_hdr_bytes ports (nhc_ck_tx v)).
    exists (lp_ipv6_header (ld_src d) (ld_dst d) lp_PROTO_UDP (ld_hl d) (lp_UDP_HDR + blen data) ++
            lp_udp_header ports (lp_UDP_HDR + blen data) (if v0 =? 0 then 65535 else v0)), data.
    split; [rewrite <- app_assoc; reflexivity|]. split; [norm_app; reflexivity|].
    split; [rewrite blen_app, nhc_udp_hdr_bytes_len; reflexivity|].
    unfold lp_ipv6_header, lp_udp_header, be_enc2, lp_IPV6_HDR, lp_UDP_HDR. autorewrite with blen. zfold. lia.
  - injection Hsz as _ <- <-. injection Hc as <-. injection HD as <-.
    exists (iphc_bytes (lp_iphc_repr d lls lld)), (lp_ipv6_header (ld_src d) (ld_dst d) proto (ld_hl d) (blen bytes)), bytes.
    split; [reflexivity|]. split; [norm_app; reflexivity|]. split; [reflexivity|].
    unfold lp_ipv6_header, be_enc2, lp_IPV6_HDR. autorewrite with blen. zfold. lia.
Qed.

(* lowpan_roundtrip with fragmentation in between: compress, cut into FRAG1/FRAGN frames, let ANY
   sub-multiset of the frames arrive in ANY order at a receiver whose reassembly slots satisfy the
   invariant (e.g. fresh): every datagram delivered is d's IPv6 datagram, octet for octet *)
Theorem lp_roundtrip_fragmented d lls lld ctx c D ieee_len tag chdr uhdr :
  lp_dgram_wf d lls lld -> lp_compressed d lls lld = Ok c -> lp_ipv6_bytes d = Ok D ->
  lp_compressed_packet_size d lls lld = Ok (blen c, chdr, uhdr) ->
  5 <= ieee_len <= 21 -> lpf_needs_frag (blen c) ieee_len = true -> blen c <= lpf_BUFFER ->
  forall frames arrivals rfs now timeout ll_src ll_dst ss,
    lpf_send ieee_len c chdr uhdr (lp_payload_len (ld_pl d)) tag = Ok frames ->
    incl arrivals frames ->
    map (lpf_rx_of_frame (fun buflen =>
           lp_sixlowpan_to_ipv6 ctx lls lld (firstn (Z.to_nat (lpf_f1 ieee_len (uhdr - chdr))) c)
                                (Some (blen D)) buflen)) arrivals = map Some rfs ->
    Forall (slot_inv D (ll_src, ll_dst, blen D, tag)) ss ->
    exists ss' ds, lpf_process_all now timeout ll_src ll_dst rfs ss = Ok (ss', ds) /\
                   Forall (slot_inv D (ll_src, ll_dst, blen D, tag)) ss' /\ Forall (fun x => x = D) ds.
Proof.
  intros Hwf Hc HD Hsz Hie Hneed Hbuf frames arrivals rfs now timeout ll_src ll_dst ss Hs Hincl Hmap Hss.
  destruct (lp_compressed_packet_size_spec d lls lld c Hwf Hc) as (chdr' & uhdr' & Hsz' & Hh & Hcc & Hc45 & Hu48 & Hdiff).
  rewrite Hsz in Hsz'. injection Hsz' as <- <-.
  pose proof (lp_ipv6_bytes_len d lls lld D Hwf HD) as HDl.
  assert (Hfit : blen c + (uhdr - chdr) < 2048).
  { destruct lpf_config_fits as (Hcf & _). lia. }
  destruct (lpf_f1_facts ieee_len c chdr uhdr 0 Hie Hneed) as (Hf1 & Hm & Hfit1 & Hlow).
  assert (Hchdr : chdr <= lpf_f1 ieee_len (uhdr - chdr)).
  { unfold lpf_MAX_FRAME, lpf_FRAG1_HDR in Hlow. zfold_in Hlow. lia. }
  (* the payload octets behind the headers are the same in c and D *)
  assert (Hrest : skipn (Z.to_nat chdr) c = skipn (Z.to_nat uhdr) D /\ uhdr <= blen D).
  { destruct (lp_tails d lls lld c D chdr uhdr Hwf Hc HD Hsz) as (Pc & Pd & tail & -> & -> & Lc & Ld).
    rewrite !skipn_app_exact by (unfold blen in *; lia). split; [reflexivity|].
    rewrite blen_app. pose proof (blen_nonneg tail). lia. }
  destruct Hrest as (Hrest & Hu).
  apply (lpf_fragments_reassemble ieee_len c D chdr uhdr (lp_payload_len (ld_pl d)) tag
           (fun buflen => lp_sixlowpan_to_ipv6 ctx lls lld (firstn (Z.to_nat (lpf_f1 ieee_len (uhdr - chdr))) c)
                                               (Some (blen D)) buflen) Hie Hh Hneed Hbuf Hfit
           Hrest Hcc Hu (eq_sym HDl : lp_payload_len (ld_pl d) + lpf_IPV6_HDR = blen D) Hchdr)
    with (frames := frames) (arrivals := arrivals); try assumption.
  - (* decompressing the first fragment gives the first f1 + header_diff octets of D *)
    intros n Hn.
    pose proof (lp_decompress_prefix d lls lld ctx Hwf c D (lpf_f1 ieee_len (uhdr - chdr)) (Some (blen D)) n Hc HD
                  ltac:(right; reflexivity) Hn ltac:(lia)) as H.
    replace (blen D - blen c) with (uhdr - chdr) in H by lia.
    apply H.
    unfold lp_compressed_packet_size in Hsz. destruct Hwf as (Hr & _).
    rewrite (iphc_buffer_len_spec _ Hr) in Hsz. cbn [obind] in Hsz.
    destruct (ld_pl d); injection Hsz as _ <- _; assumption.
  - unfold lpf_IPV6_HDR. unfold lp_IPV6_HDR in HDl. pose proof (blen_nonneg c).
    destruct (ld_pl d); cbn [lp_payload_len] in HDl; [pose proof (blen_nonneg data) | pose proof (blen_nonneg bytes)];
      unfold lp_UDP_HDR in *; revert HDl; zfold; lia.
Qed.
