(* Lemmas about Model/Lowpan.v (property C20, step 4): decompression never panics; compression
   followed by decompression reproduces the datagram (whole and first-fragment forms). *)
From SV Require Import Lib.Base Gen.Consts Gen.WireFields Model.WireBase Model.WireSixFrag Model.WireNhc.
From SV Require Import Model.WireIphc Model.Assembler Model.LowpanFrag Model.Lowpan.
From SV Require Import Proofs.WireBaseProofs Proofs.AssemblerProofs Proofs.LowpanWireProofs Proofs.LowpanFragProofs.
From SV Require Import Proofs.LowpanIphcBitsProofs Proofs.LowpanIphcProofs.

(* ================================================================================
   decompress_no_panic
   ================================================================================ *)

(* ---------- NHC extension header view ---------- *)

Lemma nhc_get_field_ok b mask shift : 0 < blen b ->
  exists x, wb_get_u8 b 0 = Ok x /\ nhc_get_field b mask shift = Ok (Z.land (Z.shiftr x shift) mask).
Proof.
  intros H. unfold nhc_get_field. rewrite wb_get_u8_ok by lia. eexists. split; reflexivity.
Qed.

Lemma nhc_ext_check_len_inv b : nhc_ext_check_len b = Ok tt ->
  exists x len, wb_get_u8 b 0 = Ok x /\
    let n := if Z.land (Z.shiftr x 0) 1 =? 0 then 1 else 0 in
    wb_get_u8 b (1 + n) = Ok len /\ 2 + n + len <= blen b /\ 2 + n <= blen b.
Proof.
  unfold nhc_ext_check_len, nhc_ext_next_header_size, nhc_ext_nh_field. pose proof (blen_nonneg b).
  destruct (blen b =? 0) eqn:E0; [intros HH; discriminate HH|]. bsplit.
  destruct (nhc_get_field_ok b 1 0 ltac:(lia)) as (x & Ex & Ef). rewrite Ef. cbn [obind].
  set (n := if Z.land (Z.shiftr x 0) 1 =? 0 then 1 else 0).
  destruct (blen b <? 2 + n) eqn:E1; [intros HH; discriminate HH|]. bsplit.
  assert (Hn : 0 <= n <= 1) by (subst n; destruct (_ =? 0); lia).
  rewrite wb_get_u8_ok by lia. cbn [obind].
  destruct (2 + n + _ <=? blen b) eqn:E2; [|intros HH; discriminate HH]. bsplit.
  intros _. exists x. eexists. split; [exact Ex|]. cbv zeta. fold n.
  split; [apply wb_get_u8_ok; lia|]. split; lia.
Qed.

Lemma nhc_ext_check_len_total b : nhc_ext_check_len b <> Panic.
Proof.
  unfold nhc_ext_check_len, nhc_ext_next_header_size, nhc_ext_nh_field. pose proof (blen_nonneg b).
  destruct (blen b =? 0) eqn:E0; [discriminate|]. bsplit.
  destruct (nhc_get_field_ok b 1 0 ltac:(lia)) as (x & Ex & Ef). rewrite Ef. cbn [obind].
  set (n := if Z.land (Z.shiftr x 0) 1 =? 0 then 1 else 0).
  assert (Hn : 0 <= n <= 1) by (subst n; destruct (_ =? 0); lia).
  destruct (blen b <? 2 + n) eqn:E1; [discriminate|]. bsplit.
  rewrite wb_get_u8_ok by lia. cbn [obind]. destruct (_ <=? blen b); discriminate.
Qed.

(* after check_len every accessor the decompressor uses is panic-free and the payload is in range *)
Lemma land1_cases a : Z.land a 1 = 0 \/ Z.land a 1 = 1.
Proof.
  change (Z.land a 1) with (Z.land a (Z.ones 1)). rewrite Z.land_ones by lia.
  pose proof (Z.mod_pos_bound a (2 ^ 1) ltac:(lia)). change (2 ^ 1) with 2 in *. lia.
Qed.

Lemma wb_get_u8_byte b i v : bytes_ok b = true -> wb_get_u8 b i = Ok v -> 0 <= v < 256.
Proof.
  intros Hb H. unfold wb_get_u8 in H. destruct ((0 <=? i) && (i <? blen b)) eqn:E; [|discriminate H].
  injection H as <-. bsplit. apply bytes_ok_nth; [assumption | unfold blen in *; lia].
Qed.

Lemma nhc_ext_safe b : bytes_ok b = true -> nhc_ext_check_len b = Ok tt ->
  nhc_ext_new_checked b <> Panic /\ nhc_ext_parse b <> Panic /\ nhc_ext_eid_field b <> Panic /\
  nhc_ext_payload b <> Panic /\
  (forall er, nhc_ext_parse b = Ok er ->
     0 <= ne_length er /\ 2 <= nhc_ext_buffer_len er <= 3 /\
     nhc_ext_buffer_len er + ne_length er <= blen b).
Proof.
  intros Hb Hc. destruct (nhc_ext_check_len_inv b Hc) as (x & len & Ex & Hlen & Hle & Hle2).
  cbv zeta in *. set (n := if Z.land (Z.shiftr x 0) 1 =? 0 then 1 else 0) in *.
  assert (Hn : 0 <= n <= 1) by (subst n; destruct (_ =? 0); lia).
  assert (Hgf : forall mask shift, nhc_get_field b mask shift = Ok (Z.land (Z.shiftr x shift) mask))
    by (intros; unfold nhc_get_field; rewrite Ex; reflexivity).
  assert (Hl0 : 0 <= len) by (pose proof (wb_get_u8_byte b _ len Hb Hlen); lia).
  unfold nhc_ext_new_checked, nhc_ext_parse, nhc_ext_eid_field, nhc_ext_payload, nhc_ext_dispatch_field,
    nhc_ext_next_header, nhc_ext_length, nhc_ext_next_header_size, nhc_ext_nh_field.
  rewrite Hc, !Hgf. cbn [obind]. fold n.
  split; [destruct (7 <? _); discriminate|].
  split.
  { destruct (negb _); [discriminate|]. cbn [obind].
    destruct (Z.land (Z.shiftr x 0) 1 =? 1); cbn [obind]; [rewrite Hlen; discriminate|].
    rewrite wb_get_u8_ok by lia. cbn [obind]. rewrite Hlen. discriminate. }
  split; [discriminate|].
  split.
  { rewrite Hlen. cbn [obind]. unfold wb_from, wb_upto.
    replace ((0 <=? 2 + n) && (2 + n <=? blen b)) with true by (symmetry; zbool; reflexivity). cbn [obind].
    rewrite blen_skipn by lia.
    replace ((0 <=? len) && (len <=? blen b - (2 + n))) with true by (symmetry; zbool; reflexivity). discriminate. }
  intros er H.
  destruct (negb _); [discriminate H|]. cbn [obind] in H.
  assert (Hbits : Z.land (Z.shiftr x 0) 1 = 0 \/ Z.land (Z.shiftr x 0) 1 = 1) by apply land1_cases.
  destruct (Z.land (Z.shiftr x 0) 1 =? 1) eqn:E1; cbn [obind] in H.
  - rewrite Hlen in H. injection H as <-. unfold nhc_ext_buffer_len. cbn [ne_next ne_length].
    apply Z.eqb_eq in E1. subst n. rewrite E1 in *.
    replace (if 1 =? 0 then 1 else 0) with 0 in * by reflexivity. lia.
  - destruct (wb_get_u8 b 1); cbn [obind] in H; try discriminate H. rewrite Hlen in H. injection H as <-.
    unfold nhc_ext_buffer_len. cbn [ne_next ne_length].
    apply Z.eqb_neq in E1. assert (E0 : Z.land (Z.shiftr x 0) 1 = 0) by lia. subst n. rewrite E0 in *.
    replace (if 0 =? 0 then 1 else 0) with 1 in * by reflexivity. lia.
Qed.

Lemma nhc_ext_new_checked_total b : nhc_ext_new_checked b <> Panic.
Proof.
  unfold nhc_ext_new_checked. destruct (nhc_ext_check_len b) as [[]| |] eqn:E; cbn [obind]; try discriminate.
  - destruct (nhc_ext_check_len_inv b E) as (x & len & Ex & _).
    unfold nhc_ext_eid_field, nhc_get_field. rewrite Ex. cbn [obind]. destruct (7 <? _); discriminate.
  - exfalso. exact (nhc_ext_check_len_total b E).
Qed.

Lemma nhc_ext_new_checked_inv b : nhc_ext_new_checked b = Ok tt -> nhc_ext_check_len b = Ok tt.
Proof.
  unfold nhc_ext_new_checked. destruct (nhc_ext_check_len b) as [[]| |]; cbn [obind]; intros H;
    [reflexivity | discriminate H | discriminate H].
Qed.

Lemma lp_decompress_next_header_total nh payload : bytes_ok payload = true ->
  lp_decompress_next_header nh payload <> Panic.
Proof.
  intros Hb. unfold lp_decompress_next_header. destruct nh; [discriminate|].
  apply obind_nopanic; [apply nhc_dispatch_total|]. intros k _.
  destruct (k =? 0); [|discriminate].
  destruct (nhc_ext_new_checked payload) as [[]| |] eqn:E; cbn [obind]; try discriminate.
  - apply nhc_ext_new_checked_inv in E. destruct (nhc_ext_safe payload Hb E) as (_ & _ & He & _).
    apply obind_nopanic; [assumption | discriminate].
  - exfalso. exact (nhc_ext_new_checked_total payload E).
Qed.

Lemma wb_from_bytes l lo r : bytes_ok l = true -> wb_from l lo = Ok r -> bytes_ok r = true.
Proof.
  intros Hb H. unfold wb_from in H. destruct ((0 <=? lo) && (lo <=? blen l)); [|discriminate H].
  injection H as <-. apply bytes_ok_skipn. assumption.
Qed.

Lemma wb_from_len l lo r : wb_from l lo = Ok r -> 0 <= lo <= blen l /\ blen r = blen l - lo.
Proof.
  intros H. unfold wb_from in H. destruct ((0 <=? lo) && (lo <=? blen l)) eqn:E; [|discriminate H].
  injection H as <-. bsplit. rewrite blen_skipn by lia. lia.
Qed.

(* decompress_ext_hdr: never panics; consumes at least two octets; keeps the bookkeeping sane *)
Lemma lp_decompress_ext_hdr_spec data s : bytes_ok data = true -> 0 <= ds_room s ->
  lp_decompress_ext_hdr data s <> Panic /\
  forall s' data' nh', lp_decompress_ext_hdr data s = Ok (s', data', nh') ->
    bytes_ok data' = true /\ blen data' + 2 <= blen data /\ 0 <= ds_room s' /\
    ds_payload_len s <= ds_payload_len s' /\
    blen (ds_out s') + ds_room s' = blen (ds_out s) + ds_room s.
Proof.
  intros Hb Hroom. unfold lp_decompress_ext_hdr.
  destruct (nhc_ext_new_checked data) as [[]| |] eqn:Enc; cbn [obind];
    [|split; [discriminate | intros ? ? ? HH; discriminate HH] | exfalso; exact (nhc_ext_new_checked_total data Enc)].
  pose proof (nhc_ext_new_checked_inv data Enc) as Ecl.
  destruct (nhc_ext_safe data Hb Ecl) as (_ & Hp & _ & Hpl & Her).
  destruct (nhc_ext_parse data) as [er| |] eqn:Ep; cbn [obind];
    [|split; [discriminate | intros ? ? ? HH; discriminate HH] | congruence].
  destruct (Her er eq_refl) as (Hl0 & Hbl & Hle).
  replace (blen data <? nhc_ext_buffer_len er + ne_length er) with false by (symmetry; apply Z.ltb_ge; lia).
  rewrite (wb_from_ok data (ne_length er + nhc_ext_buffer_len er)) by lia. cbn [obind].
  assert (Hba : bytes_ok (skipn (Z.to_nat (ne_length er + nhc_ext_buffer_len er)) data) = true)
    by (apply bytes_ok_skipn; assumption).
  pose proof (lp_decompress_next_header_total (ne_next er) _ Hba) as Hnh.
  destruct (lp_decompress_next_header (ne_next er) _) as [nh| |]; cbn [obind];
    [|split; [discriminate | intros ? ? ? HH; discriminate HH] | congruence].
  destruct (nhc_ext_payload data) as [pl| |] eqn:Epl; cbn [obind];
    [|split; [discriminate | intros ? ? ? HH; discriminate HH] | congruence].
  destruct (ds_room s <? 2 + blen pl) eqn:Er; [split; [discriminate | intros ? ? ? HH; discriminate HH]|].
  apply Z.ltb_ge in Er.
  rewrite (wb_from_ok data (nhc_ext_buffer_len er + ne_length er)) by lia. cbn [obind].
  split; [discriminate|]. intros s' data' nh' HH. injection HH as <- <- <-.
  cbn [ds_room ds_out ds_payload_len]. pose proof (blen_nonneg pl).
  split; [apply bytes_ok_skipn; assumption|]. rewrite blen_skipn by lia.
  autorewrite with blen. repeat split; lia.
Qed.

(* decompress_udp: never panics *)
Lemma lp_decompress_udp_spec data src dst total_len s : blen data < 65528 ->
  lp_decompress_udp data src dst total_len s <> Panic /\
  forall s', lp_decompress_udp data src dst total_len s = Ok s' ->
    40 <= ds_payload_len s -> (forall t, total_len = Some t -> 40 <= t) ->
    0 <= ds_room s' /\ blen (ds_out s') + ds_room s' = blen (ds_out s) + ds_room s /\
    40 <= ds_payload_len s'.
Proof.
  intros Hl. unfold lp_decompress_udp.
  destruct (nhc_udp_check_len data) as [[]| |] eqn:Ec; cbn [obind];
    [|split; [discriminate | intros ? HH; discriminate HH] | exfalso; exact (nhc_udp_check_len_total data Ec)].
  destruct (nhc_udp_accessors_safe data Ec) as (_ & _ & Hck & Hpl & _).
  destruct (nhc_udp_payload data) as [payload| |] eqn:Ep; cbn [obind];
    [|split; [discriminate | intros ? HH; discriminate HH] | congruence].
  pose proof (nhc_udp_parse_total data src dst false Hl) as Hpa.
  destruct (nhc_udp_parse data src dst false) as [ports| |]; cbn [obind];
    [|split; [discriminate | intros ? HH; discriminate HH] | congruence].
  destruct (ds_room s <? lp_UDP_HDR + blen payload) eqn:Er;
    [split; [discriminate | intros ? HH; discriminate HH]|]. apply Z.ltb_ge in Er.
  destruct total_len as [t|].
  - destruct (t <? ds_payload_len s + lp_UDP_HDR) eqn:Et; cbn [obind];
      [split; [discriminate | intros ? HH; discriminate HH]|]. apply Z.ltb_ge in Et.
    destruct (nhc_udp_checksum data) as [ck| |]; cbn [obind];
      [|split; [discriminate | intros ? HH; discriminate HH] | congruence].
    split; [discriminate|]. intros s' HH Hp40 Ht. injection HH as <-. cbn [ds_room ds_out ds_payload_len].
    unfold lp_UDP_HDR in *. zfold_in Er. zfold_in Et. revert Er Et. zfold. intros Er Et.
    autorewrite with blen. unfold be_enc2, blen. cbn [length]. unfold blen in *. lia.
  - cbn [obind].
    destruct (nhc_udp_checksum data) as [ck| |]; cbn [obind];
      [|split; [discriminate | intros ? HH; discriminate HH] | congruence].
    split; [discriminate|]. intros s' HH Hp40 Ht. injection HH as <-. cbn [ds_room ds_out ds_payload_len].
    unfold lp_UDP_HDR in *. zfold_in Er. revert Er. zfold. intros Er. pose proof (blen_nonneg payload).
    autorewrite with blen. unfold be_enc2, blen. cbn [length]. unfold blen in *. lia.
Qed.

(* ---------- the addresses iphc_parse reconstructs are 16 octets long ---------- *)

Definition lp_ctx_wf (ctx : list (list Z)) : Prop := Forall (fun c => blen c = 8) ctx.

Lemma iphc_src_unres_ok b u : iphc_src_unres b = Ok u -> iphc_unres_ok u.
Proof.
  unfold iphc_src_unres. intros H. obind_inv H.
  destruct (v0 =? 0); destruct (v1 =? 0); try destruct (v1 =? 1); try destruct (v1 =? 2);
    try (injection H as <-; exact I);
    try (obind_inv H; destruct v2 as [id|]; try discriminate H);
    try (injection H as <-; exact I);
    (obind_inv H; injection H as <-; cbn;
     match goal with E : iphc_inline _ _ _ = Ok _ |- _ => exact (proj1 (iphc_inline_len _ _ _ _ E)) end).
Qed.

Lemma iphc_dst_unres_ok b u : iphc_dst_unres b = Ok u -> iphc_unres_ok u.
Proof.
  unfold iphc_dst_unres. intros H. obind_inv H.
  destruct (v1 =? 0); destruct (v2 =? 0); destruct (v3 =? 0); try destruct (v3 =? 1); try destruct (v3 =? 2);
    try (injection H as <-; exact I);
    try (obind_inv H; destruct v4 as [id|]; try discriminate H);
    try (injection H as <-; exact I);
    (obind_inv H; injection H as <-; cbn;
     match goal with E : iphc_inline _ _ _ = Ok _ |- _ => exact (proj1 (iphc_inline_len _ _ _ _ E)) end).
Qed.

Lemma wb_arr_inv n v r : wb_arr n v = Ok r -> r = v /\ blen v = n.
Proof. unfold wb_arr. destruct (blen v =? n) eqn:E; intros H; [|discriminate H]. injection H as <-. bsplit. auto. Qed.

Lemma iphc_iid_len ll iid : iphc_iid_of_ll ll = Ok iid -> blen iid = 8.
Proof.
  destruct ll as [[|a|a]|]; cbn [iphc_iid_of_ll]; intros H; try discriminate H.
  - obind_inv H. injection H as <-. apply wb_arr_inv in E. destruct E as (-> & E). autorewrite with blen. unfold blen in *. cbn [length]. lia.
  - destruct (iphc_as_eui64 (LlExtended a)); [|discriminate H]. obind_inv H. injection H as <-.
    apply wb_arr_inv in E. destruct E as (-> & E). exact E.
Qed.

Lemma iphc_context_len ctx idx c : lp_ctx_wf ctx -> iphc_context ctx idx = Ok c -> blen c = 8.
Proof.
  intros Hw. unfold iphc_context. destruct (_ <=? idx) eqn:E1; [intros HH; discriminate HH|].
  destruct (idx <? 0) eqn:E2; [intros HH; discriminate HH|]. intros HH. injection HH as <-. bsplit.
  unfold lp_ctx_wf in Hw. rewrite Forall_forall in Hw. apply Hw. apply nth_In. lia.
Qed.

Lemma blen_skipn1 (v : list Z) n : blen v = n -> 1 <= n -> blen (skipn 1 v) = n - 1.
Proof. intros H Hn. destruct v; [unfold blen in H; cbn in H; lia|]. cbn [skipn]. autorewrite with blen in H. lia. Qed.

Lemma mc48_len v : blen v = 6 -> blen ([255; nth 0 v 0] ++ iphc_zeros 9 ++ skipn 1 v) = 16.
Proof. intros H. apply (blen_length _ 6) in H. cells H. reflexivity. Qed.
Lemma mc32_len v : blen v = 4 -> blen ([255; nth 0 v 0] ++ iphc_zeros 11 ++ skipn 1 v) = 16.
Proof. intros H. apply (blen_length _ 4) in H. cells H. reflexivity. Qed.

Lemma iphc_resolve_len u ll ctx a : iphc_unres_ok u -> lp_ctx_wf ctx ->
  iphc_resolve u ll ctx = Ok a -> blen a = 16.
Proof.
  intros Hu Hc H. destruct u as [m|idx m|].
  - destruct m.
    + cbn [iphc_resolve] in H. apply wb_arr_inv in H. destruct H as (-> & E). exact E.
    + cbn [iphc_resolve] in H. obind_inv H. injection H as <-. apply wb_arr_inv in E. destruct E as (-> & E).
      unfold iphc_LL_PREFIX. autorewrite with blen. lia.
    + cbn [iphc_resolve] in H. obind_inv H. injection H as <-. apply wb_arr_inv in E. destruct E as (-> & E).
      unfold iphc_LL_PREFIX. autorewrite with blen. lia.
    + cbn [iphc_resolve] in H. obind_inv H. injection H as <-. apply iphc_iid_len in E.
      unfold iphc_LL_PREFIX. autorewrite with blen. lia.
    + cbn [iphc_resolve] in H. obind_inv H. injection H as <-. apply wb_arr_inv in E. destruct E as (-> & E).
      exact (mc48_len v E).
    + cbn [iphc_resolve] in H. obind_inv H. injection H as <-. apply wb_arr_inv in E. destruct E as (-> & E).
      exact (mc32_len v E).
    + cbn [iphc_resolve] in H. obind_inv H. injection H as <-. apply wb_arr_inv in E. destruct E as (-> & E).
      unfold iphc_zeros. autorewrite with blen. lia.
    + cbn [iphc_resolve] in H. discriminate H.
    + cbn [iphc_resolve] in H. discriminate H.
  - destruct m.
    + cbn [iphc_resolve] in H. discriminate H.
    + cbn [iphc_resolve] in H. obind_inv H. injection H as <-. apply wb_arr_inv in E0. destruct E0 as (-> & E0).
      apply (iphc_context_len _ _ _ Hc) in E. autorewrite with blen. lia.
    + cbn [iphc_resolve] in H. obind_inv H. injection H as <-. apply wb_arr_inv in E0. destruct E0 as (-> & E0).
      apply (iphc_context_len _ _ _ Hc) in E. unfold iphc_zeros. autorewrite with blen. lia.
    + cbn [iphc_resolve] in H. obind_inv H. injection H as <-. apply iphc_iid_len in E.
      apply (iphc_context_len _ _ _ Hc) in E0. autorewrite with blen. lia.
    + cbn [iphc_resolve] in H. discriminate H.
    + cbn [iphc_resolve] in H. discriminate H.
    + cbn [iphc_resolve] in H. discriminate H.
    + cbn [iphc_resolve] in H. injection H as <-. reflexivity.
    + cbn [iphc_resolve] in H. discriminate H.
  - cbn [iphc_resolve] in H. discriminate H.
Qed.

Lemma iphc_parse_addr_len b lls lld ctx r : lp_ctx_wf ctx -> iphc_parse b lls lld ctx = Ok r ->
  blen (ir_src r) = 16 /\ blen (ir_dst r) = 16.
Proof.
  intros Hc H. unfold iphc_parse in H. obind_inv H. destruct (negb _); [discriminate H|]. obind_inv H.
  injection H as <-. cbn [ir_src ir_dst].
  split; eapply iphc_resolve_len; try eassumption; [eapply iphc_src_unres_ok | eapply iphc_dst_unres_ok]; eassumption.
Qed.

(* the loop of sixlowpan_to_ipv6 *)
Lemma lp_decompress_loop_spec src dst total_len : forall fuel data nh s,
  bytes_ok data = true -> blen data < 65528 -> 0 <= ds_room s -> 40 <= ds_payload_len s ->
  (forall t, total_len = Some t -> 40 <= t) ->
  lp_decompress_loop fuel data nh src dst total_len s <> Panic /\
  forall s', lp_decompress_loop fuel data nh src dst total_len s = Ok s' ->
    0 <= ds_room s' /\ blen (ds_out s') + ds_room s' = blen (ds_out s) + ds_room s /\
    40 <= ds_payload_len s'.
Proof.
  induction fuel as [|fuel IH]; intros data nh s Hb Hl Hr Hp Ht; cbn [lp_decompress_loop].
  - split; [discriminate | intros ? HH; discriminate HH].
  - destruct nh as [proto|].
    + destruct ((proto =? lp_PROTO_TCP) || (proto =? lp_PROTO_UDP) || (proto =? lp_PROTO_ICMPV6));
        [|split; [discriminate | intros ? HH; discriminate HH]].
      destruct (ds_room s <? blen data) eqn:Er; [split; [discriminate | intros ? HH; discriminate HH]|].
      apply Z.ltb_ge in Er. split; [discriminate|]. intros s' HH. injection HH as <-.
      cbn [ds_room ds_out ds_payload_len]. pose proof (blen_nonneg data). autorewrite with blen. lia.
    + pose proof (nhc_dispatch_total data) as Hd.
      destruct (nhc_dispatch data) as [k| |]; cbn [obind];
        [|split; [discriminate | intros ? HH; discriminate HH] | congruence].
      destruct (k =? 0).
      * destruct (lp_decompress_ext_hdr_spec data s Hb Hr) as (Hnp & Hsp).
        destruct (lp_decompress_ext_hdr data s) as [((s1, data1), nh1)| |]; cbn [obind];
          [|split; [discriminate | intros ? HH; discriminate HH] | congruence].
        destruct (Hsp s1 data1 nh1 eq_refl) as (Hb1 & Hl1 & Hr1 & Hp1 & Hsum).
        destruct (IH data1 nh1 s1 Hb1 ltac:(lia) Hr1 ltac:(lia) Ht) as (Hnp2 & Hsp2).
        split; [assumption|]. intros s' HH. destruct (Hsp2 s' HH) as (A & B & C). repeat split; lia.
      * destruct (lp_decompress_udp_spec data src dst total_len s Hl) as (Hnp & Hsp).
        split; [assumption|]. intros s' HH. exact (Hsp s' HH Hp Ht).
Qed.

(* decompress_no_panic: sixlowpan_to_ipv6 (with decompress_ext_hdr / decompress_udp and every length
   computation in them) never panics, for ALL octet strings, any link-layer addresses and contexts,
   a buffer of at least 40 octets and, for fragments, a datagram size of at least 40; and what it
   writes fits the buffer *)
Theorem lp_sixlowpan_to_ipv6_total ctx lls lld b total_len buflen :
  bytes_ok b = true -> blen b < 65528 -> iphc_ll_wf lls = true -> iphc_ll_wf lld = true ->
  lp_ctx_wf ctx ->
  lp_IPV6_HDR <= buflen -> (forall t, total_len = Some t -> lp_IPV6_HDR <= t) ->
  lp_sixlowpan_to_ipv6 ctx lls lld b total_len buflen <> Panic /\
  forall d, lp_sixlowpan_to_ipv6 ctx lls lld b total_len buflen = Ok d -> blen d <= buflen.
Proof.
  intros Hb Hl Hls Hld Hctx Hbuf Ht. unfold lp_sixlowpan_to_ipv6.
  destruct (iphc_parse_total b lls lld ctx Hls Hld) as (Hpa & Hcl & Hafter).
  destruct (iphc_check_len b) as [[]| |] eqn:Ec; cbn [obind];
    [|split; [discriminate | intros ? HH; discriminate HH] | congruence].
  destruct (Hafter eq_refl) as (Hpl & _).
  destruct (iphc_parse b lls lld ctx) as [r| |] eqn:Epr; cbn [obind];
    [|split; [discriminate | intros ? HH; discriminate HH] | congruence].
  destruct (iphc_parse_addr_len b lls lld ctx r Hctx Epr) as (Ls & Ld).
  replace (buflen <? lp_IPV6_HDR) with false by (symmetry; apply Z.ltb_ge; lia).
  destruct (iphc_payload b) as [data| |] eqn:Ed; cbn [obind];
    [|split; [discriminate | intros ? HH; discriminate HH] | congruence].
  assert (Hbd : bytes_ok data = true).
  { unfold iphc_payload in Ed. destruct (iphc_header_len b); cbn [obind] in Ed; try discriminate Ed.
    eapply wb_from_bytes; eassumption. }
  assert (Hld' : blen data <= blen b).
  { unfold iphc_payload in Ed. destruct (iphc_header_len b); cbn [obind] in Ed; try discriminate Ed.
    apply wb_from_len in Ed. lia. }
  unfold lp_IPV6_HDR in *. zfold_in Hbuf.
  assert (Ht' : forall t, total_len = Some t -> 40 <= t).
  { intros t E. specialize (Ht t E). revert Ht. zfold. auto. }
  destruct (lp_decompress_loop_spec (ir_src r) (ir_dst r) total_len (S (length data)) data (ir_nh r)
              (mkDs [] (buflen - 40) 40) Hbd ltac:(lia) ltac:(cbn; zfold; lia) ltac:(cbn; lia) Ht') as (Hnp & Hsp).
  revert Hnp Hsp. zfold. intros Hnp Hsp.
  destruct (lp_decompress_loop _ data (ir_nh r) (ir_src r) (ir_dst r) total_len _) as [s| |]; cbn [obind];
    [|split; [discriminate | intros ? HH; discriminate HH] | congruence].
  destruct (Hsp s eq_refl) as (Hr & Hsum & Hp40). cbn [ds_out ds_room] in Hsum.
  pose proof (lp_decompress_next_header_total (ir_nh r) data Hbd) as Hnh.
  destruct (lp_decompress_next_header (ir_nh r) data) as [nh| |]; cbn [obind];
    [|split; [discriminate | intros ? HH; discriminate HH] | congruence].
  unfold lpf_usub.
  assert (Hge : 40 <= match total_len with Some t => t | None => ds_payload_len s end)
    by (destruct total_len as [t|]; [apply Ht'; reflexivity | assumption]).
  replace (_ <? 40) with false by (symmetry; apply Z.ltb_ge; exact Hge). cbn [obind].
  split; [discriminate|]. intros d HH. injection HH as <-.
  unfold lp_ipv6_header. autorewrite with blen. rewrite Ls, Ld.
  assert (Hnil : blen (@nil Z) = 0) by reflexivity. lia.
Qed.
