(* C02 (liveness half), layer 4: DATA TRANSFER between two ESTABLISHED sockets under a fair
   schedule - the two-socket interaction.

   Direction x -> y (x sends, y receives; the reverse stream is empty: y has written nothing).
   [oneway_safe x st] collects what the argument takes from elsewhere about every state of the run
   (a run hypothesis, [run_all]): it is SAFETY content - the regime (both ESTABLISHED, nobody has
   closed, no zero window has been advertised: that case is Proofs/TcpProgressZwp), C04's receiver
   facts (assembler well-formed, advertised window at most 2^30 and not behind RCV.NXT), and C01's
   cross-socket facts (RCV.NXT of y lies within x's unacknowledged octets; what is in flight
   towards y acknowledges y's SND.UNA).  Everything else - every timer, deadline and reaction - is
   proved here from the socket model, for EVERY fair schedule ([fair_run]).

   retransmission_eventually_delivered   (step 2) the oldest unacknowledged octet of x is accepted
                                         by y's receive path within RTO_MAX + Dt of virtual time. *)
From SV Require Import Lib.Base Gen.Consts.
From SV Require Import Model.Seq32 Model.Assembler Model.TcpBuf Model.TcpTypes Model.Tcp Model.TcpNet.
From SV Require Import Proofs.TcpSendBase Proofs.TcpLiveBase Proofs.TcpLiveProofs Proofs.TcpLiveMore
  Proofs.TcpLiveProgress.
From SV Require Import Proofs.TcpNetBase.
From SV Require Proofs.TcpRecvBase Proofs.TcpRecvWindow Proofs.TcpRecvInv Proofs.TcpRecvProcess Proofs.TcpRecvDispatch.
From SV Require Import Proofs.TcpProgressBase Proofs.TcpProgressFrame Proofs.TcpProgressRecv
  Proofs.TcpProgressSend Proofs.TcpProgressNet.

Notation p30 := TcpRecvWindow.p30.

(* the advertised window is open *)
Definition adv_open (s : socket) : Prop :=
  exists W, 0 < W <= p30 /\ tcp_window_end s = seq_norm (tcp_window_start s + W).

Lemma adv_open_ok s : adv_open s -> adv_ok s.
Proof. intros (W & HW & E). exists W. split; [lia | exact E]. Qed.

(* a segment of the sender in flight towards a receiver [sy] that has sent nothing but its SYN *)
Definition seg_to_rcv (sy : socket) (r : tcp_repr) : Prop :=
  (r_control r = CSyn /\ r_ack_number r = None) \/
  ((r_control r = CNone \/ r_control r = CPsh) /\ r_ack_number r = Some (s_local_seq_no sy) /\
   l_len (r_payload r) <= 65535).

(* process_tcp hands the segment to the socket *)
Definition accepts_ok (s : socket) (p : packet) : Prop :=
  ((ip_src (fst p) =? 0) || (ip_dst (fst p) =? 0)) = false /\
  ((r_src_port (wire_parse (snd p)) =? 0) || (r_dst_port (wire_parse (snd p)) =? 0)) = false /\
  tcp_accepts s (fst p) (wire_parse (snd p)) = true.

(* a step that touches only clocks / random numbers leaves sockets, logs and channels alone *)
Definition ep_same_data (e' e : endpoint) : Prop :=
  ep_sock e' = ep_sock e /\ ep_written e' = ep_written e /\ ep_read e' = ep_read e /\ ep_out e' = ep_out e.

Lemma tick_same st d z : ep_same_data (net_get (tick_net st d) z) (net_get st z).
Proof. destruct z; cbn; repeat split. Qed.

Lemma rand_same st w isn ts z :
  ep_same_data (net_get (net_set st w (ep_set_cx (net_get st w) (cx_rand (ep_cx (net_get st w)) isn ts))) z)
               (net_get st z).
Proof.
  destruct (side_cases w z) as [-> | ->]; [rewrite net_get_set_same | rewrite net_get_set_other];
    cbn; repeat split.
Qed.

Lemma net_step_tick st d st' : net_step st (NTick d) = Ok st' -> st' = tick_net st d.
Proof. unfold net_step, tick_net. intros H. inversion H. reflexivity. Qed.

Lemma net_run_skew2 evs st st' a b :
  net_run st evs = Ok st' -> net_now st' a - net_now st' b = net_now st a - net_now st b.
Proof. intros H. pose proof (net_run_skew _ _ _ H). destruct a, b; lia. Qed.

Section OneWay.
Variable x : side.
Let y := side_other x.

Record oneway_safe (st : net) : Prop := mkOW {
  ow_est : forall z, s_state (net_sock st z) = Established;
  ow_tuple : forall z, exists t, s_tuple (net_sock st z) = Some t /\
                                 tu_local_addr t = cx_addr (ep_cx (net_get st z));
  ow_acc : forall z p, In p (chan_to st z) -> accepts_ok (net_sock st z) p;
  ow_win : 0 < s_remote_win_len (net_sock st x);
  ow_nozwp : timer_is_zero_window_probe (s_timer (net_sock st x)) = false;
  ow_mss : mss_ok (ep_cx (net_get st x)) (net_sock st x);
  ow_txb : rb_len (s_tx_buffer (net_sock st x)) < 2 ^ 30;
  ow_ytx : rb_len (s_tx_buffer (net_sock st y)) = 0;
  ow_rcv : rcv_wf (net_sock st y) /\ adv_open (net_sock st y) /\
           TcpRecvBase.rb_wf (s_rx_buffer (net_sock st y)) /\ 0 <= s_remote_win_shift (net_sock st y);
  ow_chan : forall p, In p (chan_to st y) -> seg_to_rcv (net_sock st y) (wire_parse (snd p));
  ow_cross : tcp_window_start (net_sock st y) =
               sq (s_local_seq_no (net_sock st x) + (rcv_off (net_get st y) - una_off (net_get st x))) /\
             0 <= rcv_off (net_get st y) - una_off (net_get st x) <= rb_len (s_tx_buffer (net_sock st x))
}.

(* (v) of the fairness hypothesis is an invariant *)
Lemma opts_step st ev st' : opts_ok st -> net_step st ev = Ok st' -> opts_ok st'.
Proof.
  intros Ho H z. specialize (Ho z). unfold net_sock in *.
  destruct (net_step_kind _ _ _ H) as [w ev0 e' Hse He -> | to i -> _ -> | d -> -> | w isn ts -> -> | to i Hd].
  - destruct (side_cases w z) as [-> | ->]; [|rewrite net_get_set_other; exact Ho].
    rewrite net_get_set_same.
    destruct (ep_step_spec _ _ _ He) as (s' & out & tags & Hs & Hk & _).
    destruct (step_aux _ _ _ _ _ _ (sock_event_run_ev _ _ _ _ Hse) Hs) as ((_ & C2 & C3) & _).
    rewrite Hk, C2, C3. exact Ho.
  - exact Ho.
  - destruct z; exact Ho.
  - destruct (side_cases w z) as [-> | ->]; [rewrite net_get_set_same | rewrite net_get_set_other]; exact Ho.
  - unfold net_step in H. destruct Hd as [-> | ->]; inversion H; subst;
      destruct (side_cases (side_other to) z) as [E | E]; rewrite E in *;
      rewrite ?net_get_set_same, ?net_get_set_other; cbn [ep_set_out ep_sock]; exact Ho.
Qed.

(* process_tcp of an accepted segment is `process` *)
Lemma ingress_is_process cx s p :
  accepts_ok s p ->
  iface_tcp_ingress cx s (fst p) (wire_parse (snd p)) = tcp_process cx s (fst p) (wire_parse (snd p)).
Proof. intros (H1 & H2 & H3). unfold iface_tcp_ingress. rewrite H1, H2, H3. reflexivity. Qed.

Lemma wire_parse_seq r : 0 <= r_seq_number (wire_parse r) < 4294967296.
Proof. unfold wire_parse. cbn [r_seq_number]. apply TcpRecvBase.seq_norm_range. Qed.

Lemma wire_parse_same r :
  r_control (wire_parse r) = r_control r /\ r_payload (wire_parse r) = r_payload r /\
  r_seq_number (wire_parse r) = seq_norm (r_seq_number r).
Proof. unfold wire_parse. cbn. auto. Qed.

(* an old SYN (no ACK) reaching a synchronised socket is dropped *)
Lemma process_syn_ignored cx s ip r s' rep tags :
  s_state s = Established -> r_control r = CSyn -> r_ack_number r = None ->
  tcp_process cx s ip r = Ok (s', rep, tags) -> s' = s /\ rep = None.
Proof.
  intros Hst Hc Ha H. unfold tcp_process in H. destruct (negb (tcp_accepts s ip r)); [discriminate|].
  unfold tcp_process_ack_check in H. rewrite Hst, Hc, Ha in H. cbn [obind] in H.
  inversion H; auto.
Qed.

(* ---------------------------------------------------------------------------------------- *)
(* an event of the receiver never moves RCV.NXT back                                         *)
(* ---------------------------------------------------------------------------------------- *)
Lemma y_event_mono st ev ev0 e' :
  NI st -> oneway_safe st ->
  sock_event st ev y ev0 -> ep_step (net_get st y) ev0 = Ok e' ->
  rcv_off (net_get st y) <= rcv_off e'.
Proof.
  intros HN HR Hse He.
  pose proof (NI_live st y HN) as Iy. unfold net_sock in Iy.
  destruct (ow_rcv st HR) as (Hrw & Hadv & Hrxwf & Hsh). fold y in Hrw, Hadv, Hrxwf, Hsh. unfold net_sock in *.
  destruct (ep_step_spec _ _ _ He) as (s' & out & tags & Hs & Hk & _).
  destruct ev; cbn [sock_event] in Hse; try contradiction.
  - (* a segment arrives *)
    destruct Hse as (-> & p & Hn & ->).
    rewrite (ep_step_rcv_off _ _ _ _ _ _ He Hs) by discriminate.
    cbn [tcp_step] in Hs. apply obind_ok in Hs. destruct Hs as (((s1 & rp) & tg) & Hi & Hs).
    assert (E : s1 = s') by (inversion Hs; reflexivity). subst s1.
    pose proof (nth_error_In _ _ Hn) as Hin.
    rewrite (ingress_is_process _ _ _ (ow_acc st HR y p Hin)) in Hi. unfold net_sock in Hi.
    pose proof (ow_est st HR y) as Hst. unfold net_sock in Hst.
    destruct (ow_chan st HR p Hin) as [(Hc & Ha) | (Hc & Ha & Hl)]; unfold net_sock in *.
    + destruct (process_syn_ignored _ _ _ _ _ _ _ Hst Hc Ha Hi) as (-> & _). lia.
    + pose proof (ow_ytx st HR) as Hytx. unfold net_sock in Hytx. fold y in Hytx.
      assert (Hu : 0 <= s_local_seq_no (ep_sock (net_get st y)) < 4294967296) by apply (li_una _ Iy).
      assert (Hl30 : l_len (r_payload (wire_parse (snd p))) <= p30) by (unfold TcpRecvWindow.p30; lia).
      assert (Htx31 : 0 <= rb_len (s_tx_buffer (ep_sock (net_get st y))) < 2147483648) by lia.
      destruct (process_rcv_mono _ _ _ _ _ _ _ Hst Hrw (adv_open_ok _ Hadv)
                  Hl30 (wire_parse_seq (snd p)) Hc Ha Hu Htx31 Hi)
        as (_ & Hm & _). lia.
  - (* poll *)
    destruct Hse as (-> & ->).
    rewrite (ep_step_rcv_off _ _ _ _ _ _ He Hs) by discriminate.
    cbn [tcp_step] in Hs. apply obind_ok in Hs. destruct Hs as (((s1 & rs) & tg) & Hd & Hs).
    assert (E : s1 = s') by (inversion Hs; reflexivity). subst s1.
    destruct (ow_tuple st HR y) as (t & Ht & Hta). unfold net_sock in Ht.
    destruct (TcpRecvDispatch.dispatch_spec _ _ _ _ _ _ Hrxwf Hsh Hd) as [(Hres & _) | (_ & (_ & Hrx & _) & _)].
    + unfold TcpRecvDispatch.dispatch_resets in Hres. rewrite Ht, Hta, Z.eqb_refl in Hres. discriminate.
    + rewrite Hrx. lia.
  - (* send *)
    destruct Hse as (-> & ->).
    destruct (ep_step_send_una_off _ _ _ (li_tx _ Iy) He) as (_ & _ & _ & _ & _ & Hrx & Hrd).
    unfold rcv_off. rewrite Hrx, Hrd. lia.
  - (* recv *)
    destruct Hse as (-> & ->).
    assert (Hn0 : 0 <= Z.max 0 n) by lia.
    destruct (ep_step_recv _ _ _ Hrxwf Hn0 He) as (E & _). lia.
  - (* close *)
    destruct Hse as (-> & ->).
    rewrite (ep_step_rcv_off _ _ _ _ _ _ He Hs) by discriminate.
    cbn [tcp_step] in Hs. inversion Hs; subst s'. unfold tcp_close.
    destruct (s_state (ep_sock (net_get st y))); sproj; lia.
Qed.

(* ---------------------------------------------------------------------------------------- *)
(* an event of the sender: progress, or SND.UNA and the retransmission deadline stay, or the   *)
(* oldest unacknowledged octets are (re)transmitted                                          *)
(* ---------------------------------------------------------------------------------------- *)
Definition emitted_at_una (now : Z) (sx : socket) (ex e' : endpoint) : Prop :=
  exists p e1, ep_out e' = ep_out ex ++ [p] /\ r_seq_number (snd p) = s_local_seq_no sx /\
               0 < repr_segment_len (snd p) /\ r_ack_number (snd p) <> None /\
               s_timer (ep_sock e') = TRetransmit e1 /\ e1 <= now + max_rto_us.

Lemma need_established s : s_state s = Established -> 0 < rb_len (s_tx_buffer s) -> tcp_need s.
Proof. intros Hst Hl. unfold tcp_need. rewrite Hst. exact Hl. Qed.

Lemma x_event st ev ev0 e' fa :
  NI st -> opts_ok st -> oneway_safe st -> oneway_safe (net_set st x e') ->
  fair_ev fa st ev ->
  0 < rb_len (s_tx_buffer (net_sock st x)) ->
  sock_event st ev x ev0 -> ep_step (net_get st x) ev0 = Ok e' ->
  una_off (net_get st x) < una_off e' \/
  (una_off e' = una_off (net_get st x) /\
   s_local_seq_no (ep_sock e') = s_local_seq_no (net_sock st x) /\
   rb_len (s_tx_buffer (net_sock st x)) <= rb_len (s_tx_buffer (ep_sock e')) /\
   ((s_timer (ep_sock e') = s_timer (net_sock st x) \/ s_timer (ep_sock e') = TFastRetransmit \/
     timer_is_idle (s_timer (ep_sock e')) = true)
    \/ emitted_at_una (net_now st x) (net_sock st x) (net_get st x) e')).
Proof.
  intros HN Ho HR HR' Hfe Hlen Hse He.
  pose proof (NI_live st x HN) as Ix. destruct (HN x) as (Hcx & Hnow & _ & _).
  pose proof (ow_est st HR x) as Hst. pose proof (ow_est _ HR' x) as Hst'.
  pose proof (ow_nozwp st HR) as Hnz. pose proof (ow_nozwp _ HR') as Hnz'.
  pose proof (ow_win st HR) as Hwin. pose proof (ow_txb st HR) as Htxb. pose proof (ow_mss st HR) as Hmss.
  destruct (ow_tuple st HR x) as (t & Htu & Hta).
  destruct (Ho x) as (Hto & _).
  unfold net_sock in *. rewrite net_get_set_same in Hst', Hnz'.
  destruct (ep_step_spec _ _ _ He) as (s' & out & tags & Hs & Hk & _ & Hout & _).
  destruct ev; cbn [sock_event] in Hse; try contradiction.
  - (* a segment arrives *)
    destruct Hse as (-> & p & Hn & ->).
    pose proof (ep_step_una_off _ (EvSegment (fst p) (wire_parse (snd p))) _ _ _ _ I (li_tx _ Ix) He Hs ltac:(discriminate)) as Hu.
    cbn [tcp_step] in Hs. apply obind_ok in Hs. destruct Hs as (((s1 & rp) & tg) & Hi & Hs).
    assert (E : s1 = s') by (inversion Hs; reflexivity). subst s1.
    pose proof (nth_error_In _ _ Hn) as Hin.
    rewrite (ingress_is_process _ _ _ (ow_acc st HR x p Hin)) in Hi. unfold net_sock in Hi.
    rewrite Hk in Hst', Hnz'.
    assert (Htx31 : rb_len (s_tx_buffer (ep_sock (net_get st x))) < 2 ^ 31)
      by (change (2 ^ 30) with 1073741824 in Htxb; change (2 ^ 31) with 2147483648; lia).
    destruct (process_sender_step _ _ _ _ _ _ _ Hcx (seg_ok_parse (snd p)) Ix Hst Hst' Hnz Htx31 Hi)
      as [Hshr | (U & T & Tm)].
    + left. rewrite Hu. lia.
    + right. rewrite Hk. rewrite Hu, T. split; [lia|]. split; [exact U|]. split; [lia|]. left.
      destruct Tm as [Tm | [Tm | [Tm | Tm]]]; auto. rewrite Tm in Hnz'. discriminate.
  - (* poll *)
    destruct Hse as (-> & ->). cbn [fair_ev] in Hfe. subst emit_ok.
    pose proof (ep_step_una_off _ (EvDispatch true) _ _ _ _ I (li_tx _ Ix) He Hs ltac:(discriminate)) as Hu.
    cbn [tcp_step] in Hs. apply obind_ok in Hs. destruct Hs as (((s1 & rs) & tg) & Hd & Hs).
    assert (E : s1 = s' /\ out = ODispatch rs) by (inversion Hs; auto). destruct E as (-> & ->).
    destruct (dispatch_una_tx _ _ _ _ _ _ _ Ix Hst Hto Htu Hta Hd) as (D1 & D2 & _ & _).
    right. rewrite Hk, Hu, D2. split; [lia|]. split; [exact D1|]. split; [lia|].
    pose proof (need_established _ Hst Hlen) as Hneed.
    assert (Haddr : forall t0, s_tuple (ep_sock (net_get st x)) = Some t0 -> tu_local_addr t0 = cx_addr (ep_cx (net_get st x)))
      by (intros t0 Ht0; rewrite Htu in Ht0; inversion Ht0; subst; exact Hta).
    assert (Hw : 0 < rb_len (s_tx_buffer (ep_sock (net_get st x))) -> s_remote_win_len (ep_sock (net_get st x)) <> 0) by lia.
    assert (Hemit : forall ipr repr e1,
              rs = DSent (ipr, repr) -> r_seq_number repr = s_local_seq_no (ep_sock (net_get st x)) ->
              0 < repr_segment_len repr -> s_timer s' = TRetransmit e1 ->
              e1 <= cx_now (ep_cx (net_get st x)) + max_rto_us ->
              emitted_at_una (net_now st x) (ep_sock (net_get st x)) (net_get st x) e').
    { intros ipr repr e1 -> Hsq Hsl Ht1 He1. exists (ipr, repr), e1. cbn [wire_out opt_list] in Hout.
      split; [exact Hout|]. cbn [snd]. split; [exact Hsq|]. split; [exact Hsl|].
      destruct (dispatch_established _ _ _ _ _ _ _ Hst Htu Hta Hd) as (Hack & _).
      destruct (Hack (ipr, repr) (or_introl eq_refl)) as (Ha & _). cbn [snd] in Ha.
      split; [rewrite Ha; discriminate|]. rewrite Hk. split; [exact Ht1 | exact He1]. }
    destruct (s_timer (ep_sock (net_get st x))) as [k|e| |e d|e] eqn:Ht.
    + (* idle: nothing in flight *)
      assert (L : st_live (s_state (ep_sock (net_get st x))) = true) by (rewrite Hst; reflexivity).
      destruct (li_K _ Ix L) as [Ha | (Hfl & _)]; [rewrite Ht in Ha; discriminate|].
      destruct (idle_transmits _ _ _ _ _ Ix Hneed ltac:(rewrite Ht; reflexivity) Hfl Hto Haddr Hw Hmss Hd)
        as (ipr & repr & Hr & Hsq & Hsl & (e1 & Ht1 & He1) & _).
      right. eapply Hemit; eauto. lia.
    + (* retransmission timer *)
      destruct (Z_le_gt_dec e (cx_now (ep_cx (net_get st x)))) as [Hdue | Hnd].
      * destruct (rto_retransmits _ _ _ _ _ _ Ix Hneed Ht Hdue Hto Haddr Hw Hmss Hd)
          as (ipr & repr & Hr & Hsq & Hsl & (e1 & Ht1 & He1) & _).
        right. eapply Hemit; eauto. lia.
      * left. left. apply (dispatch_not_due _ _ _ _ _ _ _ _ Ix Hst Hto Htu Hta Ht ltac:(lia) Hd).
    + (* fast retransmit *)
      destruct (fast_retransmits _ _ _ _ _ Ix Hst Ht Hlen Hwin Hto Haddr Hmss Hd)
        as (ipr & repr & Hr & Hsq & Hsl & (e1 & Ht1 & He1) & _).
      right. eapply Hemit; eauto. lia.
    + discriminate.
    + exfalso. destruct (li_close _ Ix ltac:(rewrite Ht; reflexivity)) as [X | X]; rewrite Hst in X; discriminate.
  - (* send *)
    destruct Hse as (-> & ->).
    destruct (ep_step_send_una_off _ _ _ (li_tx _ Ix) He) as (U1 & U2 & U3 & _ & U5 & _).
    right. split; [exact U1|]. split; [exact U3|]. split; [exact U2|]. left. left. apply U5. lia.
  - (* recv *)
    destruct Hse as (-> & ->).
    pose proof (ep_step_una_off _ (EvRecv (Z.max 0 n)) _ _ _ _ I (li_tx _ Ix) He Hs ltac:(discriminate)) as Hu.
    cbn [tcp_step] in Hs.
    destruct (tcp_recv_slice (ep_sock (net_get st x)) (Z.max 0 n)) as [(s2, b)|err|] eqn:E; [| |discriminate].
    + assert (E1 : s2 = s') by (inversion Hs; reflexivity). subst s2.
      destruct (recv_slice_core _ _ _ _ E) as (_ & C2 & _ & C4 & C5 & _).
      right. rewrite Hk, Hu, C4. split; [lia|]. split; [exact C5|]. split; [lia|]. left. left. exact C2.
    + assert (E1 : s' = ep_sock (net_get st x)) by (inversion Hs; reflexivity). rewrite E1 in *.
      right. rewrite Hk, Hu. split; [lia|]. split; [reflexivity|]. split; [lia|]. left. left. reflexivity.
  - (* close: not in this regime *)
    destruct Hse as (-> & ->). exfalso.
    cbn [tcp_step] in Hs. assert (E1 : tcp_close (ep_sock (net_get st x)) = s') by (inversion Hs; reflexivity).
    rewrite Hk, <- E1 in Hst'. unfold tcp_close in Hst'. rewrite Hst in Hst'. sproj in Hst'. discriminate.
Qed.

(* ---------------------------------------------------------------------------------------- *)
(* one step of the system in the one-way regime                                              *)
(* ---------------------------------------------------------------------------------------- *)
Variables Dt Da : Z.

Definition txl (st : net) : Z := rb_len (s_tx_buffer (net_sock st x)).

(* the goal of a round: y's RCV.NXT (or x's SND.UNA) is beyond the offset u0 *)
Definition Qf (u0 : Z) (st : net) : Prop :=
  u0 < rcv_off (net_get st y) \/ u0 < una_off (net_get st x).

Definition Jbase (u0 dk : Z) (fa : fair_aux) (st : net) : Prop :=
  NI st /\ opts_ok st /\ dl_sync Da fa st /\ net_now st y - net_now st x = dk /\
  una_off (net_get st x) = u0 /\ rcv_off (net_get st y) = u0 /\ 0 < txl st.

(* what the step did to the sender *)
Definition x_rel (st st' : net) : Prop :=
  s_local_seq_no (net_sock st' x) = s_local_seq_no (net_sock st x) /\
  ((s_timer (net_sock st' x) = s_timer (net_sock st x) \/ s_timer (net_sock st' x) = TFastRetransmit \/
    timer_is_idle (s_timer (net_sock st' x)) = true)
   \/ emitted_at_una (net_now st x) (net_sock st x) (net_get st x) (net_get st' x)).

Lemma y_is_other : side_other y = x.
Proof. unfold y. apply side_other_inv. Qed.

Lemma x_neq_y : x <> y.
Proof. unfold y. intros E. symmetry in E. exact (side_other_neq x E). Qed.

Lemma base_step u0 dk fa st ev st' :
  oneway_safe st -> oneway_safe st' -> Jbase u0 dk fa st -> fair_ev fa st ev -> net_step st ev = Ok st' ->
  Qf u0 st' \/ (Jbase u0 dk (fa_after Dt Da fa ev st') st' /\ x_rel st st').
Proof.
  intros HR HR' (HN & Ho & Hsy & Hdk & Hu & Hr & Hl) Hfe H.
  pose proof (NI_step _ _ _ HN H) as HN'. pose proof (opts_step _ _ _ Ho H) as Ho'.
  pose proof (fa_after_sync Dt Da _ _ _ _ Hsy Hfe H) as Hsy'.
  assert (Hdk' : net_now st' y - net_now st' x = dk).
  { rewrite (net_step_now _ _ _ x H), (net_step_now _ _ _ y H). lia. }
  assert (Hsame : ep_same_data (net_get st' x) (net_get st x) -> ep_same_data (net_get st' y) (net_get st y) ->
                  Qf u0 st' \/ (Jbase u0 dk (fa_after Dt Da fa ev st') st' /\ x_rel st st')).
  { intros (X1 & X2 & X3 & X4) (Y1 & Y2 & Y3 & Y4). right.
    unfold Jbase, x_rel, txl, net_sock, una_off, rcv_off, emitted_at_una. rewrite X1, X2, Y1, Y3.
    split; [|split; [reflexivity | left; left; reflexivity]].
    split; [exact HN'|]. split; [exact Ho'|]. split; [exact Hsy'|]. split; [exact Hdk'|].
    split; [exact Hu|]. split; [exact Hr | exact Hl]. }
  destruct (net_step_kind _ _ _ H) as [w ev0 e' Hse He E | to i E1 _ E | d E1 E | w isn ts E1 E | to i Hd].
  - destruct (side_cases x w) as [Ew | Ew]; subst w st'.
    + (* an event of the sender *)
      destruct (x_event _ _ _ _ _ HN Ho HR HR' Hfe Hl Hse He) as [Hp | (U1 & U2 & U3 & U4)].
      * left. right. rewrite net_get_set_same. rewrite <- Hu. exact Hp.
      * right. split.
        -- unfold txl, net_sock in Hl.
           unfold Jbase, txl, net_sock. rewrite net_get_set_same.
           replace (net_get (net_set st x e') y) with (net_get st y) by (symmetry; apply net_get_set_other).
           split; [exact HN'|]. split; [exact Ho'|]. split; [exact Hsy'|]. split; [exact Hdk'|].
           split; [rewrite U1; exact Hu|]. split; [exact Hr|]. eapply Z.lt_le_trans; [exact Hl | exact U3].
        -- unfold x_rel, net_sock. rewrite net_get_set_same. split; [exact U2 | exact U4].
    + (* an event of the receiver *)
      change (side_other x) with y in He, Hse, HR', HN', Ho', Hsy', Hdk' |- *.
      pose proof (y_event_mono _ _ _ _ HN HR Hse He) as Hm.
      assert (Ex : net_get (net_set st y e') x = net_get st x).
      { pose proof (net_get_set_other st y e') as X. rewrite y_is_other in X. exact X. }
      destruct (Z_lt_le_dec (rcv_off (net_get st y)) (rcv_off e')) as [Hgt | Hle].
      * left. left. rewrite net_get_set_same. rewrite <- Hr. exact Hgt.
      * right. split.
        -- unfold Jbase, txl, net_sock. rewrite Ex, net_get_set_same.
           split; [exact HN'|]. split; [exact Ho'|]. split; [exact Hsy'|]. split; [exact Hdk'|].
           split; [exact Hu|]. split; [|exact Hl]. apply Z.le_antisymm; [rewrite <- Hr; exact Hle | rewrite <- Hr; exact Hm].
        -- unfold x_rel, net_sock. rewrite Ex. split; [reflexivity | left; left; reflexivity].
  - subst st'. apply Hsame; repeat split.
  - subst st'. apply Hsame; apply tick_same.
  - subst st'. apply Hsame; apply rand_same.
  - exfalso. destruct Hd as [-> | ->]; exact Hfe.
Qed.

(* ---------------------------------------------------------------------------------------- *)
(* phase 1: the sender will (re)transmit from SND.UNA before its clock passes T1              *)
(* ---------------------------------------------------------------------------------------- *)
Definition J1 (u0 dk T1 : Z) (fa : fair_aux) (st : net) : Prop :=
  Jbase u0 dk fa st /\ net_now st x <= T1 /\
  (forall e, s_timer (net_sock st x) = TRetransmit e -> e <= T1).

(* phase 2: the segment that starts at SND.UNA is in flight and due at y before y's clock passes T2 *)
Definition J2 (u0 dk T2 : Z) (fa : fair_aux) (st : net) : Prop :=
  Jbase u0 dk fa st /\
  exists i p t, nth_error (chan_to st y) i = Some p /\ nth_error (fa_dl fa y) i = Some (Some t) /\
                net_now st y <= t /\ t <= T2 /\
                r_seq_number (snd p) = s_local_seq_no (net_sock st x) /\
                0 < l_len (r_payload (snd p)) /\ r_ack_number (snd p) <> None.

Lemma chan_y_is_out st : chan_to st y = ep_out (net_get st x).
Proof. unfold chan_to. rewrite y_is_other. reflexivity. Qed.

Lemma seglen_data r : (r_control r = CNone \/ r_control r = CPsh) -> repr_segment_len r = l_len (r_payload r).
Proof. intros [E | E]; unfold repr_segment_len; rewrite E; cbn [control_len]; lia. Qed.

Lemma J1_step u0 dk T1 fa st ev st' :
  0 <= Dt ->
  oneway_safe st -> oneway_safe st' -> J1 u0 dk T1 fa st -> fair_ev fa st ev -> net_step st ev = Ok st' ->
  (Qf u0 st' \/ J2 u0 dk (T1 + dk + Dt) (fa_after Dt Da fa ev st') st') \/
  J1 u0 dk T1 (fa_after Dt Da fa ev st') st'.
Proof.
  intros HDt HR HR' (HB & Hclk & Htm) Hfe H.
  pose proof HB as (HN & Ho & Hsy & Hdk & Hu & Hr & Hl).
  destruct (base_step _ _ _ _ _ _ HR HR' HB Hfe H) as [HQ | (HB' & Hseq & Hx)]; [left; left; exact HQ|].
  pose proof HB' as (HN' & Ho' & Hsy' & Hdk' & Hu' & Hr' & Hl').
  (* the clock of x *)
  assert (Hclk' : net_now st' x <= T1).
  { rewrite (net_step_now _ _ _ x H). destruct ev; try lia.
    destruct Hfe as (Hd0 & Hperm). destruct (Z.eq_dec d 0) as [-> | Hnz]; [lia|].
    destruct (Hperm ltac:(lia) x) as (Hpp & _). unfold poll_permits, net_poll_at in Hpp.
    pose proof (NI_live st x HN) as Ix.
    pose proof (poll_at_ready (ep_cx (net_get st x)) (net_sock st x) Ix
                  (need_established _ (ow_est st HR x) Hl) (ow_nozwp st HR)
                  ltac:(intros _; pose proof (ow_win st HR); lia)) as Hpa.
    unfold net_sock in Hpa.
    destruct (tcp_poll_at (ep_cx (net_get st x)) (ep_sock (net_get st x))) as [[|t|]|err|]; try contradiction.
    destruct Hpa as (e & He & Hte). specialize (Htm e He). unfold net_now in *. lia. }
  destruct Hx as [Htc | (p & e1 & Hout & Hsq & Hsl & Hak & Ht1 & He1)].
  - (* no emission at SND.UNA: the deadline is where it was, or immediate *)
    right. split; [exact HB'|]. split; [exact Hclk'|].
    intros e He. destruct Htc as [Htc | [Htc | Htc]].
    + apply Htm. rewrite <- Htc. exact He.
    + rewrite Htc in He. discriminate.
    + rewrite He in Htc. discriminate.
  - (* the oldest unacknowledged octets are in flight towards y *)
    left. right. split; [exact HB'|].
    set (i := length (chan_to st y)).
    assert (Hlen' : chan_to st' y = chan_to st y ++ [p]) by (rewrite !chan_y_is_out; exact Hout).
    exists i, p, (net_now st' y + Dt).
    split; [rewrite Hlen'; unfold i; rewrite nth_error_app2 by lia; rewrite Nat.sub_diag; reflexivity|].
    split; [apply (fa_after_dl_new Dt Da fa st ev st' y i Hsy); rewrite Hlen', app_length; cbn [length]; unfold i; lia|].
    split; [lia|].
    split.
    { rewrite (net_step_now _ _ _ y H).
      assert (Hz : match ev with NTick d => Z.max 0 d | _ => 0 end = 0).
      { destruct ev; try reflexivity. exfalso.
        (* a tick emits nothing *)
        pose proof (net_step_tick _ _ _ H) as Est. subst st'.
        assert (E : ep_out (net_get (tick_net st d) x) = ep_out (net_get st x)) by apply tick_same.
        rewrite E in Hout.
        apply (f_equal (@length packet)) in Hout. rewrite app_length in Hout. cbn [length] in Hout. lia. }
      rewrite Hz. lia. }
    (* the segment: a data segment of an ESTABLISHED socket *)
    assert (Hin : In p (chan_to st' y)) by (rewrite Hlen'; apply in_or_app; right; left; reflexivity).
    destruct (wire_parse_same (snd p)) as (Wc & Wp & _).
    destruct (ow_chan st' HR' p Hin) as [(_ & Ha) | (Hc & _ & _)].
    + exfalso. unfold wire_parse in Ha. cbn [r_ack_number] in Ha. destruct (r_ack_number (snd p)); [discriminate | congruence].
    + rewrite Wc in Hc. split; [rewrite Hseq; exact Hsq|].
      split; [rewrite <- (seglen_data _ Hc); exact Hsl | exact Hak].
Qed.

(* ---------------------------------------------------------------------------------------- *)
(* phase 2: the delivery of the segment that starts at SND.UNA = RCV.NXT                      *)
(* ---------------------------------------------------------------------------------------- *)
Lemma tracked_delivery u0 st i p st' :
  NI st -> oneway_safe st ->
  una_off (net_get st x) = u0 -> rcv_off (net_get st y) = u0 ->
  nth_error (chan_to st y) i = Some p ->
  r_seq_number (snd p) = s_local_seq_no (net_sock st x) ->
  0 < l_len (r_payload (snd p)) -> r_ack_number (snd p) <> None ->
  net_step st (NDeliver y i) = Ok st' ->
  u0 < rcv_off (net_get st' y).
Proof.
  intros HN HR Hu Hr Hn Hsq Hpl Hak H.
  unfold net_step in H. fold (chan_to st y) in H. rewrite Hn in H.
  apply obind_ok in H. destruct H as (e' & He & H). inversion H; subst st'; clear H.
  rewrite net_get_set_same.
  destruct (ep_step_spec _ _ _ He) as (s' & out & tags & Hs & Hk & _).
  rewrite (ep_step_rcv_off _ _ _ _ _ _ He Hs) by discriminate.
  cbn [tcp_step] in Hs. apply obind_ok in Hs. destruct Hs as (((s1 & rp) & tg) & Hi & Hs).
  assert (E : s1 = s') by (inversion Hs; reflexivity). subst s1.
  pose proof (nth_error_In _ _ Hn) as Hin.
  rewrite (ingress_is_process _ _ _ (ow_acc st HR y p Hin)) in Hi. unfold net_sock in Hi.
  pose proof (NI_live st y HN) as Iy. pose proof (NI_live st x HN) as Ix. unfold net_sock in Iy, Ix.
  destruct (ow_rcv st HR) as (Hrw & (W & HW & Hwe) & _ & _). fold y in Hrw, Hwe. unfold net_sock in Hrw, Hwe.
  destruct (wire_parse_same (snd p)) as (Wc & Wp & Wsq).
  destruct (ow_chan st HR p Hin) as [(_ & Ha) | (Hc & Ha & Hl)]; unfold net_sock in *.
  { exfalso. unfold wire_parse in Ha. cbn [r_ack_number] in Ha. destruct (r_ack_number (snd p)); [discriminate | congruence]. }
  destruct (ow_cross st HR) as (Hcr & _). fold y in Hcr. unfold net_sock in Hcr.
  rewrite Hu, Hr, Z.sub_diag in Hcr.
  assert (Hux : u32 (s_local_seq_no (ep_sock (net_get st x)))) by apply (li_una _ Ix).
  assert (Ews : tcp_window_start (ep_sock (net_get st y)) = s_local_seq_no (ep_sock (net_get st x)))
    by (rewrite Hcr; symmetry; apply u32_sq_self; exact Hux).
  assert (Hseq : r_seq_number (wire_parse (snd p)) = tcp_window_start (ep_sock (net_get st y))).
  { rewrite Wsq, Hsq, Ews. apply TcpRecvBase.seq_norm_small. unfold u32 in Hux. change (2 ^ 32) with 4294967296 in Hux. exact Hux. }
  assert (Hpl' : 0 < l_len (r_payload (wire_parse (snd p))) <= p30) by (rewrite Wp in *; unfold TcpRecvWindow.p30; lia).
  assert (Huy : 0 <= s_local_seq_no (ep_sock (net_get st y)) < 4294967296) by apply (li_una _ Iy).
  pose proof (ow_ytx st HR) as Hytx. fold y in Hytx. unfold net_sock in Hytx.
  assert (Htx31 : 0 <= rb_len (s_tx_buffer (ep_sock (net_get st y))) < 2147483648) by lia.
  pose proof (ow_est st HR y) as Hst. unfold net_sock in Hst.
  destruct (process_in_order _ _ _ _ _ _ _ W Hst Hrw Hwe HW Hseq Hpl' Hc Ha Huy Htx31 Hi)
    as (m & Hm & L & _).
  rewrite L. unfold TcpRecvWindow.p30 in *. lia.
Qed.

Lemma J2_step u0 dk T2 fa st ev st' :
  oneway_safe st -> oneway_safe st' -> J2 u0 dk T2 fa st -> fair_ev fa st ev -> net_step st ev = Ok st' ->
  Qf u0 st' \/ J2 u0 dk T2 (fa_after Dt Da fa ev st') st'.
Proof.
  intros HR HR' (HB & i & p & t & Hn & Hdl & Hnow & HtT & Hsq & Hpl & Hak) Hfe H.
  pose proof HB as (HN & Ho & Hsy & Hdk & Hu & Hr & Hl).
  (* the tracked delivery itself *)
  destruct (match ev with NDeliver to j => if side_eqb to y then Nat.eqb j i else false | _ => false end) eqn:Htr.
  { destruct ev; try discriminate. destruct (side_eqb to y) eqn:Es; [|discriminate].
    apply side_eqb_true in Es. apply Nat.eqb_eq in Htr. subst to i0.
    left. left. apply (tracked_delivery u0 st i p st' HN HR Hu Hr Hn Hsq Hpl Hak H). }
  destruct (base_step _ _ _ _ _ _ HR HR' HB Hfe H) as [HQ | (HB' & Hseq & _)]; [left; exact HQ|].
  right. split; [exact HB'|].
  exists i, p, t.
  split; [apply (fair_step_nth fa st ev st' y i p Hfe H Hn)|].
  split.
  { apply fa_after_dl_keep; [exact Hdl|]. intros to E Eto. subst ev to.
    rewrite side_eqb_refl, Nat.eqb_refl in Htr. discriminate. }
  split.
  { rewrite (net_step_now _ _ _ y H). destruct ev; try lia.
    apply (tick_respects_dl fa st d y i t Hfe Hdl Hnow). }
  split; [exact HtT|]. split; [rewrite Hseq; exact Hsq|]. split; assumption.
Qed.

(* ---------------------------------------------------------------------------------------- *)
(* STEP 2                                                                                    *)
(* ---------------------------------------------------------------------------------------- *)
(* Both sockets ESTABLISHED, x has unacknowledged octets and y's RCV.NXT stands exactly at x's
   SND.UNA (the oldest unacknowledged octet has not reached y, or was lost).  On every fair run on
   which the safety facts [oneway_safe] hold, before x's clock has advanced by more than
   RTTE_MAX_RTO + Dt the run passes through a state in which y has accepted that octet
   (rcv_off y > u0) - via the retransmission timer (bounded by RTTE_MAX_RTO: tcp-c02), the
   retransmission from SND.UNA, its delivery within Dt, and the acceptance of an in-window,
   in-sequence segment. *)
Theorem retransmission_eventually_delivered : forall evs fa st st' u0,
  0 <= Dt ->
  NI st -> opts_ok st -> dl_sync Da fa st ->
  run_all oneway_safe st evs -> fair_run Dt Da fa st evs -> net_run st evs = Ok st' ->
  0 < txl st -> una_off (net_get st x) = u0 -> rcv_off (net_get st y) = u0 ->
  net_now st x + max_rto_us + Dt < net_now st' x ->
  exists pre post st1, evs = pre ++ post /\ net_run st pre = Ok st1 /\ net_run st1 post = Ok st' /\
                       Qf u0 st1.
Proof.
  intros evs fa st st' u0 HDt HN Ho Hsy HRun Hfair Hrun Hl Hu Hr Hlate.
  set (dk := net_now st y - net_now st x).
  set (T1 := net_now st x + max_rto_us).
  assert (HJ1 : J1 u0 dk T1 fa st).
  { unfold J1, Jbase. split; [split; [exact HN|]; split; [exact Ho|]; split; [exact Hsy|]; split; [reflexivity|];
                                 split; [exact Hu|]; split; [exact Hr | exact Hl]|].
    split; [unfold T1; pose proof max_rto_us_pos; lia|].
    intros e He. destruct (HN x) as (_ & _ & (_ & Hb) & _). unfold net_sock in He. rewrite He in Hb. exact Hb. }
  destruct (fair_leads_under Dt Da oneway_safe (J1 u0 dk T1)
              (fun fa st => Qf u0 st \/ J2 u0 dk (T1 + dk + Dt) fa st) x T1
              ltac:(intros fa0 st0 (_ & H0 & _); exact H0)
              ltac:(intros fa0 st0 ev0 st0' R0 R0' J0 F0 S0; exact (J1_step _ _ _ _ _ _ _ HDt R0 R0' J0 F0 S0))
              evs fa st st' HJ1 HRun Hfair Hrun ltac:(unfold T1; lia))
    as (pre & post & fa1 & st1 & -> & Hp1 & Hp2 & HR1 & Hf1 & [HQ | HJ2]).
  { exists pre, post, st1. auto. }
  assert (Hdk' : net_now st' y - net_now st' x = dk).
  { unfold dk. apply (net_run_skew2 _ _ _ y x Hrun). }
  destruct (fair_leads_under Dt Da oneway_safe (J2 u0 dk (T1 + dk + Dt)) (fun _ st => Qf u0 st) y (T1 + dk + Dt)
              ltac:(intros fa0 st0 (_ & i0 & p0 & t0 & _ & _ & A & B & _); lia)
              ltac:(intros fa0 st0 ev0 st0' R0 R0' J0 F0 S0; exact (J2_step _ _ _ _ _ _ _ R0 R0' J0 F0 S0))
              post fa1 st1 st' HJ2 HR1 Hf1 Hp2 ltac:(unfold T1 in *; lia))
    as (pre2 & post2 & fa2 & st2 & -> & Hq1 & Hq2 & _ & _ & HQ).
  exists (pre ++ pre2), post2, st2. split; [rewrite app_assoc; reflexivity|].
  split; [eapply net_run_app; eassumption|]. split; assumption.
Qed.

End OneWay.
