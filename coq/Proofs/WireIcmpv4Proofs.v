(* Lemmas about Model/WireIcmpv4.v (properties C06, C07). *)
From SV Require Import Lib.Base Gen.WireFields Model.WireBase Model.WireIpv4 Model.WireIcmpv4.
From SV Require Import Proofs.WireBaseProofs Proofs.WireIpv4Proofs.

Section Checksum.
Variable sum_ok : list Z -> bool.
Variable sum_fill : list Z -> Z.

Definition icmpv4_type_code (r : icmpv4_repr) : Z * Z :=
  match r with
  | Icmp4EchoRequest _ _ _ => (icmpv4_ECHO_REQUEST, 0)
  | Icmp4EchoReply _ _ _ => (icmpv4_ECHO_REPLY, 0)
  | Icmp4DstUnreachable reason _ _ => (icmpv4_DST_UNREACHABLE, reason)
  | Icmp4TimeExceeded reason _ _ => (icmpv4_TIME_EXCEEDED, reason)
  end.

(* octets 4.. of the message *)
Definition icmpv4_body (tx4 : bool) (r : icmpv4_repr) : list Z :=
  match r with
  | Icmp4EchoRequest i s d | Icmp4EchoReply i s d => be_enc2 i ++ be_enc2 s ++ d
  | Icmp4DstUnreachable _ h d | Icmp4TimeExceeded _ h d => [0; 0; 0; 0] ++ ipv4_bytes sum_fill tx4 h ++ d
  end.

Definition icmpv4_with_ck (tx4 : bool) (r : icmpv4_repr) (ck : Z) : list Z :=
  [fst (icmpv4_type_code r); snd (icmpv4_type_code r)] ++ be_enc2 ck ++ icmpv4_body tx4 r.

Definition icmpv4_ck (tx tx4 : bool) (r : icmpv4_repr) : Z :=
  if tx then sum_fill (icmpv4_with_ck tx4 r 0) else 0.

Definition icmpv4_bytes (tx tx4 : bool) (r : icmpv4_repr) : list Z :=
  icmpv4_with_ck tx4 r (icmpv4_ck tx tx4 r).

(* link to C08: a filled-in checksum verifies, and is a u16 *)
Definition icmpv4_cksum_link : Prop :=
  (forall d, 0 <= sum_fill d < 65536) /\
  (forall tx4 r, icmpv4_wf r = true -> sum_ok (icmpv4_bytes true tx4 r) = true).

Lemma icmpv4_body_len tx4 r : icmpv4_wf r = true -> 4 + blen (icmpv4_body tx4 r) = icmpv4_buffer_len r.
Proof.
  intros Hwf. destruct r as [i s d|i s d|reason h d|reason h d]; cbn [icmpv4_wf icmpv4_body icmpv4_buffer_len] in *.
  1,2: autorewrite with blen; unfold be_enc2; autorewrite with blen; zfold; lia.
  all: bsplit; rewrite !blen_app, ipv4_bytes_len by assumption; autorewrite with blen;
    unfold ipv4_buffer_len; zfold; lia.
Qed.

Lemma icmpv4_bytes_len tx tx4 r : icmpv4_wf r = true ->
  blen (icmpv4_bytes tx tx4 r) = icmpv4_buffer_len r.
Proof.
  intros Hwf. unfold icmpv4_bytes, icmpv4_with_ck. rewrite <- (icmpv4_body_len tx4 r Hwf).
  rewrite !blen_app. unfold be_enc2. autorewrite with blen. lia.
Qed.

(* checksum tail shared by all variants: the message with a stale checksum field is in place *)
Lemma icmpv4_finish (tx : bool) (a b c0 c1 e0 e1 e2 e3 : Z) (rest : list Z) :
  (if tx then icmpv4_fill_checksum sum_fill ([a; b; c0; c1; e0; e1; e2; e3] ++ rest)
   else icmpv4_set_checksum ([a; b; c0; c1; e0; e1; e2; e3] ++ rest) 0) =
  Ok ([a; b] ++ be_enc2 (if tx then sum_fill ([a; b] ++ be_enc2 0 ++ [e0; e1; e2; e3] ++ rest) else 0) ++
      [e0; e1; e2; e3] ++ rest).
Proof.
  destruct tx.
  - unfold icmpv4_fill_checksum, icmpv4_set_checksum, wb_put_u16. zfold.
    hstep. zfold. hstep. reflexivity.
  - unfold icmpv4_set_checksum, wb_put_u16. zfold. hstep. reflexivity.
Qed.

Lemma icmpv4_emit_spec tx tx4 r b : icmpv4_wf r = true -> blen b = icmpv4_buffer_len r ->
  icmpv4_emit sum_fill tx tx4 r b = Ok (icmpv4_bytes tx tx4 r).
Proof.
  intros Hwf Hb. pose proof (icmpv4_body_len tx4 r Hwf) as Hbody. rewrite <- Hb in Hbody.
  pose proof (blen_nonneg (icmpv4_body tx4 r)).
  destruct (split_hdr b 8) as (h & tl & -> & Hh & Htl).
  { destruct r; cbn [icmpv4_body] in *; revert Hbody; unfold be_enc2; autorewrite with blen;
      pose proof (blen_nonneg data); try pose proof (blen_nonneg (ipv4_bytes sum_fill tx4 header)); lia. }
  zfold_in Hh. cells Hh.
  unfold icmpv4_bytes, icmpv4_ck, icmpv4_with_ck.
  destruct r as [i s d|i s d|reason hd d|reason hd d];
    cbn [icmpv4_wf icmpv4_body icmpv4_buffer_len icmpv4_type_code fst snd] in *;
    unfold icmpv4_emit, icmpv4_emit_echo, icmpv4_emit_error, icmpv4_set_msg_code, icmpv4_set_msg_type,
      icmpv4_set_echo_ident, icmpv4_set_echo_seq_no, icmpv4_clear_unused, wb_fill, icmpv4_header_len,
      icmpv4_msg_type, wb_put_u16, icmpv4_ECHO_REQUEST, icmpv4_ECHO_REPLY, icmpv4_DST_UNREACHABLE,
      icmpv4_TIME_EXCEEDED; zfold.
  1,2: (hstep; hstep; hstep; hstep; hstep; hstep; zfold; cbn [orb];
        revert Hbody; unfold be_enc2; autorewrite with blen; zfold; intros Hbody;
        rewrite wb_from_tail by (autorewrite with blen; zfold; lia); cbn [obind];
        assert (Hlen : blen tl = blen d) by lia; rewrite Hlen, Z.min_id;
        rewrite wb_upto_all; cbn [obind];
        rewrite wb_set_slice_tail by (autorewrite with blen; zfold; lia); cbn [obind];
        rewrite icmpv4_finish; reflexivity).
  all: bsplit;
    (hstep; hstep; hstep; hstep; hstep; zfold; cbn [orb];
     rewrite wb_on_from_tail by (autorewrite with blen; zfold; lia));
    revert Hbody; rewrite !blen_app, ipv4_bytes_len by assumption; unfold ipv4_buffer_len; autorewrite with blen; zfold;
    intros Hbody; pose proof (blen_nonneg d);
    (destruct (split_hdr tl 20) as (h20 & t2 & -> & Hh20 & Ht2); [lia|]);
    rewrite (ipv4_emit_tail sum_ok sum_fill tx4 hd h20 t2) by (try assumption; unfold ipv4_buffer_len; zfold; unfold blen; lia);
    cbn [obind];
    assert (Hd : blen d = blen t2) by lia;
    (rewrite wb_set_slice_tail;
       [ | symmetry; apply ipv4_bytes_len; assumption | apply blen_app | exact Hd ]);
    cbn [obind]; rewrite icmpv4_finish; reflexivity.
Qed.

Lemma icmpv4_emit_no_panic tx tx4 r b : icmpv4_wf r = true -> blen b = icmpv4_buffer_len r ->
  icmpv4_emit sum_fill tx tx4 r b <> Panic.
Proof. intros; rewrite icmpv4_emit_spec by assumption; discriminate. Qed.

Lemma icmpv4_emit_ignores_old_bytes tx tx4 r b1 b2 : icmpv4_wf r = true ->
  blen b1 = icmpv4_buffer_len r -> blen b2 = icmpv4_buffer_len r ->
  icmpv4_emit sum_fill tx tx4 r b1 = icmpv4_emit sum_fill tx tx4 r b2.
Proof. intros; rewrite !icmpv4_emit_spec by assumption; reflexivity. Qed.


Lemma icmpv4_ck_range tx tx4 r : (forall d, 0 <= sum_fill d < 65536) -> 0 <= icmpv4_ck tx tx4 r < 65536.
Proof. intros Hr. unfold icmpv4_ck. destruct tx; [apply Hr | lia]. Qed.

Lemma icmpv4_parse_bytes tx tx4 rx r : icmpv4_cksum_link -> icmpv4_wf r = true ->
  (rx = true -> tx = true) ->
  icmpv4_parse sum_ok rx (icmpv4_bytes tx tx4 r) = Ok r.
Proof.
  intros (Hrange & Hlink) Hwf Hmode.
  assert (Hok : rx = true -> sum_ok (icmpv4_bytes tx tx4 r) = true).
  { intros Hrx. rewrite (Hmode Hrx). apply Hlink; assumption. }
  pose proof (icmpv4_ck_range tx tx4 r Hrange) as Hck.
  pose proof (icmpv4_bytes_len tx tx4 r Hwf) as Hlen.
  unfold icmpv4_parse, icmpv4_check_len, icmpv4_verify_checksum. zfold.
  assert (Hge : 8 <= blen (icmpv4_bytes tx tx4 r)).
  { rewrite Hlen. destruct r; cbn [icmpv4_buffer_len]; unfold ipv4_buffer_len; zfold;
      pose proof (blen_nonneg data); lia. }
  zbool.
  assert (Hg : wb_guard (negb (rx && negb (sum_ok (icmpv4_bytes tx tx4 r)))) = Ok tt).
  { destruct rx; [rewrite (Hok eq_refl)|]; reflexivity. }
  rewrite Hg. cbn [obind]. clear Hg Hok Hge Hlen Hlink Hmode.
  revert Hck. unfold icmpv4_bytes, icmpv4_with_ck. generalize (icmpv4_ck tx tx4 r). intros ck Hck.
  destruct r as [i s d|i s d|reason hd d|reason hd d];
    cbn [icmpv4_wf icmpv4_body icmpv4_type_code fst snd] in *; bsplit;
    unfold icmpv4_parse_error_payload, icmpv4_data, icmpv4_header_len, icmpv4_msg_type, icmpv4_msg_code,
      icmpv4_echo_ident, icmpv4_echo_seq_no, wb_get_u16,
      icmpv4_ECHO_REQUEST, icmpv4_ECHO_REPLY, icmpv4_DST_UNREACHABLE, icmpv4_TIME_EXCEEDED;
    unfold be_enc2; cbn [app]; zfold.
  1,2: (refold_tail d; hstep; hstep; hstep; hstep; zfold; cbn [andb orb];
        rewrite (be_dec_cells2 i), (be_dec_cells2 s) by lia;
        rewrite wb_from_tail by (autorewrite with blen; zfold; lia); reflexivity).
  all: match goal with |- context [ipv4_bytes _ ?t4 ?hd ++ ?d] =>
    set (inner := ipv4_bytes sum_fill t4 hd ++ d);
    refold_tail inner; repeat hstep; zfold; cbn [andb orb];
    rewrite wb_from_tail by (autorewrite with blen; zfold; lia); cbn [obind];
    match goal with Hr : forall d0 : list Z, 0 <= sum_fill d0 < 65536 |- _ =>
      destruct (ipv4_bytes_accessors sum_ok sum_fill t4 hd d Hr) as (A1 & A2 & A3 & A4 & A5 & A6);
        [assumption | lia |] end;
    fold inner in A1, A2, A3, A4, A5, A6; rewrite A1, A2, A3, A4, A5, A6; cbn [obind];
    unfold inner; rewrite wb_from_tail by (rewrite ipv4_bytes_len by assumption; reflexivity);
    cbn [obind]; zbool; cbn [wb_guard obind fst snd];
    destruct hd as [hs hdst hp hpl hh]; cbn [ipv4_src ipv4_dst ipv4_proto ipv4_payload_len ipv4_hop_limit] in *; subst;
    reflexivity end.
Qed.

Lemma icmpv4_roundtrip tx tx4 rx r b : icmpv4_cksum_link -> icmpv4_wf r = true ->
  (rx = true -> tx = true) -> blen b = icmpv4_buffer_len r ->
  exists bs, icmpv4_emit sum_fill tx tx4 r b = Ok bs /\ blen bs = icmpv4_buffer_len r /\
             icmpv4_parse sum_ok rx bs = Ok r.
Proof.
  intros Hl Hwf Hmode Hb. exists (icmpv4_bytes tx tx4 r).
  split; [apply icmpv4_emit_spec; assumption|]. split; [apply icmpv4_bytes_len; assumption|].
  apply icmpv4_parse_bytes; assumption.
Qed.

(* ---------- C07 ---------- *)

Lemma icmpv4_check_len_inv bs : icmpv4_check_len bs = Ok tt -> 8 <= blen bs.
Proof.
  unfold icmpv4_check_len. zfold. destruct (blen bs <? 8) eqn:E; [discriminate|]. bsplit. lia.
Qed.

Lemma icmpv4_header_len_8 bs : 1 <= blen bs -> icmpv4_header_len bs = Ok 8.
Proof.
  intros H. unfold icmpv4_header_len, icmpv4_msg_type. zfold. rewrite wb_get_u8_ok by lia. cbn [obind].
  case_if; reflexivity.
Qed.

Lemma icmpv4_accessors_safe bs : icmpv4_check_len bs = Ok tt ->
  icmpv4_msg_type bs <> Panic /\ icmpv4_msg_code bs <> Panic /\ icmpv4_checksum bs <> Panic /\
  icmpv4_echo_ident bs <> Panic /\ icmpv4_echo_seq_no bs <> Panic /\ icmpv4_header_len bs <> Panic /\
  icmpv4_data bs <> Panic.
Proof.
  intros H. apply icmpv4_check_len_inv in H.
  unfold icmpv4_data. rewrite icmpv4_header_len_8 by lia. cbn [obind].
  unfold icmpv4_msg_type, icmpv4_msg_code, icmpv4_checksum, icmpv4_echo_ident, icmpv4_echo_seq_no, wb_get_u16.
  repeat split; try discriminate;
    first [ apply wb_get_u8_nopanic; zfold; lia | apply wb_get_be_nopanic; zfold; lia
          | apply wb_from_nopanic; lia ].
Qed.

Lemma icmpv4_error_payload_total bs : bytes_ok bs = true -> 8 <= blen bs ->
  icmpv4_parse_error_payload bs <> Panic.
Proof.
  intros Hb H. unfold icmpv4_parse_error_payload, icmpv4_data. rewrite icmpv4_header_len_8 by lia.
  cbn [obind]. rewrite wb_from_ok by lia. cbn [obind].
  set (d := skipn (Z.to_nat 8) bs).
  assert (Hd : bytes_ok d = true) by (apply bytes_ok_skipn, Hb).
  destruct (ipv4_check_len d) as [[]| |] eqn:E; cbn [obind]; try discriminate.
  - destruct (ipv4_accessors_safe sum_ok sum_fill d Hd E) as (_ & A2 & _ & _ & _ & _ & _ & _ & _ & A10 & A11 & _ & A13 & A14 & _).
    destruct (ipv4_check_len_inv sum_ok sum_fill d Hd E) as (hl & tl & Hhl & _ & R1 & R2 & R3 & _).
    rewrite Hhl. cbn [obind]. rewrite wb_from_ok by lia. cbn [obind]. nopanic.
  - exfalso. revert E. unfold ipv4_check_len, ipv4_MINIMUM_IHL_BYTES. zfold.
    destruct (blen d <? 20) eqn:L; [discriminate|]. bsplit.
    destruct (wb_get_u8_byte d wipv4_f_VER_IHL) as (x & Hx & _); try (zfold; lia); try assumption.
    destruct (wb_get_u16_word d wipv4_f_LENGTH) as (tl & Htl & _); try (zfold; lia); try assumption.
    unfold ipv4_header_len, ipv4_total_len. rewrite Hx, Htl. cbn [obind].
    repeat (case_if; [discriminate|]). discriminate.
Qed.

Lemma icmpv4_parse_total rx bs : bytes_ok bs = true -> icmpv4_parse sum_ok rx bs <> Panic.
Proof.
  intros Hb. unfold icmpv4_parse.
  destruct (icmpv4_check_len bs) as [[]| |] eqn:E; cbn [obind]; try discriminate.
  - destruct (icmpv4_accessors_safe bs E) as (A1 & A2 & A3 & A4 & A5 & A6 & A7).
    pose proof (icmpv4_error_payload_total bs Hb (icmpv4_check_len_inv bs E)). nopanic.
  - unfold icmpv4_check_len in E. destruct (blen bs <? wicmpv4_f_HEADER_END); discriminate.
Qed.

Lemma icmpv4_error_payload_wf bs h p : bytes_ok bs = true -> blen bs <= 65535 ->
  icmpv4_parse_error_payload bs = Ok (h, p) ->
  ipv4_wf h = true /\ bytes_ok p = true /\ ipv4_payload_len h = blen p /\ 8 <= blen p.
Proof.
  intros Hb Hlen H. unfold icmpv4_parse_error_payload in H. obind_inv H. injection H as <- <-.
  match goal with X : icmpv4_data bs = Ok ?d |- _ => rename d into dd; rename X into Ed end.
  unfold icmpv4_data in Ed. obind_inv Ed.
  assert (Hdd : bytes_ok dd = true) by (eapply wb_from_bytes; eassumption).
  apply wb_from_inv in Ed. destruct Ed as (Ed1 & _ & Ed3).
  match goal with X : wb_from dd _ = Ok ?q |- _ =>
    pose proof (wb_from_bytes _ _ _ Hdd X) as Hq; apply wb_from_inv in X; destruct X as (X1 & _ & X3) end.
  match goal with X : wb_guard _ = Ok _ |- _ => unfold wb_guard in X; case_if_in X; [|discriminate] end.
  bsplit.
  assert (HA : forall f s, (do x <- wb_field dd f; wb_arr 4 x) = Ok s -> is_arr 4 s = true).
  { intros f s X. obind_inv X. unfold wb_arr in X.
    match type of X with (if blen ?x =? 4 then _ else _) = _ => destruct (blen x =? 4) eqn:L4; [|discriminate] end.
    injection X as <-. unfold is_arr. rewrite L4. cbn [andb]. unfold wb_field in *.
    eapply wb_sub_bytes; [exact Hdd | eassumption]. }
  unfold ipv4_src_addr, ipv4_dst_addr, ipv4_next_header, ipv4_hop_limit_ in *.
  match goal with X : ipv4_check_len dd = Ok _ |- _ =>
    destruct (ipv4_check_len_inv sum_ok sum_fill dd Hdd) as (hl & tl & Hhl & _ & R1 & R2 & R3 & R4 & R5);
      [destruct v0; exact X|] end.
  destruct (wb_get_u8_byte dd wipv4_f_PROTOCOL) as (pp & Hp & Rp); try (zfold; lia); try assumption.
  destruct (wb_get_u8_byte dd wipv4_f_TTL) as (hh & Hh & Rh); try (zfold; lia); try assumption.
  repeat match goal with
  | X : wb_get_u8 dd wipv4_f_PROTOCOL = Ok _ |- _ => rewrite Hp in X; injection X as <-
  | X : wb_get_u8 dd wipv4_f_TTL = Ok _ |- _ => rewrite Hh in X; injection X as <-
  end.
  unfold ipv4_wf, ipv4_HEADER_LEN; cbn [ipv4_src ipv4_dst ipv4_proto ipv4_payload_len ipv4_hop_limit]. zfold.
  repeat match goal with
  | X : (do s <- wb_field dd _; wb_arr 4 s) = Ok _ |- _ => apply HA in X; rewrite X
  end.
  assert (Hv8 : v = 8).
  { unfold icmpv4_header_len in E. obind_inv E. revert E. zfold. case_if; intros X; injection X as <-; reflexivity. }
  assert (Hv1 : v1 = hl) by congruence.
  pose proof (blen_nonneg v2). unfold is_u8.
  split; [zbool; reflexivity|]. repeat split; try assumption; lia.
Qed.

Lemma icmpv4_parse_wf rx bs r : bytes_ok bs = true -> blen bs <= 65535 ->
  icmpv4_parse sum_ok rx bs = Ok r -> icmpv4_wf r = true.
Proof.
  intros Hb Hlen H. unfold icmpv4_parse in H.
  destruct (icmpv4_check_len bs) as [[]| |] eqn:E; cbn [obind] in H; try discriminate.
  pose proof (icmpv4_check_len_inv bs E) as H8.
  obind_inv H.
  assert (G16 : forall f w, 0 <= fst f -> fst f + 2 <= snd f -> snd f <= 8 -> wb_get_u16 bs f = Ok w -> is_u16 w = true).
  { intros f w ? ? ? X. destruct (wb_get_u16_word bs f) as (v' & Hv & Rv); try lia; try assumption.
    rewrite Hv in X. injection X as <-. unfold is_u16. zbool. reflexivity. }
  assert (GD : forall d, icmpv4_data bs = Ok d -> bytes_ok d = true).
  { intros d X. unfold icmpv4_data in X. obind_inv X. eapply wb_from_bytes; eassumption. }
  repeat case_if_in H.
  - obind_inv H. injection H as <-. cbn [icmpv4_wf].
    unfold icmpv4_echo_ident, icmpv4_echo_seq_no in *.
    repeat match goal with
    | X : wb_get_u16 bs _ = Ok _ |- _ => apply G16 in X; [rewrite X | zfold; lia ..]
    | X : icmpv4_data bs = Ok _ |- _ => apply GD in X; rewrite X
    end. reflexivity.
  - obind_inv H. injection H as <-. cbn [icmpv4_wf].
    unfold icmpv4_echo_ident, icmpv4_echo_seq_no in *.
    repeat match goal with
    | X : wb_get_u16 bs _ = Ok _ |- _ => apply G16 in X; [rewrite X | zfold; lia ..]
    | X : icmpv4_data bs = Ok _ |- _ => apply GD in X; rewrite X
    end. reflexivity.
  - obind_inv H. injection H as <-. cbn [icmpv4_wf].
    match goal with X : icmpv4_parse_error_payload bs = Ok ?hp |- _ => destruct hp as [h p];
      destruct (icmpv4_error_payload_wf bs h p Hb Hlen X) as (W1 & W2 & W3 & W4) end.
    cbn [fst snd]. rewrite W1, W2, W3.
    match goal with X : icmpv4_msg_code bs = Ok ?c |- _ =>
      unfold icmpv4_msg_code in X; destruct (wb_get_u8_byte bs wicmpv4_f_CODE) as (c' & Hc & Rc);
        [zfold; lia | assumption |]; rewrite Hc in X; injection X as <- end.
    unfold is_u8. zbool. reflexivity.
  - obind_inv H. injection H as <-. cbn [icmpv4_wf].
    match goal with X : icmpv4_parse_error_payload bs = Ok ?hp |- _ => destruct hp as [h p];
      destruct (icmpv4_error_payload_wf bs h p Hb Hlen X) as (W1 & W2 & W3 & W4) end.
    cbn [fst snd]. rewrite W1, W2, W3.
    match goal with X : icmpv4_msg_code bs = Ok ?c |- _ =>
      unfold icmpv4_msg_code in X; destruct (wb_get_u8_byte bs wicmpv4_f_CODE) as (c' & Hc & Rc);
        [zfold; lia | assumption |]; rewrite Hc in X; injection X as <- end.
    unfold is_u8. zbool. reflexivity.
  - discriminate.
Qed.

Lemma icmpv4_reparse tx tx4 rx bs r : icmpv4_cksum_link -> bytes_ok bs = true -> blen bs <= 65535 ->
  (rx = true -> tx = true) -> icmpv4_parse sum_ok rx bs = Ok r ->
  icmpv4_wf r = true /\
  forall b, blen b = icmpv4_buffer_len r ->
    exists bs', icmpv4_emit sum_fill tx tx4 r b = Ok bs' /\ icmpv4_parse sum_ok rx bs' = Ok r.
Proof.
  intros Hl Hb Hlen Hmode H. pose proof (icmpv4_parse_wf _ _ _ Hb Hlen H) as Hwf. split; [assumption|].
  intros b Hbl. destruct (icmpv4_roundtrip tx tx4 rx r b Hl Hwf Hmode Hbl) as (bs' & He & _ & Hp). eauto.
Qed.

End Checksum.
