(* Lemmas about the DNS resolver model (Model/Dns.v). *)
From SV Require Import Lib.Base Gen.Consts Gen.WireFields Model.WireDns Model.Dns Proofs.WireDnsProofs.

Local Ltac inv H := inversion H; subst; clear H.

(* ====================================================================================== *)
(* Part A: the socket invariant and totality of `process`                                 *)
(* ====================================================================================== *)

(* name: Vec<u8, DNS_MAX_NAME_SIZE> of bytes; delay within [RETRANSMIT_DELAY, MAX_RETRANSMIT_DELAY] *)
Definition pq_ok (cfg : dns_cfg) (pq : dns_pending) : Prop :=
  Forall wdns_is_byte (pq_name pq) /\ wdns_len (pq_name pq) <= c_max_name cfg /\
  dns_RETRANSMIT_DELAY <= pq_delay pq <= dns_MAX_RETRANSMIT_DELAY /\
  0 <= pq_server_idx pq.

Definition slot_ok (cfg : dns_cfg) (o : option dns_qstate) : Prop :=
  match o with
  | Some (QPending pq) => pq_ok cfg pq
  | _ => True
  end.

Definition sock_ok (cfg : dns_cfg) (s : dns_sock) : Prop := Forall (slot_ok cfg) (ds_queries s).

Lemma dns_bytes_eqb_eq : forall a b, dns_bytes_eqb a b = true <-> a = b.
Proof.
  induction a as [|x a IH]; destruct b as [|y b]; simpl; split; intro H; try reflexivity; try discriminate.
  - apply andb_true_iff in H. destruct H as [H1 H2]. apply Z.eqb_eq in H1. apply IH in H2. congruence.
  - inv H. apply andb_true_iff. split; [apply Z.eqb_refl | apply IH; reflexivity].
Qed.

(* eq_names cannot panic on terminating, panic-free iterators *)
Lemma dns_eq_names_not_panic : forall a b,
  nm_no_fuel a -> nm_no_panic a -> nm_no_fuel b -> nm_no_panic b -> dns_eq_names a b <> Panic.
Proof.
  induction a as [la ra IH| | | |]; intros b Fa Pa Fb Pb; cbn [dns_eq_names]; try contradiction;
    destruct b as [lb rb| | | |]; cbn [nm_no_fuel nm_no_panic] in *; try contradiction; try discriminate.
  destruct (dns_bytes_eqb la lb); [|discriminate]. apply IH; assumption.
Qed.

(* heapless push / extend keep the capacity bound and the byte-ness *)
Lemma dns_vec_push_ok : forall cap v x v',
  dns_vec_push cap v x = Some v' -> Forall wdns_is_byte v -> wdns_is_byte x ->
  Forall wdns_is_byte v' /\ wdns_len v' <= cap.
Proof.
  unfold dns_vec_push; intros cap v x v' H Hv Hx. case_if_in H; [|discriminate]. inv H.
  split; [apply Forall_app; split; auto|]. rewrite wdns_len_app. unfold wdns_len at 2. simpl. lia.
Qed.

Lemma dns_vec_extend_ok : forall cap v s v',
  dns_vec_extend cap v s = Some v' -> Forall wdns_is_byte v -> Forall wdns_is_byte s ->
  Forall wdns_is_byte v' /\ wdns_len v' <= cap.
Proof.
  unfold dns_vec_extend; intros cap v s v' H Hv Hs. case_if_in H; [|discriminate]. inv H.
  split; [apply Forall_app; split; auto|]. rewrite wdns_len_app. lia.
Qed.

Lemma dns_copy_name_go_ok : forall cap nm dest,
  nm_no_fuel nm -> nm_no_panic nm -> nm_labels_ok nm ->
  Forall wdns_is_byte dest -> wdns_len dest <= cap ->
  snd (dns_copy_name_go cap nm dest) <> Panic /\
  Forall wdns_is_byte (fst (dns_copy_name_go cap nm dest)) /\
  wdns_len (fst (dns_copy_name_go cap nm dest)) <= cap.
Proof.
  induction nm as [l r IH| | | |]; intros dest F P L Hd Hc; cbn [dns_copy_name_go nm_no_fuel nm_no_panic nm_labels_ok] in *;
    try contradiction.
  - destruct L as (Ll & L63 & Lr).
    destruct (dns_vec_push cap dest (wdns_len l)) as [d1|] eqn:E1; [|cbn; repeat split; auto; discriminate].
    assert (B : wdns_is_byte (wdns_len l)) by (pose proof (wdns_len_nonneg l); unfold wdns_is_byte; lia).
    destruct (dns_vec_push_ok _ _ _ _ E1 Hd B) as [H1 H1c].
    destruct (dns_vec_extend cap d1 l) as [d2|] eqn:E2; [|cbn; repeat split; auto; discriminate].
    destruct (dns_vec_extend_ok _ _ _ _ E2 H1 Ll) as [H2 H2c].
    apply IH; assumption.
  - destruct (dns_vec_push cap dest 0) as [d|] eqn:E; cbn; [|repeat split; auto; discriminate].
    assert (B : wdns_is_byte 0) by (unfold wdns_is_byte; lia).
    destruct (dns_vec_push_ok _ _ _ _ E Hd B). repeat split; auto; discriminate.
  - cbn. repeat split; auto; discriminate.
Qed.

Lemma dns_copy_name_ok : forall cap pkt cname,
  0 <= cap -> Forall wdns_is_byte pkt -> Forall wdns_is_byte cname ->
  snd (dns_copy_name cap (wdns_parse_name pkt cname)) <> Panic /\
  Forall wdns_is_byte (fst (dns_copy_name cap (wdns_parse_name pkt cname))) /\
  wdns_len (fst (dns_copy_name cap (wdns_parse_name pkt cname))) <= cap.
Proof.
  intros. unfold dns_copy_name. apply dns_copy_name_go_ok.
  - apply wdns_parse_name_terminates.
  - apply wdns_parse_name_no_panic; assumption.
  - apply wdns_parse_name_labels_ok; assumption.
  - constructor.
  - unfold wdns_len; simpl; lia.
Qed.

Definition walk_res_ok (cfg : dns_cfg) (w : dns_walk_res) : Prop :=
  match w with
  | WReturn name => Forall wdns_is_byte name /\ wdns_len name <= c_max_name cfg
  | WDone name _ => Forall wdns_is_byte name /\ wdns_len name <= c_max_name cfg
  end.

Lemma dns_eq_names_parse_not_panic : forall pkt a b,
  Forall wdns_is_byte pkt -> Forall wdns_is_byte a -> Forall wdns_is_byte b ->
  dns_eq_names (wdns_parse_name pkt a) (wdns_parse_name pkt b) <> Panic.
Proof.
  intros. apply dns_eq_names_not_panic; try apply wdns_parse_name_terminates;
    apply wdns_parse_name_no_panic; assumption.
Qed.

(* the answer loop: total for every count, packet and position *)
Lemma dns_walk_total : forall cfg n pkt payload name addrs,
  0 <= c_max_name cfg ->
  Forall wdns_is_byte pkt -> Forall wdns_is_byte payload ->
  Forall wdns_is_byte name -> wdns_len name <= c_max_name cfg ->
  exists w, dns_walk cfg n pkt payload name addrs = Ok w /\ walk_res_ok cfg w.
Proof.
  induction n as [|n IH]; intros pkt payload name addrs Hc Hp Hpl Hn Hl; cbn [dns_walk].
  { eexists; split; [reflexivity|]. split; assumption. }
  pose proof (wdns_record_parse_spec payload) as S.
  destruct (wdns_record_parse payload) as [[payload2 r]|e|] eqn:R; [| |contradiction].
  2:{ subst e. cbn. eexists; split; [reflexivity|]. split; assumption. }
  destruct (wdns_record_parse_bytes _ _ _ Hpl R) as (Hp2 & Hrn & Hrd).
  pose proof (dns_eq_names_parse_not_panic pkt (r_name r) name Hp Hrn Hn) as NP.
  destruct (dns_eq_names (wdns_parse_name pkt (r_name r)) (wdns_parse_name pkt name)) as [[|]|e|]; [| | |congruence].
  - destruct (r_data r) as [a|a|cname|t d]; try (apply IH; assumption).
    destruct (dns_copy_name_ok (c_max_name cfg) pkt cname Hc Hp Hrd) as (C1 & C2 & C3).
    destruct (dns_copy_name (c_max_name cfg) (wdns_parse_name pkt cname)) as [name' [u|e|]]; cbn [fst snd] in *.
    + apply IH; assumption.
    + eexists; split; [reflexivity|]. split; assumption.
    + congruence.
  - apply IH; assumption.
  - eexists; split; [reflexivity|]. split; assumption.
Qed.

Lemma pq_ok_with_name : forall cfg pq name,
  pq_ok cfg pq -> Forall wdns_is_byte name -> wdns_len name <= c_max_name cfg ->
  pq_ok cfg (dns_pq_with_name pq name).
Proof. unfold pq_ok, dns_pq_with_name; intros; cbn; tauto. Qed.

Lemma dns_process_query_total : forall cfg pkt pq,
  0 <= c_max_name cfg -> wdns_f_HEADER_END <= wdns_len pkt ->
  Forall wdns_is_byte pkt -> pq_ok cfg pq ->
  exists st, dns_process_query cfg pkt pq = Ok st /\ slot_ok cfg (Some st).
Proof.
  intros cfg pkt pq Hc Hlen Hp Hq. unfold dns_process_query.
  destruct (wdns_header_accessors_ok pkt Hlen) as (_ & _ & _ & _ & _ & [an Ean] & _ & _ & [payload Epl]).
  rewrite Epl. cbn [obind].
  assert (Hpl : Forall wdns_is_byte payload) by (eapply Forall_slice; eauto).
  pose proof (wdns_question_parse_spec payload) as S.
  destruct (wdns_question_parse payload) as [[payload1 question]|e|] eqn:Q; [| |contradiction].
  2:{ subst e. cbn. eexists; split; [reflexivity|exact Hq]. }
  destruct (wdns_question_parse_bytes _ _ _ Hpl Q) as [Hp1 Hqn].
  destruct (negb (q_type question =? pq_type pq)); [eexists; split; [reflexivity|exact Hq]|].
  destruct Hq as (Hn & Hl & Hd).
  pose proof (dns_eq_names_parse_not_panic pkt (q_name question) (pq_name pq) Hp Hqn Hn) as NP.
  destruct (dns_eq_names (wdns_parse_name pkt (q_name question)) (wdns_parse_name pkt (pq_name pq))) as [[|]|e|];
    [| | |congruence]; try (eexists; split; [reflexivity|repeat split; tauto]).
  rewrite Ean. cbn [obind].
  destruct (dns_walk_total cfg (Z.to_nat an) pkt payload1 (pq_name pq) [] Hc Hp Hp1 Hn Hl) as (w & Ew & Hw).
  rewrite Ew. cbn [obind].
  destruct w as [name|name [|a addrs]]; eexists; (split; [reflexivity|]); cbn; auto.
  unfold pq_ok. tauto.
Qed.

Lemma dns_process_slots_total : forall cfg pkt dst_port txid rcode qs,
  0 <= c_max_name cfg -> wdns_f_HEADER_END <= wdns_len pkt ->
  Forall wdns_is_byte pkt -> Forall (slot_ok cfg) qs ->
  exists qs', dns_process_slots cfg pkt dst_port txid rcode qs = Ok qs' /\ Forall (slot_ok cfg) qs' /\
              length qs' = length qs.
Proof.
  induction qs as [|q rest IH]; intros Hc Hlen Hp Hq; cbn [dns_process_slots].
  { eexists; split; [reflexivity|split; [constructor|reflexivity]]. }
  inv Hq. destruct (IH Hc Hlen Hp H2) as (rest' & Er & Hr & Hlr).
  destruct q as [[pq|addrs|]|]; try (rewrite Er; cbn [obind]; eexists; split; [reflexivity|split; [constructor; auto|simpl; congruence]]).
  destruct (negb (dst_port =? pq_port pq) || negb (txid =? pq_txid pq)).
  { rewrite Er; cbn [obind]; eexists; split; [reflexivity|split; [constructor; auto|simpl; congruence]]. }
  destruct (rcode =? wdns_RCODE_NXDOMAIN).
  { rewrite Er; cbn [obind]; eexists; split; [reflexivity|split; [constructor; cbn; auto|simpl; congruence]]. }
  destruct (dns_process_query_total cfg pkt pq Hc Hlen Hp H1) as (st & Est & Hst).
  rewrite Est. cbn [obind]. eexists; split; [reflexivity|split; [constructor; auto|reflexivity]].
Qed.

(* `process` returns for every socket state and every byte string: no panic, no divergence *)
Lemma dns_process_total : forall cfg s dst_port pkt,
  0 <= c_max_name cfg -> sock_ok cfg s -> Forall wdns_is_byte pkt ->
  exists s', dns_process cfg s dst_port pkt = Ok s' /\ sock_ok cfg s' /\
             ds_servers s' = ds_servers s /\ length (ds_queries s') = length (ds_queries s).
Proof.
  intros cfg s dst_port pkt Hc Hs Hp. unfold dns_process.
  pose proof (wdns_check_len_not_panic pkt) as NP.
  destruct (wdns_check_len pkt) as [[]|e|] eqn:CL; [| |congruence].
  2:{ eexists; repeat split; eauto. }
  pose proof (wdns_check_len_ok _ CL) as Hlen.
  destruct (wdns_header_accessors_ok pkt Hlen) as ([id Eid] & [fl Efl] & [op Eop] & [rc Erc] & [qd Eqd] & _).
  rewrite Eop. cbn [obind]. destruct (negb (op =? wdns_OPCODE_QUERY)); [eexists; repeat split; eauto|].
  rewrite Efl. cbn [obind]. destruct (Z.land fl wdns_FLAG_RESPONSE =? 0); [eexists; repeat split; eauto|].
  rewrite Eqd. cbn [obind]. destruct (negb (qd =? 1)); [eexists; repeat split; eauto|].
  rewrite Eid, Erc. cbn [obind].
  destruct (dns_process_slots_total cfg pkt dst_port id rc (ds_queries s) Hc Hlen Hp Hs) as (qs' & E & Hq & Hl).
  rewrite E. cbn [obind]. eexists; repeat split; eauto.
Qed.

Lemma dns_ingress_total : forall cfg s src sp dp pkt,
  0 <= c_max_name cfg -> sock_ok cfg s -> Forall wdns_is_byte pkt ->
  exists s' acc, dns_ingress cfg s src sp dp pkt = Ok (s', acc) /\ sock_ok cfg s'.
Proof.
  intros. unfold dns_ingress. destruct (dns_accepts s src sp); [|eauto].
  destruct (dns_process_total cfg s dp pkt) as (s' & E & Hs & _); auto.
  rewrite E. cbn [obind]. eauto.
Qed.

(* ====================================================================================== *)
(* Part B: what a completing response must look like                                      *)
(* ====================================================================================== *)

(* the label sequence a (possibly compressed) name denotes inside [pkt], if it is well formed *)
Fixpoint nm_to_labels (n : wdns_names) : option (list (list Z)) :=
  match n with
  | NmLabel l r => option_map (cons l) (nm_to_labels r)
  | NmEnd => Some []
  | _ => None
  end.

Definition dns_name_labels (pkt bytes : list Z) : option (list (list Z)) :=
  nm_to_labels (wdns_parse_name pkt bytes).

(* uncompressed wire encoding of a label sequence *)
Fixpoint dns_encode_name (ls : list (list Z)) : list Z :=
  match ls with
  | [] => [0]
  | l :: r => wdns_len l :: l ++ dns_encode_name r
  end.

Lemma dns_eq_names_true_iff : forall a b,
  dns_eq_names a b = Ok true <-> exists l, nm_to_labels a = Some l /\ nm_to_labels b = Some l.
Proof.
  induction a as [la ra IH| | | |]; intros b; cbn [dns_eq_names nm_to_labels].
  - destruct b as [lb rb| | | |]; cbn [nm_to_labels];
      try (split; [discriminate | intros (ll & A & B); destruct (nm_to_labels ra); cbn in A; discriminate]).
    + destruct (dns_bytes_eqb la lb) eqn:E.
      * apply dns_bytes_eqb_eq in E. subst lb. rewrite IH. split.
        -- intros (ll & A & B). exists (la :: ll). rewrite A, B. auto.
        -- intros (ll & A & B). destruct (nm_to_labels ra) as [x|]; [|discriminate].
           destruct (nm_to_labels rb) as [y|]; [|discriminate]. cbn in A, B. exists x. split; congruence.
      * split; [discriminate|]. intros (ll & A & B).
        destruct (nm_to_labels ra) as [x|]; [|discriminate].
        destruct (nm_to_labels rb) as [y|]; [|discriminate]. cbn in A, B.
        assert (la = lb) by congruence. subst. 
        assert (dns_bytes_eqb lb lb = true) by (apply dns_bytes_eqb_eq; reflexivity). congruence.
    + split; [discriminate|]. intros (ll & A & B). destruct (nm_to_labels ra); cbn in A; [|discriminate]. congruence.
  - destruct b as [lb rb| | | |]; cbn [nm_to_labels]; try (split; [discriminate | intros (ll & A & B); discriminate]).
    + split; [discriminate|]. intros (ll & A & B). destruct (nm_to_labels rb); cbn in B; [|discriminate]. congruence.
    + split; eauto.
  - destruct b; split; try discriminate; intros (ll & A & B); discriminate.
  - split; try discriminate; intros (ll & A & B); discriminate.
  - split; try discriminate; intros (ll & A & B); discriminate.
Qed.

Lemma dns_eq_names_false_neq : forall a b l,
  dns_eq_names a b = Ok false -> nm_to_labels b = Some l -> nm_to_labels a <> Some l.
Proof.
  intros a b l H Hb Ha.
  assert (dns_eq_names a b = Ok true) by (apply dns_eq_names_true_iff; eauto). congruence.
Qed.

(* copy_name succeeds exactly on well-formed names and writes the uncompressed encoding *)
Lemma dns_copy_name_go_labels : forall cap nm dest d,
  dns_copy_name_go cap nm dest = (d, Ok tt) ->
  exists ls, nm_to_labels nm = Some ls /\ d = dest ++ dns_encode_name ls.
Proof.
  induction nm as [l r IH| | | |]; intros dest d H; cbn [dns_copy_name_go] in H; try (inv H; fail).
  - unfold dns_vec_push, dns_vec_extend in H.
    destruct (wdns_len dest <? cap); [|inv H].
    destruct (wdns_len (dest ++ [wdns_len l]) + wdns_len l <=? cap); [|inv H].
    destruct (IH _ _ H) as (ls & A & B). exists (l :: ls). cbn [nm_to_labels dns_encode_name]. rewrite A. split; [reflexivity|].
    rewrite B. rewrite <- !app_assoc. reflexivity.
  - unfold dns_vec_push in H. destruct (wdns_len dest <? cap); inv H. exists []. split; reflexivity.
Qed.

Lemma dns_copy_name_labels : forall cap nm d,
  dns_copy_name cap nm = (d, Ok tt) -> exists ls, nm_to_labels nm = Some ls /\ d = dns_encode_name ls.
Proof. unfold dns_copy_name; intros. apply dns_copy_name_go_labels in H. exact H. Qed.

Fixpoint nm_of_labels (ls : list (list Z)) : wdns_names :=
  match ls with
  | [] => NmEnd
  | l :: r => NmLabel l (nm_of_labels r)
  end.

Lemma nm_to_labels_of : forall ls, nm_to_labels (nm_of_labels ls) = Some ls.
Proof. induction ls; cbn; [reflexivity|]. rewrite IHls. reflexivity. Qed.

Lemma firstn_app_exact : forall A (a b : list A), firstn (length a) (a ++ b) = a.
Proof. intros. rewrite firstn_app, firstn_all, Nat.sub_diag. simpl. apply app_nil_r. Qed.

Lemma skipn_app_exact : forall A (a b : list A), skipn (length a) (a ++ b) = b.
Proof. intros. rewrite skipn_app, skipn_all, Nat.sub_diag. reflexivity. Qed.

(* an uncompressed name with labels of 1..63 octets parses back to its labels, whatever the packet *)
Lemma wdns_parse_name_go_encode : forall pkt ls fuel,
  Forall (fun l => 1 <= wdns_len l <= 63) ls ->
  (length (dns_encode_name ls) <= fuel)%nat ->
  wdns_parse_name_go fuel pkt (dns_encode_name ls) = nm_of_labels ls.
Proof.
  induction ls as [|l r IH]; intros fuel Hl Hf.
  - destruct fuel; [simpl in Hf; lia|]. reflexivity.
  - inv Hl. destruct fuel; [simpl in Hf; lia|].
    cbn [dns_encode_name wdns_parse_name_go nm_of_labels].
    destruct (label_octet_1_63 (wdns_len l) H1) as (A & B & C).
    rewrite A, B, C. rewrite Z.eqb_refl.
    assert (L : wdns_len (wdns_len l :: l ++ dns_encode_name r) = 1 + wdns_len l + wdns_len (dns_encode_name r)).
    { rewrite wdns_len_cons, wdns_len_app. lia. }
    pose proof (wdns_len_nonneg (dns_encode_name r)).
    replace (wdns_len (wdns_len l :: l ++ dns_encode_name r) <? 1 + wdns_len l) with false
      by (symmetry; apply Z.ltb_ge; lia).
    unfold wdns_slice.
    replace ((0 <=? 1) && (1 <=? 1 + wdns_len l) && (1 + wdns_len l <=? wdns_len (wdns_len l :: l ++ dns_encode_name r)))
      with true by (symmetry; repeat (apply andb_true_iff; split); lia).
    replace ((0 <=? 1 + wdns_len l) && (1 + wdns_len l <=? wdns_len (wdns_len l :: l ++ dns_encode_name r))
             && (wdns_len (wdns_len l :: l ++ dns_encode_name r) <=? wdns_len (wdns_len l :: l ++ dns_encode_name r)))
      with true by (symmetry; repeat (apply andb_true_iff; split); lia).
    replace (Z.to_nat (1 + wdns_len l - 1)) with (length l) by (unfold wdns_len; lia).
    replace (Z.to_nat 1) with 1%nat by lia.
    replace (Z.to_nat (1 + wdns_len l)) with (S (length l)) by (unfold wdns_len; lia).
    cbn [skipn]. rewrite firstn_app_exact, skipn_app_exact.
    rewrite L.
    replace (Z.to_nat (1 + wdns_len l + wdns_len (dns_encode_name r) - (1 + wdns_len l)))
      with (length (dns_encode_name r)) by (unfold wdns_len; lia).
    rewrite firstn_all.
    f_equal. apply IH; [assumption|]. simpl in Hf. rewrite app_length in Hf. lia.
Qed.

Lemma dns_name_labels_encode : forall pkt ls,
  Forall (fun l => 1 <= wdns_len l <= 63) ls -> dns_name_labels pkt (dns_encode_name ls) = Some ls.
Proof.
  intros. unfold dns_name_labels, wdns_parse_name, wdns_parse_name_fuel.
  rewrite wdns_parse_name_go_encode; [apply nm_to_labels_of|assumption|lia].
Qed.

Lemma nm_labels_ok_to_labels : forall nm ls,
  nm_labels_ok nm -> nm_to_labels nm = Some ls -> Forall (fun l => 1 <= wdns_len l <= 63) ls.
Proof.
  induction nm as [l r IH| | | |]; intros ls Hok H; cbn in *; try discriminate.
  - destruct (nm_to_labels r) as [x|]; [|discriminate]. inv H. destruct Hok as (_ & ? & ?). constructor; auto.
  - inv H. constructor.
Qed.

(* --- the specification of the answer walk --- *)

(* the first n records, parsed one after the other *)
Inductive dns_records : nat -> list Z -> list wdns_record -> Prop :=
| recs_0 : forall p, dns_records 0 p []
| recs_S : forall n p p' r rs,
    wdns_record_parse p = Ok (p', r) -> dns_records n p' rs -> dns_records (S n) p (r :: rs).

(* [dns_on_chain pkt head rs addrs]: [addrs] are the addresses of exactly those A/AAAA records of
   [rs] whose owner name denotes the current head of the CNAME chain; the head starts at [head]
   and moves to the target of every CNAME record owned by the current head; records owned by any
   other name are ignored. *)
Inductive dns_on_chain (pkt : list Z) : list (list Z) -> list wdns_record -> list (list Z) -> Prop :=
| oc_nil : forall head, dns_on_chain pkt head [] []
| oc_skip : forall head r rs addrs,
    dns_name_labels pkt (r_name r) <> Some head ->
    dns_on_chain pkt head rs addrs -> dns_on_chain pkt head (r :: rs) addrs
| oc_addr : forall head r rs a addrs,
    dns_name_labels pkt (r_name r) = Some head -> (r_data r = RdA a \/ r_data r = RdAaaa a) ->
    dns_on_chain pkt head rs addrs -> dns_on_chain pkt head (r :: rs) (a :: addrs)
| oc_cname : forall head r rs c target addrs,
    dns_name_labels pkt (r_name r) = Some head -> r_data r = RdCname c ->
    dns_name_labels pkt c = Some target ->
    dns_on_chain pkt target rs addrs -> dns_on_chain pkt head (r :: rs) addrs
| oc_other : forall head r rs t d addrs,
    dns_name_labels pkt (r_name r) = Some head -> r_data r = RdOther t d ->
    dns_on_chain pkt head rs addrs -> dns_on_chain pkt head (r :: rs) addrs.

Lemma dns_on_chain_in : forall pkt head rs addrs a,
  dns_on_chain pkt head rs addrs -> In a addrs ->
  exists r, In r rs /\ (r_data r = RdA a \/ r_data r = RdAaaa a).
Proof.
  induction 1; intros Hin; try (destruct (IHdns_on_chain Hin) as (r0 & A & B); exists r0; split; [right|]; assumption).
  - destruct Hin.
  - destruct Hin as [->|Hin].
    + exists r. split; [left; reflexivity|assumption].
    + destruct (IHdns_on_chain Hin) as (r0 & A & B). exists r0. split; [right|]; assumption.
Qed.

Lemma fold_push_addr : forall cfg more acc,
  fold_left (dns_push_addr cfg) more acc
  = firstn (Nat.max (length acc) (Z.to_nat (c_max_results cfg))) (acc ++ more).
Proof.
  induction more as [|a more IH]; intros acc; cbn [fold_left].
  - rewrite app_nil_r. rewrite firstn_all2; [reflexivity|lia].
  - rewrite IH. unfold dns_push_addr.
    destruct (Z.of_nat (length acc) <? c_max_results cfg) eqn:E.
    + rewrite <- app_assoc. cbn [app]. f_equal. rewrite app_length. simpl. lia.
    + replace (Nat.max (length acc) (Z.to_nat (c_max_results cfg))) with (length acc) by lia.
      rewrite !firstn_app_exact. reflexivity.
Qed.

(* the loop, when it runs to its end, has computed the specification *)
Lemma dns_walk_done_spec : forall cfg pkt n payload name addrs0 head name' addrs,
  Forall wdns_is_byte pkt -> Forall wdns_is_byte payload ->
  dns_name_labels pkt name = Some head ->
  dns_walk cfg n pkt payload name addrs0 = Ok (WDone name' addrs) ->
  exists rs more, dns_records n payload rs /\ dns_on_chain pkt head rs more /\
                  addrs = fold_left (dns_push_addr cfg) more addrs0.
Proof.
  induction n as [|n IH]; intros payload name addrs0 head name' addrs Hp Hpl Hh H; cbn [dns_walk] in H.
  { inv H. exists [], []. repeat split; constructor. }
  destruct (wdns_record_parse payload) as [[payload2 r]|e|] eqn:R; try discriminate.
  2:{ destruct (dns_is_fuel e); discriminate. }
  destruct (wdns_record_parse_bytes _ _ _ Hpl R) as (Hp2 & Hrn & Hrd).
  destruct (dns_eq_names (wdns_parse_name pkt (r_name r)) (wdns_parse_name pkt name)) as [[|]|e|] eqn:EQ; try discriminate.
  - (* owner is the head *)
    assert (Ho : dns_name_labels pkt (r_name r) = Some head).
    { apply dns_eq_names_true_iff in EQ. destruct EQ as (l & A & B). unfold dns_name_labels in *. congruence. }
    destruct (r_data r) as [a|a|cname|t d] eqn:D.
    + destruct (IH _ _ _ _ _ _ Hp Hp2 Hh H) as (rs & more & A & B & C).
      exists (r :: rs), (a :: more). repeat split; [econstructor; eauto|eapply oc_addr; eauto|exact C].
    + destruct (IH _ _ _ _ _ _ Hp Hp2 Hh H) as (rs & more & A & B & C).
      exists (r :: rs), (a :: more). repeat split; [econstructor; eauto|eapply oc_addr; eauto|exact C].
    + destruct (dns_copy_name (c_max_name cfg) (wdns_parse_name pkt cname)) as [name2 [[]|e|]] eqn:CN; try discriminate.
      destruct (dns_copy_name_labels _ _ _ CN) as (target & T1 & T2).
      assert (Ht : dns_name_labels pkt name2 = Some target).
      { subst name2. apply dns_name_labels_encode. eapply nm_labels_ok_to_labels; [|exact T1].
        apply wdns_parse_name_labels_ok; assumption. }
      destruct (IH _ _ _ _ _ _ Hp Hp2 Ht H) as (rs & more & A & B & C).
      exists (r :: rs), more. repeat split; [econstructor; eauto|eapply oc_cname; eauto|exact C].
    + destruct (IH _ _ _ _ _ _ Hp Hp2 Hh H) as (rs & more & A & B & C).
      exists (r :: rs), more. repeat split; [econstructor; eauto|eapply oc_other; eauto|exact C].
  - (* some other owner: ignored *)
    assert (Ho : dns_name_labels pkt (r_name r) <> Some head) by (eapply dns_eq_names_false_neq; eauto).
    destruct (IH _ _ _ _ _ _ Hp Hp2 Hh H) as (rs & more & A & B & C).
    exists (r :: rs), more. repeat split; [econstructor; eauto|eapply oc_skip; eauto|exact C].
Qed.

(* the question clauses + the answer specification, for one pending query and one datagram *)
Definition dns_answer_matches (cfg : dns_cfg) (pkt : list Z) (pq : dns_pending) (addrs : list (list Z)) : Prop :=
  exists payload payload1 question head ancount records on_chain,
    wdns_payload pkt = Ok payload /\
    wdns_question_parse payload = Ok (payload1, question) /\
    q_type question = pq_type pq /\                                   (* repeats the question type *)
    dns_name_labels pkt (q_name question) = Some head /\             (* ... and the question name *)
    dns_name_labels pkt (pq_name pq) = Some head /\
    wdns_answer_record_count pkt = Ok ancount /\
    dns_records (Z.to_nat ancount) payload1 records /\                (* the answer section *)
    dns_on_chain pkt head records on_chain /\                         (* addresses on the CNAME chain *)
    addrs = firstn (Z.to_nat (c_max_results cfg)) on_chain /\         (* capped by DNS_MAX_RESULT_COUNT *)
    addrs <> [].

Lemma dns_process_query_completed : forall cfg pkt pq addrs,
  Forall wdns_is_byte pkt ->
  dns_process_query cfg pkt pq = Ok (QCompleted addrs) -> dns_answer_matches cfg pkt pq addrs.
Proof.
  intros cfg pkt pq addrs Hp H. unfold dns_process_query in H.
  destruct (wdns_payload pkt) as [payload| |] eqn:Epl; cbn [obind] in H; try discriminate.
  assert (Hpl : Forall wdns_is_byte payload) by (eapply Forall_slice; eauto).
  destruct (wdns_question_parse payload) as [[payload1 question]|e|] eqn:Q; try discriminate.
  2:{ destruct (dns_is_fuel e); discriminate. }
  destruct (wdns_question_parse_bytes _ _ _ Hpl Q) as [Hp1 Hqn].
  destruct (negb (q_type question =? pq_type pq)) eqn:Ety; [discriminate|].
  destruct (dns_eq_names (wdns_parse_name pkt (q_name question)) (wdns_parse_name pkt (pq_name pq))) as [[|]|e|] eqn:EQ;
    try discriminate.
  apply dns_eq_names_true_iff in EQ. destruct EQ as (head & A & B).
  destruct (wdns_answer_record_count pkt) as [an| |] eqn:Ean; cbn [obind] in H; try discriminate.
  destruct (dns_walk cfg (Z.to_nat an) pkt payload1 (pq_name pq) []) as [w| |] eqn:W; cbn [obind] in H; try discriminate.
  destruct w as [name|name [|a0 addrs0]]; try discriminate. inv H.
  destruct (dns_walk_done_spec _ _ _ _ _ _ head _ _ Hp Hp1 B W) as (rs & more & R1 & R2 & R3).
  exists payload, payload1, question, head, an, rs, more.
  repeat split; auto.
  - apply negb_false_iff in Ety. apply Z.eqb_eq in Ety. exact Ety.
  - rewrite R3. rewrite fold_push_addr. cbn [length app]. f_equal; try lia.
  - discriminate.
Qed.

(* ====================================================================================== *)
(* Part C: which datagram may touch which slot                                            *)
(* ====================================================================================== *)

Definition dns_source_ok (s : dns_sock) (src : list Z) (sp : Z) : Prop :=
  (sp = dns_DNS_PORT /\ In src (ds_servers s)) \/ sp = dns_MDNS_DNS_PORT.

Lemma dns_accepts_iff : forall s src sp, dns_accepts s src sp = true <-> dns_source_ok s src sp.
Proof.
  intros. unfold dns_accepts, dns_source_ok. rewrite orb_true_iff, andb_true_iff, !Z.eqb_eq, existsb_exists.
  split; (intros [[A B]|C]; [left; split; auto|right; auto]).
  - destruct B as (x & B1 & B2). apply dns_bytes_eqb_eq in B2. subst. assumption.
  - exists src. split; [assumption|apply dns_bytes_eqb_eq; reflexivity].
Qed.

(* header clauses of `process`: long enough, opcode Query, response bit, one question, the id *)
Definition dns_header_ok (pkt : list Z) (txid : Z) : Prop :=
  wdns_f_HEADER_END <= wdns_len pkt /\
  wdns_opcode pkt = Ok wdns_OPCODE_QUERY /\
  (exists fl, wdns_flags pkt = Ok fl /\ Z.land fl wdns_FLAG_RESPONSE <> 0) /\
  wdns_question_count pkt = Ok 1 /\
  wdns_transaction_id pkt = Ok txid.

(* the question section repeats the query's name and type *)
Definition dns_question_matches (pkt : list Z) (pq : dns_pending) : Prop :=
  exists payload payload1 question head,
    wdns_payload pkt = Ok payload /\ wdns_question_parse payload = Ok (payload1, question) /\
    q_type question = pq_type pq /\
    dns_name_labels pkt (q_name question) = Some head /\ dns_name_labels pkt (pq_name pq) = Some head.

Lemma dns_answer_matches_question : forall cfg pkt pq addrs,
  dns_answer_matches cfg pkt pq addrs -> dns_question_matches pkt pq.
Proof.
  intros cfg pkt pq addrs (payload & payload1 & question & head & an & rs & oc & A & B & C & D & E & _).
  exists payload, payload1, question, head. auto.
Qed.

(* every clause of the property, for one datagram and one pending query *)
Definition dns_response_matches (cfg : dns_cfg) (s : dns_sock) (pq : dns_pending)
           (src : list Z) (sp dp : Z) (pkt : list Z) (addrs : list (list Z)) : Prop :=
  dns_source_ok s src sp /\ dp = pq_port pq /\ dns_header_ok pkt (pq_txid pq) /\
  dns_answer_matches cfg pkt pq addrs.

Lemma dns_process_query_wrong_question : forall cfg pkt pq st,
  ~ dns_question_matches pkt pq -> dns_process_query cfg pkt pq = Ok st -> st = QPending pq.
Proof.
  intros cfg pkt pq st NM H. unfold dns_process_query in H.
  destruct (wdns_payload pkt) as [payload| |] eqn:Epl; cbn [obind] in H; try discriminate.
  destruct (wdns_question_parse payload) as [[payload1 question]|e|] eqn:Q; try discriminate.
  2:{ destruct (dns_is_fuel e); inv H; reflexivity. }
  destruct (negb (q_type question =? pq_type pq)) eqn:Ety; [inv H; reflexivity|].
  destruct (dns_eq_names (wdns_parse_name pkt (q_name question)) (wdns_parse_name pkt (pq_name pq))) as [[|]|e|] eqn:EQ;
    try discriminate; try (inv H; reflexivity).
  exfalso. apply NM. apply dns_eq_names_true_iff in EQ. destruct EQ as (head & A & B).
  exists payload, payload1, question, head. repeat split; auto.
  apply negb_false_iff in Ety. apply Z.eqb_eq in Ety. exact Ety.
Qed.

(* effect of the `for q` loop on each slot *)
Lemma dns_process_slots_nth : forall cfg pkt dp txid rcode qs qs',
  dns_process_slots cfg pkt dp txid rcode qs = Ok qs' ->
  forall h,
  match nth_error qs h with
  | None => nth_error qs' h = None
  | Some (Some (QPending pq)) =>
      nth_error qs' h = Some (Some (QPending pq)) \/
      (dp = pq_port pq /\ txid = pq_txid pq /\
       ((rcode = wdns_RCODE_NXDOMAIN /\ nth_error qs' h = Some (Some QFailure)) \/
        (rcode <> wdns_RCODE_NXDOMAIN /\
         exists st, dns_process_query cfg pkt pq = Ok st /\ nth_error qs' h = Some (Some st))))
  | Some o => nth_error qs' h = Some o
  end.
Proof.
  induction qs as [|q rest IH]; intros qs' H h; cbn [dns_process_slots] in H.
  { inv H. destruct h; reflexivity. }
  destruct q as [[pq|addrs|]|].
  - destruct (negb (dp =? pq_port pq) || negb (txid =? pq_txid pq)) eqn:Em.
    + destruct (dns_process_slots cfg pkt dp txid rcode rest) as [rest'| |] eqn:Er; cbn [obind] in H; inv H.
      destruct h as [|h']; cbn [nth_error]; [left; reflexivity|]. exact (IH rest' eq_refl h').
    + apply orb_false_iff in Em. destruct Em as [E1 E2].
      apply negb_false_iff in E1. apply negb_false_iff in E2. apply Z.eqb_eq in E1. apply Z.eqb_eq in E2.
      destruct (rcode =? wdns_RCODE_NXDOMAIN) eqn:Erc.
      * apply Z.eqb_eq in Erc.
        destruct (dns_process_slots cfg pkt dp txid rcode rest) as [rest'| |] eqn:Er; cbn [obind] in H; inv H.
        destruct h as [|h']; cbn [nth_error]; [right; repeat split; auto|]. exact (IH rest' eq_refl h').
      * apply Z.eqb_neq in Erc.
        destruct (dns_process_query cfg pkt pq) as [st| |] eqn:Eq; cbn [obind] in H; inv H.
        destruct h as [|h']; cbn [nth_error].
        -- right. repeat split; auto. right. split; auto. exists st. auto.
        -- (* `return`: the remaining slots are not visited *)
           destruct (nth_error rest h') as [[[pq'|a|]|]|]; auto.
  - destruct (dns_process_slots cfg pkt dp txid rcode rest) as [rest'| |] eqn:Er; cbn [obind] in H; inv H.
    destruct h as [|h']; cbn [nth_error]; [reflexivity|]. exact (IH rest' eq_refl h').
  - destruct (dns_process_slots cfg pkt dp txid rcode rest) as [rest'| |] eqn:Er; cbn [obind] in H; inv H.
    destruct h as [|h']; cbn [nth_error]; [reflexivity|]. exact (IH rest' eq_refl h').
  - destruct (dns_process_slots cfg pkt dp txid rcode rest) as [rest'| |] eqn:Er; cbn [obind] in H; inv H.
    destruct h as [|h']; cbn [nth_error]; [reflexivity|]. exact (IH rest' eq_refl h').
Qed.

(* `process`: either the header is rejected and nothing changes, or the loop ran with the
   header's id and rcode *)
Lemma dns_process_cases : forall cfg s dp pkt s',
  dns_process cfg s dp pkt = Ok s' ->
  s' = s \/
  exists txid rcode qs',
    dns_header_ok pkt txid /\ wdns_rcode pkt = Ok rcode /\
    dns_process_slots cfg pkt dp txid rcode (ds_queries s) = Ok qs' /\
    s' = mkSock (ds_servers s) qs' (ds_owned s) (ds_hop_limit s).
Proof.
  intros cfg s dp pkt s' H. unfold dns_process in H.
  destruct (wdns_check_len pkt) as [[]|e|] eqn:CL; try discriminate.
  2:{ inv H. left; reflexivity. }
  pose proof (wdns_check_len_ok _ CL) as Hlen.
  destruct (wdns_opcode pkt) as [op| |] eqn:Eop; cbn [obind] in H; try discriminate.
  destruct (negb (op =? wdns_OPCODE_QUERY)) eqn:E1; [inv H; left; reflexivity|].
  destruct (wdns_flags pkt) as [fl| |] eqn:Efl; cbn [obind] in H; try discriminate.
  destruct (Z.land fl wdns_FLAG_RESPONSE =? 0) eqn:E2; [inv H; left; reflexivity|].
  destruct (wdns_question_count pkt) as [qd| |] eqn:Eqd; cbn [obind] in H; try discriminate.
  destruct (negb (qd =? 1)) eqn:E3; [inv H; left; reflexivity|].
  destruct (wdns_transaction_id pkt) as [id| |] eqn:Eid; cbn [obind] in H; try discriminate.
  destruct (wdns_rcode pkt) as [rc| |] eqn:Erc; cbn [obind] in H; try discriminate.
  destruct (dns_process_slots cfg pkt dp id rc (ds_queries s)) as [qs'| |] eqn:Es; cbn [obind] in H; try discriminate.
  inv H. right. exists id, rc, qs'.
  apply negb_false_iff in E1. apply Z.eqb_eq in E1. apply Z.eqb_neq in E2.
  apply negb_false_iff in E3. apply Z.eqb_eq in E3. subst.
  repeat split; eauto.
Qed.

(* the datagram is addressed to this pending query: acceptable source, its port, a well-formed
   response header with its transaction id *)
Definition dns_addressed (s : dns_sock) (pq : dns_pending) (src : list Z) (sp dp : Z) (pkt : list Z) : Prop :=
  dns_source_ok s src sp /\ dp = pq_port pq /\ dns_header_ok pkt (pq_txid pq).

Lemma dns_header_ok_txid : forall pkt t1 t2, dns_header_ok pkt t1 -> dns_header_ok pkt t2 -> t1 = t2.
Proof. intros pkt t1 t2 (_ & _ & _ & _ & A) (_ & _ & _ & _ & B). congruence. Qed.

(* what one datagram can do to one pending slot *)
Lemma dns_ingress_slot : forall cfg s src sp dp pkt s' acc h pq,
  dns_ingress cfg s src sp dp pkt = Ok (s', acc) ->
  nth_error (ds_queries s) h = Some (Some (QPending pq)) ->
  nth_error (ds_queries s') h = Some (Some (QPending pq)) \/
  (dns_addressed s pq src sp dp pkt /\
   ((wdns_rcode pkt = Ok wdns_RCODE_NXDOMAIN /\ nth_error (ds_queries s') h = Some (Some QFailure)) \/
    (wdns_rcode pkt <> Ok wdns_RCODE_NXDOMAIN /\
     exists st, dns_process_query cfg pkt pq = Ok st /\ nth_error (ds_queries s') h = Some (Some st)))).
Proof.
  intros cfg s src sp dp pkt s' acc h pq H Hh. unfold dns_ingress in H.
  destruct (dns_accepts s src sp) eqn:Ea; [|inv H; left; assumption].
  apply dns_accepts_iff in Ea.
  destruct (dns_process cfg s dp pkt) as [s1| |] eqn:Ep; cbn [obind] in H; inv H.
  destruct (dns_process_cases _ _ _ _ _ Ep) as [->|(txid & rc & qs' & Hh1 & Hrc & Hs & ->)]; [left; assumption|].
  pose proof (dns_process_slots_nth _ _ _ _ _ _ _ Hs h) as N. rewrite Hh in N. cbn [ds_queries].
  destruct N as [N|(P1 & P2 & N)]; [left; assumption|]. right. subst txid. split; [split; [|split]; assumption|].
  destruct N as [[N1 N2]|[N1 N2]]; [left|right]; split; auto; congruence.
Qed.

(* slots that are not pending, and free slots, are never touched by a datagram *)
Lemma dns_ingress_other : forall cfg s src sp dp pkt s' acc h,
  dns_ingress cfg s src sp dp pkt = Ok (s', acc) ->
  (forall pq, nth_error (ds_queries s) h <> Some (Some (QPending pq))) ->
  nth_error (ds_queries s') h = nth_error (ds_queries s) h.
Proof.
  intros cfg s src sp dp pkt s' acc h H Hh. unfold dns_ingress in H.
  destruct (dns_accepts s src sp) eqn:Ea; [|inv H; reflexivity].
  destruct (dns_process cfg s dp pkt) as [s1| |] eqn:Ep; cbn [obind] in H; inv H.
  destruct (dns_process_cases _ _ _ _ _ Ep) as [->|(txid & rc & qs' & Hh1 & Hrc & Hs & ->)]; [reflexivity|].
  pose proof (dns_process_slots_nth _ _ _ _ _ _ _ Hs h) as N. cbn [ds_queries].
  destruct (nth_error (ds_queries s) h) as [[[pq|a|]|]|]; auto. exfalso. eapply Hh; reflexivity.
Qed.

(* nonmatching_ignored: a datagram that is not addressed to the query -- wrong source address or
   port, wrong destination port, malformed header / not a response / other opcode / question
   count <> 1, wrong transaction id -- leaves its slot unchanged *)
Lemma dns_not_addressed_unchanged : forall cfg s src sp dp pkt s' acc h pq,
  dns_ingress cfg s src sp dp pkt = Ok (s', acc) ->
  nth_error (ds_queries s) h = Some (Some (QPending pq)) ->
  ~ dns_addressed s pq src sp dp pkt ->
  nth_error (ds_queries s') h = Some (Some (QPending pq)).
Proof.
  intros. destruct (dns_ingress_slot _ _ _ _ _ _ _ _ _ _ H H0) as [A|[A _]]; [assumption|contradiction].
Qed.

(* ... and one that is addressed to it but does not repeat its question leaves it unchanged too,
   except that rcode NXDomain fails the query (before the question is looked at) *)
Lemma dns_wrong_question_unchanged : forall cfg s src sp dp pkt s' acc h pq,
  dns_ingress cfg s src sp dp pkt = Ok (s', acc) ->
  nth_error (ds_queries s) h = Some (Some (QPending pq)) ->
  ~ dns_question_matches pkt pq ->
  nth_error (ds_queries s') h = Some (Some (QPending pq)) \/
  (dns_addressed s pq src sp dp pkt /\ wdns_rcode pkt = Ok wdns_RCODE_NXDOMAIN /\
   nth_error (ds_queries s') h = Some (Some QFailure)).
Proof.
  intros cfg s src sp dp pkt s' acc h pq H Hh NM.
  destruct (dns_ingress_slot _ _ _ _ _ _ _ _ _ _ H Hh) as [A|[A [[B C]|[B (st & C & D)]]]]; auto.
  left. rewrite (dns_process_query_wrong_question _ _ _ _ NM C) in D. exact D.
Qed.

(* a datagram that is refused by `accepts` or by the header checks changes nothing at all *)
Lemma dns_ingress_rejected_unchanged : forall cfg s src sp dp pkt s' acc,
  dns_ingress cfg s src sp dp pkt = Ok (s', acc) ->
  ~ dns_source_ok s src sp \/ (forall txid, ~ dns_header_ok pkt txid) ->
  s' = s.
Proof.
  intros cfg s src sp dp pkt s' acc H C. unfold dns_ingress in H.
  destruct (dns_accepts s src sp) eqn:Ea; [|inv H; reflexivity].
  apply dns_accepts_iff in Ea.
  destruct (dns_process cfg s dp pkt) as [s1| |] eqn:Ep; cbn [obind] in H; inv H.
  destruct (dns_process_cases _ _ _ _ _ Ep) as [->|(txid & rc & qs' & Hh1 & _)]; [reflexivity|].
  destruct C as [C|C]; [contradiction|]. exfalso. exact (C txid Hh1).
Qed.

(* ====================================================================================== *)
(* Part D: histories -- a completed slot comes from a matching datagram                   *)
(* ====================================================================================== *)

Lemma nth_error_set_nth : forall A (l : list A) i x h,
  nth_error (dns_set_nth l i x) h =
  if Nat.eqb h i then (match nth_error l h with Some _ => Some x | None => None end) else nth_error l h.
Proof.
  induction l as [|y l IH]; intros i x h.
  - destruct i; simpl; destruct h; simpl; try reflexivity; destruct (Nat.eqb _ _); reflexivity.
  - destruct i as [|i]; destruct h as [|h]; simpl; try reflexivity. apply IH.
Qed.

Lemma length_set_nth : forall A (l : list A) i x, length (dns_set_nth l i x) = length l.
Proof. induction l; intros [|i] x; simpl; auto. Qed.

Definition is_completed (o : option (option dns_qstate)) (addrs : list (list Z)) : Prop :=
  o = Some (Some (QCompleted addrs)).

(* start_query_raw never produces a completed slot *)
Lemma dns_start_query_raw_completed : forall cfg s raw t m txid port s' r h addrs,
  dns_start_query_raw cfg s raw t m txid port = (s', r) ->
  nth_error (ds_queries s') h = Some (Some (QCompleted addrs)) ->
  nth_error (ds_queries s) h = Some (Some (QCompleted addrs)).
Proof.
  intros cfg s raw t m txid port s' r h addrs H Hh. unfold dns_start_query_raw, dns_find_free_query in H.
  assert (App : forall l : list (option dns_qstate), nth_error (l ++ [None]) h = Some (Some (QCompleted addrs)) ->
                nth_error l h = Some (Some (QCompleted addrs))).
  { intros l Hl. destruct (Nat.lt_ge_cases h (length l)) as [L|L].
    - rewrite nth_error_app1 in Hl by assumption. exact Hl.
    - rewrite nth_error_app2 in Hl by assumption. destruct (h - length l)%nat as [|[|k]]; simpl in Hl; discriminate. }
  destruct (dns_find_none (ds_queries s) 0) as [i|].
  - destruct (wdns_len raw >? c_max_name cfg); inv H; [assumption|].
    cbn [dns_set_slot ds_queries] in Hh. rewrite nth_error_set_nth in Hh.
    destruct (Nat.eqb h i); [|assumption]. destruct (nth_error (ds_queries s) h); discriminate.
  - destruct (ds_owned s).
    + destruct (wdns_len raw >? c_max_name cfg); inv H; cbn [dns_set_slot ds_queries] in Hh.
      * apply App; assumption.
      * rewrite nth_error_set_nth in Hh. destruct (Nat.eqb h (length (ds_queries s))).
        -- destruct (nth_error (ds_queries s ++ [None]) h); discriminate.
        -- apply App; assumption.
    + inv H. assumption.
Qed.

Lemma dns_start_query_completed : forall cfg s name t txid port s' r h addrs,
  dns_start_query cfg s name t txid port = (s', r) ->
  nth_error (ds_queries s') h = Some (Some (QCompleted addrs)) ->
  nth_error (ds_queries s) h = Some (Some (QCompleted addrs)).
Proof.
  intros cfg s name t txid port s' r h addrs H Hh. unfold dns_start_query in H.
  destruct name as [|c name]; [inv H; assumption|].
  destruct (dns_encode_labels _ _ _); try (inv H; assumption).
  destruct (dns_vec_push _ _ _); [|inv H; assumption].
  eapply dns_start_query_raw_completed; eauto.
Qed.

Lemma dns_set_none_completed : forall s i h addrs,
  nth_error (ds_queries (dns_set_slot s i None)) h = Some (Some (QCompleted addrs)) ->
  nth_error (ds_queries s) h = Some (Some (QCompleted addrs)).
Proof.
  intros s i h addrs H. cbn [dns_set_slot ds_queries] in H. rewrite nth_error_set_nth in H.
  destruct (Nat.eqb h i); [|assumption]. destruct (nth_error (ds_queries s) h); discriminate.
Qed.

Lemma dns_get_query_result_completed : forall s i s' r h addrs,
  dns_get_query_result s i = (s', r) ->
  nth_error (ds_queries s') h = Some (Some (QCompleted addrs)) ->
  nth_error (ds_queries s) h = Some (Some (QCompleted addrs)).
Proof.
  intros s i s' r h addrs H Hh. unfold dns_get_query_result in H.
  destruct (nth_error (ds_queries s) i) as [[[pq|a|]|]|]; inv H; try assumption;
    eapply dns_set_none_completed; eauto.
Qed.

Lemma dns_cancel_query_completed : forall s i s' r h addrs,
  dns_cancel_query s i = (s', r) ->
  nth_error (ds_queries s') h = Some (Some (QCompleted addrs)) ->
  nth_error (ds_queries s) h = Some (Some (QCompleted addrs)).
Proof.
  intros s i s' r h addrs H Hh. unfold dns_cancel_query in H.
  destruct (nth_error (ds_queries s) i) as [[q|]|]; inv H; try assumption;
    eapply dns_set_none_completed; eauto.
Qed.

(* dispatch turns pending slots into pending or failed ones and touches nothing else *)
Lemma dns_dispatch_query_not_completed : forall cfg servers now e pq r,
  dns_dispatch_query cfg servers now e pq = Ok r ->
  match r with
  | DqContinue st | DqEmit st _ | DqEmitErr st => forall addrs, st <> QCompleted addrs
  end.
Proof.
  intros cfg servers now e pq r H. unfold dns_dispatch_query in H.
  repeat match type of H with
  | (if ?c then _ else _) = _ => destruct c
  | match ?x with _ => _ end = _ => destruct x
  | obind ?m _ = _ => destruct m; cbn [obind] in H
  end; try discriminate; inv H; intros; discriminate.
Qed.

Lemma dns_dispatch_slots_nth : forall cfg servers now e qs qs' res,
  dns_dispatch_slots cfg servers now e qs = Ok (qs', res) ->
  forall h,
  match nth_error qs h with
  | None => nth_error qs' h = None
  | Some (Some (QPending pq)) =>
      exists st, nth_error qs' h = Some (Some st) /\ forall addrs, st <> QCompleted addrs
  | Some o => nth_error qs' h = Some o
  end.
Proof.
  induction qs as [|q rest IH]; intros qs' res H h; cbn [dns_dispatch_slots] in H.
  { inv H. destruct h; reflexivity. }
  destruct q as [[pq|addrs|]|].
  - destruct (dns_dispatch_query cfg servers now e pq) as [r| |] eqn:Eq; cbn [obind] in H; try discriminate.
    pose proof (dns_dispatch_query_not_completed _ _ _ _ _ _ Eq) as NC.
    destruct r as [st|st tx|st].
    + destruct (dns_dispatch_slots cfg servers now e rest) as [[rest' res']| |] eqn:Er; cbn [obind] in H; inv H.
      destruct h as [|h']; cbn [nth_error]; [eauto|]. exact (IH rest' res eq_refl h').
    + inv H. destruct h as [|h']; cbn [nth_error]; [eauto|].
      destruct (nth_error rest h') as [[[pq'|a|]|]|]; auto. exists (QPending pq'). split; [reflexivity|discriminate].
    + inv H. destruct h as [|h']; cbn [nth_error]; [eauto|].
      destruct (nth_error rest h') as [[[pq'|a|]|]|]; auto. exists (QPending pq'). split; [reflexivity|discriminate].
  - destruct (dns_dispatch_slots cfg servers now e rest) as [[rest' res']| |] eqn:Er; cbn [obind] in H; inv H.
    destruct h as [|h']; cbn [nth_error]; [reflexivity|]. exact (IH rest' res eq_refl h').
  - destruct (dns_dispatch_slots cfg servers now e rest) as [[rest' res']| |] eqn:Er; cbn [obind] in H; inv H.
    destruct h as [|h']; cbn [nth_error]; [reflexivity|]. exact (IH rest' res eq_refl h').
  - destruct (dns_dispatch_slots cfg servers now e rest) as [[rest' res']| |] eqn:Er; cbn [obind] in H; inv H.
    destruct h as [|h']; cbn [nth_error]; [reflexivity|]. exact (IH rest' res eq_refl h').
Qed.

Lemma dns_dispatch_completed : forall cfg s now e s' res h addrs,
  dns_dispatch cfg s now e = Ok (s', res) ->
  nth_error (ds_queries s') h = Some (Some (QCompleted addrs)) ->
  nth_error (ds_queries s) h = Some (Some (QCompleted addrs)).
Proof.
  intros cfg s now e s' res h addrs H Hh. unfold dns_dispatch in H.
  destruct (dns_dispatch_slots cfg (ds_servers s) now e (ds_queries s)) as [[qs r]| |] eqn:E; cbn [obind] in H; inv H.
  cbn [ds_queries] in Hh.
  pose proof (dns_dispatch_slots_nth _ _ _ _ _ _ _ E h) as N.
  destruct (nth_error (ds_queries s) h) as [[[pq|a|]|]|]; try congruence.
  destruct N as (st & N1 & N2). rewrite N1 in Hh. inv Hh. exfalso. eapply N2; reflexivity.
Qed.

Lemma dns_poll_go_completed : forall cfg fuel s now acc s' txs hang h addrs,
  dns_poll_go cfg fuel s now acc = Ok (s', txs, hang) ->
  nth_error (ds_queries s') h = Some (Some (QCompleted addrs)) ->
  nth_error (ds_queries s) h = Some (Some (QCompleted addrs)).
Proof.
  induction fuel as [|fuel IH]; intros s now acc s' txs hang h addrs H Hh; cbn [dns_poll_go] in H.
  { inv H. assumption. }
  destruct (dns_dispatch cfg s now true) as [[s1 r]| |] eqn:E; cbn [obind] in H; try discriminate.
  destruct r as [|tx|].
  - inv H. eapply dns_dispatch_completed; eauto.
  - eapply dns_dispatch_completed; eauto.
  - inv H. eapply dns_dispatch_completed; eauto.
Qed.

Definition ev_ok (ev : dns_event) : Prop :=
  match ev with
  | EvRsp _ _ _ pkt => Forall wdns_is_byte pkt
  | EvQuery name _ _ _ => Forall wdns_is_byte name
  | EvQueryRaw raw _ _ _ _ => Forall wdns_is_byte raw
  | EvHop (Some h) => 0 <= h <= 255
  | _ => True
  end.

(* one event: a slot is completed afterwards only if it was already, or the event is a datagram
   that satisfies every clause for the pending query in that slot *)
Lemma dns_step_completed : forall cfg s ev h addrs,
  ev_ok ev ->
  nth_error (ds_queries (fst (dns_step cfg s ev))) h = Some (Some (QCompleted addrs)) ->
  nth_error (ds_queries s) h = Some (Some (QCompleted addrs)) \/
  exists src sp dp pkt pq,
    ev = EvRsp src sp dp pkt /\ nth_error (ds_queries s) h = Some (Some (QPending pq)) /\
    dns_response_matches cfg s pq src sp dp pkt addrs.
Proof.
  intros cfg s ev h addrs Hev H. destruct ev as [name t txid port|raw t m txid port|i|i|now|src sp dp pkt|l|hl]; cbn [dns_step] in H;
    [| | | | | |left; exact H|left; unfold dns_set_hop_limit in H; destruct hl as [v|]; [destruct (v =? 0)|]; exact H].
  - left. destruct (dns_start_query cfg s name t txid port) as [s' r] eqn:E. eapply dns_start_query_completed; eauto.
  - left. destruct (dns_start_query_raw cfg s raw t m txid port) as [s' r] eqn:E. eapply dns_start_query_raw_completed; eauto.
  - left. destruct (dns_get_query_result s i) as [s' r] eqn:E. eapply dns_get_query_result_completed; eauto.
  - left. destruct (dns_cancel_query s i) as [s' r] eqn:E. eapply dns_cancel_query_completed; eauto.
  - left. destruct (dns_poll cfg s now) as [[[s' txs] hang]| |] eqn:E; cbn [fst] in H; try assumption.
    unfold dns_poll in E. eapply dns_poll_go_completed; eauto.
  - destruct (dns_ingress cfg s src sp dp pkt) as [[s' acc]| |] eqn:E; cbn [fst] in H; auto.
    destruct (nth_error (ds_queries s) h) as [[[pq|a|]|]|] eqn:Hh.
    + right. destruct (dns_ingress_slot _ _ _ _ _ _ _ _ _ _ E Hh) as [A|[(A1 & A2 & A3) [[B C]|[B (st & C & D)]]]]; try congruence.
      rewrite D in H. assert (Est : st = QCompleted addrs) by congruence. rewrite Est in C.
      exists src, sp, dp, pkt, pq. split; [reflexivity|]. split; [reflexivity|].
      split; [exact A1|]. split; [exact A2|]. split; [exact A3|].
      apply dns_process_query_completed; [exact Hev|exact C].
    + left. rewrite (dns_ingress_other _ _ _ _ _ _ _ _ h E) in H; [congruence|]. intros pq; congruence.
    + left. rewrite (dns_ingress_other _ _ _ _ _ _ _ _ h E) in H; [congruence|]. intros pq; congruence.
    + left. rewrite (dns_ingress_other _ _ _ _ _ _ _ _ h E) in H; [congruence|]. intros pq; congruence.
    + left. rewrite (dns_ingress_other _ _ _ _ _ _ _ _ h E) in H; [congruence|]. intros pq; congruence.
Qed.

(* every history: completed_implies_match *)
Lemma dns_run_completed : forall cfg evs s h addrs,
  Forall ev_ok evs ->
  nth_error (ds_queries (dns_run cfg s evs)) h = Some (Some (QCompleted addrs)) ->
  nth_error (ds_queries s) h = Some (Some (QCompleted addrs)) \/
  exists evs1 src sp dp pkt evs2 pq,
    evs = evs1 ++ EvRsp src sp dp pkt :: evs2 /\
    nth_error (ds_queries (dns_run cfg s evs1)) h = Some (Some (QPending pq)) /\
    dns_response_matches cfg (dns_run cfg s evs1) pq src sp dp pkt addrs.
Proof.
  induction evs as [|ev evs IH]; intros s h addrs Hok H; cbn [dns_run] in H.
  { left; assumption. }
  inv Hok. destruct (IH _ _ _ H3 H) as [A|(evs1 & src & sp & dp & pkt & evs2 & pq & E1 & E2 & E3)].
  - destruct (dns_step_completed _ _ _ _ _ H2 A) as [B|(src & sp & dp & pkt & pq & B1 & B2 & B3)]; [left; assumption|].
    right. exists [], src, sp, dp, pkt, evs, pq. subst ev. split; [reflexivity|]. split; assumption.
  - right. exists (ev :: evs1), src, sp, dp, pkt, evs2, pq. subst evs. split; [reflexivity|]. split; assumption.
Qed.

Lemma dns_new_no_completed : forall cfg servers n owned h addrs,
  nth_error (ds_queries (dns_new cfg servers n owned)) h <> Some (Some (QCompleted addrs)).
Proof.
  intros. unfold dns_new. cbn [ds_queries]. intro H.
  apply nth_error_In in H. apply repeat_spec in H. discriminate.
Qed.

(* ====================================================================================== *)
(* Part E: dispatch, the egress loop, poll_at, and the time bound                         *)
(* ====================================================================================== *)

Definition dq_state (r : dns_dq_res) : dns_qstate :=
  match r with DqContinue st | DqEmit st _ | DqEmitErr st => st end.

(* the servers a query is sent to: the two mDNS groups for a .local name, else the configured list *)
Definition dns_eff_servers (servers : list (list Z)) (pq : dns_pending) : list (list Z) :=
  if pq_mdns pq then [dns_MDNS_IPV6_ADDR; dns_MDNS_IPV4_ADDR] else servers.

(* the timer fields after the "Check timeout" step of dispatch *)
Definition dns_pq2 (now : Z) (pq : dns_pending) : dns_pending :=
  let timeout := match pq_timeout_at pq with Some t => t | None => now + dns_RETRANSMIT_TIMEOUT end in
  if timeout <=? now
  then dns_pq_with_timers pq (Some (now + dns_RETRANSMIT_TIMEOUT)) 0 dns_RETRANSMIT_DELAY (pq_server_idx pq + 1)
  else dns_pq_with_timers pq (Some timeout) (pq_retransmit_at pq) (pq_delay pq) (pq_server_idx pq).

(* ... and after a transmission: retransmit_at = now + delay, delay doubled up to the cap *)
Definition dns_pq_sent (now : Z) (pq2 : dns_pending) : dns_pending :=
  dns_pq_with_timers pq2 (pq_timeout_at pq2) (now + pq_delay pq2)
                     (Z.min dns_MAX_RETRANSMIT_DELAY (pq_delay pq2 * 2)) (pq_server_idx pq2).

Definition cfg_ok (cfg : dns_cfg) : Prop := 0 <= c_max_name cfg /\ c_max_name cfg + 16 <= 512.

Lemma dns_consts_pos :
  0 < dns_RETRANSMIT_DELAY /\ dns_RETRANSMIT_DELAY <= dns_MAX_RETRANSMIT_DELAY /\ 0 < dns_RETRANSMIT_TIMEOUT.
Proof. unfold dns_RETRANSMIT_DELAY, dns_MAX_RETRANSMIT_DELAY, dns_RETRANSMIT_TIMEOUT. lia. Qed.

Lemma pq_ok_pq2 : forall cfg now pq, pq_ok cfg pq -> pq_ok cfg (dns_pq2 now pq).
Proof.
  intros cfg now pq (A & B & C & D). pose proof dns_consts_pos as (P1 & P2 & P3).
  unfold dns_pq2. destruct (_ <=? now); unfold pq_ok, dns_pq_with_timers; cbn; repeat split; auto; lia.
Qed.

Lemma pq_ok_sent : forall cfg now pq, pq_ok cfg pq -> pq_ok cfg (dns_pq_sent now pq).
Proof.
  intros cfg now pq (A & B & C & D). pose proof dns_consts_pos as (P1 & P2 & P3).
  unfold dns_pq_sent, pq_ok, dns_pq_with_timers; cbn; repeat split; auto; lia.
Qed.

(* dispatch for one pending query: total, and one of four outcomes *)
Lemma dns_dispatch_query_spec : forall cfg servers now pq,
  cfg_ok cfg -> pq_ok cfg pq ->
  let pq2 := dns_pq2 now pq in
  let srv := dns_eff_servers servers pq in
  exists r, dns_dispatch_query cfg servers now true pq = Ok r /\
    ( (r = DqContinue QFailure /\
       (Z.of_nat (length srv) <= pq_server_idx pq2 \/
        exists dst, nth_error srv (Z.to_nat (pq_server_idx pq2)) = Some dst /\
                    (dns_is_unspecified dst = true \/
                     (pq_retransmit_at pq2 <= now /\ dns_get_source_address cfg dst = false))))
   \/ (r = DqContinue (QPending pq2) /\ pq_server_idx pq2 < Z.of_nat (length srv) /\ now < pq_retransmit_at pq2 /\
       exists dst, nth_error srv (Z.to_nat (pq_server_idx pq2)) = Some dst /\ dns_is_unspecified dst = false)
   \/ (exists tx dst, r = DqEmit (QPending (dns_pq_sent now pq2)) tx /\
         pq_server_idx pq2 < Z.of_nat (length srv) /\ pq_retransmit_at pq2 <= now /\
         nth_error srv (Z.to_nat (pq_server_idx pq2)) = Some dst /\ dns_is_unspecified dst = false /\
         tx_dst_addr tx = dst /\ tx_src_port tx = pq_port pq /\
         tx_dst_port tx = (if pq_mdns pq then dns_MDNS_DNS_PORT else dns_DNS_PORT)) ).
Proof.
  intros cfg servers now pq (Hc1 & Hc2) Hq pq2 srv.
  pose proof (pq_ok_pq2 cfg now pq Hq) as Hq2. fold pq2 in Hq2.
  unfold dns_dispatch_query.
  change (if pq_mdns pq then [dns_MDNS_IPV6_ADDR; dns_MDNS_IPV4_ADDR] else servers) with srv.
  set (timeout := match pq_timeout_at pq with Some t => t | None => now + dns_RETRANSMIT_TIMEOUT end).
  assert (E2 : (if timeout <=? now
        then dns_pq_with_timers (dns_pq_with_timers pq (Some timeout) (pq_retransmit_at pq) (pq_delay pq) (pq_server_idx pq))
               (Some (now + dns_RETRANSMIT_TIMEOUT)) 0 dns_RETRANSMIT_DELAY
               (pq_server_idx (dns_pq_with_timers pq (Some timeout) (pq_retransmit_at pq) (pq_delay pq) (pq_server_idx pq)) + 1)
        else dns_pq_with_timers pq (Some timeout) (pq_retransmit_at pq) (pq_delay pq) (pq_server_idx pq)) = pq2).
  { unfold pq2, dns_pq2. fold timeout. destruct (timeout <=? now); reflexivity. }
  rewrite E2. clear E2.
  destruct (Z.of_nat (length srv) <=? pq_server_idx pq2) eqn:Ei.
  { eexists; split; [reflexivity|]. left. split; [reflexivity|]. left. lia. }
  apply Z.leb_gt in Ei.
  destruct Hq2 as (N1 & N2 & N3 & N4).
  destruct (nth_error srv (Z.to_nat (pq_server_idx pq2))) as [dst|] eqn:En.
  2:{ exfalso. apply nth_error_None in En. lia. }
  destruct (dns_is_unspecified dst) eqn:Eu.
  { eexists; split; [reflexivity|]. left. split; [reflexivity|]. right. exists dst. auto. }
  destruct (now <? pq_retransmit_at pq2) eqn:Er.
  { eexists; split; [reflexivity|]. right. left. split; [reflexivity|]. split; [lia|]. split; [lia|]. exists dst. auto. }
  apply Z.ltb_ge in Er.
  set (repr := mkRepr (pq_txid pq2) wdns_OPCODE_QUERY wdns_FLAG_RECURSION_DESIRED (mkQuestion (pq_name pq2) (pq_type pq2))).
  assert (Hbl : wdns_repr_buffer_len repr = 12 + wdns_len (pq_name pq2) + 4).
  { unfold wdns_repr_buffer_len, wdns_question_buffer_len, repr, wdns_f_HEADER_END. cbn. lia. }
  pose proof (wdns_len_nonneg (pq_name pq2)).
  destruct (wdns_slice_ok (repeat 0 512%nat) 0 (wdns_repr_buffer_len repr)) as [buf Eb]; try lia.
  { unfold wdns_len. rewrite repeat_length. lia. }
  rewrite Eb. cbn [obind].
  pose proof (wdns_slice_inv _ _ _ _ Eb) as (_ & _ & _ & _ & Lb).
  destruct (wdns_repr_emit_ok repr buf) as [payload Ep]; [lia|]. rewrite Ep. cbn [obind].
  destruct (dns_get_source_address cfg dst) eqn:Es; cbn [negb].
  2:{ eexists; split; [reflexivity|]. left. split; [reflexivity|]. right. exists dst. auto. }
  eexists; split; [reflexivity|]. right. right. eexists; exists dst. split; [reflexivity|].
  repeat split; auto.
  - unfold pq2, dns_pq2. destruct (_ <=? now); reflexivity.
  - cbn [tx_dst_port]. unfold pq2, dns_pq2. destruct (_ <=? now); reflexivity.
Qed.

Lemma dns_dispatch_query_state_ok : forall cfg servers now pq r,
  cfg_ok cfg -> pq_ok cfg pq -> dns_dispatch_query cfg servers now true pq = Ok r ->
  slot_ok cfg (Some (dq_state r)).
Proof.
  intros cfg servers now pq r Hc Hq H.
  destruct (dns_dispatch_query_spec cfg servers now pq Hc Hq) as (r' & E & C). rewrite E in H. inv H.
  destruct C as [[-> _]|[[-> _]|(tx & dst & -> & _)]]; cbn; auto.
  - apply pq_ok_pq2; assumption.
  - apply pq_ok_sent. apply pq_ok_pq2; assumption.
Qed.

(* a query that has just been dispatched at [now] is left alone by a second dispatch at [now] *)
Lemma dns_dispatch_query_stable : forall cfg servers now pq r pq',
  cfg_ok cfg -> pq_ok cfg pq -> dns_dispatch_query cfg servers now true pq = Ok r ->
  dq_state r = QPending pq' ->
  dns_dispatch_query cfg servers now true pq' = Ok (DqContinue (QPending pq')).
Proof.
  intros cfg servers now pq r pq' Hc Hq H Hst.
  pose proof dns_consts_pos as (P1 & P2 & P3).
  destruct (dns_dispatch_query_spec cfg servers now pq Hc Hq) as (r' & E & C). rewrite E in H. inv H.
  pose proof (pq_ok_pq2 cfg now pq Hq) as Hq2.
  assert (HT : exists T, pq_timeout_at (dns_pq2 now pq) = Some T /\ now < T).
  { unfold dns_pq2. destruct (_ <=? now) eqn:Et; cbn; eexists; split; try reflexivity; lia. }
  destruct HT as (T & HT1 & HT2).
  assert (Main : forall p dst, pq_ok cfg p -> pq_timeout_at p = Some T -> now < pq_retransmit_at p ->
            pq_mdns p = pq_mdns pq -> pq_server_idx p = pq_server_idx (dns_pq2 now pq) ->
            pq_server_idx (dns_pq2 now pq) < Z.of_nat (length (dns_eff_servers servers pq)) ->
            nth_error (dns_eff_servers servers pq) (Z.to_nat (pq_server_idx (dns_pq2 now pq))) = Some dst ->
            dns_is_unspecified dst = false ->
            dns_dispatch_query cfg servers now true p = Ok (DqContinue (QPending p))).
  { intros p dst Hp Tp Rp Mp Ip Il Hd Hu.
    assert (Fix : dns_pq2 now p = p).
    { unfold dns_pq2. rewrite Tp. replace (T <=? now) with false by (symmetry; apply Z.leb_gt; lia).
      destruct p; cbn in *. subst. reflexivity. }
    destruct (dns_dispatch_query_spec cfg servers now p Hc Hp) as (r2 & E2 & C2). rewrite E2. f_equal.
    assert (Es : dns_eff_servers servers p = dns_eff_servers servers pq) by (unfold dns_eff_servers; rewrite Mp; reflexivity).
    rewrite Fix, Es, Ip in C2.
    destruct C2 as [[-> C2]|[[-> _]|(tx & dst2 & _ & _ & C2 & _)]]; try reflexivity; try lia.
    destruct C2 as [C2|(dst2 & C2 & [C3|[C3 _]])]; try lia.
    rewrite Hd in C2. inv C2. congruence. }
  assert (Mdns2 : pq_mdns (dns_pq2 now pq) = pq_mdns pq) by (unfold dns_pq2; destruct (_ <=? now); reflexivity).
  destruct C as [[-> _]|[[-> (C1 & C2 & dst & C3 & C4)]|(tx & dst & -> & C1 & C2 & C3 & C4 & _)]]; cbn in Hst; inv Hst.
  - eapply Main; eauto.
  - destruct Hq2 as (N1 & N2 & N3 & N4).
    eapply Main; eauto.
    + apply pq_ok_sent. exact (conj N1 (conj N2 (conj N3 N4))).
    + cbn. lia.
Qed.

(* --- the egress loop of Interface::poll = every pending query dispatched exactly once --- *)
Definition dns_done_slot (cfg : dns_cfg) (servers : list (list Z)) (now : Z) (o : option dns_qstate)
  : option dns_qstate :=
  match o with
  | Some (QPending pq) =>
    match dns_dispatch_query cfg servers now true pq with
    | Ok r => Some (dq_state r)
    | _ => o
    end
  | _ => o
  end.

Lemma dns_done_slot_ok : forall cfg servers now o,
  cfg_ok cfg -> slot_ok cfg o -> slot_ok cfg (dns_done_slot cfg servers now o).
Proof.
  intros cfg servers now o Hc Ho. destruct o as [[pq|a|]|]; cbn; auto.
  destruct (dns_dispatch_query cfg servers now true pq) as [r| |] eqn:E; auto.
  eapply dns_dispatch_query_state_ok; eauto.
Qed.

(* one pass over slots that have not been dispatched at [now] yet *)
Lemma dns_dispatch_slots_fresh : forall cfg servers now qs,
  cfg_ok cfg -> Forall (slot_ok cfg) qs ->
  exists qs' res, dns_dispatch_slots cfg servers now true qs = Ok (qs', res) /\
    ((res = DrNone /\ qs' = map (dns_done_slot cfg servers now) qs) \/
     (exists tx a b, res = DrEmit tx /\ qs = a ++ b /\ a <> [] /\
                     qs' = map (dns_done_slot cfg servers now) a ++ b)).
Proof.
  induction qs as [|q rest IH]; intros Hc Hq; cbn [dns_dispatch_slots].
  { do 2 eexists; split; [reflexivity|]. left; auto. }
  inv Hq. destruct (IH Hc H2) as (rest' & res & Er & Cr).
  assert (Skip : dns_done_slot cfg servers now q = q ->
          exists qs' res0, (do '(rest'0, res1) <- dns_dispatch_slots cfg servers now true rest; Ok (q :: rest'0, res1)) = Ok (qs', res0) /\
            ((res0 = DrNone /\ qs' = map (dns_done_slot cfg servers now) (q :: rest)) \/
             (exists tx a b, res0 = DrEmit tx /\ q :: rest = a ++ b /\ a <> [] /\
                             qs' = map (dns_done_slot cfg servers now) a ++ b))).
  { intros Eq. rewrite Er. cbn [obind]. do 2 eexists; split; [reflexivity|].
    destruct Cr as [[-> ->]|(tx & a & b & -> & -> & Ha & ->)].
    - left. split; [reflexivity|]. cbn [map]. rewrite Eq. reflexivity.
    - right. exists tx, (q :: a), b. repeat split; try discriminate. cbn [map app]. rewrite Eq. reflexivity. }
  destruct q as [[pq|addrs|]|]; try (apply Skip; reflexivity).
  destruct (dns_dispatch_query_spec cfg servers now pq Hc H1) as (r & E & C). rewrite E. cbn [obind].
  assert (Ed : dns_done_slot cfg servers now (Some (QPending pq)) = Some (dq_state r)) by (cbn; rewrite E; reflexivity).
  destruct C as [[-> _]|[[-> _]|(tx & dst & -> & _)]].
  - rewrite Er. cbn [obind]. do 2 eexists; split; [reflexivity|].
    destruct Cr as [[-> ->]|(tx & a & b & -> & -> & Ha & ->)].
    + left. split; [reflexivity|]. cbn [map]. rewrite Ed. reflexivity.
    + right. exists tx, (Some (QPending pq) :: a), b. repeat split; try discriminate. cbn [map app]. rewrite Ed. reflexivity.
  - rewrite Er. cbn [obind]. do 2 eexists; split; [reflexivity|].
    destruct Cr as [[-> ->]|(tx & a & b & -> & -> & Ha & ->)].
    + left. split; [reflexivity|]. cbn [map]. rewrite Ed. reflexivity.
    + right. exists tx, (Some (QPending pq) :: a), b. repeat split; try discriminate. cbn [map app]. rewrite Ed. reflexivity.
  - do 2 eexists; split; [reflexivity|]. right. exists tx, [Some (QPending pq)], rest.
    repeat split; try discriminate. cbn [map app]. rewrite Ed. reflexivity.
Qed.

(* slots already dispatched at [now] are passed over unchanged *)
Lemma dns_dispatch_slots_done_prefix : forall cfg servers now pre rest,
  cfg_ok cfg -> Forall (slot_ok cfg) pre ->
  dns_dispatch_slots cfg servers now true (map (dns_done_slot cfg servers now) pre ++ rest) =
  (do '(rest', res) <- dns_dispatch_slots cfg servers now true rest;
   Ok (map (dns_done_slot cfg servers now) pre ++ rest', res)).
Proof.
  induction pre as [|q pre IH]; intros rest Hc Hp; cbn [map app].
  { destruct (dns_dispatch_slots cfg servers now true rest) as [[a b]| |]; reflexivity. }
  inv Hp. specialize (IH rest Hc H2).
  assert (Skip : forall o, (forall pq, o <> Some (QPending pq)) ->
     dns_dispatch_slots cfg servers now true (o :: map (dns_done_slot cfg servers now) pre ++ rest) =
     (do '(rest', res) <- dns_dispatch_slots cfg servers now true rest;
      Ok (o :: map (dns_done_slot cfg servers now) pre ++ rest', res))).
  { intros o Ho. cbn [dns_dispatch_slots]. rewrite IH.
    destruct o as [[pq|a|]|]; try (exfalso; eapply Ho; reflexivity);
      destruct (dns_dispatch_slots cfg servers now true rest) as [[a' b']| |]; reflexivity. }
  destruct q as [[pq|addrs|]|]; try (apply Skip; intros; discriminate).
  cbn [dns_done_slot].
  destruct (dns_dispatch_query_spec cfg servers now pq Hc H1) as (r & E & _). rewrite E.
  destruct (dq_state r) as [pq'|a|] eqn:Es; try (apply Skip; intros; discriminate).
  cbn [dns_dispatch_slots]. rewrite (dns_dispatch_query_stable _ _ _ _ _ _ Hc H1 E Es). cbn [obind].
  rewrite IH. destruct (dns_dispatch_slots cfg servers now true rest) as [[a' b']| |]; reflexivity.
Qed.

Lemma dns_poll_go_spec : forall cfg fuel servers owned hop now pre rest acc,
  cfg_ok cfg -> Forall (slot_ok cfg) pre -> Forall (slot_ok cfg) rest ->
  (length rest < fuel)%nat ->
  exists txs,
    dns_poll_go cfg fuel (mkSock servers (map (dns_done_slot cfg servers now) pre ++ rest) owned hop) now acc =
    Ok (mkSock servers (map (dns_done_slot cfg servers now) (pre ++ rest)) owned hop, txs, false).
Proof.
  induction fuel as [|fuel IH]; intros servers owned hop now pre rest acc Hc Hp Hr Hf; [lia|].
  cbn [dns_poll_go]. unfold dns_dispatch. cbn [ds_servers ds_queries ds_owned ds_hop_limit].
  rewrite dns_dispatch_slots_done_prefix by assumption.
  destruct (dns_dispatch_slots_fresh cfg servers now rest Hc Hr) as (rest' & res & E & C).
  rewrite E. cbn [obind].
  destruct C as [[-> ->]|(tx & a & b & -> & -> & Ha & ->)].
  - eexists. rewrite map_app. reflexivity.
  - apply Forall_app in Hr. destruct Hr as [Hra Hrb].
    rewrite app_assoc. rewrite <- map_app.
    destruct (IH servers owned hop now (pre ++ a) b (acc ++ [tx]) Hc) as (txs & Et); auto.
    { apply Forall_app; split; assumption. }
    { rewrite app_length in Hf. destruct a; [congruence|]. simpl in Hf. lia. }
    rewrite Et. rewrite <- app_assoc. eauto.
Qed.

(* Interface::poll for the DNS socket: terminates within the fuel (no HANG), and every slot ends
   up exactly as one call of the per-query dispatch leaves it *)
Lemma dns_poll_spec : forall cfg s now,
  cfg_ok cfg -> sock_ok cfg s ->
  exists txs,
    dns_poll cfg s now =
    Ok (mkSock (ds_servers s) (map (dns_done_slot cfg (ds_servers s) now) (ds_queries s)) (ds_owned s) (ds_hop_limit s), txs, false).
Proof.
  intros cfg s now Hc Hs. unfold dns_poll.
  destruct (dns_poll_go_spec cfg (S (length (ds_queries s))) (ds_servers s) (ds_owned s) (ds_hop_limit s) now [] (ds_queries s) [] Hc)
    as (txs & E); auto.
  destruct s; cbn in *. eauto.
Qed.

Lemma dns_poll_sock_ok : forall cfg s now s' txs hang,
  cfg_ok cfg -> sock_ok cfg s -> dns_poll cfg s now = Ok (s', txs, hang) ->
  sock_ok cfg s' /\ hang = false /\ ds_servers s' = ds_servers s /\
  ds_queries s' = map (dns_done_slot cfg (ds_servers s) now) (ds_queries s).
Proof.
  intros cfg s now s' txs hang Hc Hs H.
  destruct (dns_poll_spec cfg s now Hc Hs) as (txs' & E). rewrite E in H. inv H.
  repeat split; auto. unfold sock_ok. cbn [ds_queries].
  apply Forall_forall. intros o Ho. apply in_map_iff in Ho. destruct Ho as (o' & <- & Ho').
  apply dns_done_slot_ok; auto. unfold sock_ok in Hs. rewrite Forall_forall in Hs. auto.
Qed.

(* --- the invariant is kept by every event --- *)
Lemma Forall_set_nth : forall A (P : A -> Prop) l i x, Forall P l -> P x -> Forall P (dns_set_nth l i x).
Proof.
  induction l as [|y l IH]; intros i x Hl Hx; destruct i; simpl; auto; inv Hl; constructor; auto.
Qed.

Lemma Forall_removelast : forall A (P : A -> Prop) l, Forall P l -> Forall P (removelast l).
Proof.
  induction l as [|x l IH]; intros H; simpl; auto. inv H. destruct l; [constructor|]. constructor; auto.
Qed.

Lemma dns_split_dot_bytes : forall s, Forall wdns_is_byte s -> Forall (Forall wdns_is_byte) (dns_split_dot s).
Proof.
  induction s as [|c r IH]; intros H; cbn [dns_split_dot].
  { repeat constructor. }
  inv H. specialize (IH H3). destruct (c =? 46); [constructor; auto|].
  destruct (dns_split_dot r) as [|seg t]; [constructor; [constructor; [assumption|constructor]|constructor]|].
  inv IH. constructor; auto.
Qed.

Lemma dns_encode_labels_bytes : forall cap segs raw r,
  Forall (Forall wdns_is_byte) segs -> Forall wdns_is_byte raw ->
  dns_encode_labels cap segs raw = Ok r -> Forall wdns_is_byte r.
Proof.
  induction segs as [|sg segs IH]; intros raw r Hs Hr H; cbn [dns_encode_labels] in H.
  { inv H. assumption. }
  assert (H1 : Forall wdns_is_byte sg) by (inv Hs; assumption).
  assert (Hsegs : Forall (Forall wdns_is_byte) segs) by (inv Hs; assumption).
  destruct (wdns_len sg >? 63) eqn:E63; [discriminate|]. destruct (wdns_len sg =? 0); [discriminate|].
  destruct (dns_vec_push cap raw (wdns_len sg)) as [raw1|] eqn:E1; [|discriminate].
  destruct (dns_vec_extend cap raw1 sg) as [raw2|] eqn:E2; [|discriminate].
  assert (B : wdns_is_byte (wdns_len sg)) by (pose proof (wdns_len_nonneg sg); unfold wdns_is_byte; lia).
  destruct (dns_vec_push_ok _ _ _ _ E1 Hr B) as [A1 _].
  destruct (dns_vec_extend_ok _ _ _ _ E2 A1 H1) as [A2 _].
  eapply IH; eauto.
Qed.

Lemma dns_start_query_raw_ok : forall cfg s raw t m txid port s' r,
  sock_ok cfg s -> Forall wdns_is_byte raw ->
  dns_start_query_raw cfg s raw t m txid port = (s', r) ->
  sock_ok cfg s' /\ ds_servers s' = ds_servers s.
Proof.
  intros cfg s raw t m txid port s' r Hs Hr H. pose proof dns_consts_pos as (P1 & P2 & P3).
  unfold dns_start_query_raw, dns_find_free_query in H.
  assert (New : wdns_len raw >? c_max_name cfg = false ->
                slot_ok cfg (Some (QPending (mkPending raw t port txid None 0 dns_RETRANSMIT_DELAY 0 m)))).
  { intros E. cbn. unfold pq_ok. cbn. repeat split; auto; lia. }
  assert (App : Forall (slot_ok cfg) (ds_queries s ++ [None])).
  { apply Forall_app. split; [exact Hs|]. repeat constructor. }
  destruct (dns_find_none (ds_queries s) 0) as [i|].
  - destruct (wdns_len raw >? c_max_name cfg) eqn:E; inv H; [auto|].
    split; [|reflexivity]. apply Forall_set_nth; auto.
  - destruct (ds_owned s).
    + destruct (wdns_len raw >? c_max_name cfg) eqn:E; inv H; (split; [|reflexivity]); unfold sock_ok; cbn; auto.
      apply Forall_set_nth; auto.
    + inv H. auto.
Qed.

Lemma dns_step_sock_ok : forall cfg s ev,
  cfg_ok cfg -> sock_ok cfg s -> ev_ok ev ->
  sock_ok cfg (fst (dns_step cfg s ev)) /\
  ds_servers (fst (dns_step cfg s ev)) =
  match ev with EvServers l => dns_truncate_servers cfg l | _ => ds_servers s end.
Proof.
  intros cfg s ev Hc Hs Hev. destruct ev as [name t txid port|raw t m txid port|i|i|now|src sp dp pkt|l|hl]; cbn [dns_step];
    [| | | | | |split; [exact Hs|reflexivity]
     |unfold dns_set_hop_limit; destruct hl as [v|]; [destruct (v =? 0)|]; cbn; (split; [exact Hs|reflexivity])].
  - destruct (dns_start_query cfg s name t txid port) as [s' r] eqn:E. cbn [fst].
    unfold dns_start_query in E. destruct name as [|c name]; [inv E; auto|].
    set (nm := if last (c :: name) 0 =? 46 then removelast (c :: name) else c :: name) in E.
    assert (Hn : Forall wdns_is_byte nm) by (unfold nm; destruct (_ =? 46); [apply Forall_removelast|]; exact Hev).
    destruct (dns_encode_labels (c_max_name cfg) (dns_split_dot nm) []) as [raw|e|] eqn:El; try (inv E; auto; fail).
    destruct (dns_vec_push (c_max_name cfg) raw 0) as [raw_name|] eqn:Ep; [|inv E; auto].
    eapply dns_start_query_raw_ok; [exact Hs| |exact E].
    assert (Hraw : Forall wdns_is_byte raw).
    { eapply dns_encode_labels_bytes; [apply dns_split_dot_bytes; exact Hn|constructor|exact El]. }
    eapply dns_vec_push_ok; [exact Ep|exact Hraw|unfold wdns_is_byte; lia].
  - destruct (dns_start_query_raw cfg s raw t m txid port) as [s' r] eqn:E. cbn [fst].
    eapply dns_start_query_raw_ok; eauto.
  - destruct (dns_get_query_result s i) as [s' r] eqn:E. cbn [fst]. unfold dns_get_query_result in E.
    destruct (nth_error (ds_queries s) i) as [[[pq|a|]|]|]; inv E; auto;
      (split; [|reflexivity]); apply Forall_set_nth; cbn; auto.
  - destruct (dns_cancel_query s i) as [s' r] eqn:E. cbn [fst]. unfold dns_cancel_query in E.
    destruct (nth_error (ds_queries s) i) as [[q|]|]; inv E; auto;
      (split; [|reflexivity]); apply Forall_set_nth; cbn; auto.
  - destruct (dns_poll_spec cfg s now Hc Hs) as (txs & E).
    destruct (dns_poll_sock_ok _ _ _ _ _ _ Hc Hs E) as (A & _ & B & _). rewrite E. cbn [fst]. auto.
  - destruct Hc as [Hc1 Hc2].
    destruct (dns_ingress_total cfg s src sp dp pkt Hc1 Hs Hev) as (s' & acc & E & A). rewrite E. cbn [fst].
    split; [assumption|]. unfold dns_ingress in E. destruct (dns_accepts s src sp); [|inv E; reflexivity].
    destruct (dns_process_total cfg s dp pkt Hc1 Hs Hev) as (s1 & E1 & _ & B & _). rewrite E1 in E. cbn [obind] in E. inv E. exact B.
Qed.

(* --- poll_at --- *)
Lemma dns_poll_at_slots_le : forall qs acc,
  (forall a, acc = Some a -> exists d, dns_poll_at_slots qs acc = Some d /\ d <= a) /\
  (forall pq, In (Some (QPending pq)) qs -> exists d, dns_poll_at_slots qs acc = Some d /\ d <= dns_pq_deadline pq).
Proof.
  induction qs as [|q rest IH]; intros acc; cbn [dns_poll_at_slots].
  { split; [intros a ->; exists a; split; [reflexivity|lia]|intros pq []]. }
  destruct q as [[pq0|a0|]|]; try (destruct (IH acc) as [I1 I2]; split; [exact I1|];
    intros pq [Hin|Hin]; [discriminate|auto]).
  destruct (IH (dns_opt_min acc (dns_pq_deadline pq0))) as [I1 I2]. split.
  - intros a ->. cbn [dns_opt_min]. destruct (I1 _ eq_refl) as (d & A & B). exists d. split; [assumption|lia].
  - intros pq [Hin|Hin]; [|auto]. inv Hin.
    destruct acc as [a|]; cbn [dns_opt_min]; destruct (I1 _ eq_refl) as (d & A & B); exists d; (split; [assumption|lia]).
Qed.

(* while a query is pending, poll_at reports a deadline no later than its own *)
Lemma dns_poll_at_le_deadline : forall s h pq,
  nth_error (ds_queries s) h = Some (Some (QPending pq)) ->
  exists d, dns_poll_at s = Some d /\ d <= dns_pq_deadline pq.
Proof.
  intros s h pq H. unfold dns_poll_at. apply (dns_poll_at_slots_le (ds_queries s) None).
  eapply nth_error_In; eauto.
Qed.

Lemma dns_poll_at_slots_gt : forall now qs acc d,
  (forall a, acc = Some a -> now < a) ->
  (forall pq, In (Some (QPending pq)) qs -> now < dns_pq_deadline pq) ->
  dns_poll_at_slots qs acc = Some d -> now < d.
Proof.
  induction qs as [|q rest IH]; intros acc d Ha Hq H; cbn [dns_poll_at_slots] in H.
  { auto. }
  destruct q as [[pq0|a0|]|]; try (eapply IH; [exact Ha| |exact H]; intros; apply Hq; right; assumption).
  eapply IH; [| |exact H].
  - intros a Ea. assert (now < dns_pq_deadline pq0) by (apply Hq; left; reflexivity).
    destruct acc as [x|]; cbn in Ea; inv Ea; [specialize (Ha x eq_refl)|]; lia.
  - intros; apply Hq; right; assumption.
Qed.

(* after a dispatch at [now] every deadline of the query lies strictly after [now] *)
Lemma dns_done_slot_deadline : forall cfg servers now o pq',
  cfg_ok cfg -> slot_ok cfg o ->
  dns_done_slot cfg servers now o = Some (QPending pq') -> now < dns_pq_deadline pq'.
Proof.
  intros cfg servers now o pq' Hc Ho H. pose proof dns_consts_pos as (P1 & P2 & P3).
  destruct o as [[pq|a|]|]; cbn in H; try discriminate.
  destruct (dns_dispatch_query_spec cfg servers now pq Hc Ho) as (r & E & C). rewrite E in H. inv H.
  pose proof (pq_ok_pq2 cfg now pq Ho) as (_ & _ & N3 & _).
  assert (HT : exists T, pq_timeout_at (dns_pq2 now pq) = Some T /\ now < T).
  { unfold dns_pq2. destruct (_ <=? now) eqn:Et; cbn; eexists; split; try reflexivity; lia. }
  destruct HT as (T & HT1 & HT2).
  destruct C as [[-> _]|[[-> (C1 & C2 & _)]|(tx & dst & -> & _)]]; cbn in H1; inv H1.
  - unfold dns_pq_deadline. rewrite HT1. lia.
  - unfold dns_pq_deadline, dns_pq_sent. cbn. rewrite HT1. lia.
Qed.

(* no spinning: after a poll at [now] the reported deadline, if any, is strictly later *)
Lemma dns_poll_no_spin : forall cfg s now s' txs hang d,
  cfg_ok cfg -> sock_ok cfg s -> dns_poll cfg s now = Ok (s', txs, hang) ->
  dns_poll_at s' = Some d -> now < d.
Proof.
  intros cfg s now s' txs hang d Hc Hs H Hd.
  destruct (dns_poll_sock_ok _ _ _ _ _ _ Hc Hs H) as (_ & _ & _ & Eq).
  unfold dns_poll_at in Hd. rewrite Eq in Hd.
  eapply dns_poll_at_slots_gt; [| |exact Hd]; [intros; discriminate|].
  intros pq Hin. apply in_map_iff in Hin. destruct Hin as (o & Ho & Hin).
  eapply dns_done_slot_deadline; [exact Hc| |exact Ho].
  unfold sock_ok in Hs. rewrite Forall_forall in Hs. auto.
Qed.

(* --- query_terminates --- *)

(* events that do not answer the query in slot h: datagrams to another port or with another id,
   and no get/cancel of that slot (a result taken from the slot frees it for reuse).
   update_servers and set_hop_limit are allowed at any point. *)
Definition ev_quiet (h : nat) (port txid : Z) (ev : dns_event) : Prop :=
  match ev with
  | EvRsp _ _ dp pkt => dp <> port \/ wdns_transaction_id pkt <> Ok txid
  | EvGet i => i <> h
  | EvCancel i => i <> h
  | _ => True
  end.

(* "polled according to poll_at": time does not go backwards, and a poll is never later than the
   deadline poll_at reported after the previous event (when that deadline is already in the past
   the poll may only happen "now", i.e. at the time of the previous poll) *)
Fixpoint dns_sched (cfg : dns_cfg) (h : nat) (port txid : Z) (s : dns_sock) (now : Z) (evs : list dns_event) : Prop :=
  match evs with
  | [] => True
  | ev :: evs' =>
    ev_ok ev /\ ev_quiet h port txid ev /\
    match ev with
    | EvPoll t => now <= t /\ (forall d, dns_poll_at s = Some d -> t <= Z.max d now)
    | _ => True
    end /\
    dns_sched cfg h port txid (fst (dns_step cfg s ev)) (match ev with EvPoll t => t | _ => now end) evs'
  end.

(* time of the first poll (if any so far) and of the last one *)
Fixpoint dns_ghost (t0 : option Z) (now : Z) (evs : list dns_event) : option Z * Z :=
  match evs with
  | [] => (t0, now)
  | EvPoll t :: r => dns_ghost (match t0 with None => Some t | Some _ => t0 end) t r
  | _ :: r => dns_ghost t0 now r
  end.

(* number of servers the query may be sent to: the two mDNS groups, or the configured list *)
Definition dns_nsrv (mdns : bool) (servers : list (list Z)) : Z :=
  Z.of_nat (length (if mdns then [dns_MDNS_IPV6_ADDR; dns_MDNS_IPV4_ADDR] else servers)).

(* every server list installed by update_servers during the run has at most N entries *)
Definition dns_servers_le (cfg : dns_cfg) (mdns : bool) (N : Z) (ev : dns_event) : Prop :=
  match ev with
  | EvServers l => dns_nsrv mdns (dns_truncate_servers cfg l) <= N
  | _ => True
  end.

(* [N] bounds the length of every server list in force during the run; the server index of a
   pending query stays below it after every poll, whatever update_servers did in between *)
Definition slot_timer_inv (N port txid : Z) (mdns : bool) (t0 : option Z) (now : Z)
           (o : option (option dns_qstate)) : Prop :=
  o = Some (Some QFailure) \/
  exists pq, o = Some (Some (QPending pq)) /\ pq_port pq = port /\ pq_txid pq = txid /\ pq_mdns pq = mdns /\
    match t0 with
    | None => pq_timeout_at pq = None /\ pq_server_idx pq = 0
    | Some t0 => exists T, pq_timeout_at pq = Some T /\ now < T /\
                           T <= t0 + (pq_server_idx pq + 1) * dns_RETRANSMIT_TIMEOUT /\
                           0 <= pq_server_idx pq < N
    end.

Lemma dns_find_none_spec : forall qs k i, dns_find_none qs k = Some i -> (k <= i)%nat /\ nth_error qs (i - k) = Some None.
Proof.
  induction qs as [|q qs IH]; intros k i H; cbn in H; [discriminate|].
  destruct q as [q|].
  - destruct (IH _ _ H) as [A B]. split; [lia|]. replace (i - k)%nat with (S (i - S k)) by lia. exact B.
  - inv H. split; [lia|]. rewrite Nat.sub_diag. reflexivity.
Qed.

(* a used slot is not touched by starting another query *)
Lemma dns_start_query_raw_other : forall cfg s raw t m txid port s' r h x,
  dns_start_query_raw cfg s raw t m txid port = (s', r) ->
  nth_error (ds_queries s) h = Some (Some x) -> nth_error (ds_queries s') h = Some (Some x).
Proof.
  intros cfg s raw t m txid port s' r h x H Hh. unfold dns_start_query_raw, dns_find_free_query in H.
  assert (Hlt : (h < length (ds_queries s))%nat) by (apply nth_error_Some; congruence).
  destruct (dns_find_none (ds_queries s) 0) as [i|] eqn:Ef.
  - destruct (dns_find_none_spec _ _ _ Ef) as [_ Hi]. rewrite Nat.sub_0_r in Hi.
    destruct (wdns_len raw >? c_max_name cfg); inv H; [assumption|].
    cbn [dns_set_slot ds_queries]. rewrite nth_error_set_nth.
    destruct (Nat.eqb h i) eqn:E; [|assumption]. apply Nat.eqb_eq in E. subst. congruence.
  - destruct (ds_owned s); [|inv H; assumption].
    destruct (wdns_len raw >? c_max_name cfg); inv H; cbn [dns_set_slot ds_queries].
    + rewrite nth_error_app1; assumption.
    + rewrite nth_error_set_nth. destruct (Nat.eqb h (length (ds_queries s))) eqn:E.
      * apply Nat.eqb_eq in E. lia.
      * rewrite nth_error_app1; assumption.
Qed.

Lemma dns_start_query_other : forall cfg s name t txid port s' r h x,
  dns_start_query cfg s name t txid port = (s', r) ->
  nth_error (ds_queries s) h = Some (Some x) -> nth_error (ds_queries s') h = Some (Some x).
Proof.
  intros cfg s name t txid port s' r h x H Hh. unfold dns_start_query in H.
  destruct name as [|c name]; [inv H; assumption|].
  destruct (dns_encode_labels _ _ _); try (inv H; assumption).
  destruct (dns_vec_push _ _ _); [|inv H; assumption].
  eapply dns_start_query_raw_other; eauto.
Qed.

(* update_servers and set_hop_limit do not touch the query slots *)
Lemma dns_step_servers_hop_queries : forall cfg s ev,
  (match ev with EvServers _ | EvHop _ => True | _ => False end) ->
  ds_queries (fst (dns_step cfg s ev)) = ds_queries s.
Proof.
  intros cfg s ev H. destruct ev as [| | | | | |l|hl]; try contradiction; cbn [dns_step]; [reflexivity|].
  unfold dns_set_hop_limit. destruct hl as [v|]; [destruct (v =? 0)|]; reflexivity.
Qed.

(* a quiet non-poll event leaves a used slot h as it is *)
Lemma dns_step_quiet_unchanged : forall cfg s ev h x port txid,
  ev_quiet h port txid ev ->
  (match ev with EvPoll _ => False | _ => True end) ->
  nth_error (ds_queries s) h = Some (Some x) ->
  (forall pq, x = QPending pq -> pq_port pq = port /\ pq_txid pq = txid) ->
  (x = QFailure \/ exists pq, x = QPending pq) ->
  nth_error (ds_queries (fst (dns_step cfg s ev))) h = Some (Some x).
Proof.
  intros cfg s ev h x port txid Hq Hnp Hh Hpt Hx.
  destruct ev as [name t tx pt|raw t m tx pt|i|i|now|src sp dp pkt|l|hl];
    try (rewrite dns_step_servers_hop_queries; [exact Hh|exact I]);
    cbn [dns_step]; try contradiction.
  - destruct (dns_start_query cfg s name t tx pt) as [s' r] eqn:E. eapply dns_start_query_other; eauto.
  - destruct (dns_start_query_raw cfg s raw t m tx pt) as [s' r] eqn:E. eapply dns_start_query_raw_other; eauto.
  - cbn in Hq. destruct (dns_get_query_result s i) as [s' r] eqn:E. cbn [fst]. unfold dns_get_query_result in E.
    destruct (nth_error (ds_queries s) i) as [[[pq|a|]|]|]; inv E; auto;
      cbn [dns_set_slot ds_queries]; rewrite nth_error_set_nth;
      (destruct (Nat.eqb h i) eqn:E; [apply Nat.eqb_eq in E; congruence|assumption]).
  - cbn in Hq. destruct (dns_cancel_query s i) as [s' r] eqn:E. cbn [fst]. unfold dns_cancel_query in E.
    destruct (nth_error (ds_queries s) i) as [[q|]|]; inv E; auto;
      cbn [dns_set_slot ds_queries]; rewrite nth_error_set_nth;
      (destruct (Nat.eqb h i) eqn:E; [apply Nat.eqb_eq in E; congruence|assumption]).
  - cbn in Hq. destruct (dns_ingress cfg s src sp dp pkt) as [[s' acc]| |] eqn:E; cbn [fst]; auto.
    destruct Hx as [->|(pq & ->)].
    + rewrite (dns_ingress_other _ _ _ _ _ _ _ _ h E); [assumption|]. intros pq; congruence.
    + destruct (Hpt pq eq_refl) as [P1 P2].
      destruct (dns_ingress_slot _ _ _ _ _ _ _ _ _ _ E Hh) as [A|[(_ & A2 & A3) _]]; [assumption|].
      exfalso. destruct A3 as (_ & _ & _ & _ & A5). destruct Hq as [Hq|Hq]; [congruence|]. apply Hq. congruence.
Qed.

Lemma nth_error_map_some : forall A B (f : A -> B) l h x, nth_error l h = Some x -> nth_error (map f l) h = Some (f x).
Proof. intros. rewrite nth_error_map. rewrite H. reflexivity. Qed.

(* one poll keeps the timer invariant, for whatever server list (of at most N entries) is in force *)
Lemma dns_poll_timer_inv : forall cfg s t now t0 h port txid (mdns : bool) N,
  cfg_ok cfg -> sock_ok cfg s ->
  dns_nsrv mdns (ds_servers s) <= N ->
  slot_timer_inv N port txid mdns t0 now (nth_error (ds_queries s) h) ->
  now <= t -> (forall d, dns_poll_at s = Some d -> t <= Z.max d now) ->
  slot_timer_inv N port txid mdns (match t0 with None => Some t | Some _ => t0 end) t
                 (nth_error (ds_queries (fst (dns_step cfg s (EvPoll t)))) h).
Proof.
  intros cfg s t now t0 h port txid mdns N Hc Hs HN K Hnow Hsched.
  pose proof dns_consts_pos as (P1 & P2 & P3).
  cbn [dns_step]. destruct (dns_poll_spec cfg s t Hc Hs) as (txs & E). rewrite E. cbn [fst ds_queries].
  destruct K as [K|(pq & K1 & K2 & K3 & K4 & K5)].
  { left. rewrite (nth_error_map_some _ _ _ _ _ _ K). reflexivity. }
  rewrite (nth_error_map_some _ _ _ _ _ _ K1). cbn [dns_done_slot].
  assert (Hq : pq_ok cfg pq).
  { unfold sock_ok in Hs. rewrite Forall_forall in Hs. apply (Hs (Some (QPending pq))). eapply nth_error_In; eauto. }
  destruct (dns_dispatch_query_spec cfg (ds_servers s) t pq Hc Hq) as (r & Er & C). rewrite Er.
  assert (Esrv : Z.of_nat (length (dns_eff_servers (ds_servers s) pq)) = dns_nsrv mdns (ds_servers s)).
  { unfold dns_nsrv, dns_eff_servers. rewrite K4. reflexivity. }
  rewrite Esrv in C. set (n := dns_nsrv mdns (ds_servers s)) in *.
  (* the timer fields after the timeout check *)
  assert (P2inv : pq_server_idx (dns_pq2 t pq) < n ->
    exists T, pq_timeout_at (dns_pq2 t pq) = Some T /\ t < T /\
      T <= match t0 with None => t | Some t0 => t0 end + (pq_server_idx (dns_pq2 t pq) + 1) * dns_RETRANSMIT_TIMEOUT /\
      0 <= pq_server_idx (dns_pq2 t pq) < N).
  { intros Hidx. unfold dns_pq2 in *. destruct t0 as [t0|].
    - destruct K5 as (T & T1 & T2 & T3 & T4 & T5). rewrite T1 in *.
      assert (t <= T).
      { destruct (dns_poll_at_le_deadline s h pq K1) as (d & D1 & D2). specialize (Hsched d D1).
        unfold dns_pq_deadline in D2. rewrite T1 in D2. lia. }
      destruct (T <=? t) eqn:Et; cbn in *.
      + eexists; split; [reflexivity|]. split; [lia|]. split; [|lia].
        assert (T = t) by lia. subst. nia.
      + eexists; split; [reflexivity|]. split; [lia|]. split; [lia|lia].
    - destruct K5 as (T1 & T2). rewrite T1 in *.
      replace (t + dns_RETRANSMIT_TIMEOUT <=? t) with false in * by (symmetry; apply Z.leb_gt; lia).
      cbn in *. eexists; split; [reflexivity|]. split; [lia|]. rewrite T2 in *. split; lia. }
  assert (Same : pq_port (dns_pq2 t pq) = port /\ pq_txid (dns_pq2 t pq) = txid /\ pq_mdns (dns_pq2 t pq) = mdns).
  { unfold dns_pq2. destruct (_ <=? t); cbn; auto. }
  destruct Same as (S1 & S2 & S3).
  destruct C as [[-> _]|[[-> (C1 & C2 & _)]|(tx & dst & -> & C1 & _)]]; cbn [dq_state].
  - left; reflexivity.
  - right. exists (dns_pq2 t pq). split; [reflexivity|]. repeat split; auto.
    destruct (P2inv C1) as (T & A1 & A2 & A3 & A4). destruct t0; eexists; eauto.
  - right. exists (dns_pq_sent t (dns_pq2 t pq)). split; [reflexivity|]. repeat split; auto.
    destruct (P2inv C1) as (T & A1 & A2 & A3 & A4). unfold dns_pq_sent. cbn. destruct t0; eexists; eauto.
Qed.

(* the invariant along a whole schedule, with update_servers / set_hop_limit interleaved *)
Lemma dns_sched_timer_inv : forall cfg h port txid (mdns : bool) N evs s now t0,
  cfg_ok cfg -> sock_ok cfg s ->
  dns_nsrv mdns (ds_servers s) <= N ->
  Forall (dns_servers_le cfg mdns N) evs ->
  slot_timer_inv N port txid mdns t0 now (nth_error (ds_queries s) h) ->
  dns_sched cfg h port txid s now evs ->
  slot_timer_inv N port txid mdns (fst (dns_ghost t0 now evs)) (snd (dns_ghost t0 now evs))
                 (nth_error (ds_queries (dns_run cfg s evs)) h).
Proof.
  induction evs as [|ev evs IH]; intros s now t0 Hc Hs HN HL K Hsch; cbn [dns_run dns_ghost dns_sched] in *.
  { exact K. }
  destruct Hsch as (Hev & Hq & Hp & Hrest).
  assert (HLev : dns_servers_le cfg mdns N ev) by (inv HL; assumption).
  assert (HL' : Forall (dns_servers_le cfg mdns N) evs) by (inv HL; assumption).
  destruct (dns_step_sock_ok cfg s ev Hc Hs Hev) as [Hs' Hsrv].
  assert (HN' : dns_nsrv mdns (ds_servers (fst (dns_step cfg s ev))) <= N).
  { rewrite Hsrv. destruct ev; try exact HN. exact HLev. }
  assert (Other : (match ev with EvPoll _ => False | _ => True end) ->
                  slot_timer_inv N port txid mdns t0 now (nth_error (ds_queries (fst (dns_step cfg s ev))) h)).
  { intros Hnp. destruct K as [K|(pq & K1 & K2 & K3 & K4 & K5)].
    - left. apply (dns_step_quiet_unchanged cfg s ev h QFailure port txid Hq Hnp K); [intros; discriminate|left; reflexivity].
    - right. exists pq. split; [|auto].
      apply (dns_step_quiet_unchanged cfg s ev h (QPending pq) port txid Hq Hnp K1); [intros p Ep; inv Ep; auto|right; eauto]. }
  destruct ev as [name t tx pt|raw t m tx pt|i|i|t|src sp dp pkt|l|hl];
    try (apply (IH _ now t0 Hc Hs' HN' HL'); [apply Other; exact I|exact Hrest]).
  destruct Hp as [Hp1 Hp2].
  apply (IH _ t (match t0 with None => Some t | Some _ => t0 end) Hc Hs' HN' HL'); [|exact Hrest].
  eapply dns_poll_timer_inv; eauto.
Qed.

(* what start_query leaves in the slot it returns *)
Lemma dns_start_query_raw_fresh : forall cfg s raw t m txid port s' h,
  dns_start_query_raw cfg s raw t m txid port = (s', Ok h) ->
  nth_error (ds_queries s') h =
  Some (Some (QPending (mkPending raw t port txid None 0 dns_RETRANSMIT_DELAY 0 m))) /\
  ds_servers s' = ds_servers s.
Proof.
  intros cfg s raw t m txid port s' h H. unfold dns_start_query_raw, dns_find_free_query in H.
  destruct (dns_find_none (ds_queries s) 0) as [i|] eqn:Ef.
  - destruct (dns_find_none_spec _ _ _ Ef) as [_ Hi]. rewrite Nat.sub_0_r in Hi.
    destruct (wdns_len raw >? c_max_name cfg); inv H. split; [|reflexivity].
    cbn [dns_set_slot ds_queries]. rewrite nth_error_set_nth, Nat.eqb_refl, Hi. reflexivity.
  - destruct (ds_owned s); [|inv H].
    destruct (wdns_len raw >? c_max_name cfg); inv H. split; [|reflexivity].
    cbn [dns_set_slot ds_queries]. rewrite nth_error_set_nth, Nat.eqb_refl.
    rewrite nth_error_app2, Nat.sub_diag by lia. reflexivity.
Qed.

Lemma dns_start_query_fresh : forall cfg s name t txid port s' h,
  dns_start_query cfg s name t txid port = (s', Ok h) ->
  exists raw mdns,
    nth_error (ds_queries s') h =
    Some (Some (QPending (mkPending raw t port txid None 0 dns_RETRANSMIT_DELAY 0 mdns))) /\
    ds_servers s' = ds_servers s.
Proof.
  intros cfg s name t txid port s' h H. unfold dns_start_query in H.
  destruct name as [|c name]; [inv H|].
  destruct (dns_encode_labels _ _ _); try (inv H; fail).
  destruct (dns_vec_push _ _ _) as [raw|]; [|inv H].
  do 2 eexists. eapply dns_start_query_raw_fresh; eauto.
Qed.

(* query_terminates: a started query, no answering datagram, polls no later than poll_at says,
   update_servers / set_hop_limit at any time: with N a bound on the length of every server list
   in force, the query has failed by the first poll + N * RETRANSMIT_TIMEOUT *)
Lemma dns_query_terminates : forall cfg evs s now0 h pq N t0 t_last,
  cfg_ok cfg -> sock_ok cfg s ->
  nth_error (ds_queries s) h = Some (Some (QPending pq)) ->
  pq_timeout_at pq = None -> pq_server_idx pq = 0 ->
  dns_nsrv (pq_mdns pq) (ds_servers s) <= N ->
  Forall (dns_servers_le cfg (pq_mdns pq) N) evs ->
  dns_sched cfg h (pq_port pq) (pq_txid pq) s now0 evs ->
  dns_ghost None now0 evs = (Some t0, t_last) ->
  t0 + N * dns_RETRANSMIT_TIMEOUT <= t_last ->
  nth_error (ds_queries (dns_run cfg s evs)) h = Some (Some QFailure).
Proof.
  intros cfg evs s now0 h pq N t0 t_last Hc Hs Hh Ht Hi HN HL Hsch Hg Hb.
  pose proof dns_consts_pos as (P1 & P2 & P3).
  pose proof (dns_sched_timer_inv cfg h (pq_port pq) (pq_txid pq) (pq_mdns pq) N evs s now0 None Hc Hs HN HL) as K.
  rewrite Hg in K. cbn [fst snd] in K.
  destruct K as [K|(pq' & K1 & K2 & K3 & K4 & T & T1 & T2 & T3 & T4)]; auto.
  { right. exists pq. rewrite Hh. repeat split; auto. }
  exfalso. nia.
Qed.

(* the server list is truncated to DNS_MAX_SERVER_COUNT by new / update_servers, so N can be taken
   from the configuration: 2 for a .local name, DNS_MAX_SERVER_COUNT otherwise *)
Lemma dns_truncate_servers_le : forall cfg l,
  0 <= c_max_servers cfg -> Z.of_nat (length (dns_truncate_servers cfg l)) <= c_max_servers cfg.
Proof. intros. unfold dns_truncate_servers. rewrite firstn_length. lia. Qed.

Definition dns_max_nsrv (cfg : dns_cfg) (mdns : bool) : Z := if mdns then 2 else c_max_servers cfg.

Lemma dns_query_terminates_any_servers : forall cfg evs s now0 h pq t0 t_last,
  cfg_ok cfg -> sock_ok cfg s -> 0 <= c_max_servers cfg ->
  Z.of_nat (length (ds_servers s)) <= c_max_servers cfg ->
  nth_error (ds_queries s) h = Some (Some (QPending pq)) ->
  pq_timeout_at pq = None -> pq_server_idx pq = 0 ->
  dns_sched cfg h (pq_port pq) (pq_txid pq) s now0 evs ->
  dns_ghost None now0 evs = (Some t0, t_last) ->
  t0 + dns_max_nsrv cfg (pq_mdns pq) * dns_RETRANSMIT_TIMEOUT <= t_last ->
  nth_error (ds_queries (dns_run cfg s evs)) h = Some (Some QFailure).
Proof.
  intros cfg evs s now0 h pq t0 t_last Hc Hs Hm Hl Hh Ht Hi Hsch Hg Hb.
  eapply dns_query_terminates; eauto.
  - unfold dns_nsrv, dns_max_nsrv. destruct (pq_mdns pq); [cbn; lia|exact Hl].
  - apply Forall_forall. intros ev _. destruct ev; cbn; auto.
    unfold dns_nsrv, dns_max_nsrv. destruct (pq_mdns pq); [cbn; lia|apply dns_truncate_servers_le; assumption].
Qed.

(* --- hop limit: legal (1..255) in every reachable state, hence on every transmitted query --- *)
Definition hop_ok (s : dns_sock) : Prop :=
  match ds_hop_limit s with Some h => 1 <= h <= 255 | None => True end.

Lemma dns_step_hop_ok : forall cfg s ev, ev_ok ev -> hop_ok s -> hop_ok (fst (dns_step cfg s ev)).
Proof.
  intros cfg s ev Hev Hh. unfold hop_ok in *.
  destruct ev as [name t tx pt|raw t m tx pt|i|i|now|src sp dp pkt|l|hl]; cbn [dns_step].
  - destruct (dns_start_query cfg s name t tx pt) as [s' r] eqn:E. cbn [fst]. unfold dns_start_query in E.
    destruct name; [inv E; exact Hh|]. destruct (dns_encode_labels _ _ _); try (inv E; exact Hh).
    destruct (dns_vec_push _ _ _); [|inv E; exact Hh].
    unfold dns_start_query_raw, dns_find_free_query in E.
    destruct (dns_find_none _ _); [|destruct (ds_owned s)]; try destruct (_ >? _); inv E; exact Hh.
  - destruct (dns_start_query_raw cfg s raw t m tx pt) as [s' r] eqn:E. cbn [fst].
    unfold dns_start_query_raw, dns_find_free_query in E.
    destruct (dns_find_none _ _); [|destruct (ds_owned s)]; try destruct (_ >? _); inv E; exact Hh.
  - destruct (dns_get_query_result s i) as [s' r] eqn:E. cbn [fst]. unfold dns_get_query_result in E.
    destruct (nth_error _ _) as [[[?|?|]|]|]; inv E; exact Hh.
  - destruct (dns_cancel_query s i) as [s' r] eqn:E. cbn [fst]. unfold dns_cancel_query in E.
    destruct (nth_error _ _) as [[?|]|]; inv E; exact Hh.
  - destruct (dns_poll cfg s now) as [[[s' txs] hang]| |] eqn:E; cbn [fst]; auto.
    unfold dns_poll in E. revert E. generalize (@nil dns_tx). generalize (S (length (ds_queries s))).
    intros fuel. revert s Hh. induction fuel as [|fuel IH]; intros s Hh acc E; cbn [dns_poll_go] in E.
    { inv E. exact Hh. }
    unfold dns_dispatch in E.
    destruct (dns_dispatch_slots cfg (ds_servers s) now true (ds_queries s)) as [[qs res]| |]; cbn [obind] in E; try discriminate.
    destruct res; [inv E; exact Hh| |inv E; exact Hh]. eapply IH; [|exact E]. exact Hh.
  - destruct (dns_ingress cfg s src sp dp pkt) as [[s' acc]| |] eqn:E; cbn [fst]; auto.
    unfold dns_ingress in E. destruct (dns_accepts s src sp); [|inv E; exact Hh].
    destruct (dns_process cfg s dp pkt) as [s1| |] eqn:Ep; cbn [obind] in E; inv E.
    destruct (dns_process_cases _ _ _ _ _ Ep) as [->|(a & b & c & _ & _ & _ & ->)]; exact Hh.
  - exact Hh.
  - unfold dns_set_hop_limit. destruct hl as [v|]; [|exact I].
    destruct (v =? 0) eqn:E0; [exact Hh|]. cbn. apply Z.eqb_neq in E0. cbn in Hev. lia.
Qed.

Lemma dns_reachable_hop_legal : forall cfg servers n owned evs,
  Forall ev_ok evs ->
  1 <= dns_tx_hop (dns_run cfg (dns_new cfg servers n owned) evs) <= 255.
Proof.
  intros cfg servers n owned evs Hev.
  assert (H : hop_ok (dns_run cfg (dns_new cfg servers n owned) evs)).
  { assert (G : forall evs s, Forall ev_ok evs -> hop_ok s -> hop_ok (dns_run cfg s evs)).
    { induction evs0 as [|ev evs0 IH]; intros s He Hs; cbn [dns_run]; auto.
      inv He. apply IH; auto. apply dns_step_hop_ok; auto. }
    apply G; auto. exact I. }
  unfold hop_ok, dns_tx_hop in *. destruct (ds_hop_limit _); lia.
Qed.

(* set_hop_limit(Some(0)) panics and stores nothing *)
Lemma dns_set_hop_limit_zero : forall s, dns_set_hop_limit s (Some 0) = (s, Panic).
Proof. reflexivity. Qed.

(* ====================================================================================== *)
(* Part F: summaries used by Props/C19.v and non-vacuity examples                          *)
(* ====================================================================================== *)

Lemma wdns_wire_parsers_total : forall buffer,
  (wdns_question_parse buffer <> Panic /\ wdns_question_parse buffer <> Err wdns_E_FUEL) /\
  (wdns_record_parse buffer <> Panic /\ wdns_record_parse buffer <> Err wdns_E_FUEL) /\
  (wdns_parse_name_part buffer <> Panic /\ wdns_parse_name_part buffer <> Err wdns_E_FUEL).
Proof.
  intros. pose proof (wdns_question_parse_spec buffer) as A. pose proof (wdns_record_parse_spec buffer) as B.
  pose proof (wdns_parse_name_part_spec buffer) as C.
  destruct (wdns_question_parse buffer) as [[? ?]|e|]; destruct (wdns_record_parse buffer) as [[? ?]|e'|];
    destruct (wdns_parse_name_part buffer) as [[? ?]|e''|]; try contradiction;
    repeat split; try discriminate; subst; unfold wdns_E, wdns_E_FUEL; intro X; inv X.
Qed.

(* every event on a well-formed socket: no panic, no hang, invariant kept *)
Lemma dns_step_total : forall cfg s ev,
  cfg_ok cfg -> sock_ok cfg s -> ev_ok ev ->
  sock_ok cfg (fst (dns_step cfg s ev)) /\
  match ev with
  | EvPoll _ => exists txs, snd (dns_step cfg s ev) = ObPoll txs false
  | EvRsp _ _ _ _ => exists acc, snd (dns_step cfg s ev) = ObRsp acc
  | _ => True
  end.
Proof.
  intros cfg s ev Hc Hs Hev. split; [apply dns_step_sock_ok; assumption|].
  destruct ev as [name t tx pt|raw t m tx pt|i|i|now|src sp dp pkt|l|hl]; auto; cbn [dns_step].
  - destruct (dns_poll_spec cfg s now Hc Hs) as (txs & E). rewrite E. cbn. eauto.
  - destruct Hc as [Hc1 _]. destruct (dns_ingress_total cfg s src sp dp pkt Hc1 Hs Hev) as (s' & acc & E & _).
    rewrite E. cbn. eauto.
Qed.

Lemma dns_run_sock_ok : forall cfg evs s,
  cfg_ok cfg -> sock_ok cfg s -> Forall ev_ok evs -> sock_ok cfg (dns_run cfg s evs).
Proof.
  induction evs as [|ev evs IH]; intros s Hc Hs Hev; cbn [dns_run]; auto.
  inv Hev. apply IH; auto. apply dns_step_sock_ok; auto.
Qed.

Lemma dns_new_sock_ok : forall cfg servers n owned, sock_ok cfg (dns_new cfg servers n owned).
Proof.
  intros. unfold sock_ok, dns_new. cbn [ds_queries]. apply Forall_forall. intros o Ho.
  apply repeat_spec in Ho. subst. exact I.
Qed.

Lemma dns_cfg_default_ok : forall b, cfg_ok (dns_cfg_default b).
Proof. intros. unfold cfg_ok, dns_cfg_default. cbn. unfold cfg_DNS_MAX_NAME_SIZE. lia. Qed.

(* --- examples --- *)
Definition c19_cfg : dns_cfg := dns_cfg_default true.
Definition c19_server : list Z := [10; 0; 0; 10].
Definition c19_s0 : dns_sock := dns_new c19_cfg [c19_server] 1 false.
(* query "a.b" type A, transaction id 0x1234, source port 50000; first poll at 0 *)
Definition c19_started : dns_sock :=
  dns_run c19_cfg c19_s0 [EvQuery [97; 46; 98] 1 4660 50000; EvPoll 0].

Fixpoint dns_run_obs (cfg : dns_cfg) (s : dns_sock) (evs : list dns_event) : list (option Z) :=
  match evs with
  | [] => []
  | ev :: evs' => let s' := fst (dns_step cfg s ev) in dns_poll_at s' :: dns_run_obs cfg s' evs'
  end.

Lemma c19_example :
  (* the compressed response with a CNAME chain (WireDnsProofs.wdns_example_response):
     a.b CNAME c.b ; c.b A 1.2.3.4 ; x.b A 9.9.9.9  -> exactly 1.2.3.4 *)
  nth_error (ds_queries (dns_run c19_cfg c19_started [EvRsp c19_server 53 50000 wdns_example_response])) 0
    = Some (Some (QCompleted [[1; 2; 3; 4]])) /\
  (* same datagram: wrong source address / source port / destination port / id: ignored *)
  dns_run c19_cfg c19_started [EvRsp [10; 0; 0; 99] 53 50000 wdns_example_response] = c19_started /\
  dns_run c19_cfg c19_started [EvRsp c19_server 54 50000 wdns_example_response] = c19_started /\
  dns_run c19_cfg c19_started [EvRsp c19_server 53 50001 wdns_example_response] = c19_started /\
  dns_run c19_cfg c19_started [EvRsp c19_server 53 50000 (18 :: 53 :: skipn 2 wdns_example_response)] = c19_started /\
  (* no answers, polls at poll_at: transmissions at 0, 1, 3, 7 s, failure at 10 s *)
  dns_run_obs c19_cfg c19_s0
    [EvQuery [97; 46; 98] 1 4660 50000; EvPoll 0; EvPoll 1000000; EvPoll 3000000; EvPoll 7000000; EvPoll 10000000]
    = [Some 0; Some 1000000; Some 3000000; Some 7000000; Some 10000000; None] /\
  nth_error (ds_queries (dns_run c19_cfg c19_started
     [EvPoll 1000000; EvPoll 3000000; EvPoll 7000000; EvPoll 10000000])) 0 = Some (Some QFailure).
Proof. vm_compute. repeat split; reflexivity. Qed.

Lemma dns_reachable_ok : forall cfg servers n owned evs,
  cfg_ok cfg -> Forall ev_ok evs -> sock_ok cfg (dns_run cfg (dns_new cfg servers n owned) evs).
Proof. intros. apply dns_run_sock_ok; auto. apply dns_new_sock_ok. Qed.

Lemma dns_completed_implies_match : forall cfg servers n owned evs h addrs,
  Forall ev_ok evs ->
  nth_error (ds_queries (dns_run cfg (dns_new cfg servers n owned) evs)) h = Some (Some (QCompleted addrs)) ->
  exists evs1 src sp dp pkt evs2 pq,
    evs = evs1 ++ EvRsp src sp dp pkt :: evs2 /\
    let s1 := dns_run cfg (dns_new cfg servers n owned) evs1 in
    nth_error (ds_queries s1) h = Some (Some (QPending pq)) /\
    dns_source_ok s1 src sp /\ dp = pq_port pq /\ dns_header_ok pkt (pq_txid pq) /\
    dns_answer_matches cfg pkt pq addrs.
Proof.
  intros cfg servers n owned evs h addrs Hev H.
  destruct (dns_run_completed cfg evs _ h addrs Hev H) as [A|A].
  - exfalso. eapply dns_new_no_completed; eauto.
  - exact A.
Qed.

Lemma dns_constants :
  dns_RETRANSMIT_TIMEOUT = 10 * 1000000 /\ dns_RETRANSMIT_DELAY = 1000000 /\
  dns_MAX_RETRANSMIT_DELAY = 10 * 1000000 /\ dns_DNS_PORT = 53 /\ dns_MDNS_DNS_PORT = 5353 /\
  wdns_f_HEADER_END = 12 /\ wdns_CLASS_IN = 1 /\
  (forall b, cfg_ok (dns_cfg_default b)) /\ 1 <= cfg_DNS_MAX_RESULT_COUNT /\ 1 <= cfg_DNS_MAX_SERVER_COUNT.
Proof.
  split; [reflexivity|]. split; [reflexivity|]. split; [reflexivity|]. split; [reflexivity|]. split; [reflexivity|].
  split; [reflexivity|]. split; [reflexivity|]. split; [exact dns_cfg_default_ok|]. split; vm_compute; discriminate.
Qed.

(* update_servers / set_hop_limit while a query is pending *)
Lemma c19_example_servers :
  (* the list becomes empty: the pending query fails at the next dispatch *)
  nth_error (ds_queries (dns_run c19_cfg c19_started [EvServers []; EvPoll 1000000])) 0 = Some (Some QFailure) /\
  (* another server: the query goes on, same timers, to the new server (index 0), hop limit 64 *)
  (exists pl, snd (dns_step c19_cfg (dns_run c19_cfg c19_started [EvServers [[10; 0; 0; 11]]]) (EvPoll 1000000))
              = ObPoll [mkTx [10; 0; 0; 11] 50000 53 pl] false) /\
  dns_run_obs c19_cfg c19_started [EvServers [[10; 0; 0; 11]]; EvPoll 1000000; EvPoll 3000000; EvPoll 7000000; EvPoll 10000000]
    = [Some 1000000; Some 3000000; Some 7000000; Some 10000000; None] /\
  (* answers of the replaced server are no longer accepted *)
  dns_run c19_cfg c19_started [EvServers [[10; 0; 0; 11]]; EvRsp c19_server 53 50000 wdns_example_response]
    = dns_run c19_cfg c19_started [EvServers [[10; 0; 0; 11]]] /\
  (* more servers than DNS_MAX_SERVER_COUNT: truncated *)
  ds_servers (dns_run c19_cfg c19_started [EvServers [[10; 0; 0; 11]; [10; 0; 0; 12]]]) = [[10; 0; 0; 11]] /\
  (* hop limit 0 is refused with a panic and nothing is stored; 7 is used for the next datagrams *)
  dns_step c19_cfg c19_started (EvHop (Some 0)) = (c19_started, ObHop Panic) /\
  dns_tx_hop c19_started = 64 /\
  dns_tx_hop (dns_run c19_cfg c19_started [EvHop (Some 7)]) = 7.
Proof.
  vm_compute. repeat split; try reflexivity. eexists. reflexivity.
Qed.

(* ====================================================================================== *)
(* Part G: a pending query is never rewritten (repo 4f2a12a)                              *)
(* ====================================================================================== *)

(* what identifies a query: the name it was started with, type, source port, transaction id *)
Definition dns_qid (pq : dns_pending) : list Z * Z * Z * Z * bool :=
  (pq_name pq, pq_type pq, pq_port pq, pq_txid pq, pq_mdns pq).

(* `process` for one query: pending afterwards means untouched *)
Lemma dns_process_query_pending_same : forall cfg pkt pq pq',
  dns_process_query cfg pkt pq = Ok (QPending pq') -> pq' = pq.
Proof.
  intros cfg pkt pq pq' H. unfold dns_process_query in H.
  destruct (wdns_payload pkt) as [payload| |]; cbn [obind] in H; try discriminate.
  destruct (wdns_question_parse payload) as [[payload1 question]|e|]; try discriminate.
  2:{ destruct (dns_is_fuel e); inv H; reflexivity. }
  destruct (negb (q_type question =? pq_type pq)); [inv H; reflexivity|].
  destruct (dns_eq_names _ _) as [[|]|e|]; try discriminate; try (inv H; reflexivity).
  destruct (wdns_answer_record_count pkt) as [an| |]; cbn [obind] in H; try discriminate.
  destruct (dns_walk cfg (Z.to_nat an) pkt payload1 (pq_name pq) []) as [w| |]; cbn [obind] in H; try discriminate.
  destruct w as [name|name [|a0 addrs0]]; inv H. reflexivity.
Qed.

(* a datagram leaves a pending query exactly as it was, or finishes it *)
Lemma dns_ingress_pending_same : forall cfg s src sp dp pkt s' acc h pq pq',
  dns_ingress cfg s src sp dp pkt = Ok (s', acc) ->
  nth_error (ds_queries s) h = Some (Some (QPending pq)) ->
  nth_error (ds_queries s') h = Some (Some (QPending pq')) -> pq' = pq.
Proof.
  intros cfg s src sp dp pkt s' acc h pq pq' H Hh Hh'.
  destruct (dns_ingress_slot _ _ _ _ _ _ _ _ _ _ H Hh) as [A|[_ [[_ C]|[_ (st & C & D)]]]]; try congruence.
  rewrite D in Hh'. inv Hh'. eapply dns_process_query_pending_same; eauto.
Qed.

Lemma dns_done_slot_qid : forall cfg servers now pq pq',
  cfg_ok cfg -> pq_ok cfg pq ->
  dns_done_slot cfg servers now (Some (QPending pq)) = Some (QPending pq') -> dns_qid pq' = dns_qid pq.
Proof.
  intros cfg servers now pq pq' Hc Hq H. cbn in H.
  destruct (dns_dispatch_query_spec cfg servers now pq Hc Hq) as (r & E & C). rewrite E in H. inv H.
  assert (P2 : dns_qid (dns_pq2 now pq) = dns_qid pq) by (unfold dns_pq2, dns_qid; destruct (_ <=? now); reflexivity).
  destruct C as [[-> _]|[[-> _]|(tx & dst & -> & _)]]; cbn in H1; inv H1; auto.
Qed.

(* one event: a slot that holds a pending query before and after holds the same query (name, type,
   port, id); only the timers may have moved *)
Lemma dns_step_qid : forall cfg s ev h pq pq',
  cfg_ok cfg -> sock_ok cfg s ->
  nth_error (ds_queries s) h = Some (Some (QPending pq)) ->
  nth_error (ds_queries (fst (dns_step cfg s ev))) h = Some (Some (QPending pq')) ->
  dns_qid pq' = dns_qid pq.
Proof.
  intros cfg s ev h pq pq' Hc Hs Hh H.
  destruct ev as [name t tx pt|raw t m tx pt|i|i|now|src sp dp pkt|l|hl];
    try (rewrite dns_step_servers_hop_queries in H; [congruence|exact I]); cbn [dns_step] in H.
  - destruct (dns_start_query cfg s name t tx pt) as [s' r] eqn:E. cbn [fst] in H.
    rewrite (dns_start_query_other _ _ _ _ _ _ _ _ _ _ E Hh) in H. congruence.
  - destruct (dns_start_query_raw cfg s raw t m tx pt) as [s' r] eqn:E. cbn [fst] in H.
    rewrite (dns_start_query_raw_other _ _ _ _ _ _ _ _ _ _ _ E Hh) in H. congruence.
  - destruct (dns_get_query_result s i) as [s' r] eqn:E. cbn [fst] in H. unfold dns_get_query_result in E.
    destruct (nth_error (ds_queries s) i) as [[[q|a|]|]|] eqn:Ei; inv E; try congruence;
      cbn [dns_set_slot ds_queries] in H; rewrite nth_error_set_nth in H;
      (destruct (Nat.eqb h i) eqn:En; [rewrite Hh in H; discriminate|congruence]).
  - destruct (dns_cancel_query s i) as [s' r] eqn:E. cbn [fst] in H. unfold dns_cancel_query in E.
    destruct (nth_error (ds_queries s) i) as [[q|]|] eqn:Ei; inv E; try congruence;
      cbn [dns_set_slot ds_queries] in H; rewrite nth_error_set_nth in H;
      (destruct (Nat.eqb h i) eqn:En; [rewrite Hh in H; discriminate|congruence]).
  - destruct (dns_poll_spec cfg s now Hc Hs) as (txs & E). rewrite E in H. cbn [fst ds_queries] in H.
    rewrite (nth_error_map_some _ _ _ _ _ _ Hh) in H.
    assert (Hq : pq_ok cfg pq).
    { unfold sock_ok in Hs. rewrite Forall_forall in Hs. apply (Hs (Some (QPending pq))). eapply nth_error_In; eauto. }
    apply (dns_done_slot_qid cfg (ds_servers s) now pq pq' Hc Hq). injection H as H. exact H.
  - destruct (dns_ingress cfg s src sp dp pkt) as [[s' acc]| |] eqn:E; cbn [fst] in H; try congruence.
    rewrite (dns_ingress_pending_same _ _ _ _ _ _ _ _ _ _ _ E Hh H). reflexivity.
Qed.

(* ... and a slot that holds a pending query only afterwards was filled by start_query(_raw) *)
Lemma dns_step_pending_new : forall cfg s ev h pq',
  cfg_ok cfg -> sock_ok cfg s ->
  (forall pq, nth_error (ds_queries s) h <> Some (Some (QPending pq))) ->
  nth_error (ds_queries (fst (dns_step cfg s ev))) h = Some (Some (QPending pq')) ->
  (exists name t tx pt, ev = EvQuery name t tx pt) \/ (exists raw t m tx pt, ev = EvQueryRaw raw t m tx pt).
Proof.
  intros cfg s ev h pq' Hc Hs Hn H.
  destruct ev as [name t tx pt|raw t m tx pt|i|i|now|src sp dp pkt|l|hl]; eauto 10;
    try (rewrite dns_step_servers_hop_queries in H; [exfalso; eapply Hn; eauto|exact I]); cbn [dns_step] in H; exfalso.
  - destruct (dns_get_query_result s i) as [s' r] eqn:E. cbn [fst] in H. unfold dns_get_query_result in E.
    destruct (nth_error (ds_queries s) i) as [[[q|a|]|]|] eqn:Ei; inv E; try (eapply Hn; eauto; fail);
      cbn [dns_set_slot ds_queries] in H; rewrite nth_error_set_nth in H;
      (destruct (Nat.eqb h i) eqn:En; [destruct (nth_error (ds_queries s) h); discriminate|eapply Hn; eauto]).
  - destruct (dns_cancel_query s i) as [s' r] eqn:E. cbn [fst] in H. unfold dns_cancel_query in E.
    destruct (nth_error (ds_queries s) i) as [[q|]|] eqn:Ei; inv E; try (eapply Hn; eauto; fail);
      cbn [dns_set_slot ds_queries] in H; rewrite nth_error_set_nth in H;
      (destruct (Nat.eqb h i) eqn:En; [destruct (nth_error (ds_queries s) h); discriminate|eapply Hn; eauto]).
  - destruct (dns_poll_spec cfg s now Hc Hs) as (txs & E). rewrite E in H. cbn [fst ds_queries] in H.
    rewrite nth_error_map in H. destruct (nth_error (ds_queries s) h) as [[[q|a|]|]|] eqn:Eh; cbn in H; try discriminate.
    eapply Hn; eauto.
  - destruct (dns_ingress cfg s src sp dp pkt) as [[s' acc]| |] eqn:E; cbn [fst] in H; [|eapply Hn; eauto|eapply Hn; eauto].
    rewrite (dns_ingress_other _ _ _ _ _ _ _ _ h E Hn) in H. eapply Hn; eauto.
Qed.

(* start_query(_raw), slot by slot: unchanged, or the fresh pending query, or a new free slot *)
Lemma dns_start_query_raw_slot : forall cfg s raw t m txid port s' r h,
  dns_start_query_raw cfg s raw t m txid port = (s', r) ->
  nth_error (ds_queries s') h = nth_error (ds_queries s) h \/
  nth_error (ds_queries s') h = Some (Some (QPending (mkPending raw t port txid None 0 dns_RETRANSMIT_DELAY 0 m))) \/
  nth_error (ds_queries s') h = Some None.
Proof.
  intros cfg s raw t m txid port s' r h H. unfold dns_start_query_raw, dns_find_free_query in H.
  assert (App : nth_error (ds_queries s ++ [None]) h = nth_error (ds_queries s) h \/
                nth_error (ds_queries s ++ [None]) h = Some None).
  { destruct (Nat.lt_ge_cases h (length (ds_queries s))) as [L|L].
    - left. apply nth_error_app1; assumption.
    - rewrite nth_error_app2 by assumption. destruct (h - length (ds_queries s))%nat as [|k] eqn:Ek; cbn.
      + right; reflexivity.
      + left. destruct k; cbn; symmetry; apply nth_error_None; lia. }
  destruct (dns_find_none (ds_queries s) 0) as [i|].
  - destruct (wdns_len raw >? c_max_name cfg); inv H; [left; reflexivity|].
    cbn [dns_set_slot ds_queries]. rewrite nth_error_set_nth.
    destruct (Nat.eqb h i); [|left; reflexivity].
    destruct (nth_error (ds_queries s) h); [right; left; reflexivity|left; reflexivity].
  - destruct (ds_owned s); [|inv H; left; reflexivity].
    destruct (wdns_len raw >? c_max_name cfg); inv H; cbn [dns_set_slot ds_queries].
    + destruct App as [A|A]; [left|right; right]; exact A.
    + rewrite nth_error_set_nth. destruct (Nat.eqb h (length (ds_queries s))).
      * destruct (nth_error (ds_queries s ++ [None]) h) eqn:E; [right; left; reflexivity|].
        left. symmetry. destruct App as [A|A]; congruence.
      * destruct App as [A|A]; [left|right; right]; exact A.
Qed.

Lemma dns_start_query_slot : forall cfg s name t txid port s' r h,
  dns_start_query cfg s name t txid port = (s', r) ->
  nth_error (ds_queries s') h = nth_error (ds_queries s) h \/
  (exists raw m, nth_error (ds_queries s') h =
                 Some (Some (QPending (mkPending raw t port txid None 0 dns_RETRANSMIT_DELAY 0 m)))) \/
  nth_error (ds_queries s') h = Some None.
Proof.
  intros cfg s name t txid port s' r h H. unfold dns_start_query in H.
  destruct name as [|c name]; [inv H; left; reflexivity|].
  destruct (dns_encode_labels _ _ _); try (inv H; left; reflexivity).
  destruct (dns_vec_push _ _ _) as [raw|]; [|inv H; left; reflexivity].
  destruct (dns_start_query_raw_slot _ _ _ _ _ _ _ _ _ h H) as [A|[A|A]]; eauto.
Qed.

(* a slot that holds a pending query only after the event: the event is start_query(_raw) and the
   query is the fresh one (not yet dispatched) *)
Lemma dns_step_pending_fresh : forall cfg s ev h pq',
  cfg_ok cfg -> sock_ok cfg s ->
  (forall pq, nth_error (ds_queries s) h <> Some (Some (QPending pq))) ->
  nth_error (ds_queries (fst (dns_step cfg s ev))) h = Some (Some (QPending pq')) ->
  ((exists name t tx pt, ev = EvQuery name t tx pt) \/ (exists raw t m tx pt, ev = EvQueryRaw raw t m tx pt)) /\
  pq_timeout_at pq' = None /\ pq_server_idx pq' = 0.
Proof.
  intros cfg s ev h pq' Hc Hs Hn H.
  pose proof (dns_step_pending_new cfg s ev h pq' Hc Hs Hn H) as C. split; [exact C|].
  destruct C as [(name & t & tx & pt & ->)|(raw & t & m & tx & pt & ->)]; cbn [dns_step] in H.
  - destruct (dns_start_query cfg s name t tx pt) as [s1 r] eqn:Es. cbn [fst] in H.
    destruct (dns_start_query_slot _ _ _ _ _ _ _ _ h Es) as [A|[(raw & m & A)|A]]; rewrite A in H.
    + exfalso. eapply Hn; eauto.
    + inv H. split; reflexivity.
    + discriminate.
  - destruct (dns_start_query_raw cfg s raw t m tx pt) as [s1 r] eqn:Es. cbn [fst] in H.
    destruct (dns_start_query_raw_slot _ _ _ _ _ _ _ _ _ h Es) as [A|[A|A]]; rewrite A in H.
    + exfalso. eapply Hn; eauto.
    + inv H. split; reflexivity.
    + discriminate.
Qed.

(* every history: the query found pending in a slot is, in name, type, port and id, the query
   start_query(_raw) put there (or the one that was there at the beginning) *)
Lemma dns_run_qid : forall cfg evs s h pq,
  cfg_ok cfg -> sock_ok cfg s -> Forall ev_ok evs ->
  nth_error (ds_queries (dns_run cfg s evs)) h = Some (Some (QPending pq)) ->
  (exists pq0, nth_error (ds_queries s) h = Some (Some (QPending pq0)) /\ dns_qid pq0 = dns_qid pq) \/
  exists evs1 ev evs2 pq1,
    evs = evs1 ++ ev :: evs2 /\
    ((exists name t tx pt, ev = EvQuery name t tx pt) \/ (exists raw t m tx pt, ev = EvQueryRaw raw t m tx pt)) /\
    nth_error (ds_queries (dns_run cfg s (evs1 ++ [ev]))) h = Some (Some (QPending pq1)) /\
    pq_timeout_at pq1 = None /\ pq_server_idx pq1 = 0 /\ dns_qid pq1 = dns_qid pq.
Proof.
  induction evs as [|ev evs IH]; intros s h pq Hc Hs Hev H; cbn [dns_run] in H.
  { left. eauto. }
  inv Hev. destruct (dns_step_sock_ok cfg s ev Hc Hs H2) as [Hs' _].
  destruct (IH _ _ _ Hc Hs' H3 H) as [(pq0 & A & B)|(evs1 & ev1 & evs2 & pq1 & E & C & D & F & G)].
  - destruct (nth_error (ds_queries s) h) as [[[q|a|]|]|] eqn:Eh.
    + left. exists q. split; [reflexivity|]. rewrite <- B. symmetry. exact (dns_step_qid cfg s ev h q pq0 Hc Hs Eh A).
    + right. exists [], ev, evs, pq0.
      assert (Hn : forall p, nth_error (ds_queries s) h <> Some (Some (QPending p))) by (intros; congruence).
      destruct (dns_step_pending_fresh cfg s ev h pq0 Hc Hs Hn A) as (Cn & F1 & F2).
      split; [reflexivity|]. split; [exact Cn|]. cbn [app dns_run]. auto.
    + right. exists [], ev, evs, pq0.
      assert (Hn : forall p, nth_error (ds_queries s) h <> Some (Some (QPending p))) by (intros; congruence).
      destruct (dns_step_pending_fresh cfg s ev h pq0 Hc Hs Hn A) as (Cn & F1 & F2).
      split; [reflexivity|]. split; [exact Cn|]. cbn [app dns_run]. auto.
    + right. exists [], ev, evs, pq0.
      assert (Hn : forall p, nth_error (ds_queries s) h <> Some (Some (QPending p))) by (intros; congruence).
      destruct (dns_step_pending_fresh cfg s ev h pq0 Hc Hs Hn A) as (Cn & F1 & F2).
      split; [reflexivity|]. split; [exact Cn|]. cbn [app dns_run]. auto.
    + right. exists [], ev, evs, pq0.
      assert (Hn : forall p, nth_error (ds_queries s) h <> Some (Some (QPending p))) by (intros; congruence).
      destruct (dns_step_pending_fresh cfg s ev h pq0 Hc Hs Hn A) as (Cn & F1 & F2).
      split; [reflexivity|]. split; [exact Cn|]. cbn [app dns_run]. auto.
  - right. exists (ev :: evs1), ev1, evs2, pq1. subst evs. split; [reflexivity|]. split; [exact C|].
    cbn [app dns_run]. auto.
Qed.

(* from a new socket: the completing datagram repeats the question the query was STARTED with *)
Lemma dns_completed_original_question : forall cfg servers n owned evs h addrs,
  cfg_ok cfg -> Forall ev_ok evs ->
  nth_error (ds_queries (dns_run cfg (dns_new cfg servers n owned) evs)) h = Some (Some (QCompleted addrs)) ->
  exists evs0 evq evm src sp dp pkt evs2 pq0 pq,
    evs = (evs0 ++ evq :: evm) ++ EvRsp src sp dp pkt :: evs2 /\
    (* the query was put into the slot by evq = start_query(_raw) ... *)
    ((exists name t tx pt, evq = EvQuery name t tx pt) \/ (exists raw t m tx pt, evq = EvQueryRaw raw t m tx pt)) /\
    nth_error (ds_queries (dns_run cfg (dns_new cfg servers n owned) (evs0 ++ [evq]))) h = Some (Some (QPending pq0)) /\
    pq_timeout_at pq0 = None /\
    (* ... and when the datagram arrives it still has that name, type, port and id *)
    nth_error (ds_queries (dns_run cfg (dns_new cfg servers n owned) (evs0 ++ evq :: evm))) h = Some (Some (QPending pq)) /\
    dns_qid pq = dns_qid pq0 /\
    dns_source_ok (dns_run cfg (dns_new cfg servers n owned) (evs0 ++ evq :: evm)) src sp /\
    dp = pq_port pq0 /\ dns_header_ok pkt (pq_txid pq0) /\
    dns_answer_matches cfg pkt pq addrs.
Proof.
  intros cfg servers n owned evs h addrs Hc Hev H.
  destruct (dns_completed_implies_match cfg servers n owned evs h addrs Hev H)
    as (evs1 & src & sp & dp & pkt & evs2 & pq & E & M). cbv zeta in M. destruct M as (M1 & M2 & M3 & M4 & M5).
  assert (Hev1 : Forall ev_ok evs1) by (subst evs; apply Forall_app in Hev; tauto).
  destruct (dns_run_qid cfg evs1 _ h pq Hc (dns_new_sock_ok cfg servers n owned) Hev1 M1)
    as [(pq0 & A & _)|(evs0 & evq & evm & pq0 & E1 & C & D & F1 & F2 & G)].
  { exfalso. unfold dns_new in A. cbn [ds_queries] in A. apply nth_error_In in A. apply repeat_spec in A. discriminate. }
  exists evs0, evq, evm, src, sp, dp, pkt, evs2, pq0, pq. subst evs1.
  assert (Gp : pq_port pq = pq_port pq0 /\ pq_txid pq = pq_txid pq0) by (unfold dns_qid in G; inv G; auto).
  destruct Gp as [Gp Gt]. rewrite <- Gp, <- Gt.
  repeat (split; [solve [auto]|]). exact M5.
Qed.

(* a response with a CNAME a.b -> e.f that is cut off after it, then a response repeating the
   question e.f: the first settles nothing and rewrites nothing, the second is ignored *)
Definition c19_rsp_cname_cut : list Z :=
  [18; 52; 129; 128; 0; 1; 0; 2; 0; 0; 0; 0; 1; 97; 1; 98; 0; 0; 1; 0; 1;
   192; 12; 0; 5; 0; 1; 0; 0; 0; 60; 0; 5; 1; 101; 1; 102; 0; 192; 12; 0; 1].
Definition c19_rsp_other_question : list Z :=
  [18; 52; 129; 128; 0; 1; 0; 1; 0; 0; 0; 0; 1; 101; 1; 102; 0; 0; 1; 0; 1;
   192; 12; 0; 1; 0; 1; 0; 0; 0; 60; 0; 4; 6; 6; 6; 6].

Lemma c19_example_cname_twostep :
  dns_run c19_cfg c19_started [EvRsp c19_server 53 50000 c19_rsp_cname_cut] = c19_started /\
  dns_run c19_cfg c19_started [EvRsp c19_server 53 50000 c19_rsp_cname_cut;
                               EvRsp c19_server 53 50000 c19_rsp_other_question] = c19_started /\
  (* the cut-off response does match the question (it is the walk that is abandoned) *)
  (exists st, dns_process_query c19_cfg c19_rsp_cname_cut
                (mkPending [1; 97; 1; 98; 0] 1 50000 4660 (Some 10000000) 1000000 2000000 0 false) = Ok (QPending st)).
Proof. vm_compute. repeat split; try reflexivity. eexists; reflexivity. Qed.
