(* C02 (liveness half), close, layer 5: ONE HALF OF THE ORDERLY CLOSE, for every reliable schedule.
   The closer c (FIN-WAIT-1, or LAST-ACK in the second half) has its FIN to send - unsent, or sent and
   lost with the retransmission timer running; the receiver r (ESTABLISHED, or FIN-WAIT-2 in the second
   half) is quiet; nothing is queued, nothing is tracked on the channels.  Phases:
     P0  the FIN is due: poll_at(c) = Now, or its retransmission timer e <= T0 - at T0 at the latest it goes out
     P1  the FIN is tracked towards r (deadline T1 + Dt, T1 = when it went out)
     P2  r has taken it (CLOSE-WAIT / TIME-WAIT) and owes the ACK: poll_at(r) = Now
     P3  the ACK is tracked towards c (deadline T1 + 2 Dt)
     Q   c is in FIN-WAIT-2 (CLOSED in the second half), nothing is tracked
   With 2 Dt below the minimal RTO the retransmission timer armed at T1 does not fire in P1-P3, so every
   poll of P1-P3 but the one that sends the ACK changes nothing. *)
From SV Require Import Lib.Base Gen.Consts.
From SV Require Import Model.Seq32 Model.Assembler Model.TcpBuf Model.TcpTypes Model.Tcp Model.TcpNet.
From SV Require Proofs.TcpRecvBase Proofs.TcpRecvInv Proofs.TcpRecvProcess Proofs.TcpRecvDispatch.
From SV Require Import Proofs.TcpSendBase Proofs.TcpLiveBase Proofs.TcpLiveProofs Proofs.TcpLiveMore
  Proofs.TcpLiveProgress.
From SV Require Import Proofs.TcpNetBase.
From SV Require Import Proofs.TcpProgressBase Proofs.TcpProgressFrame Proofs.TcpProgressCtl Proofs.TcpProgressRecv
  Proofs.TcpProgressSend Proofs.TcpProgressNet Proofs.TcpProgressData Proofs.TcpProgressAck
  Proofs.TcpProgressAll Proofs.TcpProgressSafe Proofs.TcpProgressHs Proofs.TcpProgressHsD
  Proofs.TcpProgressExample Proofs.TcpProgressWitness Proofs.TcpProgressZwDup Proofs.TcpProgressZw1 Proofs.TcpProgressZw2
  Proofs.TcpProgressCl1 Proofs.TcpProgressCl2 Proofs.TcpProgressCl3 Proofs.TcpProgressCl4.

Notation cxz st z := (ep_cx (net_get st z)).

(* the view does not read the clock or the random numbers of the context *)
Lemma gview_cx cx' cx s t st una nxt ws tm la M :
  cx_addr cx' = cx_addr cx -> cx_ip_mtu cx' = cx_ip_mtu cx ->
  gview cx s t st una nxt ws tm la M -> gview cx' s t st una nxt ws tm la M.
Proof.
  intros Ea Em (C & R). split; [|exact R]. destruct C as [K C1 C2 C3 C4 C5 C6 C7].
  constructor; try assumption. destruct K. constructor; rewrite ?Ea, ?Em; assumption.
Qed.

(* what a socket event does to the system state *)
Lemma sock_step_pieces st w ev0 e' :
  ep_step (net_get st w) ev0 = Ok e' ->
  exists s' out tags,
    tcp_step (cxz st w) (net_sock st w) ev0 = Ok (s', out, tags) /\
    net_sock (net_set st w e') w = s' /\ cxz (net_set st w e') w = cxz st w /\
    net_get (net_set st w e') (side_other w) = net_get st (side_other w) /\
    chan_to (net_set st w e') w = chan_to st w /\
    chan_to (net_set st w e') (side_other w) = chan_to st (side_other w) ++ opt_list (wire_out out).
Proof.
  intros He. destruct (ep_step_spec _ _ _ He) as (s' & out & tags & Hs & Hk & Hc & Hout & _).
  exists s', out, tags. split; [exact Hs|].
  unfold net_sock, chan_to. rewrite side_other_inv, net_get_set_same, net_get_set_other.
  repeat split; assumption.
Qed.

Section Stage.
Variables (c : side) (second : bool) (tc : tuple) (U V : Z) (MR : option Z) (Dt Da dk : Z).
Notation r := (side_other c).
Notation tr := (mirror tc).
Notation U1 := (seq_add U 1).
Notation sz st z := (net_sock st z).

Hypothesis HDt : 0 <= Dt.
Hypothesis HDt2 : 2 * Dt < tcp_RTTE_MIN_RTO * 1000.
Hypothesis Hnz : tuple_nz tc.
Hypothesis HU : 0 <= U < 4294967296.
Hypothesis HV : 0 <= V < 4294967296.
Hypothesis HMR : match MR with Some m => seq_gt m V = false | None => True end.

Definition cst0 : tcp_state := if second then LastAck else FinWait1.
Definition rst0 : tcp_state := if second then FinWait2 else Established.
Definition rst1 : tcp_state := if second then TimeWait else CloseWait.

Definition Cv (st : net) (nxt : Z) (tm : timer) (M : option Z) : Prop :=
  gview (cxz st c) (sz st c) tc cst0 U nxt V tm V M.
Definition Rv0 (st : net) : Prop := gview (cxz st r) (sz st r) tr rst0 V V U (TIdle None) U MR.
Definition Rv1 (st : net) (tm : timer) (la : Z) : Prop := gview (cxz st r) (sz st r) tr rst1 V V U1 tm la MR.

(* the receiver's timer after the FIN: idle in CLOSE-WAIT; TIME-WAIT's 10 s, counted from the receipt *)
Definition rtm (T1 : Z) (tm : timer) : Prop :=
  if second then exists ec, tm = TClose ec /\ T1 + dk + tcp_CLOSE_DELAY <= ec <= T1 + dk + Dt + tcp_CLOSE_DELAY
  else tm = TIdle None.

Definition base (fa : fair_aux) (st : net) : Prop :=
  NI st /\ opts_ok st /\ dl_sync Da fa st /\ net_now st r - net_now st c = dk.

Definition Csent (st : net) (T1 : Z) : Prop :=
  exists e', Cv st U1 (TRetransmit e') (Some U1) /\ T1 + tcp_RTTE_MIN_RTO * 1000 <= e'.

Definition P0 (T0 : Z) (fa : fair_aux) (st : net) : Prop :=
  ntrk fa c /\ ntrk fa r /\ Rv0 st /\ net_now st c <= T0 /\
  ((exists M, Cv st U (TIdle None) M /\ mlim M U) \/
   (exists e M, Cv st U1 (TRetransmit e) M /\ mlim M U /\ e <= T0)).

Definition P1 (T1 : Z) (fa : fair_aux) (st : net) : Prop :=
  Csent st T1 /\ Rv0 st /\ ntrk fa c /\ T1 <= net_now st c /\
  otrk fa st r (is_seg tc CFin U V) (T1 + dk + Dt).

Definition P2 (T1 : Z) (fa : fair_aux) (st : net) : Prop :=
  Csent st T1 /\ (exists tm, Rv1 st tm U /\ rtm T1 tm) /\ ntrk fa c /\ ntrk fa r /\
  T1 <= net_now st c <= T1 + Dt.

Definition P3 (T1 : Z) (fa : fair_aux) (st : net) : Prop :=
  Csent st T1 /\ (exists tm, Rv1 st tm U1 /\ rtm T1 tm) /\ ntrk fa r /\ T1 <= net_now st c /\
  otrk fa st c (is_seg tr CNone V U1) (T1 + 2 * Dt).

Definition J (T0 : Z) (fa : fair_aux) (st : net) : Prop :=
  base fa st /\
  (P0 T0 fa st \/ exists T1, T1 <= T0 /\ (P1 T1 fa st \/ P2 T1 fa st \/ P3 T1 fa st)).

Definition Cfin (st : net) : Prop :=
  if second then s_state (sz st c) = Closed /\ s_tuple (sz st c) = None
  else gview (cxz st c) (sz st c) tc FinWait2 U1 U1 V (TIdle None) V (Some U1).

Definition Q (T0 : Z) (fa : fair_aux) (st : net) : Prop :=
  base fa st /\ Cfin st /\ ntrk fa c /\ ntrk fa r /\
  exists T1 tm, T1 <= T0 /\ Rv1 st tm U1 /\ rtm T1 tm /\ T1 <= net_now st c <= T1 + 2 * Dt.

(* the events of the applications: the receiver neither writes nor closes while it still could *)
Definition cl_ev (ev : net_event) : Prop :=
  match ev with NSend z _ | NClose z => z = r -> second = true | _ => True end.

Lemma J_clock T0 fa st : J T0 fa st -> net_now st c <= T0 + 2 * Dt.
Proof.
  intros ((_ & _ & _ & Hdk) & [(_ & _ & _ & H & _) | (T1 & HT & [(_ & _ & _ & _ & O) | [(_ & _ & _ & _ & H) | (_ & _ & _ & _ & O)]])]).
  - lia.
  - destruct O as (i & p & t & _ & _ & H1 & H2 & _). lia.
  - lia.
  - destruct O as (i & p & t & _ & _ & H1 & H2 & _). lia.
Qed.

Lemma base_step fa st ev st' :
  base fa st -> fair_ev fa st ev -> net_step st ev = Ok st' -> base (fa_after Dt Da fa ev st') st'.
Proof.
  intros (HN & Ho & Hsy & Hdk) Hfe H.
  split; [exact (NI_step _ _ _ HN H)|]. split; [exact (opts_step _ _ _ Ho H)|].
  split; [exact (fa_after_sync Dt Da _ _ _ _ Hsy Hfe H)|].
  pose proof (net_step_skew _ _ _ H) as E. destruct c; cbn [side_other] in *; lia.
Qed.

(* ---------------------------------------------------------------------------------------- *)
(* steps that change no view, no channel and no clock                                        *)
(* ---------------------------------------------------------------------------------------- *)
Definition nstep (st st' : net) : Prop :=
  forall z, veq (sz st' z) (sz st z) /\ cx_addr (cxz st' z) = cx_addr (cxz st z) /\
            cx_ip_mtu (cxz st' z) = cx_ip_mtu (cxz st z) /\
            chan_to st' z = chan_to st z /\ net_now st' z = net_now st z.

Lemma gview_nstep st st' z t stt una nxt ws tm la M :
  nstep st st' -> gview (cxz st z) (sz st z) t stt una nxt ws tm la M ->
  gview (cxz st' z) (sz st' z) t stt una nxt ws tm la M.
Proof.
  intros Hn G. destruct (Hn z) as (V1 & A1 & A2 & _).
  apply (gview_cx _ (cxz st z)); [exact A1 | exact A2|]. exact (veq_gview _ _ _ _ _ _ _ _ _ _ _ V1 G).
Qed.

Lemma Csent_nstep st st' T1 : nstep st st' -> Csent st T1 -> Csent st' T1.
Proof. intros Hn (e' & G & He). exists e'. split; [exact (gview_nstep _ _ _ _ _ _ _ _ _ _ _ Hn G) | exact He]. Qed.

Lemma J_neutral T0 fa st ev st' :
  J T0 fa st -> fair_ev fa st ev -> net_step st ev = Ok st' ->
  (forall z j, ev <> NDeliver z j) -> nstep st st' ->
  J T0 (fa_after Dt Da fa ev st') st'.
Proof.
  intros (HB & HP) Hfe H Hnd Hn.
  split; [exact (base_step _ _ _ _ HB Hfe H)|].
  pose proof HB as (_ & _ & Hsy & _).
  assert (Hch : forall z, chan_to st' z = chan_to st z) by (intros z; apply (Hn z)).
  assert (Hnow : forall z, net_now st' z = net_now st z) by (intros z; apply (Hn z)).
  assert (Kn : forall z, ntrk fa z -> ntrk (fa_after Dt Da fa ev st') z)
    by (intros z; apply (ntrk_keep Dt Da fa st ev st' z Hsy Hfe H (Hch z))).
  assert (Ko : forall z P T, otrk fa st z P T -> otrk (fa_after Dt Da fa ev st') st' z P T)
    by (intros z P T; apply (otrk_keep Dt Da fa st ev st' z P T Hsy Hfe H (Hch z) (Hnd z))).
  destruct HP as [(N1 & N2 & R0 & Hc & HC) | (T1 & HT & [(C1 & R0 & N1 & Hc & O) | [(C1 & (tm & R1 & Htm) & N1 & N2 & Hc) | (C1 & (tm & R1 & Htm) & N2 & Hc & O)]])].
  - left. split; [exact (Kn _ N1)|]. split; [exact (Kn _ N2)|].
    split; [exact (gview_nstep _ _ _ _ _ _ _ _ _ _ _ Hn R0)|]. split; [rewrite Hnow; exact Hc|].
    destruct HC as [(M & G & HM) | (e & M & G & HM & He)].
    + left. exists M. split; [exact (gview_nstep _ _ _ _ _ _ _ _ _ _ _ Hn G) | exact HM].
    + right. exists e, M. split; [exact (gview_nstep _ _ _ _ _ _ _ _ _ _ _ Hn G)|]. auto.
  - right. exists T1. split; [exact HT|]. left.
    split; [exact (Csent_nstep _ _ _ Hn C1)|]. split; [exact (gview_nstep _ _ _ _ _ _ _ _ _ _ _ Hn R0)|].
    split; [exact (Kn _ N1)|]. split; [rewrite Hnow; exact Hc | exact (Ko _ _ _ O)].
  - right. exists T1. split; [exact HT|]. right. left.
    split; [exact (Csent_nstep _ _ _ Hn C1)|].
    split; [exists tm; split; [exact (gview_nstep _ _ _ _ _ _ _ _ _ _ _ Hn R1) | exact Htm]|].
    split; [exact (Kn _ N1)|]. split; [exact (Kn _ N2)|]. rewrite Hnow. exact Hc.
  - right. exists T1. split; [exact HT|]. right. right.
    split; [exact (Csent_nstep _ _ _ Hn C1)|].
    split; [exists tm; split; [exact (gview_nstep _ _ _ _ _ _ _ _ _ _ _ Hn R1) | exact Htm]|].
    split; [exact (Kn _ N2)|]. split; [rewrite Hnow; exact Hc | exact (Ko _ _ _ O)].
Qed.

(* ---------------------------------------------------------------------------------------- *)
(* the views of a J-state; application events                                                *)
(* ---------------------------------------------------------------------------------------- *)
Lemma J_views T0 fa st :
  J T0 fa st ->
  (exists nxt tm M, Cv st nxt tm M) /\ (Rv0 st \/ exists tm la, Rv1 st tm la).
Proof.
  intros (_ & [(_ & _ & R0 & _ & HC) | (T1 & _ & [((e' & C1 & _) & R0 & _) | [((e' & C1 & _) & (tm & R1 & _) & _) | ((e' & C1 & _) & (tm & R1 & _) & _)]])]).
  - split; [|left; exact R0]. destruct HC as [(M & G & _) | (e & M & G & _)]; eauto.
  - split; [eauto | left; exact R0].
  - split; [eauto | right; eauto].
  - split; [eauto | right; eauto].
Qed.

Lemma nstep_sock st w e' s' out :
  net_sock (net_set st w e') w = s' -> cxz (net_set st w e') w = cxz st w ->
  net_get (net_set st w e') (side_other w) = net_get st (side_other w) ->
  chan_to (net_set st w e') w = chan_to st w ->
  chan_to (net_set st w e') (side_other w) = chan_to st (side_other w) ++ opt_list (wire_out out) ->
  wire_out out = None -> veq s' (sz st w) -> nstep st (net_set st w e').
Proof.
  intros E1 E2 E3 E4 E5 Hw Hv z. destruct (side_cases w z) as [-> | ->].
  - rewrite E1. unfold net_now. rewrite E2.
    split; [exact Hv|]. split; [reflexivity|]. split; [reflexivity|]. split; [exact E4 | reflexivity].
  - unfold net_sock, net_now. rewrite E3. split; [apply veq_refl|]. split; [reflexivity|]. split; [reflexivity|].
    split; [|reflexivity]. rewrite E5, Hw. cbn [opt_list]. apply app_nil_r.
Qed.

(* ---------------------------------------------------------------------------------------- *)
(* the clock                                                                                 *)
(* ---------------------------------------------------------------------------------------- *)
Lemma tick_blocked_now fa st d z :
  fair_ev fa st (NTick d) ->
  match net_poll_at st z with Ok (PTime _) | Ok PIngress => False | _ => True end -> Z.max 0 d = 0.
Proof.
  intros (Hd & Hperm) Hp. destruct (Z.eq_dec d 0) as [-> | Hd0]; [reflexivity|]. exfalso.
  destruct (Hperm ltac:(lia) z) as (Hpp & _). unfold poll_permits in Hpp.
  destruct (net_poll_at st z) as [[|t|]|?|]; auto.
Qed.

Lemma tick_le_timer fa st d z e T :
  fair_ev fa st (NTick d) ->
  match net_poll_at st z with Ok PNow => True | Ok (PTime t) => t <= e | Ok PIngress => False | _ => True end ->
  net_now st z <= T -> e <= T -> net_now st z + Z.max 0 d <= T.
Proof.
  intros (Hd & Hperm) Hp Hnow He. destruct (Z.eq_dec d 0) as [-> | Hd0]; [lia|].
  destruct (Hperm ltac:(lia) z) as (Hpp & _). unfold poll_permits in Hpp.
  destruct (net_poll_at st z) as [[|t|]|?|]; try contradiction. lia.
Qed.

Lemma tick_views st d z t stt una nxt ws tm la M :
  gview (cxz st z) (sz st z) t stt una nxt ws tm la M ->
  gview (cxz (tick_net st d) z) (sz (tick_net st d) z) t stt una nxt ws tm la M.
Proof.
  intros G. assert (Es : sz (tick_net st d) z = sz st z) by (destruct z; reflexivity).
  rewrite Es. apply (gview_cx _ (cxz st z)); [destruct z; reflexivity | destruct z; reflexivity | exact G].
Qed.

Lemma J_tick T0 fa st d :
  J T0 fa st -> fair_ev fa st (NTick d) -> net_step st (NTick d) = Ok (tick_net st d) ->
  J T0 (fa_after Dt Da fa (NTick d) (tick_net st d)) (tick_net st d).
Proof.
  intros (HB & HP) Hfe H.
  split; [exact (base_step _ _ _ _ HB Hfe H)|].
  pose proof HB as (_ & _ & Hsy & Hdk).
  assert (Hch : forall z, chan_to (tick_net st d) z = chan_to st z) by (intros z; destruct z; reflexivity).
  assert (Hnow : forall z, net_now (tick_net st d) z = net_now st z + Z.max 0 d) by (intros z; destruct z; reflexivity).
  assert (Kn : forall z, ntrk fa z -> ntrk (fa_after Dt Da fa (NTick d) (tick_net st d)) z)
    by (intros z; apply (ntrk_keep Dt Da fa st _ _ z Hsy Hfe H (Hch z))).
  assert (Ko : forall z P T, otrk fa st z P T -> otrk (fa_after Dt Da fa (NTick d) (tick_net st d)) (tick_net st d) z P T).
  { intros z P T. apply (otrk_keep Dt Da fa st _ _ z P T Hsy Hfe H (Hch z)). intros j; discriminate. }
  assert (Kc : forall T1, Csent st T1 -> Csent (tick_net st d) T1)
    by (intros T1 (e' & G & He); exists e'; split; [apply tick_views; exact G | exact He]).
  destruct HP as [(N1 & N2 & R0 & Hc & HC) | (T1 & HT & [(C1 & R0 & N1 & Hc & O) | [(C1 & (tm & R1 & Htm) & N1 & N2 & Hc) | (C1 & (tm & R1 & Htm) & N2 & Hc & O)]])].
  - left. split; [exact (Kn _ N1)|]. split; [exact (Kn _ N2)|]. split; [apply tick_views; exact R0|].
    destruct HC as [(M & G & HM) | (e & M & G & HM & He)].
    + split; [|left; exists M; split; [apply tick_views; exact G | exact HM]].
      rewrite Hnow. destruct G as (C & Gt & _). destruct C as [K C1 C2 C3 _ _ _ _].
      rewrite (tick_blocked_now fa st d c Hfe); [lia|]. unfold net_poll_at, net_sock in *.
      rewrite (fin_poll_now _ _ tc K); [exact I | rewrite C1; unfold cst0; destruct second; auto | congruence].
    + split; [|right; exists e, M; split; [apply tick_views; exact G | auto]].
      rewrite Hnow. destruct G as (C & Gt & _). destruct C as [K _ _ _ _ _ _ _].
      apply (tick_le_timer fa st d c e T0 Hfe); [|exact Hc | exact He].
      unfold net_poll_at, net_sock in *.
      apply timer_poll_le; [rewrite (k_tuple _ _ _ K); discriminate | left; exact Gt].
  - right. exists T1. split; [exact HT|]. left.
    split; [exact (Kc _ C1)|]. split; [apply tick_views; exact R0|]. split; [exact (Kn _ N1)|].
    split; [rewrite Hnow; lia | exact (Ko _ _ _ O)].
  - right. exists T1. split; [exact HT|]. right. left.
    split; [exact (Kc _ C1)|]. split; [exists tm; split; [apply tick_views; exact R1 | exact Htm]|].
    split; [exact (Kn _ N1)|]. split; [exact (Kn _ N2)|].
    rewrite Hnow. destruct R1 as (C & Gt & Gla & _). destruct C as [K C1' C2 C3 C4 C5 C6 C7].
    rewrite (tick_blocked_now fa st d r Hfe); [lia|]. unfold net_poll_at, net_sock in *.
    assert (Hack : tcp_ack_to_transmit (ep_sock (net_get st r)) = true).
    { unfold tcp_ack_to_transmit. rewrite Gla, C4. apply seq_lt_succ'. exact HU. }
    pose proof (poll_at_owed (cxz st r) _ ltac:(rewrite (k_tuple _ _ _ K); discriminate) Hack) as Hp.
    destruct (tcp_poll_at (cxz st r) (ep_sock (net_get st r))) as [[|t0|]|?|]; try exact I; try exact Hp.
    destruct Hp as (t1 & Hp & _). rewrite C5 in Hp. discriminate.
  - right. exists T1. split; [exact HT|]. right. right.
    split; [exact (Kc _ C1)|]. split; [exists tm; split; [apply tick_views; exact R1 | exact Htm]|].
    split; [exact (Kn _ N2)|]. split; [rewrite Hnow; lia | exact (Ko _ _ _ O)].
Qed.

(* ---------------------------------------------------------------------------------------- *)
(* application events, random numbers                                                        *)
(* ---------------------------------------------------------------------------------------- *)
Lemma cst0_quiet s : s_state s = cst0 -> tcp_may_send s = false /\ tcp_close s = s.
Proof. unfold cst0, tcp_may_send, tcp_close. intros ->. destruct second; split; reflexivity. Qed.

Lemma rst_quiet s : second = true -> (s_state s = rst0 \/ s_state s = rst1) -> tcp_may_send s = false /\ tcp_close s = s.
Proof. unfold rst0, rst1, tcp_may_send, tcp_close. intros -> [-> | ->]; split; reflexivity. Qed.

Lemma J_app T0 fa st ev w ev0 e' :
  J T0 fa st -> fair_ev fa st ev -> cl_ev ev -> sock_event st ev w ev0 ->
  match ev with NRecv _ _ | NSend _ _ | NClose _ => True | _ => False end ->
  ep_step (net_get st w) ev0 = Ok e' -> net_step st ev = Ok (net_set st w e') ->
  J T0 (fa_after Dt Da fa ev (net_set st w e')) (net_set st w e').
Proof.
  intros HJ Hfe Hcl Hse Hk He H.
  destruct (sock_step_pieces st w ev0 e' He) as (s' & out & tags & Hs & E1 & E2 & E3 & E4 & E5).
  destruct (J_views _ _ _ HJ) as ((nxt & tm & M & GC) & GR).
  assert (Hq : wire_out out = None /\ veq s' (sz st w)).
  { destruct (side_cases c w) as [-> | ->].
    - destruct GC as (C & X). destruct (cst0_quiet _ (cs_state _ _ _ _ _ _ _ C)) as (Q1 & Q2).
      apply (app_veq _ _ _ _ _ _ _ _ _ _ ev0 s' out tags (conj C X)); [|exact Hs].
      destruct ev; cbn [sock_event] in Hse; try contradiction; destruct Hse as (_ & ->); first [assumption | lia].
    - assert (Hgen : exists t stt una nxt0 ws tm0 la M0, gview (cxz st r) (sz st r) t stt una nxt0 ws tm0 la M0 /\
                                                      (stt = rst0 \/ stt = rst1)).
      { destruct GR as [G | (tm0 & la & G)]; do 8 eexists; (split; [exact G|]); auto. }
      destruct Hgen as (t & stt & una & nxt0 & ws & tm0 & la & M0 & (C & X) & Hstt).
      apply (app_veq _ _ _ _ _ _ _ _ _ _ ev0 s' out tags (conj C X)); [|exact Hs].
      destruct ev; cbn [sock_event cl_ev] in Hse, Hcl; try contradiction; destruct Hse as (Ez & ->); subst x.
      + destruct (rst_quiet (sz st r) (Hcl eq_refl)) as (Q1 & _); [rewrite (cs_state _ _ _ _ _ _ _ C); exact Hstt | exact Q1].
      + lia.
      + destruct (rst_quiet (sz st r) (Hcl eq_refl)) as (_ & Q2); [rewrite (cs_state _ _ _ _ _ _ _ C); exact Hstt | exact Q2]. }
  destruct Hq as (Hw & Hv).
  apply (J_neutral T0 fa st ev _ HJ Hfe H).
  - intros z j. destruct ev; try discriminate; contradiction.
  - exact (nstep_sock st w e' s' out E1 E2 E3 E4 E5 Hw Hv).
Qed.

Lemma J_rand T0 fa st w isn ts :
  J T0 fa st -> fair_ev fa st (NRand w isn ts) ->
  let st' := net_set st w (ep_set_cx (net_get st w) (cx_rand (ep_cx (net_get st w)) isn ts)) in
  net_step st (NRand w isn ts) = Ok st' -> J T0 (fa_after Dt Da fa (NRand w isn ts) st') st'.
Proof.
  intros HJ Hfe st' H. apply (J_neutral T0 fa st _ _ HJ Hfe H); [intros z j; discriminate|].
  intros z. unfold st', net_sock, chan_to, net_now.
  destruct (side_cases w z) as [-> | ->]; rewrite ?net_get_set_same, ?net_get_set_other.
  - cbn [ep_set_cx ep_sock ep_cx cx_rand cx_addr cx_ip_mtu cx_now].
    split; [apply veq_refl|]. repeat split; try reflexivity; try (destruct w; reflexivity).
  - split; [apply veq_refl|]. repeat split; try reflexivity;
      try (rewrite side_other_inv, net_get_set_same; reflexivity).
Qed.

(* ---------------------------------------------------------------------------------------- *)
(* polls                                                                                     *)
(* ---------------------------------------------------------------------------------------- *)
Lemma succ_ne a : 0 <= a < 4294967296 -> (seq_add a 1 =? a) = false.
Proof.
  intros H. apply Z.eqb_neq. intros X. pose proof (seq_lt_succ' _ H) as Y. rewrite X, seq_lt_refl in Y. discriminate.
Qed.

Lemma cst0_sync : st_sync cst0 /\ want_fin cst0 = true /\ (cst0 = FinWait1 \/ cst0 = LastAck).
Proof. unfold cst0. destruct second; cbn; auto. Qed.
Lemma rst0_sync : st_sync rst0 /\ want_fin rst0 = false /\ (rst0 = Established \/ rst0 = FinWait2).
Proof. unfold rst0. destruct second; cbn; auto. Qed.
Lemma rst1_sync : st_sync rst1 /\ want_fin rst1 = false /\ (rst1 = CloseWait \/ rst1 = TimeWait).
Proof. unfold rst1. destruct second; cbn; auto. Qed.

(* the view of the socket the step does not touch *)
Lemma view_other st w e' z t stt una nxt ws tm la M :
  net_get (net_set st w e') z = net_get st z ->
  gview (cxz st z) (sz st z) t stt una nxt ws tm la M ->
  gview (cxz (net_set st w e') z) (sz (net_set st w e') z) t stt una nxt ws tm la M.
Proof. intros E G. unfold net_sock in *. rewrite E. exact G. Qed.

Lemma Csent_clock st T1 now : Csent st T1 -> now <= T1 + 2 * Dt -> exists e', Cv st U1 (TRetransmit e') (Some U1) /\ now < e'.
Proof. intros (e' & G & He) Hn. exists e'. split; [exact G | lia]. Qed.

(* a poll of the closer after its FIN went out: nothing happens *)
Lemma closer_quiet st T1 ok s' out tags :
  Csent st T1 -> net_now st c <= T1 + 2 * Dt ->
  tcp_step (cxz st c) (sz st c) (EvDispatch ok) = Ok (s', out, tags) -> wire_out out = None /\ veq s' (sz st c).
Proof.
  intros HC Hn Hs. destruct (Csent_clock st T1 _ HC Hn) as (e' & G & He).
  destruct cst0_sync as (S1 & S2 & _).
  eapply quiet_poll_veq; [exact G | exact S1 | right; reflexivity | | | exact Hs].
  - rewrite S2, (succ_ne _ HU). reflexivity.
  - right. left. exists e'. split; [reflexivity | exact He].
Qed.

Lemma recv0_quiet st ok s' out tags :
  Rv0 st -> tcp_step (cxz st r) (sz st r) (EvDispatch ok) = Ok (s', out, tags) -> wire_out out = None /\ veq s' (sz st r).
Proof.
  intros G Hs. destruct rst0_sync as (S1 & S2 & _).
  eapply quiet_poll_veq; [exact G | exact S1 | left; reflexivity | rewrite S2; reflexivity | left; reflexivity | exact Hs].
Qed.

Lemma close_delay_big : tcp_RTTE_MIN_RTO * 1000 <= tcp_CLOSE_DELAY.
Proof. vm_compute. discriminate. Qed.

Lemma recv1_quiet st T1 tm ok s' out tags :
  Rv1 st tm U1 -> rtm T1 tm -> net_now st r <= T1 + dk + 2 * Dt ->
  tcp_step (cxz st r) (sz st r) (EvDispatch ok) = Ok (s', out, tags) -> wire_out out = None /\ veq s' (sz st r).
Proof.
  intros G Htm Hn Hs. destruct rst1_sync as (S1 & S2 & _).
  eapply quiet_poll_veq; [exact G | exact S1 | left; reflexivity | rewrite S2; reflexivity | | exact Hs].
  unfold rtm in Htm. destruct second; [|left; exact Htm].
  destruct Htm as (ec & -> & Hec & _). right. right. exists ec. split; [reflexivity|].
  pose proof close_delay_big. unfold net_now in Hn. lia.
Qed.

Lemma J_poll T0 fa st w e' :
  J T0 fa st -> fair_ev fa st (NPoll w true) ->
  ep_step (net_get st w) (EvDispatch true) = Ok e' -> net_step st (NPoll w true) = Ok (net_set st w e') ->
  J T0 (fa_after Dt Da fa (NPoll w true) (net_set st w e')) (net_set st w e').
Proof.
  intros HJ Hfe He H.
  destruct (sock_step_pieces st w _ e' He) as (s' & out & tags & Hs & E1 & E2 & E3 & E4 & E5).
  assert (Hquiet : wire_out out = None /\ veq s' (sz st w) ->
                   J T0 (fa_after Dt Da fa (NPoll w true) (net_set st w e')) (net_set st w e')).
  { intros (Hw & Hv). apply (J_neutral T0 fa st _ _ HJ Hfe H); [intros z j; discriminate|].
    exact (nstep_sock st w e' s' out E1 E2 E3 E4 E5 Hw Hv). }
  pose proof HJ as (HB & HP). pose proof HB as (_ & _ & Hsy & Hdk).
  pose proof (base_step _ _ _ _ HB Hfe H) as HB'.
  assert (Hnow : forall z, net_now (net_set st w e') z = net_now st z) by (intros z; rewrite (net_step_now _ _ _ z H); lia).
  destruct (side_cases c w) as [Ew | Ew]; subst w.
  - (* the closer is polled *)
    destruct HP as [(N1 & N2 & R0 & Hc & HC) | (T1 & HT & [(C1 & R0 & N1 & Hc & O) | [(C1 & _ & _ & _ & Hc) | (C1 & _ & _ & Hc & O)]])].
    + assert (Hemit : forall nxt tm M, Cv st nxt tm M -> mlim M U ->
                ((nxt = U /\ tm = TIdle None) \/ exists e, tm = TRetransmit e /\ e <= cx_now (cxz st c)) ->
                J T0 (fa_after Dt Da fa (NPoll c true) (net_set st c e')) (net_set st c e')).
      { intros nxt tm M G HM Hcase. destruct cst0_sync as (_ & _ & S3).
        destruct (step_disp_fin _ _ _ _ _ _ _ _ _ _ _ _ G S3 Hcase HM Hs) as (p & e1 & Hw & Hp & He1 & G').
        split; [exact HB'|]. right. exists (net_now st c). split; [exact Hc|]. left.
        split; [exists e1; split; [unfold Cv; rewrite E1, E2; exact G' | exact He1]|].
        split; [apply view_other; [exact E3 | exact R0]|].
        split; [apply (ntrk_keep Dt Da fa st _ _ c Hsy Hfe H E4 N1)|].
        split; [rewrite Hnow; lia|].
        apply (otrk_new Dt Da fa st _ _ r p _ _ Hsy Hfe H); [rewrite E5, Hw; reflexivity | exact N2 | exact Hp | | exact HDt].
        rewrite Hnow. lia. }
      destruct HC as [(M & G & HM) | (e & M & G & HM & He0)].
      * apply (Hemit _ _ _ G HM). left. split; reflexivity.
      * destruct (Z.le_gt_cases e (cx_now (cxz st c))) as [Hdue | Hnd].
        -- apply (Hemit _ _ _ G HM). right. exists e. split; [reflexivity | exact Hdue].
        -- apply Hquiet. destruct cst0_sync as (S1 & S2 & _).
           eapply quiet_poll_veq; [exact G | exact S1 | right; reflexivity | | | exact Hs].
           ++ rewrite S2, (succ_ne _ HU). reflexivity.
           ++ right. left. exists e. split; [reflexivity | lia].
    + apply Hquiet. eapply closer_quiet; [exact C1 | | exact Hs].
      destruct O as (i & p & t & _ & _ & H1 & H2 & _). lia.
    + apply Hquiet. eapply closer_quiet; [exact C1 | lia | exact Hs].
    + apply Hquiet. eapply closer_quiet; [exact C1 | | exact Hs].
      destruct O as (i & p & t & _ & _ & H1 & H2 & _). lia.
  - (* the receiver is polled *)
    rewrite side_other_inv in E3, E5.
    destruct HP as [(_ & _ & R0 & _) | (T1 & HT & [(_ & R0 & _) | [(C1 & (tm & R1 & Htm) & N1 & N2 & Hc) | (C1 & (tm & R1 & Htm) & N2 & Hc & O)]])].
    + apply Hquiet. exact (recv0_quiet st _ _ _ _ R0 Hs).
    + apply Hquiet. exact (recv0_quiet st _ _ _ _ R0 Hs).
    + destruct rst1_sync as (_ & _ & S3).
      assert (Htmc : tm = TIdle None \/ exists e, tm = TClose e).
      { unfold rtm in Htm. destruct second; [destruct Htm as (ec & -> & _); right; eauto | left; exact Htm]. }
      destruct (step_disp_ack _ _ _ _ _ _ _ _ _ _ _ _ R1 S3 Htmc (seq_lt_succ' _ HU) HMR Hs) as (p & Hw & Hp & G').
      split; [exact HB'|]. right. exists T1. split; [exact HT|]. right. right.
      split; [destruct C1 as (e1 & G1 & He1); exists e1; split; [apply view_other; [exact E3 | exact G1] | exact He1]|].
      split; [exists tm; split; [unfold Rv1; rewrite E1, E2; exact G' | exact Htm]|].
      split; [apply (ntrk_keep Dt Da fa st _ _ r Hsy Hfe H E4 N2)|].
      split; [rewrite Hnow; lia|].
      apply (otrk_new Dt Da fa st _ _ c p _ _ Hsy Hfe H); [rewrite E5, Hw; reflexivity | exact N1 | exact Hp | | exact HDt].
      rewrite Hnow. lia.
    + apply Hquiet. eapply recv1_quiet; [exact R1 | exact Htm | | exact Hs].
      destruct O as (i & p & t & _ & _ & H1 & H2 & _). lia.
Qed.

(* ---------------------------------------------------------------------------------------- *)
(* deliveries                                                                                *)
(* ---------------------------------------------------------------------------------------- *)
Lemma mirror_nz' t : tuple_nz t -> tuple_nz (mirror t).
Proof. intros (A & B & C0 & D). unfold tuple_nz, mirror. cbn. auto. Qed.

Lemma U1_range : 0 <= U1 < 4294967296.
Proof. unfold seq_add, seq_modulus. change (2 ^ 32) with 4294967296. apply Z.mod_pos_bound. lia. Qed.

Lemma NI_win st z : NI st -> 0 <= s_remote_win_len (sz st z).
Proof. intros HN. apply (li_win _ (NI_live st z HN)). Qed.

Lemma J_deliver T0 fa st w i p e' :
  J T0 fa st -> fair_ev fa st (NDeliver w i) -> once_ev fa (NDeliver w i) ->
  nth_error (chan_to st w) i = Some p ->
  ep_step (net_get st w) (EvSegment (fst p) (wire_parse (snd p))) = Ok e' ->
  net_step st (NDeliver w i) = Ok (net_set st w e') ->
  Q T0 (fa_after Dt Da fa (NDeliver w i) (net_set st w e')) (net_set st w e') \/
  J T0 (fa_after Dt Da fa (NDeliver w i) (net_set st w e')) (net_set st w e').
Proof.
  intros HJ Hfe Hoe Hn He H.
  destruct (sock_step_pieces st w _ e' He) as (s' & out & tags & Hs & E1 & E2 & E3 & E4 & E5).
  pose proof HJ as (HB & HP). pose proof HB as (HN & _ & Hsy & Hdk).
  pose proof (base_step _ _ _ _ HB Hfe H) as HB'. pose proof HB' as (HN' & _).
  assert (Hnow : forall z, net_now (net_set st w e') z = net_now st z) by (intros z; rewrite (net_step_now _ _ _ z H); lia).
  assert (Hwin' : 0 <= s_remote_win_len s') by (rewrite <- E1; apply NI_win; exact HN').
  destruct (side_cases c w) as [Ew | Ew]; subst w.
  - (* towards the closer *)
    destruct HP as [(N1 & _) | (T1 & HT & [(_ & _ & N1 & _) | [(_ & _ & N1 & _) | (C1 & (tm & R1 & Htm) & N2 & Hc & O)]])];
      try (exfalso; exact (ntrk_nodeliver fa c i N1 Hoe)).
    destruct (otrk_deliver fa st c _ _ i O Hoe) as (p' & Hn' & Hp). rewrite Hn in Hn'. inversion Hn'; subst p'; clear Hn'.
    destruct (is_seg_parse _ _ _ _ _ Hp HV U1_range) as (P1' & P2' & P3' & P4' & P5').
    rewrite mirror_mirror in P1'.
    destruct C1 as (e1 & G1 & He1). destruct cst0_sync as (_ & _ & S3).
    destruct (step_ackfin_rx _ _ _ _ _ _ _ _ _ _ _ _ _ _ _ G1 S3 (or_intror eq_refl) (or_intror (ex_intro _ e1 eq_refl))
                Hnz P1' P2' P3' P4' P5' Hs Hwin') as (Hw & F1 & F2).
    left. split; [exact HB'|].
    split.
    { unfold Cfin, cst0 in *. rewrite E1, E2. destruct second; [exact (F2 eq_refl) | exact (F1 eq_refl)]. }
    split; [exact (otrk_delivered Dt Da fa st _ c _ _ i Hsy Hfe H E4 O Hoe)|].
    split; [apply (ntrk_keep Dt Da fa st _ _ r Hsy Hfe H); [rewrite E5, Hw; apply app_nil_r | exact N2]|].
    exists T1, tm. split; [exact HT|]. split; [apply view_other; [exact E3 | exact R1]|]. split; [exact Htm|].
    rewrite Hnow. destruct O as (i0 & p0 & t0 & _ & _ & H1 & H2 & _). lia.
  - (* towards the receiver *)
    rewrite side_other_inv in E3, E5.
    destruct HP as [(_ & N2 & _) | (T1 & HT & [(C1 & R0 & N1 & Hc & O) | [(_ & _ & _ & N2 & _) | (_ & _ & N2 & _)]])];
      try (exfalso; exact (ntrk_nodeliver fa r i N2 Hoe)).
    destruct (otrk_deliver fa st r _ _ i O Hoe) as (p' & Hn' & Hp). rewrite Hn in Hn'. inversion Hn'; subst p'; clear Hn'.
    destruct (is_seg_parse _ _ _ _ _ Hp HU HV) as (P1' & P2' & P3' & P4' & P5').
    destruct rst0_sync as (_ & _ & S3).
    destruct (step_fin_rx _ _ _ _ _ _ _ _ _ _ _ _ _ R0 S3 (mirror_nz' _ Hnz) P1' P2' P3' P4' P5' Hs Hwin') as (Hw & G').
    right. split; [exact HB'|]. right. exists T1. split; [exact HT|]. right. left.
    split; [destruct C1 as (e1 & G1 & He1); exists e1; split; [apply view_other; [exact E3 | exact G1] | exact He1]|].
    assert (Hdl : net_now st r <= T1 + dk + Dt) by (destruct O as (i0 & p0 & t0 & _ & _ & H1 & H2 & _); lia).
    split.
    { unfold Rv1, rtm, rst1, rst0 in *. rewrite E1, E2. destruct second; cbn [tcp_state_eqb] in G'.
      - eexists. split; [exact G'|]. eexists. split; [reflexivity|]. unfold net_now in *. lia.
      - eexists. split; [exact G' | reflexivity]. }
    split; [apply (ntrk_keep Dt Da fa st _ _ c Hsy Hfe H); [rewrite E5, Hw; apply app_nil_r | exact N1]|].
    split; [exact (otrk_delivered Dt Da fa st _ r _ _ i Hsy Hfe H E4 O Hoe)|].
    rewrite Hnow. lia.
Qed.

(* ---------------------------------------------------------------------------------------- *)
(* one step; the half of the close                                                           *)
(* ---------------------------------------------------------------------------------------- *)
Lemma J_step T0 fa st ev st' :
  cl_ev ev -> J T0 fa st -> fair_ev fa st ev -> once_ev fa ev -> net_step st ev = Ok st' ->
  Q T0 (fa_after Dt Da fa ev st') st' \/ J T0 (fa_after Dt Da fa ev st') st'.
Proof.
  intros Hcl HJ Hfe Hoe H.
  destruct (net_step_kind _ _ _ H) as [w ev0 e' Hse He -> | to i -> Hnone -> | d -> -> | w isn0 ts -> -> | to i Hd].
  - destruct ev as [to i | to i | to i | d | z i1 t1 | z ok | z data | z n | z]; cbn [sock_event] in Hse; try contradiction.
    + destruct Hse as (-> & p & Hn & ->). exact (J_deliver T0 fa st w i p e' HJ Hfe Hoe Hn He H).
    + destruct Hse as (-> & ->). pose proof Hfe as Hok. cbn [fair_ev] in Hok. subst ok.
      right. exact (J_poll T0 fa st w e' HJ Hfe He H).
    + right. apply (J_app T0 fa st _ w ev0 e' HJ Hfe Hcl Hse I He H).
    + right. apply (J_app T0 fa st _ w ev0 e' HJ Hfe Hcl Hse I He H).
    + right. apply (J_app T0 fa st _ w ev0 e' HJ Hfe Hcl Hse I He H).
  - exfalso. destruct HJ as ((_ & _ & (Hl & _) & _) & _). exact (once_ev_nth fa st to i Hl Hoe Hnone).
  - right. exact (J_tick T0 fa st d HJ Hfe H).
  - right. exact (J_rand T0 fa st w isn0 ts HJ Hfe H).
  - destruct Hd as [-> | ->]; destruct Hfe.
Qed.

Theorem half_close_completes T0 : forall evs fa st st',
  J T0 fa st -> Forall cl_ev evs -> fair_run Dt Da fa st evs -> once_run Dt Da fa st evs ->
  net_run st evs = Ok st' -> T0 + 2 * Dt < net_now st' c ->
  exists pre post st1,
    evs = pre ++ post /\ net_run st pre = Ok st1 /\ net_run st1 post = Ok st' /\
    Forall cl_ev post /\ fair_run Dt Da (fa_run Dt Da fa st pre) st1 post /\
    once_run Dt Da (fa_run Dt Da fa st pre) st1 post /\ Q T0 (fa_run Dt Da fa st pre) st1.
Proof.
  apply (rel_leads_ev Dt Da cl_ev (J T0) (Q T0) c (T0 + 2 * Dt)).
  - intros fa st HJ. exact (J_clock T0 fa st HJ).
  - intros fa st ev st' Hcl HJ Hfe Hoe H. exact (J_step T0 fa st ev st' Hcl HJ Hfe Hoe H).
Qed.

End Stage.
