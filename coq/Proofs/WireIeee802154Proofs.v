(* Lemmas about Model/WireIeee802154.v (properties C06, C07). *)
From SV Require Import Lib.Base Gen.WireFields Model.WireBase Model.WireIeee802154
  Proofs.WireBaseProofs Proofs.Wire2Kit.

Lemma f154_nth_skipn (l : list Z) n i : nth i (skipn n l) 0 = nth (n + i) l 0.
Proof.
  revert l; induction n; intros l; [reflexivity|]. destruct l as [|x l]; cbn [skipn Nat.add nth].
  - destruct i; reflexivity.
  - apply IHn.
Qed.

(* ---------- the frame control word ---------- *)

Lemma f154_fc_ok bs : 2 <= blen bs -> f154_fc bs = Ok (f154_le_dec (firstn 2 bs)).
Proof.
  intros H. unfold f154_fc, f154_get_le16, wb_field. zfold. rewrite wb_sub_ok by lia. cbn [obind].
  zfold. cbn [skipn]. unfold f154_read_le16, f154_read_le.
  rewrite (blen_firstn 2) by lia. zbool. zfold. rewrite firstn_firstn. reflexivity.
Qed.

Lemma f154_mode_size_cases m :
  (m = 2 /\ f154_mode_size m = 2) \/ (m = 3 /\ f154_mode_size m = 8) \/ (m <> 2 /\ m <> 3 /\ f154_mode_size m = 0).
Proof.
  unfold f154_mode_size, f154_AM_SHORT, f154_AM_EXTENDED.
  destruct (m =? 2) eqn:E2; [bsplit; lia|]. destruct (m =? 3) eqn:E3; bsplit; lia.
Qed.

Lemma f154_pan_size_range p : 0 <= f154_pan_size p <= 2.
Proof. destruct p; cbn; lia. Qed.

Lemma f154_flags_len_range fl : 0 <= f154_flags_len fl <= 20.
Proof.
  destruct fl as [[[dp da] sp] sa]. unfold f154_flags_len.
  pose proof (f154_pan_size_range dp). pose proof (f154_pan_size_range sp).
  destruct (f154_mode_size_cases da) as [[_ ->]|[[_ ->]|[_ [_ ->]]]];
  destruct (f154_mode_size_cases sa) as [[_ ->]|[[_ ->]|[_ [_ ->]]]]; lia.
Qed.

(* total length of the addressing fields announced by a frame control word *)
Definition f154_alen (raw : Z) : Z :=
  match f154_flags_of raw with Some fl => f154_flags_len fl | None => 0 end.

Lemma f154_alen_range raw : 0 <= f154_alen raw <= 20.
Proof. unfold f154_alen. destruct (f154_flags_of raw); [apply f154_flags_len_range | lia]. Qed.

(* where the auxiliary security header starts *)
Definition f154_astart (raw : Z) : Z :=
  3 + (if f154_has_addressing (f154_ft_of raw) (f154_ver_of raw) then f154_alen raw else 0).

Lemma f154_astart_range raw : 3 <= f154_astart raw <= 3 + f154_alen raw.
Proof. unfold f154_astart. pose proof (f154_alen_range raw). case_if; lia. Qed.

Lemma f154_flags_ok bs raw : f154_fc bs = Ok raw -> f154_addr_present_flags bs = Ok (f154_flags_of raw).
Proof. intros H. unfold f154_addr_present_flags. rewrite H. reflexivity. Qed.

Lemma f154_addressing_fields_ok bs raw : f154_fc bs = Ok raw -> 3 + f154_alen raw <= blen bs ->
  (f154_addressing_fields bs = Ok None /\
   (f154_has_addressing (f154_ft_of raw) (f154_ver_of raw) = false \/ f154_flags_of raw = None)) \/
  (exists fl af, f154_has_addressing (f154_ft_of raw) (f154_ver_of raw) = true /\
     f154_flags_of raw = Some fl /\ f154_addressing_fields bs = Ok (Some af) /\
     blen af = f154_flags_len fl /\ af = firstn (Z.to_nat (f154_flags_len fl)) (skipn 3 bs)).
Proof.
  intros Hfc Hl. unfold f154_addressing_fields. rewrite Hfc. cbn [obind].
  destruct (f154_has_addressing _ _) eqn:Ha; cbn [negb]; [|left; split; [reflexivity | left; reflexivity]].
  rewrite (f154_flags_ok bs raw Hfc). cbn [obind].
  unfold f154_alen in Hl. destruct (f154_flags_of raw) as [fl|] eqn:Hf;
    [|left; split; [reflexivity | right; reflexivity]].
  right. exists fl. pose proof (f154_flags_len_range fl). zfold.
  rewrite wb_from_ok by lia. cbn [obind]. unfold wb_upto.
  rewrite blen_skipn by lia. zbool. cbn [obind]. eexists. repeat split.
  rewrite blen_firstn; [reflexivity|]. rewrite blen_skipn; lia.
Qed.

Lemma f154_aux_start_ok bs raw : f154_fc bs = Ok raw -> 3 + f154_alen raw <= blen bs ->
  f154_aux_security_header_start bs = Ok (f154_astart raw).
Proof.
  intros Hfc Hl. unfold f154_aux_security_header_start, f154_astart.
  destruct (f154_addressing_fields_ok bs raw Hfc Hl) as [[-> [Ha|Hf]]|(fl & af & Ha & Hf & -> & Hlen & _)];
    cbn [obind].
  - rewrite Ha. reflexivity.
  - unfold f154_alen. rewrite Hf. case_if; reflexivity.
  - rewrite Ha. unfold f154_alen. rewrite Hf, Hlen. reflexivity.
Qed.

(* ---------- the security control octet ---------- *)

Definition f154_kil_of (ctl : Z) : option Z :=
  let m := Z.land (Z.shiftr ctl 3) 3 in
  if m =? 0 then Some 0 else if m =? 1 then Some 1 else if m =? 2 then Some 5
  else if m =? 3 then Some 9 else None.
Definition f154_fcs_of (ctl : Z) : bool := Z.land (Z.shiftr ctl 5) 1 =? 1.
Definition f154_shl_of (ctl : Z) : Z :=
  1 + (if f154_fcs_of ctl then 0 else 4) + f154_opt_len (f154_kil_of ctl).
Definition f154_mic_of (ctl : Z) : Z :=
  let l := Z.land ctl 7 in
  if (l =? 0) || (l =? 4) then 0 else if (l =? 1) || (l =? 5) then 4
  else if (l =? 2) || (l =? 6) then 8 else 16.

Lemma f154_kil_range ctl : 0 <= f154_opt_len (f154_kil_of ctl) <= 9.
Proof. unfold f154_kil_of. repeat case_if; cbn; lia. Qed.

Lemma f154_shl_range ctl : 1 <= f154_shl_of ctl <= 14.
Proof. unfold f154_shl_of. pose proof (f154_kil_range ctl). case_if; lia. Qed.

Lemma f154_mic_range ctl : 0 <= f154_mic_of ctl <= 16.
Proof. unfold f154_mic_of. repeat case_if; lia. Qed.

Section SecCtl.
  Variables (bs : list Z) (raw : Z).
  Hypothesis Hfc : f154_fc bs = Ok raw.
  Hypothesis Hl : 3 + f154_alen raw + 1 <= blen bs.

  Let ctl := nth (Z.to_nat (f154_astart raw)) bs 0.

  Lemma f154_security_control_ok : f154_security_control bs = Ok ctl.
  Proof.
    unfold f154_security_control. rewrite (f154_aux_start_ok bs raw Hfc) by lia. cbn [obind].
    pose proof (f154_astart_range raw). rewrite wb_from_ok by lia. cbn [obind].
    rewrite wb_get_u8_ok by (rewrite blen_skipn; lia). f_equal. zfold.
    unfold ctl. rewrite f154_nth_skipn. f_equal. lia.
  Qed.

  Lemma f154_security_header_len_ok : f154_security_header_len bs = Ok (f154_shl_of ctl).
  Proof.
    unfold f154_security_header_len, f154_frame_counter_suppressed, f154_key_identifier_length,
      f154_key_identifier_mode. rewrite f154_security_control_ok. reflexivity.
  Qed.

  Lemma f154_mic_len_ok : f154_mic_len bs = Ok (f154_mic_of ctl).
  Proof.
    unfold f154_mic_len, f154_security_level. rewrite f154_security_control_ok. cbn [obind].
    unfold f154_mic_of. cbv zeta. pose proof (land_7_range ctl).
    repeat (case_if; [reflexivity|]). exfalso. bsplit.
    repeat match goal with H : _ || _ = false |- _ => apply orb_false_elim in H; destruct H end.
    bsplit. lia.
  Qed.
End SecCtl.

(* ---------- C07: check_len ---------- *)

Lemma f154_check_len_inv bs : f154_check_len bs = Ok tt ->
  exists raw, f154_fc bs = Ok raw /\ 3 <= blen bs <= 127 /\ 3 + f154_alen raw <= blen bs /\
    (f154_bit_of raw 3 = true ->
       3 + f154_alen raw + 1 <= blen bs /\
       let ctl := nth (Z.to_nat (f154_astart raw)) bs 0 in
       3 + f154_alen raw + f154_shl_of ctl + f154_mic_of ctl <= blen bs).
Proof.
  unfold f154_check_len. destruct (blen bs <? 3) eqn:E3; [discriminate|].
  destruct (blen bs >? 127) eqn:E127; [discriminate|]. bsplit.
  pose proof (f154_fc_ok bs ltac:(lia)) as Hfc. set (raw := f154_le_dec _) in Hfc.
  rewrite (f154_flags_ok bs raw Hfc). cbn [obind].
  unfold f154_security_enabled, f154_fc_bit. rewrite Hfc. cbn [obind]. zfold.
  intros H. exists raw. split; [reflexivity|]. split; [lia|].
  unfold f154_alen. pose proof (f154_alen_range raw) as Hr. unfold f154_alen in Hr.
  destruct (f154_flags_of raw) as [fl|] eqn:Hf.
  - destruct (f154_flags_len fl >? blen bs) eqn:E; [discriminate|]. cbn [obind] in H.
    destruct (f154_bit_of raw 3) eqn:Hs.
    + destruct (3 + f154_flags_len fl + 1 >? blen bs) eqn:E1; [discriminate|]. bsplit.
      assert (Hl : 3 + f154_alen raw + 1 <= blen bs) by (unfold f154_alen; rewrite Hf; lia).
      rewrite (f154_security_header_len_ok bs raw Hfc Hl), (f154_mic_len_ok bs raw Hfc Hl) in H.
      cbn [obind] in H. case_if_in H; [discriminate|]. bsplit.
      pose proof (f154_shl_range (nth (Z.to_nat (f154_astart raw)) bs 0)).
      pose proof (f154_mic_range (nth (Z.to_nat (f154_astart raw)) bs 0)).
      split; [lia|]. intros _. split; [lia|]. cbv zeta. lia.
    + cbn [obind] in H. case_if_in H; [discriminate|]. bsplit. split; [lia | discriminate].
  - cbn [obind] in H. destruct (f154_bit_of raw 3) eqn:Hs.
    + destruct (3 + 0 + 1 >? blen bs) eqn:E1; [discriminate|]. bsplit.
      assert (Hl : 3 + f154_alen raw + 1 <= blen bs) by (unfold f154_alen; rewrite Hf; lia).
      rewrite (f154_security_header_len_ok bs raw Hfc Hl), (f154_mic_len_ok bs raw Hfc Hl) in H.
      cbn [obind] in H. case_if_in H; [discriminate|]. bsplit.
      split; [lia|]. intros _. split; [lia|]. cbv zeta. lia.
    + split; [lia | discriminate].
Qed.

Lemma f154_check_len_no_panic bs : f154_check_len bs <> Panic.
Proof.
  unfold f154_check_len. destruct (blen bs <? 3) eqn:E3; [discriminate|].
  destruct (blen bs >? 127) eqn:E127; [discriminate|]. bsplit.
  pose proof (f154_fc_ok bs ltac:(lia)) as Hfc. set (raw := f154_le_dec _) in Hfc.
  rewrite (f154_flags_ok bs raw Hfc). cbn [obind].
  unfold f154_security_enabled, f154_fc_bit. rewrite Hfc. cbn [obind]. zfold.
  assert (G : forall off, off = f154_alen raw ->
    obind (if f154_bit_of raw 3
           then if 3 + off + 1 >? blen bs then Err 0
                else do l <- f154_security_header_len bs; do m <- f154_mic_len bs; Ok (3 + off + l + m)
           else Ok (3 + off))
      (fun offset => if offset >? blen bs then Err 0 else Ok tt) <> Panic).
  { intros off ->. destruct (f154_bit_of raw 3); cbn [obind]; [|case_if; discriminate].
    destruct (3 + f154_alen raw + 1 >? blen bs) eqn:E1; [discriminate|]. bsplit.
    rewrite (f154_security_header_len_ok bs raw Hfc ltac:(lia)), (f154_mic_len_ok bs raw Hfc ltac:(lia)).
    cbn [obind]. case_if; discriminate. }
  unfold f154_alen in G. destruct (f154_flags_of raw) as [fl|].
  - case_if; cbn [obind]; [discriminate|]. apply G. reflexivity.
  - cbn [obind]. apply G. reflexivity.
Qed.

(* ---------- C07: accessors ---------- *)

Lemma f154_read_addr_nopanic af off m : 0 <= off -> off + f154_mode_size m <= blen af ->
  f154_read_addr af off m <> Panic.
Proof.
  intros Ho Hl. unfold f154_read_addr, f154_AM_ABSENT, f154_AM_SHORT, f154_AM_EXTENDED.
  destruct (m =? 0); [discriminate|].
  destruct (f154_mode_size_cases m) as [[-> E]|[[-> E]|[N2 [N3 E]]]]; rewrite E in Hl; zfold.
  - rewrite wb_sub_ok by lia. cbn [obind]. discriminate.
  - cbv iota. rewrite wb_sub_ok by lia. cbn [obind]. discriminate.
  - destruct (m =? 2) eqn:E2; [bsplit; lia|]. destruct (m =? 3) eqn:E3; [bsplit; lia|]. discriminate.
Qed.

Lemma f154_read_pan_nopanic af off : 0 <= off -> off + 2 <= blen af ->
  (do t <- wb_from af off; do s <- wb_upto t 2; do v <- f154_read_le16 s; Ok (Some v)) <> Panic.
Proof.
  intros Ho Hl. rewrite wb_from_ok by lia. cbn [obind]. unfold wb_upto.
  rewrite blen_skipn by lia. zbool. cbn [obind]. unfold f154_read_le16, f154_read_le.
  rewrite blen_firstn by (rewrite blen_skipn; lia). zbool. discriminate.
Qed.

Lemma f154_fc_accessors_safe bs raw : f154_fc bs = Ok raw ->
  f154_frame_type bs <> Panic /\ (forall bit, f154_fc_bit bit bs <> Panic) /\
  f154_dst_addressing_mode bs <> Panic /\ f154_frame_version bs <> Panic /\
  f154_src_addressing_mode bs <> Panic.
Proof.
  intros H. unfold f154_frame_type, f154_fc_bit, f154_dst_addressing_mode, f154_frame_version,
    f154_src_addressing_mode. rewrite H. cbn [obind]. repeat split; try intros ?; discriminate.
Qed.

Section Addressing.
  Variables (bs : list Z) (raw : Z).
  Hypothesis Hfc : f154_fc bs = Ok raw.
  Hypothesis Hl : 3 + f154_alen raw <= blen bs.

  Lemma f154_sequence_number_safe : f154_sequence_number bs <> Panic.
  Proof.
    unfold f154_sequence_number, f154_frame_type. rewrite Hfc. cbn [obind]. pose proof (f154_alen_range raw).
    case_if; [|discriminate]. zfold. rewrite wb_get_u8_ok by lia. discriminate.
  Qed.

  Lemma f154_dst_pan_id_safe : f154_dst_pan_id bs <> Panic.
  Proof.
    unfold f154_dst_pan_id. rewrite (f154_flags_ok _ _ Hfc). cbn [obind].
    destruct (f154_addressing_fields_ok bs raw Hfc Hl) as [[Haf _]|(fl & af & Ha & Hf & Haf & Hlen & _)].
    - rewrite Haf. destruct (f154_flags_of raw) as [[[[[] ?] ?] ?]|]; cbn [obind]; discriminate.
    - rewrite Hf, Haf. destruct fl as [[[dp da] sp] sa]. destruct dp; [|discriminate]. cbn [obind].
      unfold f154_flags_len in Hlen. cbn [f154_pan_size] in Hlen.
      pose proof (f154_pan_size_range sp).
      destruct (f154_mode_size_cases da) as [[_ E1]|[[_ E1]|[_ [_ E1]]]];
      destruct (f154_mode_size_cases sa) as [[_ E2]|[[_ E2]|[_ [_ E2]]]]; rewrite E1, E2 in Hlen;
      (unfold wb_upto; zbool; cbn [obind]; unfold f154_read_le16, f154_read_le;
       rewrite (blen_firstn 2) by lia; zbool; discriminate).
  Qed.

  Lemma f154_dst_addr_safe : f154_dst_addr bs <> Panic.
  Proof.
    unfold f154_dst_addr. rewrite (f154_flags_ok _ _ Hfc). cbn [obind].
    destruct (f154_addressing_fields_ok bs raw Hfc Hl) as [[Haf _]|(fl & af & Ha & Hf & Haf & Hlen & _)].
    - rewrite Haf. destruct (f154_flags_of raw) as [[[[? ?] ?] ?]|]; cbn [obind]; discriminate.
    - rewrite Hf, Haf. destruct fl as [[[dp da] sp] sa]. cbn [obind].
      unfold f154_flags_len in Hlen. pose proof (f154_pan_size_range dp). pose proof (f154_pan_size_range sp).
      apply f154_read_addr_nopanic; [lia|].
      destruct (f154_mode_size_cases sa) as [[_ E2]|[[_ E2]|[_ [_ E2]]]]; rewrite E2 in Hlen; lia.
  Qed.

  Lemma f154_src_pan_id_safe : f154_src_pan_id bs <> Panic.
  Proof.
    unfold f154_src_pan_id. rewrite (f154_flags_ok _ _ Hfc). cbn [obind].
    destruct (f154_addressing_fields_ok bs raw Hfc Hl) as [[Haf _]|(fl & af & Ha & Hf & Haf & Hlen & _)].
    - rewrite Haf. destruct (f154_flags_of raw) as [[[[? ?] []] ?]|]; cbn [obind]; discriminate.
    - rewrite Hf, Haf. destruct fl as [[[dp da] sp] sa]. destruct sp; [|discriminate]. cbn [obind].
      unfold f154_flags_len in Hlen. cbn [f154_pan_size] in Hlen. pose proof (f154_pan_size_range dp).
      destruct (f154_mode_size_cases da) as [[_ E1]|[[_ E1]|[_ [_ E1]]]];
      destruct (f154_mode_size_cases sa) as [[_ E2]|[[_ E2]|[_ [_ E2]]]]; rewrite E1, E2 in Hlen; rewrite E1;
      apply f154_read_pan_nopanic; lia.
  Qed.

  Lemma f154_src_addr_safe : f154_src_addr bs <> Panic.
  Proof.
    unfold f154_src_addr. rewrite (f154_flags_ok _ _ Hfc). cbn [obind].
    destruct (f154_addressing_fields_ok bs raw Hfc Hl) as [[Haf _]|(fl & af & Ha & Hf & Haf & Hlen & _)].
    - rewrite Haf. destruct (f154_flags_of raw) as [[[[? ?] ?] ?]|]; cbn [obind]; discriminate.
    - rewrite Hf, Haf. destruct fl as [[[dp da] sp] sa]. cbn [obind].
      unfold f154_flags_len in Hlen. pose proof (f154_pan_size_range dp). pose proof (f154_pan_size_range sp).
      apply f154_read_addr_nopanic; [|lia].
      destruct (f154_mode_size_cases da) as [[_ E1]|[[_ E1]|[_ [_ E1]]]]; rewrite E1; lia.
  Qed.

  Lemma f154_security_enabled_ok : f154_security_enabled bs = Ok (f154_bit_of raw 3).
  Proof. unfold f154_security_enabled, f154_fc_bit. rewrite Hfc. reflexivity. Qed.

  (* the end of the MAC header as far as check_len validated it *)
  Hypothesis Hsec : f154_bit_of raw 3 = true ->
    3 + f154_alen raw + 1 <= blen bs /\
    3 + f154_alen raw + f154_shl_of (nth (Z.to_nat (f154_astart raw)) bs 0) +
      f154_mic_of (nth (Z.to_nat (f154_astart raw)) bs 0) <= blen bs.

  Lemma f154_payload_start_ok : exists p, f154_payload_start bs = Ok p /\ 0 <= p <= blen bs.
  Proof.
    unfold f154_payload_start. rewrite (f154_aux_start_ok bs raw Hfc Hl), f154_security_enabled_ok. cbn [obind].
    pose proof (f154_astart_range raw).
    destruct (f154_bit_of raw 3) eqn:Hs.
    - destruct (Hsec eq_refl) as [H1 H2].
      rewrite (f154_security_header_len_ok bs raw Hfc H1). cbn [obind]. eexists; split; [reflexivity|].
      pose proof (f154_shl_range (nth (Z.to_nat (f154_astart raw)) bs 0)).
      pose proof (f154_mic_range (nth (Z.to_nat (f154_astart raw)) bs 0)). lia.
    - eexists; split; [reflexivity|]. lia.
  Qed.

  Lemma f154_mac_header_safe : f154_mac_header bs <> Panic.
  Proof.
    unfold f154_mac_header. destruct f154_payload_start_ok as (p & -> & Hp). cbn [obind].
    unfold wb_upto. zbool. discriminate.
  Qed.

  Lemma f154_payload_safe : f154_payload bs <> Panic.
  Proof.
    unfold f154_payload, f154_frame_type. rewrite Hfc. cbn [obind]. case_if; [|discriminate].
    destruct f154_payload_start_ok as (p & -> & Hp). cbn [obind]. rewrite wb_from_ok by lia. discriminate.
  Qed.

  (* accessors of the auxiliary security header: they apply when the security bit is set *)
  Hypothesis Hse : f154_bit_of raw 3 = true.

  Let ctl := nth (Z.to_nat (f154_astart raw)) bs 0.

  Lemma f154_sec_facts : 3 + f154_alen raw + 1 <= blen bs /\
    f154_astart raw + f154_shl_of ctl + f154_mic_of ctl <= blen bs /\ f154_security_control bs = Ok ctl.
  Proof.
    destruct (Hsec Hse) as [H1 H2]. pose proof (f154_astart_range raw). fold ctl in H2.
    split; [lia|]. split; [lia|]. apply f154_security_control_ok; assumption.
  Qed.

  Lemma f154_security_fields_safe :
    f154_security_level bs <> Panic /\ f154_key_identifier_mode bs <> Panic /\
    f154_frame_counter_suppressed bs <> Panic.
  Proof.
    destruct f154_sec_facts as (_ & _ & Hc).
    unfold f154_security_level, f154_key_identifier_mode, f154_frame_counter_suppressed. rewrite Hc.
    repeat split; discriminate.
  Qed.

  Lemma f154_frame_counter_safe : f154_frame_counter bs <> Panic.
  Proof.
    destruct f154_sec_facts as (H1 & H2 & Hc).
    unfold f154_frame_counter, f154_frame_counter_suppressed. rewrite Hc. cbn [obind].
    destruct (Z.land (Z.shiftr ctl 5) 1 =? 1) eqn:Hs; [discriminate|].
    rewrite (f154_aux_start_ok bs raw Hfc Hl). cbn [obind].
    pose proof (f154_astart_range raw). pose proof (f154_mic_range ctl). pose proof (f154_kil_range ctl).
    unfold f154_shl_of, f154_fcs_of in H2. rewrite Hs in H2.
    rewrite wb_from_ok by lia. cbn [obind].
    destruct (wb_sub_ok_len (skipn (Z.to_nat (f154_astart raw)) bs) 1 5 ltac:(lia)
                ltac:(rewrite blen_skipn; lia)) as (f & -> & Hf & _). cbn [obind].
    unfold f154_read_le32, f154_read_le. rewrite Hf. zbool. discriminate.
  Qed.

  Lemma f154_key_identifier_ok :
    exists ki, f154_key_identifier bs = Ok ki /\ blen ki = f154_opt_len (f154_kil_of ctl).
  Proof.
    destruct f154_sec_facts as (H1 & H2 & Hc).
    unfold f154_key_identifier. rewrite (f154_aux_start_ok bs raw Hfc Hl). cbn [obind].
    pose proof (f154_astart_range raw). pose proof (f154_mic_range ctl). pose proof (f154_kil_range ctl).
    rewrite wb_from_ok by lia. cbn [obind].
    unfold f154_key_identifier_length, f154_key_identifier_mode, f154_frame_counter_suppressed.
    rewrite Hc. cbn [obind]. fold (f154_kil_of ctl). fold (f154_fcs_of ctl).
    unfold f154_shl_of in H2.
    assert (Hb : blen (skipn (Z.to_nat (f154_astart raw)) bs) = blen bs - f154_astart raw)
      by (apply blen_skipn; lia).
    destruct (f154_fcs_of ctl).
    - rewrite wb_from_ok by lia. cbn [obind]. unfold wb_upto. rewrite blen_skipn by lia. zbool.
      eexists; split; [reflexivity|]. rewrite blen_firstn; [reflexivity|]. rewrite blen_skipn; lia.
    - rewrite wb_from_ok by lia. cbn [obind]. unfold wb_upto. rewrite blen_skipn by lia. zbool.
      eexists; split; [reflexivity|]. rewrite blen_firstn; [reflexivity|]. rewrite blen_skipn; lia.
  Qed.

  Lemma f154_key_source_safe : f154_key_source bs <> Panic.
  Proof.
    unfold f154_key_source. destruct f154_key_identifier_ok as (ki & -> & Hk). cbn [obind].
    destruct (blen ki >? 1) eqn:E; [|discriminate]. bsplit. unfold wb_upto. zbool. discriminate.
  Qed.

  Lemma f154_key_index_safe : f154_key_index bs <> Panic.
  Proof.
    unfold f154_key_index. destruct f154_key_identifier_ok as (ki & -> & Hk). cbn [obind].
    destruct (blen ki >? 0) eqn:E; [|discriminate]. bsplit. rewrite wb_get_u8_ok by lia. discriminate.
  Qed.

  Lemma f154_message_integrity_code_safe : f154_message_integrity_code bs <> Panic.
  Proof.
    destruct f154_sec_facts as (H1 & H2 & Hc).
    unfold f154_message_integrity_code. rewrite (f154_mic_len_ok bs raw Hfc H1). fold ctl. cbn [obind].
    case_if; [discriminate|]. pose proof (f154_astart_range raw). pose proof (f154_shl_range ctl).
    pose proof (f154_mic_range ctl). rewrite wb_from_ok by lia. discriminate.
  Qed.
End Addressing.

Lemma f154_accessors_safe bs : f154_check_len bs = Ok tt ->
  f154_frame_type bs <> Panic /\ f154_security_enabled bs <> Panic /\ f154_frame_pending bs <> Panic /\
  f154_ack_request bs <> Panic /\ f154_pan_id_compression bs <> Panic /\
  f154_sequence_number_suppression bs <> Panic /\ f154_ie_present bs <> Panic /\
  f154_dst_addressing_mode bs <> Panic /\ f154_frame_version bs <> Panic /\
  f154_src_addressing_mode bs <> Panic /\ f154_sequence_number bs <> Panic /\
  f154_dst_pan_id bs <> Panic /\ f154_dst_addr bs <> Panic /\ f154_src_pan_id bs <> Panic /\
  f154_src_addr bs <> Panic /\ f154_mac_header bs <> Panic /\ f154_payload bs <> Panic /\
  (f154_security_enabled bs = Ok true ->
   f154_security_level bs <> Panic /\ f154_key_identifier_mode bs <> Panic /\
   f154_frame_counter_suppressed bs <> Panic /\ f154_frame_counter bs <> Panic /\
   f154_key_source bs <> Panic /\ f154_key_index bs <> Panic /\
   f154_message_integrity_code bs <> Panic).
Proof.
  intros H. destruct (f154_check_len_inv bs H) as (raw & Hfc & Hlen & Hl & Hsec).
  destruct (f154_fc_accessors_safe bs raw Hfc) as (A1 & A2 & A3 & A4 & A5).
  assert (Hsec' : f154_bit_of raw 3 = true ->
    3 + f154_alen raw + 1 <= blen bs /\
    3 + f154_alen raw + f154_shl_of (nth (Z.to_nat (f154_astart raw)) bs 0) +
      f154_mic_of (nth (Z.to_nat (f154_astart raw)) bs 0) <= blen bs) by exact Hsec.
  repeat match goal with |- _ /\ _ => split end; try assumption; try apply A2.
  - eapply f154_sequence_number_safe; eassumption.
  - eapply f154_dst_pan_id_safe; eassumption.
  - eapply f154_dst_addr_safe; eassumption.
  - eapply f154_src_pan_id_safe; eassumption.
  - eapply f154_src_addr_safe; eassumption.
  - eapply f154_mac_header_safe; eassumption.
  - eapply f154_payload_safe; eassumption.
  - intros Hse. rewrite (f154_security_enabled_ok bs raw Hfc) in Hse. injection Hse as Hse.
    destruct (f154_security_fields_safe bs raw Hfc Hsec' Hse) as (S1 & S2 & S3).
    repeat split; try assumption.
    + eapply f154_frame_counter_safe; eassumption.
    + eapply f154_key_source_safe; eassumption.
    + eapply f154_key_index_safe; eassumption.
    + eapply f154_message_integrity_code_safe; eassumption.
Qed.

Lemma f154_parse_total bs : f154_parse bs <> Panic.
Proof.
  unfold f154_parse. destruct (f154_check_len bs) as [[]| |] eqn:E; cbn [obind]; try discriminate.
  - destruct (f154_accessors_safe bs E) as
      (A1 & A2 & A3 & A4 & A5 & _ & _ & _ & A9 & _ & A11 & A12 & A13 & A14 & A15 & _).
    nopanic.
  - exfalso. exact (f154_check_len_no_panic bs E).
Qed.

(* new_checked only adds checks of the frame control word to check_len *)
Lemma f154_new_checked_check_len bs : f154_new_checked bs = Ok tt -> f154_check_len bs = Ok tt.
Proof.
  unfold f154_new_checked. destruct (f154_check_len bs) as [[]| |]; cbn [obind]; try discriminate. reflexivity.
Qed.

Lemma f154_new_checked_no_panic bs : f154_new_checked bs <> Panic.
Proof.
  unfold f154_new_checked. destruct (f154_check_len bs) as [[]| |] eqn:E; cbn [obind]; try discriminate.
  - destruct (f154_check_len_inv bs E) as (raw & Hfc & _).
    unfold f154_frame_version, f154_dst_addressing_mode, f154_src_addressing_mode,
      f154_pan_id_compression, f154_fc_bit. rewrite Hfc. cbn [obind].
    repeat (case_if; try discriminate).
  - exfalso. exact (f154_check_len_no_panic bs E).
Qed.
