(* Lemmas about Model/WireIeee802154.v (properties C06, C07). *)
From SV Require Import Lib.Base Gen.WireFields Model.WireBase Model.WireIeee802154
  Proofs.WireBaseProofs Proofs.Wire2Kit.

Lemma f154_nth_skipn (l : list Z) n i : nth i (skipn n l) 0 = nth (n + i) l 0.
Proof.
  revert l; induction n; intros l; [reflexivity|]. destruct l as [|x l]; cbn [skipn Nat.add nth].
  - destruct i; reflexivity.
  - apply IHn.
Qed.

(* ---------- the frame control word ---------- *)

Lemma f154_fc_ok bs : 2 <= blen bs -> f154_fc bs = Ok (f154_le_dec (firstn 2 bs)).
Proof.
  intros H. unfold f154_fc, f154_get_le16, wb_field. zfold. rewrite wb_sub_ok by lia. cbn [obind].
  zfold. cbn [skipn]. unfold f154_read_le16, f154_read_le.
  rewrite (blen_firstn 2) by lia. zbool. zfold. rewrite firstn_firstn. reflexivity.
Qed.

Lemma f154_mode_size_cases m :
  (m = 2 /\ f154_mode_size m = 2) \/ (m = 3 /\ f154_mode_size m = 8) \/ (m <> 2 /\ m <> 3 /\ f154_mode_size m = 0).
Proof.
  unfold f154_mode_size, f154_AM_SHORT, f154_AM_EXTENDED.
  destruct (m =? 2) eqn:E2; [bsplit; lia|]. destruct (m =? 3) eqn:E3; bsplit; lia.
Qed.

Lemma f154_pan_size_range p : 0 <= f154_pan_size p <= 2.
Proof. destruct p; cbn; lia. Qed.

Lemma f154_flags_len_range fl : 0 <= f154_flags_len fl <= 20.
Proof.
  destruct fl as [[[dp da] sp] sa]. unfold f154_flags_len.
  pose proof (f154_pan_size_range dp). pose proof (f154_pan_size_range sp).
  destruct (f154_mode_size_cases da) as [[_ ->]|[[_ ->]|[_ [_ ->]]]];
  destruct (f154_mode_size_cases sa) as [[_ ->]|[[_ ->]|[_ [_ ->]]]]; lia.
Qed.

(* total length of the addressing fields announced by a frame control word *)
Definition f154_alen (raw : Z) : Z :=
  match f154_flags_of raw with Some fl => f154_flags_len fl | None => 0 end.

Lemma f154_alen_range raw : 0 <= f154_alen raw <= 20.
Proof. unfold f154_alen. destruct (f154_flags_of raw); [apply f154_flags_len_range | lia]. Qed.

(* where the auxiliary security header starts *)
Definition f154_astart (raw : Z) : Z :=
  3 + (if f154_has_addressing (f154_ft_of raw) (f154_ver_of raw) then f154_alen raw else 0).

Lemma f154_astart_range raw : 3 <= f154_astart raw <= 3 + f154_alen raw.
Proof. unfold f154_astart. pose proof (f154_alen_range raw). case_if; lia. Qed.

Lemma f154_flags_ok bs raw : f154_fc bs = Ok raw -> f154_addr_present_flags bs = Ok (f154_flags_of raw).
Proof. intros H. unfold f154_addr_present_flags. rewrite H. reflexivity. Qed.

Lemma f154_addressing_fields_ok bs raw : f154_fc bs = Ok raw -> 3 + f154_alen raw <= blen bs ->
  (f154_addressing_fields bs = Ok None /\
   (f154_has_addressing (f154_ft_of raw) (f154_ver_of raw) = false \/ f154_flags_of raw = None)) \/
  (exists fl af, f154_has_addressing (f154_ft_of raw) (f154_ver_of raw) = true /\
     f154_flags_of raw = Some fl /\ f154_addressing_fields bs = Ok (Some af) /\
     blen af = f154_flags_len fl /\ af = firstn (Z.to_nat (f154_flags_len fl)) (skipn 3 bs)).
Proof.
  intros Hfc Hl. unfold f154_addressing_fields. rewrite Hfc. cbn [obind].
  destruct (f154_has_addressing _ _) eqn:Ha; cbn [negb]; [|left; split; [reflexivity | left; reflexivity]].
  rewrite (f154_flags_ok bs raw Hfc). cbn [obind].
  unfold f154_alen in Hl. destruct (f154_flags_of raw) as [fl|] eqn:Hf;
    [|left; split; [reflexivity | right; reflexivity]].
  right. exists fl. pose proof (f154_flags_len_range fl). zfold.
  rewrite wb_from_ok by lia. cbn [obind]. unfold wb_upto.
  rewrite blen_skipn by lia. zbool. cbn [obind]. eexists. repeat split.
  rewrite blen_firstn; [reflexivity|]. rewrite blen_skipn; lia.
Qed.

Lemma f154_aux_start_ok bs raw : f154_fc bs = Ok raw -> 3 + f154_alen raw <= blen bs ->
  f154_aux_security_header_start bs = Ok (f154_astart raw).
Proof.
  intros Hfc Hl. unfold f154_aux_security_header_start, f154_astart.
  destruct (f154_addressing_fields_ok bs raw Hfc Hl) as [[-> [Ha|Hf]]|(fl & af & Ha & Hf & -> & Hlen & _)];
    cbn [obind].
  - rewrite Ha. reflexivity.
  - unfold f154_alen. rewrite Hf. case_if; reflexivity.
  - rewrite Ha. unfold f154_alen. rewrite Hf, Hlen. reflexivity.
Qed.

(* ---------- the security control octet ---------- *)

Definition f154_kil_of (ctl : Z) : option Z :=
  let m := Z.land (Z.shiftr ctl 3) 3 in
  if m =? 0 then Some 0 else if m =? 1 then Some 1 else if m =? 2 then Some 5
  else if m =? 3 then Some 9 else None.
Definition f154_fcs_of (ctl : Z) : bool := Z.land (Z.shiftr ctl 5) 1 =? 1.
Definition f154_shl_of (ctl : Z) : Z :=
  1 + (if f154_fcs_of ctl then 0 else 4) + f154_opt_len (f154_kil_of ctl).
Definition f154_mic_of (ctl : Z) : Z :=
  let l := Z.land ctl 7 in
  if (l =? 0) || (l =? 4) then 0 else if (l =? 1) || (l =? 5) then 4
  else if (l =? 2) || (l =? 6) then 8 else 16.

Lemma f154_kil_range ctl : 0 <= f154_opt_len (f154_kil_of ctl) <= 9.
Proof. unfold f154_kil_of. repeat case_if; cbn; lia. Qed.

Lemma f154_shl_range ctl : 1 <= f154_shl_of ctl <= 14.
Proof. unfold f154_shl_of. pose proof (f154_kil_range ctl). case_if; lia. Qed.

Lemma f154_mic_range ctl : 0 <= f154_mic_of ctl <= 16.
Proof. unfold f154_mic_of. repeat case_if; lia. Qed.

Section SecCtl.
  Variables (bs : list Z) (raw : Z).
  Hypothesis Hfc : f154_fc bs = Ok raw.
  Hypothesis Hl : 3 + f154_alen raw + 1 <= blen bs.

  Let ctl := nth (Z.to_nat (f154_astart raw)) bs 0.

  Lemma f154_security_control_ok : f154_security_control bs = Ok ctl.
  Proof.
    unfold f154_security_control. rewrite (f154_aux_start_ok bs raw Hfc) by lia. cbn [obind].
    pose proof (f154_astart_range raw). rewrite wb_from_ok by lia. cbn [obind].
    rewrite wb_get_u8_ok by (rewrite blen_skipn; lia). f_equal. zfold.
    unfold ctl. rewrite f154_nth_skipn. f_equal. lia.
  Qed.

  Lemma f154_security_header_len_ok : f154_security_header_len bs = Ok (f154_shl_of ctl).
  Proof.
    unfold f154_security_header_len, f154_frame_counter_suppressed, f154_key_identifier_length,
      f154_key_identifier_mode. rewrite f154_security_control_ok. reflexivity.
  Qed.

  Lemma f154_mic_len_ok : f154_mic_len bs = Ok (f154_mic_of ctl).
  Proof.
    unfold f154_mic_len, f154_security_level. rewrite f154_security_control_ok. cbn [obind].
    unfold f154_mic_of. cbv zeta. pose proof (land_7_range ctl).
    repeat (case_if; [reflexivity|]). exfalso. bsplit.
    repeat match goal with H : _ || _ = false |- _ => apply orb_false_elim in H; destruct H end.
    bsplit. lia.
  Qed.
End SecCtl.

(* ---------- C07: check_len ---------- *)

Lemma f154_check_len_inv bs : f154_check_len bs = Ok tt ->
  exists raw, f154_fc bs = Ok raw /\ 3 <= blen bs <= 127 /\ 3 + f154_alen raw <= blen bs /\
    (f154_bit_of raw 3 = true ->
       3 + f154_alen raw + 1 <= blen bs /\
       let ctl := nth (Z.to_nat (f154_astart raw)) bs 0 in
       3 + f154_alen raw + f154_shl_of ctl + f154_mic_of ctl <= blen bs).
Proof.
  unfold f154_check_len. destruct (blen bs <? 3) eqn:E3; [discriminate|].
  destruct (blen bs >? 127) eqn:E127; [discriminate|]. bsplit.
  pose proof (f154_fc_ok bs ltac:(lia)) as Hfc. set (raw := f154_le_dec _) in Hfc.
  rewrite (f154_flags_ok bs raw Hfc). cbn [obind].
  unfold f154_security_enabled, f154_fc_bit. rewrite Hfc. cbn [obind]. zfold.
  intros H. exists raw. split; [reflexivity|]. split; [lia|].
  unfold f154_alen. pose proof (f154_alen_range raw) as Hr. unfold f154_alen in Hr.
  destruct (f154_flags_of raw) as [fl|] eqn:Hf.
  - destruct (f154_flags_len fl >? blen bs) eqn:E; [discriminate|]. cbn [obind] in H.
    destruct (f154_bit_of raw 3) eqn:Hs.
    + destruct (3 + f154_flags_len fl + 1 >? blen bs) eqn:E1; [discriminate|]. bsplit.
      assert (Hl : 3 + f154_alen raw + 1 <= blen bs) by (unfold f154_alen; rewrite Hf; lia).
      rewrite (f154_security_header_len_ok bs raw Hfc Hl), (f154_mic_len_ok bs raw Hfc Hl) in H.
      cbn [obind] in H. case_if_in H; [discriminate|]. bsplit.
      pose proof (f154_shl_range (nth (Z.to_nat (f154_astart raw)) bs 0)).
      pose proof (f154_mic_range (nth (Z.to_nat (f154_astart raw)) bs 0)).
      split; [lia|]. intros _. split; [lia|]. cbv zeta. lia.
    + cbn [obind] in H. case_if_in H; [discriminate|]. bsplit. split; [lia | discriminate].
  - cbn [obind] in H. destruct (f154_bit_of raw 3) eqn:Hs.
    + destruct (3 + 0 + 1 >? blen bs) eqn:E1; [discriminate|]. bsplit.
      assert (Hl : 3 + f154_alen raw + 1 <= blen bs) by (unfold f154_alen; rewrite Hf; lia).
      rewrite (f154_security_header_len_ok bs raw Hfc Hl), (f154_mic_len_ok bs raw Hfc Hl) in H.
      cbn [obind] in H. case_if_in H; [discriminate|]. bsplit.
      split; [lia|]. intros _. split; [lia|]. cbv zeta. lia.
    + split; [lia | discriminate].
Qed.

Lemma f154_check_len_no_panic bs : f154_check_len bs <> Panic.
Proof.
  unfold f154_check_len. destruct (blen bs <? 3) eqn:E3; [discriminate|].
  destruct (blen bs >? 127) eqn:E127; [discriminate|]. bsplit.
  pose proof (f154_fc_ok bs ltac:(lia)) as Hfc. set (raw := f154_le_dec _) in Hfc.
  rewrite (f154_flags_ok bs raw Hfc). cbn [obind].
  unfold f154_security_enabled, f154_fc_bit. rewrite Hfc. cbn [obind]. zfold.
  assert (G : forall off, off = f154_alen raw ->
    obind (if f154_bit_of raw 3
           then if 3 + off + 1 >? blen bs then Err 0
                else do l <- f154_security_header_len bs; do m <- f154_mic_len bs; Ok (3 + off + l + m)
           else Ok (3 + off))
      (fun offset => if offset >? blen bs then Err 0 else Ok tt) <> Panic).
  { intros off ->. destruct (f154_bit_of raw 3); cbn [obind]; [|case_if; discriminate].
    destruct (3 + f154_alen raw + 1 >? blen bs) eqn:E1; [discriminate|]. bsplit.
    rewrite (f154_security_header_len_ok bs raw Hfc ltac:(lia)), (f154_mic_len_ok bs raw Hfc ltac:(lia)).
    cbn [obind]. case_if; discriminate. }
  unfold f154_alen in G. destruct (f154_flags_of raw) as [fl|].
  - case_if; cbn [obind]; [discriminate|]. apply G. reflexivity.
  - cbn [obind]. apply G. reflexivity.
Qed.

(* ---------- C07: accessors ---------- *)

Lemma f154_read_addr_nopanic af off m : 0 <= off -> off + f154_mode_size m <= blen af ->
  f154_read_addr af off m <> Panic.
Proof.
  intros Ho Hl. unfold f154_read_addr, f154_AM_ABSENT, f154_AM_SHORT, f154_AM_EXTENDED.
  destruct (m =? 0); [discriminate|].
  destruct (f154_mode_size_cases m) as [[-> E]|[[-> E]|[N2 [N3 E]]]]; rewrite E in Hl; zfold.
  - rewrite wb_sub_ok by lia. cbn [obind]. discriminate.
  - cbv iota. rewrite wb_sub_ok by lia. cbn [obind]. discriminate.
  - destruct (m =? 2) eqn:E2; [bsplit; lia|]. destruct (m =? 3) eqn:E3; [bsplit; lia|]. discriminate.
Qed.

Lemma f154_read_pan_nopanic af off : 0 <= off -> off + 2 <= blen af ->
  (do t <- wb_from af off; do s <- wb_upto t 2; do v <- f154_read_le16 s; Ok (Some v)) <> Panic.
Proof.
  intros Ho Hl. rewrite wb_from_ok by lia. cbn [obind]. unfold wb_upto.
  rewrite blen_skipn by lia. zbool. cbn [obind]. unfold f154_read_le16, f154_read_le.
  rewrite blen_firstn by (rewrite blen_skipn; lia). zbool. discriminate.
Qed.

Lemma f154_fc_accessors_safe bs raw : f154_fc bs = Ok raw ->
  f154_frame_type bs <> Panic /\ (forall bit, f154_fc_bit bit bs <> Panic) /\
  f154_dst_addressing_mode bs <> Panic /\ f154_frame_version bs <> Panic /\
  f154_src_addressing_mode bs <> Panic.
Proof.
  intros H. unfold f154_frame_type, f154_fc_bit, f154_dst_addressing_mode, f154_frame_version,
    f154_src_addressing_mode. rewrite H. cbn [obind]. repeat split; try intros ?; discriminate.
Qed.

Section Addressing.
  Variables (bs : list Z) (raw : Z).
  Hypothesis Hfc : f154_fc bs = Ok raw.
  Hypothesis Hl : 3 + f154_alen raw <= blen bs.

  Lemma f154_sequence_number_safe : f154_sequence_number bs <> Panic.
  Proof.
    unfold f154_sequence_number, f154_frame_type. rewrite Hfc. cbn [obind]. pose proof (f154_alen_range raw).
    case_if; [|discriminate]. zfold. rewrite wb_get_u8_ok by lia. discriminate.
  Qed.

  Lemma f154_dst_pan_id_safe : f154_dst_pan_id bs <> Panic.
  Proof.
    unfold f154_dst_pan_id. rewrite (f154_flags_ok _ _ Hfc). cbn [obind].
    destruct (f154_addressing_fields_ok bs raw Hfc Hl) as [[Haf _]|(fl & af & Ha & Hf & Haf & Hlen & _)].
    - rewrite Haf. destruct (f154_flags_of raw) as [[[[[] ?] ?] ?]|]; cbn [obind]; discriminate.
    - rewrite Hf, Haf. destruct fl as [[[dp da] sp] sa]. destruct dp; [|discriminate]. cbn [obind].
      unfold f154_flags_len in Hlen. cbn [f154_pan_size] in Hlen.
      pose proof (f154_pan_size_range sp).
      destruct (f154_mode_size_cases da) as [[_ E1]|[[_ E1]|[_ [_ E1]]]];
      destruct (f154_mode_size_cases sa) as [[_ E2]|[[_ E2]|[_ [_ E2]]]]; rewrite E1, E2 in Hlen;
      (unfold wb_upto; zbool; cbn [obind]; unfold f154_read_le16, f154_read_le;
       rewrite (blen_firstn 2) by lia; zbool; discriminate).
  Qed.

  Lemma f154_dst_addr_safe : f154_dst_addr bs <> Panic.
  Proof.
    unfold f154_dst_addr. rewrite (f154_flags_ok _ _ Hfc). cbn [obind].
    destruct (f154_addressing_fields_ok bs raw Hfc Hl) as [[Haf _]|(fl & af & Ha & Hf & Haf & Hlen & _)].
    - rewrite Haf. destruct (f154_flags_of raw) as [[[[? ?] ?] ?]|]; cbn [obind]; discriminate.
    - rewrite Hf, Haf. destruct fl as [[[dp da] sp] sa]. cbn [obind].
      unfold f154_flags_len in Hlen. pose proof (f154_pan_size_range dp). pose proof (f154_pan_size_range sp).
      apply f154_read_addr_nopanic; [lia|].
      destruct (f154_mode_size_cases sa) as [[_ E2]|[[_ E2]|[_ [_ E2]]]]; rewrite E2 in Hlen; lia.
  Qed.

  Lemma f154_src_pan_id_safe : f154_src_pan_id bs <> Panic.
  Proof.
    unfold f154_src_pan_id. rewrite (f154_flags_ok _ _ Hfc). cbn [obind].
    destruct (f154_addressing_fields_ok bs raw Hfc Hl) as [[Haf _]|(fl & af & Ha & Hf & Haf & Hlen & _)].
    - rewrite Haf. destruct (f154_flags_of raw) as [[[[? ?] []] ?]|]; cbn [obind]; discriminate.
    - rewrite Hf, Haf. destruct fl as [[[dp da] sp] sa]. destruct sp; [|discriminate]. cbn [obind].
      unfold f154_flags_len in Hlen. cbn [f154_pan_size] in Hlen. pose proof (f154_pan_size_range dp).
      destruct (f154_mode_size_cases da) as [[_ E1]|[[_ E1]|[_ [_ E1]]]];
      destruct (f154_mode_size_cases sa) as [[_ E2]|[[_ E2]|[_ [_ E2]]]]; rewrite E1, E2 in Hlen; rewrite E1;
      apply f154_read_pan_nopanic; lia.
  Qed.

  Lemma f154_src_addr_safe : f154_src_addr bs <> Panic.
  Proof.
    unfold f154_src_addr. rewrite (f154_flags_ok _ _ Hfc). cbn [obind].
    destruct (f154_addressing_fields_ok bs raw Hfc Hl) as [[Haf _]|(fl & af & Ha & Hf & Haf & Hlen & _)].
    - rewrite Haf. destruct (f154_flags_of raw) as [[[[? ?] ?] ?]|]; cbn [obind]; discriminate.
    - rewrite Hf, Haf. destruct fl as [[[dp da] sp] sa]. cbn [obind].
      unfold f154_flags_len in Hlen. pose proof (f154_pan_size_range dp). pose proof (f154_pan_size_range sp).
      apply f154_read_addr_nopanic; [|lia].
      destruct (f154_mode_size_cases da) as [[_ E1]|[[_ E1]|[_ [_ E1]]]]; rewrite E1; lia.
  Qed.

  Lemma f154_security_enabled_ok : f154_security_enabled bs = Ok (f154_bit_of raw 3).
  Proof. unfold f154_security_enabled, f154_fc_bit. rewrite Hfc. reflexivity. Qed.

  (* the end of the MAC header as far as check_len validated it *)
  Hypothesis Hsec : f154_bit_of raw 3 = true ->
    3 + f154_alen raw + 1 <= blen bs /\
    3 + f154_alen raw + f154_shl_of (nth (Z.to_nat (f154_astart raw)) bs 0) +
      f154_mic_of (nth (Z.to_nat (f154_astart raw)) bs 0) <= blen bs.

  Lemma f154_payload_start_ok : exists p, f154_payload_start bs = Ok p /\ 0 <= p <= blen bs.
  Proof.
    unfold f154_payload_start. rewrite (f154_aux_start_ok bs raw Hfc Hl), f154_security_enabled_ok. cbn [obind].
    pose proof (f154_astart_range raw).
    destruct (f154_bit_of raw 3) eqn:Hs.
    - destruct (Hsec eq_refl) as [H1 H2].
      rewrite (f154_security_header_len_ok bs raw Hfc H1). cbn [obind]. eexists; split; [reflexivity|].
      pose proof (f154_shl_range (nth (Z.to_nat (f154_astart raw)) bs 0)).
      pose proof (f154_mic_range (nth (Z.to_nat (f154_astart raw)) bs 0)). lia.
    - eexists; split; [reflexivity|]. lia.
  Qed.

  Lemma f154_mac_header_safe : f154_mac_header bs <> Panic.
  Proof.
    unfold f154_mac_header. destruct f154_payload_start_ok as (p & -> & Hp). cbn [obind].
    unfold wb_upto. zbool. discriminate.
  Qed.

  Lemma f154_payload_safe : f154_payload bs <> Panic.
  Proof.
    unfold f154_payload, f154_frame_type. rewrite Hfc. cbn [obind]. case_if; [|discriminate].
    destruct f154_payload_start_ok as (p & -> & Hp). cbn [obind]. rewrite wb_from_ok by lia. discriminate.
  Qed.

  (* accessors of the auxiliary security header: they apply when the security bit is set *)
  Hypothesis Hse : f154_bit_of raw 3 = true.

  Let ctl := nth (Z.to_nat (f154_astart raw)) bs 0.

  Lemma f154_sec_facts : 3 + f154_alen raw + 1 <= blen bs /\
    f154_astart raw + f154_shl_of ctl + f154_mic_of ctl <= blen bs /\ f154_security_control bs = Ok ctl.
  Proof.
    destruct (Hsec Hse) as [H1 H2]. pose proof (f154_astart_range raw). fold ctl in H2.
    split; [lia|]. split; [lia|]. apply f154_security_control_ok; assumption.
  Qed.

  Lemma f154_security_fields_safe :
    f154_security_level bs <> Panic /\ f154_key_identifier_mode bs <> Panic /\
    f154_frame_counter_suppressed bs <> Panic.
  Proof.
    destruct f154_sec_facts as (_ & _ & Hc).
    unfold f154_security_level, f154_key_identifier_mode, f154_frame_counter_suppressed. rewrite Hc.
    repeat split; discriminate.
  Qed.

  Lemma f154_frame_counter_safe : f154_frame_counter bs <> Panic.
  Proof.
    destruct f154_sec_facts as (H1 & H2 & Hc).
    unfold f154_frame_counter, f154_frame_counter_suppressed. rewrite Hc. cbn [obind].
    destruct (Z.land (Z.shiftr ctl 5) 1 =? 1) eqn:Hs; [discriminate|].
    rewrite (f154_aux_start_ok bs raw Hfc Hl). cbn [obind].
    pose proof (f154_astart_range raw). pose proof (f154_mic_range ctl). pose proof (f154_kil_range ctl).
    unfold f154_shl_of, f154_fcs_of in H2. rewrite Hs in H2.
    rewrite wb_from_ok by lia. cbn [obind].
    destruct (wb_sub_ok_len (skipn (Z.to_nat (f154_astart raw)) bs) 1 5 ltac:(lia)
                ltac:(rewrite blen_skipn; lia)) as (f & -> & Hf & _). cbn [obind].
    unfold f154_read_le32, f154_read_le. rewrite Hf. zbool. discriminate.
  Qed.

  Lemma f154_key_identifier_ok :
    exists ki, f154_key_identifier bs = Ok ki /\ blen ki = f154_opt_len (f154_kil_of ctl).
  Proof.
    destruct f154_sec_facts as (H1 & H2 & Hc).
    unfold f154_key_identifier. rewrite (f154_aux_start_ok bs raw Hfc Hl). cbn [obind].
    pose proof (f154_astart_range raw). pose proof (f154_mic_range ctl). pose proof (f154_kil_range ctl).
    rewrite wb_from_ok by lia. cbn [obind].
    unfold f154_key_identifier_length, f154_key_identifier_mode, f154_frame_counter_suppressed.
    rewrite Hc. cbn [obind]. fold (f154_kil_of ctl). fold (f154_fcs_of ctl).
    unfold f154_shl_of in H2.
    assert (Hb : blen (skipn (Z.to_nat (f154_astart raw)) bs) = blen bs - f154_astart raw)
      by (apply blen_skipn; lia).
    destruct (f154_fcs_of ctl).
    - rewrite wb_from_ok by lia. cbn [obind]. unfold wb_upto. rewrite blen_skipn by lia. zbool.
      eexists; split; [reflexivity|]. rewrite blen_firstn; [reflexivity|]. rewrite blen_skipn; lia.
    - rewrite wb_from_ok by lia. cbn [obind]. unfold wb_upto. rewrite blen_skipn by lia. zbool.
      eexists; split; [reflexivity|]. rewrite blen_firstn; [reflexivity|]. rewrite blen_skipn; lia.
  Qed.

  Lemma f154_key_source_safe : f154_key_source bs <> Panic.
  Proof.
    unfold f154_key_source. destruct f154_key_identifier_ok as (ki & -> & Hk). cbn [obind].
    destruct (blen ki >? 1) eqn:E; [|discriminate]. bsplit. unfold wb_upto. zbool. discriminate.
  Qed.

  Lemma f154_key_index_safe : f154_key_index bs <> Panic.
  Proof.
    unfold f154_key_index. destruct f154_key_identifier_ok as (ki & -> & Hk). cbn [obind].
    destruct (blen ki >? 0) eqn:E; [|discriminate]. bsplit. rewrite wb_get_u8_ok by lia. discriminate.
  Qed.

  Lemma f154_message_integrity_code_safe : f154_message_integrity_code bs <> Panic.
  Proof.
    destruct f154_sec_facts as (H1 & H2 & Hc).
    unfold f154_message_integrity_code. rewrite (f154_mic_len_ok bs raw Hfc H1). fold ctl. cbn [obind].
    case_if; [discriminate|]. pose proof (f154_astart_range raw). pose proof (f154_shl_range ctl).
    pose proof (f154_mic_range ctl). rewrite wb_from_ok by lia. discriminate.
  Qed.
End Addressing.

Lemma f154_accessors_safe bs : f154_check_len bs = Ok tt ->
  f154_frame_type bs <> Panic /\ f154_security_enabled bs <> Panic /\ f154_frame_pending bs <> Panic /\
  f154_ack_request bs <> Panic /\ f154_pan_id_compression bs <> Panic /\
  f154_sequence_number_suppression bs <> Panic /\ f154_ie_present bs <> Panic /\
  f154_dst_addressing_mode bs <> Panic /\ f154_frame_version bs <> Panic /\
  f154_src_addressing_mode bs <> Panic /\ f154_sequence_number bs <> Panic /\
  f154_dst_pan_id bs <> Panic /\ f154_dst_addr bs <> Panic /\ f154_src_pan_id bs <> Panic /\
  f154_src_addr bs <> Panic /\ f154_mac_header bs <> Panic /\ f154_payload bs <> Panic /\
  (f154_security_enabled bs = Ok true ->
   f154_security_level bs <> Panic /\ f154_key_identifier_mode bs <> Panic /\
   f154_frame_counter_suppressed bs <> Panic /\ f154_frame_counter bs <> Panic /\
   f154_key_source bs <> Panic /\ f154_key_index bs <> Panic /\
   f154_message_integrity_code bs <> Panic).
Proof.
  intros H. destruct (f154_check_len_inv bs H) as (raw & Hfc & Hlen & Hl & Hsec).
  destruct (f154_fc_accessors_safe bs raw Hfc) as (A1 & A2 & A3 & A4 & A5).
  assert (Hsec' : f154_bit_of raw 3 = true ->
    3 + f154_alen raw + 1 <= blen bs /\
    3 + f154_alen raw + f154_shl_of (nth (Z.to_nat (f154_astart raw)) bs 0) +
      f154_mic_of (nth (Z.to_nat (f154_astart raw)) bs 0) <= blen bs) by exact Hsec.
  repeat match goal with |- _ /\ _ => split end; try assumption; try apply A2.
  - eapply f154_sequence_number_safe; eassumption.
  - eapply f154_dst_pan_id_safe; eassumption.
  - eapply f154_dst_addr_safe; eassumption.
  - eapply f154_src_pan_id_safe; eassumption.
  - eapply f154_src_addr_safe; eassumption.
  - eapply f154_mac_header_safe; eassumption.
  - eapply f154_payload_safe; eassumption.
  - intros Hse. rewrite (f154_security_enabled_ok bs raw Hfc) in Hse. injection Hse as Hse.
    destruct (f154_security_fields_safe bs raw Hfc Hsec' Hse) as (S1 & S2 & S3).
    repeat split; try assumption.
    + eapply f154_frame_counter_safe; eassumption.
    + eapply f154_key_source_safe; eassumption.
    + eapply f154_key_index_safe; eassumption.
    + eapply f154_message_integrity_code_safe; eassumption.
Qed.

Lemma f154_parse_total bs : f154_parse bs <> Panic.
Proof.
  unfold f154_parse. destruct (f154_check_len bs) as [[]| |] eqn:E; cbn [obind]; try discriminate.
  - destruct (f154_accessors_safe bs E) as
      (A1 & A2 & A3 & A4 & A5 & _ & _ & _ & A9 & _ & A11 & A12 & A13 & A14 & A15 & _).
    nopanic.
  - exfalso. exact (f154_check_len_no_panic bs E).
Qed.

(* new_checked only adds checks of the frame control word to check_len *)
Lemma f154_new_checked_check_len bs : f154_new_checked bs = Ok tt -> f154_check_len bs = Ok tt.
Proof.
  unfold f154_new_checked. destruct (f154_check_len bs) as [[]| |]; cbn [obind]; try discriminate. reflexivity.
Qed.

Lemma f154_new_checked_no_panic bs : f154_new_checked bs <> Panic.
Proof.
  unfold f154_new_checked. destruct (f154_check_len bs) as [[]| |] eqn:E; cbn [obind]; try discriminate.
  - destruct (f154_check_len_inv bs E) as (raw & Hfc & _).
    unfold f154_frame_version, f154_dst_addressing_mode, f154_src_addressing_mode,
      f154_pan_id_compression, f154_fc_bit. rewrite Hfc. cbn [obind].
    repeat (case_if; try discriminate).
  - exfalso. exact (f154_check_len_no_panic bs E).
Qed.

(* ---------- C06: the octets emit produces ---------- *)

Definition f154_opt_z (x : option Z) : Z := match x with Some v => v | None => 0 end.
Definition f154_opt_mode (a : option f154_addr) : Z :=
  match a with Some a => f154_addr_mode a | None => 0 end.
Definition f154_addr_bytes (a : option f154_addr) : list Z :=
  match a with Some (F154Short v) | Some (F154Ext v) => rev v | _ => [] end.

(* the frame control word of a well-formed representation (security bit 3, reserved bit 7,
   sequence number suppression 8 and IE present 9 are zero) *)
Definition f154_fcword (r : f154_repr) : Z :=
  f154_r_frame_type r + 16 * f154_b2z (f154_r_pending r) + 32 * f154_b2z (f154_r_ack_request r) +
  64 * f154_b2z (f154_r_compression r) + 1024 * f154_opt_mode (f154_r_dst_addr r) +
  4096 * f154_r_version r + 16384 * f154_opt_mode (f154_r_src_addr r).

(* [edp], [esp]: the two octets of the destination / source PAN id *)
Definition f154_bytes_with (edp esp : list Z) (r : f154_repr) : list Z :=
  f154_le_enc2 (f154_fcword r) ++ [f154_opt_z (f154_r_seq r)] ++ edp ++
  f154_addr_bytes (f154_r_dst_addr r) ++
  (if f154_r_compression r then [] else esp) ++
  f154_addr_bytes (f154_r_src_addr r).

Definition f154_bytes (r : f154_repr) : list Z :=
  f154_bytes_with (f154_le_enc2 (f154_opt_z (f154_r_dst_pan r)))
                  (f154_le_enc2 (f154_opt_z (f154_r_src_pan r))) r.

(* Repr::emit with the PAN id octets as parameters: the case analysis below evaluates emit on
   buffers whose cells are variables, and [v mod 256] of a variable does not evaluate *)
Definition f154_emit_with (edp esp : list Z) (r : f154_repr) (b : list Z) : outcome (list Z) :=
  do b <- f154_clear_frame_control b;
  do b <- f154_set_frame_type b (f154_r_frame_type r);
  do b <- f154_set_security_enabled b (f154_r_security r);
  do b <- f154_set_frame_pending b (f154_r_pending r);
  do b <- f154_set_ack_request b (f154_r_ack_request r);
  do b <- f154_set_pan_id_compression b (f154_r_compression r);
  do b <- f154_set_frame_version b (f154_r_version r);
  do b <- f154_opt_set b (f154_r_seq r) f154_set_sequence_number;
  do b <- f154_opt_set b (f154_r_dst_pan r) (fun b _ =>
            do b <- f154_set_dst_addressing_mode b f154_AM_EXTENDED;
            wb_set_slice b w154_f_ADDRESSING (w154_f_ADDRESSING + 2) edp);
  do b <- f154_opt_set b (f154_r_dst_addr r) f154_set_dst_addr;
  do b <- (if negb (f154_r_compression r)
           then f154_opt_set b (f154_r_src_pan r) (fun b _ =>
                  do offset <- f154_src_offset b;
                  wb_set_slice b (w154_f_ADDRESSING + offset) (w154_f_ADDRESSING + offset + 2) esp)
           else Ok b);
  f154_opt_set b (f154_r_src_addr r) f154_set_src_addr.

Lemma f154_emit_with_eq r b :
  f154_emit r b = f154_emit_with (f154_le_enc2 (f154_opt_z (f154_r_dst_pan r)))
                                 (f154_le_enc2 (f154_opt_z (f154_r_src_pan r))) r b.
Proof.
  unfold f154_emit, f154_emit_with. destruct (f154_r_dst_pan r), (f154_r_src_pan r); reflexivity.
Qed.

(* the shape of a well-formed representation *)
Definition f154_mk (ft : Z) (fp ar : bool) (s : Z) (c : bool) (ver dp : Z) (da : f154_addr) (sp : Z)
    (sa : f154_addr) : f154_repr :=
  mkF154 ft false fp ar (Some s) c ver (Some dp) (Some da) (if c then None else Some sp) (Some sa).

Lemma f154_wf_inv r : f154_wf r = true ->
  exists ft fp ar s c ver dp da sp sa,
    r = f154_mk ft fp ar s c ver dp da sp sa /\
    f154_has_addressing ft ver = true /\ 0 <= s < 256 /\ 0 <= ver <= 2 /\ 0 <= dp < 65536 /\
    0 <= sp < 65536 /\ f154_addr_ok da = true /\ f154_addr_ok sa = true /\
    f154_layout_ok ver (f154_addr_mode da) (f154_addr_mode sa) c = true.
Proof.
  destruct r as [ft se fp ar sn c ver dp da sp sa]. unfold f154_wf.
  cbn [f154_r_frame_type f154_r_security f154_r_pending f154_r_ack_request f154_r_seq
       f154_r_compression f154_r_version f154_r_dst_pan f154_r_dst_addr f154_r_src_pan f154_r_src_addr].
  intros H. bsplit.
  destruct sn as [s|]; [|discriminate]. destruct dp as [dp|]; [|discriminate].
  destruct da as [da|]; [|discriminate]. destruct sa as [sa|]; [|discriminate].
  destruct se; [discriminate|]. bsplit.
  destruct sp as [sp|].
  - bsplit. destruct c; [discriminate|].
    exists ft, fp, ar, s, false, ver, dp, da, sp, sa. unfold f154_mk. repeat split; try assumption; lia.
  - destruct c; [|discriminate].
    exists ft, fp, ar, s, true, ver, dp, da, 0, sa. unfold f154_mk. repeat split; try assumption; lia.
Qed.

(* case analysis over the finitely many shapes: frame type, flags, version, address kinds *)
Ltac f154_addr_cells a H :=
  let v := fresh "v" in destruct a as [|v|v]; cbn [f154_addr_ok f154_addr_mode] in *;
  [ | unfold is_arr in H; apply andb_prop in H; destruct H as [H _]; apply Z.eqb_eq in H;
      apply (blen_length _ 2) in H; cells H
    | unfold is_arr in H; apply andb_prop in H; destruct H as [H _]; apply Z.eqb_eq in H;
      apply (blen_length _ 8) in H; cells H ].

Ltac f154_ft_cases Ha :=
  unfold f154_has_addressing in Ha;
  repeat match type of Ha with
  | _ || _ = true => apply orb_prop in Ha; destruct Ha as [Ha|Ha]
  | _ && _ = true =>
      let Hv := fresh "Hv" in
      apply andb_prop in Ha; destruct Ha as [Ha Hv]; vm_compute in Hv; try discriminate Hv
  end;
  apply Z.eqb_eq in Ha; subst.

Lemma f154_emit_with_spec ft fp ar s c ver dp da sp sa p0 p1 q0 q1 b :
  f154_has_addressing ft ver = true -> 0 <= ver <= 2 ->
  f154_addr_ok da = true -> f154_addr_ok sa = true ->
  f154_layout_ok ver (f154_addr_mode da) (f154_addr_mode sa) c = true ->
  blen b = f154_buffer_len (f154_mk ft fp ar s c ver dp da sp sa) ->
  f154_emit_with [p0; p1] [q0; q1] (f154_mk ft fp ar s c ver dp da sp sa) b =
  Ok (f154_bytes_with [p0; p1] [q0; q1] (f154_mk ft fp ar s c ver dp da sp sa)).
Proof.
  intros Ha Hv Hda Hsa Hlay Hb.
  assert (Hver : ver = 0 \/ ver = 1 \/ ver = 2) by lia.
  destruct Hver as [-> | [-> | ->]]; destruct c;
    f154_addr_cells da Hda; f154_addr_cells sa Hsa;
    try (vm_compute in Hlay; discriminate Hlay); clear Hlay;
    (match type of Hb with blen b = ?n =>
       let v := eval vm_compute in (Z.to_nat n) in
       apply (blen_length _ v) in Hb; cells Hb end);
    f154_ft_cases Ha; destruct fp, ar; vm_compute; reflexivity.
Qed.

Lemma f154_parse_bytes_with ft fp ar s c ver dp da sp sa p0 p1 q0 q1 :
  f154_has_addressing ft ver = true -> 0 <= ver <= 2 ->
  f154_addr_ok da = true -> f154_addr_ok sa = true ->
  f154_layout_ok ver (f154_addr_mode da) (f154_addr_mode sa) c = true ->
  f154_parse (f154_bytes_with [p0; p1] [q0; q1] (f154_mk ft fp ar s c ver dp da sp sa)) =
  Ok (f154_mk ft fp ar s c ver (f154_le_dec [p0; p1]) da (f154_le_dec [q0; q1]) sa).
Proof.
  intros Ha Hv Hda Hsa Hlay.
  assert (Hver : ver = 0 \/ ver = 1 \/ ver = 2) by lia.
  destruct Hver as [-> | [-> | ->]]; destruct c;
    f154_addr_cells da Hda; f154_addr_cells sa Hsa;
    try (vm_compute in Hlay; discriminate Hlay); clear Hlay;
    f154_ft_cases Ha; destruct fp, ar; vm_compute; reflexivity.
Qed.

Lemma f154_le_dec_enc2 v : 0 <= v < 65536 -> f154_le_dec (f154_le_enc2 v) = v.
Proof. intros H. unfold f154_le_dec, f154_le_enc2. cbn [fold_right]. lia. Qed.

Lemma f154_emit_spec r b : f154_wf r = true -> blen b = f154_buffer_len r ->
  f154_emit r b = Ok (f154_bytes r).
Proof.
  intros Hwf Hb.
  destruct (f154_wf_inv r Hwf) as (ft & fp & ar & s & c & ver & dp & da & sp & sa & -> & Ha & Hs & Hv & Hdp & Hsp & Hda & Hsa & Hlay).
  rewrite f154_emit_with_eq. unfold f154_bytes, f154_le_enc2. apply f154_emit_with_spec; assumption.
Qed.

Lemma f154_bytes_len r : f154_wf r = true -> blen (f154_bytes r) = f154_buffer_len r.
Proof.
  intros Hwf.
  destruct (f154_wf_inv r Hwf) as (ft & fp & ar & s & c & ver & dp & da & sp & sa & -> & Ha & Hs & Hv & Hdp & Hsp & Hda & Hsa & Hlay).
  destruct c; f154_addr_cells da Hda; f154_addr_cells sa Hsa; reflexivity.
Qed.

Lemma f154_emit_no_panic r b : f154_wf r = true -> blen b = f154_buffer_len r -> f154_emit r b <> Panic.
Proof. intros; rewrite f154_emit_spec by assumption; discriminate. Qed.

Lemma f154_emit_ignores_old_bytes r b1 b2 : f154_wf r = true ->
  blen b1 = f154_buffer_len r -> blen b2 = f154_buffer_len r -> f154_emit r b1 = f154_emit r b2.
Proof. intros; rewrite !f154_emit_spec by assumption; reflexivity. Qed.

Lemma f154_parse_bytes r : f154_wf r = true -> f154_parse (f154_bytes r) = Ok r.
Proof.
  intros Hwf.
  destruct (f154_wf_inv r Hwf) as (ft & fp & ar & s & c & ver & dp & da & sp & sa & -> & Ha & Hs & Hv & Hdp & Hsp & Hda & Hsa & Hlay).
  unfold f154_bytes, f154_le_enc2. rewrite f154_parse_bytes_with by assumption. f_equal.
  unfold f154_mk. cbn [f154_r_dst_pan f154_r_src_pan f154_opt_z].
  fold (f154_le_enc2 dp). rewrite (f154_le_dec_enc2 dp Hdp).
  destruct c; [reflexivity|]. cbn [f154_opt_z]. fold (f154_le_enc2 sp). rewrite (f154_le_dec_enc2 sp Hsp).
  reflexivity.
Qed.

Lemma f154_roundtrip r b : f154_wf r = true -> blen b = f154_buffer_len r ->
  exists bs, f154_emit r b = Ok bs /\ blen bs = f154_buffer_len r /\ f154_parse bs = Ok r.
Proof.
  intros Hwf Hb. exists (f154_bytes r). split; [apply f154_emit_spec; assumption|].
  split; [apply f154_bytes_len; assumption | apply f154_parse_bytes; assumption].
Qed.

(* ---------- C06: what parse returns, and which parsed frames emit can carry ---------- *)

Definition f154_known_mode (m : Z) : bool := (m =? 0) || (m =? 2) || (m =? 3).

(* the frame control words (of frames accepted by parse) whose representation is well formed:
   no security header, a frame type with addressing fields, known addressing modes, and the
   addressing layout Repr::emit writes *)
Definition f154_emittable (raw : Z) : bool :=
  f154_has_addressing (f154_ft_of raw) (f154_ver_of raw) && negb (f154_bit_of raw 3) &&
  f154_known_mode (f154_dm_of raw) && f154_known_mode (f154_sm_of raw) &&
  f154_layout_ok (f154_ver_of raw) (f154_dm_of raw) (f154_sm_of raw) (f154_bit_of raw 6).

Lemma f154_bytes_ok_rev s : bytes_ok s = true -> bytes_ok (rev s) = true.
Proof.
  unfold bytes_ok. rewrite !forallb_forall. intros H x Hx. apply H. apply in_rev. assumption.
Qed.

Lemma f154_blen_rev (s : list Z) : blen (rev s) = blen s.
Proof. unfold blen. rewrite rev_length. reflexivity. Qed.

Lemma f154_read_le16_range s : bytes_ok s = true -> 2 <= blen s ->
  exists v, f154_read_le16 s = Ok v /\ 0 <= v < 65536.
Proof.
  intros Hb Hl. destruct s as [|a [|b t]]; autorewrite with blen in Hl; try lia.
  unfold f154_read_le16, f154_read_le. autorewrite with blen. pose proof (blen_nonneg t). zbool.
  eexists; split; [reflexivity|]. zfold. cbn [firstn f154_le_dec fold_right].
  cbn [bytes_ok forallb] in Hb. bsplit. lia.
Qed.

Lemma f154_read_addr_ok af off m : bytes_ok af = true -> 0 <= off ->
  off + f154_mode_size m <= blen af -> f154_known_mode m = true ->
  exists a, f154_read_addr af off m = Ok (Some a) /\ f154_addr_ok a = true /\ f154_addr_mode a = m.
Proof.
  intros Hb Ho Hl Hk. unfold f154_known_mode in Hk.
  assert (Hm : m = 0 \/ m = 2 \/ m = 3).
  { apply orb_prop in Hk. destruct Hk as [Hk|Hk]; [apply orb_prop in Hk; destruct Hk as [Hk|Hk]|];
    apply Z.eqb_eq in Hk; lia. }
  unfold f154_read_addr, f154_AM_ABSENT, f154_AM_SHORT, f154_AM_EXTENDED.
  destruct Hm as [-> | [-> | ->]]; zfold; cbv iota.
  - exists F154Absent. repeat split.
  - change (f154_mode_size 2) with 2 in Hl.
    destruct (wb_sub_ok_len af off (off + 2) ltac:(lia) ltac:(lia)) as (s & -> & Hs & Hbs). cbn [obind].
    eexists; split; [reflexivity|]. split; [|reflexivity]. cbn [f154_addr_ok]. unfold is_arr.
    rewrite f154_blen_rev, Hs, (f154_bytes_ok_rev s (Hbs Hb)). zbool. reflexivity.
  - change (f154_mode_size 3) with 8 in Hl.
    destruct (wb_sub_ok_len af off (off + 8) ltac:(lia) ltac:(lia)) as (s & -> & Hs & Hbs). cbn [obind].
    eexists; split; [reflexivity|]. split; [|reflexivity]. cbn [f154_addr_ok]. unfold is_arr.
    rewrite f154_blen_rev, Hs, (f154_bytes_ok_rev s (Hbs Hb)). zbool. reflexivity.
Qed.

Lemma f154_has_addressing_seq ft ver : f154_has_addressing ft ver = true -> f154_has_seq ft = true.
Proof.
  unfold f154_has_addressing, f154_has_seq. intros H.
  repeat match type of H with
  | _ || _ = true => apply orb_prop in H; destruct H as [H|H]
  | _ && _ = true => apply andb_prop in H; destruct H as [H _]
  end; rewrite H; rewrite ?orb_true_r; reflexivity.
Qed.

Lemma f154_parse_wf bs r raw : bytes_ok bs = true -> f154_parse bs = Ok r -> f154_fc bs = Ok raw ->
  f154_emittable raw = true -> f154_wf r = true.
Proof.
  intros Hb H Hfc He. unfold f154_parse in H.
  destruct (f154_check_len bs) as [[]| |] eqn:E; cbn [obind] in H; try discriminate.
  destruct (f154_check_len_inv bs E) as (raw' & Hfc' & Hlen & Hl & _).
  rewrite Hfc in Hfc'. injection Hfc' as <-.
  unfold f154_emittable in He.
  apply andb_prop in He. destruct He as [He Hlay]. apply andb_prop in He. destruct He as [He Hks].
  apply andb_prop in He. destruct He as [He Hkd]. apply andb_prop in He. destruct He as [Ha Hse].
  apply negb_true_iff in Hse.
  pose proof Hlay as Hlay0. unfold f154_layout_ok in Hlay.
  change (f154_flags (f154_ver_of raw) (f154_dm_of raw) (f154_sm_of raw) (f154_bit_of raw 6))
    with (f154_flags_of raw) in Hlay.
  destruct (f154_flags_of raw) as [[[[dp da] sp] sa]|] eqn:Hf; [|discriminate].
  unfold f154_flags_eqb in Hlay.
  apply andb_prop in Hlay. destruct Hlay as [Hlay E4]. apply andb_prop in Hlay. destruct Hlay as [Hlay E3].
  apply andb_prop in Hlay. destruct Hlay as [E1 E2].
  apply eqb_prop in E1. apply eqb_prop in E3. apply Z.eqb_eq in E2. apply Z.eqb_eq in E4. subst dp da sp sa.
  destruct (f154_addressing_fields_ok bs raw Hfc Hl) as [[_ [Hx|Hx]]|(fl & af & _ & Hf' & Haf & Haflen & Hafeq)];
    [congruence | congruence |].
  rewrite Hf in Hf'. injection Hf' as <-.
  assert (Hbaf : bytes_ok af = true) by (rewrite Hafeq; apply bytes_ok_firstn, bytes_ok_skipn, Hb).
  unfold f154_flags_len in Haflen. cbn [f154_pan_size] in Haflen.
  set (c := f154_bit_of raw 6) in *.
  pose proof (f154_pan_size_range (negb c)) as Hps.
  assert (Hsd : 0 <= f154_mode_size (f154_dm_of raw))
    by (destruct (f154_mode_size_cases (f154_dm_of raw)) as [[_ ->]|[[_ ->]|[_ [_ ->]]]]; lia).
  assert (Hss : 0 <= f154_mode_size (f154_sm_of raw))
    by (destruct (f154_mode_size_cases (f154_sm_of raw)) as [[_ ->]|[[_ ->]|[_ [_ ->]]]]; lia).
  (* the frame control accessors *)
  unfold f154_frame_type, f154_security_enabled, f154_frame_pending, f154_ack_request,
    f154_pan_id_compression, f154_frame_version, f154_fc_bit, f154_sequence_number in H.
  rewrite Hfc in H. cbn [obind] in H. fold c in H.
  unfold f154_frame_type in H. rewrite Hfc in H. cbn [obind] in H.
  rewrite (f154_has_addressing_seq _ _ Ha) in H. zfold_in H.
  rewrite wb_get_u8_ok in H by lia. cbn [obind] in H.
  pose proof (bytes_ok_byte bs 2 Hb ltac:(lia)) as Hseq. zfold_in Hseq.
  (* destination PAN id *)
  unfold f154_dst_pan_id in H. rewrite (f154_flags_ok bs raw Hfc), Hf, Haf in H. cbn [obind] in H.
  unfold wb_upto in H at 1.
  replace ((0 <=? 2) && (2 <=? blen af)) with true in H by (symmetry; zbool; reflexivity).
  destruct (f154_read_le16_range (firstn (Z.to_nat 2) af) (bytes_ok_firstn _ _ Hbaf)
              ltac:(rewrite blen_firstn; lia)) as (dpv & Hdp & Rdp).
  cbn [obind] in H. rewrite Hdp in H. cbn [obind] in H.
  (* destination address *)
  unfold f154_dst_addr in H. rewrite (f154_flags_ok bs raw Hfc), Hf, Haf in H. cbn [obind f154_pan_size] in H.
  destruct (f154_read_addr_ok af 2 (f154_dm_of raw) Hbaf ltac:(lia) ltac:(lia) Hkd) as (dav & Hda & Oda & Mda).
  rewrite Hda in H. cbn [obind] in H.
  (* source PAN id, source address *)
  unfold f154_src_pan_id, f154_src_addr in H.
  rewrite (f154_flags_ok bs raw Hfc), Hf, Haf in H. cbn [obind f154_pan_size] in H.
  destruct (f154_read_addr_ok af (2 + f154_mode_size (f154_dm_of raw) + f154_pan_size (negb c))
              (f154_sm_of raw) Hbaf ltac:(lia) ltac:(lia) Hks) as (sav & Hsa & Osa & Msa).
  rewrite Hsa in H.
  assert (G : forall spv, (match spv with Some p => negb c && is_u16 p | None => c end) = true ->
            mkF154 (f154_ft_of raw) (f154_bit_of raw 3) (f154_bit_of raw 4) (f154_bit_of raw 5)
              (Some (nth 2 bs 0)) c (f154_ver_of raw) (Some dpv) (Some dav) spv (Some sav) = r ->
            f154_wf r = true).
  { intros spv Hspv <-. unfold f154_wf.
    cbn [f154_r_frame_type f154_r_security f154_r_pending f154_r_ack_request f154_r_seq
         f154_r_compression f154_r_version f154_r_dst_pan f154_r_dst_addr f154_r_src_pan f154_r_src_addr].
    rewrite Ha, Hse, Hspv, Oda, Osa, Mda, Msa, Hlay0. unfold is_u8, is_u16.
    pose proof (land_3_range (Z.shiftr raw 12)) as Hv. fold (f154_ver_of raw) in Hv.
    assert (f154_ver_of raw <> 3).
    { intros E3. unfold f154_layout_ok in Hlay0. rewrite E3 in Hlay0. discriminate Hlay0. }
    zbool. reflexivity. }
  destruct c eqn:Hc; cbn [negb f154_pan_size] in H.
  - cbn [obind] in H. injection H as H. apply (G None); [reflexivity | exact H].
  - destruct (f154_read_le16_range
                (firstn (Z.to_nat 2) (skipn (Z.to_nat (2 + f154_mode_size (f154_dm_of raw))) af)))
      as (spv & Hsp & Rsp).
    { apply bytes_ok_firstn, bytes_ok_skipn, Hbaf. }
    { cbn [negb f154_pan_size] in Haflen. rewrite blen_firstn; [lia|]. rewrite blen_skipn; lia. }
    cbn [negb f154_pan_size] in Haflen.
    rewrite wb_from_ok in H by lia. cbn [obind] in H. unfold wb_upto in H.
    rewrite blen_skipn in H by lia.
    replace ((0 <=? 2) && (2 <=? blen af - (2 + f154_mode_size (f154_dm_of raw)))) with true in H
      by (symmetry; zbool; reflexivity).
    cbn [obind] in H. rewrite Hsp in H. cbn [obind] in H. injection H as H.
    apply (G (Some spv)); [|exact H]. cbn [negb andb]. unfold is_u16. zbool. reflexivity.
Qed.

(* C06 "re-emits and re-parses to itself", restricted to the frames Repr::emit can carry.  For the
   other frames parse accepts (a security header, a frame type without addressing fields, an
   addressing layout without destination PAN id, ...) the statement is false: see the witnesses. *)
Lemma f154_reparse_partial bs r raw : bytes_ok bs = true -> f154_parse bs = Ok r ->
  f154_fc bs = Ok raw -> f154_emittable raw = true ->
  f154_wf r = true /\
  forall b, blen b = f154_buffer_len r ->
    exists bs', f154_emit r b = Ok bs' /\ f154_parse bs' = Ok r.
Proof.
  intros Hb H Hfc He. pose proof (f154_parse_wf bs r raw Hb H Hfc He) as Hwf. split; [assumption|].
  intros b Hlen. destruct (f154_roundtrip r b Hwf Hlen) as (bs' & Hem & _ & Hp). eauto.
Qed.

(* Witnesses: frames accepted by Frame::new_checked and Repr::parse whose representation
   Repr::emit does not reproduce (reported, not fixed: buffer_len / emit would have to follow
   addr_present_flags, and the interface builds representations that rely on the present
   behaviour). *)

(* a 2006 beacon-like frame: no destination, source PAN id abcd, short source address 12:34.
   emit puts the source PAN id behind two octets it never writes. *)
Example f154_reparse_refuted_dst_absent :
  let bs := [0; 144; 7; 205; 171; 52; 18] in
  exists r, bytes_ok bs = true /\ f154_new_checked bs = Ok tt /\ f154_parse bs = Ok r /\
    f154_wf r = false /\
    exists bs', f154_emit r (repeat 0 (Z.to_nat (f154_buffer_len r))) = Ok bs' /\ f154_parse bs' <> Ok r.
Proof.
  cbv zeta. eexists. split; [reflexivity|]. split; [vm_compute; reflexivity|].
  split; [vm_compute; reflexivity|]. split; [vm_compute; reflexivity|].
  eexists. split; [vm_compute; reflexivity|]. vm_compute. discriminate.
Qed.

(* the secured Data frame of the crate's own test vector: the representation keeps the security
   bit but not the auxiliary security header, the emitted frame does not pass check_len *)
Example f154_reparse_refuted_security :
  let bs := [105; 220; 50; 205; 171; 191; 155; 21; 6; 0; 75; 18; 0; 199; 217; 181; 20; 0; 75; 18; 0;
             5; 49; 1; 0; 0; 62; 232; 251; 133; 228; 204; 244; 72; 144; 254; 86; 102; 247; 28; 101;
             158; 249; 147; 200; 52; 46] in
  exists r, bytes_ok bs = true /\ f154_new_checked bs = Ok tt /\ f154_parse bs = Ok r /\
    f154_wf r = false /\
    exists bs', f154_emit r (repeat 0 (Z.to_nat (f154_buffer_len r))) = Ok bs' /\ f154_parse bs' = Err 0.
Proof.
  cbv zeta. eexists. split; [reflexivity|]. split; [vm_compute; reflexivity|].
  split; [vm_compute; reflexivity|]. split; [vm_compute; reflexivity|].
  eexists. split; vm_compute; reflexivity.
Qed.

(* an acknowledgement (2003): no addressing fields for parse, but buffer_len reserves four octets
   for them which emit never writes *)
Example f154_emit_old_bytes_refuted_no_addressing :
  let bs := [2; 0; 9; 0; 0] in
  exists r, f154_new_checked bs = Ok tt /\ f154_parse bs = Ok r /\ f154_wf r = false /\
    f154_buffer_len r = 7 /\
    f154_emit r [0; 0; 0; 0; 0; 0; 0] <> f154_emit r [255; 255; 255; 255; 255; 255; 255].
Proof.
  cbv zeta. eexists. split; [vm_compute; reflexivity|]. split; [vm_compute; reflexivity|].
  split; [vm_compute; reflexivity|]. split; [vm_compute; reflexivity|]. vm_compute. discriminate.
Qed.

(* non-vacuity: the representation the interface emits (Data, 2003, compression, extended
   addresses) is well formed, and so is what the crate's `prepare_frame` test builds *)
Example f154_wf_example :
  f154_wf (mkF154 1 false false true (Some 1) true 2 (Some 43981) (Some (F154Short [255; 255])) None
             (Some (F154Ext [199; 217; 181; 20; 0; 75; 18; 0]))) = true.
Proof. vm_compute. reflexivity. Qed.

(* the layouts of [f154_wf] spelled out *)
Lemma f154_wf_table ver dm sm c : f154_known_mode dm = true -> f154_known_mode sm = true ->
  f154_layout_ok ver dm sm c =
  (((ver =? 0) || (ver =? 1)) && negb (dm =? 0) && (negb (sm =? 0) || c)) ||
  ((ver =? 2) && (((dm =? 0) && (sm =? 0) && c) ||
                  (negb (dm =? 0) && negb (sm =? 0) && negb ((dm =? 3) && (sm =? 3))))).
Proof.
  intros Hd Hs.
  assert (Hdm : dm = 0 \/ dm = 2 \/ dm = 3).
  { unfold f154_known_mode in Hd. apply orb_prop in Hd. destruct Hd as [Hd|Hd];
    [apply orb_prop in Hd; destruct Hd as [Hd|Hd]|]; apply Z.eqb_eq in Hd; lia. }
  assert (Hsm : sm = 0 \/ sm = 2 \/ sm = 3).
  { unfold f154_known_mode in Hs. apply orb_prop in Hs. destruct Hs as [Hs|Hs];
    [apply orb_prop in Hs; destruct Hs as [Hs|Hs]|]; apply Z.eqb_eq in Hs; lia. }
  assert (Hver : ver = 0 \/ ver = 1 \/ ver = 2 \/ (ver <> 0 /\ ver <> 1 /\ ver <> 2)) by lia.
  destruct Hver as [-> | [-> | [-> | (N0 & N1 & N2)]]];
    destruct Hdm as [-> | [-> | ->]]; destruct Hsm as [-> | [-> | ->]]; destruct c;
    try (vm_compute; reflexivity);
    unfold f154_layout_ok, f154_flags, f154_FV_2003, f154_FV_2006, f154_FV_2015;
    replace (ver =? 0) with false by (symmetry; apply Z.eqb_neq; lia);
    replace (ver =? 1) with false by (symmetry; apply Z.eqb_neq; lia);
    replace (ver =? 2) with false by (symmetry; apply Z.eqb_neq; lia); reflexivity.
Qed.
